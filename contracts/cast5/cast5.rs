// Contracts on cast5/src/lib.rs and cast5/src/schedule.rs (one type, `Cast5`) against bcref::cast5 (RFC 2144).
//
//   tables            S1..S8 are the RFC's appendix A tables (entry by entry)
//   round functions   the macros f1! / f2! / f3! == the three function types of section 2.2, every (D, Km, Kr)
//   key schedule      schedule::key_schedule == sixteen consecutive subkeys of section 2.4 (K1..K16, carrying x on);
//                     Cast5::key_schedule == Km = K1..K16, Kr = low 5 bits of K17..K32
//   constructors      new_from_slice: zero padding, 12 rounds up to 80 bits / 16 above, for every length 5..=16
//   block functions   encrypt_block / decrypt_block == section 2.1 for EVERY state (masking, rotate, small_key)
//   round trip        over the block-function contracts; the reference's round function is replaced by an
//                     uninterpreted function (a Feistel network is invertible whatever f is)
//
// The rounds are macro-expanded straight-line code indexing `const` tables: there is no helper to replace inside the
// block functions or the key schedule, so their contracts compare the real code with the reference directly.
//
// STATUS.  Equivalence over symbolic lookups in the 256 x 32-bit S-boxes is hopeless for the SAT back ends (CBMC encodes
// a lookup in a constant table as 256 implications on fresh result bits: one round function, four lookups per side,
// takes ~500 s with CaDiCaL, and even two copies of the SAME macro on the SAME index do not finish in 200 s), but cheap
// for the SMT back end, which keeps the tables as arrays: with `#[kani::solver(z3)]` the three round functions take
// 0.1 s each and schedule::key_schedule (c_cast5_schedule_fn, 160 lookups per side) 3 s.  Both are registered.
// The block functions (c_cast5_enc_state / c_cast5_dec_state) are still NOT discharged and stay `@candidate` (ignored by
// the ledger; the obligations that compose over them say so in `uses=`).  What was measured for them:
//   * sixteen rounds of the macros f1!/f2!/f3! written out in a harness == bcref::cast5::encrypt_words: z3 7-12 s;
//   * the real encrypt_block (same rounds behind InOut / slice / try_into / from_be_bytes / copy_from_slice): z3 and cvc5
//     > 300 s, already when only the input conversion is added to the harness-level rounds (the byte plumbing through
//     pointers defeats the term-level sharing the SMT solver relies on); SAT solvers > 600 s;
//   * the reference's round functions replaced by wrappers of the real macros (same tables on both sides): no help;
//   * lock-step cuts (u32::wrapping_add / wrapping_sub / rotate_left stubbed on both sides by a transcript that asserts
//     and then assumes argument equality call by call, so that every cut compares at most two lookups): CaDiCaL > 400 s,
//     z3 > 300 s.  `u32::rotate_left` etc. CAN be stubbed (`#[kani::stub(u32::rotate_left, f)]`), which is the only
//     observation point inside the macro-expanded rounds.
// What IS discharged for conformance: the tables, the three round functions, schedule::key_schedule, the RFC's appendix B.1
// vectors through the real constructor and block functions (x_cast5_rfc_vectors), and all the composition / plumbing
// obligations.
//
// @module file=cast5/src/lib.rs
// @config name=zeroize features=zeroize
use super::*;
use crate::consts::{S1, S2, S3, S4, S5, S6, S7, S8};
use cipher::{Array, KeyInit};
include!("@VERIF@/contracts/_common/common.rs");
include!("@VERIF@/contracts/cast5/group_macros.rs");

pub fn any_cast5() -> Cast5 { Cast5 { masking: kani::any(), rotate: kani::any(), small_key: kani::any() } }
type Snap = ([u32; 16], [u8; 16], bool);
fn snap(c: &Cast5) -> Snap { (c.masking, c.rotate, c.small_key) }
fn eq16w(a: &[u32; 16], b: &[u32; 16]) -> bool {
    let mut ok = true;
    let mut i = 0;
    while i < 16 {
        ok &= a[i] == b[i];
        i += 1;
    }
    ok
}
fn eq16b(a: &[u8; 16], b: &[u8; 16]) -> bool {
    let mut ok = true;
    let mut i = 0;
    while i < 16 {
        ok &= a[i] == b[i];
        i += 1;
    }
    ok
}
fn eqsnap(a: &Snap, b: &Snap) -> bool { eq16w(&a.0, &b.0) && eq16b(&a.1, &b.1) && a.2 == b.2 }
fn same(a: &Cast5, b: &Cast5) -> bool { eqsnap(&snap(a), &snap(b)) }
fn rounds(c: &Cast5) -> usize { if c.small_key { 12 } else { 16 } }

// ---------------------------------------------------------------- tables
// @ob name=x_cast5_sboxes props=C09 kind=exhaustive fn=cast5::consts::S1,cast5::consts::S5 timeout=600
#[kani::proof]
#[kani::unwind(258)]
fn x_cast5_sboxes() {
    let mut i = 0;
    while i < 256 {
        assert!(S1[i] == bcref::cast5::S1[i] && S2[i] == bcref::cast5::S2[i] && S3[i] == bcref::cast5::S3[i] && S4[i] == bcref::cast5::S4[i]);
        assert!(S5[i] == bcref::cast5::S5[i] && S6[i] == bcref::cast5::S6[i] && S7[i] == bcref::cast5::S7[i] && S8[i] == bcref::cast5::S8[i]);
        i += 1;
    }
}

// RFC 2144 appendix B.1 through the real code (concrete execution inside the verifier): 128-, 80- and 40-bit key
// @ob name=x_cast5_rfc_vectors props=C09,C20 kind=bounded bound="the three RFC 2144 B.1 vectors, both directions (concrete inputs)" fn=cast5::Cast5::new_from_slice,cast5::Cast5::key_schedule,cast5::schedule::key_schedule,cast5::Cast5::encrypt_block,cast5::Cast5::decrypt_block timeout=900
#[kani::proof]
#[kani::unwind(18)]
fn x_cast5_rfc_vectors() {
    let key: [u8; 16] = [0x01, 0x23, 0x45, 0x67, 0x12, 0x34, 0x56, 0x78, 0x23, 0x45, 0x67, 0x89, 0x34, 0x56, 0x78, 0x9A];
    let pt: [u8; 8] = [0x01, 0x23, 0x45, 0x67, 0x89, 0xAB, 0xCD, 0xEF];
    let lens: [usize; 3] = [16, 10, 5];
    let cts: [u64; 3] = [0x238B4FE5847E44B2, 0xEB6A711A2C02271B, 0x7AC816D16E9B302E];
    let mut t = 0;
    while t < 3 {
        let c = Cast5::new_from_slice(&key[..lens[t]]).unwrap();
        let (km, kr) = bcref::cast5::key_schedule(&bcref::cast5::pad_key(&key[..lens[t]]));
        assert!(eq16w(&c.masking, &km) && eq16b(&c.rotate, &kr));
        let mut blk = Array(pt);
        cipher::BlockCipherEncrypt::encrypt_block(&c, &mut blk);
        assert!(u64::from_be_bytes(blk.0) == cts[t]);
        assert!(blk.0 == bcref::cast5::encrypt(&key[..lens[t]], &pt));
        cipher::BlockCipherDecrypt::decrypt_block(&c, &mut blk);
        assert!(blk.0 == pt);
        t += 1;
    }
}

// ---------------------------------------------------------------- round functions (macros of lib.rs)
// (four lookups in 256 x 32-bit tables on each side: 494 s with CaDiCaL, under 1 s with z3 -- the SMT back end keeps the
// tables as arrays (select over a store chain) instead of CBMC's 256 implications per lookup)
// @ob name=c_cast5_f1 props=C09,C20 solver=z3 fn=cast5::f1 timeout=300
#[kani::proof]
#[kani::solver(z3)]
fn c_cast5_f1() {
    let (d, m, r): (u32, u32, u8) = (kani::any(), kani::any(), kani::any());
    assert!(f1!(d, m, r) == bcref::cast5::f1(d, m, r));
}
// @ob name=c_cast5_f2 props=C09,C20 solver=z3 fn=cast5::f2 timeout=300
#[kani::proof]
#[kani::solver(z3)]
fn c_cast5_f2() {
    let (d, m, r): (u32, u32, u8) = (kani::any(), kani::any(), kani::any());
    assert!(f2!(d, m, r) == bcref::cast5::f2(d, m, r));
}
// @ob name=c_cast5_f3 props=C09,C20 solver=z3 fn=cast5::f3 timeout=300
#[kani::proof]
#[kani::solver(z3)]
fn c_cast5_f3() {
    let (d, m, r): (u32, u32, u8) = (kani::any(), kani::any(), kani::any());
    assert!(f3!(d, m, r) == bcref::cast5::f3(d, m, r));
}

// ---------------------------------------------------------------- key schedule
fn x_bytes(x: &[u32; 4]) -> [u8; 16] {
    let mut b = [0u8; 16];
    let mut i = 0;
    while i < 4 {
        b[4 * i] = (x[i] >> 24) as u8;
        b[4 * i + 1] = (x[i] >> 16) as u8;
        b[4 * i + 2] = (x[i] >> 8) as u8;
        b[4 * i + 3] = x[i] as u8;
        i += 1;
    }
    b
}
fn x_words(b: &[u8; 16]) -> [u32; 4] {
    let mut x = [0u32; 4];
    let mut i = 0;
    while i < 4 {
        x[i] = ((b[4 * i] as u32) << 24) | ((b[4 * i + 1] as u32) << 16) | ((b[4 * i + 2] as u32) << 8) | b[4 * i + 3] as u32;
        i += 1;
    }
    x
}
/// contract of schedule::key_schedule: k = the next sixteen subkeys, x = the key bytes to carry on with
/// (z is scratch: its final value is not part of the contract, no caller reads it)
pub fn spec_key_schedule(x: &mut [u32], _z: &mut [u32], k: &mut [u32]) {
    let xin = [x[0], x[1], x[2], x[3]];
    let (ks, xn) = bcref::cast5::sixteen_keys(&x_bytes(&xin));
    let xw = x_words(&xn);
    let mut i = 0;
    while i < 4 {
        x[i] = xw[i];
        i += 1;
    }
    let mut i = 0;
    while i < 16 {
        k[i] = ks[i];
        i += 1;
    }
}

// the long straight-line function against the RFC's byte-indexed description, every x (160 lookups per side).
// Both sides are XORs of S-box words selected by byte extractions, which the SMT solver normalises to the same terms:
// z3 3.5 s (cvc5 4 s), every SAT back end > 1 h.  Sanity: with `k[15] == ks[15] ^ 1` and one symbolic key byte the
// obligation is refuted in 4 s.
// @ob name=c_cast5_schedule_fn props=C09,C20 solver=z3 fn=cast5::schedule::key_schedule timeout=300
#[kani::proof]
#[kani::solver(z3)]
#[kani::unwind(18)]
fn c_cast5_schedule_fn() {
    let x0: [u32; 4] = kani::any();
    let mut x = x0;
    let mut z: [u32; 4] = kani::any();
    let mut k: [u32; 16] = kani::any();
    crate::schedule::key_schedule(&mut x, &mut z, &mut k);
    let mut xs = x0;
    let mut zs = [0u32; 4];
    let mut ks = [0u32; 16];
    spec_key_schedule(&mut xs, &mut zs, &mut ks);
    assert!(eq16w(&k, &ks));
    assert!(x[0] == xs[0] && x[1] == xs[1] && x[2] == xs[2] && x[3] == xs[3]);
}

/// uninterpreted `sixteen_keys` (16 key bytes -> 16 subkeys + 16 bytes), for the composition obligations
pub mod ufs {
    pub const MAXC: usize = 12;
    pub static mut X: [[u8; 16]; MAXC] = [[0; 16]; MAXC];
    pub static mut K: [[u32; 16]; MAXC] = [[0; 16]; MAXC];
    pub static mut Y: [[u8; 16]; MAXC] = [[0; 16]; MAXC];
    pub static mut N: usize = 0;
    #[allow(static_mut_refs)]
    pub fn sixteen_keys(x: &[u8; 16]) -> ([u32; 16], [u8; 16]) {
        unsafe {
            let mut r: ([u32; 16], [u8; 16]) = (kani::any(), kani::any());
            let mut found = false;
            let mut c = 0;
            while c < N {
                if !found && super::eq16b(&X[c], x) { r = (K[c], Y[c]); found = true; }
                c += 1;
            }
            assert!(N < MAXC);
            X[N] = *x; K[N] = r.0; Y[N] = r.1; N += 1;
            r
        }
    }
}

// Cast5::key_schedule: Km = K1..K16, Kr = low five bits of K17..K32, for every 16-byte key
// @ob name=c_cast5_key_schedule props=C09,C20 fn=cast5::Cast5::key_schedule uses=c_cast5_schedule_fn timeout=300
#[kani::proof]
#[kani::stub(crate::schedule::key_schedule, spec_key_schedule)]
#[kani::stub(bcref::cast5::sixteen_keys, ufs::sixteen_keys)]
#[kani::unwind(18)]
fn c_cast5_key_schedule() {
    let key: [u8; 16] = kani::any();
    let mut c = any_cast5();
    let small = c.small_key;
    c.key_schedule(&key[..]);
    let (km, kr) = bcref::cast5::key_schedule(&key);
    assert!(eq16w(&c.masking, &km) && eq16b(&c.rotate, &kr));
    assert!(c.small_key == small);
    let mut i = 0;
    while i < 16 {
        assert!(c.rotate[i] < 32);
        i += 1;
    }
}

// new_from_slice for every accepted length: right zero padding, RFC key schedule, 12 rounds iff at most 80 bits
// @ob name=c_cast5_new props=C09,C11,C20 fn=cast5::Cast5::new_from_slice,cast5::Cast5::new,cast5::Cast5::init_state
//     uses=c_cast5_schedule_fn timeout=600
#[kani::proof]
#[kani::stub(crate::schedule::key_schedule, spec_key_schedule)]
#[kani::stub(bcref::cast5::sixteen_keys, ufs::sixteen_keys)]
#[kani::unwind(18)]
fn c_cast5_new() {
    let buf: [u8; 16] = kani::any();
    let n: usize = kani::any();
    kani::assume(5 <= n && n <= 16);
    kani::cover!(n == 5);
    kani::cover!(n == 10);
    kani::cover!(n == 11);
    kani::cover!(n == 16);
    let c = Cast5::new_from_slice(&buf[..n]).unwrap();
    let (km, kr) = bcref::cast5::key_schedule(&bcref::cast5::pad_key(&buf[..n]));
    assert!(eq16w(&c.masking, &km) && eq16b(&c.rotate, &kr));
    assert!(rounds(&c) == bcref::cast5::rounds_for_key_len(n));
    if n == 16 {
        let d = Cast5::new(&Array(buf));
        assert!(same(&c, &d));
    }
}

// C11: a key above 80 bits and its explicitly zero-padded 16-byte form give the same cipher (11..=15 bytes)
// @ob name=k_cast5_padded props=C11 fn=cast5::Cast5::new_from_slice uses=c_cast5_schedule_fn timeout=600
#[kani::proof]
#[kani::stub(crate::schedule::key_schedule, spec_key_schedule)]
#[kani::stub(bcref::cast5::sixteen_keys, ufs::sixteen_keys)]
#[kani::unwind(18)]
fn k_cast5_padded() {
    let buf: [u8; 16] = kani::any();
    let n: usize = kani::any();
    kani::assume(11 <= n && n <= 15);
    kani::cover!(n == 11);
    kani::cover!(n == 15);
    let mut padded = [0u8; 16];
    let mut i = 0;
    while i < 16 {
        if i < n { padded[i] = buf[i]; }
        i += 1;
    }
    let c = Cast5::new_from_slice(&buf[..n]).unwrap();
    let d = Cast5::new_from_slice(&padded[..]).unwrap();
    let e = Cast5::new(&Array(padded));
    assert!(same(&c, &d) && same(&c, &e));
}

// ---------------------------------------------------------------- block functions
pub fn spec_enc_block(c: &Cast5, mut block: InOut<'_, '_, Block<Cast5>>) {
    let b = block.get_in().0;
    *block.get_out() = Array(bcref::cast5::encrypt_with(&c.masking, &c.rotate, rounds(c), &b));
}
pub fn spec_dec_block(c: &Cast5, mut block: InOut<'_, '_, Block<Cast5>>) {
    let b = block.get_in().0;
    *block.get_out() = Array(bcref::cast5::decrypt_with(&c.masking, &c.rotate, rounds(c), &b));
}

// (NOT discharged in the contributing session -- see the note at the top of this file: not registered)
// @candidate name=c_cast5_enc_state props=C09,C20 fn=cast5::Cast5::encrypt_block,cast5::f1,cast5::f2,cast5::f3 timeout=900
#[kani::proof]
#[kani::unwind(18)]
fn c_cast5_enc_state() {
    let c = any_cast5();
    let b: [u8; 8] = kani::any();
    let mut blk = Array(b);
    cipher::BlockCipherEncrypt::encrypt_block(&c, &mut blk);
    let r = bcref::cast5::encrypt_with(&c.masking, &c.rotate, rounds(&c), &b);
    assert!(u64::from_be_bytes(blk.0) == u64::from_be_bytes(r));
}
// (NOT discharged in the contributing session -- see the note at the top of this file: not registered)
// @candidate name=c_cast5_dec_state props=C09,C20 fn=cast5::Cast5::decrypt_block,cast5::f1,cast5::f2,cast5::f3 timeout=900
#[kani::proof]
#[kani::unwind(18)]
fn c_cast5_dec_state() {
    let c = any_cast5();
    let b: [u8; 8] = kani::any();
    let mut blk = Array(b);
    cipher::BlockCipherDecrypt::decrypt_block(&c, &mut blk);
    let r = bcref::cast5::decrypt_with(&c.masking, &c.rotate, rounds(&c), &b);
    assert!(u64::from_be_bytes(blk.0) == u64::from_be_bytes(r));
}

/// uninterpreted block pair on (direction, words, Km, Kr, rounds) standing for bcref::cast5::{encrypt,decrypt}_words
pub mod ufb {
    pub const MAXC: usize = 8;
    pub static mut D: [bool; MAXC] = [false; MAXC];
    pub static mut L: [(u32, u32, usize); MAXC] = [(0, 0, 0); MAXC];
    pub static mut KM: [[u32; 16]; MAXC] = [[0; 16]; MAXC];
    pub static mut KR: [[u8; 16]; MAXC] = [[0; 16]; MAXC];
    pub static mut R: [(u32, u32); MAXC] = [(0, 0); MAXC];
    pub static mut N: usize = 0;
    #[allow(static_mut_refs)]
    fn block(dec: bool, l: u32, r: u32, km: &[u32; 16], kr: &[u8; 16], rounds: usize) -> (u32, u32) {
        unsafe {
            let mut y: (u32, u32) = (kani::any(), kani::any());
            let mut found = false;
            let mut c = 0;
            while c < N {
                let eq = D[c] == dec && L[c].0 == l && L[c].1 == r && L[c].2 == rounds && super::eq16w(&KM[c], km) && super::eq16b(&KR[c], kr);
                if !found && eq { y = R[c]; found = true; }
                c += 1;
            }
            assert!(N < MAXC);
            D[N] = dec; L[N] = (l, r, rounds); KM[N] = *km; KR[N] = *kr; R[N] = y; N += 1;
            y
        }
    }
    pub fn enc(l: u32, r: u32, km: &[u32; 16], kr: &[u8; 16], rounds: usize) -> (u32, u32) { block(false, l, r, km, kr, rounds) }
    pub fn dec(l: u32, r: u32, km: &[u32; 16], kr: &[u8; 16], rounds: usize) -> (u32, u32) { block(true, l, r, km, kr, rounds) }
}

// Public API on bytes: new_from_slice + encrypt_block / decrypt_block == CAST-128 for every key length 5..=16,
// key and block (composition over the contracts above)
// @ob name=c_cast5_bytes_api props=C09,C20 fn=cast5::Cast5::new_from_slice,cast5::Cast5::encrypt_block,cast5::Cast5::decrypt_block
//     uses=c_cast5_schedule_fn,c_cast5_enc_state,c_cast5_dec_state timeout=600
#[kani::proof]
#[kani::stub(crate::schedule::key_schedule, spec_key_schedule)]
#[kani::stub(bcref::cast5::sixteen_keys, ufs::sixteen_keys)]
#[kani::stub(<Cast5 as BlockCipherEncBackend>::encrypt_block, spec_enc_block)]
#[kani::stub(<Cast5 as BlockCipherDecBackend>::decrypt_block, spec_dec_block)]
#[kani::stub(bcref::cast5::encrypt_words, ufb::enc)]
#[kani::stub(bcref::cast5::decrypt_words, ufb::dec)]
#[kani::unwind(18)]
fn c_cast5_bytes_api() {
    let buf: [u8; 16] = kani::any();
    let n: usize = kani::any();
    kani::assume(5 <= n && n <= 16);
    kani::cover!(n == 5);
    kani::cover!(n == 16);
    let b: [u8; 8] = kani::any();
    let c = Cast5::new_from_slice(&buf[..n]).unwrap();
    let mut blk = Array(b);
    cipher::BlockCipherEncrypt::encrypt_block(&c, &mut blk);
    assert!(blk.0 == bcref::cast5::encrypt(&buf[..n], &b));
    let mut blk = Array(b);
    cipher::BlockCipherDecrypt::decrypt_block(&c, &mut blk);
    assert!(blk.0 == bcref::cast5::decrypt(&buf[..n], &b));
}

// ---------------------------------------------------------------- C01 round trip
/// uninterpreted round function (round, D, Km, Kr) -> u32 standing for bcref::cast5::f; rows are kept in 16 slots by
/// the (concrete) round number, so a call only looks at earlier calls of the same round (fewer consistency
/// constraints than hold: still a sound abstraction)
pub mod uff {
    pub const SLOTS: usize = 17;
    pub const PER: usize = 4;
    pub static mut A: [[(u32, u32, u8); PER]; SLOTS] = [[(0, 0, 0); PER]; SLOTS];
    pub static mut R: [[u32; PER]; SLOTS] = [[0; PER]; SLOTS];
    pub static mut CNT: [usize; SLOTS] = [0; SLOTS];
    #[allow(static_mut_refs)]
    pub fn f(round: usize, d: u32, km: u32, kr: u8) -> u32 {
        unsafe {
            assert!(1 <= round && round <= 16);
            let s = round;
            let mut y: u32 = kani::any();
            let mut found = false;
            let mut c = 0;
            while c < CNT[s] {
                if !found && A[s][c].0 == d && A[s][c].1 == km && A[s][c].2 == kr { y = R[s][c]; found = true; }
                c += 1;
            }
            assert!(CNT[s] < PER);
            A[s][CNT[s]] = (d, km, kr); R[s][CNT[s]] = y; CNT[s] += 1;
            y
        }
    }
}
// decrypt(encrypt(b)) == b and encrypt(decrypt(b)) == b on the public block calls, for every state
// @ob name=l_cast5_roundtrip props=C01 kind=lemma fn=cast5::Cast5::encrypt_block,cast5::Cast5::decrypt_block
//     uses=c_cast5_enc_state,c_cast5_dec_state timeout=600
#[kani::proof]
#[kani::stub(<Cast5 as BlockCipherEncBackend>::encrypt_block, spec_enc_block)]
#[kani::stub(<Cast5 as BlockCipherDecBackend>::decrypt_block, spec_dec_block)]
#[kani::stub(bcref::cast5::f, uff::f)]
#[kani::unwind(18)]
fn l_cast5_roundtrip() {
    let c = any_cast5();
    let b: [u8; 8] = kani::any();
    let mut blk = Array(b);
    cipher::BlockCipherEncrypt::encrypt_block(&c, &mut blk);
    cipher::BlockCipherDecrypt::decrypt_block(&c, &mut blk);
    assert!(blk.0 == b);
    cipher::BlockCipherDecrypt::decrypt_block(&c, &mut blk);
    cipher::BlockCipherEncrypt::encrypt_block(&c, &mut blk);
    assert!(blk.0 == b);
}
// the same on the real code with nothing replaced
// (NOT discharged in the contributing session -- see the note at the top of this file: not registered)
// @candidate name=l_cast5_mono_roundtrip props=C01 kind=lemma tier=thorough fn=cast5::Cast5::encrypt_block,cast5::Cast5::decrypt_block timeout=3600
#[kani::proof]
#[kani::unwind(18)]
fn l_cast5_mono_roundtrip() {
    let c = any_cast5();
    let b: [u8; 8] = kani::any();
    let mut blk = Array(b);
    cipher::BlockCipherEncrypt::encrypt_block(&c, &mut blk);
    cipher::BlockCipherDecrypt::decrypt_block(&c, &mut blk);
    assert!(u64::from_be_bytes(blk.0) == u64::from_be_bytes(b));
}

// ---------------------------------------------------------------- C11 / C12 / C13 / C19 / C16
fn cheap_schedule(_x: &mut [u32], _z: &mut [u32], _k: &mut [u32]) {}
// @ob name=k_cast5_len props=C11 kind=bounded bound="slice length <= 300" fn=cast5::Cast5::new_from_slice timeout=300
keylen!(#[kani::stub(crate::schedule::key_schedule, cheap_schedule)] #[kani::unwind(18)] k_cast5_len, Cast5, |n| 5 <= n && n <= 16, 5, 16);

// @ob name=k_cast5_clone props=C12 fn=cast5::Cast5::clone timeout=300
#[kani::proof]
#[kani::unwind(18)]
fn k_cast5_clone() {
    let c = any_cast5();
    let d = c.clone();
    assert!(same(&c, &d));
}

// @ob name=w_cast5_never_weak props=C13 fn=cast5::Cast5::weak_key_test,cast5::Cast5::new_checked uses=c_cast5_schedule_fn timeout=300
never_weak!(#[kani::stub(crate::schedule::key_schedule, spec_key_schedule)] #[kani::stub(bcref::cast5::sixteen_keys, ufs::sixteen_keys)] #[kani::unwind(18)]
    w_cast5_never_weak, Cast5, 16, same);

// @ob name=n_cast5_names props=C19 fn=cast5::Cast5::fmt,cast5::Cast5::write_alg_name timeout=300
names!(n_cast5_names, Cast5, any_cast5(), "Cast5");

// Cast5 has padding bytes after `small_key` (never written, independent of the key), so the C16 statement is
// made field by field: every byte of masking, rotate and small_key reads as zero after the drop.
macro_rules! cast5_zero_on_drop {
    ($name:ident, $mk:expr) => {
        #[kani::proof]
        #[kani::unwind(70)]
        fn $name() {
            let mut m = core::mem::ManuallyDrop::new($mk);
            let p: *const Cast5 = &*m;
            unsafe { core::mem::ManuallyDrop::drop(&mut m); }
            unsafe {
                assert!(all_bytes_zero(core::ptr::addr_of!((*p).masking)));
                assert!(all_bytes_zero(core::ptr::addr_of!((*p).rotate)));
                assert!(core::ptr::read_volatile(core::ptr::addr_of!((*p).small_key) as *const u8) == 0);
            }
            assert!(core::mem::size_of::<Cast5>() <= 64 + 16 + 4);
        }
    };
}
// @ob name=z_cast5_any props=C16 cfg=zeroize fn=cast5::Cast5::drop timeout=300
cast5_zero_on_drop!(z_cast5_any, any_cast5());
// @ob name=z_cast5_clone props=C16,C12 cfg=zeroize fn=cast5::Cast5::drop,cast5::Cast5::clone timeout=300
cast5_zero_on_drop!(z_cast5_clone, any_cast5().clone());

// ---------------------------------------------------------------- C04 / C15 multi-block plumbing
fn uf_block(_c: &Cast5, mut block: InOut<'_, '_, Block<Cast5>>) {
    let b = block.get_in().0;
    *block.get_out() = Array(uf::uf64(u64::from_be_bytes(b)).to_be_bytes());
}
// @ob name=m_cast5_enc_blocks_0 props=C04,C15 kind=bounded bound="n = 0 blocks" fn=cast5::Cast5::encrypt_with_backend uses=c_cast5_enc_state timeout=300
multi_block!(#[kani::stub(<Cast5 as BlockCipherEncBackend>::encrypt_block, uf_block)] #[kani::unwind(30)]
    m_cast5_enc_blocks_0, 0, any_cast5(), snap, eqsnap, BlockCipherEncrypt, encrypt_block, encrypt_blocks, encrypt_blocks_b2b);
// @ob name=m_cast5_enc_blocks_1 props=C04,C15 kind=bounded bound="n = 1 block" fn=cast5::Cast5::encrypt_with_backend uses=c_cast5_enc_state timeout=300
multi_block!(#[kani::stub(<Cast5 as BlockCipherEncBackend>::encrypt_block, uf_block)] #[kani::unwind(30)]
    m_cast5_enc_blocks_1, 1, any_cast5(), snap, eqsnap, BlockCipherEncrypt, encrypt_block, encrypt_blocks, encrypt_blocks_b2b);
// @ob name=m_cast5_enc_blocks_3 props=C04,C15 kind=bounded bound="n = 3 blocks" fn=cast5::Cast5::encrypt_with_backend uses=c_cast5_enc_state timeout=300
multi_block!(#[kani::stub(<Cast5 as BlockCipherEncBackend>::encrypt_block, uf_block)] #[kani::unwind(30)]
    m_cast5_enc_blocks_3, 3, any_cast5(), snap, eqsnap, BlockCipherEncrypt, encrypt_block, encrypt_blocks, encrypt_blocks_b2b);
// @ob name=m_cast5_dec_blocks_0 props=C04,C15 kind=bounded bound="n = 0 blocks" fn=cast5::Cast5::decrypt_with_backend uses=c_cast5_dec_state timeout=300
multi_block!(#[kani::stub(<Cast5 as BlockCipherDecBackend>::decrypt_block, uf_block)] #[kani::unwind(30)]
    m_cast5_dec_blocks_0, 0, any_cast5(), snap, eqsnap, BlockCipherDecrypt, decrypt_block, decrypt_blocks, decrypt_blocks_b2b);
// @ob name=m_cast5_dec_blocks_1 props=C04,C15 kind=bounded bound="n = 1 block" fn=cast5::Cast5::decrypt_with_backend uses=c_cast5_dec_state timeout=300
multi_block!(#[kani::stub(<Cast5 as BlockCipherDecBackend>::decrypt_block, uf_block)] #[kani::unwind(30)]
    m_cast5_dec_blocks_1, 1, any_cast5(), snap, eqsnap, BlockCipherDecrypt, decrypt_block, decrypt_blocks, decrypt_blocks_b2b);
// @ob name=m_cast5_dec_blocks_3 props=C04,C15 kind=bounded bound="n = 3 blocks" fn=cast5::Cast5::decrypt_with_backend uses=c_cast5_dec_state timeout=300
multi_block!(#[kani::stub(<Cast5 as BlockCipherDecBackend>::decrypt_block, uf_block)] #[kani::unwind(30)]
    m_cast5_dec_blocks_3, 3, any_cast5(), snap, eqsnap, BlockCipherDecrypt, decrypt_block, decrypt_blocks, decrypt_blocks_b2b);

