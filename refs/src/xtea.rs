//! XTEA, written from R. Needham and D. Wheeler, "Tea extensions" (technical report, Computer Laboratory,
//! University of Cambridge, October 1997), routine `tean` (the "new variant"), with N = 32 cycles:
//!
//! ```text
//!   while (sum != limit)
//!       y += (z<<4 ^ z>>5) + z ^ sum + k[sum&3],
//!       sum += DELTA,
//!       z += (y<<4 ^ y>>5) + y ^ sum + k[sum>>11 & 3];
//! ```
//! (C precedence: `+` binds tighter than `^`, so each line is  `((z<<4 ^ z>>5) + z) ^ (sum + k[..])`.)
//! Decoding runs the same two half-cycles backwards starting from `sum = DELTA * N`.
//! The report works on 32-bit words; a byte convention is not part of it.  `encrypt_le` / `decrypt_le`
//! fix the convention named by property C09: key and block words are read and written little-endian.

pub const DELTA: u32 = 0x9E37_79B9;
/// number of cycles (one cycle = two Feistel half-rounds)
pub const CYCLES: u32 = 32;

/// The mixing term of one half-cycle: `((v<<4 ^ v>>5) + v) ^ (sum + k[idx])`.
pub const fn term(v: u32, sum: u32, kword: u32) -> u32 {
    (((v << 4) ^ (v >> 5)).wrapping_add(v)) ^ sum.wrapping_add(kword)
}

/// One full encoding cycle: returns (y, z, sum) after the cycle.
pub const fn cycle(y: u32, z: u32, sum: u32, k: &[u32; 4]) -> (u32, u32, u32) {
    let y = y.wrapping_add(term(z, sum, k[(sum & 3) as usize]));
    let sum = sum.wrapping_add(DELTA);
    let z = z.wrapping_add(term(y, sum, k[((sum >> 11) & 3) as usize]));
    (y, z, sum)
}

/// One full decoding cycle (exact inverse of `cycle`): takes the state *after* a cycle, returns the one before.
pub const fn uncycle(y: u32, z: u32, sum: u32, k: &[u32; 4]) -> (u32, u32, u32) {
    let z = z.wrapping_sub(term(y, sum, k[((sum >> 11) & 3) as usize]));
    let sum = sum.wrapping_sub(DELTA);
    let y = y.wrapping_sub(term(z, sum, k[(sum & 3) as usize]));
    (y, z, sum)
}

/// `tean(v, k, +32)` on words.
pub const fn encrypt_words(v: [u32; 2], k: &[u32; 4]) -> [u32; 2] {
    let (mut y, mut z, mut sum) = (v[0], v[1], 0u32);
    let mut n = 0;
    while n < CYCLES {
        let r = cycle(y, z, sum, k);
        y = r.0;
        z = r.1;
        sum = r.2;
        n += 1;
    }
    [y, z]
}

/// `tean(v, k, -32)` on words.
pub const fn decrypt_words(v: [u32; 2], k: &[u32; 4]) -> [u32; 2] {
    let (mut y, mut z, mut sum) = (v[0], v[1], DELTA.wrapping_mul(CYCLES));
    let mut n = 0;
    while n < CYCLES {
        let r = uncycle(y, z, sum, k);
        y = r.0;
        z = r.1;
        sum = r.2;
        n += 1;
    }
    [y, z]
}

pub const fn le32(b: &[u8], at: usize) -> u32 {
    (b[at] as u32) | ((b[at + 1] as u32) << 8) | ((b[at + 2] as u32) << 16) | ((b[at + 3] as u32) << 24)
}

pub const fn key_words_le(key: &[u8; 16]) -> [u32; 4] {
    [le32(key, 0), le32(key, 4), le32(key, 8), le32(key, 12)]
}

const fn out_le(v: [u32; 2]) -> [u8; 8] {
    let a = v[0].to_le_bytes();
    let b = v[1].to_le_bytes();
    [a[0], a[1], a[2], a[3], b[0], b[1], b[2], b[3]]
}

/// 32-cycle XTEA over little-endian words (property C09).
pub const fn encrypt_le(key: &[u8; 16], block: &[u8; 8]) -> [u8; 8] {
    out_le(encrypt_words([le32(block, 0), le32(block, 4)], &key_words_le(key)))
}
pub const fn decrypt_le(key: &[u8; 16], block: &[u8; 8]) -> [u8; 8] {
    out_le(decrypt_words([le32(block, 0), le32(block, 4)], &key_words_le(key)))
}

#[cfg(test)]
mod tests {
    use super::*;

    fn be_words(key: [u8; 16], pt: [u8; 8]) -> ([u32; 4], [u32; 2]) {
        let mut k = [0u32; 4];
        for i in 0..4 {
            k[i] = u32::from_be_bytes([key[4 * i], key[4 * i + 1], key[4 * i + 2], key[4 * i + 3]]);
        }
        (k, [u32::from_be_bytes([pt[0], pt[1], pt[2], pt[3]]), u32::from_be_bytes([pt[4], pt[5], pt[6], pt[7]])])
    }

    // The report prints no vectors.  The widely circulated word-level vectors (Bouncy Castle XTEATest, which
    // reads words big-endian; at word level the convention is irrelevant) are used as the anchor.
    #[test]
    fn word_vectors() {
        let k0 = [0u8; 16];
        let k1 = [0x01, 0x23, 0x45, 0x67, 0x12, 0x34, 0x56, 0x78, 0x23, 0x45, 0x67, 0x89, 0x34, 0x56, 0x78, 0x9A];
        let k2 = [0, 1, 2, 3, 4, 5, 6, 7, 8, 9, 10, 11, 12, 13, 14, 15];
        let cases: [([u8; 16], u64, u64); 10] = [
            (k0, 0x0000000000000000, 0xdee9d4d8f7131ed9),
            (k0, 0x0102030405060708, 0x065c1b8975c6a816),
            (k1, 0x0000000000000000, 0x1ff9a0261ac64264),
            (k1, 0x0102030405060708, 0x8c67155b2ef91ead),
            (k2, 0x4142434445464748, 0x497df3d072612cb5),
            (k2, 0x4141414141414141, 0xe78f2d13744341d8),
            (k2, 0x5a5b6e278948d77f, 0x4141414141414141),
            (k0, 0x4142434445464748, 0xa0390589f8b8efa5),
            (k0, 0x4141414141414141, 0xed23375a821a8c2d),
            (k0, 0x70e1225d6e4e7655, 0x4141414141414141),
        ];
        for (key, pt, ct) in cases {
            let (k, v) = be_words(key, pt.to_be_bytes());
            let c = encrypt_words(v, &k);
            assert_eq!(((c[0] as u64) << 32) | c[1] as u64, ct);
            assert_eq!(decrypt_words(c, &k), v);
        }
    }

    // little-endian byte convention: the vector used by /repo/xtea/tests (asecuritysite.com/encryption/xtea)
    #[test]
    fn le_vector() {
        let key = *b"0123456789012345";
        let pt = *b"ABCDEFGH";
        let ct = [0xea, 0x0c, 0x3d, 0x7c, 0x1c, 0x22, 0x55, 0x7f];
        assert_eq!(encrypt_le(&key, &pt), ct);
        assert_eq!(decrypt_le(&key, &ct), pt);
    }

    #[test]
    fn cycle_inverse() {
        let k = [0xdeadbeef, 0x01234567, 0x89abcdef, 0x0badf00d];
        let mut s = (1u32, 2u32, 0u32);
        for _ in 0..40 {
            let n = cycle(s.0, s.1, s.2, &k);
            assert_eq!(uncycle(n.0, n.1, n.2, &k), s);
            s = n;
        }
    }
}
