use vstd::prelude::*;
verus! {
pub uninterp spec fn IP(x: u64) -> u64;
pub uninterp spec fn FP(x: u64) -> u64;
pub uninterp spec fn RND(x: u64, k: u64) -> u64;
pub uninterp spec fn ROR32(x: u64) -> u64;

#[verifier::external_body] fn ip(m: u64) -> (r: u64) ensures r == IP(m) { unimplemented!() }
#[verifier::external_body] fn fp(m: u64) -> (r: u64) ensures r == FP(m) { unimplemented!() }
#[verifier::external_body] fn round(input: u64, key: u64) -> (r: u64) ensures r == RND(input, key) { unimplemented!() }
#[verifier::external_body] fn rotr32(x: u64) -> (r: u64) ensures r == ROR32(x) { unimplemented!() }

pub open spec fn rounds(ks: Seq<u64>, x: u64, n: nat) -> u64 decreases n {
    if n == 0 { x } else { RND(rounds(ks, x, (n - 1) as nat), ks[n - 1]) }
}
pub open spec fn rounds_rev(ks: Seq<u64>, x: u64, n: nat) -> u64 decreases n {
    if n == 0 { x } else { RND(rounds_rev(ks, x, (n - 1) as nat), ks[16 - n]) }
}

pub struct Des { pub keys: [u64; 16] }
impl Des {
    fn encrypt(&self, mut data: u64) -> (r: u64)
        ensures r == FP(ROR32(rounds(self.keys@, IP(data), 16)))
    {
        let ghost d0 = data;
        data = ip(data);
        for key in it: &self.keys
            invariant data == rounds(self.keys@, IP(d0), it.index@ as nat)
        {
            data = round(data, *key);
        }
        fp(rotr32(data))
    }
    fn decrypt(&self, mut data: u64) -> (r: u64)
        ensures r == FP(ROR32(rounds_rev(self.keys@, IP(data), 16)))
    {
        let ghost d0 = data;
        data = ip(data);
        for key in it: self.keys.iter().rev()
            invariant data == rounds_rev(self.keys@, IP(d0), it.index@ as nat)
        {
            data = round(data, *key);
        }
        fp(rotr32(data))
    }
}
}
fn main() {}
