// Contracts on rc5/src/primitives.rs: the five `Word` implementations (u8, u16, u32, u64, u128) against the
// w-bit word operations of Rivest's paper, section 3 (bcref::rc5::{add, sub, rotl, rotr}, little-endian
// conversion, magic constants P_w = Odd((e-2)2^w), Q_w = Odd((phi-1)2^w)).
// One obligation per word type: every trait method and constant of that impl, for every argument value.
//
// @module file=rc5/src/primitives.rs
use super::*;
use bcref::rc5 as r;

/// word size and widening to the reference's u128 carrier
pub trait W128: Word + Copy {
    const W: u32;
    fn w128(self) -> u128;
}
impl W128 for u8 { const W: u32 = 8; fn w128(self) -> u128 { self as u128 } }
impl W128 for u16 { const W: u32 = 16; fn w128(self) -> u128 { self as u128 } }
impl W128 for u32 { const W: u32 = 32; fn w128(self) -> u128 { self as u128 } }
impl W128 for u64 { const W: u32 = 64; fn w128(self) -> u128 { self as u128 } }
impl W128 for u128 { const W: u32 = 128; fn w128(self) -> u128 { self } }

macro_rules! word_contract {
    ($name:ident, $ty:ty, $w:expr, $u:expr) => {
        #[kani::proof]
        #[kani::unwind(18)]
        fn $name() {
            let a: $ty = kani::any();
            let b: $ty = kani::any();
            let (x, y) = (a.w128(), b.w128());
            assert!(<$ty as W128>::W == $w && <<$ty as Word>::Bytes as cipher::typenum::Unsigned>::USIZE == $u);
            assert!(<$ty as Word>::ZERO.w128() == 0 && <$ty as Word>::THREE.w128() == 3 && <$ty as Word>::EIGHT.w128() == 8);
            assert!(<$ty as Word>::P.w128() == r::p_w($w));
            assert!(<$ty as Word>::Q.w128() == r::q_w($w));
            assert!(Word::wrapping_add(a, b).w128() == r::add($w, x, y));
            assert!(Word::wrapping_sub(a, b).w128() == r::sub($w, x, y));
            assert!(Word::rotate_left(a, b).w128() == r::rotl($w, x, y));
            assert!(Word::rotate_right(a, b).w128() == r::rotr($w, x, y));
            assert!(Word::bitxor(a, b).w128() == x ^ y);
            // rotations are mutually inverse and depend on the amount only mod w (C01 ingredients)
            assert!(Word::rotate_right(Word::rotate_left(a, b), b).w128() == x);
            // little-endian conversions
            let bytes: [u8; $u] = kani::any();
            let v = <$ty as Word>::from_le_bytes(&Array(bytes));
            assert!(v.w128() == r::word_from_le($w, &bytes));
            let back = Word::to_le_bytes(v);
            let mut i = 0;
            while i < $u {
                assert!(back.0[i] == bytes[i]);
                i += 1;
            }
        }
    };
}
// @ob name=c_word_u8 props=C10,C01,C20 fn=rc5::primitives::Word::u8 timeout=300
word_contract!(c_word_u8, u8, 8, 1);
// @ob name=c_word_u16 props=C10,C01,C20 fn=rc5::primitives::Word::u16 timeout=300
word_contract!(c_word_u16, u16, 16, 2);
// @ob name=c_word_u32 props=C10,C01,C20 fn=rc5::primitives::Word::u32 timeout=300
word_contract!(c_word_u32, u32, 32, 4);
// @ob name=c_word_u64 props=C10,C01,C20 fn=rc5::primitives::Word::u64 timeout=300
word_contract!(c_word_u64, u64, 64, 8);
// @ob name=c_word_u128 props=C10,C01,C20 fn=rc5::primitives::Word::u128 timeout=300
word_contract!(c_word_u128, u128, 128, 16);
