use super::*;
const MAXC: usize = 64;
static mut UF_IN: [[u32; 4]; MAXC] = [[0; 4]; MAXC];
static mut UF_OUT: [[u32; 4]; MAXC] = [[0; 4]; MAXC];
static mut UF_N: usize = 0;
// Ackermann-style uninterpreted function: same input (and same key object) => same output; otherwise unconstrained.
#[allow(static_mut_refs)]
fn uf_block(x: [u32; 4], _key: &[u32; 8]) -> [u32; 4] {
    unsafe {
        let mut y: [u32; 4] = kani::any();
        let mut found = false;
        let mut i = 0;
        while i < UF_N {
            if !found && UF_IN[i] == x { y = UF_OUT[i]; found = true; }
            i += 1;
        }
        UF_IN[UF_N] = x; UF_OUT[UF_N] = y; UF_N += 1;   // always append: UF_N stays concrete
        y
    }
}
macro_rules! wb { ($name:ident, $len:expr) => {
    #[kani::proof]
    #[kani::stub(super::belt_block_raw, uf_block)]
    #[kani::unwind(70)]
    fn $name() {
        let key: [u32; 8] = kani::any();
        let d0: [u8; $len] = kani::any();
        let mut d = d0;
        assert!(belt_wblock_enc(&mut d, &key).is_ok());
        assert!(belt_wblock_dec(&mut d, &key).is_ok());
        assert!(d == d0);
    }
}}
wb!(wblock_rt_32, 32);
wb!(wblock_rt_47, 47);
wb!(wblock_rt_48, 48);

#[kani::proof]
#[kani::unwind(40)]
fn wblock_short_rejected() {
    let key: [u32; 8] = kani::any();
    let arr: [u8; 31] = kani::any();
    let mut d = arr;
    let n: usize = kani::any(); kani::assume(n <= 31);
    assert!(belt_wblock_enc(&mut d[..n], &key).is_err());
    assert!(belt_wblock_dec(&mut d[..n], &key).is_err());
    assert!(d == arr);
}
