//! (reference for xtea: to be written)
