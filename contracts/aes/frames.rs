// Byte-level lemmas that turn the *lifted* leaf contracts of fixslice.rs into the *moving-frame* contracts that the
// Verus composition (verus/aes_soft.vrs) imports.  Notation: D_k(s) = ShiftRows^k applied to each of the four
// blocks of spec_inv_bitslice(s).  From leaf(s) == bitslice(F(inv_bitslice(s))) (fixslice.rs) and
// inv_bitslice(bitslice(x)) == x (l_bitslice_bijection) we get D_k(leaf(s)) == SR^k(F(inv(s))); each lemma below
// is the pure FIPS-197 byte-level identity SR^k(F(y)) == G(SR^k'(y)) that rewrites this into G(D_k'(s)).
// All functions are bcref::aes (FIPS-197); 16 symbolic bytes each, complete.
//
// Correspondence with the names used in verus/aes_soft.vrs:
//   SBN(x)   = sub_bytes(x) xor 0x63..      ISBN(x) = inv_sub_bytes(x xor 0x63..)
//   MCSR(x)  = mix_columns(shift_rows(x))   ISRIMC(x) = inv_shift_rows(inv_mix_columns(x))
//   SR(x)    = shift_rows(x)   ISR(x) = inv_shift_rows(x)   XR = xor_block   C63 = [0x63; 16]
//
// @module file=aes/src/soft/fixslice64.rs
use super::__vp_fixslice::{imc_k, isb_no_nots, mc_k, sb_no_nots, sr2};
use bcref::aes as fips;

fn eq(a: &[u8; 16], b: &[u8; 16]) -> bool {
    let mut ok = true;
    let mut i = 0;
    while i < 16 {
        ok &= a[i] == b[i];
        i += 1;
    }
    ok
}
fn any_k() -> usize {
    let k: usize = kani::any();
    kani::assume(k < 4);
    k
}
const C63: [u8; 16] = [0x63; 16];

// sub_bytes / inv_sub_bytes: for all k, D_k(s') == SBN(D_k(s))  /  ISBN(D_k(s))
// @ob name=f_sub_bytes props=C02,C17 kind=lemma fn=aes::soft::fixslice::sub_bytes,aes::soft::fixslice::inv_sub_bytes uses=c_sub_bytes,c_inv_sub_bytes,l_bitslice_bijection timeout=300
#[kani::proof]
#[kani::unwind(17)]
fn f_sub_bytes() {
    let y: [u8; 16] = kani::any();
    let k = any_k();
    assert!(eq(&fips::shift_rows_k(&sb_no_nots(&y), k), &sb_no_nots(&fips::shift_rows_k(&y, k))));
    assert!(eq(&fips::shift_rows_k(&isb_no_nots(&y), k), &isb_no_nots(&fips::shift_rows_k(&y, k))));
}
// mix_columns_k: D_k(s') == MCSR(D_{k-1}(s));  inv_mix_columns_k: D_{k-1}(s') == ISRIMC(D_k(s))
macro_rules! f_mc {
    ($name:ident, $k:expr) => {
        #[kani::proof]
        #[kani::unwind(17)]
        fn $name() {
            let y: [u8; 16] = kani::any();
            let km1 = ($k + 3) % 4;
            assert!(eq(&fips::shift_rows_k(&mc_k::<$k>(&y), $k), &fips::mix_columns(&fips::shift_rows(&fips::shift_rows_k(&y, km1)))));
            assert!(eq(&fips::shift_rows_k(&imc_k::<$k>(&y), km1), &fips::inv_shift_rows(&fips::inv_mix_columns(&fips::shift_rows_k(&y, $k)))));
        }
    };
}
// @ob name=f_mix_columns_0 props=C02,C17 kind=lemma fn=aes::soft::fixslice::mix_columns_0,aes::soft::fixslice::inv_mix_columns_0 uses=c_mix_columns_0,c_inv_mix_columns_0,l_bitslice_bijection timeout=300
f_mc!(f_mix_columns_0, 0);
// @ob name=f_mix_columns_1 props=C02 kind=lemma fn=aes::soft::fixslice::mix_columns_1,aes::soft::fixslice::inv_mix_columns_1 uses=c_mix_columns_1,c_inv_mix_columns_1,l_bitslice_bijection timeout=300
f_mc!(f_mix_columns_1, 1);
// @ob name=f_mix_columns_2 props=C02 kind=lemma fn=aes::soft::fixslice::mix_columns_2,aes::soft::fixslice::inv_mix_columns_2 uses=c_mix_columns_2,c_inv_mix_columns_2,l_bitslice_bijection timeout=300
f_mc!(f_mix_columns_2, 2);
// @ob name=f_mix_columns_3 props=C02 kind=lemma fn=aes::soft::fixslice::mix_columns_3,aes::soft::fixslice::inv_mix_columns_3 uses=c_mix_columns_3,c_inv_mix_columns_3,l_bitslice_bijection timeout=300
f_mc!(f_mix_columns_3, 3);

// shift_rows_2 (== inv_shift_rows_2): D_k(s') == D_{k+2}(s);  add_round_key: D_k(s xor r) == D_k(s) xor D_k(r);
// D itself: D_{k+1} == SR . D_k, SR^4 == id, ISR . SR == id
// @ob name=f_frames props=C02 kind=lemma fn=aes::soft::fixslice::shift_rows_2,aes::soft::fixslice::add_round_key uses=c_shift_rows_2,l_bitslice_bijection timeout=300
#[kani::proof]
#[kani::unwind(17)]
fn f_frames() {
    let y: [u8; 16] = kani::any();
    let z: [u8; 16] = kani::any();
    let k = any_k();
    assert!(eq(&fips::shift_rows_k(&sr2(&y), k), &fips::shift_rows_k(&y, (k + 2) % 4)));
    assert!(eq(&fips::shift_rows_k(&fips::xor_block(&y, &z), k), &fips::xor_block(&fips::shift_rows_k(&y, k), &fips::shift_rows_k(&z, k))));
    assert!(eq(&fips::shift_rows_k(&y, (k + 1) % 4), &fips::shift_rows(&fips::shift_rows_k(&y, k))));
    assert!(eq(&fips::shift_rows_k(&y, 0), &y));
    assert!(eq(&fips::inv_shift_rows(&fips::shift_rows(&y)), &y) && eq(&fips::shift_rows(&fips::inv_shift_rows(&y)), &y));
}

// add_round_key in the bitsliced domain is a plain XOR of eight words (checked on the real function), and XOR
// commutes with the bit permutation spec_inv_bitslice word by word.
// @ob name=f_add_round_key props=C02,C20 fn=aes::soft::fixslice::add_round_key timeout=300
#[kani::proof]
#[kani::unwind(17)]
fn f_add_round_key() {
    let s: [u64; 8] = kani::any();
    let r: [u64; 8] = kani::any();
    let mut t = s;
    super::add_round_key(&mut t, &r);
    let mut i = 0;
    while i < 8 {
        assert!(t[i] == s[i] ^ r[i]);
        i += 1;
    }
    let (a, b, c) = (super::__vp_fixslice::spec_inv_bitslice(&s), super::__vp_fixslice::spec_inv_bitslice(&r), super::__vp_fixslice::spec_inv_bitslice(&t));
    let j: usize = kani::any();
    kani::assume(j < 4);
    assert!(eq(&c[j], &fips::xor_block(&a[j], &b[j])));
}

// The NOT-less ("n-form") round functions used by the composition against the FIPS-197 rounds:
// one round / last round / first and middle steps of the inverse cipher, with the round key offset by 0x63.
// @ob name=f_nform_rounds props=C02 kind=lemma fn=aes::soft::fixslice::aes128_encrypt,aes::soft::fixslice::aes128_decrypt timeout=300
#[kani::proof]
#[kani::unwind(17)]
fn f_nform_rounds() {
    let x: [u8; 16] = kani::any();
    let k: [u8; 16] = kani::any();
    let kc = fips::xor_block(&k, &C63);
    // round_n(x, k) = XR(MCSR(SBN(x)), k) == MixColumns(ShiftRows(SubBytes(x))) xor (k xor 63)
    assert!(eq(&fips::xor_block(&fips::mix_columns(&fips::shift_rows(&sb_no_nots(&x))), &k), &fips::cipher_round(&x, &kc)));
    // last_n(x, k) = XR(SBN(SR(x)), k) == ShiftRows(SubBytes(x)) xor (k xor 63)
    assert!(eq(&fips::xor_block(&sb_no_nots(&fips::shift_rows(&x)), &k), &fips::xor_block(&fips::shift_rows(&fips::sub_bytes(&x)), &kc)));
    // dfirst_n(x, k) = ISBN(ISR(XR(x, k))) == InvSubBytes(InvShiftRows(x xor (k xor 63)))
    assert!(eq(&isb_no_nots(&fips::inv_shift_rows(&fips::xor_block(&x, &k))), &fips::inv_sub_bytes(&fips::inv_shift_rows(&fips::xor_block(&x, &kc)))));
    // dstep_n(t, k) = ISBN(ISRIMC(XR(t, k))) == InvSubBytes(InvShiftRows(InvMixColumns(t xor (k xor 63))))
    assert!(eq(&isb_no_nots(&fips::inv_shift_rows(&fips::inv_mix_columns(&fips::xor_block(&x, &k)))),
               &fips::inv_sub_bytes(&fips::inv_shift_rows(&fips::inv_mix_columns(&fips::xor_block(&x, &kc))))));
}

// layer inverses used by verus/aes_soft.vrs lemma_fips_inverse (ax_inverses)
// @ob name=f_layer_inverses props=C01,C02 kind=lemma fn=aes::soft::fixslice::aes128_encrypt,aes::soft::fixslice::aes128_decrypt timeout=300
#[kani::proof]
#[kani::unwind(17)]
fn f_layer_inverses() {
    let x: [u8; 16] = kani::any();
    let k: [u8; 16] = kani::any();
    assert!(eq(&fips::inv_sub_bytes(&fips::sub_bytes(&x)), &x));
    assert!(eq(&fips::inv_shift_rows(&fips::shift_rows(&x)), &x));
    assert!(eq(&fips::xor_block(&fips::xor_block(&x, &k), &k), &x));
}
// InvMixColumns . MixColumns == id, column by column (the other three columns are fixed to zero: both maps act on
// each 4-byte column independently, by their definition in FIPS-197 5.1.3 / 5.3.3 as a per-column matrix product)
// (GF(2^8) linear algebra: z3 10 s, cvc5 320 s, SAT solvers > 10 min)
// @ob name=f_mix_columns_inverse props=C01,C02 kind=lemma solver=z3 fn=aes::soft::fixslice::aes128_encrypt,aes::soft::fixslice::aes128_decrypt timeout=900
#[kani::proof]
#[kani::unwind(17)]
#[kani::solver(z3)]
fn f_mix_columns_inverse() {
    let col: [u8; 4] = kani::any();
    let c: usize = kani::any();
    kani::assume(c < 4);
    let mut x = [0u8; 16];
    x[4 * c] = col[0];
    x[4 * c + 1] = col[1];
    x[4 * c + 2] = col[2];
    x[4 * c + 3] = col[3];
    assert!(eq(&fips::inv_mix_columns(&fips::mix_columns(&x)), &x));
    // and a full symbolic block agrees with its column-wise evaluation (locality)
    let y: [u8; 16] = kani::any();
    let my = fips::mix_columns(&y);
    let mut only = [0u8; 16];
    only[4 * c] = y[4 * c];
    only[4 * c + 1] = y[4 * c + 1];
    only[4 * c + 2] = y[4 * c + 2];
    only[4 * c + 3] = y[4 * c + 3];
    let mo = fips::mix_columns(&only);
    assert!(my[4 * c] == mo[4 * c] && my[4 * c + 1] == mo[4 * c + 1] && my[4 * c + 2] == mo[4 * c + 2] && my[4 * c + 3] == mo[4 * c + 3]);
    let iy = fips::inv_mix_columns(&y);
    let io = fips::inv_mix_columns(&only);
    assert!(iy[4 * c] == io[4 * c] && iy[4 * c + 1] == io[4 * c + 1] && iy[4 * c + 2] == io[4 * c + 2] && iy[4 * c + 3] == io[4 * c + 3]);
}
