// API-level contracts for the aria crate, for each of Aria128 / Aria192 / Aria256: key length (C11), slice/fixed key
// and clone (C11, C12), weak keys (C13), zeroize on drop (C16), Debug / AlgorithmName (C19), multi-block and
// buffer-to-buffer calls (C04, C15).
//
// @module file=aria/src/lib.rs
// @config name=zeroize features=zeroize
use super::*;
use super::__vp_cipher::{all_done, any128, any192, any256, eq_bytes16, eq_words, replay_all, ufe, ufo, usl};
use cipher::{Array, KeyInit};
include!("@VERIF@/contracts/_common/common.rs");

/// stand-ins inside the *length* obligations only (the key schedules have their own contracts c_new_*)
fn cheap(x: u128) -> u128 { x }

// ---------------------------------------------------------------- C11 key lengths
macro_rules! keylen {
    ($name:ident, $ty:ident, $n:expr) => {
        #[kani::proof]
        #[kani::stub(crate::utils::fo, cheap)]
        #[kani::stub(crate::utils::fe, cheap)]
        #[kani::stub(crate::utils::a, cheap)]
        #[kani::unwind(35)]
        fn $name() {
            let buf: [u8; 301] = kani::any();
            let n: usize = kani::any();
            kani::assume(n <= 300);
            kani::cover!(n == $n);
            kani::cover!(n == 300);
            kani::cover!(n == 0);
            let r = $ty::new_from_slice(&buf[..n]);
            assert!(r.is_ok() == (n == $n));
        }
    };
}
// @ob name=k_len_128 props=C11 kind=bounded bound="slice length <= 300" fn=aria::Aria128::new_from_slice timeout=300
keylen!(k_len_128, Aria128, 16);
// @ob name=k_len_192 props=C11 kind=bounded bound="slice length <= 300" fn=aria::Aria192::new_from_slice timeout=300
keylen!(k_len_192, Aria192, 24);
// @ob name=k_len_256 props=C11 kind=bounded bound="slice length <= 300" fn=aria::Aria256::new_from_slice timeout=300
keylen!(k_len_256, Aria256, 32);

// fixed-size key and the same bytes as a slice give the same cipher (state equality); clone gives equal state.
// FO / FE abstracted by the record / replay uninterpreted functions of cipher.rs (licensed by c_fo, c_fe): the second
// constructor must present them with the same arguments in the same order; A is replaced by the reference's (c_a).
macro_rules! slice_same {
    ($name:ident, $ty:ident, $klen:expr, $n:expr, $mk:ident) => {
        #[kani::proof]
        #[kani::stub(crate::utils::fo, ufo::f)]
        #[kani::stub(crate::utils::fe, ufe::f)]
        #[kani::stub(crate::utils::a, bcref::aria::a)]
        #[kani::unwind(35)]
        fn $name() {
            let k: [u8; $klen] = kani::any();
            let b = $ty::new_from_slice(&k[..]).unwrap();
            replay_all();
            let a = $ty::new(&Array(k));
            assert!(all_done() && ufo::calls() == 2 && ufe::calls() == 1);
            assert!(eq_words(&a.ek, &b.ek, $n + 1) && eq_words(&a.dk, &b.dk, $n + 1));
            let s = $mk();
            let c = s.clone();
            assert!(eq_words(&s.ek, &c.ek, $n + 1) && eq_words(&s.dk, &c.dk, $n + 1));
        }
    };
}
// @ob name=k_slice_same_128 props=C11,C12 fn=aria::Aria128::new_from_slice,aria::Aria128::new,aria::Aria128::clone uses=c_fo,c_fe,c_a timeout=300
slice_same!(k_slice_same_128, Aria128, 16, 12, any128);
// @ob name=k_slice_same_192 props=C11,C12 fn=aria::Aria192::new_from_slice,aria::Aria192::new,aria::Aria192::clone uses=c_fo,c_fe,c_a timeout=300
slice_same!(k_slice_same_192, Aria192, 24, 14, any192);
// @ob name=k_slice_same_256 props=C11,C12 fn=aria::Aria256::new_from_slice,aria::Aria256::new,aria::Aria256::clone uses=c_fo,c_fe,c_a timeout=300
slice_same!(k_slice_same_256, Aria256, 32, 16, any256);

// ---------------------------------------------------------------- C13 no weak keys
macro_rules! weak {
    ($name:ident, $ty:ident, $klen:expr, $n:expr) => {
        #[kani::proof]
        #[kani::stub(crate::utils::fo, ufo::f)]
        #[kani::stub(crate::utils::fe, ufe::f)]
        #[kani::stub(crate::utils::a, bcref::aria::a)]
        #[kani::unwind(35)]
        fn $name() {
            let k: [u8; $klen] = kani::any();
            assert!($ty::weak_key_test(&Array(k)).is_ok());
            match $ty::new_checked(&Array(k)) {
                Ok(c) => {
                    replay_all();
                    let plain = $ty::new(&Array(k));
                    assert!(all_done() && ufo::calls() == 2 && eq_words(&c.ek, &plain.ek, $n + 1) && eq_words(&c.dk, &plain.dk, $n + 1));
                }
                Err(_) => assert!(false),
            }
        }
    };
}
// @ob name=c_weak_128 props=C13 fn=aria::Aria128::weak_key_test,aria::Aria128::new_checked uses=c_fo,c_fe,c_a timeout=300
weak!(c_weak_128, Aria128, 16, 12);
// @ob name=c_weak_192 props=C13 fn=aria::Aria192::weak_key_test,aria::Aria192::new_checked uses=c_fo,c_fe,c_a timeout=300
weak!(c_weak_192, Aria192, 24, 14);
// @ob name=c_weak_256 props=C13 fn=aria::Aria256::weak_key_test,aria::Aria256::new_checked uses=c_fo,c_fe,c_a timeout=300
weak!(c_weak_256, Aria256, 32, 16);

// ---------------------------------------------------------------- C19 Debug / AlgorithmName
macro_rules! names {
    ($name:ident, $ty:ident, $mk:expr, $text:expr) => {
        #[kani::proof]
        #[kani::unwind(100)]
        fn $name() {
            let a = $mk;
            let b = $mk;
            let (ta, tb) = (debug_text(&a), debug_text(&b));
            assert!(ta.same(&tb)); // identical for all keys
            assert!(ta.names($text)); // names the instance's own type
            assert!(alg_name_text::<$ty>().names($text));
        }
    };
}
// @ob name=c_names_128 props=C19 fn=aria::Aria128::fmt,aria::Aria128::write_alg_name timeout=300
names!(c_names_128, Aria128, any128(), "Aria128");
// @ob name=c_names_192 props=C19 fn=aria::Aria192::fmt,aria::Aria192::write_alg_name timeout=300
names!(c_names_192, Aria192, any192(), "Aria192");
// @ob name=c_names_256 props=C19 fn=aria::Aria256::fmt,aria::Aria256::write_alg_name timeout=300
names!(c_names_256, Aria256, any256(), "Aria256");

// ---------------------------------------------------------------- C16 zeroize on drop (feature zeroize)
macro_rules! zero_on_drop {
    ($name:ident, $ty:ident, $mk:expr) => {
        #[kani::proof]
        #[kani::unwind(600)]
        fn $name() {
            let mut m = core::mem::ManuallyDrop::new($mk);
            let p: *const $ty = &*m;
            unsafe { core::mem::ManuallyDrop::drop(&mut m); }
            assert!(unsafe { all_bytes_zero(p) });
        }
    };
}
// @ob name=z_128 props=C16 cfg=zeroize fn=aria::Aria128::drop timeout=300
zero_on_drop!(z_128, Aria128, any128());
// @ob name=z_192 props=C16 cfg=zeroize fn=aria::Aria192::drop,aria::Aria192::clone timeout=300
zero_on_drop!(z_192, Aria192, any192().clone());
// @ob name=z_256 props=C16 cfg=zeroize fn=aria::Aria256::drop timeout=300
zero_on_drop!(z_256, Aria256, any256());
// @ob name=z_128_clone props=C16 cfg=zeroize fn=aria::Aria128::drop,aria::Aria128::clone timeout=300
zero_on_drop!(z_128_clone, Aria128, any128().clone());

// ---------------------------------------------------------------- C04 / C15 multi-block and b2b calls
// FO, FE, SL2 are abstracted to record / replay uninterpreted functions (licensed by c_fo, c_fe, c_sl2): the per-block
// calls of the buffer-to-buffer call are recorded, then the per-block calls and the n-block in-place call must present
// them with the same arguments in the same order (block after block) and give the same results block by block; b2b inputs,
// guard blocks around the output and the cipher state are untouched.  (Kani cannot stub the backend method of a
// generic type by path, so the abstraction is at the round functions rather than at the whole block function.  The
// Result-returning b2b call runs first, in record mode: run after a mode switch Kani 0.68 reports its Ok(()) as Err for
// some instantiations, even for n = 0 where no stub is ever called - a spurious failure, see the report.)
macro_rules! multi_block {
    ($name:ident, $mk:ident, $rk:expr, $n:expr, $one:path, $many:path, $b2b:path) => {
        #[kani::proof]
        #[kani::stub(crate::utils::fo, ufo::f)]
        #[kani::stub(crate::utils::fe, ufe::f)]
        #[kani::stub(crate::utils::sl2, usl::f)]
        #[kani::unwind(35)]
        fn $name() {
            let d = $mk();
            let (ek0, dk0) = (d.ek, d.dk);
            let inp: [[u8; 16]; $n] = kani::any();
            // 1. buffer to buffer with guard blocks around the output (recorded run)
            let mut src = [Array([0u8; 16]); $n];
            let mut i = 0;
            while i < $n { src[i] = Array(inp[i]); i += 1; }
            let g: [u8; 16] = kani::any();
            let mut dst = [Array(g); $n + 2];
            $b2b(&d, &src, &mut dst[1..$n + 1]).unwrap();
            assert!(usl::calls() == $n);
            assert!(eq_bytes16(&dst[0].0, &g) && eq_bytes16(&dst[$n + 1].0, &g));
            // 2. block by block (must repeat the recorded calls, block after block)
            replay_all();
            let mut single = [[0u8; 16]; $n];
            let mut i = 0;
            while i < $n {
                let mut b = Array(inp[i]);
                $one(&d, &mut b);
                single[i] = b.0;
                i += 1;
            }
            assert!(all_done());
            let mut i = 0;
            while i < $n { assert!(eq_bytes16(&dst[i + 1].0, &single[i]) && eq_bytes16(&src[i].0, &inp[i])); i += 1; }
            // 3. in place, n blocks
            let mut blocks = [Array([0u8; 16]); $n];
            let mut i = 0;
            while i < $n { blocks[i] = Array(inp[i]); i += 1; }
            replay_all();
            $many(&d, &mut blocks);
            assert!(all_done());
            let mut i = 0;
            while i < $n { assert!(eq_bytes16(&blocks[i].0, &single[i])); i += 1; }
            assert!(eq_words(&ek0, &d.ek, $rk) && eq_words(&dk0, &d.dk, $rk));
        }
    };
}
macro_rules! multi_enc {
    ($name:ident, $mk:ident, $rk:expr, $n:expr) => {
        multi_block!($name, $mk, $rk, $n, cipher::BlockCipherEncrypt::encrypt_block, cipher::BlockCipherEncrypt::encrypt_blocks, cipher::BlockCipherEncrypt::encrypt_blocks_b2b);
    };
}
macro_rules! multi_dec {
    ($name:ident, $mk:ident, $rk:expr, $n:expr) => {
        multi_block!($name, $mk, $rk, $n, cipher::BlockCipherDecrypt::decrypt_block, cipher::BlockCipherDecrypt::decrypt_blocks, cipher::BlockCipherDecrypt::decrypt_blocks_b2b);
    };
}
// @ob name=m_enc128_0 props=C04,C15 kind=bounded bound="n = 0 blocks" fn=aria::Aria128::encrypt_with_backend,aria::Aria128::encrypt_block uses=c_fo,c_fe,c_sl2 timeout=300
multi_enc!(m_enc128_0, any128, 13, 0);
// @ob name=m_enc128_1 props=C04,C15 kind=bounded bound="n = 1 block" fn=aria::Aria128::encrypt_with_backend,aria::Aria128::encrypt_block uses=c_fo,c_fe,c_sl2 timeout=300
multi_enc!(m_enc128_1, any128, 13, 1);
// @ob name=m_enc128_3 props=C04,C15 kind=bounded bound="n = 3 blocks" fn=aria::Aria128::encrypt_with_backend,aria::Aria128::encrypt_block uses=c_fo,c_fe,c_sl2 timeout=300
multi_enc!(m_enc128_3, any128, 13, 3);
// @ob name=m_dec128_0 props=C04,C15 kind=bounded bound="n = 0 blocks" fn=aria::Aria128::decrypt_with_backend,aria::Aria128::decrypt_block uses=c_fo,c_fe,c_sl2 timeout=300
multi_dec!(m_dec128_0, any128, 13, 0);
// @ob name=m_dec128_1 props=C04,C15 kind=bounded bound="n = 1 block" fn=aria::Aria128::decrypt_with_backend,aria::Aria128::decrypt_block uses=c_fo,c_fe,c_sl2 timeout=300
multi_dec!(m_dec128_1, any128, 13, 1);
// @ob name=m_dec128_3 props=C04,C15 kind=bounded bound="n = 3 blocks" fn=aria::Aria128::decrypt_with_backend,aria::Aria128::decrypt_block uses=c_fo,c_fe,c_sl2 timeout=300
multi_dec!(m_dec128_3, any128, 13, 3);
// @ob name=m_enc192_0 props=C04,C15 kind=bounded bound="n = 0 blocks" fn=aria::Aria192::encrypt_with_backend,aria::Aria192::encrypt_block uses=c_fo,c_fe,c_sl2 timeout=300
multi_enc!(m_enc192_0, any192, 15, 0);
// @ob name=m_enc192_3 props=C04,C15 kind=bounded bound="n = 3 blocks" fn=aria::Aria192::encrypt_with_backend,aria::Aria192::encrypt_block uses=c_fo,c_fe,c_sl2 timeout=300
multi_enc!(m_enc192_3, any192, 15, 3);
// @ob name=m_dec192_1 props=C04,C15 kind=bounded bound="n = 1 block" fn=aria::Aria192::decrypt_with_backend,aria::Aria192::decrypt_block uses=c_fo,c_fe,c_sl2 timeout=300
multi_dec!(m_dec192_1, any192, 15, 1);
// @ob name=m_dec192_3 props=C04,C15 kind=bounded bound="n = 3 blocks" fn=aria::Aria192::decrypt_with_backend,aria::Aria192::decrypt_block uses=c_fo,c_fe,c_sl2 timeout=300
multi_dec!(m_dec192_3, any192, 15, 3);
// @ob name=m_enc256_1 props=C04,C15 kind=bounded bound="n = 1 block" fn=aria::Aria256::encrypt_with_backend,aria::Aria256::encrypt_block uses=c_fo,c_fe,c_sl2 timeout=300
multi_enc!(m_enc256_1, any256, 17, 1);
// @ob name=m_enc256_3 props=C04,C15 kind=bounded bound="n = 3 blocks" fn=aria::Aria256::encrypt_with_backend,aria::Aria256::encrypt_block uses=c_fo,c_fe,c_sl2 timeout=300
multi_enc!(m_enc256_3, any256, 17, 3);
// @ob name=m_dec256_0 props=C04,C15 kind=bounded bound="n = 0 blocks" fn=aria::Aria256::decrypt_with_backend,aria::Aria256::decrypt_block uses=c_fo,c_fe,c_sl2 timeout=300
multi_dec!(m_dec256_0, any256, 17, 0);
// @ob name=m_dec256_3 props=C04,C15 kind=bounded bound="n = 3 blocks" fn=aria::Aria256::decrypt_with_backend,aria::Aria256::decrypt_block uses=c_fo,c_fe,c_sl2 timeout=300
multi_dec!(m_dec256_3, any256, 17, 3);
