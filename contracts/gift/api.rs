// Contracts on gift/src/lib.rs: Gift128 against GIFT-128 of the GIFT paper (bcref::gift), big-endian bytes.
// Block functions are proved against the contracts of their callees: packing, unpacking, quintuple_round,
// inv_quintuple_round and precompute_rkeys are replaced by their spec functions (licensed by the obligations in
// primitives.rs / key_schedule.rs), so what is checked here is the composition: the order of the 8 quintuples, the
// slicing of the key and constant tables, GIFT_RC == the paper's constants.
//
// @module file=gift/src/lib.rs
// @config name=zeroize features=zeroize
use super::*;
use crate::key_schedule::__vp_key_schedule::spec_precompute_rkeys;
use crate::primitives::__vp_primitives::{fsperm, spec_inv_quintuple_round, spec_packing, spec_quintuple_round, spec_unpacking};
use bcref::gift as g;
use cipher::Array;
include!("@VERIF@/contracts/_common/common.rs");

fn eq_n<const N: usize>(a: &[u8; N], b: &[u8; N]) -> bool {
    let mut ok = true;
    let mut i = 0;
    while i < N {
        ok &= a[i] == b[i];
        i += 1;
    }
    ok
}
fn eq_k(a: &[u32; 80], b: &[u32; 80]) -> bool {
    let mut ok = true;
    let mut i = 0;
    while i < 80 {
        ok &= a[i] == b[i];
        i += 1;
    }
    ok
}
pub fn any_gift() -> Gift128 { Gift128 { k: kani::any() } }

/// Lock-step oracle for the S-box layer in the composition obligations below.  Both sides of those obligations are
/// built from the same reference functions (the stubs of quintuple_round are spec functions that call
/// bcref::gift::sub_cells, and so does the expected value): while the cipher under test runs, every call of
/// sub_cells / inv_sub_cells is recorded with an unconstrained result; while the expected value is computed, its j-th
/// call must have the same argument (asserted) and gets the recorded result.  Sound because sub_cells is a function
/// (it is literally the same function on both sides); it spares the solver 2 x 40 x 32 table lookups.
pub mod orc_s {
    pub const MAXC: usize = 48;
    pub static mut X: [u128; MAXC] = [0; MAXC];
    pub static mut O: [u128; MAXC] = [0; MAXC];
    pub static mut INV: [bool; MAXC] = [false; MAXC];
    pub static mut N: usize = 0;
    pub static mut K: usize = 0;
    pub static mut REPLAY: bool = false;
    #[allow(static_mut_refs)]
    fn call(inv: bool, x: u128) -> u128 {
        unsafe {
            if !REPLAY {
                let o: u128 = kani::any();
                assert!(N < MAXC);
                X[N] = x;
                O[N] = o;
                INV[N] = inv;
                N += 1;
                o
            } else {
                assert!(K < N);
                assert!(INV[K] == inv && X[K] == x, "lock-step: the expected value makes the same S-box layer call");
                K += 1;
                O[K - 1]
            }
        }
    }
    pub fn sub_cells(x: u128) -> u128 { call(false, x) }
    pub fn inv_sub_cells(x: u128) -> u128 { call(true, x) }
    pub fn replay() { unsafe { REPLAY = true; } }
    pub fn all_replayed() -> bool { unsafe { K == N } }
}

// GIFT_RC[r], read in the fixsliced order of round r mod 5, is the paper's constant of round r (bit 31 set: the
// "b_127 xor 1", bits 5..0 the LFSR value c5..c0 acting on b_23, b_19, b_15, b_11, b_7, b_3)
// @ob name=c_gift_rc props=C10 kind=exhaustive fn=gift_cipher::consts::GIFT_RC timeout=120
#[kani::proof]
#[kani::unwind(42)]
fn c_gift_rc() {
    let mut r = 0;
    while r < 40 {
        assert!(fsperm(r % 5, GIFT_RC[r]) == g::constant_mask(r));
        r += 1;
    }
}

/// the 40 rounds of the paper for an arbitrary table of 80 fixsliced key words (every state of Gift128)
fn spec_encrypt_state(k: &[u32; 80], p: u128) -> u128 {
    let mut x = p;
    let mut r = 0;
    while r < 40 {
        x = g::round_masks(x, fsperm(r % 5, k[2 * r + 1]), fsperm(r % 5, k[2 * r]), g::constant_mask(r));
        r += 1;
    }
    x
}
fn spec_decrypt_state(k: &[u32; 80], c: u128) -> u128 {
    let mut x = c;
    let mut r = 40;
    while r > 0 {
        r -= 1;
        x = g::inv_round_masks(x, fsperm(r % 5, k[2 * r + 1]), fsperm(r % 5, k[2 * r]), g::constant_mask(r));
    }
    x
}

// @ob name=c_gift_enc props=C10,C20 kind=contract fn=gift_cipher::Gift128::encrypt_block uses=c_packing,c_quintuple_round,c_gift_rc timeout=600
#[kani::proof]
#[kani::stub(crate::primitives::packing, spec_packing)]
#[kani::stub(crate::primitives::unpacking, spec_unpacking)]
#[kani::stub(crate::primitives::quintuple_round, spec_quintuple_round)]
#[kani::stub(bcref::gift::sub_cells, orc_s::sub_cells)]
#[kani::stub(bcref::gift::inv_sub_cells, orc_s::inv_sub_cells)]
#[kani::unwind(130)]
fn c_gift_enc() {
    let c = any_gift();
    let b: [u8; 16] = kani::any();
    let mut blk = Array(b);
    cipher::BlockCipherEncrypt::encrypt_block(&c, &mut blk);
    orc_s::replay();
    assert!(u128::from_be_bytes(blk.0) == spec_encrypt_state(&c.k, u128::from_be_bytes(b)));
    assert!(orc_s::all_replayed());
}
// @ob name=c_gift_dec props=C10,C20 kind=contract fn=gift_cipher::Gift128::decrypt_block uses=c_packing,c_inv_quintuple_round,c_gift_rc timeout=600
#[kani::proof]
#[kani::stub(crate::primitives::packing, spec_packing)]
#[kani::stub(crate::primitives::unpacking, spec_unpacking)]
#[kani::stub(crate::primitives::inv_quintuple_round, spec_inv_quintuple_round)]
#[kani::stub(bcref::gift::sub_cells, orc_s::sub_cells)]
#[kani::stub(bcref::gift::inv_sub_cells, orc_s::inv_sub_cells)]
#[kani::unwind(130)]
fn c_gift_dec() {
    let c = any_gift();
    let b: [u8; 16] = kani::any();
    let mut blk = Array(b);
    cipher::BlockCipherDecrypt::decrypt_block(&c, &mut blk);
    orc_s::replay();
    assert!(u128::from_be_bytes(blk.0) == spec_decrypt_state(&c.k, u128::from_be_bytes(b)));
    assert!(orc_s::all_replayed());
}

// public API == GIFT-128 on bytes, every key and block
// @ob name=c_gift_api_enc props=C10,C20 kind=contract fn=gift_cipher::Gift128::new,gift_cipher::Gift128::encrypt_block uses=c_precompute_rkeys,c_packing,c_quintuple_round,c_gift_rc timeout=600
#[kani::proof]
#[kani::stub(crate::key_schedule::precompute_rkeys, spec_precompute_rkeys)]
#[kani::stub(crate::primitives::packing, spec_packing)]
#[kani::stub(crate::primitives::unpacking, spec_unpacking)]
#[kani::stub(crate::primitives::quintuple_round, spec_quintuple_round)]
#[kani::stub(bcref::gift::sub_cells, orc_s::sub_cells)]
#[kani::stub(bcref::gift::inv_sub_cells, orc_s::inv_sub_cells)]
#[kani::unwind(130)]
fn c_gift_api_enc() {
    let key: [u8; 16] = kani::any();
    let b: [u8; 16] = kani::any();
    let c = <Gift128 as KeyInit>::new(&Array(key));
    let mut blk = Array(b);
    cipher::BlockCipherEncrypt::encrypt_block(&c, &mut blk);
    orc_s::replay();
    assert!(eq_n(&blk.0, &g::encrypt_bytes(&key, &b)));
    assert!(orc_s::all_replayed());
}
// @ob name=c_gift_api_dec props=C10,C20 kind=contract fn=gift_cipher::Gift128::new,gift_cipher::Gift128::decrypt_block uses=c_precompute_rkeys,c_packing,c_inv_quintuple_round,c_gift_rc timeout=600
#[kani::proof]
#[kani::stub(crate::key_schedule::precompute_rkeys, spec_precompute_rkeys)]
#[kani::stub(crate::primitives::packing, spec_packing)]
#[kani::stub(crate::primitives::unpacking, spec_unpacking)]
#[kani::stub(crate::primitives::inv_quintuple_round, spec_inv_quintuple_round)]
#[kani::stub(bcref::gift::sub_cells, orc_s::sub_cells)]
#[kani::stub(bcref::gift::inv_sub_cells, orc_s::inv_sub_cells)]
#[kani::unwind(130)]
fn c_gift_api_dec() {
    let key: [u8; 16] = kani::any();
    let b: [u8; 16] = kani::any();
    let c = <Gift128 as KeyInit>::new(&Array(key));
    let mut blk = Array(b);
    cipher::BlockCipherDecrypt::decrypt_block(&c, &mut blk);
    orc_s::replay();
    assert!(eq_n(&blk.0, &g::decrypt_bytes(&key, &b)));
    assert!(orc_s::all_replayed());
}

// C01 on the real functions, every state (no stubs)
// @ob name=l_gift_rt1 props=C01 kind=lemma fn=gift_cipher::Gift128::encrypt_block,gift_cipher::Gift128::decrypt_block timeout=600
#[kani::proof]
#[kani::unwind(42)]
fn l_gift_rt1() {
    let c = any_gift();
    let b: [u8; 16] = kani::any();
    let mut blk = Array(b);
    cipher::BlockCipherEncrypt::encrypt_block(&c, &mut blk);
    cipher::BlockCipherDecrypt::decrypt_block(&c, &mut blk);
    assert!(eq_n(&blk.0, &b));
}
// @ob name=l_gift_rt2 props=C01 kind=lemma fn=gift_cipher::Gift128::encrypt_block,gift_cipher::Gift128::decrypt_block timeout=600
#[kani::proof]
#[kani::unwind(42)]
fn l_gift_rt2() {
    let c = any_gift();
    let b: [u8; 16] = kani::any();
    let mut blk = Array(b);
    cipher::BlockCipherDecrypt::decrypt_block(&c, &mut blk);
    cipher::BlockCipherEncrypt::encrypt_block(&c, &mut blk);
    assert!(eq_n(&blk.0, &b));
}

// @ob name=k_gift_keylen props=C11 kind=bounded bound="slice length <= 300" fn=gift_cipher::Gift128::new_from_slice timeout=300
#[kani::proof]
#[kani::stub(crate::key_schedule::precompute_rkeys, spec_cheap_rkeys)]
#[kani::unwind(42)]
fn k_gift_keylen() {
    let buf: [u8; 301] = kani::any();
    let n: usize = kani::any();
    kani::assume(n <= 300);
    kani::cover!(n == 16);
    kani::cover!(n == 300);
    kani::cover!(n == 0);
    let r = <Gift128 as KeyInit>::new_from_slice(&buf[..n]);
    assert!(r.is_ok() == (n == 16));
}
/// stand-in for the key schedule inside the length obligation only
fn spec_cheap_rkeys(key: &[u8; 16]) -> [u32; 80] { [key[0] as u32; 80] }

// @ob name=k_gift_same props=C11,C12,C13 kind=contract fn=gift_cipher::Gift128::new_from_slice,gift_cipher::Gift128::new,gift_cipher::Gift128::clone,gift_cipher::Gift128::weak_key_test,gift_cipher::Gift128::new_checked timeout=300
#[kani::proof]
#[kani::unwind(82)]
fn k_gift_same() {
    let key: [u8; 16] = kani::any();
    let a = <Gift128 as KeyInit>::new(&Array(key));
    let b = <Gift128 as KeyInit>::new_from_slice(&key[..]).unwrap();
    let c = a.clone();
    assert!(eq_k(&a.k, &b.k) && eq_k(&a.k, &c.k));
    // C13: the weak-key test never fails, the checked constructor returns the same cipher
    assert!(<Gift128 as KeyInit>::weak_key_test(&Array(key)).is_ok());
    match <Gift128 as KeyInit>::new_checked(&Array(key)) {
        Ok(d) => assert!(eq_k(&d.k, &a.k)),
        Err(_) => assert!(false),
    }
}

// @ob name=c_gift_names props=C19 kind=contract fn=gift_cipher::Gift128::fmt,gift_cipher::Gift128::write_alg_name timeout=300
#[kani::proof]
#[kani::unwind(100)]
fn c_gift_names() {
    let a = any_gift();
    let b = any_gift();
    let (ta, tb) = (debug_text(&a), debug_text(&b));
    assert!(ta.same(&tb));
    assert!(ta.names("Gift128"));
    assert!(alg_name_text::<Gift128>().is("Gift128"));
}

// @ob name=z_gift props=C16 cfg=zeroize kind=contract fn=gift_cipher::Gift128::drop,gift_cipher::Gift128::clone timeout=300
#[kani::proof]
#[kani::unwind(400)]
fn z_gift() {
    let mut m = core::mem::ManuallyDrop::new(any_gift().clone());
    let p: *const Gift128 = &*m;
    unsafe { core::mem::ManuallyDrop::drop(&mut m); }
    assert!(unsafe { all_bytes_zero(p) });
}

// C04 / C15: multi-block and buffer-to-buffer calls, block function = real packing / unpacking around an uninterpreted
// quintuple (any pure function of (state, key words, constants) would do; here: xor of the first key word, enough to
// make blocks and positions distinguishable), licensed by c_quintuple_round
fn cheap_quintuple(state: &mut [u32; 4], rkey: &[u32], rconst: &[u32]) { state[0] ^= rkey[0] ^ rconst[0]; state[3] = state[3].rotate_left(1); }
macro_rules! mb_body {
    ($c:expr, $n:expr) => {{
        let d = &$c;
        let inp: [[u8; 16]; $n] = kani::any();
        let mut single = [[0u8; 16]; $n];
        let mut i = 0;
        while i < $n {
            let mut b = Array(inp[i]);
            cipher::BlockCipherEncrypt::encrypt_block(d, &mut b);
            single[i] = b.0;
            i += 1;
        }
        let mut blocks = [Array([0u8; 16]); $n];
        let mut i = 0;
        while i < $n { blocks[i] = Array(inp[i]); i += 1; }
        cipher::BlockCipherEncrypt::encrypt_blocks(d, &mut blocks);
        let mut i = 0;
        while i < $n { assert!(eq_n(&blocks[i].0, &single[i])); i += 1; }
        let mut src = [Array([0u8; 16]); $n];
        let mut i = 0;
        while i < $n { src[i] = Array(inp[i]); i += 1; }
        let g: [u8; 16] = kani::any();
        let mut dst = [Array(g); $n + 2];
        cipher::BlockCipherEncrypt::encrypt_blocks_b2b(d, &src, &mut dst[1..$n + 1]).unwrap();
        assert!(eq_n(&dst[0].0, &g) && eq_n(&dst[$n + 1].0, &g));
        let mut i = 0;
        while i < $n { assert!(eq_n(&dst[i + 1].0, &single[i]) && eq_n(&src[i].0, &inp[i])); i += 1; }
    }};
}
// @ob name=m_gift_blocks props=C04,C15 kind=bounded bound="n in {0, 1, 3} blocks (ParBlocksSize = 1)" fn=gift_cipher::Gift128::encrypt_with_backend,gift_cipher::Gift128::encrypt_block uses=c_quintuple_round timeout=600
#[kani::proof]
#[kani::stub(crate::primitives::quintuple_round, cheap_quintuple)]
#[kani::unwind(82)]
fn m_gift_blocks() {
    let c = any_gift();
    let before = c.k;
    mb_body!(c, 0);
    mb_body!(c, 1);
    mb_body!(c, 3);
    assert!(eq_k(&before, &c.k));
}
