//! Serpent, written from R. Anderson, E. Biham, L. Knudsen, "Serpent: A Proposal for the Advanced Encryption
//! Standard" (AES submission, 1998): section 2 (the cipher), section 3 ("An Efficient Implementation": the
//! bitslice description, which the submission states to be equivalent to the standard description with IP/FP
//! removed), section 4 (key schedule) and appendix A.5 (the S-boxes S0..S7 as 4-bit tables).
//!
//! Conventions: a 128-bit block / round key is four 32-bit words X0..X3; bit j of the 4-bit S-box input of
//! "lane" j is made of bit j of X0 (least significant) .. bit j of X3 (most significant) (section 3).
//! Byte order (the convention of the NESSIE vectors bundled with /repo): word i of the block is bytes
//! 4i..4i+3 little-endian; the user key bytes are read the same way into w_-8..w_-1.
//! Short keys (section 4): "append one '1' bit to the MSB end, followed by as many '0' bits as required to make
//! up 256 bits" -- with little-endian words the next more significant bit after n key bytes is bit 0 of byte n.

pub const ROUNDS: usize = 32;
/// fractional part of the golden ratio (sqrt(5)+1)/2 (section 4)
pub const PHI: u32 = 0x9e37_79b9;

/// Appendix A.5: S0..S7.
pub const S: [[u8; 16]; 8] = [
    [3, 8, 15, 1, 10, 6, 5, 11, 14, 13, 4, 2, 7, 0, 9, 12],
    [15, 12, 2, 7, 9, 0, 5, 10, 1, 11, 14, 8, 6, 13, 3, 4],
    [8, 6, 7, 9, 3, 12, 10, 15, 13, 1, 14, 4, 0, 11, 5, 2],
    [0, 15, 11, 8, 12, 9, 6, 3, 13, 1, 2, 4, 10, 7, 5, 14],
    [1, 15, 8, 3, 12, 0, 11, 6, 2, 5, 4, 10, 9, 14, 7, 13],
    [15, 5, 2, 11, 4, 10, 9, 12, 0, 3, 14, 8, 13, 6, 7, 1],
    [7, 2, 12, 5, 8, 4, 6, 11, 14, 9, 1, 15, 13, 3, 10, 0],
    [1, 13, 15, 0, 14, 8, 2, 11, 7, 4, 12, 10, 9, 3, 5, 6],
];

const fn invert(s: &[[u8; 16]; 8]) -> [[u8; 16]; 8] {
    let mut out = [[0u8; 16]; 8];
    let mut i = 0;
    while i < 8 {
        let mut x = 0;
        while x < 16 {
            out[i][s[i][x] as usize] = x as u8;
            x += 1;
        }
        i += 1;
    }
    out
}
/// The inverse S-boxes (computed: SINV[i][S[i][x]] = x).
pub const SINV: [[u8; 16]; 8] = invert(&S);

/// A 4-bit table applied in bitslice mode: for each of the 32 bit positions j, the nibble
/// (x3_j x2_j x1_j x0_j) is replaced by its table image (section 3).
pub fn table_bitslice(t: &[u8; 16], x: [u32; 4]) -> [u32; 4] {
    let mut y = [0u32; 4];
    let mut j = 0;
    while j < 32 {
        let nib = ((x[0] >> j) & 1) | (((x[1] >> j) & 1) << 1) | (((x[2] >> j) & 1) << 2) | (((x[3] >> j) & 1) << 3);
        let o = t[nib as usize] as u32;
        y[0] |= (o & 1) << j;
        y[1] |= ((o >> 1) & 1) << j;
        y[2] |= ((o >> 2) & 1) << j;
        y[3] |= ((o >> 3) & 1) << j;
        j += 1;
    }
    y
}

/// S_{i mod 8} in bitslice mode.
pub fn sbox(i: usize, x: [u32; 4]) -> [u32; 4] { table_bitslice(&S[i % 8], x) }
/// S_{i mod 8}^-1 in bitslice mode.
pub fn sbox_inv(i: usize, x: [u32; 4]) -> [u32; 4] { table_bitslice(&SINV[i % 8], x) }

/// The linear transformation in bitslice mode, section 3.
pub fn lt(x: [u32; 4]) -> [u32; 4] {
    let [mut x0, mut x1, mut x2, mut x3] = x;
    x0 = x0.rotate_left(13);
    x2 = x2.rotate_left(3);
    x1 = x1 ^ x0 ^ x2;
    x3 = x3 ^ x2 ^ (x0 << 3);
    x1 = x1.rotate_left(1);
    x3 = x3.rotate_left(7);
    x0 = x0 ^ x1 ^ x3;
    x2 = x2 ^ x3 ^ (x1 << 7);
    x0 = x0.rotate_left(5);
    x2 = x2.rotate_left(22);
    [x0, x1, x2, x3]
}

/// The inverse linear transformation (the steps of `lt` undone in reverse order).
pub fn lt_inv(x: [u32; 4]) -> [u32; 4] {
    let [mut x0, mut x1, mut x2, mut x3] = x;
    x2 = x2.rotate_right(22);
    x0 = x0.rotate_right(5);
    x2 = x2 ^ x3 ^ (x1 << 7);
    x0 = x0 ^ x1 ^ x3;
    x3 = x3.rotate_right(7);
    x1 = x1.rotate_right(1);
    x3 = x3 ^ x2 ^ (x0 << 3);
    x1 = x1 ^ x0 ^ x2;
    x2 = x2.rotate_right(3);
    x0 = x0.rotate_right(13);
    [x0, x1, x2, x3]
}

pub fn xor4(a: [u32; 4], b: [u32; 4]) -> [u32; 4] { [a[0] ^ b[0], a[1] ^ b[1], a[2] ^ b[2], a[3] ^ b[3]] }

/// Section 4: a user key of `n` bytes (16 <= n <= 32; the first `n` bytes of `key`) padded to 256 bits.
pub fn pad_key(key: &[u8; 32], n: usize) -> [u8; 32] {
    let mut out = [0u8; 32];
    let mut i = 0;
    while i < 32 {
        if i < n {
            out[i] = key[i];
        } else if i == n {
            out[i] = 0x01;
        }
        i += 1;
    }
    out
}

/// Section 4: prekeys w_0..w_131 from the 256-bit key, then round keys K_0..K_32 through the S-boxes
/// (S3 for K_0, S2 for K_1, S1, S0, S7, ... : S_{(3 - i) mod 8} for K_i).
pub fn key_schedule(key: &[u8; 32]) -> [[u32; 4]; 33] {
    // w[i + 8] holds w_i
    let mut w = [0u32; 140];
    let mut i = 0;
    while i < 8 {
        w[i] = u32::from_le_bytes([key[4 * i], key[4 * i + 1], key[4 * i + 2], key[4 * i + 3]]);
        i += 1;
    }
    let mut i = 0;
    while i < 132 {
        w[i + 8] = (w[i] ^ w[i + 3] ^ w[i + 5] ^ w[i + 7] ^ PHI ^ (i as u32)).rotate_left(11);
        i += 1;
    }
    let mut k = [[0u32; 4]; 33];
    let mut i = 0;
    while i < 33 {
        let which = (8 + 3 - (i % 8)) % 8;
        k[i] = sbox(which, [w[8 + 4 * i], w[8 + 4 * i + 1], w[8 + 4 * i + 2], w[8 + 4 * i + 3]]);
        i += 1;
    }
    k
}

/// Section 3: B_{i+1} = L(S_i(B_i ^ K_i)) for i = 0..30, B_32 = S_31(B_31 ^ K_31) ^ K_32.
pub fn encrypt_words(k: &[[u32; 4]; 33], block: [u32; 4]) -> [u32; 4] {
    let mut b = block;
    let mut i = 0;
    while i < 31 {
        b = lt(sbox(i, xor4(b, k[i])));
        i += 1;
    }
    xor4(sbox(31, xor4(b, k[31])), k[32])
}

/// Inverse S-boxes, inverse linear transformation, reverse order of the subkeys (section 2).
pub fn decrypt_words(k: &[[u32; 4]; 33], block: [u32; 4]) -> [u32; 4] {
    let mut b = xor4(sbox_inv(31, xor4(block, k[32])), k[31]);
    let mut i = 31;
    while i > 0 {
        i -= 1;
        b = xor4(sbox_inv(i, lt_inv(b)), k[i]);
    }
    b
}

pub fn words_of(b: &[u8; 16]) -> [u32; 4] {
    let mut w = [0u32; 4];
    let mut i = 0;
    while i < 4 {
        w[i] = u32::from_le_bytes([b[4 * i], b[4 * i + 1], b[4 * i + 2], b[4 * i + 3]]);
        i += 1;
    }
    w
}
pub fn bytes_of(w: &[u32; 4]) -> [u8; 16] {
    let mut b = [0u8; 16];
    let mut i = 0;
    while i < 4 {
        let x = w[i].to_le_bytes();
        b[4 * i] = x[0];
        b[4 * i + 1] = x[1];
        b[4 * i + 2] = x[2];
        b[4 * i + 3] = x[3];
        i += 1;
    }
    b
}

pub fn encrypt_with(k: &[[u32; 4]; 33], block: &[u8; 16]) -> [u8; 16] { bytes_of(&encrypt_words(k, words_of(block))) }
pub fn decrypt_with(k: &[[u32; 4]; 33], block: &[u8; 16]) -> [u8; 16] { bytes_of(&decrypt_words(k, words_of(block))) }

/// Serpent encryption under the user key `key[..n]`, 16 <= n <= 32.
pub fn encrypt(key: &[u8; 32], n: usize, block: &[u8; 16]) -> [u8; 16] { encrypt_with(&key_schedule(&pad_key(key, n)), block) }
pub fn decrypt(key: &[u8; 32], n: usize, block: &[u8; 16]) -> [u8; 16] { decrypt_with(&key_schedule(&pad_key(key, n)), block) }

#[cfg(test)]
mod tests {
    use super::*;

    fn hex<const N: usize>(s: &str) -> [u8; N] {
        let b = s.as_bytes();
        assert_eq!(b.len(), 2 * N);
        let mut out = [0u8; N];
        for i in 0..N {
            let d = |c: u8| (c as char).to_digit(16).unwrap() as u8;
            out[i] = d(b[2 * i]) << 4 | d(b[2 * i + 1]);
        }
        out
    }
    fn kat(key: &str, pt: &str, ct: &str) {
        let n = key.len() / 2;
        let mut k = [0xA5u8; 32]; // bytes beyond n must be ignored
        for i in 0..n {
            k[i] = hex::<1>(&key[2 * i..2 * i + 2])[0];
        }
        let p: [u8; 16] = hex(pt);
        let c: [u8; 16] = hex(ct);
        assert_eq!(encrypt(&k, n, &p), c);
        assert_eq!(decrypt(&k, n, &c), p);
    }

    // NESSIE "Serpent-{128,192,256}-128.verified.test-vectors" (the byte convention of /repo's bundled vectors)
    #[test]
    fn nessie_128() {
        kat("80000000000000000000000000000000", "00000000000000000000000000000000", "264e5481eff42a4606abda06c0bfda3d");
        kat("40000000000000000000000000000000", "00000000000000000000000000000000", "4a231b3bc727993407ac6ec8350e8524");
        kat("04000000000000000000000000000000", "00000000000000000000000000000000", "5e86bb8f6b1175510c6b244281a0b04a");
        // set 8 vector 1
        kat("2bd6459f82c5b300952c49104881ff48", "ea024714ad5c4d84ea024714ad5c4d84", "92d7f8ef2c36c53409f275902f06539f");
    }
    #[test]
    fn nessie_192() {
        kat("800000000000000000000000000000000000000000000000", "00000000000000000000000000000000", "9e274ead9b737bb21efcfca548602689");
        kat("2bd6459f82c5b300952c49104881ff482bd6459f82c5b300", "ea024714ad5c4d84ea024714ad5c4d84", "827b18c2678a239dfc5512842000e204");
    }
    #[test]
    fn nessie_256() {
        kat("8000000000000000000000000000000000000000000000000000000000000000", "00000000000000000000000000000000", "a223aa1288463c0e2be38ebd825616c0");
        kat("2bd6459f82c5b300952c49104881ff482bd6459f82c5b300952c49104881ff48", "ea024714ad5c4d84ea024714ad5c4d84", "3e507730776b93fdea661235e1dd99f0");
    }
    #[test]
    fn sboxes_are_permutations_and_inverse() {
        for i in 0..8 {
            let mut seen = 0u16;
            for x in 0..16 {
                seen |= 1 << S[i][x];
                assert_eq!(SINV[i][S[i][x] as usize] as usize, x);
            }
            assert_eq!(seen, 0xffff);
        }
    }
    #[test]
    fn short_key_is_padded_key() {
        // a 16-byte key is the 32-byte key "key || 01 || 00.."
        let mut k = [0u8; 32];
        for i in 0..16 { k[i] = i as u8 * 7 + 1; }
        let mut full = k;
        full[16] = 1;
        let p = [0x33u8; 16];
        assert_eq!(encrypt(&k, 16, &p), encrypt(&full, 32, &p));
        let a = [1, 2, 3, 0xffff_0000u32];
        assert_eq!(lt_inv(lt(a)), a);
        assert_eq!(sbox_inv(5, sbox(5, a)), a);
    }
}
