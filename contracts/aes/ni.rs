// Contracts for the AES-NI backend (aes/src/ni.rs, ni/encdec.rs, ni/expand.rs), relative to the software models of
// the AES-NI instructions in /verif/intrinsics/x86_aes.rs (trusted, stated in every evidence file).
//
// @module file=aes/src/ni.rs
// @crateattr recursion_limit = "2048"
use super::*;
use super::arch::*;
use bcref::aes as fips;
use cipher::{Array, inout::InOut};
use crate::Block;
include!("@VERIF@/intrinsics/x86_aes.rs");
use x86_models::{from_b, to_b};

fn keys_from<const N: usize>(rk: &[[u8; 16]; N]) -> [__m128i; N] {
    let mut keys: [__m128i; N] = unsafe { core::mem::zeroed() };
    let mut i = 0;
    while i < N {
        keys[i] = from_b(rk[i]);
        i += 1;
    }
    keys
}
fn eq16(a: &[u8; 16], b: &[u8; 16]) -> bool {
    let mut ok = true;
    let mut i = 0;
    while i < 16 {
        ok &= a[i] == b[i];
        i += 1;
    }
    ok
}

// ---- single-block functions, for EVERY value of the round keys
macro_rules! ni_enc {
    ($name:ident, $n:expr) => {
        #[kani::proof]
        #[kani::stub(core::arch::x86_64::_mm_aesenc_si128, x86_models::aesenc)]
        #[kani::stub(core::arch::x86_64::_mm_aesenclast_si128, x86_models::aesenclast)]
        #[kani::unwind(17)]
        fn $name() {
            let rk: [[u8; 16]; $n] = kani::any();
            let keys = keys_from(&rk);
            let blk: [u8; 16] = kani::any();
            let inb: Block = Array(blk);
            let mut outb = Block::default();
            unsafe { encdec::encrypt::<$n>(&keys, InOut::from((&inb, &mut outb))); }
            assert!(eq16(&outb.0, &fips::cipher::<$n>(&rk, &blk)));
            assert!(eq16(&inb.0, &blk));
        }
    };
}
macro_rules! ni_dec {
    ($name:ident, $n:expr) => {
        #[kani::proof]
        #[kani::stub(core::arch::x86_64::_mm_aesdec_si128, x86_models::aesdec)]
        #[kani::stub(core::arch::x86_64::_mm_aesdeclast_si128, x86_models::aesdeclast)]
        #[kani::unwind(17)]
        fn $name() {
            // dk in FIPS-197 5.3.5 indexing (dk[r] used in round r); the NI backend stores them reversed
            let dk: [[u8; 16]; $n] = kani::any();
            let mut rev = [[0u8; 16]; $n];
            let mut i = 0;
            while i < $n {
                rev[i] = dk[$n - 1 - i];
                i += 1;
            }
            let keys = keys_from(&rev);
            let blk: [u8; 16] = kani::any();
            let inb: Block = Array(blk);
            let mut outb = Block::default();
            unsafe { encdec::decrypt::<$n>(&keys, InOut::from((&inb, &mut outb))); }
            assert!(eq16(&outb.0, &fips::eq_inv_cipher::<$n>(&dk, &blk)));
        }
    };
}
// same harness, Kissat (AES-256 decrypt: 2188 s with Kissat while other solvers shared the machine; CaDiCaL did not finish in 3600 s)
macro_rules! ni_dec_kissat {
    ($name:ident, $n:expr) => {
        #[kani::proof]
        #[kani::stub(core::arch::x86_64::_mm_aesdec_si128, x86_models::aesdec)]
        #[kani::stub(core::arch::x86_64::_mm_aesdeclast_si128, x86_models::aesdeclast)]
        #[kani::unwind(17)]
        #[kani::solver(kissat)]
        fn $name() {
            // dk in FIPS-197 5.3.5 indexing (dk[r] used in round r); the NI backend stores them reversed
            let dk: [[u8; 16]; $n] = kani::any();
            let mut rev = [[0u8; 16]; $n];
            let mut i = 0;
            while i < $n {
                rev[i] = dk[$n - 1 - i];
                i += 1;
            }
            let keys = keys_from(&rev);
            let blk: [u8; 16] = kani::any();
            let inb: Block = Array(blk);
            let mut outb = Block::default();
            unsafe { encdec::decrypt::<$n>(&keys, InOut::from((&inb, &mut outb))); }
            assert!(eq16(&outb.0, &fips::eq_inv_cipher::<$n>(&dk, &blk)));
        }
    };
}
// @ob name=c_ni_encrypt_11 props=C02,C20 fn=aes::ni::encdec::encrypt tier=thorough timeout=3600
ni_enc!(c_ni_encrypt_11, 11);
// @ob name=c_ni_encrypt_13 props=C02,C20 fn=aes::ni::encdec::encrypt tier=thorough timeout=3600
ni_enc!(c_ni_encrypt_13, 13);
// @ob name=c_ni_encrypt_15 props=C02,C20 fn=aes::ni::encdec::encrypt tier=thorough timeout=3600
ni_enc!(c_ni_encrypt_15, 15);
// @ob name=c_ni_decrypt_11 props=C02,C20 fn=aes::ni::encdec::decrypt tier=thorough timeout=3600
ni_dec!(c_ni_decrypt_11, 11);
// @ob name=c_ni_decrypt_13 props=C02,C20 fn=aes::ni::encdec::decrypt tier=thorough timeout=3600
ni_dec!(c_ni_decrypt_13, 13);
// @ob name=c_ni_decrypt_15 props=C02,C20 fn=aes::ni::encdec::decrypt tier=thorough solver=kissat timeout=7200
ni_dec_kissat!(c_ni_decrypt_15, 15);

// ---- inv_keys == equivalent-inverse-cipher key schedule (reversed), for every round-key set
macro_rules! ni_inv_keys {
    ($name:ident, $n:expr) => {
        #[kani::proof]
        #[kani::stub(core::arch::x86_64::_mm_aesimc_si128, x86_models::aesimc)]
        #[kani::unwind(17)]
        fn $name() {
            let rk: [[u8; 16]; $n] = kani::any();
            let keys = keys_from(&rk);
            let inv = unsafe { expand::inv_keys::<$n>(&keys) };
            let dk = fips::eq_inv_keys::<$n>(&rk);
            let mut i = 0;
            while i < $n {
                assert!(eq16(&to_b(inv[i]), &dk[$n - 1 - i]));
                i += 1;
            }
        }
    };
}
// @ob name=c_ni_inv_keys_11 props=C02,C12,C20 fn=aes::ni::expand::inv_keys timeout=600
ni_inv_keys!(c_ni_inv_keys_11, 11);
// @ob name=c_ni_inv_keys_13 props=C02,C12,C20 fn=aes::ni::expand::inv_keys timeout=600
ni_inv_keys!(c_ni_inv_keys_13, 13);
// @ob name=c_ni_inv_keys_15 props=C02,C12,C20 fn=aes::ni::expand::inv_keys timeout=600
ni_inv_keys!(c_ni_inv_keys_15, 15);

// ---- key expansion == FIPS-197 KeyExpansion, for every key
macro_rules! ni_expand {
    ($name:ident, $f:ident, $klen:expr, $n:expr) => {
        #[kani::proof]
        #[kani::stub(core::arch::x86_64::_mm_aeskeygenassist_si128, x86_models::aeskeygenassist)]
        #[kani::unwind(62)]
        fn $name() {
            let key: [u8; $klen] = kani::any();
            let keys = unsafe { expand::$f(&key) };
            let rk = fips::key_expansion::<$klen, $n>(&key);
            let mut i = 0;
            while i < $n {
                assert!(eq16(&to_b(keys[i]), &rk[i]));
                i += 1;
            }
        }
    };
}
// @ob name=c_ni_expand_128 props=C02,C20 fn=aes::ni::expand::aes128_expand_key timeout=900
ni_expand!(c_ni_expand_128, aes128_expand_key, 16, 11);
// @ob name=c_ni_expand_192 props=C02,C20 fn=aes::ni::expand::aes192_expand_key timeout=900
ni_expand!(c_ni_expand_192, aes192_expand_key, 24, 13);
// @ob name=c_ni_expand_256 props=C02,C20 fn=aes::ni::expand::aes256_expand_key timeout=900
ni_expand!(c_ni_expand_256, aes256_expand_key, 32, 15);
