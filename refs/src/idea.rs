//! IDEA, written from X. Lai, J. Massey, S. Murphy, "Markov ciphers and differential cryptanalysis"
//! (EUROCRYPT '91, section 6 "The IDEA cipher", fig. 2) and X. Lai, "On the Design and Security of Block
//! Ciphers" (ETH Series in Information Processing vol. 1, 1992), chapter 3:
//!
//! * three group operations on 16-bit subblocks: XOR, addition modulo 2^16 (`add`), and multiplication
//!   modulo 2^16 + 1 where the all-zero subblock stands for 2^16 (`mul`);
//! * 8 rounds: the four subblocks are combined with Z1..Z4 (mul, add, add, mul), the MA structure
//!   (multiplication-addition, keyed by Z5, Z6) is computed on the XORs of the two pairs, its two outputs are
//!   XORed back, and the involutory permutation P_I swaps the two middle subblocks;
//! * the output transformation (Z49..Z52) follows round 8 *without* P_I;
//! * key schedule: the 128-bit user key is split into Z1..Z8 (big-endian 16-bit), then cyclically shifted
//!   left by 25 bits and split again, until 52 subkeys are taken;
//! * decryption is the same computation with the subkeys of table 3.2 of the thesis:
//!   round r (1..8) uses (Z^-1[10-r](1), -Z[10-r](3), -Z[10-r](2), Z^-1[10-r](4), Z[9-r](5), Z[9-r](6)) with the
//!   two additive keys NOT exchanged for r = 1 and for the output transformation.
//!
//! Blocks and keys are big-endian sequences of 16-bit subblocks.

pub const ROUNDS: usize = 8;
pub const NSUB: usize = 52;

/// Multiplication modulo the prime 2^16 + 1; the subblock 0 represents 2^16.
pub const fn mul(a: u16, b: u16) -> u16 {
    let x: u64 = if a == 0 { 0x10000 } else { a as u64 };
    let y: u64 = if b == 0 { 0x10000 } else { b as u64 };
    let p = (x * y) % 0x10001;
    // p is in 1..=2^16 (the group has no zero); 2^16 is written as the all-zero subblock
    (p & 0xffff) as u16
}

/// Addition modulo 2^16.
pub const fn add(a: u16, b: u16) -> u16 {
    (((a as u32) + (b as u32)) % 0x10000) as u16
}

/// Additive inverse modulo 2^16.
pub const fn add_inv(a: u16) -> u16 {
    ((0x10000 - (a as u32)) % 0x10000) as u16
}

/// Multiplicative inverse in the group of `mul`, by Fermat: a^(p-2) with p = 2^16 + 1, p - 2 = 0xFFFF
/// (sixteen one bits: square-and-multiply with a constant number of steps).
pub const fn mul_inv(a: u16) -> u16 {
    let mut r: u16 = 1;
    let mut i = 0;
    while i < 16 {
        r = mul(r, r);
        r = mul(r, a);
        i += 1;
    }
    r
}

/// The 52 encryption subkeys Z1..Z52 (index 0..51).
pub const fn enc_subkeys(key: &[u8; 16]) -> [u16; NSUB] {
    // the key register as a 128-bit number, most significant bit first
    let mut reg: u128 = 0;
    let mut i = 0;
    while i < 16 {
        reg = (reg << 8) | key[i] as u128;
        i += 1;
    }
    let mut z = [0u16; NSUB];
    let mut n = 0;
    while n < NSUB {
        let pos = n % 8; // position inside the current register contents
        z[n] = (reg >> (112 - 16 * pos)) as u16;
        if pos == 7 {
            reg = reg.rotate_left(25);
        }
        n += 1;
    }
    z
}

/// Decryption subkeys from encryption subkeys (table 3.2 of Lai's thesis).
pub const fn dec_subkeys(z: &[u16; NSUB]) -> [u16; NSUB] {
    let mut d = [0u16; NSUB];
    // round r = 1..=9 (9 = output transformation) uses the keys of encryption "round" 10 - r
    let mut r = 1;
    while r <= 9 {
        let src = 6 * (9 - r); // index of Z[10-r](1)
        let dst = 6 * (r - 1);
        d[dst] = mul_inv(z[src]);
        d[dst + 3] = mul_inv(z[src + 3]);
        if r == 1 || r == 9 {
            d[dst + 1] = add_inv(z[src + 1]);
            d[dst + 2] = add_inv(z[src + 2]);
        } else {
            d[dst + 1] = add_inv(z[src + 2]);
            d[dst + 2] = add_inv(z[src + 1]);
        }
        if r <= 8 {
            let ma = 6 * (8 - r) + 4; // Z[9-r](5)
            d[dst + 4] = z[ma];
            d[dst + 5] = z[ma + 1];
        }
        r += 1;
    }
    d
}

/// The MA (multiplication-addition) structure: inputs (p, q), keys (z5, z6), outputs (t1, t2) where
/// t1 is XORed onto subblocks 1 and 3 and t2 onto subblocks 2 and 4.
pub const fn ma(p: u16, q: u16, z5: u16, z6: u16) -> (u16, u16) {
    let u = mul(p, z5);
    let t1 = mul(add(q, u), z6);
    let t2 = add(u, t1);
    (t1, t2)
}

/// One round *without* the trailing permutation P_I: (X1..X4) and six subkeys.
pub const fn round_no_swap(x: [u16; 4], k: &[u16; NSUB], r: usize) -> [u16; 4] {
    let y1 = mul(x[0], k[6 * r]);
    let y2 = add(x[1], k[6 * r + 1]);
    let y3 = add(x[2], k[6 * r + 2]);
    let y4 = mul(x[3], k[6 * r + 3]);
    let (t1, t2) = ma(y1 ^ y3, y2 ^ y4, k[6 * r + 4], k[6 * r + 5]);
    [y1 ^ t1, y2 ^ t2, y3 ^ t1, y4 ^ t2]
}

/// P_I: exchange of the two middle subblocks.
pub const fn swap_middle(x: [u16; 4]) -> [u16; 4] {
    [x[0], x[2], x[1], x[3]]
}

pub const fn output_transform(x: [u16; 4], k: &[u16; NSUB]) -> [u16; 4] {
    [mul(x[0], k[48]), add(x[1], k[49]), add(x[2], k[50]), mul(x[3], k[51])]
}

/// The IDEA computation with a given list of 52 subkeys (used for both directions).
pub const fn crypt_words(x: [u16; 4], k: &[u16; NSUB]) -> [u16; 4] {
    let mut s = x;
    let mut r = 0;
    while r < ROUNDS {
        s = round_no_swap(s, k, r);
        if r + 1 < ROUNDS {
            s = swap_middle(s);
        }
        r += 1;
    }
    output_transform(s, k)
}

pub const fn block_words(b: &[u8; 8]) -> [u16; 4] {
    [
        ((b[0] as u16) << 8) | b[1] as u16,
        ((b[2] as u16) << 8) | b[3] as u16,
        ((b[4] as u16) << 8) | b[5] as u16,
        ((b[6] as u16) << 8) | b[7] as u16,
    ]
}
pub const fn words_block(w: [u16; 4]) -> [u8; 8] {
    [
        (w[0] >> 8) as u8, w[0] as u8, (w[1] >> 8) as u8, w[1] as u8,
        (w[2] >> 8) as u8, w[2] as u8, (w[3] >> 8) as u8, w[3] as u8,
    ]
}

/// The block computation on bytes with a given subkey list.
pub const fn crypt(block: &[u8; 8], k: &[u16; NSUB]) -> [u8; 8] {
    words_block(crypt_words(block_words(block), k))
}

pub const fn encrypt(key: &[u8; 16], block: &[u8; 8]) -> [u8; 8] {
    crypt(block, &enc_subkeys(key))
}
pub const fn decrypt(key: &[u8; 16], block: &[u8; 8]) -> [u8; 8] {
    crypt(block, &dec_subkeys(&enc_subkeys(key)))
}

#[cfg(test)]
mod tests {
    use super::*;

    fn h8(x: u64) -> [u8; 8] { x.to_be_bytes() }
    fn h16(x: u128) -> [u8; 16] { x.to_be_bytes() }

    // The worked example of Lai's thesis (also Schneier, Applied Cryptography 2nd ed., and the PGP idea.c self
    // test): key = (1,2,3,4,5,6,7,8), plaintext = (0,1,2,3) -> ciphertext (11FB, ED2B, 0198, 6DE5).
    #[test]
    fn lai_example() {
        let key = h16(0x0001_0002_0003_0004_0005_0006_0007_0008);
        let pt = h8(0x0000_0001_0002_0003);
        let ct = h8(0x11FB_ED2B_0198_6DE5);
        assert_eq!(encrypt(&key, &pt), ct);
        assert_eq!(decrypt(&key, &ct), pt);
        // the subkey table of that example (first and last encryption rows, first decryption row)
        let z = enc_subkeys(&key);
        assert_eq!(&z[0..8], &[1, 2, 3, 4, 5, 6, 7, 8]);
        assert_eq!(&z[8..16], &[0x0400, 0x0600, 0x0800, 0x0a00, 0x0c00, 0x0e00, 0x1000, 0x0200]);
        assert_eq!(&z[48..52], &[0x0080, 0x00c0, 0x0100, 0x0140]);
        let d = dec_subkeys(&z);
        assert_eq!(&d[0..6], &[0xfe01, 0xff40, 0xff00, 0x659a, 0xc000, 0xe001]);
        assert_eq!(&d[48..52], &[0x0001, 0xfffe, 0xfffd, 0xc001]);
    }

    // NESSIE Idea-128-64.verified.test-vectors (sets 1-3, first vectors; set 8 decryption)
    #[test]
    fn nessie() {
        let cases: [(u128, u64, u64); 6] = [
            (0x80000000_00000000_00000000_00000000, 0x0000000000000000, 0xB1F5F7F87901370F),
            (0x40000000_00000000_00000000_00000000, 0x0000000000000000, 0xB3927DFFB6358626),
            (0x00000000_00000000_00000000_00000000, 0x8000000000000000, 0x8001000180008000),
            (0x00000000_00000000_00000000_00000000, 0x0000000000000000, 0x0001000100000000),
            (0x01010101_01010101_01010101_01010101, 0x0101010101010101, 0xE3F8AFF7A3795615),
            (0x00010203_04050607_08090A0B_0C0D0E0F, 0x0011223344556677, 0xF526AB9A62C0D258),
        ];
        for (k, p, c) in cases {
            assert_eq!(encrypt(&h16(k), &h8(p)), h8(c), "key {:032x}", k);
            assert_eq!(decrypt(&h16(k), &h8(c)), h8(p));
        }
    }

    #[test]
    fn group_laws() {
        // mul is multiplication in Z*_65537 with 0 <-> 2^16, mul_inv is its inverse, exhaustively
        let mut a: u32 = 0;
        while a < 0x10000 {
            let i = mul_inv(a as u16);
            assert_eq!(mul(a as u16, i), 1);
            assert_eq!(add(a as u16, add_inv(a as u16)), 0);
            a += 1;
        }
        assert_eq!(mul(0, 0), 1); // (-1)(-1) = 1
        assert_eq!(mul(0, 1), 0);
        assert_eq!(mul(2, 0x8000), 0); // 2 * 2^15 = 2^16
        assert_eq!(mul_inv(0), 0);
        assert_eq!(mul_inv(1), 1);
    }

    // mul(mul(x, k), mul_inv(k)) == x for all 2^32 pairs (the axiom the IDEA round-trip contract rests on);
    // ~25 s with --release:  cargo test --release --offline idea -- --ignored
    #[test]
    #[ignore]
    fn group_axiom_exhaustive() {
        let mut k: u32 = 0;
        while k < 0x10000 {
            let i = mul_inv(k as u16);
            let mut x: u32 = 0;
            while x < 0x10000 {
                assert_eq!(mul(mul(x as u16, k as u16), i), x as u16);
                x += 1;
            }
            k += 1;
        }
    }
}
