// Contracts for the aarch64 NEON backend of the `kuznyechik` crate (kuznyechik/src/neon/mod.rs, neon/backends.rs), relative
// to the software models of the NEON intrinsics in /verif/intrinsics/aarch64_neon.rs (TRUSTED, transcribed from the Arm
// ARM pseudocode; stated there per intrinsic).
//
// The crate selects this backend only under cfg(all(target_arch = "aarch64", target_feature = "neon")), and
// `core::arch::aarch64` does not exist on this x86-64 host.  The sources are therefore compiled as SHADOW COPIES
// (directive @shadow, bin/vplib.py): a copy of the real file under a new name (a64_*) in the per-run scratch tree with
// the LOGGED textual substitutions listed below and nothing else changed:
//   neon/backends.rs -> neon/a64_backends.rs
//      the intrinsics import is redirected to the model module; the two private helpers `sub_bytes`, `transform` are
//      made `pub(super)` so that their own contracts (n64_transform, n64_subbytes) can call them.
//   neon/mod.rs -> neon/a64_mod.rs
//      `mod backends;` re-pointed to the shadow copy that this module declares; the three trait impls are for the
//      types of the shadowed lib.rs (its parent module) instead of the crate root's (on this host the crate root's
//      `Kuznyechik*` are the sse2 types and already have these impls).
//   lib.rs -> a64_lib.rs     (the public types Kuznyechik / KuznyechikEnc / KuznyechikDec over `imp` = neon)
//      the cfg_if that selects the backend is evaluated "as on aarch64 with neon": the x86 predicate is replaced by
//      `any()` (false), `target_arch = "aarch64"` and `target_feature = "neon"` by `all()` (true); the module
//      declarations of the selected branch point at the real `crate::fused_tables` and the shadowed neon/mod.rs; the
//      declarations of the shared modules consts / gft / utils become imports of the real ones.
// Module tree under cfg(kani), default and zeroize configurations only (modcfg: the soft / compact_soft configurations
// have no fused tables resp. select another branch):
//     crate::__vp_neon                 (this file, child of lib.rs)
//        ::a64_neon                    intrinsics/aarch64_neon.rs
//        ::backends                    shadow copy of neon/backends.rs
//        ::a64lib                      shadow copy of lib.rs
//           ::neon                     shadow copy of neon/mod.rs (child of a64lib: it reads a64lib's private fields `keys`)
// The real tables crate::fused_tables::{ENC_TABLE, DEC_TABLE}, crate::consts::{P, P_INV} and crate::utils::KEYGEN are
// the ones the shadow copy uses (same paths as the original), so the obligations about their contents
// (kuznyechik.fused_tables.*, kuznyechik.utils.c_keygen ...) apply unchanged.
// The models fix little-endian data (all aarch64-* Rust targets; aarch64_be-* is outside the models).
//
// @module file=kuznyechik/src/lib.rs modcfg='not(any(kuznyechik_backend = "soft", kuznyechik_backend = "compact_soft"))'
// @config name=zeroize features=zeroize
// @shadow src=kuznyechik/src/neon/backends.rs dst=a64_backends.rs sub="use core::arch::aarch64::*;=>use crate::__vp_neon::a64_neon::*;" sub="unsafe fn sub_bytes(=>pub(super) unsafe fn sub_bytes(" sub="unsafe fn transform(=>pub(super) unsafe fn transform("
// @shadow src=kuznyechik/src/neon/mod.rs dst=a64_mod.rs sub="mod backends;=>use super::super::backends;" sub="for crate::Kuznyechik=>for super::Kuznyechik"
// @shadow src=kuznyechik/src/lib.rs dst=a64_lib.rs sub="any(target_arch = \"x86_64\", target_arch = \"x86\")=>any()" sub="target_arch = \"aarch64\"=>all()" sub="target_feature = \"neon\"=>all()" sub="mod fused_tables;=>use crate::fused_tables;" sub="mod neon;=>#[path = \"neon/a64_mod.rs\"] pub(crate) mod neon;" sub="mod consts;=>use crate::consts;" sub="pub(crate) mod gft;=>pub(crate) use crate::gft;" sub="pub(crate) mod utils;=>pub(crate) use crate::utils;" sub="#![no_std]=>"
use bcref::kuznyechik as kz;
use cipher::{InOut, ParBlocks};
use crate::{consts::{P, P_INV}, fused_tables::{DEC_TABLE, ENC_TABLE, Table}, Key};
use crate::__vp_lemmas::{spec_dec_dk, spec_inv_keys, tro};
include!("@VERIF@/intrinsics/aarch64_neon.rs");
use a64_neon::*;

#[path = "neon/a64_backends.rs"]
pub(crate) mod backends;
#[path = "a64_lib.rs"]
pub(crate) mod a64lib;

use backends::{DecBackend, EncBackend, RoundKeys, expand_enc_keys, inv_enc_keys, sub_bytes, transform};

pub fn bytes(x: uint8x16_t) -> [u8; 16] { x.0 }
pub fn word(b: &[u8; 16]) -> uint8x16_t { uint8x16_t(*b) }
pub fn any_word() -> uint8x16_t { uint8x16_t(kani::any()) }
pub fn any_round_keys() -> RoundKeys {
    let raw: [[u8; 16]; 10] = kani::any();
    unsafe { core::mem::transmute(raw) }
}
pub fn raw_keys(k: &RoundKeys) -> [[u8; 16]; 10] { unsafe { core::mem::transmute(*k) } }

// ---------------------------------------------------------------------------------------------------------------
// `transform` for EVERY table content (same statement and method as sse2.c_transform): the sixteen 16-byte loads from
// the table are replaced by an uninterpreted function of the byte offset of the load inside the table (`luf::at`), so
// the 64 KiB table is never read; the stand-in asserts that each load is 16-byte aligned and inside the table.  Proved:
// the result is the XOR of the entries (i, b_i), i = 0..15, entry (i, v) being the 16 bytes at offset 16 * (256 * i + v).
// In this harness `vld1q_u8` is called by `transform` only.
pub static mut BASE: usize = 0;
pub mod luf {
    pub const MAXC: usize = 40;
    pub static mut IN: [usize; MAXC] = [0; MAXC];
    pub static mut OUT: [[u8; 16]; MAXC] = [[0; 16]; MAXC];
    pub static mut N: usize = 0;
    #[allow(static_mut_refs)]
    pub fn at(off: usize) -> [u8; 16] {
        unsafe {
            let mut y: [u8; 16] = kani::any();
            let mut found = false;
            let mut i = 0;
            while i < N {
                if !found && IN[i] == off { y = OUT[i]; found = true; }
                i += 1;
            }
            assert!(N < MAXC);
            IN[N] = off; OUT[N] = y; N += 1;
            y
        }
    }
}
#[allow(static_mut_refs)]
unsafe fn model_table_load(p: *const u8) -> uint8x16_t {
    let off = (p as usize).wrapping_sub(BASE);
    assert!(off % 16 == 0 && off <= 65536 - 16); // inside the table, aligned
    uint8x16_t(luf::at(off))
}

// @ob name=n64_transform props=C07,C20 fn=kuznyechik::neon::backends::transform timeout=600
#[kani::proof]
#[kani::stub(a64_neon::vld1q_u8, model_table_load)]
#[kani::unwind(41)]
fn n64_transform() {
    let which: bool = kani::any();
    let t: &Table = if which { &ENC_TABLE } else { &DEC_TABLE };
    unsafe { BASE = t.0.as_ptr() as usize; }
    let b = any_word();
    let r = unsafe { transform(b, t) };
    let bb = bytes(b);
    let mut acc = [0u8; 16];
    let mut i = 0;
    while i < 16 {
        acc = kz::xor(&acc, &luf::at(16 * (256 * i + bb[i] as usize)));
        i += 1;
    }
    assert!(kz::eq(&bytes(r), &acc));
}

// `sub_bytes` (four 64-byte TBL lookups, ORed) on the two real S-boxes is the standard's S resp. S^-1
// @ob name=n64_subbytes props=C07,C20 fn=kuznyechik::neon::backends::sub_bytes timeout=600
#[kani::proof]
#[kani::unwind(17)]
fn n64_subbytes() {
    let b = any_word();
    assert!(kz::eq(&bytes(unsafe { sub_bytes(b, &P) }), &kz::s(&bytes(b))));
    assert!(kz::eq(&bytes(unsafe { sub_bytes(b, &P_INV) }), &kz::s_inv(&bytes(b))));
}

/// contract of `transform` on the two real tables (n64_transform + fused_tables.* + lemmas l_l_decomp / l_linv_decomp)
pub unsafe fn spec_transform(block: uint8x16_t, table: &Table) -> uint8x16_t {
    if core::ptr::eq(table, &ENC_TABLE) {
        word(&kz::l(&kz::s(&bytes(block))))
    } else {
        assert!(core::ptr::eq(table, &DEC_TABLE)); // no other table exists in the crate
        word(&kz::l_inv(&kz::s_inv(&bytes(block))))
    }
}

// ---- transcript-oracle stand-ins with the real signatures (see lemmas.rs `tro`), as in sse2.rs
pub fn w128(x: uint8x16_t) -> u128 { u128::from_le_bytes(x.0) }
pub fn m128(x: u128) -> uint8x16_t { uint8x16_t(x.to_le_bytes()) }
pub unsafe fn tr_transform(block: uint8x16_t, table: &Table) -> uint8x16_t {
    if core::ptr::eq(table, &ENC_TABLE) {
        m128(tro::ask(tro::LS, w128(block)))
    } else {
        assert!(core::ptr::eq(table, &DEC_TABLE));
        m128(tro::ask(tro::LISI, w128(block)))
    }
}
pub unsafe fn tr_sub_bytes(block: uint8x16_t, sbox: &[u8; 256]) -> uint8x16_t {
    if core::ptr::eq(sbox, &P) {
        m128(tro::ask(tro::S, w128(block)))
    } else {
        assert!(core::ptr::eq(sbox, &P_INV));
        m128(tro::ask(tro::SI, w128(block)))
    }
}

// ---------------------------------------------------------------------------------------------------------------
// key schedule: the 32 constants are read from KEYGEN by the real code and from the checked table CREF by the reference
// @ob name=n64_expand props=C07,C20 fn=kuznyechik::neon::backends::expand_enc_keys uses=n64_transform,c_enc_table_lo,c_enc_table_hi,c_ls_table,l_l_decomp,c_keygen,c_cref_lo,c_cref_hi timeout=600
#[kani::proof]
#[kani::stub(backends::transform, tr_transform)]
#[kani::stub(bcref::kuznyechik::lsx, tro::lsx)]
#[kani::stub(bcref::kuznyechik::c, crate::utils::__vp_utils::cref_lookup)]
#[kani::unwind(33)]
fn n64_expand() {
    let key: [u8; 32] = kani::any();
    let rk = raw_keys(&expand_enc_keys(&cipher::Array(key)));
    assert!(tro::recorded() == 32);
    tro::start_replay();
    let spec = kz::key_schedule(&key);
    assert!(tro::all_replayed());
    let mut i = 0;
    while i < 10 {
        assert!(kz::eq(&rk[i], &spec[i]));
        i += 1;
    }
}

// for every value of the ten encryption keys: dk_{9-i} = LISI(S(K_i)) = L^-1(S^-1(S(K_i))) = L^-1(K_i) (lemmas.l_s_inverse:
// S^-1(S(x)) = x; the reference's l_inv is replaced by `tro::sd_first`, which asks S then LISI and is justified there)
// @ob name=n64_invkeys props=C07,C20 fn=kuznyechik::neon::backends::inv_enc_keys uses=n64_transform,c_dec_table_lo,c_dec_table_hi,c_slinv_table,l_linv_decomp,n64_subbytes,l_s_inverse timeout=600
#[kani::proof]
#[kani::stub(backends::transform, tr_transform)]
#[kani::stub(backends::sub_bytes, tr_sub_bytes)]
#[kani::stub(bcref::kuznyechik::l_inv, tro::sd_first)]
#[kani::unwind(17)]
fn n64_invkeys() {
    let enc = any_round_keys();
    let enc0 = raw_keys(&enc);
    let dec = raw_keys(&inv_enc_keys(&enc));
    assert!(tro::recorded() == 16);
    tro::start_replay();
    let spec = spec_inv_keys(&enc0);
    assert!(tro::all_replayed());
    let enc1 = raw_keys(&enc);
    let mut i = 0;
    while i < 10 {
        assert!(kz::eq(&dec[i], &spec[i]));
        assert!(kz::eq(&enc0[i], &enc1[i])); // argument not written
        i += 1;
    }
}

// ---------------------------------------------------------------------------------------------------------------
// block functions, for every value of the ten round keys and every block
pub fn enc_block(rk: &RoundKeys, b: [u8; 16]) -> [u8; 16] {
    let inp = cipher::Array(b);
    let mut out = cipher::Array([0u8; 16]);
    cipher::BlockCipherEncBackend::encrypt_block(&EncBackend(rk), InOut::from((&inp, &mut out)));
    out.0
}
pub fn dec_block(rk: &RoundKeys, b: [u8; 16]) -> [u8; 16] {
    let inp = cipher::Array(b);
    let mut out = cipher::Array([0u8; 16]);
    cipher::BlockCipherDecBackend::decrypt_block(&DecBackend(rk), InOut::from((&inp, &mut out)));
    out.0
}

// @ob name=n64_encblk props=C07,C03,C20 fn=kuznyechik::neon::backends::EncBackend::encrypt_block uses=n64_transform,c_enc_table_lo,c_enc_table_hi,c_ls_table,l_l_decomp timeout=600
#[kani::proof]
#[kani::stub(backends::transform, tr_transform)]
#[kani::stub(bcref::kuznyechik::lsx, tro::lsx)]
#[kani::unwind(17)]
fn n64_encblk() {
    let rk = any_round_keys();
    let b: [u8; 16] = kani::any();
    let real = enc_block(&rk, b);
    assert!(tro::recorded() == 9);
    tro::start_replay();
    let spec = kz::encrypt_with(&raw_keys(&rk), &b);
    assert!(tro::all_replayed());
    assert!(kz::eq(&real, &spec));
}

// for every value of the ten decryption words (with dk = spec_inv_keys(K) this is the standard's D under K:
// lemmas.l_dec_dk_is_standard).  The first stage uses S^-1(S(x)) = x (lemmas.l_s_inverse), see `tro::sd_first`.
// @ob name=n64_decblk props=C07,C03,C20 fn=kuznyechik::neon::backends::DecBackend::decrypt_block uses=n64_transform,c_dec_table_lo,c_dec_table_hi,c_slinv_table,l_linv_decomp,n64_subbytes,l_s_inverse timeout=600
#[kani::proof]
#[kani::stub(backends::transform, tr_transform)]
#[kani::stub(backends::sub_bytes, tr_sub_bytes)]
#[kani::stub(crate::__vp_lemmas::sd_first, tro::sd_first)]
#[kani::stub(crate::__vp_lemmas::sd_round, tro::sd_round)]
#[kani::stub(crate::__vp_lemmas::sd_last, tro::sd_last)]
#[kani::unwind(17)]
fn n64_decblk() {
    let dk = any_round_keys();
    let b: [u8; 16] = kani::any();
    let real = dec_block(&dk, b);
    assert!(tro::recorded() == 11);
    tro::start_replay();
    let spec = spec_dec_dk(&raw_keys(&dk), &b);
    assert!(tro::all_replayed());
    assert!(kz::eq(&real, &spec));
}

// ---------------------------------------------------------------------------------------------------------------
// encrypt_par_blocks / decrypt_par_blocks (C04), ParBlocksSize = 8: for every value of the ten round keys and every eight
// blocks, output lane j is what the single-block function returns on input lane j - buffer to buffer (input unchanged,
// guard blocks around the output untouched) and in place - for EVERY transform / sub_bytes: the eight single-block calls
// are recorded in the chunked transcript oracle `trp` (same discipline as lemmas.rs `tro`, which holds only 64 calls;
// 8 x 9 = 72 resp. 8 x 11 = 88 are needed), the parallel function, which interleaves the lanes, must ask exactly the
// same questions; SCHED names which.  The keys are not written.
pub mod trp {
    pub const CH: usize = 64; // CBMC keeps arrays of up to 64 elements field-sensitive
    pub const NCH: usize = 2;
    pub const MAXC: usize = CH * NCH;
    pub const LS: usize = 1;
    pub const LISI: usize = 2;
    pub const S: usize = 3;
    pub const SI: usize = 4;
    pub static mut TAG: [[usize; CH]; NCH] = [[0; CH]; NCH];
    pub static mut Q: [[u128; CH]; NCH] = [[0; CH]; NCH];
    pub static mut OUT: [[u128; CH]; NCH] = [[0; CH]; NCH];
    pub static mut SCHED: [[usize; CH]; NCH] = {
        let mut s = [[0; CH]; NCH];
        let mut i = 0;
        while i < MAXC { s[i / CH][i % CH] = i; i += 1; }
        s
    };
    pub static mut N: usize = 0;
    pub static mut POS: usize = 0;
    pub static mut REPLAY: usize = 0;
    pub fn start_replay() { unsafe { REPLAY = 1; POS = 0; } }
    /// the p-th replayed call repeats the recorded call number `rec`
    pub fn sched(p: usize, rec: usize) { unsafe { SCHED[p / CH][p % CH] = rec; } }
    pub fn recorded() -> usize { unsafe { N } }
    pub fn all_replayed() -> bool { unsafe { POS == N } }
    #[allow(static_mut_refs)]
    pub fn ask(tag: usize, q: u128) -> u128 {
        unsafe {
            if REPLAY == 0 {
                let y: u128 = kani::any();
                assert!(N < MAXC);
                TAG[N / CH][N % CH] = tag; Q[N / CH][N % CH] = q; OUT[N / CH][N % CH] = y; N += 1;
                y
            } else {
                assert!(POS < N);
                let r = SCHED[POS / CH][POS % CH];
                assert!(r < N);
                assert!(TAG[r / CH][r % CH] == tag && Q[r / CH][r % CH] == q); // same question as the recorded call
                POS += 1;
                OUT[r / CH][r % CH]
            }
        }
    }
}
pub unsafe fn trp_transform(block: uint8x16_t, table: &Table) -> uint8x16_t {
    if core::ptr::eq(table, &ENC_TABLE) {
        m128(trp::ask(trp::LS, w128(block)))
    } else {
        assert!(core::ptr::eq(table, &DEC_TABLE));
        m128(trp::ask(trp::LISI, w128(block)))
    }
}
pub unsafe fn trp_sub_bytes(block: uint8x16_t, sbox: &[u8; 256]) -> uint8x16_t {
    if core::ptr::eq(sbox, &P) {
        m128(trp::ask(trp::S, w128(block)))
    } else {
        assert!(core::ptr::eq(sbox, &P_INV));
        m128(trp::ask(trp::SI, w128(block)))
    }
}

pub type Par = ParBlocks<EncBackend<'static>>;
pub fn par8(b: &[[u8; 16]; 8]) -> Par {
    cipher::Array([cipher::Array(b[0]), cipher::Array(b[1]), cipher::Array(b[2]), cipher::Array(b[3]),
                   cipher::Array(b[4]), cipher::Array(b[5]), cipher::Array(b[6]), cipher::Array(b[7])])
}
macro_rules! par_blocks { ($name:ident, $single:ident, $backend:ident, $tr:ident, $par:ident, $calls:expr, $sched:expr) => {
    #[kani::proof]
    #[kani::stub(backends::transform, trp_transform)]
    #[kani::stub(backends::sub_bytes, trp_sub_bytes)]
    #[kani::unwind(129)]
    fn $name() {
        use cipher::typenum::Unsigned;
        assert!(<<$backend<'static> as cipher::ParBlocksSizeUser>::ParBlocksSize as Unsigned>::USIZE == 8);
        let rk = any_round_keys();
        let rk0 = raw_keys(&rk);
        let (b0, b1, b2, b3): ([u8; 16], [u8; 16], [u8; 16], [u8; 16]) = (kani::any(), kani::any(), kani::any(), kani::any());
        let (b4, b5, b6, b7): ([u8; 16], [u8; 16], [u8; 16], [u8; 16]) = (kani::any(), kani::any(), kani::any(), kani::any());
        let inp = [b0, b1, b2, b3, b4, b5, b6, b7];
        // recorded: lane j alone, calls $calls * j .. $calls * (j + 1)
        let mut single = [[0u8; 16]; 8];
        let mut j = 0;
        while j < 8 {
            single[j] = $single(&rk, inp[j]);
            j += 1;
        }
        assert!(trp::recorded() == 8 * $calls);
        let mut p = 0;
        while p < 8 * $calls {
            let (lane, step): (usize, usize) = $sched(p);
            trp::sched(p, $calls * lane + step);
            p += 1;
        }
        // buffer to buffer
        trp::start_replay();
        let src = par8(&inp);
        let g: [u8; 16] = kani::any();
        let mut dst = [cipher::Array(g); 10];
        {
            let out: &mut Par = (&mut dst[1..9]).try_into().unwrap();
            cipher::$tr::$par(&$backend(&rk), InOut::from((&src, out)));
        }
        assert!(trp::all_replayed());
        assert!(kz::eq(&dst[0].0, &g) && kz::eq(&dst[9].0, &g));
        let mut j = 0;
        while j < 8 {
            assert!(kz::eq(&dst[1 + j].0, &single[j]));
            assert!(kz::eq(&src.0[j].0, &inp[j]));
            j += 1;
        }
        // in place
        trp::start_replay();
        let mut buf = [cipher::Array(g), cipher::Array(b0), cipher::Array(b1), cipher::Array(b2), cipher::Array(b3),
                       cipher::Array(b4), cipher::Array(b5), cipher::Array(b6), cipher::Array(b7), cipher::Array(g)];
        {
            let io: &mut Par = (&mut buf[1..9]).try_into().unwrap();
            cipher::$tr::$par(&$backend(&rk), InOut::from(io));
        }
        assert!(trp::all_replayed());
        assert!(kz::eq(&buf[0].0, &g) && kz::eq(&buf[9].0, &g));
        let mut j = 0;
        while j < 8 {
            assert!(kz::eq(&buf[1 + j].0, &single[j]));
            j += 1;
        }
        // keys not written
        let rk1 = raw_keys(&rk);
        let mut i = 0;
        while i < 10 {
            assert!(kz::eq(&rk0[i], &rk1[i]));
            i += 1;
        }
    }
}; }
// encryption: single = 9 x LS; parallel call p = 8 * round + lane
fn sched_enc(p: usize) -> (usize, usize) { (p % 8, p / 8) }
// decryption: single = S, LISI, 8 x LISI, SI (11 calls); parallel: (S, LISI) per lane, then 8 rounds x 8 lanes, then SI per lane
fn sched_dec(p: usize) -> (usize, usize) {
    if p < 16 { (p / 2, p % 2) } else if p < 80 { ((p - 16) % 8, 2 + (p - 16) / 8) } else { (p - 80, 10) }
}
// @ob name=n64_parenc props=C04,C07,C03,C20 fn=kuznyechik::neon::backends::EncBackend::encrypt_par_blocks,kuznyechik::neon::backends::EncBackend::encrypt_block uses=n64_transform timeout=900
par_blocks!(n64_parenc, enc_block, EncBackend, BlockCipherEncBackend, encrypt_par_blocks, 9, sched_enc);
// @ob name=n64_pardec props=C04,C07,C03,C20 fn=kuznyechik::neon::backends::DecBackend::decrypt_par_blocks,kuznyechik::neon::backends::DecBackend::decrypt_block uses=n64_transform,n64_subbytes timeout=900
par_blocks!(n64_pardec, dec_block, DecBackend, BlockCipherDecBackend, decrypt_par_blocks, 11, sched_dec);

// ---------------------------------------------------------------------------------------------------------------
// GOST R 34.12-2015 A.1.5 example, first round, through the real `sub_bytes` / `transform` + the intrinsic models, concrete
// execution (the real S-box and the real fused table are read): X[K_1](a) = 99bb99ff99bb99ffffffffffffffffff,
// S X[K_1](a) = e87de8b6e87de8b6b6b6b6b6b6b6b6b6, L S X[K_1](a) = e297b686e355b0a1cf4a2f9249140830.  Anchors code + models
// against the standard's published values independently of bcref and of the decomposition above; see also n64_katenc,
// n64_katdec.
// @ob name=n64_kat props=C07,C20 kind=exhaustive bound="GOST R 34.12-2015 A.1.5, first round (concrete)" fn=kuznyechik::neon::backends::transform,kuznyechik::neon::backends::sub_bytes timeout=900
#[kani::proof]
#[kani::unwind(34)]
fn n64_kat() {
    const X: [u8; 16] = [0x99, 0xbb, 0x99, 0xff, 0x99, 0xbb, 0x99, 0xff, 0xff, 0xff, 0xff, 0xff, 0xff, 0xff, 0xff, 0xff];
    const SX: [u8; 16] = [0xe8, 0x7d, 0xe8, 0xb6, 0xe8, 0x7d, 0xe8, 0xb6, 0xb6, 0xb6, 0xb6, 0xb6, 0xb6, 0xb6, 0xb6, 0xb6];
    const LSX: [u8; 16] = [0xe2, 0x97, 0xb6, 0x86, 0xe3, 0x55, 0xb0, 0xa1, 0xcf, 0x4a, 0x2f, 0x92, 0x49, 0x14, 0x08, 0x30];
    assert!(kz::eq(&bytes(unsafe { sub_bytes(word(&X), &P) }), &SX));
    assert!(kz::eq(&bytes(unsafe { sub_bytes(word(&SX), &P_INV) }), &X));
    assert!(kz::eq(&bytes(unsafe { transform(word(&X), &ENC_TABLE) }), &LSX));
}

// GOST R 34.12-2015 A.1.4 (K_1 .. K_10), A.1.5 / A.1.6 (plaintext a, ciphertext b)
const KAT_RK: [[u8; 16]; 10] = [
    [0x88, 0x99, 0xaa, 0xbb, 0xcc, 0xdd, 0xee, 0xff, 0x00, 0x11, 0x22, 0x33, 0x44, 0x55, 0x66, 0x77],
    [0xfe, 0xdc, 0xba, 0x98, 0x76, 0x54, 0x32, 0x10, 0x01, 0x23, 0x45, 0x67, 0x89, 0xab, 0xcd, 0xef],
    [0xdb, 0x31, 0x48, 0x53, 0x15, 0x69, 0x43, 0x43, 0x22, 0x8d, 0x6a, 0xef, 0x8c, 0xc7, 0x8c, 0x44],
    [0x3d, 0x45, 0x53, 0xd8, 0xe9, 0xcf, 0xec, 0x68, 0x15, 0xeb, 0xad, 0xc4, 0x0a, 0x9f, 0xfd, 0x04],
    [0x57, 0x64, 0x64, 0x68, 0xc4, 0x4a, 0x5e, 0x28, 0xd3, 0xe5, 0x92, 0x46, 0xf4, 0x29, 0xf1, 0xac],
    [0xbd, 0x07, 0x94, 0x35, 0x16, 0x5c, 0x64, 0x32, 0xb5, 0x32, 0xe8, 0x28, 0x34, 0xda, 0x58, 0x1b],
    [0x51, 0xe6, 0x40, 0x75, 0x7e, 0x87, 0x45, 0xde, 0x70, 0x57, 0x27, 0x26, 0x5a, 0x00, 0x98, 0xb1],
    [0x5a, 0x79, 0x25, 0x01, 0x7b, 0x9f, 0xdd, 0x3e, 0xd7, 0x2a, 0x91, 0xa2, 0x22, 0x86, 0xf9, 0x84],
    [0xbb, 0x44, 0xe2, 0x53, 0x78, 0xc7, 0x31, 0x23, 0xa5, 0xf3, 0x2f, 0x73, 0xcd, 0xb6, 0xe5, 0x17],
    [0x72, 0xe9, 0xdd, 0x74, 0x16, 0xbc, 0xf4, 0x5b, 0x75, 0x5d, 0xba, 0xa8, 0x8e, 0x4a, 0x40, 0x43],
];
const KAT_PT: [u8; 16] = [0x11, 0x22, 0x33, 0x44, 0x55, 0x66, 0x77, 0x00, 0xff, 0xee, 0xdd, 0xcc, 0xbb, 0xaa, 0x99, 0x88];
const KAT_CT: [u8; 16] = [0x7f, 0x67, 0x9d, 0x90, 0xbe, 0xbc, 0x24, 0x30, 0x5a, 0x46, 0x8d, 0x42, 0xb9, 0xd4, 0xed, 0xcd];
// The whole A.1.5 encryption with the ten published round keys of A.1.4 through the real `encrypt_block` (nine table-driven
// transforms, concrete).
// @ob name=n64_katenc props=C07,C20 kind=exhaustive bound="GOST R 34.12-2015 A.1.5 with the round keys of A.1.4 (concrete)" fn=kuznyechik::neon::backends::EncBackend::encrypt_block,kuznyechik::neon::backends::transform timeout=900
#[kani::proof]
#[kani::unwind(34)]
fn n64_katenc() {
    let rk: RoundKeys = unsafe { core::mem::transmute(KAT_RK) };
    assert!(kz::eq(&enc_block(&rk, KAT_PT), &KAT_CT));
}

// A.1.6 decryption: the decryption keys derived by the real `inv_enc_keys` from the ten published round keys (8 transforms),
// then the real `decrypt_block` (10 transforms) on the published ciphertext, concrete.  (The whole example through `new`,
// i.e. with the 32 transforms of the key schedule on top, exhausted 32 GB and is not registered.)
// @ob name=n64_katdec tier=thorough props=C07,C20 kind=exhaustive bound="GOST R 34.12-2015 A.1.6 with the round keys of A.1.4 (concrete)" fn=kuznyechik::neon::backends::inv_enc_keys,kuznyechik::neon::backends::DecBackend::decrypt_block,kuznyechik::neon::backends::transform,kuznyechik::neon::backends::sub_bytes timeout=3600
#[kani::proof]
#[kani::unwind(34)]
fn n64_katdec() {
    let rk: RoundKeys = unsafe { core::mem::transmute(KAT_RK) };
    let dk = inv_enc_keys(&rk);
    assert!(kz::eq(&dec_block(&dk, KAT_CT), &KAT_PT));
}

// ---------------------------------------------------------------------------------------------------------------
// The public types of an aarch64 + neon build (shadowed lib.rs over the shadowed neon/mod.rs): same obligations as
// api_sse2.rs / api_common.inc / api_tables.inc state for the x86 build, see there for the method of each.
pub mod ty {
    use super::a64lib::{Kuznyechik, KuznyechikDec, KuznyechikEnc};
    use super::{a64_neon::uint8x16_t, backends, kz};
    use crate::__vp_lemmas::{ipuf, kuf};
    use cipher::{Array, KeyInit};
    include!("@VERIF@/contracts/_common/common.rs");
    include!("@VERIF@/contracts/kuznyechik/uf_common.inc");

    const SZ: usize = core::mem::size_of::<Kuznyechik>();
    const SZE: usize = core::mem::size_of::<KuznyechikEnc>();
    const SZD: usize = core::mem::size_of::<KuznyechikDec>();
    const _: () = assert!(SZ == 320 && SZE == 160 && SZD == 160);
    /// every value of the instance's storage (stronger than every key)
    fn any_k() -> Kuznyechik { unsafe { core::mem::transmute::<[u8; SZ], Kuznyechik>(kani::any()) } }
    fn any_e() -> KuznyechikEnc { unsafe { core::mem::transmute::<[u8; SZE], KuznyechikEnc>(kani::any()) } }
    fn any_d() -> KuznyechikDec { unsafe { core::mem::transmute::<[u8; SZD], KuznyechikDec>(kani::any()) } }
    /// byte-wise equality of the storage of two instances (no padding: arrays of 16-byte words)
    fn state_eq<T>(a: &T, b: &T) -> bool {
        let n = core::mem::size_of::<T>();
        let (p, q) = (a as *const T as *const u8, b as *const T as *const u8);
        let mut ok = true;
        let mut i = 0;
        while i < n {
            ok &= unsafe { *p.add(i) == *q.add(i) };
            i += 1;
        }
        ok
    }
    type KBlock = Array<u8, cipher::consts::U16>;
    fn keys_of<T>(k: &T) -> [u128; 10] {
        assert!(core::mem::size_of::<T>() == 160);
        unsafe { core::mem::transmute_copy::<T, [u128; 10]>(k) }
    }

    // ---- uninterpreted key expansion / inversion for the plumbing obligations (licensed by n64_expand, n64_invkeys:
    // the real ones are pure functions of their argument)
    pub fn uf_expand_enc_keys(key: &crate::Key) -> backends::RoundKeys { unsafe { core::mem::transmute(ufs::k2rk(&key.0)) } }
    pub fn uf_inv_enc_keys(enc: &backends::RoundKeys) -> backends::RoundKeys {
        unsafe { core::mem::transmute(ufs::rk2rk(&core::mem::transmute::<backends::RoundKeys, [u8; 160]>(*enc))) }
    }
    macro_rules! with_key_stubs { ($i:item) => {
        #[kani::stub(backends::expand_enc_keys, uf_expand_enc_keys)]
        #[kani::stub(backends::inv_enc_keys, uf_inv_enc_keys)]
        $i
    }; }

    // ---------------------------------------------------------------- C11 key length
    macro_rules! keylen { ($name:ident, $ty:ident) => {
        with_key_stubs! {
            #[kani::proof]
            #[kani::unwind(330)]
            fn $name() {
                let buf: [u8; 301] = kani::any();
                let n: usize = kani::any();
                kani::assume(n <= 300);
                kani::cover!(n == 32);
                kani::cover!(n == 300);
                let r = $ty::new_from_slice(&buf[..n]);
                assert!(r.is_ok() == (n == 32));
                core::mem::forget(r);
            }
        }
    }; }
    // @ob name=n64_keylenboth props=C11 kind=bounded bound="slice length <= 300" fn=kuznyechik::Kuznyechik::new_from_slice uses=n64_expand,n64_invkeys timeout=300
    keylen!(n64_keylenboth, Kuznyechik);
    // @ob name=n64_keylenenc props=C11 kind=bounded bound="slice length <= 300" fn=kuznyechik::KuznyechikEnc::new_from_slice uses=n64_expand timeout=300
    keylen!(n64_keylenenc, KuznyechikEnc);
    // @ob name=n64_keylendec props=C11 kind=bounded bound="slice length <= 300" fn=kuznyechik::KuznyechikDec::new_from_slice uses=n64_expand,n64_invkeys timeout=300
    keylen!(n64_keylendec, KuznyechikDec);

    // ---------------------------------------------------------------- C11 slice vs fixed key, C12 conversions, C13
    // @ob name=n64_samestate tier=thorough props=C11,C12,C13 fn=kuznyechik::Kuznyechik::new,kuznyechik::KuznyechikEnc::new,kuznyechik::KuznyechikDec::new,kuznyechik::Kuznyechik::from,kuznyechik::KuznyechikDec::from,kuznyechik::neon::EncKeys::new,kuznyechik::neon::EncDecKeys::from,kuznyechik::neon::DecKeys::from uses=n64_expand,n64_invkeys timeout=1800
    with_key_stubs! {
        #[kani::proof]
        #[kani::unwind(330)]
        fn n64_samestate() {
            let k: [u8; 32] = kani::any();
            let key = Array(k);
            let fresh = Kuznyechik::new(&key);
            let fresh_e = KuznyechikEnc::new(&key);
            let fresh_d = KuznyechikDec::new(&key);
            assert!(state_eq(&fresh, &Kuznyechik::new_from_slice(&k[..]).unwrap()));
            assert!(state_eq(&fresh_e, &KuznyechikEnc::new_from_slice(&k[..]).unwrap()));
            assert!(state_eq(&fresh_d, &KuznyechikDec::new_from_slice(&k[..]).unwrap()));
            assert!(state_eq(&fresh, &Kuznyechik::from(&fresh_e)));
            assert!(state_eq(&fresh_d, &KuznyechikDec::from(&fresh_e)));
            assert!(state_eq(&fresh, &Kuznyechik::from(KuznyechikEnc::new(&key))));
            assert!(state_eq(&fresh_d, &KuznyechikDec::from(KuznyechikEnc::new(&key))));
            assert!(Kuznyechik::weak_key_test(&key).is_ok() && KuznyechikEnc::weak_key_test(&key).is_ok() && KuznyechikDec::weak_key_test(&key).is_ok());
            match Kuznyechik::new_checked(&key) { Ok(c) => assert!(state_eq(&fresh, &c)), Err(_) => assert!(false) }
            match KuznyechikEnc::new_checked(&key) { Ok(c) => assert!(state_eq(&fresh_e, &c)), Err(_) => assert!(false) }
            match KuznyechikDec::new_checked(&key) { Ok(c) => assert!(state_eq(&fresh_d, &c)), Err(_) => assert!(false) }
        }
    }

    // C12: clone of any instance (every value of the storage) has equal storage; the original is unchanged
    // @ob name=n64_clone props=C12 fn=kuznyechik::Kuznyechik::clone,kuznyechik::KuznyechikEnc::clone,kuznyechik::KuznyechikDec::clone,kuznyechik::neon::EncDecKeys::clone,kuznyechik::neon::EncKeys::clone,kuznyechik::neon::DecKeys::clone timeout=600
    #[kani::proof]
    #[kani::unwind(330)]
    fn n64_clone() {
        let raw: [u8; SZ] = kani::any();
        let a = unsafe { core::mem::transmute::<[u8; SZ], Kuznyechik>(raw) };
        let b = a.clone();
        assert!(state_eq(&a, &b));
        assert!(state_eq(&a, &unsafe { core::mem::transmute::<[u8; SZ], Kuznyechik>(raw) }));
        let e = any_e();
        assert!(state_eq(&e, &e.clone()));
        let d = any_d();
        assert!(state_eq(&d, &d.clone()));
    }

    // C12: the state produced by a conversion depends on the encrypt-only state alone (any storage value); by reference,
    // by value and from a clone give the same storage; the source is untouched
    // @ob name=n64_convany props=C12 fn=kuznyechik::Kuznyechik::from,kuznyechik::KuznyechikDec::from,kuznyechik::neon::EncDecKeys::from,kuznyechik::neon::DecKeys::from uses=n64_invkeys timeout=600
    with_key_stubs! {
        #[kani::proof]
        #[kani::unwind(330)]
        fn n64_convany() {
            let raw: [u8; SZE] = kani::any();
            let mk = || unsafe { core::mem::transmute::<[u8; SZE], KuznyechikEnc>(raw) };
            let e = mk();
            let by_ref = Kuznyechik::from(&e);
            assert!(state_eq(&e, &mk()));
            assert!(state_eq(&by_ref, &Kuznyechik::from(mk())));
            assert!(state_eq(&by_ref, &Kuznyechik::from(e.clone())));
            let d_ref = KuznyechikDec::from(&e);
            assert!(state_eq(&d_ref, &KuznyechikDec::from(mk())));
        }
    }

    // ---------------------------------------------------------------- C19
    macro_rules! names { ($name:ident, $ty:ident, $mk:expr, $text:expr) => {
        #[kani::proof]
        #[kani::unwind(100)]
        fn $name() {
            let a = $mk;
            let b = $mk;
            let (ta, tb) = (debug_text(&a), debug_text(&b));
            assert!(ta.same(&tb)); // identical for all keys
            assert!(ta.names($text)); // names the instance's own type
            assert!(alg_name_text::<$ty>().is("Kuznyechik")); // the algorithm (it has no parameters)
        }
    }; }
    // @ob name=n64_nameboth props=C19 fn=kuznyechik::Kuznyechik::fmt,kuznyechik::Kuznyechik::write_alg_name timeout=300
    names!(n64_nameboth, Kuznyechik, any_k(), "Kuznyechik");
    // @ob name=n64_nameenc props=C19 fn=kuznyechik::KuznyechikEnc::fmt,kuznyechik::KuznyechikEnc::write_alg_name timeout=300
    names!(n64_nameenc, KuznyechikEnc, any_e(), "KuznyechikEnc");
    // @ob name=n64_namedec props=C19 fn=kuznyechik::KuznyechikDec::fmt,kuznyechik::KuznyechikDec::write_alg_name timeout=300
    names!(n64_namedec, KuznyechikDec, any_d(), "KuznyechikDec");

    // ---------------------------------------------------------------- C16 (feature zeroize)
    macro_rules! zero_on_drop { ($name:ident, $ty:ident, $mk:expr) => {
        with_key_stubs! {
            #[cfg(feature = "zeroize")]
            #[kani::proof]
            #[kani::unwind(330)]
            fn $name() {
                let mut m = core::mem::ManuallyDrop::new($mk);
                let p: *const $ty = &*m;
                unsafe { core::mem::ManuallyDrop::drop(&mut m); }
                assert!(unsafe { all_bytes_zero(p) });
            }
        }
    }; }
    // @ob name=n64_zeroboth cfg=zeroize props=C16 fn=kuznyechik::Kuznyechik::drop timeout=300
    zero_on_drop!(n64_zeroboth, Kuznyechik, any_k());
    // @ob name=n64_zeroenc cfg=zeroize props=C16 fn=kuznyechik::KuznyechikEnc::drop timeout=300
    zero_on_drop!(n64_zeroenc, KuznyechikEnc, any_e());
    // @ob name=n64_zerodec cfg=zeroize props=C16 fn=kuznyechik::KuznyechikDec::drop timeout=300
    zero_on_drop!(n64_zerodec, KuznyechikDec, any_d());
    // @ob name=n64_zeroclone cfg=zeroize props=C16 fn=kuznyechik::Kuznyechik::drop,kuznyechik::Kuznyechik::clone timeout=600
    zero_on_drop!(n64_zeroclone, Kuznyechik, any_k().clone());
    // @ob name=n64_zerofromref cfg=zeroize props=C16 fn=kuznyechik::Kuznyechik::drop,kuznyechik::Kuznyechik::from uses=n64_invkeys timeout=600
    zero_on_drop!(n64_zerofromref, Kuznyechik, Kuznyechik::from(&any_e()));
    // @ob name=n64_zerofromval cfg=zeroize props=C16 fn=kuznyechik::Kuznyechik::drop,kuznyechik::Kuznyechik::from uses=n64_invkeys timeout=600
    zero_on_drop!(n64_zerofromval, Kuznyechik, Kuznyechik::from(any_e()));
    // @ob name=n64_zerodfromref cfg=zeroize props=C16 fn=kuznyechik::KuznyechikDec::drop,kuznyechik::KuznyechikDec::from uses=n64_invkeys timeout=300
    zero_on_drop!(n64_zerodfromref, KuznyechikDec, KuznyechikDec::from(&any_e()));
    // @ob name=n64_zerodfromval cfg=zeroize props=C16 fn=kuznyechik::KuznyechikDec::drop,kuznyechik::KuznyechikDec::from uses=n64_invkeys timeout=300
    zero_on_drop!(n64_zerodfromval, KuznyechikDec, KuznyechikDec::from(any_e().clone()));

    // ---------------------------------------------------------------- C04 / C15 multi-block and buffer-to-buffer calls
    // Two levels, as in api_common.inc.  (1) n64_parenc / n64_pardec: the backend's 8-block function returns in lane j
    // what its single-block function returns on input lane j.  (2) here: the dispatch of `encrypt_blocks` /
    // `encrypt_blocks_b2b` (cipher crate: chunks of 8 blocks to the parallel function, the tail block by block) with the
    // single-block function replaced by `bfn::call`, an uninterpreted function of (direction, round keys, input block)
    // (licensed by n64_encblk / n64_decblk), and the parallel function by the same function applied lane by lane
    // (licensed by (1)).
    pub mod bfn {
        pub const MAXC: usize = 64;
        pub static mut KEYS: [[u128; 10]; 2] = [[0; 10]; 2];
        pub static mut HAVE: [bool; 2] = [false; 2];
        pub static mut X: [[u128; MAXC]; 2] = [[0; MAXC]; 2];
        pub static mut Y: [[u128; MAXC]; 2] = [[0; MAXC]; 2];
        pub static mut N: [usize; 2] = [0; 2];
        /// dir 0 = encrypt, 1 = decrypt.  The first call in a direction fixes the round keys; every later call in that
        /// direction must present the same round keys (ASSERTED), so the answer depends on the block only.
        #[allow(static_mut_refs)]
        pub fn call(dir: usize, keys: &[u128; 10], x: u128) -> u128 {
            unsafe {
                if HAVE[dir] {
                    let mut i = 0;
                    while i < 10 { assert!(KEYS[dir][i] == keys[i]); i += 1; }
                } else {
                    KEYS[dir] = *keys;
                    HAVE[dir] = true;
                }
                let mut y: u128 = kani::any();
                let mut found = false;
                let n = N[dir];
                let mut i = 0;
                while i < n {
                    if !found && X[dir][i] == x { y = Y[dir][i]; found = true; }
                    i += 1;
                }
                assert!(n < MAXC);
                X[dir][n] = x; Y[dir][n] = y; N[dir] = n + 1;
                y
            }
        }
    }
    pub fn uf_enc_block<'a>(this: &backends::EncBackend<'a>, mut block: cipher::inout::InOut<'_, '_, KBlock>) where 'a: 'a {
        let x = u128::from_le_bytes(block.get_in().0);
        *block.get_out() = Array(bfn::call(0, &keys_of(this.0), x).to_le_bytes());
    }
    pub fn uf_dec_block<'a>(this: &backends::DecBackend<'a>, mut block: cipher::inout::InOut<'_, '_, KBlock>) where 'a: 'a {
        let x = u128::from_le_bytes(block.get_in().0);
        *block.get_out() = Array(bfn::call(1, &keys_of(this.0), x).to_le_bytes());
    }
    pub fn lane_enc_par<'a>(this: &backends::EncBackend<'a>, mut blocks: cipher::inout::InOut<'_, '_, cipher::ParBlocks<backends::EncBackend<'a>>>) where 'a: 'a {
        let mut i = 0;
        while i < 8 {
            uf_enc_block(this, blocks.get(i));
            i += 1;
        }
    }
    pub fn lane_dec_par<'a>(this: &backends::DecBackend<'a>, mut blocks: cipher::inout::InOut<'_, '_, cipher::ParBlocks<backends::DecBackend<'a>>>) where 'a: 'a {
        let mut i = 0;
        while i < 8 {
            uf_dec_block(this, blocks.get(i));
            i += 1;
        }
    }
    macro_rules! with_block_stubs { ($i:item) => {
        #[kani::stub(<backends::EncBackend<'_> as cipher::BlockCipherEncBackend>::encrypt_block, uf_enc_block)]
        #[kani::stub(<backends::EncBackend<'_> as cipher::BlockCipherEncBackend>::encrypt_par_blocks, lane_enc_par)]
        #[kani::stub(<backends::DecBackend<'_> as cipher::BlockCipherDecBackend>::decrypt_block, uf_dec_block)]
        #[kani::stub(<backends::DecBackend<'_> as cipher::BlockCipherDecBackend>::decrypt_par_blocks, lane_dec_par)]
        $i
    }; }
    /// n blocks at an address that is 1 mod 16 ("any buffer alignment": blocks are byte arrays)
    #[repr(C, align(16))]
    struct Odd<const N: usize> { pad: u8, b: [KBlock; N] }
    macro_rules! multi_block { ($name:ident, $ty:ident, $sz:ident, $tr:ident, $one:ident, $many:ident, $b2b:ident, $n:expr) => {
        with_block_stubs! {
            #[kani::proof]
            #[kani::unwind(330)]
            fn $name() {
                let raw: [u8; $sz] = kani::any();
                let c = unsafe { core::mem::transmute::<[u8; $sz], $ty>(raw) };
                let inp: [[u8; 16]; $n] = kani::any();
                // per-block results
                let mut single = [[0u8; 16]; $n];
                let mut i = 0;
                while i < $n {
                    let mut b = Array(inp[i]);
                    cipher::$tr::$one(&c, &mut b);
                    single[i] = b.0;
                    i += 1;
                }
                // in place, n blocks
                let mut blocks = Odd::<{ $n + 2 }> { pad: 0, b: [Array([0u8; 16]); $n + 2] };
                let g: [u8; 16] = kani::any();
                blocks.b[0] = Array(g);
                blocks.b[$n + 1] = Array(g);
                let mut i = 0;
                while i < $n { blocks.b[i + 1] = Array(inp[i]); i += 1; }
                cipher::$tr::$many(&c, &mut blocks.b[1..$n + 1]);
                assert!(blocks.b[0].0 == g && blocks.b[$n + 1].0 == g);
                let mut i = 0;
                while i < $n { assert!(blocks.b[i + 1].0 == single[i]); i += 1; }
                // buffer to buffer, guard blocks around the output, input and output at odd addresses
                let mut srcbuf = Odd::<{ $n }> { pad: 0, b: [Array([0u8; 16]); $n] };
                let mut i = 0;
                while i < $n { srcbuf.b[i] = Array(inp[i]); i += 1; }
                let mut dst = Odd::<{ $n + 2 }> { pad: 0, b: [Array(g); $n + 2] };
                cipher::$tr::$b2b(&c, &srcbuf.b, &mut dst.b[1..$n + 1]).unwrap();
                assert!(dst.b[0].0 == g && dst.b[$n + 1].0 == g);
                let mut i = 0;
                while i < $n { assert!(dst.b[i + 1].0 == single[i] && srcbuf.b[i].0 == inp[i]); i += 1; }
                // the instance is unchanged
                assert!(state_eq(&c, &unsafe { core::mem::transmute::<[u8; $sz], $ty>(raw) }));
            }
        }
    }; }
    macro_rules! multi_enc { ($name:ident, $ty:ident, $sz:ident, $n:expr) => { multi_block!($name, $ty, $sz, BlockCipherEncrypt, encrypt_block, encrypt_blocks, encrypt_blocks_b2b, $n); }; }
    macro_rules! multi_dec { ($name:ident, $ty:ident, $sz:ident, $n:expr) => { multi_block!($name, $ty, $sz, BlockCipherDecrypt, decrypt_block, decrypt_blocks, decrypt_blocks_b2b, $n); }; }
    // parallel width 8 for both directions: n = 0, 1, 7 (fewer: tail only), 8 (equal), 9 (one chunk + tail), 17 (two chunks + tail)
    // @ob name=n64_multienc_00 props=C04,C15 kind=bounded bound="n = 0 blocks" fn=kuznyechik::Kuznyechik::encrypt_with_backend,kuznyechik::neon::backends::EncBackend::encrypt_par_blocks uses=n64_encblk,n64_parenc timeout=600
    multi_enc!(n64_multienc_00, Kuznyechik, SZ, 0);
    // @ob name=n64_multienc_01 props=C04,C15 kind=bounded bound="n = 1 blocks" fn=kuznyechik::Kuznyechik::encrypt_with_backend,kuznyechik::neon::backends::EncBackend::encrypt_par_blocks uses=n64_encblk,n64_parenc timeout=600
    multi_enc!(n64_multienc_01, Kuznyechik, SZ, 1);
    // @ob name=n64_multienc_07 props=C04,C15 kind=bounded bound="n = 7 blocks" fn=kuznyechik::Kuznyechik::encrypt_with_backend,kuznyechik::neon::backends::EncBackend::encrypt_par_blocks uses=n64_encblk,n64_parenc timeout=600
    multi_enc!(n64_multienc_07, Kuznyechik, SZ, 7);
    // @ob name=n64_multienc_08 props=C04,C15 kind=bounded bound="n = 8 blocks" fn=kuznyechik::Kuznyechik::encrypt_with_backend,kuznyechik::neon::backends::EncBackend::encrypt_par_blocks uses=n64_encblk,n64_parenc timeout=600
    multi_enc!(n64_multienc_08, Kuznyechik, SZ, 8);
    // @ob name=n64_multienc_09 props=C04,C15 kind=bounded bound="n = 9 blocks" fn=kuznyechik::Kuznyechik::encrypt_with_backend,kuznyechik::neon::backends::EncBackend::encrypt_par_blocks uses=n64_encblk,n64_parenc timeout=600
    multi_enc!(n64_multienc_09, Kuznyechik, SZ, 9);
    // @ob name=n64_multienc_17 tier=thorough props=C04,C15 kind=bounded bound="n = 17 blocks" fn=kuznyechik::Kuznyechik::encrypt_with_backend,kuznyechik::neon::backends::EncBackend::encrypt_par_blocks uses=n64_encblk,n64_parenc timeout=900
    multi_enc!(n64_multienc_17, Kuznyechik, SZ, 17);
    // @ob name=n64_multienconly_09 props=C04,C15 kind=bounded bound="n = 9 blocks" fn=kuznyechik::KuznyechikEnc::encrypt_with_backend,kuznyechik::neon::backends::EncBackend::encrypt_par_blocks uses=n64_encblk,n64_parenc timeout=600
    multi_enc!(n64_multienconly_09, KuznyechikEnc, SZE, 9);
    // @ob name=n64_multidec_00 props=C04,C15 kind=bounded bound="n = 0 blocks" fn=kuznyechik::Kuznyechik::decrypt_with_backend,kuznyechik::neon::backends::DecBackend::decrypt_par_blocks uses=n64_decblk,n64_pardec timeout=600
    multi_dec!(n64_multidec_00, Kuznyechik, SZ, 0);
    // @ob name=n64_multidec_01 props=C04,C15 kind=bounded bound="n = 1 blocks" fn=kuznyechik::Kuznyechik::decrypt_with_backend,kuznyechik::neon::backends::DecBackend::decrypt_par_blocks uses=n64_decblk,n64_pardec timeout=600
    multi_dec!(n64_multidec_01, Kuznyechik, SZ, 1);
    // @ob name=n64_multidec_07 props=C04,C15 kind=bounded bound="n = 7 blocks" fn=kuznyechik::Kuznyechik::decrypt_with_backend,kuznyechik::neon::backends::DecBackend::decrypt_par_blocks uses=n64_decblk,n64_pardec timeout=600
    multi_dec!(n64_multidec_07, Kuznyechik, SZ, 7);
    // @ob name=n64_multidec_08 props=C04,C15 kind=bounded bound="n = 8 blocks" fn=kuznyechik::Kuznyechik::decrypt_with_backend,kuznyechik::neon::backends::DecBackend::decrypt_par_blocks uses=n64_decblk,n64_pardec timeout=600
    multi_dec!(n64_multidec_08, Kuznyechik, SZ, 8);
    // @ob name=n64_multidec_09 props=C04,C15 kind=bounded bound="n = 9 blocks" fn=kuznyechik::Kuznyechik::decrypt_with_backend,kuznyechik::neon::backends::DecBackend::decrypt_par_blocks uses=n64_decblk,n64_pardec timeout=600
    multi_dec!(n64_multidec_09, Kuznyechik, SZ, 9);
    // @ob name=n64_multidec_17 tier=thorough props=C04,C15 kind=bounded bound="n = 17 blocks" fn=kuznyechik::Kuznyechik::decrypt_with_backend,kuznyechik::neon::backends::DecBackend::decrypt_par_blocks uses=n64_decblk,n64_pardec timeout=900
    multi_dec!(n64_multidec_17, Kuznyechik, SZ, 17);
    // @ob name=n64_multideconly_09 props=C04,C15 kind=bounded bound="n = 9 blocks" fn=kuznyechik::KuznyechikDec::decrypt_with_backend,kuznyechik::neon::backends::DecBackend::decrypt_par_blocks uses=n64_decblk,n64_pardec timeout=600
    multi_dec!(n64_multideconly_09, KuznyechikDec, SZD, 9);

    // ---------------------------------------------------------------- C07 public API, C12 converted instances, C01 round trip
    // Modular composition exactly as api_tables.inc: every backend function reached from the public entry points is replaced
    // by its CONTRACT (n64_expand, n64_invkeys, n64_encblk, n64_decblk, lemmas.l_dec_dk_is_standard), inv_enc_keys as an
    // uninterpreted function that logs the pairs (K, dk) it produced, decrypt_block under a logged dk = D under its K;
    // the reference's key schedule and (E_K, D_K) are uninterpreted (inverse pair: lemmas.l_ref_roundtrip, _rev).
    pub mod ipair {
        pub const MAXP: usize = 6;
        pub static mut K: [[u128; 10]; MAXP] = [[0; 10]; MAXP];
        pub static mut DK: [[u128; 10]; MAXP] = [[0; 10]; MAXP];
        pub static mut N: usize = 0;
        fn same(a: &[u128; 10], b: &[u128; 10]) -> bool {
            let mut ok = true;
            let mut i = 0;
            while i < 10 { ok &= a[i] == b[i]; i += 1; }
            ok
        }
        #[allow(static_mut_refs)]
        pub fn inv(k: &[u128; 10]) -> [u128; 10] {
            unsafe {
                let mut dk: [u128; 10] = kani::any();
                let mut found = false;
                let mut i = 0;
                while i < N {
                    if !found && same(&K[i], k) { dk = DK[i]; found = true; }
                    i += 1;
                }
                assert!(N < MAXP);
                K[N] = *k; DK[N] = dk; N += 1;
                dk
            }
        }
        #[allow(static_mut_refs)]
        pub fn key_for(dk: &[u128; 10]) -> [u128; 10] {
            unsafe {
                let mut k = [0u128; 10];
                let mut found = false;
                let mut i = 0;
                while i < N {
                    if !found && same(&DK[i], dk) { k = K[i]; found = true; }
                    i += 1;
                }
                assert!(found); // decryption keys not produced by inv_enc_keys: outside the contract used here
                k
            }
        }
    }
    fn blocks_of(k: &[u128; 10]) -> [[u8; 16]; 10] {
        let mut out = [[0u8; 16]; 10];
        let mut i = 0;
        while i < 10 { out[i] = k[i].to_le_bytes(); i += 1; }
        out
    }
    pub fn spec_expand_enc_keys(key: &crate::Key) -> backends::RoundKeys { unsafe { core::mem::transmute(kz::key_schedule(&key.0)) } }
    pub fn pair_inv_enc_keys(enc: &backends::RoundKeys) -> backends::RoundKeys {
        unsafe { core::mem::transmute::<[u128; 10], backends::RoundKeys>(ipair::inv(&keys_of(enc))) }
    }
    pub fn spec_enc_block<'a>(this: &backends::EncBackend<'a>, mut block: cipher::inout::InOut<'_, '_, KBlock>) where 'a: 'a {
        let y = kz::encrypt_with(&blocks_of(&keys_of(this.0)), &block.get_in().0);
        *block.get_out() = Array(y);
    }
    pub fn spec_dec_block<'a>(this: &backends::DecBackend<'a>, mut block: cipher::inout::InOut<'_, '_, KBlock>) where 'a: 'a {
        let k = ipair::key_for(&keys_of(this.0));
        let y = kz::decrypt_with(&blocks_of(&k), &block.get_in().0);
        *block.get_out() = Array(y);
    }
    pub mod edp {
        pub static mut K: [u128; 10] = [0; 10];
        pub static mut HAVE: bool = false;
        #[allow(static_mut_refs)]
        fn one_key(rk: &[[u8; 16]; 10]) {
            unsafe {
                let mut i = 0;
                while i < 10 {
                    let w = u128::from_le_bytes(rk[i]);
                    if HAVE { assert!(K[i] == w); } else { K[i] = w; }
                    i += 1;
                }
                HAVE = true;
            }
        }
        pub fn encrypt_with(rk: &[[u8; 16]; 10], a: &[u8; 16]) -> [u8; 16] { one_key(rk); super::ipuf::fwd(a) }
        pub fn decrypt_with(rk: &[[u8; 16]; 10], a: &[u8; 16]) -> [u8; 16] { one_key(rk); super::ipuf::bwd(a) }
    }
    macro_rules! with_contract_stubs { ($i:item) => {
        #[kani::stub(backends::expand_enc_keys, spec_expand_enc_keys)]
        #[kani::stub(backends::inv_enc_keys, pair_inv_enc_keys)]
        #[kani::stub(<backends::EncBackend<'_> as cipher::BlockCipherEncBackend>::encrypt_block, spec_enc_block)]
        #[kani::stub(<backends::DecBackend<'_> as cipher::BlockCipherDecBackend>::decrypt_block, spec_dec_block)]
        #[kani::stub(bcref::kuznyechik::key_schedule, kuf::key_schedule)]
        #[kani::stub(bcref::kuznyechik::encrypt_with, edp::encrypt_with)]
        #[kani::stub(bcref::kuznyechik::decrypt_with, edp::decrypt_with)]
        #[kani::unwind(41)]
        $i
    }; }
    fn enc1<C: cipher::BlockCipherEncrypt + cipher::BlockSizeUser<BlockSize = cipher::consts::U16>>(c: &C, b: &[u8; 16]) -> [u8; 16] {
        let mut blk = Array(*b);
        cipher::BlockCipherEncrypt::encrypt_block(c, &mut blk);
        blk.0
    }
    fn dec1<C: cipher::BlockCipherDecrypt + cipher::BlockSizeUser<BlockSize = cipher::consts::U16>>(c: &C, b: &[u8; 16]) -> [u8; 16] {
        let mut blk = Array(*b);
        cipher::BlockCipherDecrypt::decrypt_block(c, &mut blk);
        blk.0
    }
    // @ob name=n64_apienc props=C07,C20 fn=kuznyechik::Kuznyechik::new,kuznyechik::Kuznyechik::encrypt_with_backend,kuznyechik::KuznyechikEnc::new,kuznyechik::KuznyechikEnc::encrypt_with_backend,kuznyechik::neon::EncKeys::new uses=n64_expand,n64_encblk,l_ref_roundtrip,l_ref_roundtrip_rev timeout=300
    with_contract_stubs! {
        #[kani::proof]
        fn n64_apienc() {
            let k: [u8; 32] = kani::any();
            let b: [u8; 16] = kani::any();
            let spec = kz::encrypt(&k, &b);
            assert!(kz::eq(&enc1(&Kuznyechik::new(&Array(k)), &b), &spec));
            assert!(kz::eq(&enc1(&KuznyechikEnc::new(&Array(k)), &b), &spec));
        }
    }
    // @ob name=n64_apidec props=C07,C20 fn=kuznyechik::Kuznyechik::new,kuznyechik::Kuznyechik::decrypt_with_backend,kuznyechik::neon::EncDecKeys::from uses=n64_expand,n64_invkeys,n64_decblk,l_dec_dk_is_standard,l_ref_roundtrip,l_ref_roundtrip_rev timeout=300
    with_contract_stubs! {
        #[kani::proof]
        fn n64_apidec() {
            let k: [u8; 32] = kani::any();
            let b: [u8; 16] = kani::any();
            let spec = kz::decrypt(&k, &b);
            assert!(kz::eq(&dec1(&Kuznyechik::new(&Array(k)), &b), &spec));
        }
    }
    // @ob name=n64_apionlydec props=C07,C20 fn=kuznyechik::KuznyechikDec::new,kuznyechik::KuznyechikDec::decrypt_with_backend,kuznyechik::neon::DecKeys::from uses=n64_expand,n64_invkeys,n64_decblk,l_dec_dk_is_standard,l_ref_roundtrip,l_ref_roundtrip_rev timeout=300
    with_contract_stubs! {
        #[kani::proof]
        fn n64_apionlydec() {
            let k: [u8; 32] = kani::any();
            let b: [u8; 16] = kani::any();
            let spec = kz::decrypt(&k, &b);
            assert!(kz::eq(&dec1(&KuznyechikDec::new(&Array(k)), &b), &spec));
        }
    }
    // C12: instances obtained by conversion from an encrypt-only instance (by reference, by value, from a clone) and
    // clones of all three types compute the standard's E and D under the same key
    // @ob name=n64_apiconv props=C12,C07,C20 fn=kuznyechik::Kuznyechik::from,kuznyechik::KuznyechikDec::from,kuznyechik::Kuznyechik::clone,kuznyechik::KuznyechikEnc::clone,kuznyechik::KuznyechikDec::clone,kuznyechik::Kuznyechik::encrypt_with_backend,kuznyechik::Kuznyechik::decrypt_with_backend,kuznyechik::KuznyechikDec::decrypt_with_backend uses=n64_expand,n64_invkeys,n64_decblk,l_dec_dk_is_standard,l_ref_roundtrip,l_ref_roundtrip_rev,n64_encblk timeout=300
    with_contract_stubs! {
        #[kani::proof]
        fn n64_apiconv() {
            let k: [u8; 32] = kani::any();
            let b: [u8; 16] = kani::any();
            let (se, sd) = (kz::encrypt(&k, &b), kz::decrypt(&k, &b));
            let e = KuznyechikEnc::new(&Array(k));
            let c = Kuznyechik::from(&e);
            let d = KuznyechikDec::from(&e);
            let d2 = KuznyechikDec::from(e.clone());
            let e2 = e.clone();
            let c2 = Kuznyechik::from(e);
            assert!(kz::eq(&enc1(&c, &b), &se));
            assert!(kz::eq(&dec1(&c, &b), &sd));
            assert!(kz::eq(&dec1(&d, &b), &sd));
            assert!(kz::eq(&dec1(&d2.clone(), &b), &sd));
            assert!(kz::eq(&enc1(&e2, &b), &se));
            assert!(kz::eq(&enc1(&c2.clone(), &b), &se));
            assert!(kz::eq(&dec1(&c2, &b), &sd));
        }
    }
    // C01: for every value of the ten ENCRYPTION round keys (not only reachable ones): the combined cipher built from them
    // by the crate's own conversion, and the Enc / Dec halves, in both orders; and for every key through `new`
    // @ob name=n64_rtcombed props=C01 kind=lemma fn=kuznyechik::Kuznyechik::from,kuznyechik::Kuznyechik::encrypt_with_backend,kuznyechik::Kuznyechik::decrypt_with_backend uses=n64_invkeys,n64_encblk,n64_decblk,l_dec_dk_is_standard,l_ref_roundtrip,l_ref_roundtrip_rev timeout=300
    with_contract_stubs! {
        #[kani::proof]
        fn n64_rtcombed() {
            let c = Kuznyechik::from(&any_e());
            let b: [u8; 16] = kani::any();
            assert!(kz::eq(&dec1(&c, &enc1(&c, &b)), &b));
        }
    }
    // @ob name=n64_rtcombde props=C01 kind=lemma fn=kuznyechik::Kuznyechik::from,kuznyechik::Kuznyechik::encrypt_with_backend,kuznyechik::Kuznyechik::decrypt_with_backend uses=n64_invkeys,n64_encblk,n64_decblk,l_dec_dk_is_standard,l_ref_roundtrip,l_ref_roundtrip_rev timeout=300
    with_contract_stubs! {
        #[kani::proof]
        fn n64_rtcombde() {
            let c = Kuznyechik::from(&any_e());
            let b: [u8; 16] = kani::any();
            assert!(kz::eq(&enc1(&c, &dec1(&c, &b)), &b));
        }
    }
    // @ob name=n64_rthalfed props=C01,C12 kind=lemma fn=kuznyechik::KuznyechikDec::from,kuznyechik::KuznyechikEnc::encrypt_with_backend,kuznyechik::KuznyechikDec::decrypt_with_backend uses=n64_invkeys,n64_encblk,n64_decblk,l_dec_dk_is_standard,l_ref_roundtrip,l_ref_roundtrip_rev timeout=300
    with_contract_stubs! {
        #[kani::proof]
        fn n64_rthalfed() {
            let e = any_e();
            let d = KuznyechikDec::from(&e);
            let b: [u8; 16] = kani::any();
            assert!(kz::eq(&dec1(&d, &enc1(&e, &b)), &b));
        }
    }
    // @ob name=n64_rthalfde props=C01,C12 kind=lemma fn=kuznyechik::KuznyechikDec::from,kuznyechik::KuznyechikEnc::encrypt_with_backend,kuznyechik::KuznyechikDec::decrypt_with_backend uses=n64_invkeys,n64_encblk,n64_decblk,l_dec_dk_is_standard,l_ref_roundtrip,l_ref_roundtrip_rev timeout=300
    with_contract_stubs! {
        #[kani::proof]
        fn n64_rthalfde() {
            let e = any_e();
            let d = KuznyechikDec::from(&e);
            let b: [u8; 16] = kani::any();
            assert!(kz::eq(&enc1(&e, &dec1(&d, &b)), &b));
        }
    }
    // @ob name=n64_rtkey props=C01 kind=lemma fn=kuznyechik::Kuznyechik::new,kuznyechik::Kuznyechik::encrypt_with_backend,kuznyechik::Kuznyechik::decrypt_with_backend uses=n64_expand,n64_invkeys,n64_encblk,n64_decblk,l_dec_dk_is_standard,l_ref_roundtrip,l_ref_roundtrip_rev timeout=300
    with_contract_stubs! {
        #[kani::proof]
        fn n64_rtkey() {
            let k: [u8; 32] = kani::any();
            let c = Kuznyechik::new(&Array(k));
            let b: [u8; 16] = kani::any();
            assert!(kz::eq(&dec1(&c, &enc1(&c, &b)), &b));
            assert!(kz::eq(&enc1(&c, &dec1(&c, &b)), &b));
        }
    }
}
