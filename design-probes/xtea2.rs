use vstd::prelude::*;
verus! {

pub const DELTA: u32 = 0x9e3779b9;

pub open spec fn kidx0(sum: u32) -> int { (sum & 3) as int }
pub open spec fn kidx1(sum: u32) -> int { ((sum >> 11u32) & 3) as int }

pub open spec fn ff(v: u32, s: u32, kk: u32) -> u32 {
    (((v << 4u32) ^ (v >> 5u32)).wrapping_add(v)) ^ s.wrapping_add(kk)
}

pub open spec fn enc_cycle(st: (u32, u32, u32), k: Seq<u32>) -> (u32, u32, u32) {
    let (v0, v1, sum) = st;
    let v0n = v0.wrapping_add(ff(v1, sum, k[kidx0(sum)]));
    let sumn = sum.wrapping_add(DELTA);
    let v1n = v1.wrapping_add(ff(v0n, sumn, k[kidx1(sumn)]));
    (v0n, v1n, sumn)
}

pub open spec fn dec_cycle(st: (u32, u32, u32), k: Seq<u32>) -> (u32, u32, u32) {
    let (v0, v1, sum) = st;
    let v1n = v1.wrapping_sub(ff(v0, sum, k[kidx1(sum)]));
    let sumn = sum.wrapping_sub(DELTA);
    let v0n = v0.wrapping_sub(ff(v1n, sumn, k[kidx0(sumn)]));
    (v0n, v1n, sumn)
}

pub open spec fn enc_n(n: nat, st: (u32, u32, u32), k: Seq<u32>) -> (u32, u32, u32)
    decreases n
{
    if n == 0 { st } else { enc_cycle(enc_n((n - 1) as nat, st, k), k) }
}

pub open spec fn dec_n(n: nat, st: (u32, u32, u32), k: Seq<u32>) -> (u32, u32, u32)
    decreases n
{
    if n == 0 { st } else { dec_n((n - 1) as nat, dec_cycle(st, k), k) }
}

proof fn lemma_cycle_inv(st: (u32, u32, u32), k: Seq<u32>)
    ensures dec_cycle(enc_cycle(st, k), k) == st
{
}

proof fn lemma_n_inv(n: nat, st: (u32, u32, u32), k: Seq<u32>)
    ensures dec_n(n, enc_n(n, st, k), k) == st
    decreases n
{
    if n > 0 {
        lemma_cycle_inv(enc_n((n - 1) as nat, st, k), k);
        lemma_n_inv((n - 1) as nat, st, k);
    }
}

proof fn lemma_sum(n: nat, st: (u32, u32, u32), k: Seq<u32>)
    ensures enc_n(n, st, k).2 as int == (st.2 as int + n * (DELTA as int)) % 0x1_0000_0000
    decreases n
{
    if n > 0 { lemma_sum((n - 1) as nat, st, k); 
        assert(((st.2 as int + (n - 1) * (DELTA as int)) % 0x1_0000_0000 + DELTA as int) % 0x1_0000_0000 == (st.2 as int + n * (DELTA as int)) % 0x1_0000_0000) by(nonlinear_arith);
    }
}

fn encrypt(k: &[u32; 4], v0i: u32, v1i: u32) -> (r: (u32, u32))
    ensures ({ let e = enc_n(32, (v0i, v1i, 0u32), k@); r.0 == e.0 && r.1 == e.1 })
{
    let mut v0 = v0i;
    let mut v1 = v1i;
    let mut sum = 0u32;
    for i in 0..8
        invariant (v0, v1, sum) == enc_n(i as nat, (v0i, v1i, 0u32), k@)
    {
            assert((sum & 3) < 4) by(bit_vector);
            v0 = v0.wrapping_add(
                (((v1 << 4) ^ (v1 >> 5)).wrapping_add(v1))
                    ^ sum.wrapping_add(k[(sum & 3) as usize]),
            );
            sum = sum.wrapping_add(DELTA);
            assert(((sum >> 11) & 3) < 4) by(bit_vector);
            v1 = v1.wrapping_add(
                (((v0 << 4) ^ (v0 >> 5)).wrapping_add(v0))
                    ^ sum.wrapping_add(k[((sum >> 11) & 3) as usize]),
            );
    }
    for i in 0..24
        invariant (v0, v1, sum) == enc_n((8 + i) as nat, (v0i, v1i, 0u32), k@)
    {
            assert((sum & 3) < 4) by(bit_vector);
            v0 = v0.wrapping_add(
                (((v1 << 4) ^ (v1 >> 5)).wrapping_add(v1))
                    ^ sum.wrapping_add(k[(sum & 3) as usize]),
            );
            sum = sum.wrapping_add(DELTA);
            assert(((sum >> 11) & 3) < 4) by(bit_vector);
            v1 = v1.wrapping_add(
                (((v0 << 4) ^ (v0 >> 5)).wrapping_add(v0))
                    ^ sum.wrapping_add(k[((sum >> 11) & 3) as usize]),
            );
    }
    (v0, v1)
}

fn decrypt(k: &[u32; 4], v0i: u32, v1i: u32) -> (r: (u32, u32))
    ensures ({ let e = dec_n(32, (v0i, v1i, DELTA.wrapping_mul(32)), k@); r.0 == e.0 && r.1 == e.1 })
{
    let mut v0 = v0i;
    let mut v1 = v1i;
    let mut sum = DELTA.wrapping_mul(32);
    let ghost init = (v0i, v1i, sum);
    for i in 0..32
        invariant dec_n((32 - i) as nat, (v0, v1, sum), k@) == dec_n(32, init, k@)
    {
            assert(((sum >> 11) & 3) < 4) by(bit_vector);
            v1 = v1.wrapping_sub(
                (((v0 << 4) ^ (v0 >> 5)).wrapping_add(v0))
                    ^ sum.wrapping_add(k[((sum >> 11) & 3) as usize]),
            );
            sum = sum.wrapping_sub(DELTA);
            assert((sum & 3) < 4) by(bit_vector);
            v0 = v0.wrapping_sub(
                (((v1 << 4) ^ (v1 >> 5)).wrapping_add(v1))
                    ^ sum.wrapping_add(k[(sum & 3) as usize]),
            );
    }
    (v0, v1)
}

} // verus!
fn main() {}
