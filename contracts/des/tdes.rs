// Contracts on des/src/tdes.rs: the four Triple-DES types against SP 800-67 (EDE) / EEE compositions of the DEA,
// proved against the contract of Des::{encrypt,decrypt} (replaced by their spec functions, licensed by
// des.rs c_des_encrypt / c_des_decrypt), for every value of the 3 x 16 subkeys.
//
// @module file=des/src/tdes.rs
// @config name=zeroize features=zeroize
use super::*;
use crate::des::__vp_des::{any_des, shift16, spec_decrypt, spec_encrypt};
use crate::utils::__vp_utils::{eq16, spec_gen_keys};
use cipher::{Array, KeyInit};
include!("@VERIF@/contracts/_common/common.rs");

/// Uninterpreted *inverse pair* standing for Des::{encrypt,decrypt}: per subkey set k, enc(k,.) and dec(k,.) are
/// mutually inverse bijections and otherwise unconstrained (a relation table with a concrete call counter).
/// Licensed by des.rs: c_des_encrypt / c_des_decrypt (both are pure functions of (subkeys, data)) and
/// l_des_roundtrip (they are mutually inverse for EVERY subkey set).  With it the Triple-DES obligations are
/// pure composition / ordering statements and take seconds instead of 4-13 minutes.
use ufp::{dec as udec, enc as uenc};
pub mod ufp {
    use super::*;
    pub const MAXC: usize = 16;
    pub static mut K: [[u64; 16]; MAXC] = [[0; 16]; MAXC];
    pub static mut X: [u64; MAXC] = [0; MAXC];
    pub static mut Y: [u64; MAXC] = [0; MAXC];
    pub static mut N: usize = 0;
    #[allow(static_mut_refs)]
    pub fn enc(d: &Des, x: u64) -> u64 {
        unsafe {
            let mut y: u64 = kani::any();
            let mut found = false;
            let mut i = 0;
            while i < N {
                if eq16(&K[i], &d.keys) {
                    if !found && X[i] == x { y = Y[i]; found = true; }
                }
                i += 1;
            }
            if !found {
                // fresh image: injective w.r.t. everything recorded for this key
                let mut i = 0;
                while i < N {
                    if eq16(&K[i], &d.keys) { kani::assume(Y[i] != y); }
                    i += 1;
                }
            }
            assert!(N < MAXC);
            K[N] = d.keys; X[N] = x; Y[N] = y; N += 1;
            y
        }
    }
    #[allow(static_mut_refs)]
    pub fn dec(d: &Des, y: u64) -> u64 {
        unsafe {
            let mut x: u64 = kani::any();
            let mut found = false;
            let mut i = 0;
            while i < N {
                if eq16(&K[i], &d.keys) {
                    if !found && Y[i] == y { x = X[i]; found = true; }
                }
                i += 1;
            }
            if !found {
                let mut i = 0;
                while i < N {
                    if eq16(&K[i], &d.keys) { kani::assume(X[i] != x); }
                    i += 1;
                }
            }
            assert!(N < MAXC);
            K[N] = d.keys; X[N] = x; Y[N] = y; N += 1;
            x
        }
    }
}

fn be(b: &[u8]) -> u64 {
    let mut x = 0u64;
    let mut i = 0;
    while i < 8 {
        x = (x << 8) | b[i] as u64;
        i += 1;
    }
    x
}

macro_rules! tdes3 {
    ($enc:ident, $dec:ident, $new:ident, $ty:ident, $e1:ident, $e2:ident, $e3:ident, $d1:ident, $d2:ident, $d3:ident, $refenc:path, $refdec:path) => {
        #[kani::proof]
        #[kani::stub(Des::encrypt, ufp::enc)]
        #[kani::stub(Des::decrypt, ufp::dec)]
        #[kani::unwind(65)]
        fn $enc() {
            let t = $ty { d1: any_des(), d2: any_des(), d3: any_des() };
            let b: [u8; 8] = kani::any();
            let mut blk = Array(b);
            cipher::BlockCipherEncrypt::encrypt_block(&t, &mut blk);
            let x = u64::from_be_bytes(b);
            assert!(u64::from_be_bytes(blk.0) == $e3(&t.d3, $e2(&t.d2, $e1(&t.d1, x))));
        }
        #[kani::proof]
        #[kani::stub(Des::encrypt, ufp::enc)]
        #[kani::stub(Des::decrypt, ufp::dec)]
        #[kani::unwind(65)]
        fn $dec() {
            let t = $ty { d1: any_des(), d2: any_des(), d3: any_des() };
            let b: [u8; 8] = kani::any();
            let mut blk = Array(b);
            cipher::BlockCipherDecrypt::decrypt_block(&t, &mut blk);
            let x = u64::from_be_bytes(b);
            assert!(u64::from_be_bytes(blk.0) == $d1(&t.d1, $d2(&t.d2, $d3(&t.d3, x))));
        }
        // key split in order, each part through the DES key schedule
        #[kani::proof]
        #[kani::unwind(65)]
        fn $new() {
            let k: [u8; 24] = kani::any();
            let t = $ty::new(&Array(k));
            assert!(eq16(&t.d1.keys, &crate::utils::gen_keys(be(&k[0..8]))));
            assert!(eq16(&t.d2.keys, &crate::utils::gen_keys(be(&k[8..16]))));
            assert!(eq16(&t.d3.keys, &crate::utils::gen_keys(be(&k[16..24]))));
        }
    };
}
macro_rules! tdes2 {
    ($enc:ident, $dec:ident, $new:ident, $ty:ident, $e1:ident, $e2:ident, $e3:ident, $d1:ident, $d2:ident, $d3:ident) => {
        #[kani::proof]
        #[kani::stub(Des::encrypt, ufp::enc)]
        #[kani::stub(Des::decrypt, ufp::dec)]
        #[kani::unwind(65)]
        fn $enc() {
            let t = $ty { d1: any_des(), d2: any_des() };
            let b: [u8; 8] = kani::any();
            let mut blk = Array(b);
            cipher::BlockCipherEncrypt::encrypt_block(&t, &mut blk);
            let x = u64::from_be_bytes(b);
            assert!(u64::from_be_bytes(blk.0) == $e3(&t.d1, $e2(&t.d2, $e1(&t.d1, x))));
        }
        #[kani::proof]
        #[kani::stub(Des::encrypt, ufp::enc)]
        #[kani::stub(Des::decrypt, ufp::dec)]
        #[kani::unwind(65)]
        fn $dec() {
            let t = $ty { d1: any_des(), d2: any_des() };
            let b: [u8; 8] = kani::any();
            let mut blk = Array(b);
            cipher::BlockCipherDecrypt::decrypt_block(&t, &mut blk);
            let x = u64::from_be_bytes(b);
            assert!(u64::from_be_bytes(blk.0) == $d1(&t.d1, $d2(&t.d2, $d3(&t.d1, x))));
        }
        #[kani::proof]
        #[kani::unwind(65)]
        fn $new() {
            let k: [u8; 16] = kani::any();
            let t = $ty::new(&Array(k));
            assert!(eq16(&t.d1.keys, &crate::utils::gen_keys(be(&k[0..8]))));
            assert!(eq16(&t.d2.keys, &crate::utils::gen_keys(be(&k[8..16]))));
        }
    };
}

// @ob name=c_ede3_enc props=C05,C20 fn=des::TdesEde3::encrypt_block uses=c_des_encrypt,c_des_decrypt timeout=300
// @ob name=c_ede3_dec props=C05,C20 fn=des::TdesEde3::decrypt_block uses=c_des_encrypt,c_des_decrypt timeout=300
// @ob name=c_ede3_new props=C05,C20 fn=des::TdesEde3::new timeout=300
tdes3!(c_ede3_enc, c_ede3_dec, c_ede3_new, TdesEde3, uenc, udec, uenc, udec, uenc, udec, a, b);
// @ob name=c_eee3_enc props=C05,C20 fn=des::TdesEee3::encrypt_block uses=c_des_encrypt,c_des_decrypt timeout=300
// @ob name=c_eee3_dec props=C05,C20 fn=des::TdesEee3::decrypt_block uses=c_des_encrypt,c_des_decrypt timeout=300
// @ob name=c_eee3_new props=C05,C20 fn=des::TdesEee3::new timeout=300
tdes3!(c_eee3_enc, c_eee3_dec, c_eee3_new, TdesEee3, uenc, uenc, uenc, udec, udec, udec, a, b);
// @ob name=c_ede2_enc props=C05,C20 fn=des::TdesEde2::encrypt_block uses=c_des_encrypt,c_des_decrypt timeout=300
// @ob name=c_ede2_dec props=C05,C20 fn=des::TdesEde2::decrypt_block uses=c_des_encrypt,c_des_decrypt timeout=300
// @ob name=c_ede2_new props=C05,C20 fn=des::TdesEde2::new timeout=300
tdes2!(c_ede2_enc, c_ede2_dec, c_ede2_new, TdesEde2, uenc, udec, uenc, udec, uenc, udec);
// @ob name=c_eee2_enc props=C05,C20 fn=des::TdesEee2::encrypt_block uses=c_des_encrypt,c_des_decrypt timeout=300
// @ob name=c_eee2_dec props=C05,C20 fn=des::TdesEee2::decrypt_block uses=c_des_encrypt,c_des_decrypt timeout=300
// @ob name=c_eee2_new props=C05,C20 fn=des::TdesEee2::new timeout=300
tdes2!(c_eee2_enc, c_eee2_dec, c_eee2_new, TdesEee2, uenc, uenc, uenc, udec, udec, udec);

// C01 for the four types, from the property's statement, over the contracts of Des::{encrypt,decrypt}
// (the uninterpreted inverse pair `ufp`, licensed by des.rs l_des_roundtrip, c_des_encrypt, c_des_decrypt).
macro_rules! rt3 {
    ($name:ident, $ty:ident) => {
        #[kani::proof]
        #[kani::stub(Des::encrypt, ufp::enc)]
        #[kani::stub(Des::decrypt, ufp::dec)]
        #[kani::unwind(65)]
        fn $name() {
            let t = $ty { d1: any_des(), d2: any_des(), d3: any_des() };
            let b: [u8; 8] = kani::any();
            let mut blk = Array(b);
            cipher::BlockCipherEncrypt::encrypt_block(&t, &mut blk);
            cipher::BlockCipherDecrypt::decrypt_block(&t, &mut blk);
            assert!(blk.0 == b);
            cipher::BlockCipherDecrypt::decrypt_block(&t, &mut blk);
            cipher::BlockCipherEncrypt::encrypt_block(&t, &mut blk);
            assert!(blk.0 == b);
        }
    };
}
macro_rules! rt2 {
    ($name:ident, $ty:ident) => {
        #[kani::proof]
        #[kani::stub(Des::encrypt, ufp::enc)]
        #[kani::stub(Des::decrypt, ufp::dec)]
        #[kani::unwind(65)]
        fn $name() {
            let t = $ty { d1: any_des(), d2: any_des() };
            let b: [u8; 8] = kani::any();
            let mut blk = Array(b);
            cipher::BlockCipherEncrypt::encrypt_block(&t, &mut blk);
            cipher::BlockCipherDecrypt::decrypt_block(&t, &mut blk);
            assert!(blk.0 == b);
            cipher::BlockCipherDecrypt::decrypt_block(&t, &mut blk);
            cipher::BlockCipherEncrypt::encrypt_block(&t, &mut blk);
            assert!(blk.0 == b);
        }
    };
}
// @ob name=l_ede3_roundtrip props=C01 kind=lemma fn=des::TdesEde3::encrypt_block,des::TdesEde3::decrypt_block uses=l_des_roundtrip,c_des_encrypt,c_des_decrypt timeout=600
rt3!(l_ede3_roundtrip, TdesEde3);
// @ob name=l_eee3_roundtrip props=C01 kind=lemma fn=des::TdesEee3::encrypt_block,des::TdesEee3::decrypt_block uses=l_des_roundtrip,c_des_encrypt,c_des_decrypt timeout=600
rt3!(l_eee3_roundtrip, TdesEee3);
// @ob name=l_ede2_roundtrip props=C01 kind=lemma fn=des::TdesEde2::encrypt_block,des::TdesEde2::decrypt_block uses=l_des_roundtrip,c_des_encrypt,c_des_decrypt timeout=600
rt2!(l_ede2_roundtrip, TdesEde2);
// @ob name=l_eee2_roundtrip props=C01 kind=lemma fn=des::TdesEee2::encrypt_block,des::TdesEee2::decrypt_block uses=l_des_roundtrip,c_des_encrypt,c_des_decrypt timeout=600
rt2!(l_eee2_roundtrip, TdesEee2);

// Key relations (C05): EDE with all parts equal is single DES.
// @ob name=l_ede3_kkk_is_des props=C05 kind=lemma fn=des::TdesEde3::new,des::TdesEde3::encrypt_block,des::Des::new uses=l_des_roundtrip,c_des_encrypt,c_des_decrypt timeout=600
#[kani::proof]
#[kani::stub(Des::encrypt, ufp::enc)]
#[kani::stub(Des::decrypt, ufp::dec)]
#[kani::unwind(65)]
fn l_ede3_kkk_is_des() {
    let k: [u8; 8] = kani::any();
    let mut kkk = [0u8; 24];
    let mut i = 0;
    while i < 24 {
        kkk[i] = k[i % 8];
        i += 1;
    }
    let t = TdesEde3::new(&Array(kkk));
    let d = Des::new(&Array(k));
    let b: [u8; 8] = kani::any();
    let mut x = Array(b);
    let mut y = Array(b);
    cipher::BlockCipherEncrypt::encrypt_block(&t, &mut x);
    cipher::BlockCipherEncrypt::encrypt_block(&d, &mut y);
    assert!(x.0 == y.0);
    let mut x = Array(b);
    let mut y = Array(b);
    cipher::BlockCipherDecrypt::decrypt_block(&t, &mut x);
    cipher::BlockCipherDecrypt::decrypt_block(&d, &mut y);
    assert!(x.0 == y.0);
}

// Each two-key form equals the three-key form with the first part repeated: state-level (same subkeys in the
// same roles) — with c_ede{2,3}_{enc,dec} (same composition over the Des contracts) this gives equal functions.
// @ob name=l_two_key_is_three_key props=C05 kind=lemma fn=des::TdesEde2::new,des::TdesEde3::new,des::TdesEee2::new,des::TdesEee3::new timeout=600
#[kani::proof]
#[kani::unwind(65)]
fn l_two_key_is_three_key() {
    let k: [u8; 16] = kani::any();
    let mut k3 = [0u8; 24];
    let mut i = 0;
    while i < 24 {
        k3[i] = k[i % 16];
        i += 1;
    }
    let a = TdesEde2::new(&Array(k));
    let b = TdesEde3::new(&Array(k3));
    assert!(eq16(&a.d1.keys, &b.d1.keys) && eq16(&a.d2.keys, &b.d2.keys) && eq16(&a.d1.keys, &b.d3.keys));
    let a = TdesEee2::new(&Array(k));
    let b = TdesEee3::new(&Array(k3));
    assert!(eq16(&a.d1.keys, &b.d1.keys) && eq16(&a.d2.keys, &b.d2.keys) && eq16(&a.d1.keys, &b.d3.keys));
}


/// Pointer-keyed variant of `ufp`: each Des *object* gets its own uninterpreted inverse pair (two objects holding equal
/// subkeys are treated as unrelated functions: an over-approximation, sound for the plumbing obligations below, and
/// much cheaper than comparing sixteen subkeys per table row).
pub mod ufq {
    use super::*;
    pub const MAXC: usize = 32;
    pub static mut K: [usize; MAXC] = [0; MAXC];
    pub static mut X: [u64; MAXC] = [0; MAXC];
    pub static mut Y: [u64; MAXC] = [0; MAXC];
    pub static mut N: usize = 0;
    #[allow(static_mut_refs)]
    pub fn enc(d: &Des, x: u64) -> u64 {
        let k = d as *const Des as usize;
        unsafe {
            let mut y: u64 = kani::any();
            let mut found = false;
            let mut i = 0;
            while i < N {
                if K[i] == k && !found && X[i] == x { y = Y[i]; found = true; }
                i += 1;
            }
            if !found {
                let mut i = 0;
                while i < N {
                    if K[i] == k { kani::assume(Y[i] != y); }
                    i += 1;
                }
            }
            assert!(N < MAXC);
            K[N] = k; X[N] = x; Y[N] = y; N += 1;
            y
        }
    }
    #[allow(static_mut_refs)]
    pub fn dec(d: &Des, y: u64) -> u64 {
        let k = d as *const Des as usize;
        unsafe {
            let mut x: u64 = kani::any();
            let mut found = false;
            let mut i = 0;
            while i < N {
                if K[i] == k && !found && Y[i] == y { x = X[i]; found = true; }
                i += 1;
            }
            if !found {
                let mut i = 0;
                while i < N {
                    if K[i] == k { kani::assume(X[i] != x); }
                    i += 1;
                }
            }
            assert!(N < MAXC);
            K[N] = k; X[N] = x; Y[N] = y; N += 1;
            x
        }
    }
}

// C04 / C05 for the Triple-DES types through separate input and output buffers (block-mode crates call them this way):
// encrypt_block_b2b / decrypt_block_b2b and the n-block forms equal the in-place results, the input is untouched and
// guard blocks around the output survive.  Des::{encrypt,decrypt}: the uninterpreted inverse pair.
macro_rules! tdes_b2b {
    ($name:ident, $mk:expr) => {
        #[kani::proof]
        #[kani::stub(Des::encrypt, ufq::enc)]
        #[kani::stub(Des::decrypt, ufq::dec)]
        #[kani::unwind(65)]
        fn $name() {
            let t = $mk;
            let b: [[u8; 8]; 2] = kani::any();
            let mut e = [[0u8; 8]; 2];
            let mut d = [[0u8; 8]; 2];
            let mut i = 0;
            while i < 2 {
                let mut x = Array(b[i]);
                cipher::BlockCipherEncrypt::encrypt_block(&t, &mut x);
                e[i] = x.0;
                let mut x = Array(b[i]);
                cipher::BlockCipherDecrypt::decrypt_block(&t, &mut x);
                d[i] = x.0;
                i += 1;
            }
            let src = [Array(b[0]), Array(b[1])];
            let g: [u8; 8] = kani::any();
            let mut dst = [Array(g); 4];
            cipher::BlockCipherEncrypt::encrypt_blocks_b2b(&t, &src, &mut dst[1..3]).unwrap();
            assert!(dst[0].0 == g && dst[3].0 == g && dst[1].0 == e[0] && dst[2].0 == e[1]);
            assert!(src[0].0 == b[0] && src[1].0 == b[1]);
            let mut dst = [Array(g); 4];
            cipher::BlockCipherDecrypt::decrypt_blocks_b2b(&t, &src, &mut dst[1..3]).unwrap();
            assert!(dst[0].0 == g && dst[3].0 == g && dst[1].0 == d[0] && dst[2].0 == d[1]);
            let mut one = Array(g);
            cipher::BlockCipherEncrypt::encrypt_block_b2b(&t, &src[0], &mut one);
            assert!(one.0 == e[0]);
            cipher::BlockCipherDecrypt::decrypt_block_b2b(&t, &src[1], &mut one);
            assert!(one.0 == d[1]);
        }
    };
}
// @ob name=m_ede3_b2b props=C04,C05,C15 kind=bounded bound="n = 2 blocks" fn=des::TdesEde3::encrypt_block,des::TdesEde3::decrypt_block uses=l_des_roundtrip,c_des_encrypt,c_des_decrypt timeout=600
tdes_b2b!(m_ede3_b2b, TdesEde3 { d1: any_des(), d2: any_des(), d3: any_des() });
// @ob name=m_eee3_b2b props=C04,C05,C15 kind=bounded bound="n = 2 blocks" fn=des::TdesEee3::encrypt_block,des::TdesEee3::decrypt_block uses=l_des_roundtrip,c_des_encrypt,c_des_decrypt timeout=600
tdes_b2b!(m_eee3_b2b, TdesEee3 { d1: any_des(), d2: any_des(), d3: any_des() });
// @ob name=m_ede2_b2b props=C04,C05,C15 kind=bounded bound="n = 2 blocks" fn=des::TdesEde2::encrypt_block,des::TdesEde2::decrypt_block uses=l_des_roundtrip,c_des_encrypt,c_des_decrypt timeout=600
tdes_b2b!(m_ede2_b2b, TdesEde2 { d1: any_des(), d2: any_des() });
// @ob name=m_eee2_b2b props=C04,C05,C15 kind=bounded bound="n = 2 blocks" fn=des::TdesEee2::encrypt_block,des::TdesEee2::decrypt_block uses=l_des_roundtrip,c_des_encrypt,c_des_decrypt timeout=600
tdes_b2b!(m_eee2_b2b, TdesEee2 { d1: any_des(), d2: any_des() });
