const IP: [u8; 64] = [58,50,42,34,26,18,10,2,60,52,44,36,28,20,12,4,62,54,46,38,30,22,14,6,64,56,48,40,32,24,16,8,57,49,41,33,25,17,9,1,59,51,43,35,27,19,11,3,61,53,45,37,29,21,13,5,63,55,47,39,31,23,15,7];
const PC1: [u8; 56] = [57,49,41,33,25,17,9,1,58,50,42,34,26,18,10,2,59,51,43,35,27,19,11,3,60,52,44,36,63,55,47,39,31,23,15,7,62,54,46,38,30,22,14,6,61,53,45,37,29,21,13,5,28,20,12,4];
fn permute(x: u64, inw: u32, table: &[u8]) -> u64 {
    let mut out = 0u64;
    let mut i = 0;
    while i < table.len() {
        let bit = (x >> (inw - table[i] as u32)) & 1;
        out = (out << 1) | bit;
        i += 1;
    }
    out
}
pub fn spec_pc1(key: u64) -> u64 { permute(key, 64, &PC1) << 8 }
pub fn spec_ip(m: u64) -> u64 { permute(m, 64, &IP) }

#[kani::proof_for_contract(super::pc1)]
#[kani::unwind(65)]
fn pc1_contract() { let k: u64 = kani::any(); super::pc1(k); }

#[kani::proof_for_contract(super::ip)]
#[kani::unwind(65)]
fn ip_contract() { let k: u64 = kani::any(); super::ip(k); }
