// C17: the AES-NI hazmat round functions (aes/src/ni/hazmat.rs, feature hazmat) equal the FIPS-197 round
// transformations relative to the instruction models of /verif/intrinsics/x86_aes.rs; mix_columns is three AESIMC
// (InvMixColumns^3 == MixColumns, which this obligation therefore also proves); 8-block forms == eight single calls.
//
// @module file=aes/src/ni/hazmat.rs modcfg='feature="hazmat"'
// @config name=hazmat features=hazmat
use super::*;
use bcref::aes as fips;
include!("@VERIF@/intrinsics/x86_aes.rs");

fn eq(a: &[u8; 16], b: &[u8; 16]) -> bool {
    let mut ok = true;
    let mut i = 0;
    while i < 16 {
        ok &= a[i] == b[i];
        i += 1;
    }
    ok
}
// @ob name=h_ni_single props=C17,C20 cfg=hazmat fn=aes::ni::hazmat::cipher_round,aes::ni::hazmat::equiv_inv_cipher_round,aes::ni::hazmat::inv_mix_columns timeout=900
#[kani::proof]
#[kani::stub(core::arch::x86_64::_mm_aesenc_si128, x86_models::aesenc)]
#[kani::stub(core::arch::x86_64::_mm_aesdec_si128, x86_models::aesdec)]
#[kani::stub(core::arch::x86_64::_mm_aesimc_si128, x86_models::aesimc)]
#[kani::unwind(20)]
fn h_ni_single() {
    let b: [u8; 16] = kani::any();
    let k: [u8; 16] = kani::any();
    let key = Array(k);
    let mut x = Array(b);
    unsafe { cipher_round(&mut x, &key); }
    assert!(eq(&x.0, &fips::cipher_round(&b, &k)));
    let mut x = Array(b);
    unsafe { equiv_inv_cipher_round(&mut x, &key); }
    assert!(eq(&x.0, &fips::equiv_inv_cipher_round(&b, &k)));
    let mut x = Array(b);
    unsafe { inv_mix_columns(&mut x); }
    assert!(eq(&x.0, &fips::inv_mix_columns(&b)));
}
// (full-block form: > 40 min on z3; the per-column form below is the quick one)
// (did not finish within 3600 s in the thorough-tier run of 2026-10-04; superseded by the additivity + basis obligations at the end of this file: unregistered) @-ob name=h_ni_mix_columns props=C17,C20 cfg=hazmat tier=thorough solver=z3 fn=aes::ni::hazmat::mix_columns timeout=3600
#[kani::proof]
#[kani::stub(core::arch::x86_64::_mm_aesimc_si128, x86_models::aesimc)]
#[kani::unwind(20)]
#[kani::solver(z3)]
fn h_ni_mix_columns() {
    let b: [u8; 16] = kani::any();
    let mut x = Array(b);
    unsafe { mix_columns(&mut x); }
    assert!(eq(&x.0, &fips::mix_columns(&b)));
}
// @ob name=h_ni_par props=C17,C04,C20 cfg=hazmat tier=thorough fn=aes::ni::hazmat::cipher_round_par,aes::ni::hazmat::equiv_inv_cipher_round_par timeout=3600
#[kani::proof]
#[kani::stub(core::arch::x86_64::_mm_aesenc_si128, x86_models::aesenc)]
#[kani::stub(core::arch::x86_64::_mm_aesdec_si128, x86_models::aesdec)]
#[kani::unwind(20)]
fn h_ni_par() {
    let b: [[u8; 16]; 8] = kani::any();
    let k: [[u8; 16]; 8] = kani::any();
    let mut blocks = Block8::default();
    let mut keys = Block8::default();
    let mut i = 0;
    while i < 8 {
        blocks[i] = Array(b[i]);
        keys[i] = Array(k[i]);
        i += 1;
    }
    let mut enc = blocks.clone();
    unsafe { cipher_round_par(&mut enc, &keys); }
    let mut dec = blocks.clone();
    unsafe { equiv_inv_cipher_round_par(&mut dec, &keys); }
    let mut j = 0;
    while j < 8 {
        assert!(eq(&enc[j].0, &fips::cipher_round(&b[j], &k[j])));
        assert!(eq(&dec[j].0, &fips::equiv_inv_cipher_round(&b[j], &k[j])));
        j += 1;
    }
}

// Quick plumbing form of h_ni_par: AESENC / AESDEC replaced by a register-local stand-in (block xor key rotated by one
// byte), so lane j of the 8-block forms must combine blocks[j] with keys[j].
unsafe fn st(a: __m128i, k: __m128i) -> __m128i {
    let (a, k) = (x86_models::to_b(a), x86_models::to_b(k));
    let mut o = [0u8; 16];
    let mut i = 0;
    while i < 16 {
        o[i] = a[(i + 1) % 16] ^ k[i];
        i += 1;
    }
    x86_models::from_b(o)
}
// @ob name=h_ni_par_lanes props=C17,C04,C20 cfg=hazmat fn=aes::ni::hazmat::cipher_round_par,aes::ni::hazmat::equiv_inv_cipher_round_par,aes::ni::hazmat::load,aes::ni::hazmat::store uses=h_ni_single timeout=600
#[kani::proof]
#[kani::stub(core::arch::x86_64::_mm_aesenc_si128, st)]
#[kani::stub(core::arch::x86_64::_mm_aesdec_si128, st)]
#[kani::unwind(20)]
fn h_ni_par_lanes() {
    let b: [[u8; 16]; 8] = kani::any();
    let k: [[u8; 16]; 8] = kani::any();
    let mut blocks = Block8::default();
    let mut keys = Block8::default();
    let mut i = 0;
    while i < 8 {
        blocks[i] = Array(b[i]);
        keys[i] = Array(k[i]);
        i += 1;
    }
    let mut enc = blocks.clone();
    unsafe { cipher_round_par(&mut enc, &keys); }
    let mut dec = blocks.clone();
    unsafe { equiv_inv_cipher_round_par(&mut dec, &keys); }
    let mut j = 0;
    while j < 8 {
        let want = x86_models::to_b(unsafe { st(x86_models::from_b(b[j]), x86_models::from_b(k[j])) });
        assert!(eq(&enc[j].0, &want));
        assert!(eq(&dec[j].0, &want));
        assert!(eq(&keys[j].0, &k[j]));
        j += 1;
    }
}

// mix_columns == MixColumns, one symbolic column at a time (the other three columns zero): AESIMC acts on each 4-byte
// column independently (its model is FIPS-197 InvMixColumns, per column by definition), so the full-block statement is
// the conjunction of the four single-column ones.
// (did not finish within 3600 s in the thorough-tier run of 2026-10-04; superseded by the additivity + basis obligations at the end of this file: unregistered) @-ob name=h_ni_mixcol_percolumn props=C17,C20 cfg=hazmat tier=thorough solver=z3 fn=aes::ni::hazmat::mix_columns timeout=3600
#[kani::proof]
#[kani::stub(core::arch::x86_64::_mm_aesimc_si128, x86_models::aesimc)]
#[kani::unwind(20)]
#[kani::solver(z3)]
fn h_ni_mixcol_percolumn() {
    let col: [u8; 4] = kani::any();
    let c: usize = kani::any();
    kani::assume(c < 4);
    let mut b = [0u8; 16];
    b[4 * c] = col[0];
    b[4 * c + 1] = col[1];
    b[4 * c + 2] = col[2];
    b[4 * c + 3] = col[3];
    let mut x = Array(b);
    unsafe { mix_columns(&mut x); }
    assert!(eq(&x.0, &fips::mix_columns(&b)));
}

// ---- mix_columns == MixColumns by GF(2)-linearity (the two monolithic forms above did not finish in 3600 s):
//   (L1) the real mix_columns is additive:  mc(x ^ y) == mc(x) ^ mc(y)            for all x, y
//   (L2) FIPS-197 MixColumns (bcref) is additive                                    for all x, y
//   (B)  mc(e) == MixColumns(e) for every block e with at most one non-zero byte    (all 16 positions x 256 values)
// Two additive maps that agree on a spanning set of GF(2)^128 agree everywhere.  STATUS: (B) is discharged (10 s) and is
// registered as a BOUNDED obligation; (L1) and (L2) gave no result in 18 min and are unregistered candidates, so the
// all-blocks statement for the AES-NI mix_columns is NOT proved here: the falsifier checks it natively on random blocks,
// inv_mix_columns (one AESIMC) is proved in h_ni_single, and the public hazmat API obligations cover the soft path.
fn xor16(a: &[u8; 16], b: &[u8; 16]) -> [u8; 16] {
    let mut r = [0u8; 16];
    let mut i = 0;
    while i < 16 {
        r[i] = a[i] ^ b[i];
        i += 1;
    }
    r
}
// (no result after 18 min with CaDiCaL or Kissat (XOR-miter); candidate: unregistered) @-ob name=h_ni_mixcol_additive props=C17,C20 cfg=hazmat kind=lemma fn=aes::ni::hazmat::mix_columns timeout=1200
#[kani::proof]
#[kani::stub(core::arch::x86_64::_mm_aesimc_si128, x86_models::aesimc)]
#[kani::unwind(20)]
fn h_ni_mixcol_additive() {
    let a: [u8; 16] = kani::any();
    let b: [u8; 16] = kani::any();
    let mut x = Array(a);
    let mut y = Array(b);
    let mut z = Array(xor16(&a, &b));
    unsafe { mix_columns(&mut x); mix_columns(&mut y); mix_columns(&mut z); }
    assert!(eq(&z.0, &xor16(&x.0, &y.0)));
}
// (no result after 18 min with CaDiCaL or Kissat (XOR-miter); candidate: unregistered) @-ob name=h_fips_mixcol_additive props=C17 cfg=hazmat kind=lemma fn=aes::ni::hazmat::mix_columns timeout=1200 note="additivity of the reference MixColumns"
#[kani::proof]
#[kani::unwind(20)]
fn h_fips_mixcol_additive() {
    let a: [u8; 16] = kani::any();
    let b: [u8; 16] = kani::any();
    assert!(eq(&fips::mix_columns(&xor16(&a, &b)), &xor16(&fips::mix_columns(&a), &fips::mix_columns(&b))));
}
// @ob name=h_ni_mixcol_basis props=C17,C20 cfg=hazmat kind=bounded bound="blocks with at most one non-zero byte (16 positions x 256 values); the extension to all blocks needs the two additivity candidates above, which are NOT discharged" fn=aes::ni::hazmat::mix_columns timeout=1200
#[kani::proof]
#[kani::stub(core::arch::x86_64::_mm_aesimc_si128, x86_models::aesimc)]
#[kani::unwind(20)]
fn h_ni_mixcol_basis() {
    let v: u8 = kani::any();
    let p: usize = kani::any();
    kani::assume(p < 16);
    let mut b = [0u8; 16];
    b[p] = v;
    let mut x = Array(b);
    unsafe { mix_columns(&mut x); }
    assert!(eq(&x.0, &fips::mix_columns(&b)));
}
