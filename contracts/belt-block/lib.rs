// Contracts on belt-block/src/lib.rs against STB 34.101.31-2020 (bcref::belt): the tables H5/H13/H21/H29, the
// G_r functions g5/g13/g21, key_idx, the byte/word helpers, belt_block_raw (6.1.3) and the wide-block pair
// belt_wblock_enc / belt_wblock_dec (6.2.3 / 6.2.4).
//
// @module file=belt-block/src/lib.rs
//
// FRAMEWORK NOTE: lib.rs carries `#![forbid(unsafe_code)]`; the line with which the framework mounts a contract
// module (`#[allow(unsafe_code, ..)] mod __vp_..`) is then rejected by rustc (E0453) whatever the module contains.
// `--cap-lints warn` demotes the forbid (lints only; no influence on code generation), which also lets the
// uninterpreted-function tables below live in `static mut`s as in des/tdes.rs.
// @config name=default rustflags="--cap-lints warn"
// @config name=zeroize features=zeroize rustflags="--cap-lints warn"
use super::*;
use bcref::belt as spec;

// ------------------------------------------------------------------------------------------------ comparison helpers
pub fn eq4(a: &[u32; 4], b: &[u32; 4]) -> bool {
    let mut ok = true;
    let mut i = 0;
    while i < 4 {
        ok &= a[i] == b[i];
        i += 1;
    }
    ok
}
pub fn eq8(a: &[u32; 8], b: &[u32; 8]) -> bool {
    let mut ok = true;
    let mut i = 0;
    while i < 8 {
        ok &= a[i] == b[i];
        i += 1;
    }
    ok
}
pub fn eq_bytes(a: &[u8], b: &[u8]) -> bool {
    if a.len() != b.len() {
        return false;
    }
    let mut ok = true;
    let mut i = 0;
    while i < a.len() {
        ok &= a[i] == b[i];
        i += 1;
    }
    ok
}

// ------------------------------------------------------------------------------------------------ spec functions (contracts as stubs)
/// contracts of g5 / g13 / g21: G_r of 6.1.2 (proved by c_g5, c_g13, c_g21)
pub fn spec_g5(u: Wrapping<u32>) -> Wrapping<u32> { Wrapping(spec::g(5, u.0)) }
pub fn spec_g13(u: Wrapping<u32>) -> Wrapping<u32> { Wrapping(spec::g(13, u.0)) }
pub fn spec_g21(u: Wrapping<u32>) -> Wrapping<u32> { Wrapping(spec::g(21, u.0)) }
/// contract of belt_block_raw: belt-block of 6.1.3 on words (proved by c_belt_block_raw)
pub fn spec_block_raw(x: [u32; 4], key: &[u32; 8]) -> [u32; 4] { spec::encrypt_words(x, key) }

/// Transcript oracle for G_5 / G_13 / G_21 (and, below, for the block function).
///
/// RECORD mode: a call (r, u) is answered by a fresh unconstrained value v and (r, u, v) is appended to the transcript.
/// REPLAY mode: the k-th call must ask exactly the question recorded at position k (forward) or N-1-k (backward)
/// -- this is ASSERTED -- and receives the recorded answer.
///
/// Why this proves statements about the real G: fix the true (pure) function G, a key and an input, and let the
/// first computation run with G; it asks q_1..q_N and is answered a_k = G(q_k).  The harness quantifies over ALL
/// answer sequences, in particular v_k = a_k, for which the recorded run is that very run.  In the replayed run the
/// k-th question is asserted to be q_pi(k), so the answer handed out, a_pi(k) = G(q_pi(k)), is what G answers to the
/// question actually asked: by induction on k the replayed run is the second computation run with the true G, and
/// whatever the harness asserts about its result holds for it.  (Fresh answers for repeated questions only add
/// behaviours.)  Compared to an Ackermann table this is linear in the number of calls and needs no search.
/// Licensed by c_g5 / c_g13 / c_g21: the three functions are G_r of the standard, pure functions of their argument.
pub mod tr {
    use super::*;
    pub const MAXC: usize = 176;
    // (mode flags are usize on purpose: with a `static mut MODE: u8` Kani 0.68 reported `InOutBuf::new(..).map(..)` as Err as
    // soon as MODE had been written with 1 -- a spurious aliasing of the u8 static with the 1-byte Result; see report)
    pub const RECORD: usize = 0;
    pub const FORWARD: usize = 1;
    pub const BACKWARD: usize = 2;
    pub static mut MODE: usize = RECORD;
    pub static mut R: [u32; MAXC] = [0; MAXC];
    pub static mut U: [u32; MAXC] = [0; MAXC];
    pub static mut V: [u32; MAXC] = [0; MAXC];
    pub static mut N: usize = 0; // recorded calls
    pub static mut P: usize = 0; // replayed calls
    pub fn replay(mode: usize) { unsafe { MODE = mode; P = 0; } }
    /// every recorded call has been replayed exactly once
    pub fn exhausted() -> bool { unsafe { P == N } }
    pub fn recorded() -> usize { unsafe { N } }
    #[allow(static_mut_refs)]
    pub fn g(r: u32, u: u32) -> u32 {
        unsafe {
            if MODE == RECORD {
                let v: u32 = kani::any();
                assert!(N < MAXC);
                R[N] = r; U[N] = u; V[N] = v; N += 1;
                v
            } else {
                assert!(P < N);
                let k = if MODE == FORWARD { P } else { N - 1 - P };
                assert!(R[k] == r);
                assert!(U[k] == u);
                P += 1;
                V[k]
            }
        }
    }
    pub fn g5(u: Wrapping<u32>) -> Wrapping<u32> { Wrapping(g(5, u.0)) }
    pub fn g13(u: Wrapping<u32>) -> Wrapping<u32> { Wrapping(g(13, u.0)) }
    pub fn g21(u: Wrapping<u32>) -> Wrapping<u32> { Wrapping(g(21, u.0)) }
}

/// The same transcript oracle for the block function x -> belt_block_raw(x, key) under the ONE key of the harness
/// (licensed by c_belt_block_raw: a pure function of (x, key)); used by the wide-block obligations.
pub mod trb {
    use super::*;
    pub const MAXC: usize = 16;
    pub static mut MODE: usize = tr::RECORD;
    pub static mut X: [[u32; 4]; MAXC] = [[0; 4]; MAXC];
    pub static mut Y: [[u32; 4]; MAXC] = [[0; 4]; MAXC];
    pub static mut N: usize = 0;
    pub static mut P: usize = 0;
    pub fn replay(mode: usize) { unsafe { MODE = mode; P = 0; } }
    pub fn exhausted() -> bool { unsafe { P == N } }
    pub fn recorded() -> usize { unsafe { N } }
    #[allow(static_mut_refs)]
    pub fn apply(x: [u32; 4]) -> [u32; 4] {
        unsafe {
            if MODE == tr::RECORD {
                let y: [u32; 4] = [kani::any(), kani::any(), kani::any(), kani::any()];
                assert!(N < MAXC);
                X[N] = x; Y[N] = y; N += 1;
                y
            } else {
                assert!(P < N);
                let k = if MODE == tr::FORWARD { P } else { N - 1 - P };
                assert!(eq4(&X[k], &x));
                P += 1;
                Y[k]
            }
        }
    }
    pub fn block(x: [u32; 4], _key: &[u32; 8]) -> [u32; 4] { apply(x) }
}

/// Uninterpreted block function [u32;4] -> [u32;4] standing for x -> belt_block_raw(x, key) under the ONE key of
/// the harness (licensed by c_belt_block_raw: a pure function of (x, key)).  Used where only the plumbing around
/// the block function is at stake: the wide-block algorithms and the multi-block calls.
pub mod ufb {
    use super::*;
    pub const MAXC: usize = 32;
    pub static mut X: [[u32; 4]; MAXC] = [[0; 4]; MAXC];
    pub static mut Y: [[u32; 4]; MAXC] = [[0; 4]; MAXC];
    pub static mut N: usize = 0;
    #[allow(static_mut_refs)]
    pub fn apply(x: [u32; 4]) -> [u32; 4] {
        unsafe {
            let mut y: [u32; 4] = [kani::any(), kani::any(), kani::any(), kani::any()];
            let mut found = false;
            let mut i = 0;
            while i < N {
                if !found && eq4(&X[i], &x) { y = Y[i]; found = true; }
                i += 1;
            }
            assert!(N < MAXC);
            X[N] = x; Y[N] = y; N += 1;
            y
        }
    }
    pub fn block(x: [u32; 4], _key: &[u32; 8]) -> [u32; 4] { apply(x) }

    /// the same keyed: an uninterpreted function of (x, key)
    pub static mut KK: [[u32; 8]; MAXC] = [[0; 8]; MAXC];
    pub static mut KX: [[u32; 4]; MAXC] = [[0; 4]; MAXC];
    pub static mut KY: [[u32; 4]; MAXC] = [[0; 4]; MAXC];
    pub static mut KN: usize = 0;
    #[allow(static_mut_refs)]
    pub fn block_keyed(x: [u32; 4], key: &[u32; 8]) -> [u32; 4] {
        unsafe {
            let mut y: [u32; 4] = [kani::any(), kani::any(), kani::any(), kani::any()];
            let mut found = false;
            let mut i = 0;
            while i < KN {
                if !found && eq4(&KX[i], &x) && eq8(&KK[i], key) { y = KY[i]; found = true; }
                i += 1;
            }
            assert!(KN < MAXC);
            KK[KN] = *key; KX[KN] = x; KY[KN] = y; KN += 1;
            y
        }
    }
}

// ------------------------------------------------------------------------------------------------ tables, G_r, key_idx
fn hh(b: usize) -> u32 { spec::H[b] as u32 }

// consts.rs: H5, H13, H21, H29 hold H(b) shifted into the position it has in RotHi^5 of a word whose octet
// 1, 2, 3, 4 (least significant first) is H(b).
// @ob name=x_tables props=C07,C20 kind=exhaustive fn=belt_block::consts::H5,belt_block::consts::H13,belt_block::consts::H21,belt_block::consts::H29 timeout=300
#[kani::proof]
#[kani::unwind(258)]
fn x_tables() {
    let mut b = 0usize;
    while b < 256 {
        assert!(H5[b] == hh(b).rotate_left(5));
        assert!(H13[b] == (hh(b) << 8).rotate_left(5));
        assert!(H21[b] == (hh(b) << 16).rotate_left(5));
        assert!(H29[b] == (hh(b) << 24).rotate_left(5));
        // the form quoted in the task statement
        assert!(H5[b] == hh(b) << 5 && H13[b] == hh(b) << 13 && H21[b] == hh(b) << 21);
        b += 1;
    }
}

// @ob name=c_g5 props=C07,C20 fn=belt_block::g5 timeout=300
#[kani::proof]
#[kani::unwind(6)]
fn c_g5() {
    let u: u32 = kani::any();
    assert!(g5(Wrapping(u)).0 == spec::g(5, u));
}
// @ob name=c_g13 props=C07,C20 fn=belt_block::g13 timeout=300
#[kani::proof]
#[kani::unwind(6)]
fn c_g13() {
    let u: u32 = kani::any();
    assert!(g13(Wrapping(u)).0 == spec::g(13, u));
}
// @ob name=c_g21 props=C07,C20 fn=belt_block::g21 timeout=300
#[kani::proof]
#[kani::unwind(6)]
fn c_g21() {
    let u: u32 = kani::any();
    assert!(g21(Wrapping(u)).0 == spec::g(21, u));
}

// key_idx(key, i, delta) is the standard's round key K[7i - delta], K_j = theta_{((j-1) mod 8) + 1}; no underflow
// or out-of-bounds index for the rounds i = 1..8 and offsets delta = 0..6 used by the two block functions.
// @ob name=c_key_idx props=C07,C20 fn=belt_block::key_idx timeout=300
#[kani::proof]
#[kani::unwind(10)]
fn c_key_idx() {
    let key: [u32; 8] = kani::any();
    let i: usize = kani::any();
    let delta: usize = kani::any();
    kani::assume(1 <= i && i <= 8 && delta <= 6);
    kani::cover!((i == 1) & (delta == 6));
    kani::cover!((i == 8) & (delta == 0));
    assert!(key_idx(&key, i, delta).0 == spec::round_key(&key, 7 * i - delta));
}

// ------------------------------------------------------------------------------------------------ byte / word helpers
// @ob name=c_to_u32 props=C07,C18,C20 fn=belt_block::to_u32 timeout=300
#[kani::proof]
#[kani::unwind(34)]
fn c_to_u32() {
    let b: [u8; 16] = kani::any();
    assert!(eq4(&to_u32::<4>(&b), &spec::words::<4>(&b)));
    let k: [u8; 32] = kani::any();
    assert!(eq8(&to_u32::<8>(&k), &spec::words::<8>(&k)));
}
// @ob name=c_from_u32 props=C07,C18,C20 fn=belt_block::from_u32,belt_block::to_u32 timeout=300
#[kani::proof]
#[kani::unwind(34)]
fn c_from_u32() {
    let w: [u32; 4] = kani::any();
    let b = from_u32::<16>(&w);
    assert!(eq_bytes(&b, &spec::octets16(&w)));
    // inverse pair, both orders
    assert!(eq4(&to_u32::<4>(&b), &w));
    let c: [u8; 16] = kani::any();
    assert!(eq_bytes(&from_u32::<16>(&to_u32::<4>(&c)), &c));
}

// xor / xor_set: position-wise XOR over the common prefix, the rest of `block` unchanged, `val` of any length.
// @ob name=c_xor props=C18,C20 kind=bounded bound="val.len() <= 24 (callers pass 16)" fn=belt_block::xor timeout=300
#[kani::proof]
#[kani::unwind(26)]
fn c_xor() {
    let block: [u8; 16] = kani::any();
    let buf: [u8; 24] = kani::any();
    let n: usize = kani::any();
    kani::assume(n <= 24);
    kani::cover!(n == 0);
    kani::cover!(n == 16);
    kani::cover!(n == 24);
    let r = xor(block, &buf[..n]);
    let mut j = 0;
    while j < 16 {
        assert!(r[j] == if j < n { block[j] ^ buf[j] } else { block[j] });
        j += 1;
    }
}
// @ob name=c_xor_set props=C18,C20 kind=bounded bound="block.len() <= 24, val.len() <= 24 (callers pass 16 and 16 or 8)" fn=belt_block::xor_set timeout=300
#[kani::proof]
#[kani::unwind(26)]
fn c_xor_set() {
    let b0: [u8; 24] = kani::any();
    let mut b = b0;
    let v: [u8; 24] = kani::any();
    let (m, n): (usize, usize) = (kani::any(), kani::any());
    kani::assume(m <= 24 && n <= 24);
    kani::cover!((m == 16) & (n == 8)); // `&`: a short-circuit `&&` makes Kani emit a second, unreachable copy of the cover
    kani::cover!((m == 16) & (n == 16));
    kani::cover!((m == 3) & (n == 24));
    xor_set(&mut b[..m], &v[..n]);
    let mut j = 0;
    while j < 24 {
        assert!(b[j] == if j < m && j < n { b0[j] ^ v[j] } else { b0[j] });
        j += 1;
    }
}

// ------------------------------------------------------------------------------------------------ belt_block_raw (6.1.3)
// For every key words and every block, over the contracts of g5/g13/g21: the real function's 56 G-calls are
// recorded, the reference (bcref::belt::g replaced by the replaying oracle) must ask the same 56 questions in the
// same order and produce the same result (see `tr`).
// @ob name=c_belt_block_raw props=C07,C20 fn=belt_block::belt_block_raw uses=c_g5,c_g13,c_g21,c_key_idx timeout=300
#[kani::proof]
#[kani::stub(g5, tr::g5)]
#[kani::stub(g13, tr::g13)]
#[kani::stub(g21, tr::g21)]
#[kani::stub(bcref::belt::g, tr::g)]
#[kani::unwind(10)]
fn c_belt_block_raw() {
    let key: [u32; 8] = kani::any();
    let x: [u32; 4] = kani::any();
    let y = belt_block_raw(x, &key);
    assert!(tr::recorded() == 56);
    tr::replay(tr::FORWARD);
    let z = spec::encrypt_words(x, &key);
    assert!(tr::exhausted());
    assert!(eq4(&y, &z));
}

// ------------------------------------------------------------------------------------------------ belt-wblock (6.2.3 / 6.2.4)
// belt_block_raw is abstracted to the transcript oracle `trb` (see `tr`), on the real side and in the reference
// (`wblock_*_with`), so the statements hold for every block function, in particular belt-block under every key:
//  * conformance: the real function's 2n block calls are recorded; the reference must ask the same questions in the
//    same order and produce the same buffer;
//  * round trips: the second direction must ask the first direction's questions in REVERSE order (both directions
//    use belt-block in the forward direction only) and restores the buffer.
fn tref_enc(d: &mut [u8]) -> bool { spec::wblock_enc_with(d, trb::apply) }
fn tref_dec(d: &mut [u8]) -> bool { spec::wblock_dec_with(d, trb::apply) }
macro_rules! wblock_tr {
    ($len:expr, $enc:ident, $dec:ident, $rt:ident, $rtrev:ident) => {
        #[kani::proof]
        #[kani::stub(belt_block_raw, trb::block)]
        #[kani::unwind(70)]
        fn $enc() {
            let key: [u32; 8] = kani::any();
            let d0: [u8; $len] = kani::any();
            let (mut d, mut e) = (d0, d0);
            assert!(belt_wblock_enc(&mut d, &key).is_ok());
            assert!(trb::recorded() == 2 * (($len + 15) / 16));
            trb::replay(tr::FORWARD);
            assert!(tref_enc(&mut e));
            assert!(trb::exhausted());
            assert!(eq_bytes(&d, &e));
        }
        #[kani::proof]
        #[kani::stub(belt_block_raw, trb::block)]
        #[kani::unwind(70)]
        fn $dec() {
            let key: [u32; 8] = kani::any();
            let d0: [u8; $len] = kani::any();
            let (mut d, mut e) = (d0, d0);
            assert!(belt_wblock_dec(&mut d, &key).is_ok());
            assert!(trb::recorded() == 2 * (($len + 15) / 16));
            trb::replay(tr::FORWARD);
            assert!(tref_dec(&mut e));
            assert!(trb::exhausted());
            assert!(eq_bytes(&d, &e));
        }
        #[kani::proof]
        #[kani::stub(belt_block_raw, trb::block)]
        #[kani::unwind(70)]
        fn $rt() {
            let key: [u32; 8] = kani::any();
            let d0: [u8; $len] = kani::any();
            let mut d = d0;
            assert!(belt_wblock_enc(&mut d, &key).is_ok());
            trb::replay(tr::BACKWARD);
            assert!(belt_wblock_dec(&mut d, &key).is_ok());
            assert!(trb::exhausted());
            assert!(eq_bytes(&d, &d0));
        }
        #[kani::proof]
        #[kani::stub(belt_block_raw, trb::block)]
        #[kani::unwind(70)]
        fn $rtrev() {
            let key: [u32; 8] = kani::any();
            let d0: [u8; $len] = kani::any();
            let mut d = d0;
            assert!(belt_wblock_dec(&mut d, &key).is_ok());
            trb::replay(tr::BACKWARD);
            assert!(belt_wblock_enc(&mut d, &key).is_ok());
            assert!(trb::exhausted());
            assert!(eq_bytes(&d, &d0));
        }
    };
}
// @ob name=w_enc_32 props=C18,C20 kind=bounded bound="input length 32 bytes" fn=belt_block::belt_wblock_enc,belt_block::xor,belt_block::xor_set uses=c_belt_block_raw timeout=900
// @ob name=w_dec_32 props=C18,C20 kind=bounded bound="input length 32 bytes" fn=belt_block::belt_wblock_dec,belt_block::xor,belt_block::xor_set uses=c_belt_block_raw timeout=900
// @ob name=w_rt_32 props=C01,C18,C20 kind=bounded bound="input length 32 bytes" fn=belt_block::belt_wblock_enc,belt_block::belt_wblock_dec uses=c_belt_block_raw timeout=900
// @ob name=w_rtrev_32 props=C01,C18,C20 kind=bounded bound="input length 32 bytes" fn=belt_block::belt_wblock_enc,belt_block::belt_wblock_dec uses=c_belt_block_raw timeout=900
wblock_tr!(32, w_enc_32, w_dec_32, w_rt_32, w_rtrev_32);
// @ob name=w_enc_33 props=C18,C20 kind=bounded bound="input length 33 bytes" fn=belt_block::belt_wblock_enc,belt_block::xor,belt_block::xor_set uses=c_belt_block_raw timeout=900
// @ob name=w_dec_33 props=C18,C20 kind=bounded bound="input length 33 bytes" fn=belt_block::belt_wblock_dec,belt_block::xor,belt_block::xor_set uses=c_belt_block_raw timeout=900
// @ob name=w_rt_33 props=C01,C18,C20 kind=bounded bound="input length 33 bytes" fn=belt_block::belt_wblock_enc,belt_block::belt_wblock_dec uses=c_belt_block_raw timeout=900
// @ob name=w_rtrev_33 props=C01,C18,C20 kind=bounded bound="input length 33 bytes" fn=belt_block::belt_wblock_enc,belt_block::belt_wblock_dec uses=c_belt_block_raw timeout=900
wblock_tr!(33, w_enc_33, w_dec_33, w_rt_33, w_rtrev_33);
// @ob name=w_enc_47 props=C18,C20 kind=bounded bound="input length 47 bytes" fn=belt_block::belt_wblock_enc,belt_block::xor,belt_block::xor_set uses=c_belt_block_raw timeout=900
// @ob name=w_dec_47 props=C18,C20 kind=bounded bound="input length 47 bytes" fn=belt_block::belt_wblock_dec,belt_block::xor,belt_block::xor_set uses=c_belt_block_raw timeout=900
// @ob name=w_rt_47 props=C01,C18,C20 kind=bounded bound="input length 47 bytes" fn=belt_block::belt_wblock_enc,belt_block::belt_wblock_dec uses=c_belt_block_raw timeout=900
// @ob name=w_rtrev_47 props=C01,C18,C20 kind=bounded bound="input length 47 bytes" fn=belt_block::belt_wblock_enc,belt_block::belt_wblock_dec uses=c_belt_block_raw timeout=900
wblock_tr!(47, w_enc_47, w_dec_47, w_rt_47, w_rtrev_47);
// @ob name=w_enc_48 props=C18,C20 kind=bounded bound="input length 48 bytes" fn=belt_block::belt_wblock_enc,belt_block::xor,belt_block::xor_set uses=c_belt_block_raw timeout=900
// @ob name=w_dec_48 props=C18,C20 kind=bounded bound="input length 48 bytes" fn=belt_block::belt_wblock_dec,belt_block::xor,belt_block::xor_set uses=c_belt_block_raw timeout=900
// @ob name=w_rt_48 props=C01,C18,C20 kind=bounded bound="input length 48 bytes" fn=belt_block::belt_wblock_enc,belt_block::belt_wblock_dec uses=c_belt_block_raw timeout=900
// @ob name=w_rtrev_48 props=C01,C18,C20 kind=bounded bound="input length 48 bytes" fn=belt_block::belt_wblock_enc,belt_block::belt_wblock_dec uses=c_belt_block_raw timeout=900
wblock_tr!(48, w_enc_48, w_dec_48, w_rt_48, w_rtrev_48);

// Every length below 32: both calls return the length error and leave the buffer as it was.  Complete: the loop
// enumerates all 32 lengths n = 0..=31 (concrete, so each call is decided by the length test alone) and the buffer
// contents and key are symbolic.  belt_block_raw is replaced by a function that fails when reached: the block
// function is never invoked on short input.
fn never_block(x: [u32; 4], _key: &[u32; 8]) -> [u32; 4] {
    assert!(false);
    x
}
// @ob name=w_short props=C18,C20 fn=belt_block::belt_wblock_enc,belt_block::belt_wblock_dec timeout=600
#[kani::proof]
#[kani::stub(belt_block_raw, never_block)]
#[kani::unwind(34)]
fn w_short() {
    let key: [u32; 8] = kani::any();
    let arr: [u8; 31] = kani::any();
    let mut n = 0usize;
    while n <= 31 {
        let mut d = arr;
        assert!(belt_wblock_enc(&mut d[..n], &key).is_err());
        assert!(eq_bytes(&d, &arr));
        assert!(belt_wblock_dec(&mut d[..n], &key).is_err());
        assert!(eq_bytes(&d, &arr));
        n += 1;
    }
}
