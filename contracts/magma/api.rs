// Contracts on magma/src/lib.rs: the keyed cipher Gost89<S> for the six bundled S-box sets (Magma = Gost89<Tc26>,
// Gost89Test, Gost89CryptoProA..D) and for a user-supplied set (Gost89<UserS>, UserS implemented against the public
// `Sbox` trait in sboxes.rs of this directory), plus the "every table" form over a symbolic table.
//
// Conformance (C07, C20): the block functions are proved against the CONTRACT of their only callee into the S-box
// layer, `SboxExt::g` (replaced by its spec function `SpecExt::sp_g` = bcref g[k] over S::SBOX, licensed by
// sboxes.rs c_<set>_gfun), for EVERY value of the eight key words (struct built directly) and every block; then
// through `KeyInit::new` on bytes.  Monolithic variants without any stub are kept next to them.
// C01: g replaced by an uninterpreted function u32 x u32 -> u32 (licensed by c_<set>_gfun: g is a pure function):
// the Feistel network inverts for any g, hence for any table.
// API level: C04/C15 multi-block, C11 key length, C12 clone, C13 weak keys, C16 zeroize, C19 names.
//
// @module file=magma/src/lib.rs
// @config name=zeroize features=zeroize
use super::*;
use crate::sboxes::__vp_sboxes::{any_table, user_table, SpecExt, SymExt, UserS};
use crate::sboxes::{CryptoProA, CryptoProB, CryptoProC, CryptoProD, TestSbox, Tc26};
use bcref::magma as r;
use cipher::{Array, KeyInit};
include!("@VERIF@/contracts/_common/common.rs");

/// GOST 28147-89 over the user-supplied set (no alias exists in the crate: this is what a downstream user writes).
type Gost89User = Gost89<UserS>;

/// every state: the eight key words unconstrained
pub fn any_c<S: Sbox>() -> Gost89<S> { Gost89 { key: kani::any(), _p: PhantomData } }

pub fn eq8(a: &[u32; 8], b: &[u32; 8]) -> bool {
    let mut ok = true;
    let mut i = 0;
    while i < 8 {
        ok &= a[i] == b[i];
        i += 1;
    }
    ok
}
fn be64(b: &[u8; 8]) -> u64 {
    let mut x = 0u64;
    let mut i = 0;
    while i < 8 {
        x = (x << 8) | b[i] as u64;
        i += 1;
    }
    x
}

/// Uninterpreted function u32 x u32 -> u32 standing for "g is some pure function of (a, k)" (Ackermann table with a
/// concrete call counter; pattern of _common `uf` / des `ufp`).
pub mod ufg {
    pub const MAXC: usize = 64; // <= CBMC's field-sensitivity limit for arrays (64): larger tables fall back to array theory and explode
    pub static mut A: [u32; MAXC] = [0; MAXC];
    pub static mut K: [u32; MAXC] = [0; MAXC];
    pub static mut Y: [u32; MAXC] = [0; MAXC];
    pub static mut N: usize = 0;
    #[allow(static_mut_refs)]
    pub fn call(a: u32, k: u32) -> u32 {
        unsafe {
            // explicit Ackermann constraints: the result is fresh, and agrees with every recorded call on equal arguments
            // (satisfiable by induction: recorded calls are pairwise consistent).  Much easier for the SAT solver than a
            // first-match chain, because the instance needed (dec round j against enc round 31-j) is directly available.
            let y: u32 = kani::any();
            let mut i = 0;
            while i < N {
                kani::assume(!(A[i] == a && K[i] == k) || Y[i] == y);
                i += 1;
            }
            assert!(N < MAXC);
            A[N] = a; K[N] = k; Y[N] = y; N += 1;
            y
        }
    }
}
pub trait UfExt: Sbox {
    fn uf_g(a: u32, k: u32) -> u32 { ufg::call(a, k) }
}
impl<T: Sbox> UfExt for T {}

macro_rules! conformance {
    ($kw:ident, $enc:ident, $dec:ident, $aenc:ident, $adec:ident, $ty:ty, $pi:expr) => {
        // 5.3: K_1..K_8 are the eight big-endian words of the key (K_9..K_32 are an order of use, see enc/dec)
        #[kani::proof]
        #[kani::unwind(33)]
        fn $kw() {
            let k: [u8; 32] = kani::any();
            let c = <$ty>::new(&Array(k));
            assert!(eq8(&c.key, &r::key_words(&k)));
        }
        // 5.4 for every state
        #[kani::proof]
        #[kani::stub(crate::sboxes::SboxExt::g, crate::sboxes::__vp_sboxes::SpecExt::sp_g)]
        #[kani::unwind(33)]
        fn $enc() {
            let c: $ty = any_c();
            let b: [u8; 8] = kani::any();
            let pi: r::Pi = $pi;
            let mut blk = Array(b);
            cipher::BlockCipherEncrypt::encrypt_block(&c, &mut blk);
            assert!(be64(&blk.0) == r::encrypt_words(&pi, &c.key, be64(&b)));
        }
        // 5.5 for every state
        #[kani::proof]
        #[kani::stub(crate::sboxes::SboxExt::g, crate::sboxes::__vp_sboxes::SpecExt::sp_g)]
        #[kani::unwind(33)]
        fn $dec() {
            let c: $ty = any_c();
            let b: [u8; 8] = kani::any();
            let pi: r::Pi = $pi;
            let mut blk = Array(b);
            cipher::BlockCipherDecrypt::decrypt_block(&c, &mut blk);
            assert!(be64(&blk.0) == r::decrypt_words(&pi, &c.key, be64(&b)));
        }
        // public API on bytes, every key and block
        #[kani::proof]
        #[kani::stub(crate::sboxes::SboxExt::g, crate::sboxes::__vp_sboxes::SpecExt::sp_g)]
        #[kani::unwind(33)]
        fn $aenc() {
            let k: [u8; 32] = kani::any();
            let b: [u8; 8] = kani::any();
            let pi: r::Pi = $pi;
            let c = <$ty>::new(&Array(k));
            let mut blk = Array(b);
            cipher::BlockCipherEncrypt::encrypt_block(&c, &mut blk);
            let e = r::encrypt_bytes(&pi, &k, &b);
            let mut i = 0;
            while i < 8 {
                assert!(blk.0[i] == e[i]);
                i += 1;
            }
        }
        #[kani::proof]
        #[kani::stub(crate::sboxes::SboxExt::g, crate::sboxes::__vp_sboxes::SpecExt::sp_g)]
        #[kani::unwind(33)]
        fn $adec() {
            let k: [u8; 32] = kani::any();
            let b: [u8; 8] = kani::any();
            let pi: r::Pi = $pi;
            let c = <$ty>::new(&Array(k));
            let mut blk = Array(b);
            cipher::BlockCipherDecrypt::decrypt_block(&c, &mut blk);
            let e = r::decrypt_bytes(&pi, &k, &b);
            let mut i = 0;
            while i < 8 {
                assert!(blk.0[i] == e[i]);
                i += 1;
            }
        }
    };
}

// C01 in both orders (one harness per order: 64 calls of g each), for every state, g uninterpreted
macro_rules! roundtrip {
    ($ed:ident, $de:ident, $ty:ty) => {
        #[kani::proof]
        #[kani::stub(crate::sboxes::SboxExt::g, UfExt::uf_g)]
        #[kani::unwind(66)]
        fn $ed() {
            let c: $ty = any_c();
            let b: [u8; 8] = kani::any();
            let mut blk = Array(b);
            cipher::BlockCipherEncrypt::encrypt_block(&c, &mut blk);
            kani::cover!(blk.0[0] != b[0] && blk.0[7] == b[7]); // the Ackermann assumptions are not vacuous
            cipher::BlockCipherDecrypt::decrypt_block(&c, &mut blk);
            kani::cover!();
            let mut i = 0;
            while i < 8 {
                assert!(blk.0[i] == b[i]);
                i += 1;
            }
        }
        #[kani::proof]
        #[kani::stub(crate::sboxes::SboxExt::g, UfExt::uf_g)]
        #[kani::unwind(66)]
        fn $de() {
            let c: $ty = any_c();
            let b: [u8; 8] = kani::any();
            let mut blk = Array(b);
            cipher::BlockCipherDecrypt::decrypt_block(&c, &mut blk);
            kani::cover!(blk.0[0] != b[0] && blk.0[7] == b[7]); // the Ackermann assumptions are not vacuous
            cipher::BlockCipherEncrypt::encrypt_block(&c, &mut blk);
            kani::cover!();
            let mut i = 0;
            while i < 8 {
                assert!(blk.0[i] == b[i]);
                i += 1;
            }
        }
    };
}

// C04 / C15: in-place and buffer-to-buffer calls on n blocks are the single-block call on each block, in both
// directions; b2b inputs and the guard blocks around the output are untouched; the cipher state is unchanged.
// What is under test is the plumbing (encrypt_with_backend / decrypt_with_backend handing `self` to the cipher
// crate's block drivers, which are generic in S and never look inside g).  To keep 18 block evaluations cheap, g is
// replaced by the trivial pure function (a, k) -> a ^ k: the block function stays a key-dependent bijection of the
// block, so any mix-up of positions, a skipped or doubly processed block or a write outside the output is still
// detected.  (Kani 0.68 cannot stub a method of a generic impl such as `<Gost89<Tc26> as BlockCipherEncBackend>::encrypt_block`
// - "unable to find implementation ... for Gost89<S>" - so the block function itself cannot be made uninterpreted as
// in des/api.rs, and an Ackermann table for 576 calls of g is out of reach.)
pub trait CheapExt: Sbox {
    fn cheap_g(a: u32, k: u32) -> u32 { a ^ k }
}
impl<T: Sbox> CheapExt for T {}
macro_rules! multi_block {
    ($name:ident, $ty:ty, $n:expr) => {
        #[kani::proof]
        #[kani::stub(crate::sboxes::SboxExt::g, CheapExt::cheap_g)]
        #[kani::unwind(33)]
        fn $name() {
            let c: $ty = any_c();
            let before = c.key;
            let inp: [[u8; 8]; $n] = kani::any();
            let mut se = [[0u8; 8]; $n];
            let mut sd = [[0u8; 8]; $n];
            let mut i = 0;
            while i < $n {
                let mut b = Array(inp[i]);
                cipher::BlockCipherEncrypt::encrypt_block(&c, &mut b);
                se[i] = b.0;
                let mut b = Array(inp[i]);
                cipher::BlockCipherDecrypt::decrypt_block(&c, &mut b);
                sd[i] = b.0;
                i += 1;
            }
            // in place
            let mut blocks = [Array([0u8; 8]); $n];
            let mut i = 0;
            while i < $n { blocks[i] = Array(inp[i]); i += 1; }
            cipher::BlockCipherEncrypt::encrypt_blocks(&c, &mut blocks);
            let mut i = 0;
            while i < $n { assert!(blocks[i].0 == se[i]); i += 1; }
            let mut i = 0;
            while i < $n { blocks[i] = Array(inp[i]); i += 1; }
            cipher::BlockCipherDecrypt::decrypt_blocks(&c, &mut blocks);
            let mut i = 0;
            while i < $n { assert!(blocks[i].0 == sd[i]); i += 1; }
            // buffer to buffer, guard blocks around the output
            let mut src = [Array([0u8; 8]); $n];
            let mut i = 0;
            while i < $n { src[i] = Array(inp[i]); i += 1; }
            let g: [u8; 8] = kani::any();
            let mut dst = [Array(g); $n + 2];
            cipher::BlockCipherEncrypt::encrypt_blocks_b2b(&c, &src, &mut dst[1..$n + 1]).unwrap();
            assert!(dst[0].0 == g && dst[$n + 1].0 == g);
            let mut i = 0;
            while i < $n { assert!(dst[i + 1].0 == se[i] && src[i].0 == inp[i]); i += 1; }
            let mut dst = [Array(g); $n + 2];
            cipher::BlockCipherDecrypt::decrypt_blocks_b2b(&c, &src, &mut dst[1..$n + 1]).unwrap();
            assert!(dst[0].0 == g && dst[$n + 1].0 == g);
            let mut i = 0;
            while i < $n { assert!(dst[i + 1].0 == sd[i] && src[i].0 == inp[i]); i += 1; }
            // length mismatch is an error, not a panic, and writes nothing
            let mut short = [Array(g); $n + 1];
            assert!(cipher::BlockCipherEncrypt::encrypt_blocks_b2b(&c, &src, &mut short).is_err());
            assert!(cipher::BlockCipherDecrypt::decrypt_blocks_b2b(&c, &src, &mut short).is_err());
            assert!(short[0].0 == g && short[$n].0 == g);
            assert!(eq8(&before, &c.key));
        }
    };
}

// C11: exactly 32 bytes
macro_rules! keylen {
    ($name:ident, $ty:ty) => {
        #[kani::proof]
        #[kani::unwind(33)]
        fn $name() {
            let buf: [u8; 301] = kani::any();
            let n: usize = kani::any();
            kani::assume(n <= 300);
            kani::cover!(n == 32);
            kani::cover!(n == 0);
            kani::cover!(n == 300);
            let r = <$ty>::new_from_slice(&buf[..n]);
            assert!(r.is_ok() == (n == 32));
        }
    };
}
// C11 / C12: fixed-size key and the same bytes as a slice give the same state; so does a clone
macro_rules! slice_same {
    ($name:ident, $ty:ty) => {
        #[kani::proof]
        #[kani::unwind(33)]
        fn $name() {
            let k: [u8; 32] = kani::any();
            let a = <$ty>::new(&Array(k));
            let b = <$ty>::new_from_slice(&k[..]).unwrap();
            assert!(eq8(&a.key, &b.key));
            let c = a.clone();
            assert!(eq8(&a.key, &c.key));
            let s: $ty = any_c();
            let t = s.clone();
            assert!(eq8(&s.key, &t.key));
        }
    };
}
// C13: no key is weak; the checked constructor never fails and gives the same cipher
macro_rules! never_weak {
    ($name:ident, $ty:ty) => {
        #[kani::proof]
        #[kani::unwind(33)]
        fn $name() {
            let k: [u8; 32] = kani::any();
            assert!(<$ty>::weak_key_test(&Array(k)).is_ok());
            match <$ty>::new_checked(&Array(k)) {
                Ok(c) => assert!(eq8(&c.key, &<$ty>::new(&Array(k)).key)),
                Err(_) => assert!(false),
            }
        }
    };
}
// C19: Debug text identical for all keys, exactly "<type> { ... }" where <type> is the exported name of the instance's
// type (the alias `Magma` for Gost89<Tc26>, otherwise the generic type with its parameter, `Gost89<TestSbox>` ...);
// AlgorithmName writes the same type text, which identifies algorithm and S-box set.
macro_rules! names {
    ($name:ident, $ty:ty, $dbg:expr, $alg:expr, $head:expr) => {
        #[kani::proof]
        #[kani::unwind(100)]
        fn $name() {
            let a: $ty = any_c();
            let b: $ty = any_c();
            let (ta, tb) = (debug_text(&a), debug_text(&b));
            assert!(ta.same(&tb));
            assert!(ta.is($dbg));
            assert!(ta.names($head));
            let n = alg_name_text::<$ty>();
            assert!(n.is($alg));
            assert!(n.names($head));
        }
    };
}
// C16: all 32 bytes of the instance are zero after drop (feature zeroize)
macro_rules! zero_on_drop {
    ($name:ident, $ty:ty, $mk:expr) => {
        #[kani::proof]
        #[kani::unwind(100)]
        fn $name() {
            let mut m = core::mem::ManuallyDrop::new($mk);
            let p: *const $ty = &*m;
            assert!(core::mem::size_of::<$ty>() == 32);
            unsafe { core::mem::ManuallyDrop::drop(&mut m); }
            assert!(unsafe { all_bytes_zero(p) });
        }
    };
}

// ---------------------------------------------------------------- Magma = Gost89<Tc26>
// @ob name=c_magma_keywords props=C07,C20 fn=magma::Magma::new timeout=300
// @ob name=c_magma_enc_state props=C07,C20 fn=magma::Magma::encrypt_block uses=c_tc26_gfun timeout=300
// @ob name=c_magma_dec_state props=C07,C20 fn=magma::Magma::decrypt_block uses=c_tc26_gfun timeout=300
// @ob name=c_magma_api_enc props=C07,C20 fn=magma::Magma::new,magma::Magma::encrypt_block,magma::Magma::encrypt_with_backend uses=c_tc26_gfun timeout=300
// @ob name=c_magma_api_dec props=C07,C20 fn=magma::Magma::new,magma::Magma::decrypt_block,magma::Magma::decrypt_with_backend uses=c_tc26_gfun timeout=300
conformance!(c_magma_keywords, c_magma_enc_state, c_magma_dec_state, c_magma_api_enc, c_magma_api_dec, Magma, r::PI_TC26);
// @ob name=l_magma_rt_encdec props=C01 kind=lemma fn=magma::Magma::encrypt_block,magma::Magma::decrypt_block uses=c_tc26_gfun timeout=600
// @ob name=l_magma_rt_decenc props=C01 kind=lemma fn=magma::Magma::encrypt_block,magma::Magma::decrypt_block uses=c_tc26_gfun timeout=600
roundtrip!(l_magma_rt_encdec, l_magma_rt_decenc, Magma);
// @ob name=m_magma_blocks_0 props=C04,C15 kind=bounded bound="n = 0 block(s)" fn=magma::Magma::encrypt_with_backend,magma::Magma::decrypt_with_backend note="g abstracted to a^k (plumbing only; the real block functions are c_magma_enc_state / c_magma_dec_state)" timeout=600
multi_block!(m_magma_blocks_0, Magma, 0);
// @ob name=m_magma_blocks_1 props=C04,C15 kind=bounded bound="n = 1 block(s)" fn=magma::Magma::encrypt_with_backend,magma::Magma::decrypt_with_backend note="g abstracted to a^k (plumbing only; the real block functions are c_magma_enc_state / c_magma_dec_state)" timeout=600
multi_block!(m_magma_blocks_1, Magma, 1);
// @ob name=m_magma_blocks_3 props=C04,C15 kind=bounded bound="n = 3 block(s)" fn=magma::Magma::encrypt_with_backend,magma::Magma::decrypt_with_backend note="g abstracted to a^k (plumbing only; the real block functions are c_magma_enc_state / c_magma_dec_state)" timeout=600
multi_block!(m_magma_blocks_3, Magma, 3);
// @ob name=k_magma_keylen props=C11 kind=bounded bound="slice length <= 300" fn=magma::Magma::new_from_slice timeout=300
keylen!(k_magma_keylen, Magma);
// @ob name=k_magma_same props=C11,C12 fn=magma::Magma::new_from_slice,magma::Magma::new,magma::Magma::clone timeout=300
slice_same!(k_magma_same, Magma);
// @ob name=w_magma_weak props=C13 fn=magma::Magma::weak_key_test,magma::Magma::new_checked timeout=300
never_weak!(w_magma_weak, Magma);
// @ob name=n_magma_names props=C19 fn=magma::Magma::fmt,magma::Magma::write_alg_name timeout=300
names!(n_magma_names, Magma, "Magma { ... }", "Magma", "Magma");
// @ob name=z_magma_drop props=C16 cfg=zeroize fn=magma::Magma::drop timeout=300
zero_on_drop!(z_magma_drop, Magma, any_c::<Tc26>());
// @ob name=z_magma_clone_drop props=C16 cfg=zeroize fn=magma::Magma::drop,magma::Magma::clone timeout=300
zero_on_drop!(z_magma_clone_drop, Magma, any_c::<Tc26>().clone());

// ---------------------------------------------------------------- Gost89Test = Gost89<TestSbox>
// @ob name=c_gtest_keywords props=C07,C20 fn=magma::Gost89Test::new timeout=300
// @ob name=c_gtest_enc_state props=C07,C20 fn=magma::Gost89Test::encrypt_block uses=c_test_gfun timeout=300
// @ob name=c_gtest_dec_state props=C07,C20 fn=magma::Gost89Test::decrypt_block uses=c_test_gfun timeout=300
// @ob name=c_gtest_api_enc props=C07,C20 fn=magma::Gost89Test::new,magma::Gost89Test::encrypt_block,magma::Gost89Test::encrypt_with_backend uses=c_test_gfun timeout=300
// @ob name=c_gtest_api_dec props=C07,C20 fn=magma::Gost89Test::new,magma::Gost89Test::decrypt_block,magma::Gost89Test::decrypt_with_backend uses=c_test_gfun timeout=300
conformance!(c_gtest_keywords, c_gtest_enc_state, c_gtest_dec_state, c_gtest_api_enc, c_gtest_api_dec, Gost89Test, r::PI_TEST);
// @ob name=l_gtest_rt_encdec props=C01 kind=lemma fn=magma::Gost89Test::encrypt_block,magma::Gost89Test::decrypt_block uses=c_test_gfun timeout=600
// @ob name=l_gtest_rt_decenc props=C01 kind=lemma fn=magma::Gost89Test::encrypt_block,magma::Gost89Test::decrypt_block uses=c_test_gfun timeout=600
roundtrip!(l_gtest_rt_encdec, l_gtest_rt_decenc, Gost89Test);
// @ob name=m_gtest_blocks_0 props=C04,C15 kind=bounded bound="n = 0 block(s)" fn=magma::Gost89Test::encrypt_with_backend,magma::Gost89Test::decrypt_with_backend note="g abstracted to a^k (plumbing only; the real block functions are c_gtest_enc_state / c_gtest_dec_state)" timeout=600
multi_block!(m_gtest_blocks_0, Gost89Test, 0);
// @ob name=m_gtest_blocks_1 props=C04,C15 kind=bounded bound="n = 1 block(s)" fn=magma::Gost89Test::encrypt_with_backend,magma::Gost89Test::decrypt_with_backend note="g abstracted to a^k (plumbing only; the real block functions are c_gtest_enc_state / c_gtest_dec_state)" timeout=600
multi_block!(m_gtest_blocks_1, Gost89Test, 1);
// @ob name=m_gtest_blocks_3 props=C04,C15 kind=bounded bound="n = 3 block(s)" fn=magma::Gost89Test::encrypt_with_backend,magma::Gost89Test::decrypt_with_backend note="g abstracted to a^k (plumbing only; the real block functions are c_gtest_enc_state / c_gtest_dec_state)" timeout=600
multi_block!(m_gtest_blocks_3, Gost89Test, 3);
// @ob name=k_gtest_keylen props=C11 kind=bounded bound="slice length <= 300" fn=magma::Gost89Test::new_from_slice timeout=300
keylen!(k_gtest_keylen, Gost89Test);
// @ob name=k_gtest_same props=C11,C12 fn=magma::Gost89Test::new_from_slice,magma::Gost89Test::new,magma::Gost89Test::clone timeout=300
slice_same!(k_gtest_same, Gost89Test);
// @ob name=w_gtest_weak props=C13 fn=magma::Gost89Test::weak_key_test,magma::Gost89Test::new_checked timeout=300
never_weak!(w_gtest_weak, Gost89Test);
// @ob name=n_gtest_names props=C19 fn=magma::Gost89Test::fmt,magma::Gost89Test::write_alg_name timeout=300
names!(n_gtest_names, Gost89Test, "Gost89<TestSbox> { ... }", "Gost89<TestSbox>", "Gost89");
// @ob name=z_gtest_drop props=C16 cfg=zeroize fn=magma::Gost89Test::drop timeout=300
zero_on_drop!(z_gtest_drop, Gost89Test, any_c::<TestSbox>());
// @ob name=z_gtest_clone_drop props=C16 cfg=zeroize fn=magma::Gost89Test::drop,magma::Gost89Test::clone timeout=300
zero_on_drop!(z_gtest_clone_drop, Gost89Test, any_c::<TestSbox>().clone());

// ---------------------------------------------------------------- Gost89CryptoProA = Gost89<CryptoProA>
// @ob name=c_cpa_keywords props=C07,C20 fn=magma::Gost89CryptoProA::new timeout=300
// @ob name=c_cpa_enc_state props=C07,C20 fn=magma::Gost89CryptoProA::encrypt_block uses=c_cpa_gfun timeout=300
// @ob name=c_cpa_dec_state props=C07,C20 fn=magma::Gost89CryptoProA::decrypt_block uses=c_cpa_gfun timeout=300
// @ob name=c_cpa_api_enc props=C07,C20 fn=magma::Gost89CryptoProA::new,magma::Gost89CryptoProA::encrypt_block,magma::Gost89CryptoProA::encrypt_with_backend uses=c_cpa_gfun timeout=300
// @ob name=c_cpa_api_dec props=C07,C20 fn=magma::Gost89CryptoProA::new,magma::Gost89CryptoProA::decrypt_block,magma::Gost89CryptoProA::decrypt_with_backend uses=c_cpa_gfun timeout=300
conformance!(c_cpa_keywords, c_cpa_enc_state, c_cpa_dec_state, c_cpa_api_enc, c_cpa_api_dec, Gost89CryptoProA, r::PI_CRYPTOPRO_A);
// @ob name=l_cpa_rt_encdec props=C01 kind=lemma fn=magma::Gost89CryptoProA::encrypt_block,magma::Gost89CryptoProA::decrypt_block uses=c_cpa_gfun timeout=600
// @ob name=l_cpa_rt_decenc props=C01 kind=lemma fn=magma::Gost89CryptoProA::encrypt_block,magma::Gost89CryptoProA::decrypt_block uses=c_cpa_gfun timeout=600
roundtrip!(l_cpa_rt_encdec, l_cpa_rt_decenc, Gost89CryptoProA);
// @ob name=m_cpa_blocks_0 props=C04,C15 kind=bounded bound="n = 0 block(s)" fn=magma::Gost89CryptoProA::encrypt_with_backend,magma::Gost89CryptoProA::decrypt_with_backend note="g abstracted to a^k (plumbing only; the real block functions are c_cpa_enc_state / c_cpa_dec_state)" timeout=600
multi_block!(m_cpa_blocks_0, Gost89CryptoProA, 0);
// @ob name=m_cpa_blocks_1 props=C04,C15 kind=bounded bound="n = 1 block(s)" fn=magma::Gost89CryptoProA::encrypt_with_backend,magma::Gost89CryptoProA::decrypt_with_backend note="g abstracted to a^k (plumbing only; the real block functions are c_cpa_enc_state / c_cpa_dec_state)" timeout=600
multi_block!(m_cpa_blocks_1, Gost89CryptoProA, 1);
// @ob name=m_cpa_blocks_3 props=C04,C15 kind=bounded bound="n = 3 block(s)" fn=magma::Gost89CryptoProA::encrypt_with_backend,magma::Gost89CryptoProA::decrypt_with_backend note="g abstracted to a^k (plumbing only; the real block functions are c_cpa_enc_state / c_cpa_dec_state)" timeout=600
multi_block!(m_cpa_blocks_3, Gost89CryptoProA, 3);
// @ob name=k_cpa_keylen props=C11 kind=bounded bound="slice length <= 300" fn=magma::Gost89CryptoProA::new_from_slice timeout=300
keylen!(k_cpa_keylen, Gost89CryptoProA);
// @ob name=k_cpa_same props=C11,C12 fn=magma::Gost89CryptoProA::new_from_slice,magma::Gost89CryptoProA::new,magma::Gost89CryptoProA::clone timeout=300
slice_same!(k_cpa_same, Gost89CryptoProA);
// @ob name=w_cpa_weak props=C13 fn=magma::Gost89CryptoProA::weak_key_test,magma::Gost89CryptoProA::new_checked timeout=300
never_weak!(w_cpa_weak, Gost89CryptoProA);
// @ob name=n_cpa_names props=C19 fn=magma::Gost89CryptoProA::fmt,magma::Gost89CryptoProA::write_alg_name timeout=300
names!(n_cpa_names, Gost89CryptoProA, "Gost89<CryptoProA> { ... }", "Gost89<CryptoProA>", "Gost89");
// @ob name=z_cpa_drop props=C16 cfg=zeroize fn=magma::Gost89CryptoProA::drop timeout=300
zero_on_drop!(z_cpa_drop, Gost89CryptoProA, any_c::<CryptoProA>());
// @ob name=z_cpa_clone_drop props=C16 cfg=zeroize fn=magma::Gost89CryptoProA::drop,magma::Gost89CryptoProA::clone timeout=300
zero_on_drop!(z_cpa_clone_drop, Gost89CryptoProA, any_c::<CryptoProA>().clone());

// ---------------------------------------------------------------- Gost89CryptoProB = Gost89<CryptoProB>
// @ob name=c_cpb_keywords props=C07,C20 fn=magma::Gost89CryptoProB::new timeout=300
// @ob name=c_cpb_enc_state props=C07,C20 fn=magma::Gost89CryptoProB::encrypt_block uses=c_cpb_gfun timeout=300
// @ob name=c_cpb_dec_state props=C07,C20 fn=magma::Gost89CryptoProB::decrypt_block uses=c_cpb_gfun timeout=300
// @ob name=c_cpb_api_enc props=C07,C20 fn=magma::Gost89CryptoProB::new,magma::Gost89CryptoProB::encrypt_block,magma::Gost89CryptoProB::encrypt_with_backend uses=c_cpb_gfun timeout=300
// @ob name=c_cpb_api_dec props=C07,C20 fn=magma::Gost89CryptoProB::new,magma::Gost89CryptoProB::decrypt_block,magma::Gost89CryptoProB::decrypt_with_backend uses=c_cpb_gfun timeout=300
conformance!(c_cpb_keywords, c_cpb_enc_state, c_cpb_dec_state, c_cpb_api_enc, c_cpb_api_dec, Gost89CryptoProB, r::PI_CRYPTOPRO_B);
// @ob name=l_cpb_rt_encdec props=C01 kind=lemma fn=magma::Gost89CryptoProB::encrypt_block,magma::Gost89CryptoProB::decrypt_block uses=c_cpb_gfun timeout=600
// @ob name=l_cpb_rt_decenc props=C01 kind=lemma fn=magma::Gost89CryptoProB::encrypt_block,magma::Gost89CryptoProB::decrypt_block uses=c_cpb_gfun timeout=600
roundtrip!(l_cpb_rt_encdec, l_cpb_rt_decenc, Gost89CryptoProB);
// @ob name=m_cpb_blocks_0 props=C04,C15 kind=bounded bound="n = 0 block(s)" fn=magma::Gost89CryptoProB::encrypt_with_backend,magma::Gost89CryptoProB::decrypt_with_backend note="g abstracted to a^k (plumbing only; the real block functions are c_cpb_enc_state / c_cpb_dec_state)" timeout=600
multi_block!(m_cpb_blocks_0, Gost89CryptoProB, 0);
// @ob name=m_cpb_blocks_1 props=C04,C15 kind=bounded bound="n = 1 block(s)" fn=magma::Gost89CryptoProB::encrypt_with_backend,magma::Gost89CryptoProB::decrypt_with_backend note="g abstracted to a^k (plumbing only; the real block functions are c_cpb_enc_state / c_cpb_dec_state)" timeout=600
multi_block!(m_cpb_blocks_1, Gost89CryptoProB, 1);
// @ob name=m_cpb_blocks_3 props=C04,C15 kind=bounded bound="n = 3 block(s)" fn=magma::Gost89CryptoProB::encrypt_with_backend,magma::Gost89CryptoProB::decrypt_with_backend note="g abstracted to a^k (plumbing only; the real block functions are c_cpb_enc_state / c_cpb_dec_state)" timeout=600
multi_block!(m_cpb_blocks_3, Gost89CryptoProB, 3);
// @ob name=k_cpb_keylen props=C11 kind=bounded bound="slice length <= 300" fn=magma::Gost89CryptoProB::new_from_slice timeout=300
keylen!(k_cpb_keylen, Gost89CryptoProB);
// @ob name=k_cpb_same props=C11,C12 fn=magma::Gost89CryptoProB::new_from_slice,magma::Gost89CryptoProB::new,magma::Gost89CryptoProB::clone timeout=300
slice_same!(k_cpb_same, Gost89CryptoProB);
// @ob name=w_cpb_weak props=C13 fn=magma::Gost89CryptoProB::weak_key_test,magma::Gost89CryptoProB::new_checked timeout=300
never_weak!(w_cpb_weak, Gost89CryptoProB);
// @ob name=n_cpb_names props=C19 fn=magma::Gost89CryptoProB::fmt,magma::Gost89CryptoProB::write_alg_name timeout=300
names!(n_cpb_names, Gost89CryptoProB, "Gost89<CryptoProB> { ... }", "Gost89<CryptoProB>", "Gost89");
// @ob name=z_cpb_drop props=C16 cfg=zeroize fn=magma::Gost89CryptoProB::drop timeout=300
zero_on_drop!(z_cpb_drop, Gost89CryptoProB, any_c::<CryptoProB>());
// @ob name=z_cpb_clone_drop props=C16 cfg=zeroize fn=magma::Gost89CryptoProB::drop,magma::Gost89CryptoProB::clone timeout=300
zero_on_drop!(z_cpb_clone_drop, Gost89CryptoProB, any_c::<CryptoProB>().clone());

// ---------------------------------------------------------------- Gost89CryptoProC = Gost89<CryptoProC>
// @ob name=c_cpc_keywords props=C07,C20 fn=magma::Gost89CryptoProC::new timeout=300
// @ob name=c_cpc_enc_state props=C07,C20 fn=magma::Gost89CryptoProC::encrypt_block uses=c_cpc_gfun timeout=300
// @ob name=c_cpc_dec_state props=C07,C20 fn=magma::Gost89CryptoProC::decrypt_block uses=c_cpc_gfun timeout=300
// @ob name=c_cpc_api_enc props=C07,C20 fn=magma::Gost89CryptoProC::new,magma::Gost89CryptoProC::encrypt_block,magma::Gost89CryptoProC::encrypt_with_backend uses=c_cpc_gfun timeout=300
// @ob name=c_cpc_api_dec props=C07,C20 fn=magma::Gost89CryptoProC::new,magma::Gost89CryptoProC::decrypt_block,magma::Gost89CryptoProC::decrypt_with_backend uses=c_cpc_gfun timeout=300
conformance!(c_cpc_keywords, c_cpc_enc_state, c_cpc_dec_state, c_cpc_api_enc, c_cpc_api_dec, Gost89CryptoProC, r::PI_CRYPTOPRO_C);
// @ob name=l_cpc_rt_encdec props=C01 kind=lemma fn=magma::Gost89CryptoProC::encrypt_block,magma::Gost89CryptoProC::decrypt_block uses=c_cpc_gfun timeout=600
// @ob name=l_cpc_rt_decenc props=C01 kind=lemma fn=magma::Gost89CryptoProC::encrypt_block,magma::Gost89CryptoProC::decrypt_block uses=c_cpc_gfun timeout=600
roundtrip!(l_cpc_rt_encdec, l_cpc_rt_decenc, Gost89CryptoProC);
// @ob name=m_cpc_blocks_0 props=C04,C15 kind=bounded bound="n = 0 block(s)" fn=magma::Gost89CryptoProC::encrypt_with_backend,magma::Gost89CryptoProC::decrypt_with_backend note="g abstracted to a^k (plumbing only; the real block functions are c_cpc_enc_state / c_cpc_dec_state)" timeout=600
multi_block!(m_cpc_blocks_0, Gost89CryptoProC, 0);
// @ob name=m_cpc_blocks_1 props=C04,C15 kind=bounded bound="n = 1 block(s)" fn=magma::Gost89CryptoProC::encrypt_with_backend,magma::Gost89CryptoProC::decrypt_with_backend note="g abstracted to a^k (plumbing only; the real block functions are c_cpc_enc_state / c_cpc_dec_state)" timeout=600
multi_block!(m_cpc_blocks_1, Gost89CryptoProC, 1);
// @ob name=m_cpc_blocks_3 props=C04,C15 kind=bounded bound="n = 3 block(s)" fn=magma::Gost89CryptoProC::encrypt_with_backend,magma::Gost89CryptoProC::decrypt_with_backend note="g abstracted to a^k (plumbing only; the real block functions are c_cpc_enc_state / c_cpc_dec_state)" timeout=600
multi_block!(m_cpc_blocks_3, Gost89CryptoProC, 3);
// @ob name=k_cpc_keylen props=C11 kind=bounded bound="slice length <= 300" fn=magma::Gost89CryptoProC::new_from_slice timeout=300
keylen!(k_cpc_keylen, Gost89CryptoProC);
// @ob name=k_cpc_same props=C11,C12 fn=magma::Gost89CryptoProC::new_from_slice,magma::Gost89CryptoProC::new,magma::Gost89CryptoProC::clone timeout=300
slice_same!(k_cpc_same, Gost89CryptoProC);
// @ob name=w_cpc_weak props=C13 fn=magma::Gost89CryptoProC::weak_key_test,magma::Gost89CryptoProC::new_checked timeout=300
never_weak!(w_cpc_weak, Gost89CryptoProC);
// @ob name=n_cpc_names props=C19 fn=magma::Gost89CryptoProC::fmt,magma::Gost89CryptoProC::write_alg_name timeout=300
names!(n_cpc_names, Gost89CryptoProC, "Gost89<CryptoProC> { ... }", "Gost89<CryptoProC>", "Gost89");
// @ob name=z_cpc_drop props=C16 cfg=zeroize fn=magma::Gost89CryptoProC::drop timeout=300
zero_on_drop!(z_cpc_drop, Gost89CryptoProC, any_c::<CryptoProC>());
// @ob name=z_cpc_clone_drop props=C16 cfg=zeroize fn=magma::Gost89CryptoProC::drop,magma::Gost89CryptoProC::clone timeout=300
zero_on_drop!(z_cpc_clone_drop, Gost89CryptoProC, any_c::<CryptoProC>().clone());

// ---------------------------------------------------------------- Gost89CryptoProD = Gost89<CryptoProD>
// @ob name=c_cpd_keywords props=C07,C20 fn=magma::Gost89CryptoProD::new timeout=300
// @ob name=c_cpd_enc_state props=C07,C20 fn=magma::Gost89CryptoProD::encrypt_block uses=c_cpd_gfun timeout=300
// @ob name=c_cpd_dec_state props=C07,C20 fn=magma::Gost89CryptoProD::decrypt_block uses=c_cpd_gfun timeout=300
// @ob name=c_cpd_api_enc props=C07,C20 fn=magma::Gost89CryptoProD::new,magma::Gost89CryptoProD::encrypt_block,magma::Gost89CryptoProD::encrypt_with_backend uses=c_cpd_gfun timeout=300
// @ob name=c_cpd_api_dec props=C07,C20 fn=magma::Gost89CryptoProD::new,magma::Gost89CryptoProD::decrypt_block,magma::Gost89CryptoProD::decrypt_with_backend uses=c_cpd_gfun timeout=300
conformance!(c_cpd_keywords, c_cpd_enc_state, c_cpd_dec_state, c_cpd_api_enc, c_cpd_api_dec, Gost89CryptoProD, r::PI_CRYPTOPRO_D);
// @ob name=l_cpd_rt_encdec props=C01 kind=lemma fn=magma::Gost89CryptoProD::encrypt_block,magma::Gost89CryptoProD::decrypt_block uses=c_cpd_gfun timeout=600
// @ob name=l_cpd_rt_decenc props=C01 kind=lemma fn=magma::Gost89CryptoProD::encrypt_block,magma::Gost89CryptoProD::decrypt_block uses=c_cpd_gfun timeout=600
roundtrip!(l_cpd_rt_encdec, l_cpd_rt_decenc, Gost89CryptoProD);
// @ob name=m_cpd_blocks_0 props=C04,C15 kind=bounded bound="n = 0 block(s)" fn=magma::Gost89CryptoProD::encrypt_with_backend,magma::Gost89CryptoProD::decrypt_with_backend note="g abstracted to a^k (plumbing only; the real block functions are c_cpd_enc_state / c_cpd_dec_state)" timeout=600
multi_block!(m_cpd_blocks_0, Gost89CryptoProD, 0);
// @ob name=m_cpd_blocks_1 props=C04,C15 kind=bounded bound="n = 1 block(s)" fn=magma::Gost89CryptoProD::encrypt_with_backend,magma::Gost89CryptoProD::decrypt_with_backend note="g abstracted to a^k (plumbing only; the real block functions are c_cpd_enc_state / c_cpd_dec_state)" timeout=600
multi_block!(m_cpd_blocks_1, Gost89CryptoProD, 1);
// @ob name=m_cpd_blocks_3 props=C04,C15 kind=bounded bound="n = 3 block(s)" fn=magma::Gost89CryptoProD::encrypt_with_backend,magma::Gost89CryptoProD::decrypt_with_backend note="g abstracted to a^k (plumbing only; the real block functions are c_cpd_enc_state / c_cpd_dec_state)" timeout=600
multi_block!(m_cpd_blocks_3, Gost89CryptoProD, 3);
// @ob name=k_cpd_keylen props=C11 kind=bounded bound="slice length <= 300" fn=magma::Gost89CryptoProD::new_from_slice timeout=300
keylen!(k_cpd_keylen, Gost89CryptoProD);
// @ob name=k_cpd_same props=C11,C12 fn=magma::Gost89CryptoProD::new_from_slice,magma::Gost89CryptoProD::new,magma::Gost89CryptoProD::clone timeout=300
slice_same!(k_cpd_same, Gost89CryptoProD);
// @ob name=w_cpd_weak props=C13 fn=magma::Gost89CryptoProD::weak_key_test,magma::Gost89CryptoProD::new_checked timeout=300
never_weak!(w_cpd_weak, Gost89CryptoProD);
// @ob name=n_cpd_names props=C19 fn=magma::Gost89CryptoProD::fmt,magma::Gost89CryptoProD::write_alg_name timeout=300
names!(n_cpd_names, Gost89CryptoProD, "Gost89<CryptoProD> { ... }", "Gost89<CryptoProD>", "Gost89");
// @ob name=z_cpd_drop props=C16 cfg=zeroize fn=magma::Gost89CryptoProD::drop timeout=300
zero_on_drop!(z_cpd_drop, Gost89CryptoProD, any_c::<CryptoProD>());
// @ob name=z_cpd_clone_drop props=C16 cfg=zeroize fn=magma::Gost89CryptoProD::drop,magma::Gost89CryptoProD::clone timeout=300
zero_on_drop!(z_cpd_clone_drop, Gost89CryptoProD, any_c::<CryptoProD>().clone());

// ---------------------------------------------------------------- Gost89User = Gost89<UserS>
// @ob name=c_user_keywords props=C07,C20 kind=bounded bound="user-supplied set sampled by one concrete non-bundled table; genericity over the table rests on gen_exp_sbox being proved for every table (see c_any_table_enc / c_any_table_dec for every table)" fn=magma::Gost89<UserS>::new timeout=300
// @ob name=c_user_enc_state props=C07,C20 kind=bounded bound="user-supplied set sampled by one concrete non-bundled table; genericity over the table rests on gen_exp_sbox being proved for every table (see c_any_table_enc / c_any_table_dec for every table)" fn=magma::Gost89<UserS>::encrypt_block uses=c_user_gfun timeout=300
// @ob name=c_user_dec_state props=C07,C20 kind=bounded bound="user-supplied set sampled by one concrete non-bundled table; genericity over the table rests on gen_exp_sbox being proved for every table (see c_any_table_enc / c_any_table_dec for every table)" fn=magma::Gost89<UserS>::decrypt_block uses=c_user_gfun timeout=300
// @ob name=c_user_api_enc props=C07,C20 kind=bounded bound="user-supplied set sampled by one concrete non-bundled table; genericity over the table rests on gen_exp_sbox being proved for every table (see c_any_table_enc / c_any_table_dec for every table)" fn=magma::Gost89<UserS>::new,magma::Gost89<UserS>::encrypt_block,magma::Gost89<UserS>::encrypt_with_backend uses=c_user_gfun timeout=300
// @ob name=c_user_api_dec props=C07,C20 kind=bounded bound="user-supplied set sampled by one concrete non-bundled table; genericity over the table rests on gen_exp_sbox being proved for every table (see c_any_table_enc / c_any_table_dec for every table)" fn=magma::Gost89<UserS>::new,magma::Gost89<UserS>::decrypt_block,magma::Gost89<UserS>::decrypt_with_backend uses=c_user_gfun timeout=300
conformance!(c_user_keywords, c_user_enc_state, c_user_dec_state, c_user_api_enc, c_user_api_dec, Gost89User, user_table());
// @ob name=l_user_rt_encdec props=C01 kind=lemma fn=magma::Gost89<UserS>::encrypt_block,magma::Gost89<UserS>::decrypt_block uses=c_user_gfun timeout=600
// @ob name=l_user_rt_decenc props=C01 kind=lemma fn=magma::Gost89<UserS>::encrypt_block,magma::Gost89<UserS>::decrypt_block uses=c_user_gfun timeout=600
roundtrip!(l_user_rt_encdec, l_user_rt_decenc, Gost89User);
// @ob name=m_user_blocks_0 props=C04,C15 kind=bounded bound="n = 0 block(s)" fn=magma::Gost89<UserS>::encrypt_with_backend,magma::Gost89<UserS>::decrypt_with_backend note="g abstracted to a^k (plumbing only; the real block functions are c_user_enc_state / c_user_dec_state)" timeout=600
multi_block!(m_user_blocks_0, Gost89User, 0);
// @ob name=m_user_blocks_1 props=C04,C15 kind=bounded bound="n = 1 block(s)" fn=magma::Gost89<UserS>::encrypt_with_backend,magma::Gost89<UserS>::decrypt_with_backend note="g abstracted to a^k (plumbing only; the real block functions are c_user_enc_state / c_user_dec_state)" timeout=600
multi_block!(m_user_blocks_1, Gost89User, 1);
// @ob name=m_user_blocks_3 props=C04,C15 kind=bounded bound="n = 3 block(s)" fn=magma::Gost89<UserS>::encrypt_with_backend,magma::Gost89<UserS>::decrypt_with_backend note="g abstracted to a^k (plumbing only; the real block functions are c_user_enc_state / c_user_dec_state)" timeout=600
multi_block!(m_user_blocks_3, Gost89User, 3);
// @ob name=k_user_keylen props=C11 kind=bounded bound="slice length <= 300" fn=magma::Gost89<UserS>::new_from_slice timeout=300
keylen!(k_user_keylen, Gost89User);
// @ob name=k_user_same props=C11,C12 fn=magma::Gost89<UserS>::new_from_slice,magma::Gost89<UserS>::new,magma::Gost89<UserS>::clone timeout=300
slice_same!(k_user_same, Gost89User);
// @ob name=w_user_weak props=C13 fn=magma::Gost89<UserS>::weak_key_test,magma::Gost89<UserS>::new_checked timeout=300
never_weak!(w_user_weak, Gost89User);
// @ob name=n_user_names props=C19 fn=magma::Gost89<UserS>::fmt,magma::Gost89<UserS>::write_alg_name timeout=300
names!(n_user_names, Gost89User, "Gost89<UserS> { ... }", "Gost89<UserS>", "Gost89");
// @ob name=z_user_drop props=C16 cfg=zeroize fn=magma::Gost89<UserS>::drop timeout=300
zero_on_drop!(z_user_drop, Gost89User, any_c::<UserS>());
// @ob name=z_user_clone_drop props=C16 cfg=zeroize fn=magma::Gost89<UserS>::drop,magma::Gost89<UserS>::clone timeout=300
zero_on_drop!(z_user_clone_drop, Gost89User, any_c::<UserS>().clone());

// ---------------------------------------------------------------- every table of 4-bit entries (symbolic table)
// The cipher code reaches S only through S::g (and S::NAME for the texts): with g replaced by its contract over a
// SYMBOLIC table pi (sboxes.rs c_any_table_gfun), Gost89<S> is the 32-round network over pi, for every pi, every
// state and every block.
// @ob name=c_any_table_enc props=C07,C20 fn=magma::Gost89::encrypt_block uses=c_any_table_gfun,c_gen_exp_sbox,l_expansion_is_t,c_user_apply timeout=600
#[kani::proof]
#[kani::stub(crate::sboxes::SboxExt::g, crate::sboxes::__vp_sboxes::SymExt::sym_g)]
#[kani::unwind(33)]
fn c_any_table_enc() {
    let pi = any_table();
    kani::cover!(pi[7][15] == 15 && pi[0][0] == 7);
    let c: Gost89User = any_c();
    let b: [u8; 8] = kani::any();
    let mut blk = Array(b);
    cipher::BlockCipherEncrypt::encrypt_block(&c, &mut blk);
    assert!(be64(&blk.0) == r::encrypt_words(&pi, &c.key, be64(&b)));
}
// @ob name=c_any_table_dec props=C07,C20 fn=magma::Gost89::decrypt_block uses=c_any_table_gfun,c_gen_exp_sbox,l_expansion_is_t,c_user_apply timeout=600
#[kani::proof]
#[kani::stub(crate::sboxes::SboxExt::g, crate::sboxes::__vp_sboxes::SymExt::sym_g)]
#[kani::unwind(33)]
fn c_any_table_dec() {
    let pi = any_table();
    kani::cover!(pi[7][15] == 15 && pi[0][0] == 7);
    let c: Gost89User = any_c();
    let b: [u8; 8] = kani::any();
    let mut blk = Array(b);
    cipher::BlockCipherDecrypt::decrypt_block(&c, &mut blk);
    assert!(be64(&blk.0) == r::decrypt_words(&pi, &c.key, be64(&b)));
}

// ---------------------------------------------------------------- monolithic variants: no stub anywhere
// (measured under load: enc 152 s, dec 91 s, round trip 441 s -> the round trip is thorough tier)
// @ob name=c_magma_mono_enc props=C07,C20 fn=magma::Magma::new,magma::Magma::encrypt_block,magma::sboxes::SboxExt::g,magma::sboxes::SboxExt::apply_sbox timeout=900
#[kani::proof]
#[kani::unwind(33)]
fn c_magma_mono_enc() {
    let k: [u8; 32] = kani::any();
    let b: [u8; 8] = kani::any();
    let c = Magma::new(&Array(k));
    let mut blk = Array(b);
    cipher::BlockCipherEncrypt::encrypt_block(&c, &mut blk);
    assert!(be64(&blk.0) == r::magma_encrypt(&k, be64(&b)));
}
// @ob name=c_magma_mono_dec props=C07,C20 fn=magma::Magma::new,magma::Magma::decrypt_block,magma::sboxes::SboxExt::g,magma::sboxes::SboxExt::apply_sbox timeout=900
#[kani::proof]
#[kani::unwind(33)]
fn c_magma_mono_dec() {
    let k: [u8; 32] = kani::any();
    let b: [u8; 8] = kani::any();
    let c = Magma::new(&Array(k));
    let mut blk = Array(b);
    cipher::BlockCipherDecrypt::decrypt_block(&c, &mut blk);
    assert!(be64(&blk.0) == r::magma_decrypt(&k, be64(&b)));
}
// @ob name=l_magma_mono_roundtrip props=C01 kind=lemma tier=thorough fn=magma::Magma::encrypt_block,magma::Magma::decrypt_block,magma::sboxes::SboxExt::g,magma::sboxes::SboxExt::apply_sbox timeout=1800
#[kani::proof]
#[kani::unwind(33)]
fn l_magma_mono_roundtrip() {
    let c: Magma = any_c();
    let b: [u8; 8] = kani::any();
    let mut blk = Array(b);
    cipher::BlockCipherEncrypt::encrypt_block(&c, &mut blk);
    cipher::BlockCipherDecrypt::decrypt_block(&c, &mut blk);
    assert!(be64(&blk.0) == be64(&b));
}
