// Contracts on kuznyechik/src/gft.rs: multiplication in GF(2)[x]/(x^8+x^7+x^6+x+1) and the seven
// multiplication tables, against bcref::kuznyechik::gf_mul (GOST R 34.12-2015, 4.1.2).  All backends use these.
//
// @module file=kuznyechik/src/gft.rs
use super::*;
use bcref::kuznyechik as kz;

// @ob name=c_mul_gf256 props=C07,C20 fn=kuznyechik::gft::mul_gf256 timeout=300
#[kani::proof]
#[kani::unwind(10)]
fn c_mul_gf256() {
    let a: u8 = kani::any();
    let b: u8 = kani::any();
    assert!(mul_gf256(a, b) == kz::gf_mul(a, b));
}

// every entry of every table: GFT_c[v] == c * v in the field
// @ob name=c_gft_tables props=C07,C20 fn=kuznyechik::gft::mul_table_gf256,kuznyechik::gft::GFT_16,kuznyechik::gft::GFT_32,kuznyechik::gft::GFT_133,kuznyechik::gft::GFT_148,kuznyechik::gft::GFT_192,kuznyechik::gft::GFT_194,kuznyechik::gft::GFT_251 timeout=300
#[kani::proof]
#[kani::unwind(10)]
fn c_gft_tables() {
    let v: u8 = kani::any();
    let i = v as usize;
    assert!(GFT_16[i] == kz::gf_mul(16, v));
    assert!(GFT_32[i] == kz::gf_mul(32, v));
    assert!(GFT_133[i] == kz::gf_mul(133, v));
    assert!(GFT_148[i] == kz::gf_mul(148, v));
    assert!(GFT_192[i] == kz::gf_mul(192, v));
    assert!(GFT_194[i] == kz::gf_mul(194, v));
    assert!(GFT_251[i] == kz::gf_mul(251, v));
}

// the table generator itself, for every multiplier (symbolic a), every entry
// @ob name=c_mul_table_gf256 props=C07,C20 fn=kuznyechik::gft::mul_table_gf256 timeout=600
#[kani::proof]
#[kani::unwind(258)]
fn c_mul_table_gf256() {
    let a: u8 = kani::any();
    let t = mul_table_gf256(a);
    let v: u8 = kani::any();
    assert!(t[v as usize] == kz::gf_mul(a, v));
}
