// Shared harness helpers, textually included (`include!("@VERIF@/contracts/_common/common.rs")`) by contract modules.

/// Fixed-size sink for `core::fmt` output (no allocation), to state contracts on Debug / AlgorithmName text.
pub struct FmtBuf {
    pub buf: [u8; 96],
    pub len: usize,
    pub overflow: bool,
}
impl FmtBuf {
    pub fn new() -> Self { FmtBuf { buf: [0; 96], len: 0, overflow: false } }
    /// exact comparison with an expected ASCII text
    pub fn is(&self, s: &str) -> bool {
        let b = s.as_bytes();
        if self.overflow || self.len != b.len() { return false; }
        let mut i = 0;
        let mut ok = true;
        while i < b.len() {
            ok &= self.buf[i] == b[i];
            i += 1;
        }
        ok
    }
    /// text starts with `name` (ASCII case-insensitive) and the next byte, if any, is not an identifier character
    pub fn names(&self, name: &str) -> bool {
        let b = name.as_bytes();
        if self.overflow || self.len < b.len() { return false; }
        let mut i = 0;
        let mut ok = true;
        while i < b.len() {
            ok &= self.buf[i].to_ascii_lowercase() == b[i].to_ascii_lowercase();
            i += 1;
        }
        if self.len > b.len() {
            let c = self.buf[b.len()];
            ok &= !(c.is_ascii_alphanumeric() || c == b'_');
        }
        ok
    }
    pub fn same(&self, o: &FmtBuf) -> bool {
        if self.overflow || o.overflow || self.len != o.len { return false; }
        let mut i = 0;
        let mut ok = true;
        while i < 96 {
            if i < self.len { ok &= self.buf[i] == o.buf[i]; }
            i += 1;
        }
        ok
    }
}
impl core::fmt::Write for FmtBuf {
    fn write_str(&mut self, s: &str) -> core::fmt::Result {
        let b = s.as_bytes();
        let mut i = 0;
        while i < b.len() {
            if self.len < 96 { self.buf[self.len] = b[i]; self.len += 1; } else { self.overflow = true; }
            i += 1;
        }
        Ok(())
    }
}
pub fn debug_text<T: core::fmt::Debug>(t: &T) -> FmtBuf {
    let mut w = FmtBuf::new();
    let _ = core::fmt::write(&mut w, format_args!("{:?}", t));
    w
}
struct AlgName<T>(core::marker::PhantomData<T>);
impl<T: cipher::AlgorithmName> core::fmt::Display for AlgName<T> {
    fn fmt(&self, f: &mut core::fmt::Formatter<'_>) -> core::fmt::Result { T::write_alg_name(f) }
}
pub fn alg_name_text<T: cipher::AlgorithmName>() -> FmtBuf {
    let mut w = FmtBuf::new();
    let _ = core::fmt::write(&mut w, format_args!("{}", AlgName::<T>(core::marker::PhantomData)));
    w
}

/// All `size_of::<T>()` bytes of `*p` are zero (used after `ManuallyDrop::drop` under feature zeroize).
pub unsafe fn all_bytes_zero<T>(p: *const T) -> bool {
    let n = core::mem::size_of::<T>();
    let q = p as *const u8;
    let mut ok = true;
    let mut i = 0;
    while i < n {
        ok &= unsafe { core::ptr::read_volatile(q.add(i)) } == 0;
        i += 1;
    }
    ok
}

/// Uninterpreted function u64 -> u64 (Ackermann table with a concrete call counter): equal arguments give
/// equal results, otherwise unconstrained.  Stands for "any pure block function" in dispatch / frame obligations.
pub mod uf {
    pub const MAXC: usize = 96;
    pub static mut IN: [u64; MAXC] = [0; MAXC];
    pub static mut OUT: [u64; MAXC] = [0; MAXC];
    pub static mut N: usize = 0;
    #[allow(static_mut_refs)]
    pub fn uf64(x: u64) -> u64 {
        unsafe {
            let mut y: u64 = kani::any();
            let mut found = false;
            let mut i = 0;
            while i < N {
                if !found && IN[i] == x { y = OUT[i]; found = true; }
                i += 1;
            }
            assert!(N < MAXC);
            IN[N] = x;
            OUT[N] = y;
            N += 1;
            y
        }
    }
}
