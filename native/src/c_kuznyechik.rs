//! kuznyechik: Kuznyechik, KuznyechikEnc, KuznyechikDec against GOST R 34.12-2015 (bcref::kuznyechik), C07; the
//! Enc/Dec family properties C12/C16/C19.  Built again under kuznyechik_backend = "soft" / "compact_soft".
use crate::generic::*;
use crate::util::*;
use bcref::kuznyechik as r;
use cipher::{Key, KeyInit};
use kuznyechik::{Kuznyechik, KuznyechikDec, KuznyechikEnc};

fn reference(k: &[u8], b: &[u8], dec: bool) -> Option<Vec<u8>> {
    Some(if dec { r::decrypt(&arr(k), &arr(b)) } else { r::encrypt(&arr(k), &arr(b)) }.to_vec())
}

desc!(DKuz: Kuznyechik, "kuznyechik", "Kuznyechik", [32], "C07", [clone, debug, alg], names ["Kuznyechik"], alg ["kuznyechik"],
    |k, b, dec| reference(k, b, dec));
desc!(DNew: PairNew<KuznyechikEnc, KuznyechikDec>, "kuznyechik", "KuznyechikEnc::new + KuznyechikDec::new", [32], "C07", [], names [], alg [],
    |k, b, dec| reference(k, b, dec); const WRAPPER: bool = true;);
desc!(DRef: PairFromRef<KuznyechikEnc, KuznyechikDec>, "kuznyechik", "KuznyechikEnc::new + KuznyechikDec::from(&enc)", [32], "C07", [], names [], alg [],
    |k, b, dec| reference(k, b, dec); const WRAPPER: bool = true;);
desc!(DVal: PairFromVal<KuznyechikEnc, KuznyechikDec>, "kuznyechik", "KuznyechikEnc::new + KuznyechikDec::from(enc)", [32], "C07", [], names [], alg [],
    |k, b, dec| reference(k, b, dec); const WRAPPER: bool = true;);
desc!(DConvRef: PairFromRef<KuznyechikEnc, Kuznyechik>, "kuznyechik", "KuznyechikEnc::new + Kuznyechik::from(&enc)", [32], "C07", [], names [], alg [],
    |k, b, dec| reference(k, b, dec); const WRAPPER: bool = true;);

pub fn run() {
    visit::<DKuz>();
    visit::<DNew>();
    visit::<DRef>();
    visit::<DVal>();
    visit::<DConvRef>();
    if want("C12") {
        c12_family::<Kuznyechik, KuznyechikEnc, KuznyechikDec>("kuznyechik", "Kuznyechik/KuznyechikEnc/KuznyechikDec");
    }
    halves();
}

/// constructor-, drop- and formatting properties of the two halves (the combined type goes through `visit`)
fn halves() {
    let e_probe = |c: &KuznyechikEnc, x: &[u8]| enc1(c, x);
    let d_probe = |c: &KuznyechikDec, x: &[u8]| dec1(c, x);
    if want("C11") {
        scope("kuznyechik", "KuznyechikEnc");
        set_prop("C11");
        c11_core::<KuznyechikEnc>(&[32], &e_probe, 16, &mut Rng::for_label("C11/kuznyechik/enc"));
        scope("kuznyechik", "KuznyechikDec");
        set_prop("C11");
        c11_core::<KuznyechikDec>(&[32], &d_probe, 16, &mut Rng::for_label("C11/kuznyechik/dec"));
    }
    if want("C13") {
        scope("kuznyechik", "KuznyechikEnc");
        set_prop("C13");
        c13_core::<KuznyechikEnc>(&|_| false, vec![], &e_probe, 16, &mut Rng::for_label("C13/kuznyechik/enc"));
        scope("kuznyechik", "KuznyechikDec");
        set_prop("C13");
        c13_core::<KuznyechikDec>(&|_| false, vec![], &d_probe, 16, &mut Rng::for_label("C13/kuznyechik/dec"));
    }
    if want("C16") {
        let mut rng = Rng::for_label("C16/kuznyechik/family");
        let keys: Vec<Vec<u8>> = (0..8).map(|_| rng.plain(32)).collect();
        
        scope("kuznyechik", "Kuznyechik");
        set_prop("C16");
        c16_core::<Kuznyechik>(
            &[
                ("from(enc)", &|k| Some(Kuznyechik::from(KuznyechikEnc::new(kref::<Kuznyechik>(k))))),
                ("from(&enc)", &|k| Some(Kuznyechik::from(&KuznyechikEnc::new(kref::<Kuznyechik>(k))))),
                ("from(&enc).clone()", &|k| Some(Kuznyechik::from(&KuznyechikEnc::new(kref::<Kuznyechik>(k))).clone())),
                ("new", &|k| Some(Kuznyechik::new(kref::<Kuznyechik>(k)))),
            ],
            &keys,
        );
        scope("kuznyechik", "KuznyechikEnc");
        set_prop("C16");
        c16_core::<KuznyechikEnc>(
            &[("new", &|k| Some(KuznyechikEnc::new(kref::<Kuznyechik>(k)))), ("clone", &|k| Some(KuznyechikEnc::new(kref::<Kuznyechik>(k)).clone()))],
            &keys,
        );
        scope("kuznyechik", "KuznyechikDec");
        set_prop("C16");
        c16_core::<KuznyechikDec>(
            &[
                ("new", &|k| Some(KuznyechikDec::new(kref::<Kuznyechik>(k)))),
                ("clone", &|k| Some(KuznyechikDec::new(kref::<Kuznyechik>(k)).clone())),
                ("from(enc)", &|k| Some(KuznyechikDec::from(KuznyechikEnc::new(kref::<Kuznyechik>(k))))),
                ("from(&enc)", &|k| Some(KuznyechikDec::from(&KuznyechikEnc::new(kref::<Kuznyechik>(k))))),
                ("from(&enc).clone()", &|k| Some(KuznyechikDec::from(&KuznyechikEnc::new(kref::<Kuznyechik>(k))).clone())),
            ],
            &keys,
        );
    }
    if want("C19") {
        let mut rng = Rng::for_label("C19/kuznyechik/family");
        let keys: Vec<Vec<u8>> = (0..12).map(|_| rng.bytes(32)).collect();
        let key = |k: &[u8]| Key::<Kuznyechik>::try_from(k).unwrap();
        scope("kuznyechik", "KuznyechikEnc");
        set_prop("C19");
        let t: Vec<(Vec<u8>, String)> = keys.iter().map(|k| (k.clone(), format!("{:?}", KuznyechikEnc::new(&key(k))))).collect();
        c19_debug_core(&t, &["KuznyechikEnc"]);
        c19_alg_core(&alg_name_of::<KuznyechikEnc>(), &["kuznyechik"]);
        scope("kuznyechik", "KuznyechikDec");
        set_prop("C19");
        let mut t: Vec<(Vec<u8>, String)> = keys.iter().map(|k| (k.clone(), format!("{:?}", KuznyechikDec::new(&key(k))))).collect();
        t.extend(keys.iter().map(|k| (k.clone(), format!("{:?}", KuznyechikDec::from(&KuznyechikEnc::new(&key(k)))))));
        c19_debug_core(&t, &["KuznyechikDec"]);
        c19_alg_core(&alg_name_of::<KuznyechikDec>(), &["kuznyechik"]);
        scope("kuznyechik", "Kuznyechik");
        set_prop("C19");
        let t: Vec<(Vec<u8>, String)> = keys.iter().map(|k| (k.clone(), format!("{:?}", Kuznyechik::from(&KuznyechikEnc::new(&key(k)))))).collect();
        c19_debug_core(&t, &["Kuznyechik"]);
    }
}
