// API-level contracts for the des crate (child of lib.rs): key lengths (C11), clone (C12), weak keys (C13),
// state immutability (C15), zeroize on drop (C16), Debug / AlgorithmName (C19), multi-block calls (C04).
//
// @module file=des/src/lib.rs
// @config name=zeroize features=zeroize
use super::*;
use crate::des::__vp_des::any_des;
use crate::utils::__vp_utils::eq16;
use cipher::{Array, KeyInit};
include!("@VERIF@/contracts/_common/common.rs");

fn any_ede3() -> TdesEde3 { unsafe { core::mem::transmute::<[[u64; 16]; 3], TdesEde3>(kani::any()) } }
fn any_eee3() -> TdesEee3 { unsafe { core::mem::transmute::<[[u64; 16]; 3], TdesEee3>(kani::any()) } }
fn any_ede2() -> TdesEde2 { unsafe { core::mem::transmute::<[[u64; 16]; 2], TdesEde2>(kani::any()) } }
fn any_eee2() -> TdesEee2 { unsafe { core::mem::transmute::<[[u64; 16]; 2], TdesEee2>(kani::any()) } }

// ---------------------------------------------------------------- C13 weak keys
fn ne_of_be(k: u64) -> u64 { u64::from_ne_bytes(k.to_be_bytes()) }

// The test flags exactly the NIST-listed keys *in their listed (odd-parity) form* ...
// @ob name=c_weak_exact_on_odd_parity props=C13 fn=des::weak_key_test timeout=300
#[kani::proof]
#[kani::unwind(65)]
fn c_weak_exact_on_odd_parity() {
    let k: u64 = kani::any(); // big-endian reading of the 8 key bytes
    // odd parity in every byte
    let mut b = 0;
    while b < 8 {
        kani::assume((((k >> (8 * b)) & 0xff) as u8).count_ones() & 1 == 1);
        b += 1;
    }
    let r = weak_key_test(ne_of_be(k));
    assert!(r == 0 || r == 1);
    assert!((r == 1) == bcref::des::is_degenerate(k));
}

// ... and regardless of the value of the parity bits (which the cipher ignores).
// @ob name=c_weak_parity_independent props=C13 fn=des::weak_key_test timeout=300
#[kani::proof]
#[kani::unwind(65)]
fn c_weak_parity_independent() {
    let k: u64 = kani::any();
    let r = weak_key_test(ne_of_be(k));
    assert!((r != 0) == bcref::des::is_degenerate(k));
}

// @ob name=c_des_weak_key_test props=C13 fn=des::Des::weak_key_test,des::Des::new_checked timeout=300
#[kani::proof]
#[kani::unwind(65)]
fn c_des_weak_key_test() {
    let k: [u8; 8] = kani::any();
    let weak = bcref::des::is_degenerate(u64::from_be_bytes(k));
    assert!(Des::weak_key_test(&Array(k)).is_err() == weak);
    match Des::new_checked(&Array(k)) {
        Ok(d) => { assert!(!weak); assert!(eq16(&d.keys, &Des::new(&Array(k)).keys)); }
        Err(_) => assert!(weak),
    }
}

fn part(k: &[u8], i: usize) -> u64 {
    let mut x = 0u64;
    let mut j = 0;
    while j < 8 {
        x = (x << 8) | k[8 * i + j] as u64;
        j += 1;
    }
    x
}
const KEYBITS: u64 = !bcref::des::PARITY_MASK;

macro_rules! tdes_weak {
    ($name:ident, $ty:ident, 3) => {
        #[kani::proof]
        #[kani::unwind(65)]
        fn $name() {
            let k: [u8; 24] = kani::any();
            let (a, b, c) = (part(&k, 0), part(&k, 1), part(&k, 2));
            // some part degenerate, or two parts are the same DES key (equal up to parity bits)
            let weak = bcref::des::is_degenerate(a) || bcref::des::is_degenerate(b) || bcref::des::is_degenerate(c)
                || (a & KEYBITS) == (b & KEYBITS) || (a & KEYBITS) == (c & KEYBITS) || (b & KEYBITS) == (c & KEYBITS);
            assert!($ty::weak_key_test(&Array(k)).is_err() == weak);
            assert!($ty::new_checked(&Array(k)).is_err() == weak);
        }
    };
    ($name:ident, $ty:ident, 2) => {
        #[kani::proof]
        #[kani::unwind(65)]
        fn $name() {
            let k: [u8; 16] = kani::any();
            let (a, b) = (part(&k, 0), part(&k, 1));
            let weak = bcref::des::is_degenerate(a) || bcref::des::is_degenerate(b) || (a & KEYBITS) == (b & KEYBITS);
            assert!($ty::weak_key_test(&Array(k)).is_err() == weak);
            assert!($ty::new_checked(&Array(k)).is_err() == weak);
        }
    };
}
// @ob name=c_ede3_weak props=C13 fn=des::TdesEde3::weak_key_test,des::tdes::weak_key_test3 timeout=600
tdes_weak!(c_ede3_weak, TdesEde3, 3);
// @ob name=c_eee3_weak props=C13 fn=des::TdesEee3::weak_key_test,des::tdes::weak_key_test3 timeout=600
tdes_weak!(c_eee3_weak, TdesEee3, 3);
// @ob name=c_ede2_weak props=C13 fn=des::TdesEde2::weak_key_test,des::tdes::weak_key_test2 timeout=600
tdes_weak!(c_ede2_weak, TdesEde2, 2);
// @ob name=c_eee2_weak props=C13 fn=des::TdesEee2::weak_key_test,des::tdes::weak_key_test2 timeout=600
tdes_weak!(c_eee2_weak, TdesEee2, 2);

// ---------------------------------------------------------------- C19 Debug / AlgorithmName
macro_rules! names {
    ($name:ident, $ty:ident, $mk:expr, $text:expr) => {
        #[kani::proof]
        #[kani::unwind(100)]
        fn $name() {
            let a = $mk;
            let b = $mk;
            let (ta, tb) = (debug_text(&a), debug_text(&b));
            assert!(ta.same(&tb)); // identical for all keys
            assert!(ta.names($text)); // names the instance's own type
            assert!(alg_name_text::<$ty>().names($text));
        }
    };
}
// @ob name=c_des_names props=C19 fn=des::Des::fmt,des::Des::write_alg_name timeout=300
names!(c_des_names, Des, any_des(), "Des");
// @ob name=c_ede3_names props=C19 fn=des::TdesEde3::fmt,des::TdesEde3::write_alg_name timeout=300
names!(c_ede3_names, TdesEde3, any_ede3(), "TdesEde3");
// @ob name=c_eee3_names props=C19 fn=des::TdesEee3::fmt,des::TdesEee3::write_alg_name timeout=300
names!(c_eee3_names, TdesEee3, any_eee3(), "TdesEee3");
// @ob name=c_ede2_names props=C19 fn=des::TdesEde2::fmt,des::TdesEde2::write_alg_name timeout=300
names!(c_ede2_names, TdesEde2, any_ede2(), "TdesEde2");
// @ob name=c_eee2_names props=C19 fn=des::TdesEee2::fmt,des::TdesEee2::write_alg_name timeout=300
names!(c_eee2_names, TdesEee2, any_eee2(), "TdesEee2");

// ---------------------------------------------------------------- C16 zeroize on drop (feature zeroize)
macro_rules! zero_on_drop {
    ($name:ident, $ty:ident, $mk:expr) => {
        #[kani::proof]
        #[kani::unwind(400)]
        fn $name() {
            let mut m = core::mem::ManuallyDrop::new($mk);
            let p: *const $ty = &*m;
            unsafe { core::mem::ManuallyDrop::drop(&mut m); }
            assert!(unsafe { all_bytes_zero(p) });
        }
    };
}
// @ob name=z_des props=C16 cfg=zeroize fn=des::Des::drop timeout=300
zero_on_drop!(z_des, Des, any_des());
// @ob name=z_des_clone props=C16 cfg=zeroize fn=des::Des::drop,des::Des::clone timeout=300
zero_on_drop!(z_des_clone, Des, any_des().clone());
// @ob name=z_ede3 props=C16 cfg=zeroize fn=des::TdesEde3::drop timeout=300
zero_on_drop!(z_ede3, TdesEde3, any_ede3());
// @ob name=z_eee3 props=C16 cfg=zeroize fn=des::TdesEee3::drop timeout=300
zero_on_drop!(z_eee3, TdesEee3, any_eee3());
// @ob name=z_ede2 props=C16 cfg=zeroize fn=des::TdesEde2::drop timeout=300
zero_on_drop!(z_ede2, TdesEde2, any_ede2());
// @ob name=z_eee2 props=C16 cfg=zeroize fn=des::TdesEee2::drop timeout=300
zero_on_drop!(z_eee2, TdesEee2, any_eee2().clone());

// ---------------------------------------------------------------- C11 key lengths, C12 clone
macro_rules! keylen {
    ($name:ident, $ty:ident, $n:expr) => {
        #[kani::proof]
        #[kani::stub(crate::utils::gen_keys, cheap_gen_keys)]
        #[kani::unwind(65)]
        fn $name() {
            let buf: [u8; 301] = kani::any();
            let n: usize = kani::any();
            kani::assume(n <= 300);
            kani::cover!(n == $n);
            kani::cover!(n == 300);
            let r = $ty::new_from_slice(&buf[..n]);
            assert!(r.is_ok() == (n == $n));
        }
    };
}
/// stand-in for the key schedule inside the *length* obligations only (its own contract is c_gen_keys)
fn cheap_gen_keys(key: u64) -> [u64; 16] { [key; 16] }
// @ob name=k_des_len props=C11 kind=bounded bound="slice length <= 300" fn=des::Des::new_from_slice timeout=300
keylen!(k_des_len, Des, 8);
// @ob name=k_ede3_len props=C11 kind=bounded bound="slice length <= 300" fn=des::TdesEde3::new_from_slice timeout=300
keylen!(k_ede3_len, TdesEde3, 24);
// @ob name=k_eee3_len props=C11 kind=bounded bound="slice length <= 300" fn=des::TdesEee3::new_from_slice timeout=300
keylen!(k_eee3_len, TdesEee3, 24);
// @ob name=k_ede2_len props=C11 kind=bounded bound="slice length <= 300" fn=des::TdesEde2::new_from_slice timeout=300
keylen!(k_ede2_len, TdesEde2, 16);
// @ob name=k_eee2_len props=C11 kind=bounded bound="slice length <= 300" fn=des::TdesEee2::new_from_slice timeout=300
keylen!(k_eee2_len, TdesEee2, 16);

// fixed-size key and the same bytes as a slice give the same cipher (state equality); clone gives equal state
// @ob name=k_des_slice_same props=C11,C12 fn=des::Des::new_from_slice,des::Des::new,des::Des::clone timeout=300
#[kani::proof]
#[kani::unwind(65)]
fn k_des_slice_same() {
    let k: [u8; 8] = kani::any();
    let a = Des::new(&Array(k));
    let b = Des::new_from_slice(&k[..]).unwrap();
    assert!(eq16(&a.keys, &b.keys));
    let c = a.clone();
    assert!(eq16(&a.keys, &c.keys));
}
// @ob name=k_tdes_slice_same props=C11,C12 fn=des::TdesEde3::new_from_slice,des::TdesEde2::new_from_slice,des::TdesEde3::clone timeout=600
#[kani::proof]
#[kani::stub(crate::utils::gen_keys, cheap_gen_keys)]
#[kani::unwind(65)]
fn k_tdes_slice_same() {
    let k: [u8; 24] = kani::any();
    let a: [[u64; 16]; 3] = unsafe { core::mem::transmute(TdesEde3::new(&Array(k))) };
    let b: [[u64; 16]; 3] = unsafe { core::mem::transmute(TdesEde3::new_from_slice(&k[..]).unwrap()) };
    let c: [[u64; 16]; 3] = unsafe { core::mem::transmute(TdesEee3::new(&Array(k)).clone()) };
    let d: [[u64; 16]; 3] = unsafe { core::mem::transmute(TdesEee3::new_from_slice(&k[..]).unwrap()) };
    let mut i = 0;
    while i < 3 {
        assert!(eq16(&a[i], &b[i]) && eq16(&c[i], &d[i]));
        i += 1;
    }
    let k2: [u8; 16] = kani::any();
    let a: [[u64; 16]; 2] = unsafe { core::mem::transmute(TdesEde2::new(&Array(k2)).clone()) };
    let b: [[u64; 16]; 2] = unsafe { core::mem::transmute(TdesEde2::new_from_slice(&k2[..]).unwrap()) };
    let c: [[u64; 16]; 2] = unsafe { core::mem::transmute(TdesEee2::new(&Array(k2))) };
    let d: [[u64; 16]; 2] = unsafe { core::mem::transmute(TdesEee2::new_from_slice(&k2[..]).unwrap().clone()) };
    let mut i = 0;
    while i < 2 {
        assert!(eq16(&a[i], &b[i]) && eq16(&c[i], &d[i]));
        i += 1;
    }
}

// ---------------------------------------------------------------- C04 / C15: multi-block and b2b calls; state untouched
// The block function is abstracted to an uninterpreted function (licensed by c_des_encrypt: a pure function of
// (subkeys, data)); what is proved is the plumbing: each block goes through exactly once, in order, inputs of b2b
// calls are untouched, nothing but the output blocks is written (guard bytes), and the cipher state is unchanged.
fn uf_enc(_d: &Des, x: u64) -> u64 { uf::uf64(x) }

macro_rules! multi_block {
    ($name:ident, $n:expr) => {
        #[kani::proof]
        #[kani::stub(Des::encrypt, uf_enc)]
        #[kani::unwind(65)]
        fn $name() {
            let d = any_des();
            let before = d.keys;
            let inp: [[u8; 8]; $n] = kani::any();
            // per-block results
            let mut single = [[0u8; 8]; $n];
            let mut i = 0;
            while i < $n {
                let mut b = Array(inp[i]);
                cipher::BlockCipherEncrypt::encrypt_block(&d, &mut b);
                single[i] = b.0;
                i += 1;
            }
            // in place, n blocks
            let mut blocks = [Array([0u8; 8]); $n];
            let mut i = 0;
            while i < $n { blocks[i] = Array(inp[i]); i += 1; }
            cipher::BlockCipherEncrypt::encrypt_blocks(&d, &mut blocks);
            let mut i = 0;
            while i < $n { assert!(blocks[i].0 == single[i]); i += 1; }
            // buffer to buffer with guard blocks around the output
            let mut src = [Array([0u8; 8]); $n];
            let mut i = 0;
            while i < $n { src[i] = Array(inp[i]); i += 1; }
            let g: [u8; 8] = kani::any();
            let mut dst = [Array(g); $n + 2];
            cipher::BlockCipherEncrypt::encrypt_blocks_b2b(&d, &src, &mut dst[1..$n + 1]).unwrap();
            assert!(dst[0].0 == g && dst[$n + 1].0 == g);
            let mut i = 0;
            while i < $n { assert!(dst[i + 1].0 == single[i] && src[i].0 == inp[i]); i += 1; }
            assert!(eq16(&before, &d.keys));
        }
    };
}
// @ob name=m_des_blocks_0 props=C04,C15 kind=bounded bound="n = 0 blocks" fn=des::Des::encrypt_with_backend,des::Des::encrypt_block uses=c_des_encrypt timeout=300
multi_block!(m_des_blocks_0, 0);
// @ob name=m_des_blocks_1 props=C04,C15 kind=bounded bound="n = 1 block" fn=des::Des::encrypt_with_backend,des::Des::encrypt_block uses=c_des_encrypt timeout=300
multi_block!(m_des_blocks_1, 1);
// @ob name=m_des_blocks_3 props=C04,C15 kind=bounded bound="n = 3 blocks" fn=des::Des::encrypt_with_backend,des::Des::encrypt_block uses=c_des_encrypt timeout=300
multi_block!(m_des_blocks_3, 3);
