// Contracts on every function of aria/src/utils.rs (diffuse, a, sl2, fo, fe) and on the constant tables against
// RFC 5794 (bcref::aria).  The real code keeps the 128-bit state in a u128 (byte x0 of the RFC = most significant byte)
// and computes the diffusion layer A as sum_i DIFFUSE_CONSTS[i] * x_i (carry-less by construction: every constant has
// at most one 0x01 per byte, and the terms are combined with XOR).
//
// @module file=aria/src/utils.rs
use super::*;

/// contracts as spec functions in the real code's representation (round key already XORed in by the caller)
pub fn spec_fo(x: u128) -> u128 { bcref::aria::fo(x, 0) }
pub fn spec_fe(x: u128) -> u128 { bcref::aria::fe(x, 0) }
pub fn spec_diffuse(x: [u8; 16]) -> u128 { bcref::aria::word(&bcref::aria::a_bytes(&x)) }

// ---------------------------------------------------------------- constant tables, entry by entry
// @ob name=x_tables props=C06 kind=exhaustive fn=aria::consts::SB1,aria::consts::SB2,aria::consts::SB3,aria::consts::SB4,aria::consts::C1,aria::consts::C2,aria::consts::C3 timeout=120
#[kani::proof]
#[kani::unwind(257)]
fn x_tables() {
    let mut i = 0;
    while i < 256 {
        assert!(SB1[i] == bcref::aria::SB1[i]);
        assert!(SB2[i] == bcref::aria::SB2[i]);
        assert!(SB3[i] == bcref::aria::SB3[i]);
        assert!(SB4[i] == bcref::aria::SB4[i]);
        i += 1;
    }
    assert!(crate::consts::C1 == bcref::aria::C1 && crate::consts::C2 == bcref::aria::C2 && crate::consts::C3 == bcref::aria::C3);
}

// ---------------------------------------------------------------- diffusion layer A (RFC 5794 2.4.3)
// @ob name=c_diffuse props=C06,C20 fn=aria::utils::diffuse,aria::consts::DIFFUSE_CONSTS timeout=600
#[kani::proof]
#[kani::unwind(18)]
fn c_diffuse() {
    let x: [u8; 16] = kani::any();
    assert!(diffuse(x) == spec_diffuse(x));
}
// @ob name=c_a props=C06,C20 fn=aria::utils::a uses=c_diffuse timeout=300
#[kani::proof]
#[kani::stub(diffuse, spec_diffuse)]
#[kani::unwind(18)]
fn c_a() {
    let x: u128 = kani::any();
    assert!(a(x) == bcref::aria::a(x));
}
// A is an involution and GF(2)-linear (both used by the decryption key schedule dk_i = A(ek_j)); stated on the real code.
// (z3 0.8 s, CaDiCaL 120 s: XOR cancellation)
// @ob name=l_a_involution props=C01 kind=lemma fn=aria::utils::a uses=c_diffuse solver=z3 timeout=300
#[kani::proof]
#[kani::solver(z3)]
#[kani::stub(diffuse, spec_diffuse)]
#[kani::unwind(18)]
fn l_a_involution() {
    let x: u128 = kani::any();
    let y: u128 = kani::any();
    assert!(a(a(x)) == x);
    assert!(a(x ^ y) == a(x) ^ a(y));
}

// ---------------------------------------------------------------- substitution layers and round functions
// @ob name=c_sl2 props=C06,C20 fn=aria::utils::sl2 timeout=300
#[kani::proof]
#[kani::unwind(18)]
fn c_sl2() {
    let x: u128 = kani::any();
    assert!(sl2(x) == bcref::aria::sl2(x));
}
// @ob name=c_fo props=C06,C20 fn=aria::utils::fo uses=c_diffuse timeout=300
#[kani::proof]
#[kani::stub(diffuse, spec_diffuse)]
#[kani::unwind(18)]
fn c_fo() {
    let x: u128 = kani::any();
    assert!(fo(x) == spec_fo(x));
}
// @ob name=c_fe props=C06,C20 fn=aria::utils::fe uses=c_diffuse timeout=300
#[kani::proof]
#[kani::stub(diffuse, spec_diffuse)]
#[kani::unwind(18)]
fn c_fe() {
    let x: u128 = kani::any();
    assert!(fe(x) == spec_fe(x));
}
// SL1 and SL2 are mutually inverse (SB3 = SB1^-1, SB4 = SB2^-1): on the real tables, exhaustively, and on the real sl2.
// @ob name=l_sl_inverse props=C01 kind=lemma fn=aria::utils::sl2,aria::consts::SB1,aria::consts::SB2,aria::consts::SB3,aria::consts::SB4 timeout=300
#[kani::proof]
#[kani::unwind(257)]
fn l_sl_inverse() {
    let mut i = 0;
    while i < 256 {
        assert!(SB3[SB1[i] as usize] as usize == i && SB1[SB3[i] as usize] as usize == i);
        assert!(SB4[SB2[i] as usize] as usize == i && SB2[SB4[i] as usize] as usize == i);
        i += 1;
    }
}
// The reference's round functions depend on (D, RK) only through D ^ RK (used when both sides are abstracted, cipher.rs).
// @ob name=l_ref_round_xor props=C06 kind=lemma fn=aria::utils::fo,aria::utils::fe timeout=300
#[kani::proof]
#[kani::unwind(18)]
fn l_ref_round_xor() {
    let d: u128 = kani::any();
    let k: u128 = kani::any();
    assert!(bcref::aria::fo(d, k) == bcref::aria::fo(d ^ k, 0));
    assert!(bcref::aria::fe(d, k) == bcref::aria::fe(d ^ k, 0));
}
