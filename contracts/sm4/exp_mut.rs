// sanity mutations (temporary): every harness here must be REFUTED
// @module file=sm4/src/lib.rs
use super::*;
use super::__vp_cipher::{any_sm4, eq32, eq_bytes16, enc, dec, uft, uftp, spec_new};
use cipher::{Array, KeyInit};
// expected value mutated: encryption compared with the reference's decryption
// @ob name=mut_encrypt props=C06 fn=x timeout=300
#[kani::proof]
#[kani::stub(t, uft::f)]
#[kani::stub(bcref::sm4::t, uft::f)]
#[kani::unwind(37)]
fn mut_encrypt() {
    let c = any_sm4();
    let b: [u8; 16] = kani::any();
    let r = enc(&c, b);
    uft::replay_fwd();
    let e = bcref::sm4::decrypt_with(&c.rk, &b);
    assert!(uft::done() && uft::calls() == 32);
    assert!(eq_bytes16(&r, &e));
}
// expected value mutated: one round key off by one bit
// @ob name=mut_ks props=C06 fn=x timeout=300
#[kani::proof]
#[kani::stub(t_prime, uftp::f)]
#[kani::stub(bcref::sm4::t_prime, uftp::f)]
#[kani::unwind(37)]
fn mut_ks() {
    let k: [u8; 16] = kani::any();
    let c = Sm4::new(&Array(k));
    uftp::replay_fwd();
    let mut e = spec_new(&k);
    e[17] ^= 1;
    assert!(uftp::done() && uftp::calls() == 32);
    assert!(eq32(&c.rk, &e));
}
