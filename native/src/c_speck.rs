//! speck (package speck-cipher): the ten Speck types against ePrint 2013/404 (bcref::speck), C10.
use crate::generic::*;
use crate::util::*;
use bcref::speck as r;

macro_rules! speck {
    ($d:ident, $ty:ident, $name:literal, $kl:literal, $n:literal, $m:literal, $t:literal, $a1:literal, $a2:literal) => {
        desc!($d: speck_cipher::$ty, "speck", $name, [$kl], "C10", [clone, debug, alg], names [$name], alg ["speck", $a1, $a2],
            |k, b, dec| {
                let mut x = b.to_vec();
                if dec { r::decrypt::<$m, $t>($n, k, &mut x) } else { r::encrypt::<$m, $t>($n, k, &mut x) }
                Some(x)
            });
    };
}
speck!(D32_64, Speck32_64, "Speck32_64", 8usize, 16, 4, 22, "32", "64");
speck!(D48_72, Speck48_72, "Speck48_72", 9usize, 24, 3, 22, "48", "72");
speck!(D48_96, Speck48_96, "Speck48_96", 12usize, 24, 4, 23, "48", "96");
speck!(D64_96, Speck64_96, "Speck64_96", 12usize, 32, 3, 26, "64", "96");
speck!(D64_128, Speck64_128, "Speck64_128", 16usize, 32, 4, 27, "64", "128");
speck!(D96_96, Speck96_96, "Speck96_96", 12usize, 48, 2, 28, "96", "96");
speck!(D96_144, Speck96_144, "Speck96_144", 18usize, 48, 3, 29, "96", "144");
speck!(D128_128, Speck128_128, "Speck128_128", 16usize, 64, 2, 32, "128", "128");
speck!(D128_192, Speck128_192, "Speck128_192", 24usize, 64, 3, 33, "128", "192");
speck!(D128_256, Speck128_256, "Speck128_256", 32usize, 64, 4, 34, "128", "256");

pub fn run() {
    visit::<D32_64>();
    visit::<D48_72>();
    visit::<D48_96>();
    visit::<D64_96>();
    visit::<D64_128>();
    visit::<D96_96>();
    visit::<D96_144>();
    visit::<D128_128>();
    visit::<D128_192>();
    visit::<D128_256>();
}
