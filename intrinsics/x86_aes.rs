// Software models of the x86 AES-NI instructions used by aes::ni (Intel SDM vol. 2A, AESENC / AESENCLAST /
// AESDEC / AESDECLAST / AESIMC / AESKEYGENASSIST), written over bcref::aes' FIPS-197 byte-level
// transformations.  TRUSTED: these models stand for the hardware in every NI obligation (Kani cannot execute the
// LLVM AES intrinsics).  `/verif/intrinsics/selftest` compares them with this host's real instructions at setup.
// Byte i of the XMM register = byte i of the 16-byte block in memory = FIPS-197 in[i] (state s[r][c] = in[r + 4c]).
// Also: non-deterministic models of CPUID / XGETBV, so every obligation through `autodetect` covers both
// "AES-NI present" and "absent".

pub mod x86_models {
    use core::arch::x86_64::{__m128i, CpuidResult};
    use bcref::aes as fips;
    #[inline(always)]
    pub fn to_b(x: __m128i) -> [u8; 16] { unsafe { core::mem::transmute(x) } }
    #[inline(always)]
    pub fn from_b(x: [u8; 16]) -> __m128i { unsafe { core::mem::transmute(x) } }

    /// AESENC: tmp = ShiftRows(state); tmp = SubBytes(tmp); tmp = MixColumns(tmp); dest = tmp xor roundkey
    pub unsafe fn aesenc(a: __m128i, k: __m128i) -> __m128i {
        from_b(fips::xor_block(&fips::mix_columns(&fips::sub_bytes(&fips::shift_rows(&to_b(a)))), &to_b(k)))
    }
    /// AESENCLAST: ShiftRows, SubBytes, xor roundkey
    pub unsafe fn aesenclast(a: __m128i, k: __m128i) -> __m128i {
        from_b(fips::xor_block(&fips::sub_bytes(&fips::shift_rows(&to_b(a))), &to_b(k)))
    }
    /// AESDEC: InvShiftRows, InvSubBytes, InvMixColumns, xor roundkey
    pub unsafe fn aesdec(a: __m128i, k: __m128i) -> __m128i {
        from_b(fips::xor_block(&fips::inv_mix_columns(&fips::inv_sub_bytes(&fips::inv_shift_rows(&to_b(a)))), &to_b(k)))
    }
    /// AESDECLAST: InvShiftRows, InvSubBytes, xor roundkey
    pub unsafe fn aesdeclast(a: __m128i, k: __m128i) -> __m128i {
        from_b(fips::xor_block(&fips::inv_sub_bytes(&fips::inv_shift_rows(&to_b(a))), &to_b(k)))
    }
    /// AESIMC: InvMixColumns
    pub unsafe fn aesimc(a: __m128i) -> __m128i { from_b(fips::inv_mix_columns(&to_b(a))) }
    /// AESKEYGENASSIST xmm, imm8: X3 = src[127:96], X1 = src[63:32];
    /// dest = [ SubWord(X1), RotWord(SubWord(X1)) xor RCON, SubWord(X3), RotWord(SubWord(X3)) xor RCON ] (dwords 0..3),
    /// RotWord([b0,b1,b2,b3]) = [b1,b2,b3,b0] on the little-endian dword's bytes.
    pub unsafe fn aeskeygenassist<const IMM8: i32>(a: __m128i) -> __m128i {
        let s = to_b(a);
        let sw = |o: usize| [fips::SBOX[s[o] as usize], fips::SBOX[s[o + 1] as usize], fips::SBOX[s[o + 2] as usize], fips::SBOX[s[o + 3] as usize]];
        let x1 = sw(4);
        let x3 = sw(12);
        let rc = IMM8 as u8;
        from_b([x1[0], x1[1], x1[2], x1[3], x1[1] ^ rc, x1[2], x1[3], x1[0],
                x3[0], x3[1], x3[2], x3[3], x3[1] ^ rc, x3[2], x3[3], x3[0]])
    }

    /// CPUID / XGETBV: any answer (so both detection outcomes are explored)
    pub unsafe fn cpuid(_leaf: u32) -> CpuidResult {
        CpuidResult { eax: kani::any(), ebx: kani::any(), ecx: kani::any(), edx: kani::any() }
    }
    pub unsafe fn cpuid_count(_leaf: u32, _sub: u32) -> CpuidResult {
        CpuidResult { eax: kani::any(), ebx: kani::any(), ecx: kani::any(), edx: kani::any() }
    }
    pub unsafe fn xgetbv(_xcr: u32) -> u64 { kani::any() }
}
