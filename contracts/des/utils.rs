// Contracts on every function of des/src/utils.rs against FIPS 46-3 (bcref::des).
// Representation used by the real code: 32-bit halves, 48-bit subkeys and E outputs, 56-bit C|D
// all sit LEFT-aligned in a u64 (most significant bit = bit 1 of the standard).
//
// @module file=des/src/utils.rs
//
// NOTE (Kani 0.68): a contract on a function is also *asserted* at every ordinary call of it, and there an
// `ensures` that names a `mut` by-value parameter sees the mutated value.  pc1, fp, ip, rotate take
// `mut` parameters, so their contracts are stated in harness form (same text, asserted around the
// real function) instead of as injected attributes; they are cheap enough to be inlined by callers.
// @attr anchor="fn pc2(key: u64)" :: kani::ensures(|r| *r == bcref::des::pc2(key >> 8) << 16)
// @attr anchor="fn e(block: u64)" :: kani::ensures(|r| *r == bcref::des::e((block >> 32) as u32) << 16)
// @attr anchor="fn p(block: u64)" :: kani::requires(block & 0xFFFF_FFFF == 0)
// @attr anchor="fn p(block: u64)" :: kani::ensures(|r| *r == (bcref::des::p((block >> 32) as u32) as u64) << 32)
// @attr anchor="fn apply_sboxes(input: u64)" :: kani::ensures(|r| *r == (bcref::des::sboxes(input >> 16) as u64) << 32)
// @attr anchor="fn f(input: u64, key: u64)" :: kani::ensures(|r| *r == (bcref::des::f((input >> 32) as u32, key >> 16) as u64) << 32)

use super::*;

/// One FIPS 46-3 round on the packed (L,R) word with a left-aligned 48-bit subkey.
pub fn spec_round(input: u64, key: u64) -> u64 {
    let (l, r) = bcref::des::feistel((input >> 32) as u32, input as u32, key >> 16);
    ((l as u64) << 32) | r as u64
}

/// S_{i+1} of FIPS 46-3 applied to the i-th 6-bit group (from the top) of a left-aligned 48-bit word:
/// row = first and last bit of the group, column = the middle four.
pub fn spec_sbox(input: u64, i: usize) -> u8 {
    let b = ((input >> (58 - 6 * i)) & 0x3f) as usize;
    bcref::des::S[i][((b >> 4) & 2) | (b & 1)][(b >> 1) & 0xf]
}

pub fn spec_gen_keys(key: u64) -> [u64; 16] {
    let ks = bcref::des::key_schedule(key);
    let mut out = [0u64; 16];
    let mut i = 0;
    while i < 16 {
        out[i] = ks[i] << 16;
        i += 1;
    }
    out
}

/// Word-wise array equality (`==` on arrays goes through memcmp byte loops in CBMC: slow and needs unwind 8*N+1).
pub fn eq16(a: &[u64; 16], b: &[u64; 16]) -> bool {
    let mut ok = true;
    let mut i = 0;
    while i < 16 {
        ok &= a[i] == b[i];
        i += 1;
    }
    ok
}

// @ob name=c_pc1 props=C05,C20 fn=des::utils::pc1 timeout=120
#[kani::proof]
#[kani::unwind(65)]
fn c_pc1() { let key: u64 = kani::any(); assert!(pc1(key) == bcref::des::pc1(key) << 8); }

// @ob name=c_pc2 props=C05,C20 fn=des::utils::pc2 timeout=300
#[kani::proof_for_contract(pc2)]
#[kani::unwind(65)]
fn c_pc2() { pc2(kani::any()); }

// @ob name=c_fp props=C05,C20 fn=des::utils::fp timeout=120
#[kani::proof]
#[kani::unwind(65)]
fn c_fp() { let m: u64 = kani::any(); assert!(fp(m) == bcref::des::fp(m)); }

// @ob name=c_ip props=C05,C20 fn=des::utils::ip timeout=120
#[kani::proof]
#[kani::unwind(65)]
fn c_ip() { let m: u64 = kani::any(); assert!(ip(m) == bcref::des::ip(m)); }

// @ob name=l_ip_fp_inverse props=C01 kind=lemma fn=des::utils::ip,des::utils::fp timeout=120
#[kani::proof]
fn l_ip_fp_inverse() {
    let x: u64 = kani::any();
    assert!(fp(ip(x)) == x);
    assert!(ip(fp(x)) == x);
}

// @ob name=c_e props=C05,C20 fn=des::utils::e timeout=120
#[kani::proof_for_contract(e)]
#[kani::unwind(65)]
fn c_e() { e(kani::any()); }

// @ob name=c_p props=C05,C20 fn=des::utils::p timeout=300
#[kani::proof_for_contract(p)]
#[kani::unwind(65)]
fn c_p() { p(kani::any()); }

// @ob name=c_rotate props=C05,C20 fn=des::utils::rotate timeout=120
#[kani::proof]
fn c_rotate() {
    let val: u64 = kani::any();
    let shift: u8 = kani::any();
    kani::assume((shift == 1 || shift == 2) && val < (1 << 28)); // precondition from the only call site (SHIFTS entries, 28-bit halves)
    kani::cover!(shift == 2);
    assert!(rotate(val, shift) == bcref::des::rotl28(val as u32, shift as u32) as u64);
}

// (the 32-bit equality is hard for every solver: kissat ~100 s, cadical ~500 s, z3 > 300 s; one nibble alone takes 2 s)
// @ob name=c_apply_sboxes props=C05,C20 fn=des::utils::apply_sboxes timeout=900 solver=kissat
#[kani::proof_for_contract(apply_sboxes)]
#[kani::solver(kissat)]
#[kani::unwind(9)]
fn c_apply_sboxes() { apply_sboxes(kani::any()); }

// f and round are proved against the contracts of their callees (modular: e, p, apply_sboxes are replaced by
// their verified contracts), so what is checked here is the composition only.
// @ob name=c_f props=C05,C20 fn=des::utils::f timeout=300
#[kani::proof_for_contract(f)]
#[kani::stub_verified(e)]
#[kani::stub_verified(p)]
#[kani::stub_verified(apply_sboxes)]
#[kani::unwind(65)]
fn c_f() { f(kani::any(), kani::any()); }

// @ob name=c_round props=C05,C20 fn=des::utils::round timeout=300
// harness form (round is replaced by spec_round with kani::stub in des.rs, which Kani refuses for a function that
// carries contract attributes); its callee f is replaced by f's verified contract.
#[kani::proof]
#[kani::stub_verified(f)]
#[kani::unwind(65)]
fn c_round() {
    let input: u64 = kani::any();
    let key: u64 = kani::any();
    assert!(round(input, key) == spec_round(input, key));
}

// gen_keys: harness-form contract (the same statement as an injected `ensures` + proof_for_contract costs 413 s
// instead of 14 s: Kani's frame-condition instrumentation of the array result dominates).
// @ob name=c_gen_keys props=C05,C20 fn=des::utils::gen_keys timeout=600
#[kani::proof]
#[kani::unwind(65)]
fn c_gen_keys() {
    let key: u64 = kani::any();
    let r = gen_keys(key);
    assert!(eq16(&r, &spec_gen_keys(key)));
}

// Parity bits (least significant bit of each key byte) never reach the subkeys.
// @ob name=l_parity_ignored props=C05 kind=lemma fn=des::utils::gen_keys,des::utils::pc1 timeout=300
#[kani::proof]
fn l_parity_ignored() {
    let k: u64 = kani::any();
    let m: u64 = kani::any();
    kani::assume(m & !bcref::des::PARITY_MASK == 0);
    kani::cover!(m == bcref::des::PARITY_MASK);
    assert!(pc1(k) == pc1(k ^ m));
}

// Complementation, modularly: every subkey of !k is the complement (within 48 bits) of the subkey of k,
// E commutes with complement, so f(!r, !k) = f(r, k); IP / FP commute with complement.
// @ob name=l_complement_keys props=C05 kind=lemma fn=des::utils::gen_keys timeout=600
#[kani::proof]
#[kani::unwind(17)]
fn l_complement_keys() {
    let k: u64 = kani::any();
    let a = gen_keys(k);
    let b = gen_keys(!k);
    let mut i = 0;
    while i < 16 {
        assert!(b[i] == !a[i] & 0xFFFF_FFFF_FFFF_0000);
        i += 1;
    }
}

// @ob name=l_complement_round props=C05 kind=lemma fn=des::utils::round,des::utils::f,des::utils::e timeout=600
#[kani::proof]
#[kani::unwind(9)]
fn l_complement_round() {
    let x: u64 = kani::any();
    let k: u64 = kani::any();
    kani::assume(k & 0xFFFF == 0);
    assert!(round(!x, !k & 0xFFFF_FFFF_FFFF_0000) == !round(x, k));
    assert!(ip(!x) == !ip(x));
    assert!(fp(!x) == !fp(x));
}
