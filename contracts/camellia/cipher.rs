// Contracts on camellia/src/lib.rs (+ the three KeyInit impls in camellia128/192/256.rs): the block functions of the
// three exported types against RFC 3713 (bcref::camellia) for EVERY value of the subkey array, the public API on
// bytes for every key and block, and the round trip C01 in both orders.
//
// Decomposition: utils.rs shows that the callees f, fl, flinv ARE the RFC's F, FL, FLINV (c_f, c_fl, c_flinv).  Here F is
// replaced on BOTH sides (crate::utils::f and bcref::camellia::f) by one record / replay uninterpreted function of
// (input ^ key) (see contracts/sm4/rr_uf.rs; l_f_xor shows that F depends on its two arguments only through their XOR),
// FL / FLINV by the reference's (cheap, bitwise), so what is checked is the round structure, subkey order and byte
// plumbing, for every F.  For the round trip FL / FLINV stay the real ones (they must be mutually inverse) and
// decryption presents F with the arguments of encryption in reverse order.
//
// @module file=camellia/src/lib.rs
use super::*;
use crate::utils::__vp_utils::{eq26, eq34, sk18_of, sk24_of, spec_gen_subkeys26, spec_get_subkeys34, spec_set_ka, spec_set_kb};
use cipher::{Array, KeyInit};

pub fn any128() -> Camellia128 { Camellia128 { k: kani::any(), _pd: PhantomData } }
pub fn any192() -> Camellia192 { Camellia192 { k: kani::any(), _pd: PhantomData } }
pub fn any256() -> Camellia256 { Camellia256 { k: kani::any(), _pd: PhantomData } }

pub fn eq_bytes16(a: &[u8; 16], b: &[u8; 16]) -> bool {
    let mut ok = true;
    let mut i = 0;
    while i < 16 {
        ok &= a[i] == b[i];
        i += 1;
    }
    ok
}
pub fn enc<C: cipher::BlockCipherEncrypt + cipher::BlockSizeUser<BlockSize = U16>>(c: &C, b: [u8; 16]) -> [u8; 16] {
    let mut blk = Array(b);
    cipher::BlockCipherEncrypt::encrypt_block(c, &mut blk);
    blk.0
}
pub fn dec<C: cipher::BlockCipherDecrypt + cipher::BlockSizeUser<BlockSize = U16>>(c: &C, b: [u8; 16]) -> [u8; 16] {
    let mut blk = Array(b);
    cipher::BlockCipherDecrypt::decrypt_block(c, &mut blk);
    blk.0
}

include!("@VERIF@/contracts/sm4/rr_uf.rs");
rr_uf!(uff, u64); // stands for x -> F(x, 0); F(x, k) = F(x ^ k, 0) by l_f_xor
pub fn uf_f(input: u64, key: u64) -> u64 { uff::f(input ^ key) }

// F depends on (input, key) only through input ^ key: real and reference.
// @ob name=l_f_xor props=C06 kind=lemma fn=camellia::utils::f timeout=120
#[kani::proof]
fn l_f_xor() {
    let x: u64 = kani::any();
    let k: u64 = kani::any();
    assert!(crate::utils::f(x, k) == crate::utils::f(x ^ k, 0));
    assert!(bcref::camellia::f(x, k) == bcref::camellia::f(x ^ k, 0));
}

// ---------------------------------------------------------------- block functions == RFC 3713, every subkey state
// @ob name=c_enc_128 props=C06,C20 fn=camellia::Camellia128::encrypt_block uses=c_f,l_f_xor,c_fl,c_flinv timeout=300
#[kani::proof]
#[kani::stub(crate::utils::f, uf_f)]
#[kani::stub(bcref::camellia::f, uf_f)]
#[kani::stub(crate::utils::fl, bcref::camellia::fl)]
#[kani::stub(crate::utils::flinv, bcref::camellia::flinv)]
#[kani::unwind(35)]
fn c_enc_128() {
    let c = any128();
    let b: [u8; 16] = kani::any();
    let r = u128::from_be_bytes(enc(&c, b));
    uff::replay_fwd();
    let e = bcref::camellia::encrypt_with_18(&sk18_of(&c.k), u128::from_be_bytes(b));
    assert!(uff::done() && uff::calls() == 18);
    assert!(r == e);
}
// @ob name=c_dec_128 props=C06,C20 fn=camellia::Camellia128::decrypt_block uses=c_f,l_f_xor,c_fl,c_flinv timeout=300
#[kani::proof]
#[kani::stub(crate::utils::f, uf_f)]
#[kani::stub(bcref::camellia::f, uf_f)]
#[kani::stub(crate::utils::fl, bcref::camellia::fl)]
#[kani::stub(crate::utils::flinv, bcref::camellia::flinv)]
#[kani::unwind(35)]
fn c_dec_128() {
    let c = any128();
    let b: [u8; 16] = kani::any();
    let r = u128::from_be_bytes(dec(&c, b));
    uff::replay_fwd();
    let e = bcref::camellia::decrypt_with_18(&sk18_of(&c.k), u128::from_be_bytes(b));
    assert!(uff::done() && uff::calls() == 18);
    assert!(r == e);
}

macro_rules! block24 {
    ($enc:ident, $dec:ident, $mk:ident) => {
        #[kani::proof]
        #[kani::stub(crate::utils::f, uf_f)]
        #[kani::stub(bcref::camellia::f, uf_f)]
        #[kani::stub(crate::utils::fl, bcref::camellia::fl)]
        #[kani::stub(crate::utils::flinv, bcref::camellia::flinv)]
        #[kani::unwind(35)]
        fn $enc() {
            let c = $mk();
            let b: [u8; 16] = kani::any();
            let r = u128::from_be_bytes(enc(&c, b));
            uff::replay_fwd();
            let e = bcref::camellia::encrypt_with_24(&sk24_of(&c.k), u128::from_be_bytes(b));
            assert!(uff::done() && uff::calls() == 24);
            assert!(r == e);
        }
        #[kani::proof]
        #[kani::stub(crate::utils::f, uf_f)]
        #[kani::stub(bcref::camellia::f, uf_f)]
        #[kani::stub(crate::utils::fl, bcref::camellia::fl)]
        #[kani::stub(crate::utils::flinv, bcref::camellia::flinv)]
        #[kani::unwind(35)]
        fn $dec() {
            let c = $mk();
            let b: [u8; 16] = kani::any();
            let r = u128::from_be_bytes(dec(&c, b));
            uff::replay_fwd();
            let e = bcref::camellia::decrypt_with_24(&sk24_of(&c.k), u128::from_be_bytes(b));
            assert!(uff::done() && uff::calls() == 24);
            assert!(r == e);
        }
    };
}
// @ob name=c_enc_192 props=C06,C20 fn=camellia::Camellia192::encrypt_block uses=c_f,l_f_xor,c_fl,c_flinv timeout=300
// @ob name=c_dec_192 props=C06,C20 fn=camellia::Camellia192::decrypt_block uses=c_f,l_f_xor,c_fl,c_flinv timeout=300
block24!(c_enc_192, c_dec_192, any192);
// @ob name=c_enc_256 props=C06,C20 fn=camellia::Camellia256::encrypt_block uses=c_f,l_f_xor,c_fl,c_flinv timeout=300
// @ob name=c_dec_256 props=C06,C20 fn=camellia::Camellia256::decrypt_block uses=c_f,l_f_xor,c_fl,c_flinv timeout=300
block24!(c_enc_256, c_dec_256, any256);

// ---------------------------------------------------------------- key schedules (KeyInit::new) == RFC 3713 section 2.2
// callees set_ka, set_kb, gen_subkeys26, get_subkeys34 replaced by their contracts (utils.rs)
// @ob name=c_new_128 props=C06,C20 fn=camellia::Camellia128::new uses=c_set_ka,c_gen_subkeys26 timeout=300
#[kani::proof]
#[kani::stub(crate::utils::set_ka, spec_set_ka)]
#[kani::stub(crate::utils::gen_subkeys26, spec_gen_subkeys26)]
#[kani::stub(bcref::camellia::f, uf_f)]
#[kani::unwind(35)]
fn c_new_128() {
    let k: [u8; 16] = kani::any();
    let c = Camellia128::new(&Array(k));
    uff::replay_fwd();
    let s = bcref::camellia::key_schedule_128(&k);
    assert!(uff::done() && uff::calls() == 4);
    assert!(eq26(&c.k, &crate::utils::__vp_utils::flat26(&s)));
}
// @ob name=c_new_192 props=C06,C20 fn=camellia::Camellia192::new uses=c_set_ka,c_set_kb,c_get_subkeys34 timeout=300
#[kani::proof]
#[kani::stub(crate::utils::set_ka, spec_set_ka)]
#[kani::stub(crate::utils::set_kb, spec_set_kb)]
#[kani::stub(crate::utils::get_subkeys34, spec_get_subkeys34)]
#[kani::stub(bcref::camellia::f, uf_f)]
#[kani::unwind(35)]
fn c_new_192() {
    let k: [u8; 24] = kani::any();
    let c = Camellia192::new(&Array(k));
    uff::replay_fwd();
    let s = bcref::camellia::key_schedule_192(&k);
    assert!(uff::done() && uff::calls() == 6);
    assert!(eq34(&c.k, &crate::utils::__vp_utils::flat34(&s)));
}
// @ob name=c_new_256 props=C06,C20 fn=camellia::Camellia256::new uses=c_set_ka,c_set_kb,c_get_subkeys34 timeout=300
#[kani::proof]
#[kani::stub(crate::utils::set_ka, spec_set_ka)]
#[kani::stub(crate::utils::set_kb, spec_set_kb)]
#[kani::stub(crate::utils::get_subkeys34, spec_get_subkeys34)]
#[kani::stub(bcref::camellia::f, uf_f)]
#[kani::unwind(35)]
fn c_new_256() {
    let k: [u8; 32] = kani::any();
    let c = Camellia256::new(&Array(k));
    uff::replay_fwd();
    let s = bcref::camellia::key_schedule_256(&k);
    assert!(uff::done() && uff::calls() == 6);
    assert!(eq34(&c.k, &crate::utils::__vp_utils::flat34(&s)));
}

// ---------------------------------------------------------------- public API on bytes, every key and block
// Only the leaf functions f (abstracted on both sides), fl, flinv are replaced; set_ka / set_kb / subkey generation / rounds are real.
// F is called 4 (+2 for KB) times by the key schedule and 18 / 24 times by the rounds.
macro_rules! api {
    ($enc:ident, $dec:ident, $ty:ident, $n:expr, $calls:expr, $refenc:path, $refdec:path) => {
        #[kani::proof]
        #[kani::stub(crate::utils::f, uf_f)]
        #[kani::stub(bcref::camellia::f, uf_f)]
        #[kani::stub(crate::utils::fl, bcref::camellia::fl)]
        #[kani::stub(crate::utils::flinv, bcref::camellia::flinv)]
        #[kani::unwind(35)]
        fn $enc() {
            let k: [u8; $n] = kani::any();
            let b: [u8; 16] = kani::any();
            let c = $ty::new(&Array(k));
            let r = enc(&c, b);
            uff::replay_fwd();
            let e = $refenc(&k, &b);
            assert!(uff::done() && uff::calls() == $calls);
            assert!(eq_bytes16(&r, &e));
        }
        #[kani::proof]
        #[kani::stub(crate::utils::f, uf_f)]
        #[kani::stub(bcref::camellia::f, uf_f)]
        #[kani::stub(crate::utils::fl, bcref::camellia::fl)]
        #[kani::stub(crate::utils::flinv, bcref::camellia::flinv)]
        #[kani::unwind(35)]
        fn $dec() {
            let k: [u8; $n] = kani::any();
            let b: [u8; 16] = kani::any();
            let c = $ty::new(&Array(k));
            let r = dec(&c, b);
            uff::replay_fwd();
            let e = $refdec(&k, &b);
            assert!(uff::done() && uff::calls() == $calls);
            assert!(eq_bytes16(&r, &e));
        }
    };
}
// @ob name=c_api_enc_128 props=C06,C20 fn=camellia::Camellia128::new,camellia::Camellia128::encrypt_block uses=c_f,l_f_xor,c_fl,c_flinv timeout=600
// @ob name=c_api_dec_128 props=C06,C20 fn=camellia::Camellia128::new,camellia::Camellia128::decrypt_block uses=c_f,l_f_xor,c_fl,c_flinv timeout=600
api!(c_api_enc_128, c_api_dec_128, Camellia128, 16, 22, bcref::camellia::encrypt_128, bcref::camellia::decrypt_128);
// @ob name=c_api_enc_192 props=C06,C20 fn=camellia::Camellia192::new,camellia::Camellia192::encrypt_block uses=c_f,l_f_xor,c_fl,c_flinv timeout=600
// @ob name=c_api_dec_192 props=C06,C20 fn=camellia::Camellia192::new,camellia::Camellia192::decrypt_block uses=c_f,l_f_xor,c_fl,c_flinv timeout=600
api!(c_api_enc_192, c_api_dec_192, Camellia192, 24, 30, bcref::camellia::encrypt_192, bcref::camellia::decrypt_192);
// @ob name=c_api_enc_256 props=C06,C20 fn=camellia::Camellia256::new,camellia::Camellia256::encrypt_block uses=c_f,l_f_xor,c_fl,c_flinv timeout=600
// @ob name=c_api_dec_256 props=C06,C20 fn=camellia::Camellia256::new,camellia::Camellia256::decrypt_block uses=c_f,l_f_xor,c_fl,c_flinv timeout=600
api!(c_api_enc_256, c_api_dec_256, Camellia256, 32, 30, bcref::camellia::encrypt_256, bcref::camellia::decrypt_256);

// ---------------------------------------------------------------- C01 round trips, every subkey state, both orders
macro_rules! roundtrip {
    ($fwd:ident, $rev:ident, $mk:ident, $calls:expr) => {
        #[kani::proof]
        #[kani::stub(crate::utils::f, uf_f)]
        #[kani::unwind(35)]
        fn $fwd() {
            let c = $mk();
            let b: [u8; 16] = kani::any();
            let y = enc(&c, b);
            uff::replay_bwd();
            let x = dec(&c, y);
            assert!(uff::done() && uff::calls() == $calls);
            assert!(eq_bytes16(&x, &b));
        }
        #[kani::proof]
        #[kani::stub(crate::utils::f, uf_f)]
        #[kani::unwind(35)]
        fn $rev() {
            let c = $mk();
            let b: [u8; 16] = kani::any();
            let y = dec(&c, b);
            uff::replay_bwd();
            let x = enc(&c, y);
            assert!(uff::done() && uff::calls() == $calls);
            assert!(eq_bytes16(&x, &b));
        }
    };
}
// @ob name=l_roundtrip_128 props=C01 kind=lemma fn=camellia::Camellia128::encrypt_block,camellia::Camellia128::decrypt_block,camellia::utils::fl,camellia::utils::flinv uses=c_f,l_f_xor timeout=600
// @ob name=l_roundtrip_rev_128 props=C01 kind=lemma fn=camellia::Camellia128::encrypt_block,camellia::Camellia128::decrypt_block,camellia::utils::fl,camellia::utils::flinv uses=c_f,l_f_xor timeout=600
roundtrip!(l_roundtrip_128, l_roundtrip_rev_128, any128, 18);
// @ob name=l_roundtrip_192 props=C01 kind=lemma fn=camellia::Camellia192::encrypt_block,camellia::Camellia192::decrypt_block,camellia::utils::fl,camellia::utils::flinv uses=c_f,l_f_xor timeout=600
// @ob name=l_roundtrip_rev_192 props=C01 kind=lemma fn=camellia::Camellia192::encrypt_block,camellia::Camellia192::decrypt_block,camellia::utils::fl,camellia::utils::flinv uses=c_f,l_f_xor timeout=600
roundtrip!(l_roundtrip_192, l_roundtrip_rev_192, any192, 24);
// @ob name=l_roundtrip_256 props=C01 kind=lemma fn=camellia::Camellia256::encrypt_block,camellia::Camellia256::decrypt_block,camellia::utils::fl,camellia::utils::flinv uses=c_f,l_f_xor timeout=600
// @ob name=l_roundtrip_rev_256 props=C01 kind=lemma fn=camellia::Camellia256::encrypt_block,camellia::Camellia256::decrypt_block,camellia::utils::fl,camellia::utils::flinv uses=c_f,l_f_xor timeout=600
roundtrip!(l_roundtrip_256, l_roundtrip_rev_256, any256, 24);
