//! idea: Idea against Lai/Massey's IDEA (bcref::idea), C09.
use crate::generic::*;
use crate::util::*;
use bcref::idea as r;

desc!(DIdea: idea::Idea, "idea", "Idea", [16], "C09", [clone, debug, alg], names ["Idea"], alg ["idea"],
    |k, b, dec| Some(if dec { r::decrypt(&arr(k), &arr(b)) } else { r::encrypt(&arr(k), &arr(b)) }.to_vec()));

pub fn run() {
    visit::<DIdea>();
}
