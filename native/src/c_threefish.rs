//! threefish: Threefish256/512/1024 against Skein 1.3 (bcref::threefish), C10: the plain keyed constructor (zero
//! tweak), the tweak constructors (bytes and u64) and the u64 entry points.
use crate::generic::*;
use crate::util::*;
use bcref::threefish as r;
use cipher::consts::*;
use cipher::{
    BlockCipherDecClosure, BlockCipherDecrypt, BlockCipherEncClosure, BlockCipherEncrypt, BlockSizeUser, Key, KeyInit, KeySizeUser,
};

macro_rules! tf {
    ($d:ident, $dt:ident, $wrap:ident, $ty:ident, $name:literal, $tname:literal, $nw:literal, $ns:literal, $kb:literal, $ksz:ty, $bsz:ty, $bits:literal, $u64fn:ident) => {
        desc!($d: threefish::$ty, "threefish", $name, [$kb], "C10", [clone, debug, alg], names [$name], alg ["threefish", $bits],
            |k, b, dec| {
                let mut x = b.to_vec();
                if dec { r::decrypt::<$nw, $ns>(k, &[0u8; 16], &mut x) } else { r::encrypt::<$nw, $ns>(k, &[0u8; 16], &mut x) }
                Some(x)
            });

        /// the type keyed through `new_with_tweak`: "key" = key bytes || 16 tweak bytes
        pub struct $wrap(threefish::$ty);
        impl KeySizeUser for $wrap {
            type KeySize = $ksz;
        }
        impl BlockSizeUser for $wrap {
            type BlockSize = $bsz;
        }
        impl KeyInit for $wrap {
            fn new(key: &Key<Self>) -> Self {
                $wrap(threefish::$ty::new_with_tweak(&arr(&key[..$kb]), &arr(&key[$kb..])))
            }
        }
        impl BlockCipherEncrypt for $wrap {
            fn encrypt_with_backend(&self, f: impl BlockCipherEncClosure<BlockSize = Self::BlockSize>) {
                self.0.encrypt_with_backend(f)
            }
        }
        impl BlockCipherDecrypt for $wrap {
            fn decrypt_with_backend(&self, f: impl BlockCipherDecClosure<BlockSize = Self::BlockSize>) {
                self.0.decrypt_with_backend(f)
            }
        }
        desc!($dt: $wrap, "threefish", $tname, [$kb + 16], "C10", [], names [], alg [],
            |k, b, dec| {
                let mut x = b.to_vec();
                let tw: [u8; 16] = arr(&k[$kb..]);
                if dec { r::decrypt::<$nw, $ns>(&k[..$kb], &tw, &mut x) } else { r::encrypt::<$nw, $ns>(&k[..$kb], &tw, &mut x) }
                Some(x)
            };
            const WRAPPER: bool = true;
        );

        /// u64 entry points and u64 tweak constructor
        fn $u64fn() {
            scope("threefish", $name);
            if want("C16") {
                set_prop("C16");
                let mut rng = Rng::for_label(concat!("C16/threefish/tweak/", $name));
                let keys: Vec<Vec<u8>> = (0..8).map(|_| rng.plain($kb + 16)).collect();
                let by_bytes = |k: &[u8]| Some(threefish::$ty::new_with_tweak(<&[u8; $kb]>::try_from(&k[..$kb]).unwrap(), <&[u8; 16]>::try_from(&k[$kb..]).unwrap()));
                let by_words = |k: &[u8]| {
                    let kw: [u64; $nw] = r::bytes_to_words::<$nw>(&k[..$kb]);
                    let tw: [u64; 2] = [u64::from_le_bytes(arr(&k[$kb..$kb + 8])), u64::from_le_bytes(arr(&k[$kb + 8..]))];
                    Some(threefish::$ty::new_with_tweak_u64(&kw, &tw))
                };
                let cloned = |k: &[u8]| by_bytes(k).map(|c| c.clone());
                c16_core::<threefish::$ty>(&[("new_with_tweak", &by_bytes), ("new_with_tweak_u64", &by_words), ("new_with_tweak + clone", &cloned)], &keys);
            }
            if !(want("C10") || want("C01")) {
                return;
            }
            let mut rng = Rng::for_label(concat!("C10/threefish/u64/", $name));
            for _ in 0..iters() {
                let key = rng.bytes($kb);
                let tweak = rng.bytes(16);
                let x = rng.bytes($kb);
                input(&[("key", &key), ("tweak", &tweak), ("block", &x)]);
                guard("u64 entry points", || {
                    let kw: [u64; $nw] = r::bytes_to_words::<$nw>(&key);
                    let tw: [u64; 2] = [u64::from_le_bytes(arr(&tweak[..8])), u64::from_le_bytes(arr(&tweak[8..]))];
                    let xw: [u64; $nw] = r::bytes_to_words::<$nw>(&x);
                    let c_bytes = threefish::$ty::new_with_tweak(&arr(&key), &arr(&tweak));
                    let c_words = threefish::$ty::new_with_tweak_u64(&kw, &tw);
                    let mut e = xw;
                    c_words.encrypt_block_u64(&mut e);
                    let mut d = xw;
                    c_words.decrypt_block_u64(&mut d);
                    if want("C10") {
                        set_prop("C10");
                        let we = r::encrypt_words::<$nw, $ns>(&kw, &tw, &xw);
                        let wd = r::decrypt_words::<$nw, $ns>(&kw, &tw, &xw);
                        if e != we {
                            fail("encrypt_block_u64 differs from Threefish", &hex_u64s(&e), &hex_u64s(&we));
                        }
                        if d != wd {
                            fail("decrypt_block_u64 differs from Threefish", &hex_u64s(&d), &hex_u64s(&wd));
                        }
                        // byte entry points agree with the u64 ones under little-endian encoding, both constructors
                        let mut eb = vec![0u8; $kb];
                        r::words_to_bytes::<$nw>(&e, &mut eb);
                        let mut db = vec![0u8; $kb];
                        r::words_to_bytes::<$nw>(&d, &mut db);
                        check_eq("byte and u64 entry points disagree (encrypt, new_with_tweak vs new_with_tweak_u64)", &enc1(&c_bytes, &x), &eb);
                        check_eq("byte and u64 entry points disagree (decrypt, new_with_tweak vs new_with_tweak_u64)", &dec1(&c_bytes, &x), &db);
                        check_eq("byte and u64 entry points disagree (encrypt, same instance)", &enc1(&c_words, &x), &eb);
                        // the plain keyed constructor means the zero tweak
                        let plain = threefish::$ty::new(&Key::<threefish::$ty>::try_from(&key[..]).unwrap());
                        let zero = threefish::$ty::new_with_tweak(&arr(&key), &[0u8; 16]);
                        check_eq("KeyInit::new differs from new_with_tweak(key, 0)", &enc1(&plain, &x), &enc1(&zero, &x));
                    }
                    if want("C01") {
                        set_prop("C01");
                        let mut t = e;
                        c_words.decrypt_block_u64(&mut t);
                        if t != xw {
                            fail("decrypt_block_u64(encrypt_block_u64(x)) != x", &hex_u64s(&t), &hex_u64s(&xw));
                        }
                        let mut t = d;
                        c_words.encrypt_block_u64(&mut t);
                        if t != xw {
                            fail("encrypt_block_u64(decrypt_block_u64(x)) != x", &hex_u64s(&t), &hex_u64s(&xw));
                        }
                    }
                });
            }
        }
    };
}
tf!(D256, D256T, Tw256, Threefish256, "Threefish256", "Threefish256+tweak", 4, 19, 32usize, U48, U32, "256", u64_256);
tf!(D512, D512T, Tw512, Threefish512, "Threefish512", "Threefish512+tweak", 8, 19, 64usize, U80, U64, "512", u64_512);
tf!(D1024, D1024T, Tw1024, Threefish1024, "Threefish1024", "Threefish1024+tweak", 16, 21, 128usize, U144, U128, "1024", u64_1024);

pub fn run() {
    visit::<D256>();
    visit::<D512>();
    visit::<D1024>();
    // with tweaks ("key" = key || tweak)
    visit::<D256T>();
    visit::<D512T>();
    visit::<D1024T>();
    if want("C10") || want("C01") || want("C16") {
        u64_256();
        u64_512();
        u64_1024();
    }
}
