//! sm4: Sm4 against GB/T 32907-2016 (bcref::sm4), C06.
use crate::generic::*;
use crate::util::*;
use bcref::sm4 as r;

desc!(DSm4: sm4::Sm4, "sm4", "Sm4", [16], "C06", [clone, debug, alg], names ["Sm4"], alg ["sm4"],
    |k, b, dec| Some(if dec { r::decrypt(&arr(k), &arr(b)) } else { r::encrypt(&arr(k), &arr(b)) }.to_vec()));

pub fn run() {
    visit::<DSm4>();
}
