//! Native, public-API counterexample search for the properties of /verif/properties.jsonl ("falsifier").
//!
//! It NEVER decides that a property holds.  It executes the real crates of a copy of the repository on random and
//! corner-case inputs and compares against an oracle that is exactly the property statement (round trip, equality
//! with the reference implementations of /verif/refs, per-block equality, acceptance sets, zero after drop ...).
//! Every reported failure carries the concrete input, so it can be replayed against the real code.
//!
//! usage: vp-native <PROP|ALL> [crate[,crate...]] [--seed N] [--iters N] [--config NAME]
//!                  [--max-per-kind N (3)] [--max-records N (60)] [--stats] [--list]
//!   prints one JSON object per failure on stdout; exit status 1 if any failure was found, 0 otherwise.
//!   PROP = C03 prints a transcript (one JSON object per case) that vp-falsify compares between configurations.
//!
//! Each crate's section sits behind the cargo feature `c_<crate>` (see Cargo.toml.in): a crate that no longer builds
//! does not take the others down.
#![allow(dead_code, unused_imports, unused_macros, unused_variables, unused_mut)]
#![allow(clippy::all)]

mod util;
#[macro_use]
mod generic;

#[cfg(feature = "c_aes")]
mod c_aes;
#[cfg(feature = "c_aria")]
mod c_aria;
#[cfg(feature = "c_belt_block")]
mod c_belt_block;
#[cfg(feature = "c_blowfish")]
mod c_blowfish;
#[cfg(feature = "c_camellia")]
mod c_camellia;
#[cfg(feature = "c_cast5")]
mod c_cast5;
#[cfg(feature = "c_cast6")]
mod c_cast6;
#[cfg(feature = "c_des")]
mod c_des;
#[cfg(feature = "c_gift")]
mod c_gift;
#[cfg(feature = "c_idea")]
mod c_idea;
#[cfg(feature = "c_kuznyechik")]
mod c_kuznyechik;
#[cfg(feature = "c_magma")]
mod c_magma;
#[cfg(feature = "c_rc2")]
mod c_rc2;
#[cfg(feature = "c_rc5")]
mod c_rc5;
#[cfg(feature = "c_serpent")]
mod c_serpent;
#[cfg(feature = "c_sm4")]
mod c_sm4;
#[cfg(feature = "c_speck")]
mod c_speck;
#[cfg(feature = "c_threefish")]
mod c_threefish;
#[cfg(feature = "c_twofish")]
mod c_twofish;
#[cfg(feature = "c_xtea")]
mod c_xtea;

fn sections() -> Vec<(&'static str, fn())> {
    let mut v: Vec<(&'static str, fn())> = Vec::new();
    #[cfg(feature = "c_aes")]
    v.push(("aes", c_aes::run));
    #[cfg(feature = "c_aria")]
    v.push(("aria", c_aria::run));
    #[cfg(feature = "c_belt_block")]
    v.push(("belt-block", c_belt_block::run));
    #[cfg(feature = "c_blowfish")]
    v.push(("blowfish", c_blowfish::run));
    #[cfg(feature = "c_camellia")]
    v.push(("camellia", c_camellia::run));
    #[cfg(feature = "c_cast5")]
    v.push(("cast5", c_cast5::run));
    #[cfg(feature = "c_cast6")]
    v.push(("cast6", c_cast6::run));
    #[cfg(feature = "c_des")]
    v.push(("des", c_des::run));
    #[cfg(feature = "c_gift")]
    v.push(("gift", c_gift::run));
    #[cfg(feature = "c_idea")]
    v.push(("idea", c_idea::run));
    #[cfg(feature = "c_kuznyechik")]
    v.push(("kuznyechik", c_kuznyechik::run));
    #[cfg(feature = "c_magma")]
    v.push(("magma", c_magma::run));
    #[cfg(feature = "c_rc2")]
    v.push(("rc2", c_rc2::run));
    #[cfg(feature = "c_rc5")]
    v.push(("rc5", c_rc5::run));
    #[cfg(feature = "c_serpent")]
    v.push(("serpent", c_serpent::run));
    #[cfg(feature = "c_sm4")]
    v.push(("sm4", c_sm4::run));
    #[cfg(feature = "c_speck")]
    v.push(("speck", c_speck::run));
    #[cfg(feature = "c_threefish")]
    v.push(("threefish", c_threefish::run));
    #[cfg(feature = "c_twofish")]
    v.push(("twofish", c_twofish::run));
    #[cfg(feature = "c_xtea")]
    v.push(("xtea", c_xtea::run));
    v
}

const PROPS: [&str; 21] = [
    "ALL", "C01", "C02", "C03", "C04", "C05", "C06", "C07", "C08", "C09", "C10", "C11", "C12", "C13", "C14", "C15", "C16",
    "C17", "C18", "C19", "C20",
];

fn main() {
    let args: Vec<String> = std::env::args().skip(1).collect();
    let mut prop = String::new();
    let mut filter: Option<Vec<String>> = None;
    let mut i = 0;
    let mut stats = false;
    while i < args.len() {
        match args[i].as_str() {
            "--seed" => {
                i += 1;
                let v: u64 = args[i].parse().expect("--seed N");
                util::with(|s| s.seed = v);
            }
            "--iters" => {
                i += 1;
                let v: usize = args[i].parse().expect("--iters N");
                util::with(|s| s.iters = v.max(1));
            }
            "--config" => {
                i += 1;
                let v = args[i].clone();
                util::with(|s| s.config = v);
            }
            "--max-per-kind" => {
                i += 1;
                let v: usize = args[i].parse().expect("--max-per-kind N");
                util::with(|s| s.max_per_key = v);
            }
            "--max-records" => {
                i += 1;
                let v: usize = args[i].parse().expect("--max-records N");
                util::with(|s| s.max_total = v);
            }
            "--stats" => {
                stats = true;
                util::with(|s| s.stats = true);
            }
            "--list" => {
                for (n, _) in sections() {
                    println!("{}", n);
                }
                return;
            }
            a if prop.is_empty() => prop = a.to_ascii_uppercase(),
            a => filter = Some(a.split(',').map(|s| s.trim().replace('_', "-").to_string()).filter(|s| !s.is_empty()).collect()),
        }
        i += 1;
    }
    if !PROPS.contains(&prop.as_str()) {
        eprintln!("usage: vp-native <C01..C20|ALL> [crate,crate...] [--seed N] [--iters N] [--config NAME]");
        std::process::exit(2);
    }
    util::with(|s| s.prop = prop.clone());
    util::install_panic_hook();
    if prop == "C15" {
        // out of scope for a sequential input search (call histories / thread interleavings)
        std::process::exit(0);
    }
    for (name, run) in sections() {
        if let Some(f) = &filter {
            // the directory name (belt-block, gift, speck) is the crate's name here
            if !f.iter().any(|x| x == name) {
                continue;
            }
        }
        let t0 = std::time::Instant::now();
        util::scope(name, "");
        util::set_prop(&prop);
        util::guard("section", || run());
        if stats {
            eprintln!("[vp-native] {} {}: {:.2}s, {} cases so far", prop, name, t0.elapsed().as_secs_f64(), util::with(|s| s.ncases));
        }
    }
    let (nfail, suppressed, hidden) = util::with(|s| (s.nfail, s.suppressed, s.hidden));
    if suppressed > 0 {
        eprintln!("[vp-native] {} further failure records of already reported kinds suppressed", suppressed);
    }
    if hidden > 0 {
        eprintln!("[vp-native] {} non-panic failures seen while looking for panics (run the property itself to see them)", hidden);
    }
    std::process::exit(if nfail > 0 { 1 } else { 0 });
}
