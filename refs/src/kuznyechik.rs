//! GOST R 34.12-2015 (= GOST 34.12-2018, RFC 7801) "Kuznyechik", 128-bit block, 256-bit key.
//! Written from section 4 of the standard: 4.1.1 the substitution pi, 4.1.2 the linear map l over
//! GF(2)[x]/(x^8+x^7+x^6+x+1), 4.2 the transformations X[k], S, R, L, their inverses and F[k],
//! 4.3 the key schedule, 4.4 encryption E and decryption D.
//!
//! Representation: a 128-bit string a = a15||a14||...||a0 (a15 the most significant octet, the one printed
//! first in the standard's hexadecimal examples) is the byte array `b` with `b[0] = a15, ..., b[15] = a0`,
//! i.e. the octet string in the order printed.  The index of the standard is therefore `a_j = b[15 - j]`.
//!
//! The table PI (256 entries, cannot be computed from a short definition) was typed from 4.1.1 and
//! compared with the pinned tree's consts.rs; PI_INV, the multiplication in the field, the iteration
//! constants C_1..C_32 are computed here from their definitions.

/// 4.1.1: pi' = (pi'(0), ..., pi'(255))
pub const PI: [u8; 256] = [
    252, 238, 221, 17, 207, 110, 49, 22, 251, 196, 250, 218, 35, 197, 4, 77, 233, 119, 240, 219, 147, 46, 153, 186, 23, 54, 241, 187, 20, 205, 95, 193,
    249, 24, 101, 90, 226, 92, 239, 33, 129, 28, 60, 66, 139, 1, 142, 79, 5, 132, 2, 174, 227, 106, 143, 160, 6, 11, 237, 152, 127, 212, 211, 31,
    235, 52, 44, 81, 234, 200, 72, 171, 242, 42, 104, 162, 253, 58, 206, 204, 181, 112, 14, 86, 8, 12, 118, 18, 191, 114, 19, 71, 156, 183, 93, 135,
    21, 161, 150, 41, 16, 123, 154, 199, 243, 145, 120, 111, 157, 158, 178, 177, 50, 117, 25, 61, 255, 53, 138, 126, 109, 84, 198, 128, 195, 189, 13, 87,
    223, 245, 36, 169, 62, 168, 67, 201, 215, 121, 214, 246, 124, 34, 185, 3, 224, 15, 236, 222, 122, 148, 176, 188, 220, 232, 40, 80, 78, 51, 10, 74,
    167, 151, 96, 115, 30, 0, 98, 68, 26, 184, 56, 130, 100, 159, 38, 65, 173, 69, 70, 146, 39, 94, 85, 47, 140, 163, 165, 125, 105, 213, 149, 59,
    7, 88, 179, 64, 134, 172, 29, 247, 48, 55, 107, 228, 136, 217, 231, 137, 225, 27, 131, 73, 76, 63, 248, 254, 141, 83, 170, 144, 202, 216, 133, 97,
    32, 113, 103, 164, 45, 43, 9, 91, 203, 155, 37, 208, 190, 229, 108, 82, 89, 166, 116, 210, 230, 244, 180, 192, 209, 102, 175, 194, 57, 75, 99, 182,
];

/// pi^{-1}, computed (pi is a permutation: checked in the tests below)
pub const PI_INV: [u8; 256] = {
    let mut t = [0u8; 256];
    let mut i = 0;
    while i < 256 {
        t[PI[i] as usize] = i as u8;
        i += 1;
    }
    t
};

/// 4.1.2: coefficients of l(a15, ..., a0) = 148*a15 + 32*a14 + 133*a13 + 16*a12 + 194*a11 + 192*a10 + 1*a9 + 251*a8
///        + 1*a7 + 192*a6 + 194*a5 + 16*a4 + 133*a3 + 32*a2 + 148*a1 + 1*a0, listed for a15 first
/// (so LC[i] multiplies byte `b[i]` of the representation above).
pub const LC: [u8; 16] = [148, 32, 133, 16, 194, 192, 1, 251, 1, 192, 194, 16, 133, 32, 148, 1];

/// Multiplication by x in GF(2)[x]/p(x), p(x) = x^8 + x^7 + x^6 + x + 1 (reduction by 0xC3 on overflow), branch-free.
#[inline]
pub const fn xtime(a: u8) -> u8 {
    (a << 1) ^ (0xC3 & 0u8.wrapping_sub(a >> 7))
}

/// Multiplication in the field GF(2)[x]/p(x) (octets <-> polynomials by the bijection nabla/Delta of 4.1.2:
/// bit i of the octet is the coefficient of x^i): schoolbook, sum over the bits of `c` of c_i * x^i * a.
pub const fn gf_mul(c: u8, a: u8) -> u8 {
    let mut acc = 0u8;
    let mut p = a;
    let mut i = 0;
    while i < 8 {
        // add p = x^i * a when bit i of c is set
        acc ^= p & 0u8.wrapping_sub((c >> i) & 1);
        p = xtime(p);
        i += 1;
    }
    acc
}

pub type Block = [u8; 16];

/// 4.1.2: l: V8^16 -> V8
pub const fn ell(a: &Block) -> u8 {
    let mut acc = 0u8;
    let mut i = 0;
    while i < 16 {
        acc ^= gf_mul(LC[i], a[i]);
        i += 1;
    }
    acc
}

/// 4.2: X[k](a) = k xor a
pub const fn x(k: &Block, a: &Block) -> Block {
    let mut out = [0u8; 16];
    let mut i = 0;
    while i < 16 {
        out[i] = k[i] ^ a[i];
        i += 1;
    }
    out
}

/// 4.2: S(a15||...||a0) = pi(a15)||...||pi(a0)
pub const fn s(a: &Block) -> Block {
    let mut out = [0u8; 16];
    let mut i = 0;
    while i < 16 {
        out[i] = PI[a[i] as usize];
        i += 1;
    }
    out
}

/// 4.2: S^{-1}
pub const fn s_inv(a: &Block) -> Block {
    let mut out = [0u8; 16];
    let mut i = 0;
    while i < 16 {
        out[i] = PI_INV[a[i] as usize];
        i += 1;
    }
    out
}

/// 4.2: R(a15||...||a0) = l(a15, ..., a0)||a15||...||a1
pub const fn r(a: &Block) -> Block {
    let mut out = [0u8; 16];
    out[0] = ell(a);
    let mut i = 1;
    while i < 16 {
        out[i] = a[i - 1];
        i += 1;
    }
    out
}

/// 4.2: R^{-1}(a15||...||a0) = a14||a13||...||a0||l(a14, a13, ..., a0, a15)
pub const fn r_inv(a: &Block) -> Block {
    let mut t = [0u8; 16];
    let mut i = 0;
    while i < 15 {
        t[i] = a[i + 1];
        i += 1;
    }
    t[15] = a[0];
    let mut out = t;
    out[15] = ell(&t);
    out
}

/// 4.2: L = R^16
pub const fn l(a: &Block) -> Block {
    let mut t = *a;
    let mut i = 0;
    while i < 16 {
        t = r(&t);
        i += 1;
    }
    t
}

/// 4.2: L^{-1} = (R^{-1})^16
pub const fn l_inv(a: &Block) -> Block {
    let mut t = *a;
    let mut i = 0;
    while i < 16 {
        t = r_inv(&t);
        i += 1;
    }
    t
}

/// LSX[k](a) = L(S(X[k](a)))
pub const fn lsx(k: &Block, a: &Block) -> Block {
    l(&s(&x(k, a)))
}

/// S^{-1}(L^{-1}(X[k](a))): one step of D, read from right to left in 4.4 (12)
pub const fn x_linv_sinv(k: &Block, a: &Block) -> Block {
    s_inv(&l_inv(&x(k, a)))
}

/// 4.2: F[k](a1, a0) = (LSX[k](a1) xor a0, a1)
pub const fn f(k: &Block, a1: &Block, a0: &Block) -> (Block, Block) {
    (x(&lsx(k, a1), a0), *a1)
}

/// Vec_128(i) for 0 <= i < 256
pub const fn vec128(i: u8) -> Block {
    let mut b = [0u8; 16];
    b[15] = i;
    b
}

/// 4.3: C_i = L(Vec_128(i)), i = 1, ..., 32
pub const fn c(i: usize) -> Block {
    l(&vec128(i as u8))
}

/// 4.3: K_1||K_2 = K;  (K_{2i+1}, K_{2i+2}) = F[C_{8(i-1)+8}] ... F[C_{8(i-1)+1}](K_{2i-1}, K_{2i}), i = 1..4.
/// Returns K_1..K_10 as `rk[0..10]`.
pub const fn key_schedule(key: &[u8; 32]) -> [Block; 10] {
    let mut rk = [[0u8; 16]; 10];
    let mut a1 = [0u8; 16];
    let mut a0 = [0u8; 16];
    let mut j = 0;
    while j < 16 {
        a1[j] = key[j];
        a0[j] = key[16 + j];
        j += 1;
    }
    rk[0] = a1;
    rk[1] = a0;
    let mut i = 1;
    while i <= 4 {
        let mut t = 1;
        while t <= 8 {
            let (n1, n0) = f(&c(8 * (i - 1) + t), &a1, &a0);
            a1 = n1;
            a0 = n0;
            t += 1;
        }
        rk[2 * i] = a1;
        rk[2 * i + 1] = a0;
        i += 1;
    }
    rk
}

/// 4.4.1: E(a) = X[K_10] LSX[K_9] ... LSX[K_2] LSX[K_1](a)
pub const fn encrypt_with(rk: &[Block; 10], a: &Block) -> Block {
    let mut t = *a;
    let mut i = 0;
    while i < 9 {
        t = lsx(&rk[i], &t);
        i += 1;
    }
    x(&rk[9], &t)
}

/// 4.4.2: D(a) = X[K_1] S^{-1}L^{-1}X[K_2] ... S^{-1}L^{-1}X[K_9] S^{-1}L^{-1}X[K_10](a)
pub const fn decrypt_with(rk: &[Block; 10], a: &Block) -> Block {
    let mut t = *a;
    let mut i = 9;
    while i >= 1 {
        t = x_linv_sinv(&rk[i], &t);
        i -= 1;
    }
    x(&rk[0], &t)
}

pub const fn encrypt(key: &[u8; 32], a: &Block) -> Block {
    encrypt_with(&key_schedule(key), a)
}

pub const fn decrypt(key: &[u8; 32], a: &Block) -> Block {
    decrypt_with(&key_schedule(key), a)
}

// ---------------------------------------------------------------------------------------------------------
// Derived notions used by contracts on table-driven implementations (not part of the standard's text).

/// the block whose byte `i` is `v`, all others zero
pub const fn unit(i: usize, v: u8) -> Block {
    let mut b = [0u8; 16];
    b[i] = v;
    b
}

pub const fn xor(a: &Block, b: &Block) -> Block {
    x(a, b)
}

pub const fn eq(a: &Block, b: &Block) -> bool {
    let mut ok = true;
    let mut i = 0;
    while i < 16 {
        ok &= a[i] == b[i];
        i += 1;
    }
    ok
}

#[cfg(test)]
mod tests {
    use super::*;

    fn h16(s: &str) -> Block {
        let b = s.as_bytes();
        assert!(b.len() == 32);
        let mut out = [0u8; 16];
        for i in 0..16 {
            out[i] = (hv(b[2 * i]) << 4) | hv(b[2 * i + 1]);
        }
        out
    }
    fn hv(c: u8) -> u8 {
        match c {
            b'0'..=b'9' => c - b'0',
            b'a'..=b'f' => c - b'a' + 10,
            _ => panic!(),
        }
    }

    #[test]
    fn pi_is_a_permutation() {
        let mut seen = [false; 256];
        for i in 0..256 {
            assert!(!seen[PI[i] as usize]);
            seen[PI[i] as usize] = true;
            assert_eq!(PI_INV[PI[i] as usize] as usize, i);
        }
    }

    #[test]
    fn field() {
        // x^8 = x^7 + x^6 + x + 1
        assert_eq!(gf_mul(0x80, 2), 0xC3);
        for a in 0..=255u8 {
            assert_eq!(gf_mul(1, a), a);
            assert_eq!(gf_mul(a, 1), a);
            for b in 0..=255u8 {
                assert_eq!(gf_mul(a, b), gf_mul(b, a));
            }
        }
    }

    // A.1.1
    #[test]
    fn a11_s() {
        let v = [
            "ffeeddccbbaa99881122334455667700",
            "b66cd8887d38e8d77765aeea0c9a7efc",
            "559d8dd7bd06cbfe7e7b262523280d39",
            "0c3322fed531e4630d80ef5c5a81c50b",
            "23ae65633f842d29c5df529c13f5acda",
        ];
        for i in 0..4 {
            assert_eq!(s(&h16(v[i])), h16(v[i + 1]));
            assert_eq!(s_inv(&h16(v[i + 1])), h16(v[i]));
        }
    }

    // A.1.2
    #[test]
    fn a12_r() {
        let v = [
            "00000000000000000000000000000100",
            "94000000000000000000000000000001",
            "a5940000000000000000000000000000",
            "64a59400000000000000000000000000",
            "0d64a594000000000000000000000000",
        ];
        for i in 0..4 {
            assert_eq!(r(&h16(v[i])), h16(v[i + 1]));
            assert_eq!(r_inv(&h16(v[i + 1])), h16(v[i]));
        }
    }

    // A.1.3
    #[test]
    fn a13_l() {
        let v = [
            "64a59400000000000000000000000000",
            "d456584dd0e3e84cc3166e4b7fa2890d",
            "79d26221b87b584cd42fbc4ffea5de9a",
            "0e93691a0cfc60408b7b68f66b513c13",
            "e6a8094fee0aa204fd97bcb0b44b8580",
        ];
        for i in 0..4 {
            assert_eq!(l(&h16(v[i])), h16(v[i + 1]));
            assert_eq!(l_inv(&h16(v[i + 1])), h16(v[i]));
        }
    }

    const KEY: [&str; 2] = ["8899aabbccddeeff0011223344556677", "fedcba98765432100123456789abcdef"];
    fn key() -> [u8; 32] {
        let mut k = [0u8; 32];
        k[..16].copy_from_slice(&h16(KEY[0]));
        k[16..].copy_from_slice(&h16(KEY[1]));
        k
    }

    // A.1.4
    #[test]
    fn a14_key_schedule() {
        let cs = [
            "6ea276726c487ab85d27bd10dd849401",
            "dc87ece4d890f4b3ba4eb92079cbeb02",
            "b2259a96b4d88e0be7690430a44f7f03",
            "7bcd1b0b73e32ba5b79cb140f2551504",
            "156f6d791fab511deabb0c502fd18105",
            "a74af7efab73df160dd208608b9efe06",
            "c9e8819dc73ba5ae50f5b570561a6a07",
            "f6593616e6055689adfba18027aa2a08",
        ];
        for i in 0..8 {
            assert_eq!(c(i + 1), h16(cs[i]));
        }
        // F[C_1](K_1, K_2)
        let (a1, a0) = f(&c(1), &h16(KEY[0]), &h16(KEY[1]));
        assert_eq!(a1, h16("c3d5fa01ebe36f7a9374427ad7ca8949"));
        assert_eq!(a0, h16(KEY[0]));
        let ks = [
            "8899aabbccddeeff0011223344556677",
            "fedcba98765432100123456789abcdef",
            "db31485315694343228d6aef8cc78c44",
            "3d4553d8e9cfec6815ebadc40a9ffd04",
            "57646468c44a5e28d3e59246f429f1ac",
            "bd079435165c6432b532e82834da581b",
            "51e640757e8745de705727265a0098b1",
            "5a7925017b9fdd3ed72a91a22286f984",
            "bb44e25378c73123a5f32f73cdb6e517",
            "72e9dd7416bcf45b755dbaa88e4a4043",
        ];
        let rk = key_schedule(&key());
        for i in 0..10 {
            assert_eq!(rk[i], h16(ks[i]), "K_{}", i + 1);
        }
    }

    // A.1.5, A.1.6
    #[test]
    fn a15_encrypt_decrypt() {
        let a = h16("1122334455667700ffeeddccbbaa9988");
        let b = h16("7f679d90bebc24305a468d42b9d4edcd");
        let rk = key_schedule(&key());
        assert_eq!(x(&rk[0], &a), h16("99bb99ff99bb99ffffffffffffffffff"));
        assert_eq!(s(&x(&rk[0], &a)), h16("e87de8b6e87de8b6b6b6b6b6b6b6b6b6"));
        assert_eq!(lsx(&rk[0], &a), h16("e297b686e355b0a1cf4a2f9249140830"));
        assert_eq!(encrypt(&key(), &a), b);
        assert_eq!(decrypt(&key(), &b), a);
        assert_eq!(x(&rk[9], &b), h16("0d8e40e4a800d06b2f1b37ea379ead8e"));
    }

    #[test]
    fn l_is_additive_on_samples() {
        let a = h16("1122334455667700ffeeddccbbaa9988");
        let mut acc = [0u8; 16];
        for i in 0..16 {
            acc = xor(&acc, &l(&unit(i, a[i])));
        }
        assert_eq!(acc, l(&a));
    }
}
