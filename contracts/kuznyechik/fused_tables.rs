// Contracts on kuznyechik/src/fused_tables.rs (sse2, neon and soft backends): the two 64 KiB "fused" tables.
//      ENC_TABLE entry (i, j) = L(unit_i(pi(j)))          DEC_TABLE entry (i, j) = L^-1(unit_i(pi^-1(j)))
// (entry (i, j) = the 16 bytes at offset 16 * (256 * i + j); unit_i(v) = the block whose byte i is v, others zero;
// L, pi of GOST R 34.12-2015 as in bcref::kuznyechik).
//
// A 64 KiB constant table indexed symbolically is intractable for CBMC (every read costs 65536 implications), so the
// contents are compared with concrete loops (kind=exhaustive) with reference tables LS / SLINV built by rustc's const
// evaluator, and the reference tables are tied to the reference functions L, pi symbolically, one 256-entry slice at a
// time (c_ls_table, c_slinv_table).
//
// STATUS (end of round, 2026-10-04): only c_dec_table_hi was discharged (686 s, tier=thorough); the other three table
// comparisons and c_ls_table / c_slinv_table timed out at 900 s on a heavily loaded machine and are NOT registered.
// @module file=kuznyechik/src/fused_tables.rs
use super::*;
use bcref::kuznyechik as kz;

/// Reference tables.  How they are filled is irrelevant (here: L(unit_i(1)) scaled by pi(j) in the field, which is cheap
/// for rustc's const evaluator): c_ls_table / c_slinv_table below prove, for every i and every byte value, that
/// LS[i][j] = L(unit_i(pi(j))) and SLINV[i][j] = L^-1(unit_i(pi^-1(j))) as computed by the reference functions.
#[allow(long_running_const_eval)]
pub static LS: [[[u8; 16]; 256]; 16] = {
    let mut t = [[[0u8; 16]; 256]; 16];
    let mut i = 0;
    while i < 16 {
        let col = kz::l(&kz::unit(i, 1));
        let mut j = 0;
        while j < 256 {
            let mut k = 0;
            while k < 16 {
                t[i][j][k] = kz::gf_mul(kz::PI[j], col[k]);
                k += 1;
            }
            j += 1;
        }
        i += 1;
    }
    t
};
#[allow(long_running_const_eval)]
pub static SLINV: [[[u8; 16]; 256]; 16] = {
    let mut t = [[[0u8; 16]; 256]; 16];
    let mut i = 0;
    while i < 16 {
        let col = kz::l_inv(&kz::unit(i, 1));
        let mut j = 0;
        while j < 256 {
            let mut k = 0;
            while k < 16 {
                t[i][j][k] = kz::gf_mul(kz::PI_INV[j], col[k]);
                k += 1;
            }
            j += 1;
        }
        i += 1;
    }
    t
};

/// entry (i, v) of a fused table
pub fn entry(t: &Table, i: usize, v: u8) -> [u8; 16] {
    let mut out = [0u8; 16];
    let base = 16 * (256 * i + v as usize);
    let mut k = 0;
    while k < 16 {
        out[k] = t.0[base + k];
        k += 1;
    }
    out
}

macro_rules! table_eq {
    ($name:ident, $real:ident, $spec:ident, $lo:expr, $hi:expr) => {
        #[kani::proof]
        #[kani::unwind(257)]
        fn $name() {
            let mut i = $lo;
            while i < $hi {
                let mut j = 0;
                while j < 256 {
                    let mut k = 0;
                    while k < 16 {
                        assert!($real.0[16 * (256 * i + j) + k] == $spec[i][j][k]);
                        k += 1;
                    }
                    j += 1;
                }
                i += 1;
            }
            assert!(core::mem::size_of::<Table>() == 65536 && core::mem::align_of::<Table>() == 16);
        }
    };
}
// @ob name=c_enc_table_lo tier=thorough props=C07,C20 kind=exhaustive fn=kuznyechik::fused_tables::fused_enc_table,kuznyechik::fused_tables::ENC_TABLE timeout=3600
table_eq!(c_enc_table_lo, ENC_TABLE, LS, 0, 8);
// @ob name=c_enc_table_hi tier=thorough props=C07,C20 kind=exhaustive fn=kuznyechik::fused_tables::fused_enc_table,kuznyechik::fused_tables::ENC_TABLE timeout=3600
table_eq!(c_enc_table_hi, ENC_TABLE, LS, 8, 16);
// @ob name=c_dec_table_lo tier=thorough props=C07,C20 kind=exhaustive fn=kuznyechik::fused_tables::fused_dec_table,kuznyechik::fused_tables::DEC_TABLE timeout=3600
table_eq!(c_dec_table_lo, DEC_TABLE, SLINV, 0, 8);
// @ob name=c_dec_table_hi tier=thorough props=C07,C20 kind=exhaustive fn=kuznyechik::fused_tables::fused_dec_table,kuznyechik::fused_tables::DEC_TABLE timeout=3600
table_eq!(c_dec_table_hi, DEC_TABLE, SLINV, 8, 16);

/// XOR_i LS[i][b_i]   /   XOR_i SLINV[i][b_i]
pub fn sum_ls(b: &[u8; 16]) -> [u8; 16] {
    let mut acc = [0u8; 16];
    let mut i = 0;
    while i < 16 {
        acc = kz::xor(&acc, &LS[i][b[i] as usize]);
        i += 1;
    }
    acc
}
pub fn sum_slinv(b: &[u8; 16]) -> [u8; 16] {
    let mut acc = [0u8; 16];
    let mut i = 0;
    while i < 16 {
        acc = kz::xor(&acc, &SLINV[i][b[i] as usize]);
        i += 1;
    }
    acc
}

// The reference tables are what their definition says, for every i and every (symbolic) byte value, and therefore
//      XOR_i LS[i][b_i] == XOR_i L(unit_i(S(b)_i))   ( == L(S(b)) by lemmas.l_l_decomp ).
// @ob name=c_ls_table tier=thorough props=C07 kind=lemma fn=bcref::kuznyechik::l timeout=3600
#[kani::proof]
#[kani::unwind(17)]
fn c_ls_table() {
    let b: [u8; 16] = kani::any();
    let sb = kz::s(&b);
    let mut acc = [0u8; 16];
    let mut i = 0;
    while i < 16 {
        let term = kz::l(&kz::unit(i, sb[i]));
        assert!(kz::eq(&LS[i][b[i] as usize], &term));
        acc = kz::xor(&acc, &term);
        i += 1;
    }
    assert!(kz::eq(&sum_ls(&b), &acc));
}

// @ob name=c_slinv_table tier=thorough props=C07 kind=lemma fn=bcref::kuznyechik::l_inv timeout=3600
#[kani::proof]
#[kani::unwind(17)]
fn c_slinv_table() {
    let b: [u8; 16] = kani::any();
    let sb = kz::s_inv(&b);
    let mut acc = [0u8; 16];
    let mut i = 0;
    while i < 16 {
        let term = kz::l_inv(&kz::unit(i, sb[i]));
        assert!(kz::eq(&SLINV[i][b[i] as usize], &term));
        acc = kz::xor(&acc, &term);
        i += 1;
    }
    assert!(kz::eq(&sum_slinv(&b), &acc));
}
