// Contracts on every function of camellia/src/utils.rs against RFC 3713 (bcref::camellia), plus the constant tables.
// Representation: the real code carries 128-bit quantities (KL, KR, KA, KB) as pairs (high u64, low u64); the
// reference uses u128 and the RFC's "(X <<< n) >> 64" / "& MASK64" notation.
//
// @module file=camellia/src/utils.rs
use super::*;

pub fn join(v: (u64, u64)) -> u128 { ((v.0 as u128) << 64) | v.1 as u128 }
pub fn split(x: u128) -> (u64, u64) { ((x >> 64) as u64, x as u64) }

/// Flat subkey array of Camellia-128 in the real code's order: kw1 kw2 | k1..k6 | ke1 ke2 | k7..k12 | ke3 ke4 | k13..k18 | kw3 kw4.
pub fn flat26(s: &bcref::camellia::Subkeys18) -> [u64; 26] {
    let mut k = [0u64; 26];
    k[0] = s.kw[0];
    k[1] = s.kw[1];
    let mut g = 0;
    while g < 3 {
        let mut r = 0;
        while r < 6 {
            k[2 + 8 * g + r] = s.k[6 * g + r];
            r += 1;
        }
        if g < 2 {
            k[8 + 8 * g] = s.ke[2 * g];
            k[9 + 8 * g] = s.ke[2 * g + 1];
        }
        g += 1;
    }
    k[24] = s.kw[2];
    k[25] = s.kw[3];
    k
}
/// inverse reading: any flat array as an RFC subkey set
pub fn sk18_of(k: &[u64; 26]) -> bcref::camellia::Subkeys18 {
    let mut s = bcref::camellia::Subkeys18 { kw: [k[0], k[1], k[24], k[25]], k: [0; 18], ke: [0; 4] };
    let mut g = 0;
    while g < 3 {
        let mut r = 0;
        while r < 6 {
            s.k[6 * g + r] = k[2 + 8 * g + r];
            r += 1;
        }
        if g < 2 {
            s.ke[2 * g] = k[8 + 8 * g];
            s.ke[2 * g + 1] = k[9 + 8 * g];
        }
        g += 1;
    }
    s
}
/// Flat subkey array of Camellia-192/256: kw1 kw2 | k1..k6 | ke1 ke2 | k7..k12 | ke3 ke4 | k13..k18 | ke5 ke6 | k19..k24 | kw3 kw4.
pub fn flat34(s: &bcref::camellia::Subkeys24) -> [u64; 34] {
    let mut k = [0u64; 34];
    k[0] = s.kw[0];
    k[1] = s.kw[1];
    let mut g = 0;
    while g < 4 {
        let mut r = 0;
        while r < 6 {
            k[2 + 8 * g + r] = s.k[6 * g + r];
            r += 1;
        }
        if g < 3 {
            k[8 + 8 * g] = s.ke[2 * g];
            k[9 + 8 * g] = s.ke[2 * g + 1];
        }
        g += 1;
    }
    k[32] = s.kw[2];
    k[33] = s.kw[3];
    k
}
pub fn sk24_of(k: &[u64; 34]) -> bcref::camellia::Subkeys24 {
    let mut s = bcref::camellia::Subkeys24 { kw: [k[0], k[1], k[32], k[33]], k: [0; 24], ke: [0; 6] };
    let mut g = 0;
    while g < 4 {
        let mut r = 0;
        while r < 6 {
            s.k[6 * g + r] = k[2 + 8 * g + r];
            r += 1;
        }
        if g < 3 {
            s.ke[2 * g] = k[8 + 8 * g];
            s.ke[2 * g + 1] = k[9 + 8 * g];
        }
        g += 1;
    }
    s
}
pub fn eq26(a: &[u64; 26], b: &[u64; 26]) -> bool {
    let mut ok = true;
    let mut i = 0;
    while i < 26 {
        ok &= a[i] == b[i];
        i += 1;
    }
    ok
}
pub fn eq34(a: &[u64; 34], b: &[u64; 34]) -> bool {
    let mut ok = true;
    let mut i = 0;
    while i < 34 {
        ok &= a[i] == b[i];
        i += 1;
    }
    ok
}

// spec functions in the real code's representation (used as stubs by callers)
pub fn spec_set_ka(kl: (u64, u64), kr: (u64, u64)) -> (u64, u64) { split(bcref::camellia::ka_of(join(kl), join(kr))) }
pub fn spec_set_kb(ka: (u64, u64), kr: (u64, u64)) -> (u64, u64) { split(bcref::camellia::kb_of(join(ka), join(kr))) }
pub fn spec_gen_subkeys26(kl: (u64, u64), ka: (u64, u64)) -> [u64; 26] { flat26(&bcref::camellia::subkeys_128(join(kl), join(ka))) }
pub fn spec_get_subkeys34(kl: (u64, u64), kr: (u64, u64), ka: (u64, u64), kb: (u64, u64)) -> [u64; 34] {
    flat34(&bcref::camellia::subkeys_256(join(kl), join(kr), join(ka), join(kb)))
}

// ---------------------------------------------------------------- constant tables, entry by entry
// SBOXES[0..4] are SBOX1 and the three tables the RFC derives from it; SIGMAS are Sigma1..6.
// @ob name=x_tables props=C06 kind=exhaustive fn=camellia::consts::SBOXES,camellia::consts::SIGMAS timeout=120
#[kani::proof]
#[kani::unwind(257)]
fn x_tables() {
    let mut i = 0;
    while i < 256 {
        assert!(SBOXES[0][i] == bcref::camellia::SBOX1[i]);
        assert!(SBOXES[1][i] == bcref::camellia::sbox2(i as u8));
        assert!(SBOXES[2][i] == bcref::camellia::sbox3(i as u8));
        assert!(SBOXES[3][i] == bcref::camellia::sbox4(i as u8));
        i += 1;
    }
    assert!(SIGMAS[0] == bcref::camellia::SIGMA1 && SIGMAS[1] == bcref::camellia::SIGMA2 && SIGMAS[2] == bcref::camellia::SIGMA3);
    assert!(SIGMAS[3] == bcref::camellia::SIGMA4 && SIGMAS[4] == bcref::camellia::SIGMA5 && SIGMAS[5] == bcref::camellia::SIGMA6);
}

// ---------------------------------------------------------------- F, FL, FLINV
// @ob name=c_f props=C06,C20 fn=camellia::utils::f timeout=600
#[kani::proof]
fn c_f() {
    let x: u64 = kani::any();
    let k: u64 = kani::any();
    assert!(f(x, k) == bcref::camellia::f(x, k));
}

// @ob name=c_fl props=C06,C20 fn=camellia::utils::fl timeout=120
#[kani::proof]
fn c_fl() {
    let x: u64 = kani::any();
    let k: u64 = kani::any();
    assert!(fl(x, k) == bcref::camellia::fl(x, k));
}
// @ob name=c_flinv props=C06,C20 fn=camellia::utils::flinv timeout=120
#[kani::proof]
fn c_flinv() {
    let x: u64 = kani::any();
    let k: u64 = kani::any();
    assert!(flinv(x, k) == bcref::camellia::flinv(x, k));
}
// @ob name=l_fl_inverse props=C01 kind=lemma fn=camellia::utils::fl,camellia::utils::flinv timeout=120
#[kani::proof]
fn l_fl_inverse() {
    let x: u64 = kani::any();
    let k: u64 = kani::any();
    assert!(flinv(fl(x, k), k) == x);
    assert!(fl(flinv(x, k), k) == x);
}

// ---------------------------------------------------------------- key schedule helpers (f replaced by its contract)
// @ob name=c_set_ka props=C06,C20 fn=camellia::utils::set_ka uses=c_f,x_tables timeout=300
#[kani::proof]
#[kani::stub(f, bcref::camellia::f)]
fn c_set_ka() {
    let kl: (u64, u64) = kani::any();
    let kr: (u64, u64) = kani::any();
    assert!(set_ka(kl, kr) == spec_set_ka(kl, kr));
}
// @ob name=c_set_kb props=C06,C20 fn=camellia::utils::set_kb uses=c_f,x_tables timeout=300
#[kani::proof]
#[kani::stub(f, bcref::camellia::f)]
fn c_set_kb() {
    let ka: (u64, u64) = kani::any();
    let kr: (u64, u64) = kani::any();
    assert!(set_kb(ka, kr) == spec_set_kb(ka, kr));
}

// rotate_left_high / rotate_left_low.  Precondition derived from the call sites (gen_subkeys26, get_subkeys34): the
// shift is one of 15, 30, 45, 60, 77, 94, 111.  The contract is stated on the whole range on which the functions are
// defined, 1..=63 and 65..=127 (for 0, 64 and >= 128 the expression `>> (64 - shift)` / `<< shift` overflows: a panic
// under debug assertions; no call site passes such a value, see c_gen_subkeys26 / c_get_subkeys34 which run the
// real callers with overflow checks on).  For shifts >= 64 the two functions exchange roles ("high" returns the low
// half of the 128-bit rotation); the callers compensate by swapping the calls.
fn shift_ok(s: u8) -> bool { (s >= 1 && s <= 63) || (s >= 65 && s <= 127) }
// @ob name=c_rotate_left_high props=C06,C20 fn=camellia::utils::rotate_left_high timeout=120
#[kani::proof]
fn c_rotate_left_high() {
    let v: (u64, u64) = kani::any();
    let s: u8 = kani::any();
    kani::assume(shift_ok(s));
    kani::cover!(s == 15);
    kani::cover!(s == 111);
    let r = rotate_left_high(v, s);
    if s < 64 { assert!(r == bcref::camellia::hi(join(v), s as u32)); } else { assert!(r == bcref::camellia::lo(join(v), s as u32)); }
}
// @ob name=c_rotate_left_low props=C06,C20 fn=camellia::utils::rotate_left_low timeout=120
#[kani::proof]
fn c_rotate_left_low() {
    let v: (u64, u64) = kani::any();
    let s: u8 = kani::any();
    kani::assume(shift_ok(s));
    kani::cover!(s == 15);
    kani::cover!(s == 111);
    let r = rotate_left_low(v, s);
    if s < 64 { assert!(r == bcref::camellia::lo(join(v), s as u32)); } else { assert!(r == bcref::camellia::hi(join(v), s as u32)); }
}

// @ob name=c_gen_subkeys26 props=C06,C20 fn=camellia::utils::gen_subkeys26,camellia::utils::rotate_left_high,camellia::utils::rotate_left_low timeout=300
#[kani::proof]
#[kani::unwind(27)]
fn c_gen_subkeys26() {
    let kl: (u64, u64) = kani::any();
    let ka: (u64, u64) = kani::any();
    assert!(eq26(&gen_subkeys26(kl, ka), &spec_gen_subkeys26(kl, ka)));
}
// @ob name=c_get_subkeys34 props=C06,C20 fn=camellia::utils::get_subkeys34,camellia::utils::rotate_left_high,camellia::utils::rotate_left_low timeout=300
#[kani::proof]
#[kani::unwind(35)]
fn c_get_subkeys34() {
    let kl: (u64, u64) = kani::any();
    let kr: (u64, u64) = kani::any();
    let ka: (u64, u64) = kani::any();
    let kb: (u64, u64) = kani::any();
    assert!(eq34(&get_subkeys34(kl, kr, ka, kb), &spec_get_subkeys34(kl, kr, ka, kb)));
}
