//! (reference for cast5: to be written)
