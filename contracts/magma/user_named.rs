// "Gost89 over any user-supplied set of eight 4-bit substitution tables computes the GOST 28147-89 network over that
// set": a user set may carry ANY name, including the name of a bundled set.  This module instantiates the public Sbox
// trait with the name "Tc26" and a table that is NOT the Tc26 table; the cipher must follow the table, not the name.
//
// @module file=magma/src/sboxes.rs
use super::*;
use super::__vp_sboxes::user_table;
use bcref::magma as r;
use cipher::{Array, KeyInit};

pub enum UserNamedTc26 {}
impl Sbox for UserNamedTc26 {
    const NAME: &'static str = "Tc26";
    const SBOX: [[u8; 16]; 8] = user_table();
}
pub enum UserNamedTest {}
impl Sbox for UserNamedTest {
    const NAME: &'static str = "Test";
    const SBOX: [[u8; 16]; 8] = user_table();
}

// @ob name=c_named_user_g props=C07,C20 kind=bounded bound="user-supplied sets named like bundled ones, one concrete non-bundled table" fn=magma::sboxes::SboxExt::g,magma::sboxes::SboxExt::apply_sbox timeout=300
#[kani::proof]
#[kani::unwind(17)]
fn c_named_user_g() {
    let a: u32 = kani::any();
    let k: u32 = kani::any();
    assert!(<UserNamedTc26 as SboxExt>::g(a, k) == r::g(&user_table(), k, a));
    assert!(<UserNamedTest as SboxExt>::g(a, k) == r::g(&user_table(), k, a));
    assert!(<UserNamedTc26 as SboxExt>::apply_sbox(a) == r::t(&user_table(), a));
}

// and through the public cipher type, for a symbolic key and block (g replaced by its contract over the user table)
fn spec_g_user(a: u32, k: u32) -> u32 { r::g(&user_table(), k, a) }
// @ob name=c_named_user_block props=C07,C20 kind=bounded bound="user-supplied set named Tc26, one concrete non-bundled table" fn=magma::Gost89::new,magma::Gost89::encrypt_block,magma::Gost89::decrypt_block uses=c_named_user_g timeout=600
#[kani::proof]
#[kani::unwind(40)]
fn c_named_user_block() {
    let key: [u8; 32] = kani::any();
    let b: [u8; 8] = kani::any();
    let c = crate::Gost89::<UserNamedTc26>::new(&Array(key));
    let mut blk = Array(b);
    cipher::BlockCipherEncrypt::encrypt_block(&c, &mut blk);
    let want = r::encrypt_bytes(&user_table(), &key, &b);
    let mut i = 0;
    while i < 8 {
        assert!(blk.0[i] == want[i]);
        i += 1;
    }
}
