//! Shared plumbing of the native falsifier: deterministic PRNG, hex, failure records (one JSON line each),
//! the "current case" register used to report the input of a panicking case (C20), and the panic guard.
use std::cell::RefCell;
use std::collections::HashMap;
use std::fmt::Write as _;
use std::io::Write as _;
use std::panic::{catch_unwind, AssertUnwindSafe};

// ------------------------------------------------------------------------------------------------ PRNG

/// splitmix64; one independent stream per (seed, label) so that adding or filtering crates/types never shifts
/// the inputs of another oracle.
pub struct Rng {
    s: u64,
}

fn fnv(label: &str) -> u64 {
    let mut h = 0xcbf2_9ce4_8422_2325u64;
    for b in label.bytes() {
        h ^= b as u64;
        h = h.wrapping_mul(0x0000_0100_0000_01b3);
    }
    h
}

impl Rng {
    pub fn new(seed: u64) -> Rng {
        Rng { s: seed }
    }
    /// stream for `label` under the global seed
    pub fn for_label(label: &str) -> Rng {
        let seed = with(|s| s.seed);
        let mut r = Rng { s: seed ^ fnv(label).rotate_left(17) };
        r.u64();
        r.u64();
        r
    }
    pub fn u64(&mut self) -> u64 {
        self.s = self.s.wrapping_add(0x9e37_79b9_7f4a_7c15);
        let mut z = self.s;
        z = (z ^ (z >> 30)).wrapping_mul(0xbf58_476d_1ce4_e5b9);
        z = (z ^ (z >> 27)).wrapping_mul(0x94d0_49bb_1331_11eb);
        z ^ (z >> 31)
    }
    pub fn u32(&mut self) -> u32 {
        (self.u64() >> 32) as u32
    }
    pub fn below(&mut self, n: usize) -> usize {
        if n == 0 { 0 } else { (self.u64() % n as u64) as usize }
    }
    /// inclusive range
    pub fn range(&mut self, lo: usize, hi: usize) -> usize {
        lo + self.below(hi - lo + 1)
    }
    pub fn chance(&mut self, one_in: usize) -> bool {
        self.below(one_in) == 0
    }
    /// uniformly random bytes
    pub fn plain(&mut self, n: usize) -> Vec<u8> {
        let mut v = vec![0u8; n];
        self.fill(&mut v);
        v
    }
    pub fn fill(&mut self, v: &mut [u8]) {
        for c in v.chunks_mut(8) {
            let x = self.u64().to_le_bytes();
            c.copy_from_slice(&x[..c.len()]);
        }
    }
    /// mostly uniform; sometimes all-zero / all-ones / bytes drawn from a small set of corner values
    pub fn bytes(&mut self, n: usize) -> Vec<u8> {
        match self.below(32) {
            0 => vec![0u8; n],
            1 => vec![0xffu8; n],
            2 | 3 | 4 => {
                const C: [u8; 8] = [0x00, 0xff, 0x80, 0x01, 0x7f, 0xfe, 0x0f, 0xf0];
                (0..n).map(|_| C[self.below(8)]).collect()
            }
            5 => {
                // sparse: a single bit set
                let mut v = vec![0u8; n];
                if n > 0 {
                    let p = self.below(8 * n);
                    v[p / 8] |= 1 << (p % 8);
                }
                v
            }
            _ => self.plain(n),
        }
    }
    pub fn pick<'a, T>(&mut self, v: &'a [T]) -> &'a T {
        &v[self.below(v.len())]
    }
}

// ------------------------------------------------------------------------------------------------ hex / json

pub fn hex(b: &[u8]) -> String {
    let mut s = String::with_capacity(2 * b.len());
    for x in b {
        let _ = write!(s, "{:02x}", x);
    }
    s
}

pub fn hex_u32s(w: &[u32]) -> String {
    w.iter().map(|x| format!("{:08x}", x)).collect::<Vec<_>>().join(" ")
}
pub fn hex_u64s(w: &[u64]) -> String {
    w.iter().map(|x| format!("{:016x}", x)).collect::<Vec<_>>().join(" ")
}

pub fn json_str(s: &str) -> String {
    let mut o = String::with_capacity(s.len() + 2);
    o.push('"');
    for c in s.chars() {
        match c {
            '"' => o.push_str("\\\""),
            '\\' => o.push_str("\\\\"),
            '\n' => o.push_str("\\n"),
            '\r' => o.push_str("\\r"),
            '\t' => o.push_str("\\t"),
            c if (c as u32) < 0x20 => {
                let _ = write!(o, "\\u{:04x}", c as u32);
            }
            c => o.push(c),
        }
    }
    o.push('"');
    o
}

// ------------------------------------------------------------------------------------------------ state

pub struct State {
    pub seed: u64,
    pub iters: usize,
    /// requested property: "C01".."C20", "ALL", or "C03" (dump mode)
    pub prop: String,
    pub config: String,
    pub krate: String,
    pub ty: String,
    /// property of the oracle that is currently running
    pub cur_prop: String,
    pub input: Vec<(String, String)>,
    pub nfail: usize,
    pub hidden: usize,
    pub suppressed: usize,
    pub ncases: u64,
    pub per_key: HashMap<String, usize>,
    pub max_per_key: usize,
    pub stats: bool,
    pub printed: usize,
    pub max_total: usize,
}

thread_local! {
    static ST: RefCell<State> = RefCell::new(State {
        seed: 1, iters: 1000, prop: String::new(), config: String::new(), krate: String::new(), ty: String::new(),
        cur_prop: String::new(), input: Vec::new(), nfail: 0, hidden: 0, suppressed: 0, ncases: 0,
        per_key: HashMap::new(), max_per_key: 3, stats: false, printed: 0, max_total: 60,
    });
    static LAST_PANIC: RefCell<String> = RefCell::new(String::new());
}

pub fn with<R>(f: impl FnOnce(&mut State) -> R) -> R {
    ST.with(|s| f(&mut s.borrow_mut()))
}

pub fn iters() -> usize {
    with(|s| s.iters)
}

/// is the oracle for property `p` to be run?  (C20 = "any panic in the above": every oracle runs, only panics count)
pub fn want(p: &str) -> bool {
    with(|s| s.prop == "ALL" || s.prop == "C20" || s.prop == p)
}

pub fn scope(krate: &str, ty: &str) {
    with(|s| {
        s.krate = krate.to_string();
        s.ty = ty.to_string();
        s.input.clear();
    });
}
pub fn set_type(ty: &str) {
    with(|s| {
        s.ty = ty.to_string();
        s.input.clear();
    });
}
pub fn set_prop(p: &str) {
    with(|s| {
        s.cur_prop = p.to_string();
        s.input.clear();
    });
}

/// remember the input of the case that is about to run (reported if the case fails or panics)
pub fn input(fields: &[(&str, &[u8])]) {
    with(|s| {
        s.input.clear();
        for (k, v) in fields {
            s.input.push((k.to_string(), hex(v)));
        }
        s.ncases += 1;
    });
}
/// add or replace one field of the current input
pub fn input_add(k: &str, v: &[u8]) {
    let h = hex(v);
    input_add_str(k, &h);
}
pub fn input_add_str(k: &str, v: &str) {
    with(|s| {
        if let Some(e) = s.input.iter_mut().find(|e| e.0 == k) {
            e.1 = v.to_string();
        } else {
            s.input.push((k.to_string(), v.to_string()));
        }
    });
}

fn emit(prop: &str, what: &str, got: &str, want_: &str) {
    with(|s| {
        // in C20 mode only panics are this run's business
        if s.prop == "C20" && prop != "C20" {
            s.hidden += 1;
            return;
        }
        s.nfail += 1;
        let key = format!("{}|{}|{}|{}", prop, s.krate, s.ty, what);
        let n = s.per_key.entry(key).or_insert(0);
        *n += 1;
        if *n > s.max_per_key || s.printed >= s.max_total {
            s.suppressed += 1;
            return;
        }
        s.printed += 1;
        let mut inp = String::from("{");
        for (i, (k, v)) in s.input.iter().enumerate() {
            if i > 0 {
                inp.push(',');
            }
            inp.push_str(&json_str(k));
            inp.push(':');
            inp.push_str(&json_str(v));
        }
        inp.push('}');
        let line = format!(
            "{{\"property\":{},\"crate\":{},\"type\":{},\"config\":{},\"what\":{},\"input\":{},\"got\":{},\"want\":{},\"seed\":{}}}",
            json_str(prop),
            json_str(&s.krate),
            json_str(&s.ty),
            json_str(&s.config),
            json_str(what),
            inp,
            json_str(got),
            json_str(want_),
            s.seed
        );
        let out = std::io::stdout();
        let mut l = out.lock();
        let _ = writeln!(l, "{}", line);
        let _ = l.flush();
    });
}

/// report a violation of the property of the running oracle, with the current input
pub fn fail(what: &str, got: &str, want_: &str) {
    let p = with(|s| s.cur_prop.clone());
    emit(&p, what, got, want_);
}
pub fn fail_bytes(what: &str, got: &[u8], want_: &[u8]) {
    fail(what, &hex(got), &hex(want_));
}

/// compare two byte strings; report under `what` when they differ
pub fn check_eq(what: &str, got: &[u8], want_: &[u8]) -> bool {
    if got != want_ {
        fail_bytes(what, got, want_);
        false
    } else {
        true
    }
}

pub fn install_panic_hook() {
    std::panic::set_hook(Box::new(|info| {
        let msg = if let Some(s) = info.payload().downcast_ref::<&str>() {
            s.to_string()
        } else if let Some(s) = info.payload().downcast_ref::<String>() {
            s.clone()
        } else {
            "panic".to_string()
        };
        let loc = info.location().map(|l| format!("{}:{}", l.file(), l.line())).unwrap_or_default();
        LAST_PANIC.with(|p| *p.borrow_mut() = format!("{} at {}", msg, loc));
    }));
}

/// Run one case; a panic inside it is a C20 failure carrying the last registered input.
/// Returns false if the case panicked.
pub fn guard(what: &str, f: impl FnOnce()) -> bool {
    match catch_unwind(AssertUnwindSafe(f)) {
        Ok(()) => true,
        Err(_) => {
            let msg = LAST_PANIC.with(|p| p.borrow().clone());
            let during = with(|s| s.cur_prop.clone());
            input_add_str("during", &format!("{} {}", during, what));
            emit("C20", &format!("panic: {}", what), &msg, "returns normally");
            false
        }
    }
}

pub fn arr<const N: usize>(s: &[u8]) -> [u8; N] {
    let mut a = [0u8; N];
    a.copy_from_slice(s);
    a
}

/// `key` copied into a zeroed N-byte array (for references that take "the first n bytes of a 32-byte array")
pub fn padded<const N: usize>(s: &[u8]) -> [u8; N] {
    let mut a = [0u8; N];
    a[..s.len()].copy_from_slice(s);
    a
}
