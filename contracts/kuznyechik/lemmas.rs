// Reference-only lemmas about the linear transformation L of GOST R 34.12-2015 (bcref::kuznyechik), needed to
// justify the fused-table ("LS table") technique of the sse2 / soft backends:
//      L(S(x)) = XOR_i L(unit_i(pi(x_i)))          L^-1(S^-1(x)) = XOR_i L^-1(unit_i(pi^-1(x_i)))  (after S^-1: see below)
// A monolithic statement "L(a ^ b) == L(a) ^ L(b)" is an equivalence of two large XOR networks and times out on
// every SAT solver (> 10 min), so GF(2)-linearity is proved the way one proves it on paper:
//   1. R is additive (one step, byte-local: 6 s);
//   2. L = R^16 is additive: induction over the 16 steps; the induction step uses the instance of (1) at the
//      current pair of states (`kani::assume` of an instance of a universally quantified, proved lemma excludes
//      no execution; licensed by uses=);
//   3. L(x) = XOR_i L(unit_i(x_i)): induction over the 16 bytes with the instance of (2) at each step.
// Same for R^-1 / L^-1.
//
// @module file=kuznyechik/src/lib.rs
use bcref::kuznyechik as kz;

fn any_block() -> [u8; 16] { kani::any() }

// @ob name=l_r_additive props=C07 kind=lemma fn=bcref::kuznyechik::r timeout=300
#[kani::proof]
#[kani::unwind(17)]
fn l_r_additive() {
    let a = any_block();
    let b = any_block();
    assert!(kz::eq(&kz::r(&kz::xor(&a, &b)), &kz::xor(&kz::r(&a), &kz::r(&b))));
}

// @ob name=l_rinv_additive props=C07 kind=lemma fn=bcref::kuznyechik::r_inv timeout=300
#[kani::proof]
#[kani::unwind(17)]
fn l_rinv_additive() {
    let a = any_block();
    let b = any_block();
    assert!(kz::eq(&kz::r_inv(&kz::xor(&a, &b)), &kz::xor(&kz::r_inv(&a), &kz::r_inv(&b))));
}

// @ob name=l_l_additive props=C07 kind=lemma fn=bcref::kuznyechik::l uses=l_r_additive timeout=600
#[kani::proof]
#[kani::unwind(17)]
fn l_l_additive() {
    let a = any_block();
    let b = any_block();
    let (mut ta, mut tb, mut tab) = (a, b, kz::xor(&a, &b));
    let mut k = 0;
    while k < 16 {
        // instance of l_r_additive at (ta, tb)
        kani::assume(kz::eq(&kz::r(&kz::xor(&ta, &tb)), &kz::xor(&kz::r(&ta), &kz::r(&tb))));
        ta = kz::r(&ta);
        tb = kz::r(&tb);
        tab = kz::r(&tab);
        assert!(kz::eq(&tab, &kz::xor(&ta, &tb))); // invariant: R^k(a ^ b) = R^k(a) ^ R^k(b)
        k += 1;
    }
    kani::cover!(a[0] == 1 && b[15] == 2);
    assert!(kz::eq(&kz::l(&kz::xor(&a, &b)), &kz::xor(&kz::l(&a), &kz::l(&b))));
}

// @ob name=l_linv_additive props=C07 kind=lemma fn=bcref::kuznyechik::l_inv uses=l_rinv_additive timeout=600
#[kani::proof]
#[kani::unwind(17)]
fn l_linv_additive() {
    let a = any_block();
    let b = any_block();
    let (mut ta, mut tb, mut tab) = (a, b, kz::xor(&a, &b));
    let mut k = 0;
    while k < 16 {
        kani::assume(kz::eq(&kz::r_inv(&kz::xor(&ta, &tb)), &kz::xor(&kz::r_inv(&ta), &kz::r_inv(&tb))));
        ta = kz::r_inv(&ta);
        tb = kz::r_inv(&tb);
        tab = kz::r_inv(&tab);
        assert!(kz::eq(&tab, &kz::xor(&ta, &tb)));
        k += 1;
    }
    kani::cover!(a[0] == 1 && b[15] == 2);
    assert!(kz::eq(&kz::l_inv(&kz::xor(&a, &b)), &kz::xor(&kz::l_inv(&a), &kz::l_inv(&b))));
}

// @ob name=l_l_decomp props=C07 kind=lemma fn=bcref::kuznyechik::l uses=l_l_additive timeout=900
#[kani::proof]
#[kani::unwind(17)]
fn l_l_decomp() {
    let a = any_block();
    let mut p = [0u8; 16]; // bytes 0..i of a, rest zero
    let mut acc = kz::l(&p); // XOR_{j<i} L(unit_j(a_j))   (L(0) computed, not assumed)
    let mut i = 0;
    while i < 16 {
        let u = kz::unit(i, a[i]);
        // instance of l_l_additive at (p, u)
        kani::assume(kz::eq(&kz::l(&kz::xor(&p, &u)), &kz::xor(&kz::l(&p), &kz::l(&u))));
        p = kz::xor(&p, &u);
        acc = kz::xor(&acc, &kz::l(&u));
        assert!(kz::eq(&kz::l(&p), &acc));
        i += 1;
    }
    kani::cover!(a[0] == 1 && a[15] == 2);
    assert!(kz::eq(&p, &a));
    assert!(kz::eq(&kz::l(&a), &spec_l_by_bytes(&a)));
}

// @ob name=l_linv_decomp props=C07 kind=lemma fn=bcref::kuznyechik::l_inv uses=l_linv_additive timeout=900
#[kani::proof]
#[kani::unwind(17)]
fn l_linv_decomp() {
    let a = any_block();
    let mut p = [0u8; 16];
    let mut acc = kz::l_inv(&p);
    let mut i = 0;
    while i < 16 {
        let u = kz::unit(i, a[i]);
        kani::assume(kz::eq(&kz::l_inv(&kz::xor(&p, &u)), &kz::xor(&kz::l_inv(&p), &kz::l_inv(&u))));
        p = kz::xor(&p, &u);
        acc = kz::xor(&acc, &kz::l_inv(&u));
        assert!(kz::eq(&kz::l_inv(&p), &acc));
        i += 1;
    }
    kani::cover!(a[0] == 1 && a[15] == 2);
    assert!(kz::eq(&p, &a));
    assert!(kz::eq(&kz::l_inv(&a), &spec_linv_by_bytes(&a)));
}

/// XOR_i L(unit_i(a_i))
pub fn spec_l_by_bytes(a: &[u8; 16]) -> [u8; 16] {
    let mut acc = [0u8; 16];
    let mut i = 0;
    while i < 16 {
        acc = kz::xor(&acc, &kz::l(&kz::unit(i, a[i])));
        i += 1;
    }
    acc
}
/// XOR_i L^-1(unit_i(a_i))
pub fn spec_linv_by_bytes(a: &[u8; 16]) -> [u8; 16] {
    let mut acc = [0u8; 16];
    let mut i = 0;
    while i < 16 {
        acc = kz::xor(&acc, &kz::l_inv(&kz::unit(i, a[i])));
        i += 1;
    }
    acc
}
