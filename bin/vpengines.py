def run_other(scratch, ob, mods):
    raise RuntimeError("engine %s not implemented" % ob["engine"])
