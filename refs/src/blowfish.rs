//! (reference for blowfish: to be written)
