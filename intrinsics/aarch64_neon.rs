// Software models of the AArch64 Advanced SIMD (NEON) intrinsics used by the NEON backend of the `kuznyechik` crate
// (kuznyechik/src/neon/backends.rs), written from the Arm Architecture Reference Manual (DDI 0487, A64 Advanced SIMD
// instruction descriptions LD1 / ST1 / DUP / EOR / ORR / SUB / SHL / TBL / ZIP1 / ZIP2 / UMOV / INS) and the Arm C Language
// Extensions (ACLE, "Advanced SIMD (Neon) intrinsics": which instruction each intrinsic stands for, vcreate / vcombine /
// vreinterpret).
//
// TRUSTED: these models stand for the hardware in every kuznyechik.neon obligation.  This x86-64 host can neither
// compile `core::arch::aarch64` nor execute the instructions, so there is no self-test against silicon, and the manual
// is not available in this (offline) sandbox: the pseudocode quoted at each model was written down from the manual's
// known text and must be REVIEWED against DDI 0487 section C7.2.  Anchors that do exist: the GOST R 34.12-2015 example
// pushed through the real NEON code + these models with concrete data - kuznyechik.neon.n64_kat (A.1.5 first round through
// `sub_bytes` and `transform`), n64_katenc (A.1.5 through `encrypt_block` with the published round keys), n64_katdec
// (A.1.6 through `inv_enc_keys` and `decrypt_block`; thorough tier): a model with another byte / halfword
// order, a TBL that does not zero out-of-range lanes, a SUB that saturates or a ZIP with the operands swapped fails them.
//
// The shadow copy of the NEON source imports this module in place of `core::arch::aarch64::*` (see the @shadow
// directives in contracts/kuznyechik/neon.rs), so names and signatures are those of core::arch::aarch64, except that
// the lane / shift immediates, which core::arch takes as const generics written in argument position
// (`#[rustc_legacy_const_generics]`, not available to ordinary code), are ordinary arguments here; an out-of-range
// immediate (a compile error in core::arch) is an assertion failure.
//
// REGISTER / MEMORY LAYOUT (Arm ARM "Elem[V, e, size]" = bits <size*e+size-1 : size*e> of the register).  A 128-bit
// register holds 16 byte elements (`Vn.16B[i]` = bits <8i+7:8i>) or 8 halfword elements (`Vn.8H[i]` = bits
// <16i+15:16i>), so halfword element i = byte element 2i+1 : byte element 2i (most significant first).  A 64-bit
// D register holds 8 byte elements, element i = bits <8i+7:8i>.  LD1 {Vt.16B}, [Xn] loads byte element i from address
// Xn + i, ST1 stores it there, for either data endianness (byte elements).  vreinterpretq_* keeps the 128 register bits.
// The *memory* image of the model types (they are transmuted from / to byte arrays by the harnesses, never by the
// code under verification) is the little-endian one, as on every aarch64-* Rust target; aarch64_be-* is outside the models.

#[allow(non_camel_case_types)]
pub mod a64_neon {
    /// 128-bit vector of 16 byte elements; element i = `.0[i]`.  16-byte aligned like the real type.
    #[derive(Clone, Copy)]
    #[repr(C, align(16))]
    pub struct uint8x16_t(pub [u8; 16]);
    /// 64-bit vector of 8 byte elements; element i = `.0[i]`.
    #[derive(Clone, Copy)]
    #[repr(C, align(8))]
    pub struct uint8x8_t(pub [u8; 8]);
    /// 128-bit vector of 8 halfword elements; element i = `.0[i]`.
    #[derive(Clone, Copy)]
    #[repr(C, align(16))]
    pub struct uint16x8_t(pub [u16; 8]);
    /// four consecutive 128-bit registers (ACLE: `struct uint8x16x4_t { uint8x16_t val[4]; }`; core::arch: a tuple struct
    /// with four public fields, which is how the code under verification builds it)
    #[derive(Clone, Copy)]
    #[repr(C)]
    pub struct uint8x16x4_t(pub uint8x16_t, pub uint8x16_t, pub uint8x16_t, pub uint8x16_t);

    // ---- loads / stores

    /// vld1q_u8 = LD1 {Vt.16B}, [Xn]:
    ///     for e = 0 to 15:  Elem[rval, e, 8] = Mem[address + e, 1];          (no alignment requirement: byte elements)
    pub unsafe fn vld1q_u8(ptr: *const u8) -> uint8x16_t {
        let mut o = [0u8; 16];
        let mut i = 0;
        while i < 16 {
            o[i] = *ptr.add(i);
            i += 1;
        }
        uint8x16_t(o)
    }
    /// vst1q_u8 = ST1 {Vt.16B}, [Xn]:
    ///     for e = 0 to 15:  Mem[address + e, 1] = Elem[rval, e, 8];
    pub unsafe fn vst1q_u8(ptr: *mut u8, a: uint8x16_t) {
        let mut i = 0;
        while i < 16 {
            *ptr.add(i) = a.0[i];
            i += 1;
        }
    }

    // ---- element-wise arithmetic / logic

    /// vdupq_n_u8 = DUP Vd.16B, Wn:
    ///     element = X[n]<7:0>;  for e = 0 to 15:  Elem[result, e, 8] = element;
    pub unsafe fn vdupq_n_u8(value: u8) -> uint8x16_t { uint8x16_t([value; 16]) }
    /// veorq_u8 = EOR Vd.16B, Vn.16B, Vm.16B:    V[d] = V[n] EOR V[m];
    pub unsafe fn veorq_u8(a: uint8x16_t, b: uint8x16_t) -> uint8x16_t {
        let mut o = [0u8; 16];
        let mut i = 0;
        while i < 16 {
            o[i] = a.0[i] ^ b.0[i];
            i += 1;
        }
        uint8x16_t(o)
    }
    /// vorrq_u8 = ORR Vd.16B, Vn.16B, Vm.16B:    V[d] = V[n] OR V[m];
    pub unsafe fn vorrq_u8(a: uint8x16_t, b: uint8x16_t) -> uint8x16_t {
        let mut o = [0u8; 16];
        let mut i = 0;
        while i < 16 {
            o[i] = a.0[i] | b.0[i];
            i += 1;
        }
        uint8x16_t(o)
    }
    /// vsubq_u8 = SUB Vd.16B, Vn.16B, Vm.16B:
    ///     for e = 0 to 15:  Elem[result, e, 8] = Elem[operand1, e, 8] - Elem[operand2, e, 8];      (modulo 2^8)
    pub unsafe fn vsubq_u8(a: uint8x16_t, b: uint8x16_t) -> uint8x16_t {
        let mut o = [0u8; 16];
        let mut i = 0;
        while i < 16 {
            o[i] = a.0[i].wrapping_sub(b.0[i]);
            i += 1;
        }
        uint8x16_t(o)
    }
    /// vshlq_n_u16(a, n) = SHL Vd.8H, Vn.8H, #n   (0 <= n <= 15):
    ///     for e = 0 to 7:  Elem[result, e, 16] = LSL(Elem[operand, e, 16], shift);      (bits shifted out are lost)
    pub unsafe fn vshlq_n_u16(a: uint16x8_t, n: i32) -> uint16x8_t {
        assert!(0 <= n && n <= 15);
        let mut o = [0u16; 8];
        let mut i = 0;
        while i < 8 {
            o[i] = a.0[i] << (n as u32);
            i += 1;
        }
        uint16x8_t(o)
    }

    // ---- table lookup

    /// vqtbl4q_u8(t, idx) = TBL Vd.16B, {Vn.16B, Vn+1.16B, Vn+2.16B, Vn+3.16B}, Vm.16B   (regs = 4, is_tbl = TRUE):
    ///     indices = V[m];
    ///     for i = 0 to regs-1:  table<128*i+127:128*i> = V[n];  n = (n + 1) MOD 32;
    ///     result = if is_tbl then Zeros() else V[d];
    ///     for i = 0 to 15:
    ///         index = UInt(Elem[indices, i, 8]);
    ///         if index < 16 * regs then  Elem[result, i, 8] = Elem[table, index, 8];
    /// i.e. table byte 16 r + c is byte element c of the r-th register; an index >= 64 gives 0.
    pub unsafe fn vqtbl4q_u8(t: uint8x16x4_t, idx: uint8x16_t) -> uint8x16_t {
        let regs = [t.0 .0, t.1 .0, t.2 .0, t.3 .0];
        let mut o = [0u8; 16];
        let mut i = 0;
        while i < 16 {
            let index = idx.0[i] as usize;
            if index < 64 {
                o[i] = regs[index / 16][index % 16];
            }
            i += 1;
        }
        uint8x16_t(o)
    }

    // ---- permutes

    /// vzip1q_u8 = ZIP1 Vd.16B, Vn.16B, Vm.16B   (part = 0);   vzip2q_u8 = ZIP2 (part = 1):
    ///     pairs = 8;  base = part * pairs;
    ///     for p = 0 to pairs-1:
    ///         Elem[result, 2*p+0, 8] = Elem[operand1, base+p, 8];
    ///         Elem[result, 2*p+1, 8] = Elem[operand2, base+p, 8];
    fn zip(a: &[u8; 16], b: &[u8; 16], part: usize) -> [u8; 16] {
        let base = part * 8;
        let mut o = [0u8; 16];
        let mut p = 0;
        while p < 8 {
            o[2 * p] = a[base + p];
            o[2 * p + 1] = b[base + p];
            p += 1;
        }
        o
    }
    pub unsafe fn vzip1q_u8(a: uint8x16_t, b: uint8x16_t) -> uint8x16_t { uint8x16_t(zip(&a.0, &b.0, 0)) }
    pub unsafe fn vzip2q_u8(a: uint8x16_t, b: uint8x16_t) -> uint8x16_t { uint8x16_t(zip(&a.0, &b.0, 1)) }

    // ---- moves between general registers / D registers / Q registers

    /// vcreate_u8(a) (ACLE: INS Dd.D[0], Xn - "creates a vector from a 64-bit pattern"): the D register holds the 64 bits
    /// of `a`, so byte element i = a<8i+7:8i>.
    pub unsafe fn vcreate_u8(a: u64) -> uint8x8_t { uint8x8_t(a.to_le_bytes()) }
    /// vcombine_u8(low, high) (ACLE: DUP Vd.1D, Vn.D[0]; INS Vd.D[1], Vm.D[0]): result<63:0> = low, result<127:64> = high,
    /// i.e. byte elements 0..7 = low, 8..15 = high.
    pub unsafe fn vcombine_u8(low: uint8x8_t, high: uint8x8_t) -> uint8x16_t {
        let mut o = [0u8; 16];
        let mut i = 0;
        while i < 8 {
            o[i] = low.0[i];
            o[8 + i] = high.0[i];
            i += 1;
        }
        uint8x16_t(o)
    }
    /// vreinterpretq_u16_u8: same 128 register bits; halfword element i = byte element 2i+1 : byte element 2i
    pub unsafe fn vreinterpretq_u16_u8(a: uint8x16_t) -> uint16x8_t {
        let mut o = [0u16; 8];
        let mut i = 0;
        while i < 8 {
            o[i] = u16::from_le_bytes([a.0[2 * i], a.0[2 * i + 1]]);
            i += 1;
        }
        uint16x8_t(o)
    }
    /// vgetq_lane_u16(v, lane) = UMOV Wd, Vn.H[lane]   (0 <= lane <= 7):    X[d] = ZeroExtend(Elem[V[n], lane, 16]);
    pub unsafe fn vgetq_lane_u16(v: uint16x8_t, lane: i32) -> u16 {
        assert!(0 <= lane && lane <= 7);
        v.0[lane as usize]
    }
}
