//! Twofish, written from B. Schneier, J. Kelsey, D. Whiting, D. Wagner, C. Hall, N. Ferguson,
//! "Twofish: A 128-Bit Block Cipher" (AES submission, 15 June 1998), section 4:
//! 4.1 (whitening, the 16-round Feistel network, the function F), 4.2 (the function g), 4.3 (key schedule:
//! 4.3.1 Me / Mo / S, 4.3.2 the function h, 4.3.3 key-dependent S-boxes, 4.3.4 expanded key words K_j,
//! 4.3.5 the permutations q0 and q1).  Matrices and 4-bit tables typed from the paper.
//! All words are little-endian (section 4: "p_0..p_15 ... P_i = sum p_(4i+j) 2^(8j)").

/// 4.2: GF(2^8) for the MDS matrix is GF(2)[x]/v(x), v(x) = x^8 + x^6 + x^5 + x^3 + 1.
pub const MDS_POLY: u16 = 0x169;
/// 4.3.1: GF(2^8) for the RS matrix is GF(2)[x]/w(x), w(x) = x^8 + x^6 + x^3 + x^2 + 1.
pub const RS_POLY: u16 = 0x14d;

/// 4.2: the MDS matrix.
pub const MDS: [[u8; 4]; 4] = [[0x01, 0xEF, 0x5B, 0x5B], [0x5B, 0xEF, 0xEF, 0x01], [0xEF, 0x5B, 0x01, 0xEF], [0xEF, 0x01, 0xEF, 0x5B]];

/// 4.3.1: the RS matrix.
pub const RS: [[u8; 8]; 4] = [
    [0x01, 0xA4, 0x55, 0x87, 0x5A, 0x58, 0xDB, 0x9E],
    [0xA4, 0x56, 0x82, 0xF3, 0x1E, 0xC6, 0x68, 0xE5],
    [0x02, 0xA1, 0xFC, 0xC1, 0x47, 0xAE, 0x3D, 0x19],
    [0xA4, 0x55, 0x87, 0x5A, 0x58, 0xDB, 0x9E, 0x03],
];

/// 4.3.5: the 4-bit permutations t0..t3 of q0 and of q1.
pub const QT: [[[u8; 16]; 4]; 2] = [
    [
        [0x8, 0x1, 0x7, 0xD, 0x6, 0xF, 0x3, 0x2, 0x0, 0xB, 0x5, 0x9, 0xE, 0xC, 0xA, 0x4],
        [0xE, 0xC, 0xB, 0x8, 0x1, 0x2, 0x3, 0x5, 0xF, 0x4, 0xA, 0x6, 0x7, 0x0, 0x9, 0xD],
        [0xB, 0xA, 0x5, 0xE, 0x6, 0xD, 0x9, 0x0, 0xC, 0x8, 0xF, 0x3, 0x2, 0x4, 0x7, 0x1],
        [0xD, 0x7, 0xF, 0x4, 0x1, 0x2, 0x6, 0xE, 0x9, 0xB, 0x3, 0x0, 0x8, 0x5, 0xC, 0xA],
    ],
    [
        [0x2, 0x8, 0xB, 0xD, 0xF, 0x7, 0x6, 0xE, 0x3, 0x1, 0x9, 0x4, 0x0, 0xA, 0xC, 0x5],
        [0x1, 0xE, 0x2, 0xB, 0x4, 0xC, 0x3, 0x7, 0x6, 0xD, 0xA, 0x5, 0xF, 0x9, 0x0, 0x8],
        [0x4, 0xC, 0x7, 0x5, 0x1, 0x6, 0x9, 0xA, 0x0, 0xE, 0xD, 0x8, 0x2, 0xB, 0x3, 0xF],
        [0xB, 0x9, 0x5, 0x1, 0xC, 0x3, 0xD, 0xE, 0x6, 0x4, 0x7, 0xF, 0x2, 0x0, 0x8, 0xA],
    ],
];

/// Product in GF(2)[x]/poly (poly of degree 8 given with its x^8 term): schoolbook carry-less product of the two
/// polynomials (degree <= 14), then reduction from the top.
pub const fn gf_mul(a: u8, b: u8, poly: u16) -> u8 {
    let mut prod: u16 = 0;
    let mut i = 0;
    while i < 8 {
        if (b >> i) & 1 == 1 {
            prod ^= (a as u16) << i;
        }
        i += 1;
    }
    let mut d = 14;
    while d >= 8 {
        if (prod >> d) & 1 == 1 {
            prod ^= poly << (d - 8);
        }
        d -= 1;
    }
    prod as u8
}

/// 4-bit rotate right by one
const fn ror4(x: u8) -> u8 { ((x >> 1) | (x << 3)) & 15 }

/// 4.3.5: the fixed 8-bit permutation q_i from its four 4-bit tables.
pub const fn q_calc(i: usize, x: u8) -> u8 {
    let a0 = x / 16;
    let b0 = x % 16;
    let a1 = a0 ^ b0;
    let b1 = (a0 ^ ror4(b0) ^ (8 * a0)) % 16;
    let a2 = QT[i][0][a1 as usize];
    let b2 = QT[i][1][b1 as usize];
    let a3 = a2 ^ b2;
    let b3 = (a2 ^ ror4(b2) ^ (8 * a2)) % 16;
    let a4 = QT[i][2][a3 as usize];
    let b4 = QT[i][3][b3 as usize];
    16 * b4 + a4
}
const fn q_tables() -> [[u8; 256]; 2] {
    let mut t = [[0u8; 256]; 2];
    let mut i = 0;
    while i < 2 {
        let mut x = 0;
        while x < 256 {
            t[i][x] = q_calc(i, x as u8);
            x += 1;
        }
        i += 1;
    }
    t
}
/// q0 and q1 tabulated (computed from `q_calc`).
pub static Q: [[u8; 256]; 2] = q_tables();
pub fn q(i: usize, x: u8) -> u8 { Q[i][x as usize] }

/// 4.2: z = MDS . y over GF(2^8)/v(x), Z = sum z_i 2^(8i).
pub fn mds(y: [u8; 4]) -> u32 {
    let mut z = [0u8; 4];
    let mut i = 0;
    while i < 4 {
        let mut j = 0;
        while j < 4 {
            z[i] ^= gf_mul(MDS[i][j], y[j], MDS_POLY);
            j += 1;
        }
        i += 1;
    }
    u32::from_le_bytes(z)
}
/// Contribution of one input byte: column `j` of the MDS matrix times `x`.
pub fn mds_column(x: u8, j: usize) -> u32 {
    let mut z = [0u8; 4];
    let mut i = 0;
    while i < 4 {
        z[i] = gf_mul(MDS[i][j], x, MDS_POLY);
        i += 1;
    }
    u32::from_le_bytes(z)
}

/// 4.3.1: (s_i,0 .. s_i,3) = RS . (m_8i .. m_8i+7) over GF(2^8)/w(x).
pub fn rs(m: &[u8; 8]) -> [u8; 4] {
    let mut s = [0u8; 4];
    let mut i = 0;
    while i < 4 {
        let mut j = 0;
        while j < 8 {
            s[i] ^= gf_mul(RS[i][j], m[j], RS_POLY);
            j += 1;
        }
        i += 1;
    }
    s
}

/// 4.3.2: h(X, L) with L = (L_0 .. L_{k-1}), k in {2,3,4}; `l[i]` holds the four bytes l_i,0 .. l_i,3 of L_i.
pub fn h(x: u32, l: &[[u8; 4]; 4], k: usize) -> u32 {
    let mut y = x.to_le_bytes();
    if k == 4 {
        y[0] = q(1, y[0]) ^ l[3][0];
        y[1] = q(0, y[1]) ^ l[3][1];
        y[2] = q(0, y[2]) ^ l[3][2];
        y[3] = q(1, y[3]) ^ l[3][3];
    }
    if k >= 3 {
        y[0] = q(1, y[0]) ^ l[2][0];
        y[1] = q(1, y[1]) ^ l[2][1];
        y[2] = q(0, y[2]) ^ l[2][2];
        y[3] = q(0, y[3]) ^ l[2][3];
    }
    y[0] = q(1, q(0, q(0, y[0]) ^ l[1][0]) ^ l[0][0]);
    y[1] = q(0, q(0, q(1, y[1]) ^ l[1][1]) ^ l[0][1]);
    y[2] = q(1, q(1, q(0, y[2]) ^ l[1][2]) ^ l[0][2]);
    y[3] = q(0, q(1, q(1, y[3]) ^ l[1][3]) ^ l[0][3]);
    mds(y)
}

/// The keyed value: the 40 expanded key words, the S vector in the order used by g (S = (S_{k-1}, .., S_0), 4.3.1), k.
#[derive(Clone, Copy)]
pub struct Keyed {
    pub k: [u32; 40],
    pub s: [[u8; 4]; 4],
    pub n: usize,
}

/// 4.3: key schedule for a key of 8k bytes (the first 8k bytes of `key`), k in {2,3,4}.
pub fn key_schedule(key: &[u8; 32], k: usize) -> Keyed {
    // 4.3.1: M_i = the 2k little-endian key words; Me = (M_0, M_2, ..), Mo = (M_1, M_3, ..)
    let mut me = [[0u8; 4]; 4];
    let mut mo = [[0u8; 4]; 4];
    let mut s = [[0u8; 4]; 4];
    let mut i = 0;
    while i < 4 {
        if i < k {
            let mut j = 0;
            while j < 4 {
                me[i][j] = key[8 * i + j];
                mo[i][j] = key[8 * i + 4 + j];
                j += 1;
            }
            let m8 = [key[8 * i], key[8 * i + 1], key[8 * i + 2], key[8 * i + 3], key[8 * i + 4], key[8 * i + 5], key[8 * i + 6], key[8 * i + 7]];
            // S = (S_{k-1}, S_{k-2}, .., S_0): "note that S lists the words in reverse order"
            s[k - 1 - i] = rs(&m8);
        }
        i += 1;
    }
    // 4.3.4
    let rho: u32 = 0x0101_0101;
    let mut kw = [0u32; 40];
    let mut i = 0u32;
    while i < 20 {
        let a = h((2 * i).wrapping_mul(rho), &me, k);
        let b = h((2 * i + 1).wrapping_mul(rho), &mo, k).rotate_left(8);
        kw[2 * i as usize] = a.wrapping_add(b);
        kw[2 * i as usize + 1] = a.wrapping_add(b.wrapping_mul(2)).rotate_left(9);
        i += 1;
    }
    Keyed { k: kw, s, n: k }
}

/// 4.3.3 / 4.2: g(X) = h(X, S).
pub fn g(kd: &Keyed, x: u32) -> u32 { h(x, &kd.s, kd.n) }

/// 4.1: F(R0, R1, r).
pub fn f(kd: &Keyed, r0: u32, r1: u32, r: usize) -> (u32, u32) {
    let t0 = g(kd, r0);
    let t1 = g(kd, r1.rotate_left(8));
    (t0.wrapping_add(t1).wrapping_add(kd.k[2 * r + 8]), t0.wrapping_add(t1.wrapping_mul(2)).wrapping_add(kd.k[2 * r + 9]))
}

pub fn words_of(b: &[u8; 16]) -> [u32; 4] {
    let mut w = [0u32; 4];
    let mut i = 0;
    while i < 4 {
        w[i] = u32::from_le_bytes([b[4 * i], b[4 * i + 1], b[4 * i + 2], b[4 * i + 3]]);
        i += 1;
    }
    w
}
pub fn bytes_of(w: &[u32; 4]) -> [u8; 16] {
    let mut b = [0u8; 16];
    let mut i = 0;
    while i < 4 {
        let x = w[i].to_le_bytes();
        let mut j = 0;
        while j < 4 {
            b[4 * i + j] = x[j];
            j += 1;
        }
        i += 1;
    }
    b
}

/// 4.1: input whitening, 16 rounds, undo of the last swap, output whitening.
pub fn encrypt_with(kd: &Keyed, block: &[u8; 16]) -> [u8; 16] {
    let p = words_of(block);
    let mut r = [p[0] ^ kd.k[0], p[1] ^ kd.k[1], p[2] ^ kd.k[2], p[3] ^ kd.k[3]];
    let mut round = 0;
    while round < 16 {
        let (f0, f1) = f(kd, r[0], r[1], round);
        r = [(r[2] ^ f0).rotate_right(1), r[3].rotate_left(1) ^ f1, r[0], r[1]];
        round += 1;
    }
    // C_i = R_16,(i+2) mod 4 ^ K_{i+4}
    let c = [r[2] ^ kd.k[4], r[3] ^ kd.k[5], r[0] ^ kd.k[6], r[1] ^ kd.k[7]];
    bytes_of(&c)
}

/// The inverse: the same steps undone in reverse order.
pub fn decrypt_with(kd: &Keyed, block: &[u8; 16]) -> [u8; 16] {
    let c = words_of(block);
    // R_16
    let mut r = [c[2] ^ kd.k[6], c[3] ^ kd.k[7], c[0] ^ kd.k[4], c[1] ^ kd.k[5]];
    let mut round = 16;
    while round > 0 {
        round -= 1;
        // r = R_{round+1}; R_round,0 = r[2], R_round,1 = r[3]
        let (f0, f1) = f(kd, r[2], r[3], round);
        r = [r[2], r[3], r[0].rotate_left(1) ^ f0, (r[1] ^ f1).rotate_right(1)];
    }
    let p = [r[0] ^ kd.k[0], r[1] ^ kd.k[1], r[2] ^ kd.k[2], r[3] ^ kd.k[3]];
    bytes_of(&p)
}

/// Twofish under the user key `key[..8k]`.
pub fn encrypt(key: &[u8; 32], k: usize, block: &[u8; 16]) -> [u8; 16] { encrypt_with(&key_schedule(key, k), block) }
pub fn decrypt(key: &[u8; 32], k: usize, block: &[u8; 16]) -> [u8; 16] { decrypt_with(&key_schedule(key, k), block) }

#[cfg(test)]
mod tests {
    use super::*;

    fn hexv(s: &str, out: &mut [u8]) {
        let b = s.as_bytes();
        assert_eq!(b.len(), 2 * out.len());
        let d = |c: u8| (c as char).to_digit(16).unwrap() as u8;
        for i in 0..out.len() {
            out[i] = d(b[2 * i]) << 4 | d(b[2 * i + 1]);
        }
    }
    fn kat(key: &str, pt: &str, ct: &str) {
        let n = key.len() / 2;
        let mut k = [0x5Au8; 32];
        hexv(key, &mut k[..n]);
        let (mut p, mut c) = ([0u8; 16], [0u8; 16]);
        hexv(pt, &mut p);
        hexv(ct, &mut c);
        assert_eq!(encrypt(&k, n / 8, &p), c);
        assert_eq!(decrypt(&k, n / 8, &c), p);
    }

    // Twofish paper, appendix "Test Vectors" (intermediate value tests, ecb_ival.txt)
    #[test]
    fn paper_vectors() {
        kat("00000000000000000000000000000000", "00000000000000000000000000000000", "9F589F5CF6122C32B6BFEC2F2AE8C35A");
        kat("0123456789ABCDEFFEDCBA98765432100011223344556677", "00000000000000000000000000000000", "CFD1D2E5A9BE9CDF501F13B892BD2248");
        kat(
            "0123456789ABCDEFFEDCBA987654321000112233445566778899AABBCCDDEEFF",
            "00000000000000000000000000000000",
            "37527BE0052334B89F0CFCCAE87CFA20",
        );
    }
    // ecb_tbl.txt: the iterated table test (next key = previous plaintext || .., next plaintext = previous ciphertext),
    // entries 1..5 and 48 for 128-bit keys
    #[test]
    fn table_test_128() {
        let expect = [
            (1, "9F589F5CF6122C32B6BFEC2F2AE8C35A"),
            (2, "D491DB16E7B1C39E86CB086B789F5419"),
            (3, "019F9809DE1711858FAAC3A3BA20FBC3"),
            (4, "6363977DE839486297E661C6C9D668EB"),
            (5, "816D5BD0FAE35342BF2A7412C246F752"),
            (48, "6B459286F3FFD28D49F15B1581B08E42"),
        ];
        let mut key = [0u8; 32];
        let mut plain = [0u8; 16];
        for i in 1..50 {
            let c = encrypt(&key, 2, &plain);
            assert_eq!(decrypt(&key, 2, &c), plain);
            for (n, h) in expect.iter() {
                if *n == i {
                    let mut e = [0u8; 16];
                    hexv(h, &mut e);
                    assert_eq!(c, e, "i = {}", i);
                }
            }
            key[..16].copy_from_slice(&plain);
            plain = c;
        }
    }
    // expanded key words of the all-zero 128-bit key (paper, intermediate values)
    #[test]
    fn subkeys_zero_key() {
        let kd = key_schedule(&[0u8; 32], 2);
        assert_eq!(&kd.k[..8], &[0x52C54DDE, 0x11F0626D, 0x7CAC9D4A, 0x4D1B4AAA, 0xB7B83A10, 0x1E7D0BEB, 0xEE9C341F, 0xCFE14BE4]);
        assert_eq!(kd.k[39], 0x696EA672);
    }
    // S-box key and first subkeys for the 256-bit key of the paper
    #[test]
    fn sboxkey_256() {
        let mut k = [0u8; 32];
        hexv("0123456789ABCDEFFEDCBA987654321000112233445566778899AABBCCDDEEFF", &mut k);
        let kd = key_schedule(&k, 4);
        // S_0 .. S_3 (kd.s is reversed)
        assert_eq!(kd.s[3], [0xf2, 0xf6, 0x9f, 0xb8]);
        assert_eq!(kd.s[2], [0x4b, 0xbc, 0x55, 0xb2]);
        assert_eq!(kd.s[1], [0x61, 0x10, 0x66, 0x45]);
        assert_eq!(kd.s[0], [0xf7, 0x47, 0x44, 0x8e]);
        assert_eq!(&kd.k[..4], &[0x5EC769BF, 0x44D13C60, 0x76CD39B1, 0x16750474]);
    }
    #[test]
    fn q_are_permutations_gf_sane() {
        for i in 0..2 {
            let mut seen = [false; 256];
            for x in 0..256 { seen[Q[i][x] as usize] = true; }
            assert!(seen.iter().all(|b| *b));
        }
        // x * x^7 = x^8 = x^6+x^5+x^3+1 mod v(x)
        assert_eq!(gf_mul(2, 0x80, MDS_POLY), 0x69);
        assert_eq!(gf_mul(2, 0x80, RS_POLY), 0x4d);
        assert_eq!(gf_mul(0x53, 1, MDS_POLY), 0x53);
        // mds of a unit vector is a column
        assert_eq!(mds([1, 0, 0, 0]), u32::from_le_bytes([0x01, 0x5B, 0xEF, 0xEF]));
        assert_eq!(mds([0, 0, 3, 0]), mds_column(3, 2));
    }
}
