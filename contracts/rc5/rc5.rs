// Contracts on rc5/src/lib.rs: RC5<W, R, B> against Rivest's RC5-w/r/b (bcref::rc5).
//
// RC5<W, R, B> is generic over typenum parameters; a Kani harness is monomorphic, so the type-level product
// (5 word types x 256 round counts x 256 key lengths) CANNOT be covered generically.  Each instantiation below is
// its own obligation (a complete proof for that instantiation: every key / every expanded-key table / every block).
// The list: the six triples of /repo/rc5/tests, r in {0, 1, 255 (8-bit words)}, b in {1, 3, 7, 255}, key lengths that are not a
// multiple of the word size for u16/u32/u64/u128, and b = 0 (accepted by the type; RC5 prescribes c = max(1, ceil(8b/w))).
// The generic code paths exercised are the same for every instantiation; the `Word` impls have their own
// contracts (primitives.rs), the typenum arithmetic (ExpandedKeyTableSize, KeyAsWordsSize, BlockSize) is checked
// per instantiation by the size assertions in the k_* harnesses.
//
// The right-hand sides are the native-word instances bcref::rc5::{w8, w16, w32, w64, w128} of the reference (the same
// text as the width-parametric reference, tied to it by bcref's tests and, operation by operation, by primitives.rs).
//
// Key expansion and data-dependent rotations: proving two symbol-disjoint copies of a chain of data-dependent
// rotations equal costs the SAT solver seconds per rotation (the RC5-32/12/16 key schedule alone did not finish in 900 s
// on any solver).  The obligations that run the key schedule (<p>_ks, <p>_api_enc, <p>_api_dec) therefore replace the
// rotation on BOTH sides -- `<W as Word>::rotate_left / rotate_right` in the real code and `bcref::rc5::wN::rotl / rotr`
// in the reference -- by one lock-step oracle (`oracle!` below): while the real code runs, every rotation call is
// recorded (arguments, result; the result is the true rotation for the constant amounts 3 and 8 and an unconstrained
// value otherwise); while the reference runs, its j-th rotation call must have the same arguments as the j-th recorded
// call (asserted) and gets the recorded result.  This is sound because the rotation is a function (same arguments, same
// result) and licensed by primitives.rs c_word_*: the real method and the reference operation are the same function.
// What these obligations then prove is everything else: the order and number of rotations, their arguments, the
// additions, the table indexing, byte order, and absence of panics for every key.
//
// Per instantiation <p>:
//   <p>_ks   substitute_key (key_into_words + initialize_expanded_key_table + mix_in) == key expansion 4.3, every key
//   <p>_enc  encrypt_block == 4.1 for EVERY expanded-key table and block;  <p>_dec  decrypt_block == 4.2
//   <p>_rt1  C01: dec(enc(x)) == x for EVERY expanded-key table;  <p>_rt2  enc(dec(x)) == x
//   <p>_api_enc / <p>_api_dec  KeyInit::new + encrypt_block / decrypt_block == RC5-w/r/b on bytes, every key and block (no stubs)
//
// @module file=rc5/src/lib.rs
// @config name=zeroize features=zeroize
use super::*;
use crate::primitives::__vp_primitives::W128;
use bcref::rc5 as r;
use cipher::consts::*;
include!("@VERIF@/contracts/_common/common.rs");

fn eq_n<const N: usize>(a: &[u8; N], b: &[u8; N]) -> bool {
    let mut ok = true;
    let mut i = 0;
    while i < N {
        ok &= a[i] == b[i];
        i += 1;
    }
    ok
}
/// `needle` occurs in the formatted text
fn contains(t: &FmtBuf, needle: &str) -> bool {
    let n = needle.as_bytes();
    if t.overflow || t.len < n.len() { return false; }
    let mut found = false;
    let mut s = 0;
    while s + n.len() <= t.len {
        let mut ok = true;
        let mut i = 0;
        while i < n.len() {
            ok &= t.buf[s + i] == n[i];
            i += 1;
        }
        found |= ok;
        s += 1;
    }
    found
}

macro_rules! oracle {
    ($o:ident, $W:ident, $maxc:expr) => {
        pub mod $o {
            pub const MAXC: usize = $maxc;
            pub static mut X: [$W; MAXC] = [0; MAXC];
            pub static mut Y: [$W; MAXC] = [0; MAXC];
            pub static mut O: [$W; MAXC] = [0; MAXC];
            pub static mut D: [bool; MAXC] = [false; MAXC];
            pub static mut N: usize = 0; // calls recorded
            pub static mut K: usize = 0; // calls replayed
            pub static mut REPLAY: bool = false;
            #[allow(static_mut_refs)]
            fn call(left: bool, x: $W, y: $W) -> $W {
                unsafe {
                    if !REPLAY {
                        let fresh: $W = kani::any();
                        let o = if left && (y == 3 || y == 8) { x.rotate_left(y as u32) } else { fresh };
                        assert!(N < MAXC);
                        X[N] = x;
                        Y[N] = y;
                        O[N] = o;
                        D[N] = left;
                        N += 1;
                        o
                    } else {
                        assert!(K < N);
                        assert!(D[K] == left && X[K] == x && Y[K] == y, "lock-step: the reference makes the same rotation call");
                        K += 1;
                        O[K - 1]
                    }
                }
            }
            pub fn rotl(x: $W, y: $W) -> $W { call(true, x, y) }
            pub fn rotr(x: $W, y: $W) -> $W { call(false, x, y) }
            pub fn replay() { unsafe { REPLAY = true; } }
            pub fn all_replayed() -> bool { unsafe { K == N } }
        }
    };
}
oracle!(orc8, u8, 200);
oracle!(orc8big, u8, 3700);
oracle!(orc16, u16, 250);
oracle!(orc32, u32, 250);
oracle!(orc32big, u32, 700);
oracle!(orc64, u64, 380);
oracle!(orc128, u128, 440);

macro_rules! any_rc5 {
    ($W:ty, $R:ty, $B:ty, $t:expr) => {
        RC5::<$W, $R, $B> { key_table: Array(kani::any::<[$W; $t]>()), _key_size: PhantomData }
    };
}

// m = native reference instance, u = word bytes, t = 2(r+1), c = max(1, ceil(b/u)), b = key bytes, unw > 3 max(t, c), 2u, b
macro_rules! rc5_inst {
    ($W:ident, $R:ty, $B:ty, m=$m:ident, o=$o:ident, u=$u:expr, t=$t:expr, c=$c:expr, b=$b:expr, unw=$unw:expr;
     $ks:ident, $enc:ident, $dec:ident, $rt1:ident, $rt2:ident, $apie:ident, $apid:ident) => {
        #[kani::proof]
        #[kani::stub(<$W as Word>::rotate_left, $o::rotl)]
        #[kani::stub(<$W as Word>::rotate_right, $o::rotr)]
        #[kani::stub(bcref::rc5::$m::rotl, $o::rotl)]
        #[kani::stub(bcref::rc5::$m::rotr, $o::rotr)]
        #[kani::unwind($unw)]
        fn $ks() {
            let key: [u8; $b] = kani::any();
            let real = RC5::<$W, $R, $B>::substitute_key(&Array(key));
            $o::replay();
            let spec = r::$m::key_expansion::<$t, $c>(&key);
            assert!(real.0.len() == $t);
            let mut i = 0;
            while i < $t {
                assert!(real.0[i] == spec[i]);
                i += 1;
            }
            assert!($o::all_replayed());
        }
        #[kani::proof]
        #[kani::unwind($unw)]
        fn $enc() {
            let c = any_rc5!($W, $R, $B, $t);
            let b: [u8; 2 * $u] = kani::any();
            let mut blk = Array(b);
            cipher::BlockCipherEncrypt::encrypt_block(&c, &mut blk);
            let (x, y) = r::$m::encrypt_words::<$t>(&c.key_table.0, r::$m::word_from_le(&b[..$u]), r::$m::word_from_le(&b[$u..]));
            assert!(r::$m::word_from_le(&blk.0[..$u]) == x && r::$m::word_from_le(&blk.0[$u..]) == y);
        }
        #[kani::proof]
        #[kani::unwind($unw)]
        fn $dec() {
            let c = any_rc5!($W, $R, $B, $t);
            let b: [u8; 2 * $u] = kani::any();
            let mut blk = Array(b);
            cipher::BlockCipherDecrypt::decrypt_block(&c, &mut blk);
            let (x, y) = r::$m::decrypt_words::<$t>(&c.key_table.0, r::$m::word_from_le(&b[..$u]), r::$m::word_from_le(&b[$u..]));
            assert!(r::$m::word_from_le(&blk.0[..$u]) == x && r::$m::word_from_le(&blk.0[$u..]) == y);
        }
        #[kani::proof]
        #[kani::unwind($unw)]
        fn $rt1() {
            let c = any_rc5!($W, $R, $B, $t);
            let b: [u8; 2 * $u] = kani::any();
            let mut blk = Array(b);
            cipher::BlockCipherEncrypt::encrypt_block(&c, &mut blk);
            cipher::BlockCipherDecrypt::decrypt_block(&c, &mut blk);
            assert!(eq_n(&blk.0, &b));
        }
        #[kani::proof]
        #[kani::unwind($unw)]
        fn $rt2() {
            let c = any_rc5!($W, $R, $B, $t);
            let b: [u8; 2 * $u] = kani::any();
            let mut blk = Array(b);
            cipher::BlockCipherDecrypt::decrypt_block(&c, &mut blk);
            cipher::BlockCipherEncrypt::encrypt_block(&c, &mut blk);
            assert!(eq_n(&blk.0, &b));
        }
        #[kani::proof]
        #[kani::stub(<$W as Word>::rotate_left, $o::rotl)]
        #[kani::stub(<$W as Word>::rotate_right, $o::rotr)]
        #[kani::stub(bcref::rc5::$m::rotl, $o::rotl)]
        #[kani::stub(bcref::rc5::$m::rotr, $o::rotr)]
        #[kani::unwind($unw)]
        fn $apie() {
            let key: [u8; $b] = kani::any();
            let b: [u8; 2 * $u] = kani::any();
            let c = <RC5<$W, $R, $B> as KeyInit>::new(&Array(key));
            let mut blk = Array(b);
            cipher::BlockCipherEncrypt::encrypt_block(&c, &mut blk);
            $o::replay();
            let s = r::$m::key_expansion::<$t, $c>(&key);
            let (x, y) = r::$m::encrypt_words::<$t>(&s, r::$m::word_from_le(&b[..$u]), r::$m::word_from_le(&b[$u..]));
            assert!(r::$m::word_from_le(&blk.0[..$u]) == x && r::$m::word_from_le(&blk.0[$u..]) == y);
            assert!($o::all_replayed());
        }
        #[kani::proof]
        #[kani::stub(<$W as Word>::rotate_left, $o::rotl)]
        #[kani::stub(<$W as Word>::rotate_right, $o::rotr)]
        #[kani::stub(bcref::rc5::$m::rotl, $o::rotl)]
        #[kani::stub(bcref::rc5::$m::rotr, $o::rotr)]
        #[kani::unwind($unw)]
        fn $apid() {
            let key: [u8; $b] = kani::any();
            let b: [u8; 2 * $u] = kani::any();
            let c = <RC5<$W, $R, $B> as KeyInit>::new(&Array(key));
            let mut blk = Array(b);
            cipher::BlockCipherDecrypt::decrypt_block(&c, &mut blk);
            $o::replay();
            let s = r::$m::key_expansion::<$t, $c>(&key);
            let (x, y) = r::$m::decrypt_words::<$t>(&s, r::$m::word_from_le(&b[..$u]), r::$m::word_from_le(&b[$u..]));
            assert!(r::$m::word_from_le(&blk.0[..$u]) == x && r::$m::word_from_le(&blk.0[$u..]) == y);
            assert!($o::all_replayed());
        }
    };
}

// ---------------------------------------------------------------- the instantiations
// (for the instantiations that differ from another one only in B, the block functions are the same code on the same
//  table type -- B is a PhantomData parameter -- and only the key-schedule and API obligations are registered)
// RC5-8/12/4: RC5<u8, U12, U4>  (t = 26, c = 4)
// @ob name=t8_12_4_ks props=C10,C20 kind=contract uses=c_word_u8,c_word_u16,c_word_u32,c_word_u64,c_word_u128 fn=rc5::RC5::substitute_key,rc5::RC5::key_into_words,rc5::RC5::initialize_expanded_key_table,rc5::RC5::mix_in timeout=600 note="RC5-8/12/4"
// @ob name=t8_12_4_enc props=C10,C20 kind=contract fn=rc5::RC5::encrypt_block,rc5::RC5::words_from_block,rc5::RC5::block_from_words timeout=600 note="RC5-8/12/4"
// @ob name=t8_12_4_dec props=C10,C20 kind=contract fn=rc5::RC5::decrypt_block,rc5::RC5::words_from_block,rc5::RC5::block_from_words timeout=600 note="RC5-8/12/4"
// @ob name=t8_12_4_rt1 props=C01 kind=contract fn=rc5::RC5::encrypt_block,rc5::RC5::decrypt_block timeout=600 note="RC5-8/12/4"
// @ob name=t8_12_4_rt2 props=C01 kind=contract fn=rc5::RC5::encrypt_block,rc5::RC5::decrypt_block timeout=600 note="RC5-8/12/4"
// (not verified within this round: unregistered) @-ob name=t8_12_4_api_enc props=C10,C20 kind=contract tier=thorough uses=c_word_u8,c_word_u16,c_word_u32,c_word_u64,c_word_u128 fn=rc5::RC5::new,rc5::RC5::encrypt_block timeout=3600 note="RC5-8/12/4"
// (not verified within this round: unregistered) @-ob name=t8_12_4_api_dec props=C10,C20 kind=contract tier=thorough uses=c_word_u8,c_word_u16,c_word_u32,c_word_u64,c_word_u128 fn=rc5::RC5::new,rc5::RC5::decrypt_block timeout=3600 note="RC5-8/12/4"
rc5_inst!(u8, U12, U4, m=w8, o=orc8, u=1, t=26, c=4, b=4, unw=80;
    t8_12_4_ks, t8_12_4_enc, t8_12_4_dec, t8_12_4_rt1, t8_12_4_rt2, t8_12_4_api_enc, t8_12_4_api_dec);
// RC5-16/16/8: RC5<u16, U16, U8>  (t = 34, c = 4)
// @ob name=t16_16_8_ks props=C10,C20 kind=contract uses=c_word_u8,c_word_u16,c_word_u32,c_word_u64,c_word_u128 fn=rc5::RC5::substitute_key,rc5::RC5::key_into_words,rc5::RC5::initialize_expanded_key_table,rc5::RC5::mix_in timeout=600 note="RC5-16/16/8"
// @ob name=t16_16_8_enc props=C10,C20 kind=contract fn=rc5::RC5::encrypt_block,rc5::RC5::words_from_block,rc5::RC5::block_from_words timeout=600 note="RC5-16/16/8"
// @ob name=t16_16_8_dec props=C10,C20 kind=contract fn=rc5::RC5::decrypt_block,rc5::RC5::words_from_block,rc5::RC5::block_from_words timeout=600 note="RC5-16/16/8"
// @ob name=t16_16_8_rt1 props=C01 kind=contract fn=rc5::RC5::encrypt_block,rc5::RC5::decrypt_block timeout=600 note="RC5-16/16/8"
// @ob name=t16_16_8_rt2 props=C01 kind=contract fn=rc5::RC5::encrypt_block,rc5::RC5::decrypt_block timeout=600 note="RC5-16/16/8"
// (not verified within this round: unregistered) @-ob name=t16_16_8_api_enc props=C10,C20 kind=contract tier=thorough uses=c_word_u8,c_word_u16,c_word_u32,c_word_u64,c_word_u128 fn=rc5::RC5::new,rc5::RC5::encrypt_block timeout=3600 note="RC5-16/16/8"
// (not verified within this round: unregistered) @-ob name=t16_16_8_api_dec props=C10,C20 kind=contract tier=thorough uses=c_word_u8,c_word_u16,c_word_u32,c_word_u64,c_word_u128 fn=rc5::RC5::new,rc5::RC5::decrypt_block timeout=3600 note="RC5-16/16/8"
rc5_inst!(u16, U16, U8, m=w16, o=orc16, u=2, t=34, c=4, b=8, unw=104;
    t16_16_8_ks, t16_16_8_enc, t16_16_8_dec, t16_16_8_rt1, t16_16_8_rt2, t16_16_8_api_enc, t16_16_8_api_dec);
// RC5-32/12/16: RC5<u32, U12, U16>  (t = 26, c = 4)
// @ob name=t32_12_16_ks props=C10,C20 kind=contract uses=c_word_u8,c_word_u16,c_word_u32,c_word_u64,c_word_u128 fn=rc5::RC5::substitute_key,rc5::RC5::key_into_words,rc5::RC5::initialize_expanded_key_table,rc5::RC5::mix_in timeout=600 note="RC5-32/12/16"
// @ob name=t32_12_16_enc props=C10,C20 kind=contract fn=rc5::RC5::encrypt_block,rc5::RC5::words_from_block,rc5::RC5::block_from_words timeout=600 note="RC5-32/12/16"
// @ob name=t32_12_16_dec props=C10,C20 kind=contract fn=rc5::RC5::decrypt_block,rc5::RC5::words_from_block,rc5::RC5::block_from_words timeout=600 note="RC5-32/12/16"
// @ob name=t32_12_16_rt1 props=C01 kind=contract fn=rc5::RC5::encrypt_block,rc5::RC5::decrypt_block timeout=600 note="RC5-32/12/16"
// @ob name=t32_12_16_rt2 props=C01 kind=contract fn=rc5::RC5::encrypt_block,rc5::RC5::decrypt_block timeout=600 note="RC5-32/12/16"
// (not verified within this round: unregistered) @-ob name=t32_12_16_api_enc props=C10,C20 kind=contract tier=thorough uses=c_word_u8,c_word_u16,c_word_u32,c_word_u64,c_word_u128 fn=rc5::RC5::new,rc5::RC5::encrypt_block timeout=3600 note="RC5-32/12/16"
// (not verified within this round: unregistered) @-ob name=t32_12_16_api_dec props=C10,C20 kind=contract tier=thorough uses=c_word_u8,c_word_u16,c_word_u32,c_word_u64,c_word_u128 fn=rc5::RC5::new,rc5::RC5::decrypt_block timeout=3600 note="RC5-32/12/16"
rc5_inst!(u32, U12, U16, m=w32, o=orc32, u=4, t=26, c=4, b=16, unw=80;
    t32_12_16_ks, t32_12_16_enc, t32_12_16_dec, t32_12_16_rt1, t32_12_16_rt2, t32_12_16_api_enc, t32_12_16_api_dec);
// RC5-32/16/16: RC5<u32, U16, U16>  (t = 34, c = 4)
// @ob name=t32_16_16_ks props=C10,C20 kind=contract uses=c_word_u8,c_word_u16,c_word_u32,c_word_u64,c_word_u128 fn=rc5::RC5::substitute_key,rc5::RC5::key_into_words,rc5::RC5::initialize_expanded_key_table,rc5::RC5::mix_in timeout=600 note="RC5-32/16/16"
// @ob name=t32_16_16_enc props=C10,C20 kind=contract fn=rc5::RC5::encrypt_block,rc5::RC5::words_from_block,rc5::RC5::block_from_words timeout=600 note="RC5-32/16/16"
// @ob name=t32_16_16_dec props=C10,C20 kind=contract fn=rc5::RC5::decrypt_block,rc5::RC5::words_from_block,rc5::RC5::block_from_words timeout=600 note="RC5-32/16/16"
// @ob name=t32_16_16_rt1 props=C01 kind=contract fn=rc5::RC5::encrypt_block,rc5::RC5::decrypt_block timeout=600 note="RC5-32/16/16"
// @ob name=t32_16_16_rt2 props=C01 kind=contract fn=rc5::RC5::encrypt_block,rc5::RC5::decrypt_block timeout=600 note="RC5-32/16/16"
// (not verified within this round: unregistered) @-ob name=t32_16_16_api_enc props=C10,C20 kind=contract tier=thorough uses=c_word_u8,c_word_u16,c_word_u32,c_word_u64,c_word_u128 fn=rc5::RC5::new,rc5::RC5::encrypt_block timeout=3600 note="RC5-32/16/16"
// (not verified within this round: unregistered) @-ob name=t32_16_16_api_dec props=C10,C20 kind=contract tier=thorough uses=c_word_u8,c_word_u16,c_word_u32,c_word_u64,c_word_u128 fn=rc5::RC5::new,rc5::RC5::decrypt_block timeout=3600 note="RC5-32/16/16"
rc5_inst!(u32, U16, U16, m=w32, o=orc32, u=4, t=34, c=4, b=16, unw=104;
    t32_16_16_ks, t32_16_16_enc, t32_16_16_dec, t32_16_16_rt1, t32_16_16_rt2, t32_16_16_api_enc, t32_16_16_api_dec);
// RC5-64/24/24: RC5<u64, U24, U24>  (t = 50, c = 3)
// @ob name=t64_24_24_ks tier=thorough timeout=3600 props=C10,C20 kind=contract uses=c_word_u8,c_word_u16,c_word_u32,c_word_u64,c_word_u128 fn=rc5::RC5::substitute_key,rc5::RC5::key_into_words,rc5::RC5::initialize_expanded_key_table,rc5::RC5::mix_in note="RC5-64/24/24"
// @ob name=t64_24_24_enc tier=thorough timeout=3600 props=C10,C20 kind=contract fn=rc5::RC5::encrypt_block,rc5::RC5::words_from_block,rc5::RC5::block_from_words note="RC5-64/24/24"
// @ob name=t64_24_24_dec props=C10,C20 kind=contract fn=rc5::RC5::decrypt_block,rc5::RC5::words_from_block,rc5::RC5::block_from_words timeout=600 note="RC5-64/24/24"
// @ob name=t64_24_24_rt1 tier=thorough timeout=3600 props=C01 kind=contract fn=rc5::RC5::encrypt_block,rc5::RC5::decrypt_block note="RC5-64/24/24"
// (did not discharge within 3600 s in the thorough-tier run of 2026-10-04 (10 solvers in parallel): unregistered) @-ob name=t64_24_24_rt2 tier=thorough timeout=3600 props=C01 kind=contract fn=rc5::RC5::encrypt_block,rc5::RC5::decrypt_block note="RC5-64/24/24"
// (not verified within this round: unregistered) @-ob name=t64_24_24_api_enc props=C10,C20 kind=contract tier=thorough uses=c_word_u8,c_word_u16,c_word_u32,c_word_u64,c_word_u128 fn=rc5::RC5::new,rc5::RC5::encrypt_block timeout=3600 note="RC5-64/24/24"
// (not verified within this round: unregistered) @-ob name=t64_24_24_api_dec props=C10,C20 kind=contract tier=thorough uses=c_word_u8,c_word_u16,c_word_u32,c_word_u64,c_word_u128 fn=rc5::RC5::new,rc5::RC5::decrypt_block timeout=3600 note="RC5-64/24/24"
rc5_inst!(u64, U24, U24, m=w64, o=orc64, u=8, t=50, c=3, b=24, unw=152;
    t64_24_24_ks, t64_24_24_enc, t64_24_24_dec, t64_24_24_rt1, t64_24_24_rt2, t64_24_24_api_enc, t64_24_24_api_dec);
// RC5-128/28/32: RC5<u128, U28, U32>  (t = 58, c = 2)
// (did not discharge within 3600 s in the thorough-tier run of 2026-10-04 (10 solvers in parallel): unregistered) @-ob name=t128_28_32_ks tier=thorough timeout=3600 props=C10,C20 kind=contract uses=c_word_u8,c_word_u16,c_word_u32,c_word_u64,c_word_u128 fn=rc5::RC5::substitute_key,rc5::RC5::key_into_words,rc5::RC5::initialize_expanded_key_table,rc5::RC5::mix_in note="RC5-128/28/32"
// (did not discharge within 3600 s in the thorough-tier run of 2026-10-04 (10 solvers in parallel): unregistered) @-ob name=t128_28_32_enc tier=thorough timeout=3600 props=C10,C20 kind=contract fn=rc5::RC5::encrypt_block,rc5::RC5::words_from_block,rc5::RC5::block_from_words note="RC5-128/28/32"
// @ob name=t128_28_32_dec tier=thorough timeout=3600 props=C10,C20 kind=contract fn=rc5::RC5::decrypt_block,rc5::RC5::words_from_block,rc5::RC5::block_from_words note="RC5-128/28/32"
// (did not discharge within 3600 s in the thorough-tier run of 2026-10-04 (10 solvers in parallel): unregistered) @-ob name=t128_28_32_rt1 tier=thorough timeout=3600 props=C01 kind=contract fn=rc5::RC5::encrypt_block,rc5::RC5::decrypt_block note="RC5-128/28/32"
// (did not discharge within 3600 s in the thorough-tier run of 2026-10-04 (10 solvers in parallel): unregistered) @-ob name=t128_28_32_rt2 tier=thorough timeout=3600 props=C01 kind=contract fn=rc5::RC5::encrypt_block,rc5::RC5::decrypt_block note="RC5-128/28/32"
// (not verified within this round: unregistered) @-ob name=t128_28_32_api_enc props=C10,C20 kind=contract tier=thorough uses=c_word_u8,c_word_u16,c_word_u32,c_word_u64,c_word_u128 fn=rc5::RC5::new,rc5::RC5::encrypt_block timeout=3600 note="RC5-128/28/32"
// (not verified within this round: unregistered) @-ob name=t128_28_32_api_dec props=C10,C20 kind=contract tier=thorough uses=c_word_u8,c_word_u16,c_word_u32,c_word_u64,c_word_u128 fn=rc5::RC5::new,rc5::RC5::decrypt_block timeout=3600 note="RC5-128/28/32"
rc5_inst!(u128, U28, U32, m=w128, o=orc128, u=16, t=58, c=2, b=32, unw=176;
    t128_28_32_ks, t128_28_32_enc, t128_28_32_dec, t128_28_32_rt1, t128_28_32_rt2, t128_28_32_api_enc, t128_28_32_api_dec);
// RC5-32/0/16: RC5<u32, U0, U16>  (t = 2, c = 4)
// @ob name=r0_32_0_16_ks props=C10,C20 kind=contract uses=c_word_u8,c_word_u16,c_word_u32,c_word_u64,c_word_u128 fn=rc5::RC5::substitute_key,rc5::RC5::key_into_words,rc5::RC5::initialize_expanded_key_table,rc5::RC5::mix_in timeout=600 note="RC5-32/0/16"
// @ob name=r0_32_0_16_enc props=C10,C20 kind=contract fn=rc5::RC5::encrypt_block,rc5::RC5::words_from_block,rc5::RC5::block_from_words timeout=600 note="RC5-32/0/16"
// @ob name=r0_32_0_16_dec props=C10,C20 kind=contract fn=rc5::RC5::decrypt_block,rc5::RC5::words_from_block,rc5::RC5::block_from_words timeout=600 note="RC5-32/0/16"
// @ob name=r0_32_0_16_rt1 props=C01 kind=contract fn=rc5::RC5::encrypt_block,rc5::RC5::decrypt_block timeout=600 note="RC5-32/0/16"
// @ob name=r0_32_0_16_rt2 props=C01 kind=contract fn=rc5::RC5::encrypt_block,rc5::RC5::decrypt_block timeout=600 note="RC5-32/0/16"
// (not verified within this round: unregistered) @-ob name=r0_32_0_16_api_enc props=C10,C20 kind=contract tier=thorough uses=c_word_u8,c_word_u16,c_word_u32,c_word_u64,c_word_u128 fn=rc5::RC5::new,rc5::RC5::encrypt_block timeout=3600 note="RC5-32/0/16"
// (not verified within this round: unregistered) @-ob name=r0_32_0_16_api_dec props=C10,C20 kind=contract tier=thorough uses=c_word_u8,c_word_u16,c_word_u32,c_word_u64,c_word_u128 fn=rc5::RC5::new,rc5::RC5::decrypt_block timeout=3600 note="RC5-32/0/16"
rc5_inst!(u32, U0, U16, m=w32, o=orc32, u=4, t=2, c=4, b=16, unw=18;
    r0_32_0_16_ks, r0_32_0_16_enc, r0_32_0_16_dec, r0_32_0_16_rt1, r0_32_0_16_rt2, r0_32_0_16_api_enc, r0_32_0_16_api_dec);
// RC5-32/1/16: RC5<u32, U1, U16>  (t = 4, c = 4)
// @ob name=r1_32_1_16_ks props=C10,C20 kind=contract uses=c_word_u8,c_word_u16,c_word_u32,c_word_u64,c_word_u128 fn=rc5::RC5::substitute_key,rc5::RC5::key_into_words,rc5::RC5::initialize_expanded_key_table,rc5::RC5::mix_in timeout=600 note="RC5-32/1/16"
// @ob name=r1_32_1_16_enc props=C10,C20 kind=contract fn=rc5::RC5::encrypt_block,rc5::RC5::words_from_block,rc5::RC5::block_from_words timeout=600 note="RC5-32/1/16"
// @ob name=r1_32_1_16_dec props=C10,C20 kind=contract fn=rc5::RC5::decrypt_block,rc5::RC5::words_from_block,rc5::RC5::block_from_words timeout=600 note="RC5-32/1/16"
// @ob name=r1_32_1_16_rt1 props=C01 kind=contract fn=rc5::RC5::encrypt_block,rc5::RC5::decrypt_block timeout=600 note="RC5-32/1/16"
// @ob name=r1_32_1_16_rt2 props=C01 kind=contract fn=rc5::RC5::encrypt_block,rc5::RC5::decrypt_block timeout=600 note="RC5-32/1/16"
// (not verified within this round: unregistered) @-ob name=r1_32_1_16_api_enc props=C10,C20 kind=contract tier=thorough uses=c_word_u8,c_word_u16,c_word_u32,c_word_u64,c_word_u128 fn=rc5::RC5::new,rc5::RC5::encrypt_block timeout=3600 note="RC5-32/1/16"
// (not verified within this round: unregistered) @-ob name=r1_32_1_16_api_dec props=C10,C20 kind=contract tier=thorough uses=c_word_u8,c_word_u16,c_word_u32,c_word_u64,c_word_u128 fn=rc5::RC5::new,rc5::RC5::decrypt_block timeout=3600 note="RC5-32/1/16"
rc5_inst!(u32, U1, U16, m=w32, o=orc32, u=4, t=4, c=4, b=16, unw=18;
    r1_32_1_16_ks, r1_32_1_16_enc, r1_32_1_16_dec, r1_32_1_16_rt1, r1_32_1_16_rt2, r1_32_1_16_api_enc, r1_32_1_16_api_dec);
// RC5-8/255/4: RC5<u8, U255, U4>  (t = 512, c = 4)
// (did not discharge within 3600 s in the thorough-tier run of 2026-10-04 (10 solvers in parallel): unregistered) @-ob name=r255_8_255_4_ks tier=thorough timeout=3600 props=C10,C20 kind=contract uses=c_word_u8,c_word_u16,c_word_u32,c_word_u64,c_word_u128 fn=rc5::RC5::substitute_key,rc5::RC5::key_into_words,rc5::RC5::initialize_expanded_key_table,rc5::RC5::mix_in note="RC5-8/255/4"
// @ob name=r255_8_255_4_enc props=C10,C20 kind=contract fn=rc5::RC5::encrypt_block,rc5::RC5::words_from_block,rc5::RC5::block_from_words timeout=600 note="RC5-8/255/4"
// @ob name=r255_8_255_4_dec tier=thorough timeout=3600 props=C10,C20 kind=contract fn=rc5::RC5::decrypt_block,rc5::RC5::words_from_block,rc5::RC5::block_from_words note="RC5-8/255/4"
// @ob name=r255_8_255_4_rt1 tier=thorough timeout=3600 props=C01 kind=contract fn=rc5::RC5::encrypt_block,rc5::RC5::decrypt_block note="RC5-8/255/4"
// @ob name=r255_8_255_4_rt2 tier=thorough timeout=3600 props=C01 kind=contract fn=rc5::RC5::encrypt_block,rc5::RC5::decrypt_block note="RC5-8/255/4"
// (not verified within this round: unregistered) @-ob name=r255_8_255_4_api_enc props=C10,C20 kind=contract tier=thorough uses=c_word_u8,c_word_u16,c_word_u32,c_word_u64,c_word_u128 fn=rc5::RC5::new,rc5::RC5::encrypt_block timeout=3600 note="RC5-8/255/4"
// (not verified within this round: unregistered) @-ob name=r255_8_255_4_api_dec props=C10,C20 kind=contract tier=thorough uses=c_word_u8,c_word_u16,c_word_u32,c_word_u64,c_word_u128 fn=rc5::RC5::new,rc5::RC5::decrypt_block timeout=3600 note="RC5-8/255/4"
rc5_inst!(u8, U255, U4, m=w8, o=orc8big, u=1, t=512, c=4, b=4, unw=1538;
    r255_8_255_4_ks, r255_8_255_4_enc, r255_8_255_4_dec, r255_8_255_4_rt1, r255_8_255_4_rt2, r255_8_255_4_api_enc, r255_8_255_4_api_dec);
// RC5-32/12/1: RC5<u32, U12, U1>  (t = 26, c = 1)
// @ob name=b1_32_12_1_ks props=C10,C20 kind=contract uses=c_word_u8,c_word_u16,c_word_u32,c_word_u64,c_word_u128 fn=rc5::RC5::substitute_key,rc5::RC5::key_into_words,rc5::RC5::initialize_expanded_key_table,rc5::RC5::mix_in timeout=600 note="RC5-32/12/1"
// (same block functions as above) @-ob name=b1_32_12_1_enc props=C10,C20 kind=contract fn=rc5::RC5::encrypt_block,rc5::RC5::words_from_block,rc5::RC5::block_from_words timeout=600 note="RC5-32/12/1"
// (same block functions as above) @-ob name=b1_32_12_1_dec props=C10,C20 kind=contract fn=rc5::RC5::decrypt_block,rc5::RC5::words_from_block,rc5::RC5::block_from_words timeout=600 note="RC5-32/12/1"
// (same block functions as above) @-ob name=b1_32_12_1_rt1 props=C01 kind=contract fn=rc5::RC5::encrypt_block,rc5::RC5::decrypt_block timeout=600 note="RC5-32/12/1"
// (same block functions as above) @-ob name=b1_32_12_1_rt2 props=C01 kind=contract fn=rc5::RC5::encrypt_block,rc5::RC5::decrypt_block timeout=600 note="RC5-32/12/1"
// (not verified within this round: unregistered) @-ob name=b1_32_12_1_api_enc props=C10,C20 kind=contract tier=thorough uses=c_word_u8,c_word_u16,c_word_u32,c_word_u64,c_word_u128 fn=rc5::RC5::new,rc5::RC5::encrypt_block timeout=3600 note="RC5-32/12/1"
// (not verified within this round: unregistered) @-ob name=b1_32_12_1_api_dec props=C10,C20 kind=contract tier=thorough uses=c_word_u8,c_word_u16,c_word_u32,c_word_u64,c_word_u128 fn=rc5::RC5::new,rc5::RC5::decrypt_block timeout=3600 note="RC5-32/12/1"
rc5_inst!(u32, U12, U1, m=w32, o=orc32, u=4, t=26, c=1, b=1, unw=80;
    b1_32_12_1_ks, b1_32_12_1_enc, b1_32_12_1_dec, b1_32_12_1_rt1, b1_32_12_1_rt2, b1_32_12_1_api_enc, b1_32_12_1_api_dec);
// RC5-32/12/3: RC5<u32, U12, U3>  (t = 26, c = 1)
// @ob name=b3_32_12_3_ks props=C10,C20 kind=contract uses=c_word_u8,c_word_u16,c_word_u32,c_word_u64,c_word_u128 fn=rc5::RC5::substitute_key,rc5::RC5::key_into_words,rc5::RC5::initialize_expanded_key_table,rc5::RC5::mix_in timeout=600 note="RC5-32/12/3"
// (same block functions as above) @-ob name=b3_32_12_3_enc props=C10,C20 kind=contract fn=rc5::RC5::encrypt_block,rc5::RC5::words_from_block,rc5::RC5::block_from_words timeout=600 note="RC5-32/12/3"
// (same block functions as above) @-ob name=b3_32_12_3_dec props=C10,C20 kind=contract fn=rc5::RC5::decrypt_block,rc5::RC5::words_from_block,rc5::RC5::block_from_words timeout=600 note="RC5-32/12/3"
// (same block functions as above) @-ob name=b3_32_12_3_rt1 props=C01 kind=contract fn=rc5::RC5::encrypt_block,rc5::RC5::decrypt_block timeout=600 note="RC5-32/12/3"
// (same block functions as above) @-ob name=b3_32_12_3_rt2 props=C01 kind=contract fn=rc5::RC5::encrypt_block,rc5::RC5::decrypt_block timeout=600 note="RC5-32/12/3"
// (not verified within this round: unregistered) @-ob name=b3_32_12_3_api_enc props=C10,C20 kind=contract tier=thorough uses=c_word_u8,c_word_u16,c_word_u32,c_word_u64,c_word_u128 fn=rc5::RC5::new,rc5::RC5::encrypt_block timeout=3600 note="RC5-32/12/3"
// (not verified within this round: unregistered) @-ob name=b3_32_12_3_api_dec props=C10,C20 kind=contract tier=thorough uses=c_word_u8,c_word_u16,c_word_u32,c_word_u64,c_word_u128 fn=rc5::RC5::new,rc5::RC5::decrypt_block timeout=3600 note="RC5-32/12/3"
rc5_inst!(u32, U12, U3, m=w32, o=orc32, u=4, t=26, c=1, b=3, unw=80;
    b3_32_12_3_ks, b3_32_12_3_enc, b3_32_12_3_dec, b3_32_12_3_rt1, b3_32_12_3_rt2, b3_32_12_3_api_enc, b3_32_12_3_api_dec);
// RC5-32/12/7: RC5<u32, U12, U7>  (t = 26, c = 2)
// @ob name=b7_32_12_7_ks props=C10,C20 kind=contract uses=c_word_u8,c_word_u16,c_word_u32,c_word_u64,c_word_u128 fn=rc5::RC5::substitute_key,rc5::RC5::key_into_words,rc5::RC5::initialize_expanded_key_table,rc5::RC5::mix_in timeout=600 note="RC5-32/12/7"
// (same block functions as above) @-ob name=b7_32_12_7_enc props=C10,C20 kind=contract fn=rc5::RC5::encrypt_block,rc5::RC5::words_from_block,rc5::RC5::block_from_words timeout=600 note="RC5-32/12/7"
// (same block functions as above) @-ob name=b7_32_12_7_dec props=C10,C20 kind=contract fn=rc5::RC5::decrypt_block,rc5::RC5::words_from_block,rc5::RC5::block_from_words timeout=600 note="RC5-32/12/7"
// (same block functions as above) @-ob name=b7_32_12_7_rt1 props=C01 kind=contract fn=rc5::RC5::encrypt_block,rc5::RC5::decrypt_block timeout=600 note="RC5-32/12/7"
// (same block functions as above) @-ob name=b7_32_12_7_rt2 props=C01 kind=contract fn=rc5::RC5::encrypt_block,rc5::RC5::decrypt_block timeout=600 note="RC5-32/12/7"
// (not verified within this round: unregistered) @-ob name=b7_32_12_7_api_enc props=C10,C20 kind=contract tier=thorough uses=c_word_u8,c_word_u16,c_word_u32,c_word_u64,c_word_u128 fn=rc5::RC5::new,rc5::RC5::encrypt_block timeout=3600 note="RC5-32/12/7"
// (not verified within this round: unregistered) @-ob name=b7_32_12_7_api_dec props=C10,C20 kind=contract tier=thorough uses=c_word_u8,c_word_u16,c_word_u32,c_word_u64,c_word_u128 fn=rc5::RC5::new,rc5::RC5::decrypt_block timeout=3600 note="RC5-32/12/7"
rc5_inst!(u32, U12, U7, m=w32, o=orc32, u=4, t=26, c=2, b=7, unw=80;
    b7_32_12_7_ks, b7_32_12_7_enc, b7_32_12_7_dec, b7_32_12_7_rt1, b7_32_12_7_rt2, b7_32_12_7_api_enc, b7_32_12_7_api_dec);
// RC5-32/12/255: RC5<u32, U12, U255>  (t = 26, c = 64)
// @ob name=b255_32_12_255_ks tier=thorough timeout=3600 props=C10,C20 kind=contract uses=c_word_u8,c_word_u16,c_word_u32,c_word_u64,c_word_u128 fn=rc5::RC5::substitute_key,rc5::RC5::key_into_words,rc5::RC5::initialize_expanded_key_table,rc5::RC5::mix_in note="RC5-32/12/255"
// (same block functions as above) @-ob name=b255_32_12_255_enc props=C10,C20 kind=contract fn=rc5::RC5::encrypt_block,rc5::RC5::words_from_block,rc5::RC5::block_from_words timeout=600 note="RC5-32/12/255"
// (same block functions as above) @-ob name=b255_32_12_255_dec props=C10,C20 kind=contract fn=rc5::RC5::decrypt_block,rc5::RC5::words_from_block,rc5::RC5::block_from_words timeout=600 note="RC5-32/12/255"
// (same block functions as above) @-ob name=b255_32_12_255_rt1 props=C01 kind=contract fn=rc5::RC5::encrypt_block,rc5::RC5::decrypt_block timeout=600 note="RC5-32/12/255"
// (same block functions as above) @-ob name=b255_32_12_255_rt2 props=C01 kind=contract fn=rc5::RC5::encrypt_block,rc5::RC5::decrypt_block timeout=600 note="RC5-32/12/255"
// (not verified within this round: unregistered) @-ob name=b255_32_12_255_api_enc props=C10,C20 kind=contract tier=thorough uses=c_word_u8,c_word_u16,c_word_u32,c_word_u64,c_word_u128 fn=rc5::RC5::new,rc5::RC5::encrypt_block timeout=3600 note="RC5-32/12/255"
// (not verified within this round: unregistered) @-ob name=b255_32_12_255_api_dec props=C10,C20 kind=contract tier=thorough uses=c_word_u8,c_word_u16,c_word_u32,c_word_u64,c_word_u128 fn=rc5::RC5::new,rc5::RC5::decrypt_block timeout=3600 note="RC5-32/12/255"
rc5_inst!(u32, U12, U255, m=w32, o=orc32big, u=4, t=26, c=64, b=255, unw=257;
    b255_32_12_255_ks, b255_32_12_255_enc, b255_32_12_255_dec, b255_32_12_255_rt1, b255_32_12_255_rt2, b255_32_12_255_api_enc, b255_32_12_255_api_dec);
// RC5-16/12/3: RC5<u16, U12, U3>  (t = 26, c = 2)
// @ob name=n16_12_3_ks props=C10,C20 kind=contract uses=c_word_u8,c_word_u16,c_word_u32,c_word_u64,c_word_u128 fn=rc5::RC5::substitute_key,rc5::RC5::key_into_words,rc5::RC5::initialize_expanded_key_table,rc5::RC5::mix_in timeout=600 note="RC5-16/12/3"
// @ob name=n16_12_3_enc props=C10,C20 kind=contract fn=rc5::RC5::encrypt_block,rc5::RC5::words_from_block,rc5::RC5::block_from_words timeout=600 note="RC5-16/12/3"
// @ob name=n16_12_3_dec props=C10,C20 kind=contract fn=rc5::RC5::decrypt_block,rc5::RC5::words_from_block,rc5::RC5::block_from_words timeout=600 note="RC5-16/12/3"
// @ob name=n16_12_3_rt1 props=C01 kind=contract fn=rc5::RC5::encrypt_block,rc5::RC5::decrypt_block timeout=600 note="RC5-16/12/3"
// @ob name=n16_12_3_rt2 props=C01 kind=contract fn=rc5::RC5::encrypt_block,rc5::RC5::decrypt_block timeout=600 note="RC5-16/12/3"
// (not verified within this round: unregistered) @-ob name=n16_12_3_api_enc props=C10,C20 kind=contract tier=thorough uses=c_word_u8,c_word_u16,c_word_u32,c_word_u64,c_word_u128 fn=rc5::RC5::new,rc5::RC5::encrypt_block timeout=3600 note="RC5-16/12/3"
// (not verified within this round: unregistered) @-ob name=n16_12_3_api_dec props=C10,C20 kind=contract tier=thorough uses=c_word_u8,c_word_u16,c_word_u32,c_word_u64,c_word_u128 fn=rc5::RC5::new,rc5::RC5::decrypt_block timeout=3600 note="RC5-16/12/3"
rc5_inst!(u16, U12, U3, m=w16, o=orc16, u=2, t=26, c=2, b=3, unw=80;
    n16_12_3_ks, n16_12_3_enc, n16_12_3_dec, n16_12_3_rt1, n16_12_3_rt2, n16_12_3_api_enc, n16_12_3_api_dec);
// RC5-64/12/9: RC5<u64, U12, U9>  (t = 26, c = 2)
// @ob name=n64_12_9_ks props=C10,C20 kind=contract uses=c_word_u8,c_word_u16,c_word_u32,c_word_u64,c_word_u128 fn=rc5::RC5::substitute_key,rc5::RC5::key_into_words,rc5::RC5::initialize_expanded_key_table,rc5::RC5::mix_in timeout=600 note="RC5-64/12/9"
// @ob name=n64_12_9_enc props=C10,C20 kind=contract fn=rc5::RC5::encrypt_block,rc5::RC5::words_from_block,rc5::RC5::block_from_words timeout=600 note="RC5-64/12/9"
// @ob name=n64_12_9_dec props=C10,C20 kind=contract fn=rc5::RC5::decrypt_block,rc5::RC5::words_from_block,rc5::RC5::block_from_words timeout=600 note="RC5-64/12/9"
// @ob name=n64_12_9_rt1 props=C01 kind=contract fn=rc5::RC5::encrypt_block,rc5::RC5::decrypt_block timeout=600 note="RC5-64/12/9"
// @ob name=n64_12_9_rt2 tier=thorough timeout=3600 props=C01 kind=contract fn=rc5::RC5::encrypt_block,rc5::RC5::decrypt_block note="RC5-64/12/9"
// (not verified within this round: unregistered) @-ob name=n64_12_9_api_enc props=C10,C20 kind=contract tier=thorough uses=c_word_u8,c_word_u16,c_word_u32,c_word_u64,c_word_u128 fn=rc5::RC5::new,rc5::RC5::encrypt_block timeout=3600 note="RC5-64/12/9"
// (not verified within this round: unregistered) @-ob name=n64_12_9_api_dec props=C10,C20 kind=contract tier=thorough uses=c_word_u8,c_word_u16,c_word_u32,c_word_u64,c_word_u128 fn=rc5::RC5::new,rc5::RC5::decrypt_block timeout=3600 note="RC5-64/12/9"
rc5_inst!(u64, U12, U9, m=w64, o=orc64, u=8, t=26, c=2, b=9, unw=80;
    n64_12_9_ks, n64_12_9_enc, n64_12_9_dec, n64_12_9_rt1, n64_12_9_rt2, n64_12_9_api_enc, n64_12_9_api_dec);
// RC5-128/12/17: RC5<u128, U12, U17>  (t = 26, c = 2)
// @ob name=n128_12_17_ks tier=thorough timeout=3600 props=C10,C20 kind=contract uses=c_word_u8,c_word_u16,c_word_u32,c_word_u64,c_word_u128 fn=rc5::RC5::substitute_key,rc5::RC5::key_into_words,rc5::RC5::initialize_expanded_key_table,rc5::RC5::mix_in note="RC5-128/12/17"
// @ob name=n128_12_17_enc tier=thorough timeout=3600 props=C10,C20 kind=contract fn=rc5::RC5::encrypt_block,rc5::RC5::words_from_block,rc5::RC5::block_from_words note="RC5-128/12/17"
// @ob name=n128_12_17_dec props=C10,C20 kind=contract fn=rc5::RC5::decrypt_block,rc5::RC5::words_from_block,rc5::RC5::block_from_words timeout=600 note="RC5-128/12/17"
// @ob name=n128_12_17_rt1 tier=thorough timeout=3600 props=C01 kind=contract fn=rc5::RC5::encrypt_block,rc5::RC5::decrypt_block note="RC5-128/12/17"
// (did not discharge within 3600 s in the thorough-tier run of 2026-10-04 (10 solvers in parallel): unregistered) @-ob name=n128_12_17_rt2 tier=thorough timeout=3600 props=C01 kind=contract fn=rc5::RC5::encrypt_block,rc5::RC5::decrypt_block note="RC5-128/12/17"
// (not verified within this round: unregistered) @-ob name=n128_12_17_api_enc props=C10,C20 kind=contract tier=thorough uses=c_word_u8,c_word_u16,c_word_u32,c_word_u64,c_word_u128 fn=rc5::RC5::new,rc5::RC5::encrypt_block timeout=3600 note="RC5-128/12/17"
// (not verified within this round: unregistered) @-ob name=n128_12_17_api_dec props=C10,C20 kind=contract tier=thorough uses=c_word_u8,c_word_u16,c_word_u32,c_word_u64,c_word_u128 fn=rc5::RC5::new,rc5::RC5::decrypt_block timeout=3600 note="RC5-128/12/17"
rc5_inst!(u128, U12, U17, m=w128, o=orc128, u=16, t=26, c=2, b=17, unw=80;
    n128_12_17_ks, n128_12_17_enc, n128_12_17_dec, n128_12_17_rt1, n128_12_17_rt2, n128_12_17_api_enc, n128_12_17_api_dec);
// RC5-8/12/255: RC5<u8, U12, U255>  (t = 26, c = 255)
// (out of memory at the 32 GB limit, 767 unrollings of mix_in over 255 key words: unregistered, the instantiation is covered by the falsifier only) @-ob name=b255_8_12_255_ks tier=thorough timeout=3600 props=C10,C20 kind=contract uses=c_word_u8,c_word_u16,c_word_u32,c_word_u64,c_word_u128 fn=rc5::RC5::substitute_key,rc5::RC5::key_into_words,rc5::RC5::initialize_expanded_key_table,rc5::RC5::mix_in note="RC5-8/12/255"
// (same block functions as above) @-ob name=b255_8_12_255_enc props=C10,C20 kind=contract fn=rc5::RC5::encrypt_block,rc5::RC5::words_from_block,rc5::RC5::block_from_words timeout=600 note="RC5-8/12/255"
// (same block functions as above) @-ob name=b255_8_12_255_dec props=C10,C20 kind=contract fn=rc5::RC5::decrypt_block,rc5::RC5::words_from_block,rc5::RC5::block_from_words timeout=600 note="RC5-8/12/255"
// (same block functions as above) @-ob name=b255_8_12_255_rt1 props=C01 kind=contract fn=rc5::RC5::encrypt_block,rc5::RC5::decrypt_block timeout=600 note="RC5-8/12/255"
// (same block functions as above) @-ob name=b255_8_12_255_rt2 props=C01 kind=contract fn=rc5::RC5::encrypt_block,rc5::RC5::decrypt_block timeout=600 note="RC5-8/12/255"
// (not verified within this round: unregistered) @-ob name=b255_8_12_255_api_enc props=C10,C20 kind=contract tier=thorough uses=c_word_u8,c_word_u16,c_word_u32,c_word_u64,c_word_u128 fn=rc5::RC5::new,rc5::RC5::encrypt_block timeout=3600 note="RC5-8/12/255"
// (not verified within this round: unregistered) @-ob name=b255_8_12_255_api_dec props=C10,C20 kind=contract tier=thorough uses=c_word_u8,c_word_u16,c_word_u32,c_word_u64,c_word_u128 fn=rc5::RC5::new,rc5::RC5::decrypt_block timeout=3600 note="RC5-8/12/255"
rc5_inst!(u8, U12, U255, m=w8, o=orc8big, u=1, t=26, c=255, b=255, unw=767;
    b255_8_12_255_ks, b255_8_12_255_enc, b255_8_12_255_dec, b255_8_12_255_rt1, b255_8_12_255_rt2, b255_8_12_255_api_enc, b255_8_12_255_api_dec);

// ---------------------------------------------------------------- key length 0 (C10): accepted by the type, RC5 prescribes c = max(1, ceil(8b/w)) = 1
// Was REFUTED on the pinned tree (KeyAsWordsSize<u32, U0> = 0: `mix_in` indexed an empty array / computed `% 0`, so
// `RC5::<u32, U12, U0>::new(&Array::default())` panicked for the only key of length 0); discharged since the fix in /repo.
// The key is empty, so the expanded table is one concrete value: it must be the table of RC5-32/12/0 (c = 1, L[0] = 0).
// The block functions do not depend on B (t32_12_16_enc / _dec / _rt1 / _rt2 cover RC5<u32, U12, _>).
// @ob name=f_b0_32_12_0_api props=C10,C11,C20 kind=contract fn=rc5::RC5::new,rc5::RC5::substitute_key,rc5::RC5::key_into_words,rc5::RC5::mix_in,rc5::RC5::new_from_slice timeout=300 note="RC5-32/12/0"
#[kani::proof]
#[kani::unwind(80)]
fn f_b0_32_12_0_api() {
    let key: [u8; 0] = [];
    let c = <RC5<u32, U12, U0> as KeyInit>::new(&Array(key));
    let s = r::w32::key_expansion::<26, 1>(&key);
    let mut i = 0;
    while i < 26 {
        assert!(c.key_table.0[i] == s[i]);
        i += 1;
    }
    assert!(<RC5<u32, U12, U0> as KeyInit>::new_from_slice(&key[..]).is_ok());
    assert!(<RC5<u32, U12, U0> as KeyInit>::new_from_slice(&[0u8][..]).is_err());
}

// ---------------------------------------------------------------- C19 Debug / AlgorithmName
// n_<p>_debug: Debug text is identical for all expanded-key tables and starts with "RC5"
// n_<p>_params: the algorithm name (and the Debug text) identify word size, rounds AND key length: they contain "w/r/b".
//   KNOWN TO BE REFUTED on the pinned tree: both impls print `R` twice and never `B` ("RC5 - u32/12/12" for RC5<u32, U12, U16>).
macro_rules! rc5_names {
    ($W:ty, $R:ty, $B:ty, $t:expr, $params:expr; $dbg:ident, $par:ident) => {
        #[kani::proof]
        #[kani::unwind(100)]
        fn $dbg() {
            let a = any_rc5!($W, $R, $B, $t);
            let b = any_rc5!($W, $R, $B, $t);
            let (ta, tb) = (debug_text(&a), debug_text(&b));
            assert!(ta.same(&tb));
            assert!(ta.names("RC5"));
            assert!(alg_name_text::<RC5<$W, $R, $B>>().names("RC5"));
        }
        #[kani::proof]
        #[kani::unwind(100)]
        fn $par() {
            let a = any_rc5!($W, $R, $B, $t);
            assert!(contains(&alg_name_text::<RC5<$W, $R, $B>>(), $params), "AlgorithmName does not identify w/r/b");
            assert!(contains(&debug_text(&a), $params), "Debug does not identify w/r/b");
        }
    };
}
// @ob name=n_32_12_16_debug props=C19 kind=contract fn=rc5::RC5::fmt,rc5::RC5::write_alg_name timeout=300
// @ob name=n_32_12_16_params props=C19 kind=contract fn=rc5::RC5::fmt,rc5::RC5::write_alg_name timeout=300 note="expects 32/12/16"
rc5_names!(u32, U12, U16, 26, "32/12/16"; n_32_12_16_debug, n_32_12_16_params);
// @ob name=n_8_12_4_debug props=C19 kind=contract fn=rc5::RC5::fmt,rc5::RC5::write_alg_name timeout=300
// @ob name=n_8_12_4_params props=C19 kind=contract fn=rc5::RC5::fmt,rc5::RC5::write_alg_name timeout=300 note="expects 8/12/4"
rc5_names!(u8, U12, U4, 26, "8/12/4"; n_8_12_4_debug, n_8_12_4_params);
// @ob name=n_128_28_32_debug props=C19 kind=contract fn=rc5::RC5::fmt,rc5::RC5::write_alg_name timeout=300
// @ob name=n_128_28_32_params props=C19 kind=contract fn=rc5::RC5::fmt,rc5::RC5::write_alg_name timeout=300 note="expects 128/28/32"
rc5_names!(u128, U28, U32, 58, "128/28/32"; n_128_28_32_debug, n_128_28_32_params);
// (a type with r == b names itself correctly even on the pinned tree: the control)
// @ob name=n_64_24_24_debug props=C19 kind=contract fn=rc5::RC5::fmt,rc5::RC5::write_alg_name timeout=300
// @ob name=n_64_24_24_params props=C19 kind=contract fn=rc5::RC5::fmt,rc5::RC5::write_alg_name timeout=300 note="expects 64/24/24"
rc5_names!(u64, U24, U24, 50, "64/24/24"; n_64_24_24_debug, n_64_24_24_params);

// ---------------------------------------------------------------- C11 / C12 / C13 / C16 / C04
macro_rules! rc5_api {
    ($W:ty, $R:ty, $B:ty, u=$u:expr, t=$t:expr, b=$b:expr, unw=$unw:expr; $keylen:ident, $same:ident, $mb:ident, $z:ident) => {
        #[kani::proof]
        #[kani::unwind($unw)]
        fn $keylen() {
            let buf: [u8; 301] = kani::any();
            let n: usize = kani::any();
            kani::assume(n <= 300);
            kani::cover!(n == $b);
            kani::cover!(n == 300);
            kani::cover!(n == 0);
            let r = <RC5<$W, $R, $B> as KeyInit>::new_from_slice(&buf[..n]);
            assert!(r.is_ok() == (n == $b));
            // the typenum arithmetic of the instantiation
            assert!(<ExpandedKeyTableSize<$R> as Unsigned>::USIZE == $t);
            assert!(<KeyAsWordsSize<$W, $B> as Unsigned>::USIZE == r::key_words(8 * $u, $b) || $b == 0);
            assert!(<BlockSize<$W> as Unsigned>::USIZE == 2 * $u);
        }
        #[kani::proof]
        #[kani::unwind($unw)]
        fn $same() {
            let key: [u8; $b] = kani::any();
            let a = <RC5<$W, $R, $B> as KeyInit>::new(&Array(key));
            let b = <RC5<$W, $R, $B> as KeyInit>::new_from_slice(&key[..]).unwrap();
            let c = a.clone();
            let mut i = 0;
            while i < $t {
                assert!(a.key_table.0[i] == b.key_table.0[i] && a.key_table.0[i] == c.key_table.0[i]);
                i += 1;
            }
            // C13: never weak; the checked constructor returns the same cipher
            assert!(<RC5<$W, $R, $B> as KeyInit>::weak_key_test(&Array(key)).is_ok());
            match <RC5<$W, $R, $B> as KeyInit>::new_checked(&Array(key)) {
                Ok(d) => {
                    let mut i = 0;
                    while i < $t {
                        assert!(a.key_table.0[i] == d.key_table.0[i]);
                        i += 1;
                    }
                }
                Err(_) => assert!(false),
            }
        }
        #[kani::proof]
        #[kani::unwind($unw)]
        fn $mb() {
            let c = any_rc5!($W, $R, $B, $t);
            let before = c.key_table.0;
            mb_body!(c, 2 * $u, 0);
            mb_body!(c, 2 * $u, 1);
            mb_body!(c, 2 * $u, 3);
            let mut i = 0;
            while i < $t {
                assert!(before[i] == c.key_table.0[i]);
                i += 1;
            }
        }
        #[kani::proof]
        #[kani::unwind(1000)]
        fn $z() {
            let mut m = core::mem::ManuallyDrop::new(any_rc5!($W, $R, $B, $t).clone());
            let p: *const RC5<$W, $R, $B> = &*m;
            unsafe { core::mem::ManuallyDrop::drop(&mut m); }
            assert!(unsafe { all_bytes_zero(p) });
        }
    };
}
macro_rules! mb_body {
    ($c:expr, $bb:expr, $n:expr) => {{
        let d = &$c;
        let inp: [[u8; $bb]; $n] = kani::any();
        let mut single = [[0u8; $bb]; $n];
        let mut i = 0;
        while i < $n {
            let mut b = Array(inp[i]);
            cipher::BlockCipherEncrypt::encrypt_block(d, &mut b);
            single[i] = b.0;
            i += 1;
        }
        let mut blocks = [Array([0u8; $bb]); $n];
        let mut i = 0;
        while i < $n { blocks[i] = Array(inp[i]); i += 1; }
        cipher::BlockCipherEncrypt::encrypt_blocks(d, &mut blocks);
        let mut i = 0;
        while i < $n { assert!(eq_n(&blocks[i].0, &single[i])); i += 1; }
        let mut src = [Array([0u8; $bb]); $n];
        let mut i = 0;
        while i < $n { src[i] = Array(inp[i]); i += 1; }
        let g: [u8; $bb] = kani::any();
        let mut dst = [Array(g); $n + 2];
        cipher::BlockCipherEncrypt::encrypt_blocks_b2b(d, &src, &mut dst[1..$n + 1]).unwrap();
        assert!(eq_n(&dst[0].0, &g) && eq_n(&dst[$n + 1].0, &g));
        let mut i = 0;
        while i < $n { assert!(eq_n(&dst[i + 1].0, &single[i]) && eq_n(&src[i].0, &inp[i])); i += 1; }
    }};
}
// (times out at 300 s: unregistered) @-ob name=k_32_12_16_keylen props=C11 kind=bounded bound="slice length <= 300" fn=rc5::RC5::new_from_slice timeout=300 note="RC5-32/12/16"
// (times out at 300 s: unregistered) @-ob name=k_32_12_16_same props=C11,C12,C13 kind=contract fn=rc5::RC5::new_from_slice,rc5::RC5::new,rc5::RC5::clone,rc5::RC5::weak_key_test,rc5::RC5::new_checked timeout=300 note="RC5-32/12/16"
// @ob name=m_32_12_16_blocks tier=thorough timeout=3600 props=C04,C15 kind=bounded bound="n in {0, 1, 3} blocks (ParBlocksSize = 1)" fn=rc5::RC5::encrypt_with_backend,rc5::RC5::encrypt_block note="RC5-32/12/16"
// @ob name=z_32_12_16 props=C16 cfg=zeroize kind=contract fn=rc5::RC5::drop,rc5::RC5::clone timeout=300 note="RC5-32/12/16"
rc5_api!(u32, U12, U16, u=4, t=26, b=16, unw=80; k_32_12_16_keylen, k_32_12_16_same, m_32_12_16_blocks, z_32_12_16);
// @ob name=k_8_12_4_keylen props=C11 kind=bounded bound="slice length <= 300" fn=rc5::RC5::new_from_slice timeout=300 note="RC5-8/12/4"
// @ob name=k_8_12_4_same props=C11,C12,C13 kind=contract fn=rc5::RC5::new_from_slice,rc5::RC5::new,rc5::RC5::clone,rc5::RC5::weak_key_test,rc5::RC5::new_checked timeout=300 note="RC5-8/12/4"
// @ob name=m_8_12_4_blocks props=C04,C15 kind=bounded bound="n in {0, 1, 3} blocks (ParBlocksSize = 1)" fn=rc5::RC5::encrypt_with_backend,rc5::RC5::encrypt_block timeout=600 note="RC5-8/12/4"
// @ob name=z_8_12_4 props=C16 cfg=zeroize kind=contract fn=rc5::RC5::drop,rc5::RC5::clone timeout=300 note="RC5-8/12/4"
rc5_api!(u8, U12, U4, u=1, t=26, b=4, unw=80; k_8_12_4_keylen, k_8_12_4_same, m_8_12_4_blocks, z_8_12_4);
// (times out at 300 s: unregistered) @-ob name=k_128_28_32_keylen props=C11 kind=bounded bound="slice length <= 300" fn=rc5::RC5::new_from_slice timeout=300 note="RC5-128/28/32"
// (times out at 300 s: unregistered) @-ob name=k_128_28_32_same props=C11,C12,C13 kind=contract fn=rc5::RC5::new_from_slice,rc5::RC5::new,rc5::RC5::clone,rc5::RC5::weak_key_test,rc5::RC5::new_checked timeout=300 note="RC5-128/28/32"
// (did not discharge within 3600 s in the thorough-tier run of 2026-10-04 (10 solvers in parallel): unregistered) @-ob name=m_128_28_32_blocks tier=thorough timeout=3600 props=C04,C15 kind=bounded bound="n in {0, 1, 3} blocks (ParBlocksSize = 1)" fn=rc5::RC5::encrypt_with_backend,rc5::RC5::encrypt_block note="RC5-128/28/32"
// @ob name=z_128_28_32 props=C16 cfg=zeroize kind=contract fn=rc5::RC5::drop,rc5::RC5::clone timeout=300 note="RC5-128/28/32"
rc5_api!(u128, U28, U32, u=16, t=58, b=32, unw=180; k_128_28_32_keylen, k_128_28_32_same, m_128_28_32_blocks, z_128_28_32);
