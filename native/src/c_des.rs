//! des: Des, TdesEde3, TdesEee3, TdesEde2, TdesEee2 against FIPS 46-3 / SP 800-67 (bcref::des), C05; weak keys C13.
use crate::generic::*;
use crate::util::*;
use bcref::des as r;

fn be(x: &[u8]) -> u64 {
    u64::from_be_bytes(arr(x))
}
const KEYBITS: u64 = !r::PARITY_MASK;

/// one of the 64 NIST-listed keys, whatever the parity bits
fn listed(k: u64) -> bool {
    (0..64).any(|i| (r::nist_weak_key(i) & KEYBITS) == (k & KEYBITS))
}
fn same_des_key(a: u64, b: u64) -> bool {
    (a & KEYBITS) == (b & KEYBITS)
}

fn des_cands(rng: &mut Rng) -> Vec<Vec<u8>> {
    let mut v = Vec::new();
    for i in 0..64 {
        let k = r::nist_weak_key(i);
        v.push(k.to_be_bytes().to_vec());
        // random parity flips: still the same DES key
        for _ in 0..3 {
            v.push((k ^ (rng.u64() & r::PARITY_MASK)).to_be_bytes().to_vec());
        }
        v.push((k ^ r::PARITY_MASK).to_be_bytes().to_vec());
        // Hamming distance 1 on the key bits: a different, non-listed key
        for _ in 0..3 {
            let bit = loop {
                let b = rng.below(64);
                if (1u64 << b) & KEYBITS != 0 {
                    break b;
                }
            };
            v.push((k ^ (1u64 << bit) ^ (rng.u64() & r::PARITY_MASK)).to_be_bytes().to_vec());
        }
    }
    v
}

fn part(rng: &mut Rng) -> u64 {
    match rng.below(4) {
        0 => r::nist_weak_key(rng.below(64)) ^ (rng.u64() & r::PARITY_MASK),
        1 => {
            // neighbour of a listed key
            let bit = loop {
                let b = rng.below(64);
                if (1u64 << b) & KEYBITS != 0 {
                    break b;
                }
            };
            r::nist_weak_key(rng.below(64)) ^ (1u64 << bit)
        }
        _ => rng.u64(),
    }
}

fn tdes_cands(rng: &mut Rng, parts: usize) -> Vec<Vec<u8>> {
    let mut v = Vec::new();
    for _ in 0..400 {
        let mut p: Vec<u64> = (0..parts).map(|_| if rng.chance(3) { part(rng) } else { rng.u64() }).collect();
        // sometimes two parts are the same DES key up to parity, or differ in exactly one key bit
        match rng.below(4) {
            0 => {
                let (i, j) = (rng.below(parts), rng.below(parts));
                if i != j {
                    p[j] = p[i] ^ (rng.u64() & r::PARITY_MASK);
                }
            }
            1 => {
                let (i, j) = (rng.below(parts), rng.below(parts));
                if i != j {
                    let bit = loop {
                        let b = rng.below(64);
                        if (1u64 << b) & KEYBITS != 0 {
                            break b;
                        }
                    };
                    p[j] = p[i] ^ (1u64 << bit) ^ (rng.u64() & r::PARITY_MASK);
                }
            }
            _ => {}
        }
        v.push(p.iter().flat_map(|x| x.to_be_bytes()).collect());
    }
    v
}

fn weak3(k: &[u8]) -> bool {
    let (a, b, c) = (be(&k[0..8]), be(&k[8..16]), be(&k[16..24]));
    listed(a) || listed(b) || listed(c) || same_des_key(a, b) || same_des_key(a, c) || same_des_key(b, c)
}
fn weak2(k: &[u8]) -> bool {
    let (a, b) = (be(&k[0..8]), be(&k[8..16]));
    listed(a) || listed(b) || same_des_key(a, b)
}

desc!(DDes: des::Des, "des", "Des", [8], "C05", [clone, debug, alg], names ["Des"], alg ["des"],
    |k, b, dec| Some(if dec { r::decrypt(be(k), be(b)) } else { r::encrypt(be(k), be(b)) }.to_be_bytes().to_vec());
    fn expect_weak(k: &[u8]) -> bool { listed(be(k)) }
    fn weak_candidates(rng: &mut Rng) -> Vec<Vec<u8>> { des_cands(rng) }
);
desc!(DEde3: des::TdesEde3, "des", "TdesEde3", [24], "C05", [clone, debug, alg], names ["TdesEde3"], alg ["tdes", "ede3"],
    |k, b, dec| {
        let (k1, k2, k3) = (be(&k[0..8]), be(&k[8..16]), be(&k[16..24]));
        Some(if dec { r::ede3_decrypt(k1, k2, k3, be(b)) } else { r::ede3_encrypt(k1, k2, k3, be(b)) }.to_be_bytes().to_vec())
    };
    fn expect_weak(k: &[u8]) -> bool { weak3(k) }
    fn weak_candidates(rng: &mut Rng) -> Vec<Vec<u8>> { tdes_cands(rng, 3) }
);
desc!(DEee3: des::TdesEee3, "des", "TdesEee3", [24], "C05", [clone, debug, alg], names ["TdesEee3"], alg ["tdes", "eee3"],
    |k, b, dec| {
        let (k1, k2, k3) = (be(&k[0..8]), be(&k[8..16]), be(&k[16..24]));
        Some(if dec { r::eee3_decrypt(k1, k2, k3, be(b)) } else { r::eee3_encrypt(k1, k2, k3, be(b)) }.to_be_bytes().to_vec())
    };
    fn expect_weak(k: &[u8]) -> bool { weak3(k) }
    fn weak_candidates(rng: &mut Rng) -> Vec<Vec<u8>> { tdes_cands(rng, 3) }
);
desc!(DEde2: des::TdesEde2, "des", "TdesEde2", [16], "C05", [clone, debug, alg], names ["TdesEde2"], alg ["tdes", "ede2"],
    |k, b, dec| {
        let (k1, k2) = (be(&k[0..8]), be(&k[8..16]));
        Some(if dec { r::ede3_decrypt(k1, k2, k1, be(b)) } else { r::ede3_encrypt(k1, k2, k1, be(b)) }.to_be_bytes().to_vec())
    };
    fn expect_weak(k: &[u8]) -> bool { weak2(k) }
    fn weak_candidates(rng: &mut Rng) -> Vec<Vec<u8>> { tdes_cands(rng, 2) }
);
desc!(DEee2: des::TdesEee2, "des", "TdesEee2", [16], "C05", [clone, debug, alg], names ["TdesEee2"], alg ["tdes", "eee2"],
    |k, b, dec| {
        let (k1, k2) = (be(&k[0..8]), be(&k[8..16]));
        Some(if dec { r::eee3_decrypt(k1, k2, k1, be(b)) } else { r::eee3_encrypt(k1, k2, k1, be(b)) }.to_be_bytes().to_vec())
    };
    fn expect_weak(k: &[u8]) -> bool { weak2(k) }
    fn weak_candidates(rng: &mut Rng) -> Vec<Vec<u8>> { tdes_cands(rng, 2) }
);

pub fn run() {
    visit::<DDes>();
    visit::<DEde3>();
    visit::<DEee3>();
    visit::<DEde2>();
    visit::<DEee2>();
}
