// Harness macros shared by the contract modules of cast5, idea, rc2 and xtea (textually included with
// `include!("@VERIF@/contracts/cast5/group_macros.rs")` after `_common/common.rs`).  Not a contract module itself
// (no `@module` directive): the ledger skips it.  Every macro takes the harness attributes (`#[kani::stub(..)]`,
// `#[kani::unwind(..)]`, solver) from the caller so that the stubs an obligation relies on are visible next to
// its `@ob` line.

/// C19: Debug text is identical for all states and names the type; AlgorithmName names the algorithm.
macro_rules! names {
    ($name:ident, $ty:ident, $mk:expr, $text:expr) => {
        #[kani::proof]
        #[kani::unwind(100)]
        fn $name() {
            let a = $mk;
            let b = $mk;
            let (ta, tb) = (debug_text(&a), debug_text(&b));
            assert!(ta.same(&tb)); // identical for all keys
            assert!(ta.names($text)); // names the instance's own type
            assert!(alg_name_text::<$ty>().names($text));
        }
    };
}

/// C16 (feature zeroize): every byte of the instance's storage is zero after the drop.
macro_rules! zero_on_drop {
    ($name:ident, $ty:ident, $mk:expr) => {
        #[kani::proof]
        #[kani::unwind(400)]
        fn $name() {
            let mut m = core::mem::ManuallyDrop::new($mk);
            let p: *const $ty = &*m;
            unsafe { core::mem::ManuallyDrop::drop(&mut m); }
            assert!(unsafe { all_bytes_zero(p) });
        }
    };
}

/// C11: `new_from_slice` succeeds exactly for the accepted lengths, for every slice length up to 300, never panics.
macro_rules! keylen {
    ($(#[$a:meta])* $name:ident, $ty:ident, |$n:ident| $accept:expr, $lo:expr, $hi:expr) => {
        #[kani::proof]
        $(#[$a])*
        fn $name() {
            let buf: [u8; 301] = kani::any();
            let $n: usize = kani::any();
            kani::assume($n <= 300);
            kani::cover!($n == $lo);
            kani::cover!($n == $hi);
            kani::cover!($n == 0);
            kani::cover!($n == 300);
            let r = <$ty as cipher::KeyInit>::new_from_slice(&buf[..$n]);
            assert!(r.is_ok() == $accept);
        }
    };
}

/// C13: the weak-key test never fails and the checked constructor returns the same cipher as the plain one.
macro_rules! never_weak {
    ($(#[$a:meta])* $name:ident, $ty:ident, $klen:expr, $same:expr) => {
        #[kani::proof]
        $(#[$a])*
        fn $name() {
            let k: [u8; $klen] = kani::any();
            assert!(<$ty as cipher::KeyInit>::weak_key_test(&Array(k)).is_ok());
            match <$ty as cipher::KeyInit>::new_checked(&Array(k)) {
                Ok(c) => { let p = <$ty as cipher::KeyInit>::new(&Array(k)); assert!($same(&c, &p)); }
                Err(_) => assert!(false),
            }
        }
    };
}

/// C04 / C15 for a PAR=1 type: `$blocks` / `$b2b` on n blocks equal n single-block calls, the source of a
/// buffer-to-buffer call and the guard blocks around its destination are untouched, the state is unchanged.
/// `$snap` extracts the state (key material) of an instance, `$eq` compares two such snapshots;
/// `$dir` is the cipher-crate trait (BlockCipherEncrypt / BlockCipherDecrypt), `$one`, `$blocks`, `$b2b` its methods.
macro_rules! multi_block {
    ($(#[$a:meta])* $name:ident, $n:expr, $mk:expr, $snap:expr, $eq:expr, $dir:ident, $one:ident, $blocks:ident, $b2b:ident) => {
        #[kani::proof]
        $(#[$a])*
        fn $name() {
            let d = $mk;
            let before = $snap(&d);
            let inp: [[u8; 8]; $n] = kani::any();
            let mut single = [[0u8; 8]; $n];
            let mut i = 0;
            while i < $n {
                let mut b = Array(inp[i]);
                cipher::$dir::$one(&d, &mut b);
                single[i] = b.0;
                i += 1;
            }
            let mut blocks = [Array([0u8; 8]); $n];
            let mut i = 0;
            while i < $n { blocks[i] = Array(inp[i]); i += 1; }
            cipher::$dir::$blocks(&d, &mut blocks);
            let mut i = 0;
            while i < $n { assert!(blocks[i].0 == single[i]); i += 1; }
            let mut src = [Array([0u8; 8]); $n];
            let mut i = 0;
            while i < $n { src[i] = Array(inp[i]); i += 1; }
            let g: [u8; 8] = kani::any();
            let mut dst = [Array(g); $n + 2];
            cipher::$dir::$b2b(&d, &src, &mut dst[1..$n + 1]).unwrap();
            assert!(dst[0].0 == g && dst[$n + 1].0 == g);
            let mut i = 0;
            while i < $n { assert!(dst[i + 1].0 == single[i] && src[i].0 == inp[i]); i += 1; }
            assert!($eq(&before, &$snap(&d)));
        }
    };
}
