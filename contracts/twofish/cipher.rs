// Contracts on twofish/src/lib.rs against the Twofish paper (bcref::twofish): every helper (gf_mult, sbox,
// mds_column_mult, mds_mult, rs_mult, h), the key schedule, g_func and the two block functions.
// Decomposition: callers are proved against the contracts of their callees (spec-function stubs, `uses=`); in the
// block-function obligations g_func and the reference's g are both replaced by ONE uninterpreted function of x
// (licensed by c_g_func_128/192/256: for a fixed keyed value they are the same function), so those obligations are the pure
// ARX / Feistel composition and hold for every well-formed keyed value.
//
// Well-formedness of the private state: start in {0, 1, 2} (= 4 - k); established by key_schedule (c_key_schedule).
//
// @module file=twofish/src/lib.rs
use super::*;
use bcref::twofish as r;
use cipher::Array;
include!("@VERIF@/contracts/serpent/sched_uf.inc");

pub fn wf(t: &Twofish) -> bool { t.start <= 2 }
pub fn any_twofish() -> Twofish {
    let t = Twofish { s: kani::any(), k: kani::any(), start: kani::any() };
    kani::assume(wf(&t));
    t
}
/// The reference's view of the private state: n = 4 - start key words pairs; the reference lists S in reverse order
/// (S = (S_{n-1}, .., S_0)), the real code stores S_i at s[4i..4i+4].
pub fn keyed_of(t: &Twofish) -> r::Keyed {
    let n = 4 - t.start;
    let mut s = [[0u8; 4]; 4];
    let mut j = 0;
    while j < 4 {
        if j < n {
            let mut b = 0;
            while b < 4 {
                s[j][b] = t.s[4 * (n - 1 - j) + b];
                b += 1;
            }
        }
        j += 1;
    }
    r::Keyed { k: t.k, s, n }
}
pub fn eq40(a: &[u32; 40], b: &[u32; 40]) -> bool {
    let mut ok = true;
    let mut i = 0;
    while i < 40 {
        ok &= a[i] == b[i];
        i += 1;
    }
    ok
}

// ------------------------------------------------------------------ spec functions (contracts of the helpers)
pub fn spec_sbox(i: usize, x: u8) -> u8 { r::q(i, x) }
pub fn spec_mds_column_mult(x: u8, column: usize) -> u32 { r::mds_column(x, column) }
pub fn spec_mds_mult(y: [u8; 4]) -> u32 { r::mds(y) }
pub fn spec_rs_mult(m: &[u8], out: &mut [u8]) {
    let s = r::rs(&[m[0], m[1], m[2], m[3], m[4], m[5], m[6], m[7]]);
    out[0] = s[0];
    out[1] = s[1];
    out[2] = s[2];
    out[3] = s[3];
}
/// h(x, m, k, offset): L_i = the key word M_{2i+offset} (Me for offset 0, Mo for offset 1)
pub fn spec_h(x: u32, m: &[u8], k: usize, offset: usize) -> u32 {
    let mut l = [[0u8; 4]; 4];
    let mut i = 0;
    while i < 4 {
        if i < k {
            let mut j = 0;
            while j < 4 {
                l[i][j] = m[4 * (2 * i + offset) + j];
                j += 1;
            }
        }
        i += 1;
    }
    r::h(x, &l, k)
}
pub fn spec_g_func(t: &Twofish, x: u32) -> u32 { r::g(&keyed_of(t), x) }

// ------------------------------------------------------------------ helpers
// gf_mult(a, b, p) is the product in GF(2)[x] / (x^8 + p(x)), for every a, b and the two polynomials of the call sites
// (MDS_POLY: v(x) = x^8+x^6+x^5+x^3+1, RS_POLY: w(x) = x^8+x^6+x^3+x^2+1); the constants themselves are checked too.
// @ob name=c_gf_mult props=C08,C20 fn=twofish::gf_mult timeout=300
#[kani::proof]
#[kani::unwind(10)]
fn c_gf_mult() {
    let (a, b, p): (u8, u8, u8) = (kani::any(), kani::any(), kani::any());
    assert!(0x100 | MDS_POLY as u16 == r::MDS_POLY && 0x100 | RS_POLY as u16 == r::RS_POLY);
    kani::assume(p == MDS_POLY || p == RS_POLY);
    kani::cover!(p == MDS_POLY);
    kani::cover!(p == RS_POLY);
    assert!(gf_mult(a, b, p) == r::gf_mul(a, b, 0x100 | p as u16));
}
// the same for EVERY low polynomial byte p (2^24 cases, nonlinear in p: slow on every SAT solver)
// @ob name=c_gfmul_any_poly props=C08 tier=thorough solver=kissat fn=twofish::gf_mult timeout=3600
#[kani::proof]
#[kani::solver(kissat)]
#[kani::unwind(10)]
fn c_gfmul_any_poly() {
    let (a, b, p): (u8, u8, u8) = (kani::any(), kani::any(), kani::any());
    assert!(gf_mult(a, b, p) == r::gf_mul(a, b, 0x100 | p as u16));
}

// sbox(i, x) = q_i(x), i in {0, 1} (precondition from every call site: QORD entries and the literals 0 / 1),
// against both the tabulated q and its definition from the 4-bit tables.
// @ob name=c_sbox props=C08,C20 fn=twofish::sbox timeout=300
#[kani::proof]
fn c_sbox() {
    let i: usize = kani::any();
    let x: u8 = kani::any();
    kani::assume(i < 2);
    kani::cover!(i == 1);
    assert!(sbox(i, x) == r::q(i, x));
    assert!(sbox(i, x) == r::q_calc(i, x));
}

// @ob name=c_mds_column_mult props=C08,C20 fn=twofish::mds_column_mult uses=c_gf_mult timeout=300
#[kani::proof]
#[kani::unwind(10)]
fn c_mds_column_mult() {
    let x: u8 = kani::any();
    let column: usize = kani::any();
    kani::assume(column < 4);
    kani::cover!(column == 3);
    assert!(mds_column_mult(x, column) == r::mds_column(x, column));
}

// @ob name=c_mds_mult props=C08,C20 fn=twofish::mds_mult timeout=300
#[kani::proof]
#[kani::unwind(10)]
fn c_mds_mult() {
    let y: [u8; 4] = kani::any();
    assert!(mds_mult(y) == r::mds(y));
}

// @ob name=c_rs_mult props=C08,C20 fn=twofish::rs_mult timeout=600
#[kani::proof]
#[kani::unwind(10)]
fn c_rs_mult() {
    let m: [u8; 8] = kani::any();
    let mut out: [u8; 4] = kani::any();
    rs_mult(&m[..], &mut out[..]);
    assert!(out == r::rs(&m));
}

// h for k in {2,3,4}, offset in {0,1}, every key and x (sbox and mds_mult replaced by their contracts)
// @ob name=c_h props=C08,C20 fn=twofish::h uses=c_sbox,c_mds_mult timeout=600
#[kani::proof]
#[kani::stub(sbox, spec_sbox)]
#[kani::stub(mds_mult, spec_mds_mult)]
#[kani::unwind(10)]
fn c_h() {
    let key: [u8; 32] = kani::any();
    let k: usize = kani::any();
    let offset: usize = kani::any();
    let x: u32 = kani::any();
    kani::assume(2 <= k && k <= 4 && offset < 2);
    kani::cover!(k == 2);
    kani::cover!(k == 3 && offset == 1);
    kani::cover!(k == 4);
    assert!(h(x, &key[..8 * k], k, offset) == spec_h(x, &key[..8 * k], k, offset));
}

// (q-table look-ups: z3 2-3 s, cadical 60-90 s)
// g_func on every well-formed state (one obligation per value of start = 4 - k): the key-dependent S-boxes followed by
// the MDS matrix == h(X, S)
macro_rules! g_func_ob {
    ($name:ident, $start:expr) => {
        #[kani::proof]
        #[kani::solver(z3)]
        #[kani::stub(sbox, spec_sbox)]
        #[kani::stub(mds_column_mult, spec_mds_column_mult)]
        #[kani::unwind(10)]
        fn $name() {
            let t = Twofish { s: kani::any(), k: kani::any(), start: $start };
            let x: u32 = kani::any();
            assert!(t.g_func(x) == spec_g_func(&t, x));
        }
    };
}
// @ob name=c_g_func_256 props=C08,C20 solver=z3 fn=twofish::Twofish::g_func uses=c_sbox,c_mds_column_mult timeout=600
g_func_ob!(c_g_func_256, 0);
// @ob name=c_g_func_192 props=C08,C20 solver=z3 fn=twofish::Twofish::g_func uses=c_sbox,c_mds_column_mult timeout=600
g_func_ob!(c_g_func_192, 1);
// @ob name=c_g_func_128 props=C08,C20 solver=z3 fn=twofish::Twofish::g_func uses=c_sbox,c_mds_column_mult timeout=600
g_func_ob!(c_g_func_128, 2);

// h and rs_mult as scheduled uninterpreted functions (see sched_uf.inc), shared by the real callee and the reference's:
// by c_h the real h(x, m, k, offset) and the reference's h(x, L, k) with L_i = M_{2i+offset} are the same function of
// (x, L, k); by c_rs_mult the real rs_mult and the reference's rs are the same function of the 8 key bytes.
type HArg = (u32, [[u8; 4]; 4], usize);
fn eq_harg(a: &HArg, b: &HArg) -> bool {
    let mut ok = a.0 == b.0 && a.2 == b.2;
    let mut i = 0;
    while i < 4 {
        ok &= u32::from_le_bytes(a.1[i]) == u32::from_le_bytes(b.1[i]);
        i += 1;
    }
    ok
}
fn eq_m8(a: &[u8; 8], b: &[u8; 8]) -> bool { u64::from_le_bytes(*a) == u64::from_le_bytes(*b) }
sched_uf!(uf_h, HArg, (0, [[0; 4]; 4], 0), u32, 0, 40, eq_harg);
sched_uf!(uf_rs, [u8; 8], [0; 8], [u8; 4], [0; 4], 4, eq_m8);
pub fn st_h_real(x: u32, m: &[u8], k: usize, offset: usize) -> u32 {
    let mut l = [[0u8; 4]; 4];
    let mut i = 0;
    while i < 4 {
        if i < k {
            let mut j = 0;
            while j < 4 {
                l[i][j] = m[4 * (2 * i + offset) + j];
                j += 1;
            }
        }
        i += 1;
    }
    uf_h::call((x, l, k))
}
fn st_h_ref(x: u32, l: &[[u8; 4]; 4], k: usize) -> u32 { uf_h::call((x, *l, k)) }
pub fn st_rs_real(m: &[u8], out: &mut [u8]) {
    let s = uf_rs::call([m[0], m[1], m[2], m[3], m[4], m[5], m[6], m[7]]);
    out[0] = s[0];
    out[1] = s[1];
    out[2] = s[2];
    out[3] = s[3];
}
fn st_rs_ref(m: &[u8; 8]) -> [u8; 4] { uf_rs::call(*m) }

// key_schedule for the three key sizes, from ANY prior state: the 40 key words, the S vector, start = 4 - k
macro_rules! key_schedule_ob {
    ($name:ident, $k:expr) => {
        #[kani::proof]
        #[kani::stub(h, st_h_real)]
        #[kani::stub(bcref::twofish::h, st_h_ref)]
        #[kani::stub(rs_mult, st_rs_real)]
        #[kani::stub(bcref::twofish::rs, st_rs_ref)]
        #[kani::unwind(41)]
        fn $name() {
            let buf: [u8; 32] = kani::any();
            let mut t = Twofish { s: kani::any(), k: kani::any(), start: kani::any() };
            t.key_schedule(&buf[..8 * $k]);
            uf_h::replay_same_order();
            uf_rs::replay_same_order();
            let kd = r::key_schedule(&buf, $k);
            assert!(t.start == 4 - $k && wf(&t));
            assert!(eq40(&t.k, &kd.k));
            let mine = keyed_of(&t);
            assert!(mine.n == kd.n);
            let mut j = 0;
            while j < 4 {
                assert!(mine.s[j] == kd.s[j]);
                j += 1;
            }
        }
    };
}
// @ob name=c_key_schedule_128 props=C08,C20 fn=twofish::Twofish::key_schedule uses=c_h,c_rs_mult timeout=600
key_schedule_ob!(c_key_schedule_128, 2);
// @ob name=c_key_schedule_192 props=C08,C20 fn=twofish::Twofish::key_schedule uses=c_h,c_rs_mult timeout=600
key_schedule_ob!(c_key_schedule_192, 3);
// @ob name=c_key_schedule_256 props=C08,C20 fn=twofish::Twofish::key_schedule uses=c_h,c_rs_mult timeout=600
key_schedule_ob!(c_key_schedule_256, 4);

// ------------------------------------------------------------------ block functions
/// Over-approximation of "g_func / the reference's g under the (fixed) keyed value of the harness is SOME function
/// of x": the first 32 calls (one block operation) return unconstrained values and are recorded; each of the next 32
/// calls (the second block operation) consults exactly ONE recorded call, chosen by a concrete schedule, and returns
/// its result when the arguments are equal, an unconstrained value otherwise.  Every behaviour of a real function is
/// included (a function returns equal results on equal arguments), so what is proved with it holds for the real g.
/// Licensed by c_g_func_128/192/256 (g_func == the reference's g, a pure function of (S, k, x)).
pub mod ufg {
    pub static mut IN: [u32; 32] = [0; 32];
    pub static mut OUT: [u32; 32] = [0; 32];
    pub static mut CALLS: usize = 0;
    /// schedule: which recorded call the c-th call of the second block operation consults
    pub static mut SCHEDULE: [usize; 32] = [0; 32];
    #[allow(static_mut_refs)]
    pub fn g(x: u32) -> u32 {
        unsafe {
            let c = CALLS;
            CALLS += 1;
            assert!(c < 64);
            let mut y: u32 = kani::any();
            if c < 32 {
                IN[c] = x;
                OUT[c] = y;
            } else {
                let j = SCHEDULE[c - 32];
                if IN[j] == x { y = OUT[j]; }
            }
            y
        }
    }
    /// reference vs real: the reference evaluates g(R0) then g(ROL(R1, 8)), the real code the other way round
    #[allow(static_mut_refs)]
    pub fn schedule_swap_pairs() {
        unsafe {
            let mut c = 0;
            while c < 32 { SCHEDULE[c] = c ^ 1; c += 1; }
        }
    }
    /// decrypt after encrypt (or encrypt after decrypt): double-rounds in reverse order, inside a double-round the
    /// second half first
    #[allow(static_mut_refs)]
    pub fn schedule_inverse() {
        unsafe {
            let mut c = 0;
            while c < 32 {
                let (r, pos) = (c / 4, c % 4);
                SCHEDULE[c] = 4 * (7 - r) + [2, 3, 0, 1][pos];
                c += 1;
            }
        }
    }
}
fn uf_g_real(_t: &Twofish, x: u32) -> u32 { ufg::g(x) }
fn uf_g_ref(_kd: &r::Keyed, x: u32) -> u32 { ufg::g(x) }

// @ob name=c_encrypt_block props=C08,C20 fn=twofish::Twofish::encrypt_block uses=c_g_func_128,c_g_func_192,c_g_func_256 timeout=600
#[kani::proof]
#[kani::stub(Twofish::g_func, uf_g_real)]
#[kani::stub(bcref::twofish::g, uf_g_ref)]
#[kani::unwind(41)]
fn c_encrypt_block() {
    ufg::schedule_swap_pairs();
    let t = any_twofish();
    let b: [u8; 16] = kani::any();
    let mut blk = Array(b);
    cipher::BlockCipherEncrypt::encrypt_block(&t, &mut blk);
    assert!(blk.0 == r::encrypt_with(&keyed_of(&t), &b));
}
// @ob name=c_decrypt_block props=C08,C20 fn=twofish::Twofish::decrypt_block uses=c_g_func_128,c_g_func_192,c_g_func_256 timeout=600
#[kani::proof]
#[kani::stub(Twofish::g_func, uf_g_real)]
#[kani::stub(bcref::twofish::g, uf_g_ref)]
#[kani::unwind(41)]
fn c_decrypt_block() {
    ufg::schedule_swap_pairs();
    let t = any_twofish();
    let b: [u8; 16] = kani::any();
    let mut blk = Array(b);
    cipher::BlockCipherDecrypt::decrypt_block(&t, &mut blk);
    assert!(blk.0 == r::decrypt_with(&keyed_of(&t), &b));
}
// C01: a Feistel network is invertible whatever g is, for every well-formed keyed value, both orders
// @ob name=l_roundtrip_ed props=C01 kind=lemma fn=twofish::Twofish::encrypt_block,twofish::Twofish::decrypt_block uses=c_g_func_128,c_g_func_192,c_g_func_256 timeout=600
#[kani::proof]
#[kani::stub(Twofish::g_func, uf_g_real)]
#[kani::unwind(41)]
fn l_roundtrip_ed() {
    ufg::schedule_inverse();
    let t = any_twofish();
    let b: [u8; 16] = kani::any();
    let mut blk = Array(b);
    cipher::BlockCipherEncrypt::encrypt_block(&t, &mut blk);
    cipher::BlockCipherDecrypt::decrypt_block(&t, &mut blk);
    assert!(blk.0 == b);
}
// @ob name=l_roundtrip_de props=C01 kind=lemma fn=twofish::Twofish::encrypt_block,twofish::Twofish::decrypt_block uses=c_g_func_128,c_g_func_192,c_g_func_256 timeout=600
#[kani::proof]
#[kani::stub(Twofish::g_func, uf_g_real)]
#[kani::unwind(41)]
fn l_roundtrip_de() {
    ufg::schedule_inverse();
    let t = any_twofish();
    let b: [u8; 16] = kani::any();
    let mut blk = Array(b);
    cipher::BlockCipherDecrypt::decrypt_block(&t, &mut blk);
    cipher::BlockCipherEncrypt::encrypt_block(&t, &mut blk);
    assert!(blk.0 == b);
}

// ------------------------------------------------------------------ public API on bytes
// g keyed by the S vector: by c_g_func_* the real g_func and the reference's g are the same function of (S, k, x)
type GArg = ([[u8; 4]; 4], usize, u32);
fn eq_garg(a: &GArg, b: &GArg) -> bool {
    let mut ok = a.1 == b.1 && a.2 == b.2;
    let mut i = 0;
    while i < 4 {
        ok &= u32::from_le_bytes(a.0[i]) == u32::from_le_bytes(b.0[i]);
        i += 1;
    }
    ok
}
sched_uf!(uf_gk, GArg, ([[0; 4]; 4], 0, 0), u32, 0, 32, eq_garg);
fn st_gk_real(t: &Twofish, x: u32) -> u32 {
    let kd = keyed_of(t);
    uf_gk::call((kd.s, kd.n, x))
}
fn st_gk_ref(kd: &r::Keyed, x: u32) -> u32 { uf_gk::call((kd.s, kd.n, x)) }
fn swap_pairs(c: usize) -> usize { c ^ 1 }

// KeyInit::new_from_slice + encrypt_block / decrypt_block == Twofish of the paper on bytes, for every key of the
// three sizes and every block.  Nothing of the real code is skipped except the callees h, rs_mult, g_func, which
// (with their reference counterparts) are uninterpreted functions here.
macro_rules! api_ob {
    ($enc:ident, $dec:ident, $k:expr) => {
        #[kani::proof]
        #[kani::stub(h, st_h_real)]
        #[kani::stub(bcref::twofish::h, st_h_ref)]
        #[kani::stub(rs_mult, st_rs_real)]
        #[kani::stub(bcref::twofish::rs, st_rs_ref)]
        #[kani::stub(Twofish::g_func, st_gk_real)]
        #[kani::stub(bcref::twofish::g, st_gk_ref)]
        #[kani::unwind(41)]
        fn $enc() {
            let key: [u8; 8 * $k] = kani::any();
            let b: [u8; 16] = kani::any();
            let t = <Twofish as KeyInit>::new_from_slice(&key[..]).unwrap();
            let mut blk = Array(b);
            cipher::BlockCipherEncrypt::encrypt_block(&t, &mut blk);
            uf_h::replay_same_order();
            uf_rs::replay_same_order();
            uf_gk::replay_with(swap_pairs);
            let mut full = [0u8; 32];
            let mut i = 0;
            while i < 8 * $k { full[i] = key[i]; i += 1; }
            assert!(blk.0 == r::encrypt(&full, $k, &b));
        }
        #[kani::proof]
        #[kani::stub(h, st_h_real)]
        #[kani::stub(bcref::twofish::h, st_h_ref)]
        #[kani::stub(rs_mult, st_rs_real)]
        #[kani::stub(bcref::twofish::rs, st_rs_ref)]
        #[kani::stub(Twofish::g_func, st_gk_real)]
        #[kani::stub(bcref::twofish::g, st_gk_ref)]
        #[kani::unwind(41)]
        fn $dec() {
            let key: [u8; 8 * $k] = kani::any();
            let b: [u8; 16] = kani::any();
            let t = <Twofish as KeyInit>::new_from_slice(&key[..]).unwrap();
            let mut blk = Array(b);
            cipher::BlockCipherDecrypt::decrypt_block(&t, &mut blk);
            uf_h::replay_same_order();
            uf_rs::replay_same_order();
            uf_gk::replay_with(swap_pairs);
            let mut full = [0u8; 32];
            let mut i = 0;
            while i < 8 * $k { full[i] = key[i]; i += 1; }
            assert!(blk.0 == r::decrypt(&full, $k, &b));
        }
    };
}
// @ob name=c_api_enc_128 props=C08,C20 fn=twofish::Twofish::new_from_slice,twofish::Twofish::key_schedule,twofish::Twofish::encrypt_block uses=c_h,c_rs_mult,c_g_func_128 timeout=900
// @ob name=c_api_dec_128 props=C08,C20 fn=twofish::Twofish::new_from_slice,twofish::Twofish::key_schedule,twofish::Twofish::decrypt_block uses=c_h,c_rs_mult,c_g_func_128 timeout=900
api_ob!(c_api_enc_128, c_api_dec_128, 2);
// @ob name=c_api_enc_192 props=C08,C20 fn=twofish::Twofish::new_from_slice,twofish::Twofish::key_schedule,twofish::Twofish::encrypt_block uses=c_h,c_rs_mult,c_g_func_192 timeout=900
// @ob name=c_api_dec_192 props=C08,C20 fn=twofish::Twofish::new_from_slice,twofish::Twofish::key_schedule,twofish::Twofish::decrypt_block uses=c_h,c_rs_mult,c_g_func_192 timeout=900
api_ob!(c_api_enc_192, c_api_dec_192, 3);
// @ob name=c_api_enc_256 props=C08,C20 fn=twofish::Twofish::new_from_slice,twofish::Twofish::key_schedule,twofish::Twofish::encrypt_block uses=c_h,c_rs_mult,c_g_func_256 timeout=900
// @ob name=c_api_dec_256 props=C08,C20 fn=twofish::Twofish::new_from_slice,twofish::Twofish::key_schedule,twofish::Twofish::decrypt_block uses=c_h,c_rs_mult,c_g_func_256 timeout=900
api_ob!(c_api_enc_256, c_api_dec_256, 4);
