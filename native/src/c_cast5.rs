//! cast5: Cast5 with 5..=16 byte keys against RFC 2144 (bcref::cast5), C09;
//! C11: a key of 11..=15 bytes (above 80 bits: 16 rounds) == the key zero-padded to 16 bytes.
use crate::generic::*;
use crate::util::*;
use bcref::cast5 as r;
use cipher::KeyInit;

desc!(DCast5: cast5::Cast5, "cast5", "Cast5", 5..=16usize, "C09", [clone, debug, alg], names ["Cast5"], alg ["cast5"],
    |k, b, dec| Some(if dec { r::decrypt(k, &arr(b)) } else { r::encrypt(k, &arr(b)) }.to_vec()));

fn c11_padding() {
    set_prop("C11");
    let mut rng = Rng::for_label("C11/cast5/padding");
    for i in 0..(iters() / 4).max(25) {
        let len = 11 + i % 5; // 11..=15
        let key = rng.bytes(len);
        let full: [u8; 16] = padded(&key);
        input(&[("key", &key), ("padded_key", &full)]);
        guard("short key vs padded key", || {
            let (Ok(a), Ok(b)) = (cast5::Cast5::new_from_slice(&key), cast5::Cast5::new_from_slice(&full)) else { return };
            same_cipher("key above 80 bits and its zero-padded 128-bit form give different ciphers", &a, &b, &|c, x| probe_full(c, x), 8, &mut rng);
        });
    }
}

pub fn run() {
    visit::<DCast5>();
    if want("C11") {
        c11_padding();
    }
}
