// Leaf contracts for the fixsliced AES software backend (aes/src/soft/fixslice64.rs; 64-bit fixslicing, 4 blocks).
//
// Every bitsliced leaf function is specified as the *lift* of a FIPS-197 byte-level transformation:
//     leaf(state) == spec_bitslice( F( spec_inv_bitslice(state) ) )            for all 2^512 states,
// where spec_bitslice / spec_inv_bitslice are the pure bit permutation between four 16-byte blocks and eight
// 64-bit words (word p, bit 16r + 4c + b  <->  bit p of byte 4c + r of block b) and F acts on each of the four
// blocks independently (which also gives lane independence, C04).  Because the lift is an exact functional
// specification, callers (round functions, key schedules) are verified against these specs via kani::stub.
//
// @module file=aes/src/soft/fixslice64.rs
// @config name=hazmat features=hazmat
// @config name=compact rustflags="--cfg aes_compact"
// @config name=force_soft rustflags="--cfg aes_force_soft"
use super::*;
use bcref::aes as fips;

pub type Blocks4 = [[u8; 16]; 4];

/// word p, bit (16 r + 4 c + b) == bit p of byte (4 c + r) of block b
pub fn spec_bitslice(blocks: &Blocks4) -> [u64; 8] {
    let mut out = [0u64; 8];
    let mut p = 0;
    while p < 8 {
        let mut w = 0u64;
        let mut b = 0;
        while b < 4 {
            let mut i = 0;
            while i < 16 {
                let (c, r) = (i / 4, i % 4);
                w |= (((blocks[b][i] >> p) & 1) as u64) << (16 * r + 4 * c + b);
                i += 1;
            }
            b += 1;
        }
        out[p] = w;
        p += 1;
    }
    out
}

pub fn spec_inv_bitslice(state: &[u64]) -> Blocks4 {
    let mut out = [[0u8; 16]; 4];
    let mut b = 0;
    while b < 4 {
        let mut i = 0;
        while i < 16 {
            let (c, r) = (i / 4, i % 4);
            let mut v = 0u8;
            let mut p = 0;
            while p < 8 {
                v |= (((state[p] >> (16 * r + 4 * c + b)) & 1) as u8) << p;
                p += 1;
            }
            out[b][i] = v;
            i += 1;
        }
        b += 1;
    }
    out
}

pub fn eq8(a: &[u64], b: &[u64; 8]) -> bool {
    let mut ok = a.len() == 8;
    let mut i = 0;
    while i < 8 {
        ok &= a[i] == b[i];
        i += 1;
    }
    ok
}
pub fn eq_blocks(a: &BatchBlocks, b: &Blocks4) -> bool {
    let mut ok = true;
    let mut j = 0;
    while j < 4 {
        let mut i = 0;
        while i < 16 {
            ok &= a[j].0[i] == b[j][i];
            i += 1;
        }
        j += 1;
    }
    ok
}
fn lift(state: &[u64], f: fn(&[u8; 16]) -> [u8; 16]) -> [u64; 8] {
    let b = spec_inv_bitslice(state);
    spec_bitslice(&[f(&b[0]), f(&b[1]), f(&b[2]), f(&b[3])])
}

// ---- byte-level transformations the leaves are lifts of (all from FIPS-197 via bcref::aes)
const C63: [u8; 16] = [0x63; 16];
/// SubBytes with the final XOR 0x63 of the affine map left out (the "NOTs moved to the key schedule")
pub fn sb_no_nots(x: &[u8; 16]) -> [u8; 16] { fips::xor_block(&fips::sub_bytes(x), &C63) }
pub fn xor63(x: &[u8; 16]) -> [u8; 16] { fips::xor_block(x, &C63) }
pub fn sr1(x: &[u8; 16]) -> [u8; 16] { fips::shift_rows_k(x, 1) }
pub fn sr2(x: &[u8; 16]) -> [u8; 16] { fips::shift_rows_k(x, 2) }
pub fn sr3(x: &[u8; 16]) -> [u8; 16] { fips::shift_rows_k(x, 3) }
/// MixColumns conjugated by ShiftRows^k: the state between rounds is kept in the frame ShiftRows^-k
pub fn mc_k<const K: usize>(x: &[u8; 16]) -> [u8; 16] { fips::inv_shift_rows_k(&fips::mix_columns(&fips::shift_rows_k(x, K)), K) }
pub fn imc_k<const K: usize>(x: &[u8; 16]) -> [u8; 16] { fips::inv_shift_rows_k(&fips::inv_mix_columns(&fips::shift_rows_k(x, K)), K) }

// ---- spec versions of the leaves (used as kani::stub replacements by the composition obligations)
pub fn spec_sub_bytes(state: &mut [u64]) { let r = lift(state, sb_no_nots); state.copy_from_slice(&r); }
pub fn spec_sub_bytes_nots(state: &mut [u64]) { let r = lift(state, xor63); state.copy_from_slice(&r); }
/// exact inverse of the NOT-less `sub_bytes`: InvSubBytes(x xor 0x63)
pub fn isb_no_nots(x: &[u8; 16]) -> [u8; 16] { fips::inv_sub_bytes(&fips::xor_block(x, &C63)) }
pub fn spec_inv_sub_bytes(state: &mut [u64]) { let r = lift(state, isb_no_nots); state.copy_from_slice(&r); }
pub fn spec_mix_columns_0(state: &mut State) { *state = lift(state, mc_k::<0>); }
pub fn spec_mix_columns_1(state: &mut State) { *state = lift(state, mc_k::<1>); }
pub fn spec_mix_columns_2(state: &mut State) { *state = lift(state, mc_k::<2>); }
pub fn spec_mix_columns_3(state: &mut State) { *state = lift(state, mc_k::<3>); }
pub fn spec_inv_mix_columns_0(state: &mut State) { *state = lift(state, imc_k::<0>); }
pub fn spec_inv_mix_columns_1(state: &mut State) { *state = lift(state, imc_k::<1>); }
pub fn spec_inv_mix_columns_2(state: &mut State) { *state = lift(state, imc_k::<2>); }
pub fn spec_inv_mix_columns_3(state: &mut State) { *state = lift(state, imc_k::<3>); }
pub fn spec_shift_rows_1(state: &mut [u64]) { let r = lift(state, sr1); state.copy_from_slice(&r); }
pub fn spec_shift_rows_2(state: &mut [u64]) { let r = lift(state, sr2); state.copy_from_slice(&r); }
pub fn spec_shift_rows_3(state: &mut [u64]) { let r = lift(state, sr3); state.copy_from_slice(&r); }
pub fn spec_bitslice_fn(output: &mut [u64], i0: &[u8], i1: &[u8], i2: &[u8], i3: &[u8]) {
    let mut b = [[0u8; 16]; 4];
    b[0].copy_from_slice(i0);
    b[1].copy_from_slice(i1);
    b[2].copy_from_slice(i2);
    b[3].copy_from_slice(i3);
    output.copy_from_slice(&spec_bitslice(&b));
}
pub fn spec_inv_bitslice_fn(input: &[u64]) -> BatchBlocks {
    let b = spec_inv_bitslice(input);
    let mut out = BatchBlocks::default();
    let mut j = 0;
    while j < 4 {
        out[j] = Array(b[j]);
        j += 1;
    }
    out
}

macro_rules! leaf {
    ($name:ident, $real:ident, $spec:ident, $solver:ident) => {
        #[kani::proof]
        #[kani::unwind(17)]
        #[kani::solver($solver)]
        fn $name() {
            let st: [u64; 8] = kani::any();
            let mut a = st;
            let mut b = st;
            $real(&mut a);
            $spec(&mut b);
            assert!(eq8(&a, &b));
        }
    };
}

// @ob name=c_bitslice props=C03,C02,C04,C20 cfg=default,compact fn=aes::soft::fixslice::bitslice timeout=300
#[kani::proof]
#[kani::unwind(17)]
fn c_bitslice() {
    let blocks: Blocks4 = kani::any();
    // NOTE: rows are copied into separate locals: slices taken directly into a `kani::any()` nested array gave a
    // spurious counterexample (all-zero input, does not reproduce natively) with Kani 0.68 / CBMC 6.11.
    let (b0, b1, b2, b3) = (blocks[0], blocks[1], blocks[2], blocks[3]);
    let mut out = [0u64; 8];
    bitslice(&mut out, &b0, &b1, &b2, &b3);
    assert!(eq8(&out, &spec_bitslice(&blocks)));
}
// @ob name=c_inv_bitslice props=C03,C02,C04,C20 cfg=default,compact fn=aes::soft::fixslice::inv_bitslice timeout=300
#[kani::proof]
#[kani::unwind(17)]
fn c_inv_bitslice() {
    let st: [u64; 8] = kani::any();
    assert!(eq_blocks(&inv_bitslice(&st), &spec_inv_bitslice(&st)));
}
// the two bit permutations are mutually inverse (so `lift` is an exact specification)
// @ob name=l_bitslice_bijection props=C01,C02 kind=lemma fn=aes::soft::fixslice::bitslice,aes::soft::fixslice::inv_bitslice timeout=300
#[kani::proof]
#[kani::unwind(17)]
fn l_bitslice_bijection() {
    let st: [u64; 8] = kani::any();
    assert!(eq8(&spec_bitslice(&spec_inv_bitslice(&st)), &st));
    let blocks: Blocks4 = kani::any();
    let back = spec_inv_bitslice(&spec_bitslice(&blocks));
    let j: usize = kani::any();
    let i: usize = kani::any();
    kani::assume(j < 4 && i < 16);
    assert!(back[j][i] == blocks[j][i]);
}

// @ob name=c_sub_bytes props=C03,C02,C17,C20 cfg=default,compact fn=aes::soft::fixslice::sub_bytes timeout=600
leaf!(c_sub_bytes, sub_bytes, spec_sub_bytes, cadical);
// @ob name=c_sub_bytes_nots props=C02,C17,C20 fn=aes::soft::fixslice::sub_bytes_nots timeout=300
leaf!(c_sub_bytes_nots, sub_bytes_nots, spec_sub_bytes_nots, cadical);
// @ob name=c_inv_sub_bytes props=C03,C02,C17,C20 cfg=default,compact fn=aes::soft::fixslice::inv_sub_bytes timeout=600
leaf!(c_inv_sub_bytes, inv_sub_bytes, spec_inv_sub_bytes, cadical);
// @ob name=c_mix_columns_0 props=C03,C02,C17,C20 cfg=default,compact fn=aes::soft::fixslice::mix_columns_0 timeout=600
leaf!(c_mix_columns_0, mix_columns_0, spec_mix_columns_0, cadical);
// @ob name=c_mix_columns_1 props=C03,C02,C20 cfg=default,compact fn=aes::soft::fixslice::mix_columns_1 timeout=600
leaf!(c_mix_columns_1, mix_columns_1, spec_mix_columns_1, cadical);
// @ob name=c_mix_columns_2 props=C02,C20 fn=aes::soft::fixslice::mix_columns_2 timeout=600
#[cfg(not(aes_compact))]
leaf!(c_mix_columns_2, mix_columns_2, spec_mix_columns_2, cadical);
// @ob name=c_mix_columns_3 props=C02,C20 fn=aes::soft::fixslice::mix_columns_3 timeout=600
#[cfg(not(aes_compact))]
leaf!(c_mix_columns_3, mix_columns_3, spec_mix_columns_3, cadical);
// @ob name=c_inv_mix_columns_0 props=C03,C02,C17,C20 cfg=default,compact fn=aes::soft::fixslice::inv_mix_columns_0 timeout=600
leaf!(c_inv_mix_columns_0, inv_mix_columns_0, spec_inv_mix_columns_0, cadical);
// @ob name=c_inv_mix_columns_1 props=C03,C02,C20 cfg=default,compact fn=aes::soft::fixslice::inv_mix_columns_1 timeout=600
leaf!(c_inv_mix_columns_1, inv_mix_columns_1, spec_inv_mix_columns_1, cadical);
// @ob name=c_inv_mix_columns_2 props=C02,C20 fn=aes::soft::fixslice::inv_mix_columns_2 timeout=600
#[cfg(not(aes_compact))]
leaf!(c_inv_mix_columns_2, inv_mix_columns_2, spec_inv_mix_columns_2, cadical);
// @ob name=c_inv_mix_columns_3 props=C02,C20 fn=aes::soft::fixslice::inv_mix_columns_3 timeout=600
#[cfg(not(aes_compact))]
leaf!(c_inv_mix_columns_3, inv_mix_columns_3, spec_inv_mix_columns_3, cadical);
// @ob name=c_shift_rows_2 props=C03,C02,C20 cfg=default,compact fn=aes::soft::fixslice::shift_rows_2,aes::soft::fixslice::inv_shift_rows_2 timeout=300
leaf!(c_shift_rows_2, shift_rows_2, spec_shift_rows_2, cadical);
// @ob name=c_inv_shift_rows_1 props=C03,C02,C20 cfg=default,compact fn=aes::soft::fixslice::inv_shift_rows_1,aes::soft::fixslice::shift_rows_3 timeout=300
leaf!(c_inv_shift_rows_1, inv_shift_rows_1, spec_shift_rows_3, cadical);
// @ob name=c_inv_shift_rows_3 props=C02,C20 fn=aes::soft::fixslice::inv_shift_rows_3,aes::soft::fixslice::shift_rows_1 timeout=300
#[cfg(not(aes_compact))]
leaf!(c_inv_shift_rows_3, inv_shift_rows_3, spec_shift_rows_1, cadical);
