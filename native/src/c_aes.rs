//! aes: the nine exported types against FIPS-197 (bcref::aes), C02; Enc/Dec family properties C12/C13/C16/C19;
//! hazmat round functions C17.  Built again under `--cfg aes_force_soft` and `--cfg aes_force_soft --cfg aes_compact`
//! (without them: runtime detection, AES-NI on this host).
use crate::generic::*;
use crate::util::*;
use aes::{Aes128, Aes128Dec, Aes128Enc, Aes192, Aes192Dec, Aes192Enc, Aes256, Aes256Dec, Aes256Enc};
use bcref::aes as r;
use cipher::{AlgorithmName, BlockCipherDecrypt, BlockCipherEncrypt, Key, KeyInit};
use core::fmt::Debug;

fn ref128(k: &[u8], b: &[u8], dec: bool) -> Option<Vec<u8>> {
    Some(if dec { r::aes128_decrypt(&arr(k), &arr(b)) } else { r::aes128_encrypt(&arr(k), &arr(b)) }.to_vec())
}
fn ref192(k: &[u8], b: &[u8], dec: bool) -> Option<Vec<u8>> {
    Some(if dec { r::aes192_decrypt(&arr(k), &arr(b)) } else { r::aes192_encrypt(&arr(k), &arr(b)) }.to_vec())
}
fn ref256(k: &[u8], b: &[u8], dec: bool) -> Option<Vec<u8>> {
    Some(if dec { r::aes256_decrypt(&arr(k), &arr(b)) } else { r::aes256_encrypt(&arr(k), &arr(b)) }.to_vec())
}

/// "at least one bit in the upper half of the key must be set": weak iff the first half of the key bytes is zero
fn upper_half_zero(k: &[u8]) -> bool {
    k[..k.len() / 2].iter().all(|&b| b == 0)
}
fn weak_cands(rng: &mut Rng, n: usize) -> Vec<Vec<u8>> {
    let mut v = Vec::new();
    v.push(vec![0u8; n]);
    for _ in 0..200 {
        // upper half zero, lower half random (weak)
        let mut k = rng.plain(n);
        for b in &mut k[..n / 2] {
            *b = 0;
        }
        v.push(k.clone());
        // exactly one bit of the upper half set, at a random position (not weak)
        let p = rng.below(8 * (n / 2));
        k[p / 8] |= 1 << (p % 8);
        if rng.chance(2) {
            for b in &mut k[n / 2..] {
                *b = 0;
            }
        }
        v.push(k);
    }
    // every single-bit position of the upper half once
    for p in 0..8 * (n / 2) {
        let mut k = vec![0u8; n];
        k[p / 8] |= 1 << (p % 8);
        v.push(k);
    }
    // only the first byte of the lower half set (still weak)
    let mut k = vec![0u8; n];
    k[n / 2] = 0x80;
    v.push(k);
    v
}

macro_rules! aes_size {
    ($c:ident, $e:ident, $d:ident, $dc:ident, $dnew:ident, $dref:ident, $dval:ident, $dconv:ident, $reff:ident, $kl:literal, $bits:literal, $halves:ident) => {
        desc!($dc: $c, "aes", stringify!($c), [$kl], "C02", [clone, debug, alg], names [stringify!($c)], alg ["aes", $bits],
            |k, b, dec| $reff(k, b, dec);
            fn expect_weak(k: &[u8]) -> bool { upper_half_zero(k) }
            fn weak_candidates(rng: &mut Rng) -> Vec<Vec<u8>> { weak_cands(rng, $kl) }
        );
        desc!($dnew: PairNew<$e, $d>, "aes", concat!(stringify!($e), "::new + ", stringify!($d), "::new"), [$kl], "C02", [], names [], alg [],
            |k, b, dec| $reff(k, b, dec); const WRAPPER: bool = true;);
        desc!($dref: PairFromRef<$e, $d>, "aes", concat!(stringify!($e), "::new + ", stringify!($d), "::from(&enc)"), [$kl], "C02", [], names [], alg [],
            |k, b, dec| $reff(k, b, dec); const WRAPPER: bool = true;);
        desc!($dval: PairFromVal<$e, $d>, "aes", concat!(stringify!($e), "::new + ", stringify!($d), "::from(enc)"), [$kl], "C02", [], names [], alg [],
            |k, b, dec| $reff(k, b, dec); const WRAPPER: bool = true;);
        desc!($dconv: PairFromRef<$e, $c>, "aes", concat!(stringify!($e), "::new + ", stringify!($c), "::from(&enc)"), [$kl], "C02", [], names [], alg [],
            |k, b, dec| $reff(k, b, dec); const WRAPPER: bool = true;);

        fn $halves() {
            visit::<$dc>();
            visit::<$dnew>();
            visit::<$dref>();
            visit::<$dval>();
            visit::<$dconv>();
            if want("C12") {
                c12_family::<$c, $e, $d>("aes", concat!(stringify!($c), "/", stringify!($e), "/", stringify!($d)));
            }
            let e_probe = |c: &$e, x: &[u8]| enc1(c, x);
            let d_probe = |c: &$d, x: &[u8]| dec1(c, x);
            if want("C11") {
                scope("aes", stringify!($e));
                set_prop("C11");
                c11_core::<$e>(&[$kl], &e_probe, 16, &mut Rng::for_label(concat!("C11/aes/", stringify!($e))));
                scope("aes", stringify!($d));
                set_prop("C11");
                c11_core::<$d>(&[$kl], &d_probe, 16, &mut Rng::for_label(concat!("C11/aes/", stringify!($d))));
            }
            if want("C13") {
                let mut rng = Rng::for_label(concat!("C13/aes/", stringify!($e)));
                scope("aes", stringify!($e));
                set_prop("C13");
                let cands = weak_cands(&mut rng, $kl);
                c13_core::<$e>(&upper_half_zero, cands, &e_probe, 16, &mut rng);
                let mut rng = Rng::for_label(concat!("C13/aes/", stringify!($d)));
                scope("aes", stringify!($d));
                set_prop("C13");
                let cands = weak_cands(&mut rng, $kl);
                c13_core::<$d>(&upper_half_zero, cands, &d_probe, 16, &mut rng);
            }
            if want("C16") {
                let mut rng = Rng::for_label(concat!("C16/aes/", stringify!($c)));
                let keys: Vec<Vec<u8>> = (0..8).map(|_| rng.plain($kl)).collect();
                
                scope("aes", stringify!($c));
                set_prop("C16");
                c16_core::<$c>(
                    &[
                        ("from(enc)", &|k| Some($c::from($e::new(kref::<$c>(k))))),
                        ("from(&enc)", &|k| Some($c::from(&$e::new(kref::<$c>(k))))),
                        ("from(&enc).clone()", &|k| Some($c::from(&$e::new(kref::<$c>(k))).clone())),
                        ("from(&enc.clone())", &|k| Some($c::from(&$e::new(kref::<$c>(k)).clone()))),
                    ],
                    &keys,
                );
                scope("aes", stringify!($e));
                set_prop("C16");
                c16_core::<$e>(&[("new", &|k| Some($e::new(kref::<$c>(k)))), ("clone", &|k| Some($e::new(kref::<$c>(k)).clone()))], &keys);
                scope("aes", stringify!($d));
                set_prop("C16");
                c16_core::<$d>(
                    &[
                        ("new", &|k| Some($d::new(kref::<$c>(k)))),
                        ("clone", &|k| Some($d::new(kref::<$c>(k)).clone())),
                        ("from(enc)", &|k| Some($d::from($e::new(kref::<$c>(k))))),
                        ("from(&enc)", &|k| Some($d::from(&$e::new(kref::<$c>(k))))),
                        ("from(&enc).clone()", &|k| Some($d::from(&$e::new(kref::<$c>(k))).clone())),
                    ],
                    &keys,
                );
            }
            if want("C19") {
                let mut rng = Rng::for_label(concat!("C19/aes/", stringify!($c)));
                let keys: Vec<Vec<u8>> = (0..12).map(|_| rng.bytes($kl)).collect();
                let key = |k: &[u8]| Key::<$c>::try_from(k).unwrap();
                scope("aes", stringify!($e));
                set_prop("C19");
                let t: Vec<(Vec<u8>, String)> = keys.iter().map(|k| (k.clone(), format!("{:?}", $e::new(&key(k))))).collect();
                c19_debug_core(&t, &[stringify!($e)]);
                c19_alg_core(&alg_name_of::<$e>(), &["aes", $bits]);
                scope("aes", stringify!($d));
                set_prop("C19");
                let mut t: Vec<(Vec<u8>, String)> = keys.iter().map(|k| (k.clone(), format!("{:?}", $d::new(&key(k))))).collect();
                t.extend(keys.iter().map(|k| (k.clone(), format!("{:?}", $d::from(&$e::new(&key(k)))))));
                c19_debug_core(&t, &[stringify!($d)]);
                c19_alg_core(&alg_name_of::<$d>(), &["aes", $bits]);
                scope("aes", stringify!($c));
                set_prop("C19");
                let t: Vec<(Vec<u8>, String)> = keys.iter().map(|k| (k.clone(), format!("{:?}", $c::from(&$e::new(&key(k)))))).collect();
                c19_debug_core(&t, &[stringify!($c)]);
            }
        }
    };
}
aes_size!(Aes128, Aes128Enc, Aes128Dec, D128, D128New, D128Ref, D128Val, D128Conv, ref128, 16usize, "128", run128);
aes_size!(Aes192, Aes192Enc, Aes192Dec, D192, D192New, D192Ref, D192Val, D192Conv, ref192, 24usize, "192", run192);
aes_size!(Aes256, Aes256Enc, Aes256Dec, D256, D256New, D256Ref, D256Val, D256Conv, ref256, 32usize, "256", run256);

fn hazmat() {
    use aes::hazmat;
    use aes::Block;
    use aes::hazmat::Block8;
    scope("aes", "hazmat");
    set_prop("C17");
    let mut rng = Rng::for_label("C17/aes/hazmat");
    let blk = |b: &[u8]| Block::try_from(b).unwrap();
    for _ in 0..iters() * 4 {
        let b = rng.bytes(16);
        let k = rng.bytes(16);
        input(&[("block", &b), ("round_key", &k)]);
        guard("hazmat single-block functions", || {
            let mut x = blk(&b);
            hazmat::cipher_round(&mut x, &blk(&k));
            check_eq("cipher_round != MixColumns(ShiftRows(SubBytes(block))) ^ key", x.as_slice(), &r::cipher_round(&arr(&b), &arr(&k)));
            let mut x = blk(&b);
            hazmat::equiv_inv_cipher_round(&mut x, &blk(&k));
            check_eq(
                "equiv_inv_cipher_round != InvMixColumns(InvShiftRows(InvSubBytes(block))) ^ key",
                x.as_slice(),
                &r::equiv_inv_cipher_round(&arr(&b), &arr(&k)),
            );
            let mut x = blk(&b);
            hazmat::mix_columns(&mut x);
            check_eq("mix_columns != MixColumns", x.as_slice(), &r::mix_columns(&arr(&b)));
            hazmat::inv_mix_columns(&mut x);
            check_eq("inv_mix_columns(mix_columns(x)) != x", x.as_slice(), &b);
            let mut x = blk(&b);
            hazmat::inv_mix_columns(&mut x);
            check_eq("inv_mix_columns != InvMixColumns", x.as_slice(), &r::inv_mix_columns(&arr(&b)));
            hazmat::mix_columns(&mut x);
            check_eq("mix_columns(inv_mix_columns(x)) != x", x.as_slice(), &b);
        });
    }
    for _ in 0..iters() {
        let b = rng.bytes(128);
        let k = rng.bytes(128);
        input(&[("blocks", &b), ("round_keys", &k)]);
        guard("hazmat parallel functions", || {
            let mk8 = |v: &[u8]| -> Block8 {
                let mut a = Block8::default();
                for i in 0..8 {
                    a[i] = blk(&v[16 * i..16 * i + 16]);
                }
                a
            };
            let flat = |a: &Block8| -> Vec<u8> { a.iter().flat_map(|x| x.as_slice().to_vec()).collect() };
            for inv in [false, true] {
                let mut par = mk8(&b);
                let keys = mk8(&k);
                if inv { hazmat::equiv_inv_cipher_round_par(&mut par, &keys) } else { hazmat::cipher_round_par(&mut par, &keys) }
                let mut single = Vec::new();
                let mut want_ = Vec::new();
                for i in 0..8 {
                    let mut x = blk(&b[16 * i..16 * i + 16]);
                    let kk = blk(&k[16 * i..16 * i + 16]);
                    if inv { hazmat::equiv_inv_cipher_round(&mut x, &kk) } else { hazmat::cipher_round(&mut x, &kk) }
                    single.extend(x.as_slice());
                    let rr = if inv {
                        r::equiv_inv_cipher_round(&arr(&b[16 * i..16 * i + 16]), &arr(&k[16 * i..16 * i + 16]))
                    } else {
                        r::cipher_round(&arr(&b[16 * i..16 * i + 16]), &arr(&k[16 * i..16 * i + 16]))
                    };
                    want_.extend(rr);
                }
                let name = if inv { "equiv_inv_cipher_round_par" } else { "cipher_round_par" };
                check_eq(&format!("{} differs from eight single calls", name), &flat(&par), &single);
                check_eq(&format!("{} differs from FIPS-197", name), &flat(&par), &want_);
                if flat(&keys) != k {
                    fail(&format!("{} modified the round keys", name), &hex(&flat(&keys)), &hex(&k));
                }
            }
        });
    }
}

pub fn run() {
    run128();
    run192();
    run256();
    if want("C17") {
        hazmat();
    }
}
