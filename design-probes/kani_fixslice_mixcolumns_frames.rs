use super::*;
fn xtime(x: u8) -> u8 { (x << 1) ^ (if x & 0x80 != 0 { 0x1b } else { 0 }) }
// byte index = 4*col + row
fn sr(s: &[u8; 16]) -> [u8; 16] { let mut t = [0u8; 16]; let mut c = 0; while c < 4 { let mut r = 0; while r < 4 { t[4*c + r] = s[4*((c + r) % 4) + r]; r += 1; } c += 1; } t }
fn isr(s: &[u8; 16]) -> [u8; 16] { let mut t = [0u8; 16]; let mut c = 0; while c < 4 { let mut r = 0; while r < 4 { t[4*((c + r) % 4) + r] = s[4*c + r]; r += 1; } c += 1; } t }
fn mc(t: &[u8; 16]) -> [u8; 16] {
    let mut o = [0u8; 16]; let mut c = 0;
    while c < 4 {
        let a = [t[4*c], t[4*c+1], t[4*c+2], t[4*c+3]];
        o[4*c]   = xtime(a[0]) ^ (xtime(a[1]) ^ a[1]) ^ a[2] ^ a[3];
        o[4*c+1] = a[0] ^ xtime(a[1]) ^ (xtime(a[2]) ^ a[2]) ^ a[3];
        o[4*c+2] = a[0] ^ a[1] ^ xtime(a[2]) ^ (xtime(a[3]) ^ a[3]);
        o[4*c+3] = (xtime(a[0]) ^ a[0]) ^ a[1] ^ a[2] ^ xtime(a[3]);
        c += 1;
    }
    o
}
fn isr_n(s: &[u8;16], n: usize) -> [u8;16] { let mut t = *s; let mut i = 0; while i < n { t = isr(&t); i += 1; } t }
fn sr_n(s: &[u8;16], n: usize) -> [u8;16] { let mut t = *s; let mut i = 0; while i < n { t = sr(&t); i += 1; } t }

// hypothesis H1: frame k-1 -> k : D(mix_columns_1(x)) == ISR^1( MC( SR( SR^0 D(x) ) ) )
#[kani::proof]
#[kani::unwind(17)]
fn mc1_hyp() {
    let st: [u64; 8] = kani::any();
    let a = inv_bitslice(&st);
    let mut s = st; mix_columns_1(&mut s);
    let b = inv_bitslice(&s);
    let j: usize = kani::any(); kani::assume(j < 4);
    let expect = isr_n(&mc(&sr(&a[j].0)), 1);
    assert!(b[j].0 == expect);
}
// H2: input in frame 1 (D = ISR^1 T): D(mix_columns_2(x)) == ISR^2( MC( SR( SR^1 D(x) ) ) )
#[kani::proof]
#[kani::unwind(17)]
fn mc2_hyp() {
    let st: [u64; 8] = kani::any();
    let a = inv_bitslice(&st);
    let mut s = st; mix_columns_2(&mut s);
    let b = inv_bitslice(&s);
    let j: usize = kani::any(); kani::assume(j < 4);
    let expect = isr_n(&mc(&sr(&sr_n(&a[j].0, 1))), 2);
    assert!(b[j].0 == expect);
}
#[kani::proof]
#[kani::unwind(17)]
fn mc3_hyp() {
    let st: [u64; 8] = kani::any();
    let a = inv_bitslice(&st);
    let mut s = st; mix_columns_3(&mut s);
    let b = inv_bitslice(&s);
    let j: usize = kani::any(); kani::assume(j < 4);
    let expect = isr_n(&mc(&sr(&sr_n(&a[j].0, 2))), 3);
    assert!(b[j].0 == expect);
}
#[kani::proof]
#[kani::unwind(17)]
fn mc0_hyp() {
    let st: [u64; 8] = kani::any();
    let a = inv_bitslice(&st);
    let mut s = st; mix_columns_0(&mut s);
    let b = inv_bitslice(&s);
    let j: usize = kani::any(); kani::assume(j < 4);
    let expect = mc(&sr(&sr_n(&a[j].0, 3)));
    assert!(b[j].0 == expect);
}
