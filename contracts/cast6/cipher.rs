// Contracts on cast6/src/lib.rs against RFC 2612 (bcref::cast6): forward_quad (Q), reverse_quad (QBAR),
// forward_octave (W) -- which contain the three round functions f1!/f2!/f3! --, the constant tables, key_schedule,
// the word conversions and the two block functions.  The block functions are proved for EVERY value of the 12 x 4
// masking and rotation keys (rotation bytes >= 32 included: only the 5 low bits matter on both sides), against the
// contracts of forward_quad / reverse_quad (spec-function stubs).
//
// @module file=cast6/src/lib.rs
use super::*;
use bcref::cast6 as r;
use cipher::Array;
include!("@VERIF@/contracts/serpent/sched_uf.inc");

// forward_quad / reverse_quad / forward_octave as scheduled uninterpreted functions (see sched_uf.inc), shared by the
// real callee and the reference's: by c_forward_quad, c_reverse_quad, c_forward_octave they are the same functions of
// (state words, masking keys, rotation keys).
type QArg = ([u32; 4], [u32; 4], [u8; 4]);
fn eq_qarg(a: &QArg, b: &QArg) -> bool { eq4(&a.0, &b.0) && eq4(&a.1, &b.1) && u32::from_le_bytes(a.2) == u32::from_le_bytes(b.2) }
type WArg = ([u32; 8], [u32; 8], [u8; 8]);
fn eq_warg(a: &WArg, b: &WArg) -> bool {
    let mut ok = u64::from_le_bytes(a.2) == u64::from_le_bytes(b.2);
    let mut i = 0;
    while i < 8 {
        ok &= a.0[i] == b.0[i] && a.1[i] == b.1[i];
        i += 1;
    }
    ok
}
sched_uf!(uf_q, QArg, ([0; 4], [0; 4], [0; 4]), [u32; 4], [0; 4], 6, eq_qarg);
sched_uf!(uf_qb, QArg, ([0; 4], [0; 4], [0; 4]), [u32; 4], [0; 4], 6, eq_qarg);
sched_uf!(uf_w, WArg, ([0; 8], [0; 8], [0; 8]), [u32; 8], [0; 8], 24, eq_warg);
pub fn st_q_real(beta: &mut [u32; 4], m: &[u32; 4], rot: &[u8; 4]) { *beta = uf_q::call((*beta, *m, *rot)); }
pub fn st_qb_real(beta: &mut [u32; 4], m: &[u32; 4], rot: &[u8; 4]) { *beta = uf_qb::call((*beta, *m, *rot)); }
fn st_q_ref(beta: [u32; 4], kr: &[u8; 4], km: &[u32; 4]) -> [u32; 4] { uf_q::call((beta, *km, *kr)) }
fn st_qb_ref(beta: [u32; 4], kr: &[u8; 4], km: &[u32; 4]) -> [u32; 4] { uf_qb::call((beta, *km, *kr)) }
pub fn st_w_real(kappa: &mut [u32; 8], m: &[u32], rot: &[u8]) {
    let tm = [m[0], m[1], m[2], m[3], m[4], m[5], m[6], m[7]];
    let tr = [rot[0], rot[1], rot[2], rot[3], rot[4], rot[5], rot[6], rot[7]];
    *kappa = uf_w::call((*kappa, tm, tr));
}
fn st_w_ref(kappa: [u32; 8], tr: &[u8; 8], tm: &[u32; 8]) -> [u32; 8] { uf_w::call((kappa, *tm, *tr)) }
fn replay_all() {
    uf_q::replay_same_order();
    uf_qb::replay_same_order();
    uf_w::replay_same_order();
}

pub fn any_cast6() -> Cast6 { Cast6 { masking: kani::any(), rotate: kani::any() } }
pub fn keyed_of(c: &Cast6) -> r::Keyed { r::Keyed { kr: c.rotate, km: c.masking } }
pub fn eq4(a: &[u32; 4], b: &[u32; 4]) -> bool { (a[0] == b[0]) & (a[1] == b[1]) & (a[2] == b[2]) & (a[3] == b[3]) }
pub fn eq_keyed(c: &Cast6, kd: &r::Keyed) -> bool {
    let mut ok = true;
    let mut i = 0;
    while i < 12 {
        ok &= eq4(&c.masking[i], &kd.km[i]);
        ok &= u32::from_le_bytes(c.rotate[i]) == u32::from_le_bytes(kd.kr[i]);
        i += 1;
    }
    ok
}

// ------------------------------------------------------------------ spec functions (contracts of the helpers)
pub fn spec_forward_quad(beta: &mut [u32; 4], m: &[u32; 4], rot: &[u8; 4]) { *beta = r::q(*beta, rot, m); }
pub fn spec_reverse_quad(beta: &mut [u32; 4], m: &[u32; 4], rot: &[u8; 4]) { *beta = r::qbar(*beta, rot, m); }
pub fn spec_forward_octave(kappa: &mut [u32; 8], m: &[u32], rot: &[u8]) {
    let tm = [m[0], m[1], m[2], m[3], m[4], m[5], m[6], m[7]];
    let tr = [rot[0], rot[1], rot[2], rot[3], rot[4], rot[5], rot[6], rot[7]];
    *kappa = r::w(*kappa, &tr, &tm);
}

// ------------------------------------------------------------------ tables
// The S-boxes the real code uses are entry by entry the reference's (snapshot fidelity), and TM / TR are the values
// of the RFC 2612 2.4 recurrence (Cm, Mm, Cr, Mr), in the layout key_schedule indexes them.
// @ob name=x_tables props=C08 kind=exhaustive fn=cast6::consts::S1,cast6::consts::S2,cast6::consts::S3,cast6::consts::S4,cast6::consts::TM,cast6::consts::TR timeout=300
#[kani::proof]
#[kani::unwind(257)]
fn x_tables() {
    let mut i = 0;
    while i < 256 {
        assert!(S1[i] == r::S1[i] && S2[i] == r::S2[i] && S3[i] == r::S3[i] && S4[i] == r::S4[i]);
        i += 1;
    }
    let mut i = 0;
    while i < 24 {
        let mut j = 0;
        while j < 8 {
            assert!(TM[8 * i + j] == r::TM[i][j]);
            // key_schedule reads TR at 16 * ((i / 2) % 2) + 8 * (i % 2) + j for octave i
            assert!(TR[16 * ((i / 2) % 2) + 8 * (i % 2) + j] == r::TR[i][j]);
            j += 1;
        }
        i += 1;
    }
}

// ------------------------------------------------------------------ helpers
// (table look-ups: z3 decides these in seconds, the SAT back ends need many minutes)
// @ob name=c_forward_quad props=C08,C20 solver=z3 fn=cast6::forward_quad timeout=600
#[kani::proof]
#[kani::solver(z3)]
fn c_forward_quad() {
    let mut beta: [u32; 4] = kani::any();
    let m: [u32; 4] = kani::any();
    let rot: [u8; 4] = kani::any();
    let want = r::q(beta, &rot, &m);
    forward_quad(&mut beta, &m, &rot);
    assert!(eq4(&beta, &want));
}
// @ob name=c_reverse_quad props=C08,C20 solver=z3 fn=cast6::reverse_quad timeout=600
#[kani::proof]
#[kani::solver(z3)]
fn c_reverse_quad() {
    let mut beta: [u32; 4] = kani::any();
    let m: [u32; 4] = kani::any();
    let rot: [u8; 4] = kani::any();
    let want = r::qbar(beta, &rot, &m);
    reverse_quad(&mut beta, &m, &rot);
    assert!(eq4(&beta, &want));
}
// @ob name=c_forward_octave props=C08,C20 solver=z3 fn=cast6::forward_octave timeout=600
#[kani::proof]
#[kani::solver(z3)]
fn c_forward_octave() {
    let mut kappa: [u32; 8] = kani::any();
    let m: [u32; 8] = kani::any();
    let rot: [u8; 8] = kani::any();
    let want = r::w(kappa, &rot, &m);
    forward_octave(&mut kappa, &m[..], &rot[..]);
    assert!(eq4(&[kappa[0], kappa[1], kappa[2], kappa[3]], &[want[0], want[1], want[2], want[3]]));
    assert!(eq4(&[kappa[4], kappa[5], kappa[6], kappa[7]], &[want[4], want[5], want[6], want[7]]));
}
// Q and QBAR under the same keys are mutually inverse (real functions, every key, both orders)
// (direct form, on the real code with its table look-ups: z3; cadical / kissat > 10 min)
// @ob name=l_quad_inverse_real props=C01 kind=lemma solver=z3 fn=cast6::forward_quad,cast6::reverse_quad timeout=600
#[kani::proof]
#[kani::solver(z3)]
fn l_quad_inverse_real() {
    let x: [u32; 4] = kani::any();
    let m: [u32; 4] = kani::any();
    let rot: [u8; 4] = kani::any();
    let mut b = x;
    forward_quad(&mut b, &m, &rot);
    reverse_quad(&mut b, &m, &rot);
    assert!(eq4(&b, &x));
    reverse_quad(&mut b, &m, &rot);
    forward_quad(&mut b, &m, &rot);
    assert!(eq4(&b, &x));
}

// The same fact on the reference quad-rounds (which the real ones equal by c_forward_quad / c_reverse_quad) with the
// round functions f1, f2, f3 uninterpreted: QBAR undoes Q (and Q undoes QBAR) whatever the three functions are.
type FArg = (u8, u32, u8, u32);
fn eq_farg(a: &FArg, b: &FArg) -> bool { a.0 == b.0 && a.1 == b.1 && a.2 == b.2 && a.3 == b.3 }
sched_uf!(uf_f, FArg, (0, 0, 0, 0), u32, 0, 4, eq_farg);
fn st_f1(d: u32, kr: u8, km: u32) -> u32 { uf_f::call((1, d, kr, km)) }
fn st_f2(d: u32, kr: u8, km: u32) -> u32 { uf_f::call((2, d, kr, km)) }
fn st_f3(d: u32, kr: u8, km: u32) -> u32 { uf_f::call((3, d, kr, km)) }
fn reversed4(c: usize) -> usize { 3 - c }
// @ob name=l_quad_inverse_ref props=C01 kind=lemma fn=cast6::forward_quad,cast6::reverse_quad uses=c_forward_quad,c_reverse_quad timeout=300
#[kani::proof]
#[kani::stub(bcref::cast6::f1, st_f1)]
#[kani::stub(bcref::cast6::f2, st_f2)]
#[kani::stub(bcref::cast6::f3, st_f3)]
#[kani::unwind(6)]
fn l_quad_inverse_ref() {
    let x: [u32; 4] = kani::any();
    let m: [u32; 4] = kani::any();
    let rot: [u8; 4] = kani::any();
    if kani::any() {
        let y = r::q(x, &rot, &m);
        uf_f::replay_with(reversed4);
        assert!(eq4(&r::qbar(y, &rot, &m), &x));
    } else {
        let y = r::qbar(x, &rot, &m);
        uf_f::replay_with(reversed4);
        assert!(eq4(&r::q(y, &rot, &m), &x));
    }
}

// @ob name=c_word_conversions props=C08,C20 fn=cast6::to_u32s,cast6::to_u8s timeout=300
#[kani::proof]
#[kani::unwind(34)]
fn c_word_conversions() {
    let b: [u8; 16] = kani::any();
    assert!(eq4(&to_u32s::<4>(&b[..]), &r::words_of(&b)));
    let w: [u32; 4] = kani::any();
    assert!(to_u8s::<16>(&w[..]) == r::bytes_of(&w));
    let k: [u8; 32] = kani::any();
    let kw = to_u32s::<8>(&k[..]);
    let mut i = 0;
    while i < 8 {
        assert!(kw[i] == u32::from_be_bytes([k[4 * i], k[4 * i + 1], k[4 * i + 2], k[4 * i + 3]]));
        i += 1;
    }
}

// key_schedule from ANY prior state, for every 256-bit (padded) key
// @ob name=c_key_schedule props=C08,C20 fn=cast6::Cast6::key_schedule uses=c_forward_octave,x_tables timeout=900
#[kani::proof]
#[kani::stub(forward_octave, st_w_real)]
#[kani::stub(bcref::cast6::w, st_w_ref)]
#[kani::unwind(25)]
fn c_key_schedule() {
    let key: [u8; 32] = kani::any();
    let mut c = any_cast6();
    c.key_schedule(&key);
    replay_all();
    let kd = r::key_schedule(&key);
    assert!(eq_keyed(&c, &kd));
    // what the key schedule leaves in `rotate` are 5-bit amounts
    let mut i = 0;
    while i < 12 {
        assert!(c.rotate[i][0] < 32 && c.rotate[i][1] < 32 && c.rotate[i][2] < 32 && c.rotate[i][3] < 32);
        i += 1;
    }
}

// ------------------------------------------------------------------ block functions
// @ob name=c_encrypt_block props=C08,C20 fn=cast6::Cast6::encrypt_block uses=c_forward_quad,c_reverse_quad,c_word_conversions timeout=900
#[kani::proof]
#[kani::stub(forward_quad, st_q_real)]
#[kani::stub(bcref::cast6::q, st_q_ref)]
#[kani::stub(reverse_quad, st_qb_real)]
#[kani::stub(bcref::cast6::qbar, st_qb_ref)]
#[kani::unwind(25)]
fn c_encrypt_block() {
    let c = any_cast6();
    let b: [u8; 16] = kani::any();
    let mut blk = Array(b);
    cipher::BlockCipherEncrypt::encrypt_block(&c, &mut blk);
    replay_all();
    assert!(eq4(&r::words_of(&blk.0), &r::encrypt_words(&keyed_of(&c), r::words_of(&b))));
}
// @ob name=c_decrypt_block props=C08,C20 fn=cast6::Cast6::decrypt_block uses=c_forward_quad,c_reverse_quad,c_word_conversions timeout=900
#[kani::proof]
#[kani::stub(forward_quad, st_q_real)]
#[kani::stub(bcref::cast6::q, st_q_ref)]
#[kani::stub(reverse_quad, st_qb_real)]
#[kani::stub(bcref::cast6::qbar, st_qb_ref)]
#[kani::unwind(25)]
fn c_decrypt_block() {
    let c = any_cast6();
    let b: [u8; 16] = kani::any();
    let mut blk = Array(b);
    cipher::BlockCipherDecrypt::decrypt_block(&c, &mut blk);
    replay_all();
    assert!(eq4(&r::words_of(&blk.0), &r::decrypt_words(&keyed_of(&c), r::words_of(&b))));
}

/// Over-approximation of "forward_quad(m, rot) and reverse_quad(m, rot) are mutually inverse": during the first block
/// operation every call returns an unconstrained value and is recorded (direction, keys, argument, result); during the
/// second block operation the c-th call consults exactly ONE recorded call, the last one not yet consulted (a stack:
/// the second operation undoes the quad-rounds of the first in reverse order) and, if that call had the opposite
/// direction, the same keys and produced the present argument, returns that call's argument; otherwise an
/// unconstrained value.  Every behaviour of the real pair is included, by l_quad_inverse_ref / l_quad_inverse_real (both orders) and
/// c_forward_quad / c_reverse_quad (pure functions of (beta, m, rot)).
pub mod ufq {
    use super::eq4;
    pub static mut FWD: [bool; 12] = [false; 12];
    pub static mut KM: [[u32; 4]; 12] = [[0; 4]; 12];
    pub static mut KR: [u32; 12] = [0; 12];
    pub static mut A: [[u32; 4]; 12] = [[0; 4]; 12];
    pub static mut B: [[u32; 4]; 12] = [[0; 4]; 12];
    pub static mut CALLS: usize = 0;
    #[allow(static_mut_refs)]
    fn any(fwd: bool, beta: &mut [u32; 4], m: &[u32; 4], rot: &[u8; 4]) {
        unsafe {
            let c = CALLS;
            CALLS += 1;
            assert!(c < 24);
            let kr = u32::from_le_bytes(*rot);
            let mut y: [u32; 4] = kani::any();
            if c < 12 {
                FWD[c] = fwd; KM[c] = *m; KR[c] = kr; A[c] = *beta; B[c] = y;
            } else {
                let j = 23 - c;
                if FWD[j] != fwd && eq4(&KM[j], m) && KR[j] == kr && eq4(&B[j], beta) { y = A[j]; }
            }
            *beta = y;
        }
    }
    pub fn fwd(beta: &mut [u32; 4], m: &[u32; 4], rot: &[u8; 4]) { any(true, beta, m, rot) }
    pub fn rev(beta: &mut [u32; 4], m: &[u32; 4], rot: &[u8; 4]) { any(false, beta, m, rot) }
}
// C01 for every value of the 48 + 48 round keys
// @ob name=l_roundtrip_ed props=C01 kind=lemma fn=cast6::Cast6::encrypt_block,cast6::Cast6::decrypt_block uses=c_forward_quad,c_reverse_quad,l_quad_inverse_ref timeout=900
#[kani::proof]
#[kani::stub(forward_quad, ufq::fwd)]
#[kani::stub(reverse_quad, ufq::rev)]
#[kani::unwind(27)]
fn l_roundtrip_ed() {
    let c = any_cast6();
    let b: [u8; 16] = kani::any();
    let mut blk = Array(b);
    cipher::BlockCipherEncrypt::encrypt_block(&c, &mut blk);
    cipher::BlockCipherDecrypt::decrypt_block(&c, &mut blk);
    assert!(blk.0 == b);
}
// @ob name=l_roundtrip_de props=C01 kind=lemma fn=cast6::Cast6::encrypt_block,cast6::Cast6::decrypt_block uses=c_forward_quad,c_reverse_quad,l_quad_inverse_ref timeout=900
#[kani::proof]
#[kani::stub(forward_quad, ufq::fwd)]
#[kani::stub(reverse_quad, ufq::rev)]
#[kani::unwind(27)]
fn l_roundtrip_de() {
    let c = any_cast6();
    let b: [u8; 16] = kani::any();
    let mut blk = Array(b);
    cipher::BlockCipherDecrypt::decrypt_block(&c, &mut blk);
    cipher::BlockCipherEncrypt::encrypt_block(&c, &mut blk);
    assert!(blk.0 == b);
}

// ------------------------------------------------------------------ public API on bytes
// KeyInit::new_from_slice + encrypt_block / decrypt_block == CAST-256 of RFC 2612 on bytes, for every key of the five
// lengths (SYMBOLIC length, zero padding included) and every block.  Nothing of the real code is skipped except the
// callees forward_octave, forward_quad, reverse_quad, which (with their reference counterparts) are uninterpreted.
macro_rules! api_ob {
    ($name:ident, $tr:ident, $f:ident, $rf:ident) => {
        #[kani::proof]
        #[kani::stub(forward_octave, st_w_real)]
        #[kani::stub(bcref::cast6::w, st_w_ref)]
        #[kani::stub(forward_quad, st_q_real)]
        #[kani::stub(bcref::cast6::q, st_q_ref)]
        #[kani::stub(reverse_quad, st_qb_real)]
        #[kani::stub(bcref::cast6::qbar, st_qb_ref)]
        #[kani::unwind(34)]
        fn $name() {
            let buf: [u8; 32] = kani::any();
            let n: usize = kani::any();
            kani::assume(n == 16 || n == 20 || n == 24 || n == 28 || n == 32);
            kani::cover!(n == 16);
            kani::cover!(n == 20);
            kani::cover!(n == 32);
            let b: [u8; 16] = kani::any();
            let c = <Cast6 as KeyInit>::new_from_slice(&buf[..n]).unwrap();
            let mut blk = Array(b);
            cipher::$tr::$f(&c, &mut blk);
            replay_all();
            assert!(blk.0 == r::$rf(&buf, n, &b));
        }
    };
}
// @ob name=c_api_enc props=C08,C20 fn=cast6::Cast6::new_from_slice,cast6::Cast6::key_schedule,cast6::Cast6::encrypt_block uses=c_forward_octave,c_forward_quad,c_reverse_quad,x_tables timeout=900
api_ob!(c_api_enc, BlockCipherEncrypt, encrypt_block, encrypt);
// @ob name=c_api_dec props=C08,C20 fn=cast6::Cast6::new_from_slice,cast6::Cast6::key_schedule,cast6::Cast6::decrypt_block uses=c_forward_octave,c_forward_quad,c_reverse_quad,x_tables timeout=900
api_ob!(c_api_dec, BlockCipherDecrypt, decrypt_block, decrypt);
