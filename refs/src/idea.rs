//! (reference for idea: to be written)
