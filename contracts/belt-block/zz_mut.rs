// TEMPORARY sanity mutations (deliverable D): every harness here states something FALSE and must be refuted.
// @module file=belt-block/src/lib.rs
// @config name=default rustflags="--cap-lints warn"
use super::*;
use crate::__vp_lib::{eq4, eq_bytes, tr};
use bcref::belt as spec;

// @ob name=zz_key_idx_off_by_one props=C07 fn=belt_block::key_idx timeout=120
#[kani::proof]
#[kani::unwind(10)]
fn zz_key_idx_off_by_one() {
    let key: [u32; 8] = kani::any();
    let i: usize = kani::any();
    let delta: usize = kani::any();
    kani::assume(1 <= i && i <= 8 && delta <= 6);
    assert!(key_idx(&key, i, delta).0 == spec::round_key(&key, 7 * i - delta + 1));
}

// @ob name=zz_g5_is_g13 props=C07 fn=belt_block::g5 timeout=120
#[kani::proof]
#[kani::unwind(6)]
fn zz_g5_is_g13() {
    let u: u32 = kani::any();
    assert!(g5(Wrapping(u)).0 == spec::g(13, u));
}

// output words in the wrong order (Y = a||b||c||d instead of b||d||a||c)
// @ob name=zz_block_raw_swapped props=C07 fn=belt_block::belt_block_raw timeout=300
#[kani::proof]
#[kani::stub(g5, tr::g5)]
#[kani::stub(g13, tr::g13)]
#[kani::stub(g21, tr::g21)]
#[kani::stub(bcref::belt::g, tr::g)]
#[kani::unwind(10)]
fn zz_block_raw_swapped() {
    let key: [u32; 8] = kani::any();
    let x: [u32; 4] = kani::any();
    let y = belt_block_raw(x, &key);
    tr::replay(tr::FORWARD);
    let z = spec::encrypt_words(x, &key);
    assert!(eq4(&y, &[z[2], z[0], z[3], z[1]]));
}

// the reference replayed against the transcript in the wrong direction: the oracle's own assertions must fire
// @ob name=zz_block_raw_backward props=C07 fn=belt_block::belt_block_raw timeout=300
#[kani::proof]
#[kani::stub(g5, tr::g5)]
#[kani::stub(g13, tr::g13)]
#[kani::stub(g21, tr::g21)]
#[kani::stub(bcref::belt::g, tr::g)]
#[kani::unwind(10)]
fn zz_block_raw_backward() {
    let key: [u32; 8] = kani::any();
    let x: [u32; 4] = kani::any();
    let y = belt_block_raw(x, &key);
    tr::replay(tr::BACKWARD);
    let z = spec::encrypt_words(x, &key);
    assert!(eq4(&y, &z));
}

// 32 bytes is NOT too short (w_short with the enumeration extended to n = 32)
// @ob name=zz_wshort_32 props=C18 fn=belt_block::belt_wblock_enc timeout=600
#[kani::proof]
#[kani::stub(belt_block_raw, crate::__vp_lib::trb::block)]
#[kani::unwind(70)]
fn zz_wshort_32() {
    let key: [u32; 8] = kani::any();
    let arr: [u8; 32] = kani::any();
    let mut n = 0usize;
    while n <= 32 {
        let mut d = arr;
        assert!(belt_wblock_enc(&mut d[..n], &key).is_err());
        n += 1;
    }
}
