//! ARIA, written from RFC 5794 "A Description of the ARIA Encryption Algorithm" (March 2010), following the RFC's
//! own structure and names:
//!   section 2.2   key scheduling part (KL, KR, CK1..3, W0..W3, ek1..ek17, dk1..dk17, number of rounds)
//!   section 2.3.1 encryption process, 2.3.2 decryption process (same procedure with the dk)
//!   section 2.4.1 round functions FO, FE; 2.4.2 substitution layers SL1, SL2 (S-boxes SB1..SB4);
//!   section 2.4.3 diffusion layer A (sixteen byte equations y0..y15)
//!   appendix A    example data (unit tests below)
//! 128-bit strings are `u128` (byte x0 of the RFC = most significant byte); byte strings are big-endian.
//!
//! S-boxes.  The RFC prints SB1..SB4 as tables; all four are *computed* here from their definitions in the ARIA
//! specification (KISA, v1.0) the RFC refers to: SB1(x) = A . x^-1 + 0x63 (the AES S-box, FIPS 197 5.1.1),
//! SB2(x) = B . x^247 + 0xE2 over GF(2^8) = GF(2)[x]/(x^8+x^4+x^3+x+1), SB3 = SB1^-1, SB4 = SB2^-1.
//! The unit tests compare the computed tables with entries printed in RFC 5794 section 2.4.2.
//! The constants C1, C2, C3 (section 2.2) are typed in.

// ------------------------------------------------------------------ GF(2^8) and the S-boxes (section 2.4.2)
const fn gmul(a: u8, b: u8) -> u8 {
    let mut a = a as u16;
    let mut b = b;
    let mut r = 0u16;
    while b != 0 {
        if b & 1 != 0 {
            r ^= a;
        }
        a <<= 1;
        if a & 0x100 != 0 {
            a ^= 0x11B;
        }
        b >>= 1;
    }
    r as u8
}
/// x^254 = x^-1 (0 -> 0)
const fn ginv(x: u8) -> u8 {
    // 254 = 0b11111110
    let x2 = gmul(x, x);
    let x4 = gmul(x2, x2);
    let x8 = gmul(x4, x4);
    let x16 = gmul(x8, x8);
    let x32 = gmul(x16, x16);
    let x64 = gmul(x32, x32);
    let x128 = gmul(x64, x64);
    gmul(gmul(gmul(gmul(gmul(gmul(x2, x4), x8), x16), x32), x64), x128)
}
/// 8 x 8 bit matrix times bit vector; row i (given as a byte whose bit j is the coefficient of input bit j) gives output bit i.
const fn mat_apply(rows: &[u8; 8], x: u8) -> u8 {
    let mut y = 0u8;
    let mut i = 0;
    while i < 8 {
        y |= (((rows[i] & x).count_ones() & 1) as u8) << i;
        i += 1;
    }
    y
}
/// Affine matrix of SB1 (AES): b'_i = b_i + b_{i+4} + b_{i+5} + b_{i+6} + b_{i+7} (indices mod 8).
const MAT_A: [u8; 8] = [0xF1, 0xE3, 0xC7, 0x8F, 0x1F, 0x3E, 0x7C, 0xF8];
/// Affine matrix B of SB2 (ARIA specification), rows for output bits 0..7, coefficients of input bits 0..7:
///   0 1 0 1 1 1 1 0 / 0 0 1 1 1 1 0 1 / 1 1 0 1 0 1 1 1 / 1 0 0 1 1 1 0 1 /
///   0 0 1 0 1 1 0 0 / 1 0 0 0 0 0 0 1 / 0 1 0 1 1 1 0 1 / 1 1 0 1 0 0 1 1
const MAT_B: [u8; 8] = [0x7A, 0xBC, 0xEB, 0xB9, 0x34, 0x81, 0xBA, 0xCB];

const fn sb1_of(x: u8) -> u8 { mat_apply(&MAT_A, ginv(x)) ^ 0x63 }
const fn sb2_of(x: u8) -> u8 {
    // x^247 = (x^-1)^8
    let i = ginv(x);
    let i2 = gmul(i, i);
    let i4 = gmul(i2, i2);
    let i8 = gmul(i4, i4);
    mat_apply(&MAT_B, i8) ^ 0xE2
}
const fn tabulate(which: u8) -> [u8; 256] {
    let mut t = [0u8; 256];
    let mut i = 0;
    while i < 256 {
        let x = i as u8;
        match which {
            1 => t[i] = sb1_of(x),
            2 => t[i] = sb2_of(x),
            3 => t[sb1_of(x) as usize] = x,
            _ => t[sb2_of(x) as usize] = x,
        }
        i += 1;
    }
    t
}
pub const SB1: [u8; 256] = tabulate(1);
pub const SB2: [u8; 256] = tabulate(2);
/// SB3 = SB1^-1
pub const SB3: [u8; 256] = tabulate(3);
/// SB4 = SB2^-1
pub const SB4: [u8; 256] = tabulate(4);

// ------------------------------------------------------------------ section 2.2 constants
pub const C1: u128 = 0x517cc1b727220a94fe13abe8fa9a6ee0;
pub const C2: u128 = 0x6db14acc9e21c820ff28b1d5ef5de2b0;
pub const C3: u128 = 0xdb92371d2126e9700324977504e8c90e;

pub fn bytes(x: u128) -> [u8; 16] { x.to_be_bytes() }
pub fn word(x: &[u8; 16]) -> u128 { u128::from_be_bytes(*x) }

// ------------------------------------------------------------------ section 2.4.2 substitution layers
/// SL1(x0 .. x15) = SB1(x0) SB2(x1) SB3(x2) SB4(x3) SB1(x4) ... SB4(x15)
pub fn sl1(x128: u128) -> u128 {
    let x = bytes(x128);
    let mut y = [0u8; 16];
    let mut i = 0;
    while i < 4 {
        y[4 * i] = SB1[x[4 * i] as usize];
        y[4 * i + 1] = SB2[x[4 * i + 1] as usize];
        y[4 * i + 2] = SB3[x[4 * i + 2] as usize];
        y[4 * i + 3] = SB4[x[4 * i + 3] as usize];
        i += 1;
    }
    word(&y)
}
/// SL2(x0 .. x15) = SB3(x0) SB4(x1) SB1(x2) SB2(x3) SB3(x4) ... SB2(x15)
pub fn sl2(x128: u128) -> u128 {
    let x = bytes(x128);
    let mut y = [0u8; 16];
    let mut i = 0;
    while i < 4 {
        y[4 * i] = SB3[x[4 * i] as usize];
        y[4 * i + 1] = SB4[x[4 * i + 1] as usize];
        y[4 * i + 2] = SB1[x[4 * i + 2] as usize];
        y[4 * i + 3] = SB2[x[4 * i + 3] as usize];
        i += 1;
    }
    word(&y)
}

// ------------------------------------------------------------------ section 2.4.3 diffusion layer
/// A: (x0, ..., x15) -> (y0, ..., y15), the sixteen equations of the RFC.
pub fn a_bytes(x: &[u8; 16]) -> [u8; 16] {
    [
        x[3] ^ x[4] ^ x[6] ^ x[8] ^ x[9] ^ x[13] ^ x[14],
        x[2] ^ x[5] ^ x[7] ^ x[8] ^ x[9] ^ x[12] ^ x[15],
        x[1] ^ x[4] ^ x[6] ^ x[10] ^ x[11] ^ x[12] ^ x[15],
        x[0] ^ x[5] ^ x[7] ^ x[10] ^ x[11] ^ x[13] ^ x[14],
        x[0] ^ x[2] ^ x[5] ^ x[8] ^ x[11] ^ x[14] ^ x[15],
        x[1] ^ x[3] ^ x[4] ^ x[9] ^ x[10] ^ x[14] ^ x[15],
        x[0] ^ x[2] ^ x[7] ^ x[9] ^ x[10] ^ x[12] ^ x[13],
        x[1] ^ x[3] ^ x[6] ^ x[8] ^ x[11] ^ x[12] ^ x[13],
        x[0] ^ x[1] ^ x[4] ^ x[7] ^ x[10] ^ x[13] ^ x[15],
        x[0] ^ x[1] ^ x[5] ^ x[6] ^ x[11] ^ x[12] ^ x[14],
        x[2] ^ x[3] ^ x[5] ^ x[6] ^ x[8] ^ x[13] ^ x[15],
        x[2] ^ x[3] ^ x[4] ^ x[7] ^ x[9] ^ x[12] ^ x[14],
        x[1] ^ x[2] ^ x[6] ^ x[7] ^ x[9] ^ x[11] ^ x[12],
        x[0] ^ x[3] ^ x[6] ^ x[7] ^ x[8] ^ x[10] ^ x[13],
        x[0] ^ x[3] ^ x[4] ^ x[5] ^ x[9] ^ x[11] ^ x[14],
        x[1] ^ x[2] ^ x[4] ^ x[5] ^ x[8] ^ x[10] ^ x[15],
    ]
}
pub fn a(x: u128) -> u128 { word(&a_bytes(&bytes(x))) }

// ------------------------------------------------------------------ section 2.4.1 round functions
/// FO(D, RK) = A(SL1(D ^ RK))
pub fn fo(d: u128, rk: u128) -> u128 { a(sl1(d ^ rk)) }
/// FE(D, RK) = A(SL2(D ^ RK))
pub fn fe(d: u128, rk: u128) -> u128 { a(sl2(d ^ rk)) }

// ------------------------------------------------------------------ section 2.2 key scheduling part
/// Number of rounds for a key of `bits` bits: 12, 14, 16.
pub const fn rounds(bits: usize) -> usize {
    match bits {
        128 => 12,
        192 => 14,
        _ => 16,
    }
}
/// (CK1, CK2, CK3) by key size: 128: C1 C2 C3, 192: C2 C3 C1, 256: C3 C1 C2.
pub const fn ck(bits: usize) -> (u128, u128, u128) {
    match bits {
        128 => (C1, C2, C3),
        192 => (C2, C3, C1),
        _ => (C3, C1, C2),
    }
}
/// W0 = KL, W1 = FO(W0, CK1) ^ KR, W2 = FE(W1, CK2) ^ W0, W3 = FO(W2, CK3) ^ W1.
pub fn w_of(kl: u128, kr: u128, bits: usize) -> [u128; 4] {
    let (ck1, ck2, ck3) = ck(bits);
    let w0 = kl;
    let w1 = fo(w0, ck1) ^ kr;
    let w2 = fe(w1, ck2) ^ w0;
    let w3 = fo(w2, ck3) ^ w1;
    [w0, w1, w2, w3]
}
/// ek1 .. ek17 (index 0 = ek1).  All seventeen are computed; ARIA-128 uses ek1..ek13, ARIA-192 ek1..ek15.
pub fn enc_keys(w: &[u128; 4]) -> [u128; 17] {
    let (w0, w1, w2, w3) = (w[0], w[1], w[2], w[3]);
    [
        w0 ^ w1.rotate_right(19),
        w1 ^ w2.rotate_right(19),
        w2 ^ w3.rotate_right(19),
        w0.rotate_right(19) ^ w3,
        w0 ^ w1.rotate_right(31),
        w1 ^ w2.rotate_right(31),
        w2 ^ w3.rotate_right(31),
        w0.rotate_right(31) ^ w3,
        w0 ^ w1.rotate_left(61),
        w1 ^ w2.rotate_left(61),
        w2 ^ w3.rotate_left(61),
        w0.rotate_left(61) ^ w3,
        w0 ^ w1.rotate_left(31),
        w1 ^ w2.rotate_left(31),
        w2 ^ w3.rotate_left(31),
        w0.rotate_left(31) ^ w3,
        w0 ^ w1.rotate_left(19),
    ]
}
/// dk1 = ek_{n+1}, dk_i = A(ek_{n+2-i}) for 2 <= i <= n, dk_{n+1} = ek1   (n = number of rounds).
pub fn dec_keys(ek: &[u128; 17], n: usize) -> [u128; 17] {
    let mut dk = [0u128; 17];
    dk[0] = ek[n];
    let mut i = 1;
    while i < 17 {
        if i < n {
            dk[i] = a(ek[n - i]);
        }
        i += 1;
    }
    dk[n] = ek[0];
    dk
}

/// (KL, KR) from the key: KL || KR = K || 0...0.
pub fn klkr(key: &[u8]) -> (u128, u128) {
    let mut b = [0u8; 32];
    let mut i = 0;
    while i < 32 {
        if i < key.len() {
            b[i] = key[i];
        }
        i += 1;
    }
    let mut kl = 0u128;
    let mut kr = 0u128;
    let mut i = 0;
    while i < 16 {
        kl = (kl << 8) | b[i] as u128;
        kr = (kr << 8) | b[16 + i] as u128;
        i += 1;
    }
    (kl, kr)
}
/// Encryption round keys for a key of 16, 24 or 32 bytes.
pub fn key_schedule(key: &[u8]) -> [u128; 17] {
    let (kl, kr) = klkr(key);
    enc_keys(&w_of(kl, kr, 8 * key.len()))
}

// ------------------------------------------------------------------ section 2.3 data randomizing part
/// The common procedure of 2.3.1 / 2.3.2 with n rounds and round keys rk[0..=n]:
/// P1 = FO(P, rk1), P2 = FE(P1, rk2), ..., P_{n-1} = FO(P_{n-2}, rk_{n-1}), C = SL2(P_{n-1} ^ rk_n) ^ rk_{n+1}.
pub fn crypt(rk: &[u128], n: usize, p: u128) -> u128 {
    let mut x = p;
    let mut i = 1;
    while i < 16 {
        if i < n {
            x = if i % 2 == 1 { fo(x, rk[i - 1]) } else { fe(x, rk[i - 1]) };
        }
        i += 1;
    }
    sl2(x ^ rk[n - 1]) ^ rk[n]
}

pub fn encrypt(key: &[u8], block: &[u8; 16]) -> [u8; 16] {
    let n = rounds(8 * key.len());
    bytes(crypt(&key_schedule(key), n, word(block)))
}
pub fn decrypt(key: &[u8], block: &[u8; 16]) -> [u8; 16] {
    let n = rounds(8 * key.len());
    bytes(crypt(&dec_keys(&key_schedule(key), n), n, word(block)))
}
pub fn encrypt_128(key: &[u8; 16], block: &[u8; 16]) -> [u8; 16] { encrypt(key, block) }
pub fn decrypt_128(key: &[u8; 16], block: &[u8; 16]) -> [u8; 16] { decrypt(key, block) }
pub fn encrypt_192(key: &[u8; 24], block: &[u8; 16]) -> [u8; 16] { encrypt(key, block) }
pub fn decrypt_192(key: &[u8; 24], block: &[u8; 16]) -> [u8; 16] { decrypt(key, block) }
pub fn encrypt_256(key: &[u8; 32], block: &[u8; 16]) -> [u8; 16] { encrypt(key, block) }
pub fn decrypt_256(key: &[u8; 32], block: &[u8; 16]) -> [u8; 16] { decrypt(key, block) }

#[cfg(test)]
mod tests {
    use super::*;

    fn hex<const N: usize>(s: &str) -> [u8; N] {
        let b = s.as_bytes();
        let mut out = [0u8; N];
        let mut i = 0;
        while i < N {
            let h = (b[2 * i] as char).to_digit(16).unwrap() as u8;
            let l = (b[2 * i + 1] as char).to_digit(16).unwrap() as u8;
            out[i] = (h << 4) | l;
            i += 1;
        }
        out
    }
    const PT: &str = "00112233445566778899aabbccddeeff";

    /// RFC 5794 appendix A.1
    #[test]
    fn rfc5794_a1() {
        let k: [u8; 16] = hex("000102030405060708090a0b0c0d0e0f");
        let (p, c): ([u8; 16], [u8; 16]) = (hex(PT), hex("d718fbd6ab644c739da95f3be6451778"));
        assert_eq!(encrypt_128(&k, &p), c);
        assert_eq!(decrypt_128(&k, &c), p);
    }
    /// appendix A.2
    #[test]
    fn rfc5794_a2() {
        let k: [u8; 24] = hex("000102030405060708090a0b0c0d0e0f1011121314151617");
        let (p, c): ([u8; 16], [u8; 16]) = (hex(PT), hex("26449c1805dbe7aa25a468ce263a9e79"));
        assert_eq!(encrypt_192(&k, &p), c);
        assert_eq!(decrypt_192(&k, &c), p);
    }
    /// appendix A.3
    #[test]
    fn rfc5794_a3() {
        let k: [u8; 32] = hex("000102030405060708090a0b0c0d0e0f101112131415161718191a1b1c1d1e1f");
        let (p, c): ([u8; 16], [u8; 16]) = (hex(PT), hex("f92bd7c79fb72e2f2b8f80c1972d24fc"));
        assert_eq!(encrypt_256(&k, &p), c);
        assert_eq!(decrypt_256(&k, &c), p);
    }
    /// first and last rows of the four tables printed in section 2.4.2
    #[test]
    fn sbox_rows() {
        assert_eq!(SB1[..8], [0x63, 0x7c, 0x77, 0x7b, 0xf2, 0x6b, 0x6f, 0xc5]);
        assert_eq!(SB1[248..], [0x41, 0x99, 0x2d, 0x0f, 0xb0, 0x54, 0xbb, 0x16]);
        assert_eq!(SB2[..8], [0xe2, 0x4e, 0x54, 0xfc, 0x94, 0xc2, 0x4a, 0xcc]);
        assert_eq!(SB2[248..], [0x89, 0xde, 0x71, 0x1a, 0xaf, 0xba, 0xb5, 0x81]);
        assert_eq!(SB3[..8], [0x52, 0x09, 0x6a, 0xd5, 0x30, 0x36, 0xa5, 0x38]);
        assert_eq!(SB3[248..], [0xe1, 0x69, 0x14, 0x63, 0x55, 0x21, 0x0c, 0x7d]);
        assert_eq!(SB4[..8], [0x30, 0x68, 0x99, 0x1b, 0x87, 0xb9, 0x21, 0x78]);
        assert_eq!(SB4[248..], [0xf7, 0x4c, 0x11, 0x33, 0x03, 0xa2, 0xac, 0x60]);
        let mut x = 0;
        while x < 256 {
            assert_eq!(SB3[SB1[x] as usize] as usize, x);
            assert_eq!(SB4[SB2[x] as usize] as usize, x);
            x += 1;
        }
    }
    /// A is an involution (stated in section 2.4.3) and linear
    #[test]
    fn a_involution() {
        let mut x = 0x0123456789abcdef_fedcba9876543210u128;
        let mut i = 0;
        while i < 1000 {
            assert_eq!(a(a(x)), x);
            assert_eq!(a(x ^ C1), a(x) ^ a(C1));
            x = x.wrapping_mul(0x2360ED051FC65DA44385DF649FCCF645).wrapping_add(0x5851F42D4C957F2D14057B7EF767814F);
            i += 1;
        }
    }
}
