// Contracts on belt-block/src/cipher_impl.rs: the keyed value `BeltBlock` (feature `cipher`, on by default):
// conformance of KeyInit::new / encrypt_block / decrypt_block to STB 34.101.31-2020 6.1.3 / 6.1.4 (C07), round trip
// (C01), multi-block plumbing (C04/C15), key lengths (C11), clone (C12), weak-key test (C13), zeroize on drop (C16),
// AlgorithmName (C19).  NOTE: BeltBlock has NO Debug impl (nothing to state for the Debug half of C19).
//
// @module file=belt-block/src/cipher_impl.rs
// (see lib.rs for why `--cap-lints warn` is needed: crate-level `#![forbid(unsafe_code)]`)
// @config name=default rustflags="--cap-lints warn"
// @config name=zeroize features=zeroize rustflags="--cap-lints warn"
use super::*;
use crate::__vp_lib::{eq4, eq8, eq_bytes, spec_block_raw, spec_g13, spec_g21, spec_g5, tr, trb, ufb};
use bcref::belt as spec;
use cipher::Array;
include!("@VERIF@/contracts/_common/common.rs");

pub fn any_belt() -> BeltBlock { BeltBlock { key: kani::any() } }

// ------------------------------------------------------------------------------------------------ C07 conformance
// KeyInit::new: the 32 key octets as eight little-endian words theta_1..theta_8.
// @ob name=c_new props=C07,C20 fn=belt_block::BeltBlock::new timeout=300
#[kani::proof]
#[kani::unwind(34)]
fn c_new() {
    let k: [u8; 32] = kani::any();
    let c: BeltBlock = KeyInit::new(&Array(k));
    assert!(eq8(&c.key, &spec::words::<8>(&k)));
}

// encrypt_block for every state (key words) and block: Y = octets(BLOCK(words(X), self.key)) where BLOCK is the
// contract of belt_block_raw (an uninterpreted function of (x, key) here; c_belt_block_raw proves BLOCK is
// belt-block of 6.1.3, so the right-hand side is bcref::belt::encrypt on bytes by definition).
// @ob name=c_encrypt_block props=C07,C20 fn=belt_block::BeltBlock::encrypt_block uses=c_belt_block_raw,c_to_u32,c_from_u32 timeout=300
#[kani::proof]
#[kani::stub(belt_block_raw, ufb::block_keyed)]
#[kani::unwind(34)]
fn c_encrypt_block() {
    let c = any_belt();
    let b: [u8; 16] = kani::any();
    let mut blk = Array(b);
    cipher::BlockCipherEncrypt::encrypt_block(&c, &mut blk);
    assert!(eq_bytes(&blk.0, &spec::octets16(&ufb::block_keyed(spec::words::<4>(&b), &c.key))));
}

// decrypt_block == 6.1.4 for every state and block, over the contracts of g5/g13/g21: the real function's 56
// G-calls are recorded, the reference must ask the same questions in the same order (transcript oracle, lib.rs `tr`).
// @ob name=c_decrypt_block props=C07,C20 fn=belt_block::BeltBlock::decrypt_block uses=c_g5,c_g13,c_g21,c_key_idx,c_to_u32,c_from_u32 timeout=600
#[kani::proof]
#[kani::stub(g5, tr::g5)]
#[kani::stub(g13, tr::g13)]
#[kani::stub(g21, tr::g21)]
#[kani::stub(bcref::belt::g, tr::g)]
#[kani::unwind(34)]
fn c_decrypt_block() {
    let c = any_belt();
    let b: [u8; 16] = kani::any();
    let mut blk = Array(b);
    cipher::BlockCipherDecrypt::decrypt_block(&c, &mut blk);
    assert!(tr::recorded() == 56);
    tr::replay(tr::FORWARD);
    let x = spec::decrypt_words(spec::words::<4>(&b), &c.key);
    assert!(tr::exhausted());
    assert!(eq_bytes(&blk.0, &spec::octets16(&x)));
}

// Public API on bytes, for every 32-byte key and every 16-byte block (same modular form as above; with
// c_belt_block_raw the right-hand side is bcref::belt::encrypt(&k, &b)).
// @ob name=c_api_enc props=C07,C20 fn=belt_block::BeltBlock::new,belt_block::BeltBlock::encrypt_block,belt_block::BeltBlock::encrypt_with_backend uses=c_belt_block_raw timeout=300
#[kani::proof]
#[kani::stub(belt_block_raw, ufb::block_keyed)]
#[kani::unwind(34)]
fn c_api_enc() {
    let k: [u8; 32] = kani::any();
    let b: [u8; 16] = kani::any();
    let c: BeltBlock = KeyInit::new(&Array(k));
    let mut blk = Array(b);
    cipher::BlockCipherEncrypt::encrypt_block(&c, &mut blk);
    assert!(eq_bytes(&blk.0, &spec::octets16(&ufb::block_keyed(spec::words::<4>(&b), &spec::words::<8>(&k)))));
}
// @ob name=c_api_dec props=C07,C20 fn=belt_block::BeltBlock::new,belt_block::BeltBlock::decrypt_block,belt_block::BeltBlock::decrypt_with_backend uses=c_g5,c_g13,c_g21,c_key_idx timeout=600
#[kani::proof]
#[kani::stub(g5, tr::g5)]
#[kani::stub(g13, tr::g13)]
#[kani::stub(g21, tr::g21)]
#[kani::stub(bcref::belt::g, tr::g)]
#[kani::unwind(34)]
fn c_api_dec() {
    let k: [u8; 32] = kani::any();
    let b: [u8; 16] = kani::any();
    let c: BeltBlock = KeyInit::new(&Array(k));
    let mut blk = Array(b);
    cipher::BlockCipherDecrypt::decrypt_block(&c, &mut blk);
    assert!(tr::recorded() == 56);
    tr::replay(tr::FORWARD);
    let x = spec::decrypt(&k, &b);
    assert!(tr::exhausted());
    assert!(eq_bytes(&blk.0, &x));
}

// ------------------------------------------------------------------------------------------------ C01 round trip
// From the property's own statement on the real functions, for every state (key words) and block.  G_5, G_13, G_21
// are the transcript oracle of lib.rs (`tr`): the first direction's 56 G-calls are recorded with unconstrained
// answers, the second direction must ask the same 56 questions in REVERSE order (asserted) and then returns the
// original block: the round trip holds for ANY pure G (licensed by c_g5/c_g13/c_g21).
// @ob name=l_roundtrip_dec_enc props=C01,C20 kind=lemma fn=belt_block::BeltBlock::encrypt_block,belt_block::BeltBlock::decrypt_block,belt_block::belt_block_raw uses=c_g5,c_g13,c_g21 timeout=900
#[kani::proof]
#[kani::stub(g5, tr::g5)]
#[kani::stub(g13, tr::g13)]
#[kani::stub(g21, tr::g21)]
#[kani::unwind(34)]
fn l_roundtrip_dec_enc() {
    let c = any_belt();
    let b: [u8; 16] = kani::any();
    let mut blk = Array(b);
    cipher::BlockCipherEncrypt::encrypt_block(&c, &mut blk);
    assert!(tr::recorded() == 56);
    tr::replay(tr::BACKWARD);
    cipher::BlockCipherDecrypt::decrypt_block(&c, &mut blk);
    assert!(tr::exhausted());
    assert!(eq_bytes(&blk.0, &b));
}
// @ob name=l_roundtrip_enc_dec props=C01,C20 kind=lemma fn=belt_block::BeltBlock::encrypt_block,belt_block::BeltBlock::decrypt_block,belt_block::belt_block_raw uses=c_g5,c_g13,c_g21 timeout=900
#[kani::proof]
#[kani::stub(g5, tr::g5)]
#[kani::stub(g13, tr::g13)]
#[kani::stub(g21, tr::g21)]
#[kani::unwind(34)]
fn l_roundtrip_enc_dec() {
    let c = any_belt();
    let b: [u8; 16] = kani::any();
    let mut blk = Array(b);
    cipher::BlockCipherDecrypt::decrypt_block(&c, &mut blk);
    assert!(tr::recorded() == 56);
    tr::replay(tr::BACKWARD);
    cipher::BlockCipherEncrypt::encrypt_block(&c, &mut blk);
    assert!(tr::exhausted());
    assert!(eq_bytes(&blk.0, &b));
}

// ------------------------------------------------------------------------------------------------ C04 / C15 multi-block
// Plumbing only: belt_block_raw is the transcript oracle `trb` of lib.rs (licensed by c_belt_block_raw): the
// per-block calls are recorded, the multi-block calls must ask the same questions block after block, in order.
// Each block goes through exactly once and in order, b2b inputs untouched, guard blocks around the output
// untouched, state unchanged.
/// block equality on fixed-size references.  (Comparing through `&[u8]` slices taken from element >= 1 of a
/// `[[u8; 16]; n]` made Kani 0.68 report `x[1] = v; x[1] != v`; see report.)
fn eq16b(a: &[u8; 16], b: &[u8; 16]) -> bool {
    let mut ok = true;
    let mut i = 0;
    while i < 16 {
        ok &= a[i] == b[i];
        i += 1;
    }
    ok
}
macro_rules! multi_block_enc {
    ($name:ident, $n:expr) => {
        #[kani::proof]
        #[kani::stub(belt_block_raw, trb::block)]
        #[kani::unwind(65)]
        fn $name() {
            let c = any_belt();
            let before = c.key;
            let inp: [[u8; 16]; $n] = kani::any();
            let mut single = [Array([0u8; 16]); $n]; // (not [[u8; 16]; n]: see report, spurious Kani failure on element 1)
            let mut i = 0;
            while i < $n {
                let mut b = Array(inp[i]);
                cipher::BlockCipherEncrypt::encrypt_block(&c, &mut b);
                single[i] = b;
                i += 1;
            }
            let mut blocks = [Array([0u8; 16]); $n];
            let mut i = 0;
            while i < $n { blocks[i] = Array(inp[i]); i += 1; }
            assert!(trb::recorded() == $n);
            trb::replay(tr::FORWARD);
            cipher::BlockCipherEncrypt::encrypt_blocks(&c, &mut blocks);
            assert!(trb::exhausted());
            let mut i = 0;
            while i < $n { assert!(eq16b(&blocks[i].0, &single[i].0)); i += 1; }
            let mut src = [Array([0u8; 16]); $n];
            let mut i = 0;
            while i < $n { src[i] = Array(inp[i]); i += 1; }
            let g: [u8; 16] = kani::any();
            let mut dst = [Array(g); $n + 2];
            trb::replay(tr::FORWARD);
            cipher::BlockCipherEncrypt::encrypt_blocks_b2b(&c, &src, &mut dst[1..$n + 1]).unwrap();
            assert!(trb::exhausted());
            assert!(eq16b(&dst[0].0, &g) && eq16b(&dst[$n + 1].0, &g));
            let mut i = 0;
            while i < $n { assert!(eq16b(&dst[i + 1].0, &single[i].0) && eq16b(&src[i].0, &inp[i])); i += 1; }
            assert!(eq8(&before, &c.key));
        }
    };
}
// @ob name=m_enc_blocks_0 props=C04,C15 kind=bounded bound="n = 0 blocks" fn=belt_block::BeltBlock::encrypt_with_backend,belt_block::BeltBlock::encrypt_block uses=c_belt_block_raw timeout=300
multi_block_enc!(m_enc_blocks_0, 0);
// @ob name=m_enc_blocks_1 props=C04,C15 kind=bounded bound="n = 1 block" fn=belt_block::BeltBlock::encrypt_with_backend,belt_block::BeltBlock::encrypt_block uses=c_belt_block_raw timeout=300
multi_block_enc!(m_enc_blocks_1, 1);
// @ob name=m_enc_blocks_2 props=C04,C15 kind=bounded bound="n = 2 blocks" fn=belt_block::BeltBlock::encrypt_with_backend,belt_block::BeltBlock::encrypt_block uses=c_belt_block_raw timeout=300
multi_block_enc!(m_enc_blocks_2, 2);
// @ob name=m_enc_blocks_3 props=C04,C15 kind=bounded bound="n = 3 blocks" fn=belt_block::BeltBlock::encrypt_with_backend,belt_block::BeltBlock::encrypt_block uses=c_belt_block_raw timeout=300
multi_block_enc!(m_enc_blocks_3, 3);

// Decryption: decrypt_block has its rounds inline; G_5/G_13/G_21 are the transcript oracle `tr`: the per-block calls
// are recorded, the multi-block calls must ask the same questions block after block, in order.
macro_rules! multi_block_dec {
    ($name:ident, $n:expr) => {
        #[kani::proof]
        #[kani::stub(g5, tr::g5)]
        #[kani::stub(g13, tr::g13)]
        #[kani::stub(g21, tr::g21)]
        #[kani::unwind(34)]
        fn $name() {
            let c = any_belt();
            let before = c.key;
            let inp: [[u8; 16]; $n] = kani::any();
            let mut single = [Array([0u8; 16]); $n]; // (not [[u8; 16]; n]: see report, spurious Kani failure on element 1)
            let mut i = 0;
            while i < $n {
                let mut b = Array(inp[i]);
                cipher::BlockCipherDecrypt::decrypt_block(&c, &mut b);
                single[i] = b;
                i += 1;
            }
            let mut blocks = [Array([0u8; 16]); $n];
            let mut i = 0;
            while i < $n { blocks[i] = Array(inp[i]); i += 1; }
            assert!(tr::recorded() == 56 * $n);
            tr::replay(tr::FORWARD);
            cipher::BlockCipherDecrypt::decrypt_blocks(&c, &mut blocks);
            assert!(tr::exhausted());
            let mut i = 0;
            while i < $n { assert!(eq16b(&blocks[i].0, &single[i].0)); i += 1; }
            let mut src = [Array([0u8; 16]); $n];
            let mut i = 0;
            while i < $n { src[i] = Array(inp[i]); i += 1; }
            let g: [u8; 16] = kani::any();
            let mut dst = [Array(g); $n + 2];
            tr::replay(tr::FORWARD);
            cipher::BlockCipherDecrypt::decrypt_blocks_b2b(&c, &src, &mut dst[1..$n + 1]).unwrap();
            assert!(tr::exhausted());
            assert!(eq16b(&dst[0].0, &g) && eq16b(&dst[$n + 1].0, &g));
            let mut i = 0;
            while i < $n { assert!(eq16b(&dst[i + 1].0, &single[i].0) && eq16b(&src[i].0, &inp[i])); i += 1; }
            assert!(eq8(&before, &c.key));
        }
    };
}
// @ob name=m_dec_blocks_0 props=C04,C15 kind=bounded bound="n = 0 blocks" fn=belt_block::BeltBlock::decrypt_with_backend,belt_block::BeltBlock::decrypt_block uses=c_g5,c_g13,c_g21 timeout=300
multi_block_dec!(m_dec_blocks_0, 0);
// @ob name=m_dec_blocks_1 props=C04,C15 kind=bounded bound="n = 1 block" fn=belt_block::BeltBlock::decrypt_with_backend,belt_block::BeltBlock::decrypt_block uses=c_g5,c_g13,c_g21 timeout=600
multi_block_dec!(m_dec_blocks_1, 1);
// @ob name=m_dec_blocks_2 props=C04,C15 kind=bounded bound="n = 2 blocks" fn=belt_block::BeltBlock::decrypt_with_backend,belt_block::BeltBlock::decrypt_block uses=c_g5,c_g13,c_g21 timeout=900
multi_block_dec!(m_dec_blocks_2, 2);
// @ob name=m_dec_blocks_3 props=C04,C15 tier=thorough kind=bounded bound="n = 3 blocks" fn=belt_block::BeltBlock::decrypt_with_backend,belt_block::BeltBlock::decrypt_block uses=c_g5,c_g13,c_g21 timeout=3000
multi_block_dec!(m_dec_blocks_3, 3);

// ------------------------------------------------------------------------------------------------ C11 key lengths, C12 clone
// @ob name=k_len props=C11 kind=bounded bound="slice length <= 300" fn=belt_block::BeltBlock::new_from_slice timeout=300
#[kani::proof]
#[kani::unwind(34)]
fn k_len() {
    let buf: [u8; 301] = kani::any();
    let n: usize = kani::any();
    kani::assume(n <= 300);
    kani::cover!(n == 32);
    kani::cover!(n == 0);
    kani::cover!(n == 300);
    let r = <BeltBlock as KeyInit>::new_from_slice(&buf[..n]);
    assert!(r.is_ok() == (n == 32));
}
// @ob name=k_slice_same props=C11,C12 fn=belt_block::BeltBlock::new_from_slice,belt_block::BeltBlock::new,belt_block::BeltBlock::clone timeout=300
#[kani::proof]
#[kani::unwind(34)]
fn k_slice_same() {
    let k: [u8; 32] = kani::any();
    let a: BeltBlock = KeyInit::new(&Array(k));
    let b = <BeltBlock as KeyInit>::new_from_slice(&k[..]).unwrap();
    assert!(eq8(&a.key, &b.key));
    let c = a.clone();
    assert!(eq8(&a.key, &c.key));
}
// clone of an arbitrary state (not only reachable ones)
// @ob name=k_clone props=C12 fn=belt_block::BeltBlock::clone timeout=300
#[kani::proof]
#[kani::unwind(34)]
fn k_clone() {
    let a = any_belt();
    let c = a.clone();
    assert!(eq8(&a.key, &c.key));
}

// ------------------------------------------------------------------------------------------------ C13 weak keys
// @ob name=c_weak props=C13 fn=belt_block::BeltBlock::weak_key_test,belt_block::BeltBlock::new_checked timeout=300
#[kani::proof]
#[kani::unwind(34)]
fn c_weak() {
    let k: [u8; 32] = kani::any();
    assert!(<BeltBlock as KeyInit>::weak_key_test(&Array(k)).is_ok());
    match <BeltBlock as KeyInit>::new_checked(&Array(k)) {
        Ok(c) => {
            let d: BeltBlock = KeyInit::new(&Array(k));
            assert!(eq8(&c.key, &d.key));
        }
        Err(_) => assert!(false),
    }
}

// ------------------------------------------------------------------------------------------------ C16 zeroize on drop
macro_rules! zero_on_drop {
    ($name:ident, $ty:ident, $mk:expr) => {
        #[kani::proof]
        #[kani::unwind(40)]
        fn $name() {
            let mut m = core::mem::ManuallyDrop::new($mk);
            let p: *const $ty = &*m;
            unsafe { core::mem::ManuallyDrop::drop(&mut m); }
            assert!(unsafe { all_bytes_zero(p) });
        }
    };
}
// @ob name=z_belt props=C16 cfg=zeroize fn=belt_block::BeltBlock::drop timeout=300
zero_on_drop!(z_belt, BeltBlock, any_belt());
// @ob name=z_belt_clone props=C16 cfg=zeroize fn=belt_block::BeltBlock::drop,belt_block::BeltBlock::clone timeout=300
zero_on_drop!(z_belt_clone, BeltBlock, any_belt().clone());
// through the public constructor
// @ob name=z_belt_new props=C16 cfg=zeroize fn=belt_block::BeltBlock::drop,belt_block::BeltBlock::new timeout=300
zero_on_drop!(z_belt_new, BeltBlock, <BeltBlock as KeyInit>::new(&Array(kani::any::<[u8; 32]>())));

// ------------------------------------------------------------------------------------------------ C19 AlgorithmName
// BeltBlock implements AlgorithmName only; there is no Debug impl to state anything about.
// @ob name=c_names props=C19 fn=belt_block::BeltBlock::write_alg_name timeout=300
#[kani::proof]
#[kani::unwind(100)]
fn c_names() {
    let t = alg_name_text::<BeltBlock>();
    assert!(t.is("BeltBlock"));
    assert!(t.names("BeltBlock"));
}
