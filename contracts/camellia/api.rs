// API-level contracts for the camellia crate, for each of Camellia128 / Camellia192 / Camellia256: key length (C11),
// slice/fixed key and clone (C11, C12), weak keys (C13), zeroize on drop (C16), Debug / AlgorithmName (C19),
// multi-block and buffer-to-buffer calls (C04, C15).
//
// @module file=camellia/src/lib.rs
// @config name=zeroize features=zeroize
use super::*;
use super::__vp_cipher::{any128, any192, any256, eq_bytes16, uf_f, uff};
use crate::utils::__vp_utils::{eq26, eq34};
use cipher::{Array, KeyInit};
include!("@VERIF@/contracts/_common/common.rs");

/// stand-in for F inside the *length* obligations only (the key schedules have their own contracts c_new_*)
fn cheap_f(x: u64, k: u64) -> u64 { x ^ k }

// ---------------------------------------------------------------- C11 key lengths
macro_rules! keylen {
    ($name:ident, $ty:ident, $n:expr) => {
        #[kani::proof]
        #[kani::stub(crate::utils::f, cheap_f)]
        #[kani::unwind(35)]
        fn $name() {
            let buf: [u8; 301] = kani::any();
            let n: usize = kani::any();
            kani::assume(n <= 300);
            kani::cover!(n == $n);
            kani::cover!(n == 300);
            kani::cover!(n == 0);
            let r = $ty::new_from_slice(&buf[..n]);
            assert!(r.is_ok() == (n == $n));
        }
    };
}
// @ob name=k_len_128 props=C11 kind=bounded bound="slice length <= 300" fn=camellia::Camellia128::new_from_slice timeout=300
keylen!(k_len_128, Camellia128, 16);
// @ob name=k_len_192 props=C11 kind=bounded bound="slice length <= 300" fn=camellia::Camellia192::new_from_slice timeout=300
keylen!(k_len_192, Camellia192, 24);
// @ob name=k_len_256 props=C11 kind=bounded bound="slice length <= 300" fn=camellia::Camellia256::new_from_slice timeout=300
keylen!(k_len_256, Camellia256, 32);

// fixed-size key and the same bytes as a slice give the same cipher (state equality); clone gives equal state.
// F abstracted by the record / replay uninterpreted function of cipher.rs (licensed by c_f, l_f_xor): the second
// constructor must present F with the same arguments in the same order.
macro_rules! slice_same {
    ($name:ident, $ty:ident, $n:expr, $eq:ident, $mk:ident) => {
        #[kani::proof]
        #[kani::stub(crate::utils::f, uf_f)]
        #[kani::unwind(35)]
        fn $name() {
            let k: [u8; $n] = kani::any();
            let b = $ty::new_from_slice(&k[..]).unwrap();
            uff::replay_fwd();
            let a = $ty::new(&Array(k));
            assert!(uff::done() && uff::calls() >= 4);
            assert!($eq(&a.k, &b.k));
            let s = $mk();
            let c = s.clone();
            assert!($eq(&s.k, &c.k));
        }
    };
}
// @ob name=k_slice_same_128 props=C11,C12 fn=camellia::Camellia128::new_from_slice,camellia::Camellia128::new,camellia::Camellia128::clone uses=c_f,l_f_xor timeout=300
slice_same!(k_slice_same_128, Camellia128, 16, eq26, any128);
// @ob name=k_slice_same_192 props=C11,C12 fn=camellia::Camellia192::new_from_slice,camellia::Camellia192::new,camellia::Camellia192::clone uses=c_f,l_f_xor timeout=300
slice_same!(k_slice_same_192, Camellia192, 24, eq34, any192);
// @ob name=k_slice_same_256 props=C11,C12 fn=camellia::Camellia256::new_from_slice,camellia::Camellia256::new,camellia::Camellia256::clone uses=c_f,l_f_xor timeout=300
slice_same!(k_slice_same_256, Camellia256, 32, eq34, any256);

// ---------------------------------------------------------------- C13 no weak keys
macro_rules! weak {
    ($name:ident, $ty:ident, $n:expr, $eq:ident) => {
        #[kani::proof]
        #[kani::stub(crate::utils::f, uf_f)]
        #[kani::unwind(35)]
        fn $name() {
            let k: [u8; $n] = kani::any();
            assert!($ty::weak_key_test(&Array(k)).is_ok());
            match $ty::new_checked(&Array(k)) {
                Ok(c) => {
                    uff::replay_fwd();
                    let plain = $ty::new(&Array(k));
                    assert!(uff::done() && uff::calls() >= 4 && $eq(&c.k, &plain.k));
                }
                Err(_) => assert!(false),
            }
        }
    };
}
// @ob name=c_weak_128 props=C13 fn=camellia::Camellia128::weak_key_test,camellia::Camellia128::new_checked uses=c_f,l_f_xor timeout=300
weak!(c_weak_128, Camellia128, 16, eq26);
// @ob name=c_weak_192 props=C13 fn=camellia::Camellia192::weak_key_test,camellia::Camellia192::new_checked uses=c_f,l_f_xor timeout=300
weak!(c_weak_192, Camellia192, 24, eq34);
// @ob name=c_weak_256 props=C13 fn=camellia::Camellia256::weak_key_test,camellia::Camellia256::new_checked uses=c_f,l_f_xor timeout=300
weak!(c_weak_256, Camellia256, 32, eq34);

// ---------------------------------------------------------------- C19 Debug / AlgorithmName
macro_rules! names {
    ($name:ident, $ty:ident, $mk:expr, $text:expr) => {
        #[kani::proof]
        #[kani::unwind(100)]
        fn $name() {
            let a = $mk;
            let b = $mk;
            let (ta, tb) = (debug_text(&a), debug_text(&b));
            assert!(ta.same(&tb)); // identical for all keys
            assert!(ta.names($text)); // names the instance's own type
            assert!(alg_name_text::<$ty>().names($text));
        }
    };
}
// @ob name=c_names_128 props=C19 fn=camellia::Camellia128::fmt,camellia::Camellia128::write_alg_name timeout=300
names!(c_names_128, Camellia128, any128(), "Camellia128");
// @ob name=c_names_192 props=C19 fn=camellia::Camellia192::fmt,camellia::Camellia192::write_alg_name timeout=300
names!(c_names_192, Camellia192, any192(), "Camellia192");
// @ob name=c_names_256 props=C19 fn=camellia::Camellia256::fmt,camellia::Camellia256::write_alg_name timeout=300
names!(c_names_256, Camellia256, any256(), "Camellia256");

// ---------------------------------------------------------------- C16 zeroize on drop (feature zeroize)
macro_rules! zero_on_drop {
    ($name:ident, $ty:ident, $mk:expr) => {
        #[kani::proof]
        #[kani::unwind(300)]
        fn $name() {
            let mut m = core::mem::ManuallyDrop::new($mk);
            let p: *const $ty = &*m;
            unsafe { core::mem::ManuallyDrop::drop(&mut m); }
            assert!(unsafe { all_bytes_zero(p) });
        }
    };
}
// @ob name=z_128 props=C16 cfg=zeroize fn=camellia::Camellia128::drop timeout=300
zero_on_drop!(z_128, Camellia128, any128());
// @ob name=z_192 props=C16 cfg=zeroize fn=camellia::Camellia192::drop,camellia::Camellia192::clone timeout=300
zero_on_drop!(z_192, Camellia192, any192().clone());
// @ob name=z_256 props=C16 cfg=zeroize fn=camellia::Camellia256::drop timeout=300
zero_on_drop!(z_256, Camellia256, any256());
// @ob name=z_128_clone props=C16 cfg=zeroize fn=camellia::Camellia128::drop,camellia::Camellia128::clone timeout=300
zero_on_drop!(z_128_clone, Camellia128, any128().clone());

// ---------------------------------------------------------------- C04 / C15 multi-block and b2b calls
// F is abstracted to a record / replay uninterpreted function (cipher.rs `uf_f`, licensed by c_f, l_f_xor): the
// per-block calls are recorded, then the n-block in-place call and the buffer-to-buffer call must present F with the
// same arguments in the same order (block after block) and give, block by block, the single-block results; b2b inputs,
// guard blocks around the output and the cipher state are untouched.  (Kani cannot stub the backend method of a
// generic type by path - compiler crash on `<Camellia<U16, 26> as BlockCipherEncBackend>::encrypt_block` - so the
// abstraction is at F rather than at the whole block function.)
macro_rules! multi_block {
    ($name:ident, $ty:ident, $mk:ident, $eq:ident, $n:expr, $calls:expr, $one:path, $many:path, $b2b:path) => {
        #[kani::proof]
        #[kani::stub(crate::utils::f, uf_f)]
        #[kani::unwind(35)]
        fn $name() {
            let d = $mk();
            let before = d.k;
            let inp: [[u8; 16]; $n] = kani::any();
            let mut single = [[0u8; 16]; $n];
            let mut i = 0;
            while i < $n {
                let mut b = Array(inp[i]);
                $one(&d, &mut b);
                single[i] = b.0;
                i += 1;
            }
            assert!(uff::calls() == $n * $calls);
            let mut blocks = [Array([0u8; 16]); $n];
            let mut i = 0;
            while i < $n { blocks[i] = Array(inp[i]); i += 1; }
            uff::replay_fwd();
            $many(&d, &mut blocks);
            assert!(uff::done());
            let mut i = 0;
            while i < $n { assert!(eq_bytes16(&blocks[i].0, &single[i])); i += 1; }
            let mut src = [Array([0u8; 16]); $n];
            let mut i = 0;
            while i < $n { src[i] = Array(inp[i]); i += 1; }
            let g: [u8; 16] = kani::any();
            let mut dst = [Array(g); $n + 2];
            uff::replay_fwd();
            $b2b(&d, &src, &mut dst[1..$n + 1]).unwrap();
            assert!(uff::done());
            assert!(eq_bytes16(&dst[0].0, &g) && eq_bytes16(&dst[$n + 1].0, &g));
            let mut i = 0;
            while i < $n { assert!(eq_bytes16(&dst[i + 1].0, &single[i]) && eq_bytes16(&src[i].0, &inp[i])); i += 1; }
            assert!($eq(&before, &d.k));
        }
    };
}
macro_rules! multi_enc {
    ($name:ident, $ty:ident, $mk:ident, $eq:ident, $n:expr, $calls:expr) => {
        multi_block!($name, $ty, $mk, $eq, $n, $calls,
            cipher::BlockCipherEncrypt::encrypt_block, cipher::BlockCipherEncrypt::encrypt_blocks, cipher::BlockCipherEncrypt::encrypt_blocks_b2b);
    };
}
macro_rules! multi_dec {
    ($name:ident, $ty:ident, $mk:ident, $eq:ident, $n:expr, $calls:expr) => {
        multi_block!($name, $ty, $mk, $eq, $n, $calls,
            cipher::BlockCipherDecrypt::decrypt_block, cipher::BlockCipherDecrypt::decrypt_blocks, cipher::BlockCipherDecrypt::decrypt_blocks_b2b);
    };
}
// @ob name=m_enc128_0 props=C04,C15 kind=bounded bound="n = 0 blocks" fn=camellia::Camellia128::encrypt_with_backend,camellia::Camellia128::encrypt_block uses=c_f,l_f_xor timeout=300
multi_enc!(m_enc128_0, Camellia128, any128, eq26, 0, 18);
// @ob name=m_enc128_1 props=C04,C15 kind=bounded bound="n = 1 block" fn=camellia::Camellia128::encrypt_with_backend,camellia::Camellia128::encrypt_block uses=c_f,l_f_xor timeout=300
multi_enc!(m_enc128_1, Camellia128, any128, eq26, 1, 18);
// @ob name=m_enc128_3 props=C04,C15 kind=bounded bound="n = 3 blocks" fn=camellia::Camellia128::encrypt_with_backend,camellia::Camellia128::encrypt_block uses=c_f,l_f_xor timeout=300
multi_enc!(m_enc128_3, Camellia128, any128, eq26, 3, 18);
// @ob name=m_dec128_0 props=C04,C15 kind=bounded bound="n = 0 blocks" fn=camellia::Camellia128::decrypt_with_backend,camellia::Camellia128::decrypt_block uses=c_f,l_f_xor timeout=300
multi_dec!(m_dec128_0, Camellia128, any128, eq26, 0, 18);
// @ob name=m_dec128_1 props=C04,C15 kind=bounded bound="n = 1 block" fn=camellia::Camellia128::decrypt_with_backend,camellia::Camellia128::decrypt_block uses=c_f,l_f_xor timeout=300
multi_dec!(m_dec128_1, Camellia128, any128, eq26, 1, 18);
// @ob name=m_dec128_3 props=C04,C15 kind=bounded bound="n = 3 blocks" fn=camellia::Camellia128::decrypt_with_backend,camellia::Camellia128::decrypt_block uses=c_f,l_f_xor timeout=300
multi_dec!(m_dec128_3, Camellia128, any128, eq26, 3, 18);
// @ob name=m_enc192_0 props=C04,C15 kind=bounded bound="n = 0 blocks" fn=camellia::Camellia192::encrypt_with_backend,camellia::Camellia192::encrypt_block uses=c_f,l_f_xor timeout=300
multi_enc!(m_enc192_0, Camellia192, any192, eq34, 0, 24);
// @ob name=m_enc192_3 props=C04,C15 kind=bounded bound="n = 3 blocks" fn=camellia::Camellia192::encrypt_with_backend,camellia::Camellia192::encrypt_block uses=c_f,l_f_xor timeout=300
multi_enc!(m_enc192_3, Camellia192, any192, eq34, 3, 24);
// @ob name=m_dec192_1 props=C04,C15 kind=bounded bound="n = 1 block" fn=camellia::Camellia192::decrypt_with_backend,camellia::Camellia192::decrypt_block uses=c_f,l_f_xor timeout=300
multi_dec!(m_dec192_1, Camellia192, any192, eq34, 1, 24);
// @ob name=m_dec192_3 props=C04,C15 kind=bounded bound="n = 3 blocks" fn=camellia::Camellia192::decrypt_with_backend,camellia::Camellia192::decrypt_block uses=c_f,l_f_xor timeout=300
multi_dec!(m_dec192_3, Camellia192, any192, eq34, 3, 24);
// @ob name=m_enc256_1 props=C04,C15 kind=bounded bound="n = 1 block" fn=camellia::Camellia256::encrypt_with_backend,camellia::Camellia256::encrypt_block uses=c_f,l_f_xor timeout=300
multi_enc!(m_enc256_1, Camellia256, any256, eq34, 1, 24);
// @ob name=m_enc256_3 props=C04,C15 kind=bounded bound="n = 3 blocks" fn=camellia::Camellia256::encrypt_with_backend,camellia::Camellia256::encrypt_block uses=c_f,l_f_xor timeout=300
multi_enc!(m_enc256_3, Camellia256, any256, eq34, 3, 24);
// @ob name=m_dec256_0 props=C04,C15 kind=bounded bound="n = 0 blocks" fn=camellia::Camellia256::decrypt_with_backend,camellia::Camellia256::decrypt_block uses=c_f,l_f_xor timeout=300
multi_dec!(m_dec256_0, Camellia256, any256, eq34, 0, 24);
// @ob name=m_dec256_3 props=C04,C15 kind=bounded bound="n = 3 blocks" fn=camellia::Camellia256::decrypt_with_backend,camellia::Camellia256::decrypt_block uses=c_f,l_f_xor timeout=300
multi_dec!(m_dec256_3, Camellia256, any256, eq34, 3, 24);
