//! FIPS 46-3 DEA and SP 800-67 TDEA, table-driven, bit 1 = most significant bit (the standard's numbering).
//! Tables typed from FIPS 46-3; anchored by the vectors below.

pub const IP: [u8; 64] = [
    58, 50, 42, 34, 26, 18, 10, 2, 60, 52, 44, 36, 28, 20, 12, 4, 62, 54, 46, 38, 30, 22, 14, 6, 64, 56, 48, 40, 32, 24, 16, 8,
    57, 49, 41, 33, 25, 17, 9, 1, 59, 51, 43, 35, 27, 19, 11, 3, 61, 53, 45, 37, 29, 21, 13, 5, 63, 55, 47, 39, 31, 23, 15, 7,
];
pub const FP: [u8; 64] = [
    40, 8, 48, 16, 56, 24, 64, 32, 39, 7, 47, 15, 55, 23, 63, 31, 38, 6, 46, 14, 54, 22, 62, 30, 37, 5, 45, 13, 53, 21, 61, 29,
    36, 4, 44, 12, 52, 20, 60, 28, 35, 3, 43, 11, 51, 19, 59, 27, 34, 2, 42, 10, 50, 18, 58, 26, 33, 1, 41, 9, 49, 17, 57, 25,
];
pub const E: [u8; 48] = [
    32, 1, 2, 3, 4, 5, 4, 5, 6, 7, 8, 9, 8, 9, 10, 11, 12, 13, 12, 13, 14, 15, 16, 17, 16, 17, 18, 19, 20, 21, 20, 21, 22, 23, 24,
    25, 24, 25, 26, 27, 28, 29, 28, 29, 30, 31, 32, 1,
];
pub const P: [u8; 32] = [
    16, 7, 20, 21, 29, 12, 28, 17, 1, 15, 23, 26, 5, 18, 31, 10, 2, 8, 24, 14, 32, 27, 3, 9, 19, 13, 30, 6, 22, 11, 4, 25,
];
pub const PC1: [u8; 56] = [
    57, 49, 41, 33, 25, 17, 9, 1, 58, 50, 42, 34, 26, 18, 10, 2, 59, 51, 43, 35, 27, 19, 11, 3, 60, 52, 44, 36, 63, 55, 47, 39,
    31, 23, 15, 7, 62, 54, 46, 38, 30, 22, 14, 6, 61, 53, 45, 37, 29, 21, 13, 5, 28, 20, 12, 4,
];
pub const PC2: [u8; 48] = [
    14, 17, 11, 24, 1, 5, 3, 28, 15, 6, 21, 10, 23, 19, 12, 4, 26, 8, 16, 7, 27, 20, 13, 2, 41, 52, 31, 37, 47, 55, 30, 40, 51,
    45, 33, 48, 44, 49, 39, 56, 34, 53, 46, 42, 50, 36, 29, 32,
];
pub const SHIFTS: [u8; 16] = [1, 1, 2, 2, 2, 2, 2, 2, 1, 2, 2, 2, 2, 2, 2, 1];

/// S1..S8 as printed in FIPS 46-3: 4 rows x 16 columns each.
pub const S: [[[u8; 16]; 4]; 8] = [
    [
        [14, 4, 13, 1, 2, 15, 11, 8, 3, 10, 6, 12, 5, 9, 0, 7],
        [0, 15, 7, 4, 14, 2, 13, 1, 10, 6, 12, 11, 9, 5, 3, 8],
        [4, 1, 14, 8, 13, 6, 2, 11, 15, 12, 9, 7, 3, 10, 5, 0],
        [15, 12, 8, 2, 4, 9, 1, 7, 5, 11, 3, 14, 10, 0, 6, 13],
    ],
    [
        [15, 1, 8, 14, 6, 11, 3, 4, 9, 7, 2, 13, 12, 0, 5, 10],
        [3, 13, 4, 7, 15, 2, 8, 14, 12, 0, 1, 10, 6, 9, 11, 5],
        [0, 14, 7, 11, 10, 4, 13, 1, 5, 8, 12, 6, 9, 3, 2, 15],
        [13, 8, 10, 1, 3, 15, 4, 2, 11, 6, 7, 12, 0, 5, 14, 9],
    ],
    [
        [10, 0, 9, 14, 6, 3, 15, 5, 1, 13, 12, 7, 11, 4, 2, 8],
        [13, 7, 0, 9, 3, 4, 6, 10, 2, 8, 5, 14, 12, 11, 15, 1],
        [13, 6, 4, 9, 8, 15, 3, 0, 11, 1, 2, 12, 5, 10, 14, 7],
        [1, 10, 13, 0, 6, 9, 8, 7, 4, 15, 14, 3, 11, 5, 2, 12],
    ],
    [
        [7, 13, 14, 3, 0, 6, 9, 10, 1, 2, 8, 5, 11, 12, 4, 15],
        [13, 8, 11, 5, 6, 15, 0, 3, 4, 7, 2, 12, 1, 10, 14, 9],
        [10, 6, 9, 0, 12, 11, 7, 13, 15, 1, 3, 14, 5, 2, 8, 4],
        [3, 15, 0, 6, 10, 1, 13, 8, 9, 4, 5, 11, 12, 7, 2, 14],
    ],
    [
        [2, 12, 4, 1, 7, 10, 11, 6, 8, 5, 3, 15, 13, 0, 14, 9],
        [14, 11, 2, 12, 4, 7, 13, 1, 5, 0, 15, 10, 3, 9, 8, 6],
        [4, 2, 1, 11, 10, 13, 7, 8, 15, 9, 12, 5, 6, 3, 0, 14],
        [11, 8, 12, 7, 1, 14, 2, 13, 6, 15, 0, 9, 10, 4, 5, 3],
    ],
    [
        [12, 1, 10, 15, 9, 2, 6, 8, 0, 13, 3, 4, 14, 7, 5, 11],
        [10, 15, 4, 2, 7, 12, 9, 5, 6, 1, 13, 14, 0, 11, 3, 8],
        [9, 14, 15, 5, 2, 8, 12, 3, 7, 0, 4, 10, 1, 13, 11, 6],
        [4, 3, 2, 12, 9, 5, 15, 10, 11, 14, 1, 7, 6, 0, 8, 13],
    ],
    [
        [4, 11, 2, 14, 15, 0, 8, 13, 3, 12, 9, 7, 5, 10, 6, 1],
        [13, 0, 11, 7, 4, 9, 1, 10, 14, 3, 5, 12, 2, 15, 8, 6],
        [1, 4, 11, 13, 12, 3, 7, 14, 10, 15, 6, 8, 0, 5, 9, 2],
        [6, 11, 13, 8, 1, 4, 10, 7, 9, 5, 0, 15, 14, 2, 3, 12],
    ],
    [
        [13, 2, 8, 4, 6, 15, 11, 1, 10, 9, 3, 14, 5, 0, 12, 7],
        [1, 15, 13, 8, 10, 3, 7, 4, 12, 5, 6, 11, 0, 14, 9, 2],
        [7, 11, 4, 1, 9, 12, 14, 2, 0, 6, 10, 13, 15, 3, 5, 8],
        [2, 1, 14, 7, 4, 10, 8, 13, 15, 12, 9, 0, 3, 5, 6, 11],
    ],
];

/// Generic bit permutation in the standard's numbering: output bit i (1-based from the MSB of an
/// `outw`-bit word) is input bit `table[i-1]` (1-based from the MSB of an `inw`-bit word).
/// Words are right-aligned in the u64.
pub fn permute(x: u64, inw: u32, table: &[u8]) -> u64 {
    let mut out = 0u64;
    let mut i = 0;
    while i < table.len() {
        let bit = (x >> (inw - table[i] as u32)) & 1;
        out = (out << 1) | bit;
        i += 1;
    }
    out
}

pub fn ip(x: u64) -> u64 { permute(x, 64, &IP) }
pub fn fp(x: u64) -> u64 { permute(x, 64, &FP) }
/// 32 -> 48 bits
pub fn e(r: u32) -> u64 { permute(r as u64, 32, &E) }
/// 32 -> 32 bits
pub fn p(x: u32) -> u32 { permute(x as u64, 32, &P) as u32 }
/// 64 -> 56 bits
pub fn pc1(k: u64) -> u64 { permute(k, 64, &PC1) }
/// 56 -> 48 bits
pub fn pc2(cd: u64) -> u64 { permute(cd, 56, &PC2) }

/// 48 -> 32 bits: eight 6-bit groups B1..B8; row = first and last bit, column = middle four.
pub fn sboxes(x: u64) -> u32 {
    let mut out = 0u32;
    let mut i = 0;
    while i < 8 {
        let b = ((x >> (42 - 6 * i)) & 0x3f) as usize;
        let row = ((b >> 4) & 2) | (b & 1);
        let col = (b >> 1) & 0xf;
        out = (out << 4) | S[i][row][col] as u32;
        i += 1;
    }
    out
}

/// The cipher function f(R, K) with a 48-bit K.
pub fn f(r: u32, k: u64) -> u32 { p(sboxes(e(r) ^ k)) }

pub fn rotl28(x: u32, n: u32) -> u32 { ((x << n) | (x >> (28 - n))) & 0x0fff_ffff }

/// KS: sixteen 48-bit subkeys K1..K16 (right-aligned).
pub fn key_schedule(key: u64) -> [u64; 16] {
    let cd = pc1(key);
    let mut c = (cd >> 28) as u32;
    let mut d = (cd & 0x0fff_ffff) as u32;
    let mut ks = [0u64; 16];
    let mut i = 0;
    while i < 16 {
        c = rotl28(c, SHIFTS[i] as u32);
        d = rotl28(d, SHIFTS[i] as u32);
        ks[i] = pc2(((c as u64) << 28) | d as u64);
        i += 1;
    }
    ks
}

/// One Feistel step on (L, R): L' = R, R' = L xor f(R, K).
pub fn feistel(l: u32, r: u32, k: u64) -> (u32, u32) { (r, l ^ f(r, k)) }

pub fn encrypt_with(ks: &[u64; 16], block: u64) -> u64 {
    let x = ip(block);
    let mut l = (x >> 32) as u32;
    let mut r = x as u32;
    let mut i = 0;
    while i < 16 {
        let (nl, nr) = feistel(l, r, ks[i]);
        l = nl;
        r = nr;
        i += 1;
    }
    fp(((r as u64) << 32) | l as u64)
}

pub fn decrypt_with(ks: &[u64; 16], block: u64) -> u64 {
    let x = ip(block);
    let mut l = (x >> 32) as u32;
    let mut r = x as u32;
    let mut i = 0;
    while i < 16 {
        let (nl, nr) = feistel(l, r, ks[15 - i]);
        l = nl;
        r = nr;
        i += 1;
    }
    fp(((r as u64) << 32) | l as u64)
}

pub fn encrypt(key: u64, block: u64) -> u64 { encrypt_with(&key_schedule(key), block) }
pub fn decrypt(key: u64, block: u64) -> u64 { decrypt_with(&key_schedule(key), block) }

/// SP 800-67 TDEA forward operation, keying option with three keys: E_K3(D_K2(E_K1(x))).
pub fn ede3_encrypt(k1: u64, k2: u64, k3: u64, x: u64) -> u64 { encrypt(k3, decrypt(k2, encrypt(k1, x))) }
pub fn ede3_decrypt(k1: u64, k2: u64, k3: u64, x: u64) -> u64 { decrypt(k1, encrypt(k2, decrypt(k3, x))) }
/// EEE: E_K3(E_K2(E_K1(x))).
pub fn eee3_encrypt(k1: u64, k2: u64, k3: u64, x: u64) -> u64 { encrypt(k3, encrypt(k2, encrypt(k1, x))) }
pub fn eee3_decrypt(k1: u64, k2: u64, k3: u64, x: u64) -> u64 { decrypt(k1, decrypt(k2, decrypt(k3, x))) }

/// Parity bits: the least significant bit of every key byte.
pub const PARITY_MASK: u64 = 0x0101_0101_0101_0101;

/// The 4 weak, 12 semi-weak and 48 possibly-weak DES keys (NIST SP 800-67 section 3.3.2 / FIPS 74),
/// by their structure rather than as a typed list: these are exactly the keys whose halves C and D
/// after PC-1 are both one of the eight 28-bit patterns of period dividing 4 that the rotation
/// schedule maps onto at most four values: 0000.., 1111.., 0101.., 1010.. (weak and semi-weak: both
/// halves among these four) and 0011.., 0110.., 1001.., 1100.. (possibly weak: at least one half
/// among these).  8 x 8 = 64 keys, the size of the NIST list; `nist_list_is_the_64_patterns` checks
/// the listed examples and the count.  Parity bits are dropped by PC-1, so the predicate ignores them.
pub const HALF_PATTERNS: [u32; 8] =
    [0x000_0000, 0xfff_ffff, 0x555_5555, 0xaaa_aaaa, 0x333_3333, 0x666_6666, 0x999_9999, 0xccc_cccc];

pub fn is_pattern(h: u32) -> bool {
    let mut r = false;
    let mut i = 0;
    while i < 8 {
        if h == HALF_PATTERNS[i] { r = true; }
        i += 1;
    }
    r
}

pub fn is_degenerate(key: u64) -> bool {
    let cd = pc1(key);
    let c = (cd >> 28) as u32;
    let d = (cd & 0x0fff_ffff) as u32;
    is_pattern(c) && is_pattern(d)
}

/// Inverse of PC-1 on the 56 key bits, parity bits set to make every byte odd: enumerates the list.
pub fn key_from_halves(c: u32, d: u32) -> u64 {
    let cd = ((c as u64) << 28) | d as u64;
    let mut k = 0u64;
    let mut i = 0;
    while i < 56 {
        let bit = (cd >> (55 - i)) & 1;
        k |= bit << (64 - PC1[i] as u32);
        i += 1;
    }
    let mut b = 0;
    while b < 8 {
        let byte = (k >> (8 * b)) & 0xfe;
        if (byte.count_ones() & 1) == 0 { k |= 1 << (8 * b); }
        b += 1;
    }
    k
}

/// The 64 listed keys (odd parity, big-endian words).
pub fn nist_weak_key(i: usize) -> u64 { key_from_halves(HALF_PATTERNS[i / 8], HALF_PATTERNS[i % 8]) }

#[cfg(test)]
mod tests {
    use super::*;
    #[test]
    fn classic_vector() {
        assert_eq!(encrypt(0x133457799BBCDFF1, 0x0123456789ABCDEF), 0x85E813540F0AB405);
        assert_eq!(decrypt(0x133457799BBCDFF1, 0x85E813540F0AB405), 0x0123456789ABCDEF);
    }
    #[test]
    fn nbs_vectors() {
        // NBS SP 500-20 variable plaintext / key known answer tests (first entries)
        assert_eq!(encrypt(0x0101010101010101, 0x8000000000000000), 0x95F8A5E5DD31D900);
        assert_eq!(encrypt(0x0101010101010101, 0x4000000000000000), 0xDD7F121CA5015619);
        assert_eq!(encrypt(0x8001010101010101, 0x0000000000000000), 0x95A8D72813DAA94D);
        assert_eq!(encrypt(0x7CA110454A1A6E57, 0x01A1D6D039776742), 0x690F5B0D9A26939B);
        assert_eq!(encrypt(0x0131D9619DC1376E, 0x5CD54CA83DEF57DA), 0x7A389D10354BD271);
    }
    #[test]
    fn weak_keys() {
        for k in [0x0101010101010101u64, 0xFEFEFEFEFEFEFEFE, 0xE0E0E0E0F1F1F1F1, 0x1F1F1F1F0E0E0E0E] {
            assert!(is_degenerate(k));
            // weak: encryption is an involution
            assert_eq!(encrypt(k, encrypt(k, 0x0123456789abcdef)), 0x0123456789abcdef);
        }
        // semi-weak pair
        assert!(is_degenerate(0x011F011F010E010E) && is_degenerate(0x1F011F010E010E01));
        assert_eq!(encrypt(0x1F011F010E010E01, encrypt(0x011F011F010E010E, 0x42)), 0x42);
        assert!(!is_degenerate(0x133457799BBCDFF1));
        // possibly weak example from the NIST list
        assert!(is_degenerate(0x01011F1F01010E0E));
        assert!(is_degenerate(0xFEFEE0E0FEFEF1F1));
    }
    #[test]
    fn nist_list_is_the_64_patterns() {
        // examples typed from SP 800-67: weak, semi-weak, possibly weak
        let listed = [0x0101010101010101u64, 0xFEFEFEFEFEFEFEFE, 0xE0E0E0E0F1F1F1F1, 0x1F1F1F1F0E0E0E0E,
            0x011F011F010E010E, 0x1F011F010E010E01, 0x01E001E001F101F1, 0xE001E001F101F101, 0x01FE01FE01FE01FE,
            0xFE01FE01FE01FE01, 0x1FE01FE00EF10EF1, 0xE01FE01FF10EF10E, 0x1FFE1FFE0EFE0EFE, 0xFE1FFE1FFE0EFE0E,
            0xE0FEE0FEF1FEF1FE, 0xFEE0FEE0FEF1FEF1, 0x01011F1F01010E0E, 0x1F1F01010E0E0101, 0xE0E01F1FF1F10E0E,
            0x0101E0E00101F1F1, 0xFEFEE0E0FEFEF1F1, 0xE0FE011FF1FE010E, 0x1F01FEE00E01FEF1];
        let mut all = [0u64; 64];
        for i in 0..64 { all[i] = nist_weak_key(i); assert!(is_degenerate(all[i])); }
        for i in 0..64 { for j in 0..i { assert_ne!(all[i], all[j]); } }
        for k in listed { assert!(all.contains(&k), "{:016x}", k); }
        // each has at most 4 distinct subkeys... weak keys exactly 1
        for i in 0..64 {
            let ks = key_schedule(all[i]);
            let mut distinct = 0;
            for a in 0..16 { if !(0..a).any(|b| ks[b] == ks[a]) { distinct += 1; } }
            assert!(distinct <= 4);
        }
        // and no key outside the list with a flipped key bit is degenerate
        assert!(!is_degenerate(all[5] ^ 0x02));
        assert!(is_degenerate(all[5] ^ 0x01));
    }
    #[test]
    fn tdea_degenerates_to_des() {
        let k = 0x0123456789abcdef;
        assert_eq!(ede3_encrypt(k, k, k, 77), encrypt(k, 77));
    }
}
