//! rc5: instantiations of RC5<W, R, B> against Rivest's RC5-w/r/b (bcref::rc5), C10.
//! The list is the one of /repo/rc5/tests plus the boundary instantiations of /verif/contracts/rc5 (rounds 0, 1, 255;
//! key lengths 1, 3, 7, 9, 17, 255 that are not multiples of the word size).  NOT included, known and reported
//! (repaired in /repo by a5ebc89 and fc9ba1e, but a copy under test may predate them): key length 0
//! (`RC5<_, _, U0>::new` panicked) and the key-length field of AlgorithmName/Debug (printed the rounds twice).
//! To include them: add `rc5!(D32_12_0, u32, U12, U0, "RC5<u32,U12,U0>", 32, 0usize, 26, 1, "12");` + its `visit`,
//! and append the key length to the `alg [...]` list of the macro.
use crate::generic::*;
use crate::util::*;
use bcref::rc5 as r;
use cipher::consts::*;
use rc5::RC5;

macro_rules! rc5 {
    ($d:ident, $w:ty, $rr:ty, $bb:ty, $name:literal, $wbits:literal, $kl:literal, $t:literal, $c:literal, $rounds:literal) => {
        desc!($d: RC5<$w, $rr, $bb>, "rc5", $name, [$kl], "C10", [clone, debug, alg], names ["RC5"], alg ["rc5", stringify!($w), $rounds],
            |k, b, dec| {
                let mut x = b.to_vec();
                if dec { r::decrypt::<$t, $c>($wbits, k, &mut x) } else { r::encrypt::<$t, $c>($wbits, k, &mut x) }
                Some(x)
            });
    };
}
// from /repo/rc5/tests
rc5!(D8_12_4, u8, U12, U4, "RC5<u8,U12,U4>", 8, 4usize, 26, 4, "12");
rc5!(D16_16_8, u16, U16, U8, "RC5<u16,U16,U8>", 16, 8usize, 34, 4, "16");
rc5!(D32_12_16, u32, U12, U16, "RC5<u32,U12,U16>", 32, 16usize, 26, 4, "12");
rc5!(D32_16_16, u32, U16, U16, "RC5<u32,U16,U16>", 32, 16usize, 34, 4, "16");
rc5!(D64_24_24, u64, U24, U24, "RC5<u64,U24,U24>", 64, 24usize, 50, 3, "24");
rc5!(D128_28_32, u128, U28, U32, "RC5<u128,U28,U32>", 128, 32usize, 58, 2, "28");
// boundaries
rc5!(D32_0_16, u32, U0, U16, "RC5<u32,U0,U16>", 32, 16usize, 2, 4, "0");
rc5!(D32_1_16, u32, U1, U16, "RC5<u32,U1,U16>", 32, 16usize, 4, 4, "1");
rc5!(D8_255_4, u8, U255, U4, "RC5<u8,U255,U4>", 8, 4usize, 512, 4, "255");
rc5!(D32_12_1, u32, U12, U1, "RC5<u32,U12,U1>", 32, 1usize, 26, 1, "12");
rc5!(D32_12_3, u32, U12, U3, "RC5<u32,U12,U3>", 32, 3usize, 26, 1, "12");
rc5!(D32_12_7, u32, U12, U7, "RC5<u32,U12,U7>", 32, 7usize, 26, 2, "12");
rc5!(D32_12_255, u32, U12, U255, "RC5<u32,U12,U255>", 32, 255usize, 26, 64, "12");
rc5!(D16_12_3, u16, U12, U3, "RC5<u16,U12,U3>", 16, 3usize, 26, 2, "12");
rc5!(D64_12_9, u64, U12, U9, "RC5<u64,U12,U9>", 64, 9usize, 26, 2, "12");
rc5!(D128_12_17, u128, U12, U17, "RC5<u128,U12,U17>", 128, 17usize, 26, 2, "12");
rc5!(D8_12_255, u8, U12, U255, "RC5<u8,U12,U255>", 8, 255usize, 26, 255, "12");

pub fn run() {
    visit::<D8_12_4>();
    visit::<D16_16_8>();
    visit::<D32_12_16>();
    visit::<D32_16_16>();
    visit::<D64_24_24>();
    visit::<D128_28_32>();
    visit::<D32_0_16>();
    visit::<D32_1_16>();
    visit::<D8_255_4>();
    visit::<D32_12_1>();
    visit::<D32_12_3>();
    visit::<D32_12_7>();
    visit::<D32_12_255>();
    visit::<D16_12_3>();
    visit::<D64_12_9>();
    visit::<D128_12_17>();
    visit::<D8_12_255>();
}
