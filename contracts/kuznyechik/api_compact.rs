// API-level obligations for the compact backend (--cfg kuznyechik_backend="compact_soft"): see api_common.inc for the harness bodies.
//
// @module file=kuznyechik/src/compact_soft/mod.rs
// @config name=compact rustflags='--cfg kuznyechik_backend="compact_soft"'
// @config name=compact_zeroize features=zeroize rustflags='--cfg kuznyechik_backend="compact_soft"'
use super::*;
use backends::__vp_compact::uf_expand;

macro_rules! with_key_stubs { ($i:item) => {
    #[kani::stub(backends::expand, uf_expand)]
    $i
}; }
const ENC_PAR: usize = 1;
const DEC_PAR: usize = 1; // width 1 in both directions: no parallel functions, the dispatch goes block by block
macro_rules! with_block_stubs { ($i:item) => {
    #[kani::stub(<backends::EncBackend<'_> as cipher::BlockCipherEncBackend>::encrypt_block, uf_enc_block)]
    #[kani::stub(<backends::DecBackend<'_> as cipher::BlockCipherDecBackend>::decrypt_block, uf_dec_block)]
    $i
}; }
macro_rules! with_spec_stubs { ($i:item) => {
    #[kani::stub(backends::expand, backends::__vp_compact::spec_expand)]
    #[kani::stub(backends::lsx, backends::__vp_compact::spec_lsx)]
    #[kani::stub(backends::lsx_inv, backends::__vp_compact::spec_lsx_inv)]
    $i
}; }
include!("@VERIF@/contracts/kuznyechik/api_common.inc");

// ---------------------------------------------------------------- C07 public API, C01 round trip (modular)
// The public entry points are proved against the contracts of the backend functions they call (with_spec_stubs!: key
// expansion := the standard's key schedule, key inversion := spec_inv_keys, transform / lsx / lsx_inv := their contracts),
// and the reference functions L, L^-1, key schedule that then occur on both sides are uninterpreted (lemmas.rs: `aipuf`
// = additive inverse pair, `kuf`), so these are statements about the plumbing between `new`, the conversions, the
// backend dispatch and the block functions, for every key and block.
use crate::__vp_lemmas::{aipuf, kuf, uf_lsx as ref_uf_lsx, uf_x_linv_sinv as ref_uf_x_linv_sinv};
use bcref::kuznyechik as kz;

// encryption: the reference LSX that occurs on both sides is the transcript oracle lemmas.rs `tro` (the standard's E is
// recorded, each instance must ask the same nine questions); the additive inverse pair used below for decryption made
// this harness time out
with_spec_stubs! {
    #[kani::proof]
    #[kani::stub(bcref::kuznyechik::key_schedule, kuf::key_schedule)]
    #[kani::stub(bcref::kuznyechik::lsx, crate::__vp_lemmas::tro::lsx)]
    #[kani::unwind(41)]
    fn a_api_enc() {
        use crate::__vp_lemmas::tro;
        let k: [u8; 32] = kani::any();
        let b: [u8; 16] = kani::any();
        let spec = kz::encrypt(&k, &b);
        assert!(tro::recorded() == 9);
        let c = Kuznyechik::new(&Array(k));
        let e = KuznyechikEnc::new(&Array(k));
        tro::start_replay();
        let mut blk = Array(b);
        cipher::BlockCipherEncrypt::encrypt_block(&c, &mut blk);
        assert!(tro::all_replayed());
        assert!(kz::eq(&blk.0, &spec));
        tro::start_replay();
        let mut blk = Array(b);
        cipher::BlockCipherEncrypt::encrypt_block(&e, &mut blk);
        assert!(tro::all_replayed());
        assert!(kz::eq(&blk.0, &spec));
    }
}

with_spec_stubs! {
    #[kani::proof]
    #[kani::stub(bcref::kuznyechik::key_schedule, kuf::key_schedule)]
    #[kani::stub(bcref::kuznyechik::l, aipuf::fwd)]
    #[kani::stub(bcref::kuznyechik::l_inv, aipuf::bwd)]
    #[kani::unwind(151)]
    fn a_api_dec() {
        // L^-1 calls: 0..8 the standard's D (arguments K_{10-i} ^ ..), 9..16 key inversion L^-1(K_2..K_9), 17..25 the backend;
        // call 17 + i (i = 1..8) has argument = argument i ^ argument (17 - i)  (additivity of L^-1; unused by the compact backend)
        let mut i = 1;
        while i <= 8 { aipuf::hint(17 + i, i, 17 - i); i += 1; }
        let k: [u8; 32] = kani::any();
        let b: [u8; 16] = kani::any();
        let spec = kz::decrypt(&k, &b);
        let c = Kuznyechik::new(&Array(k));
        let mut blk = Array(b);
        cipher::BlockCipherDecrypt::decrypt_block(&c, &mut blk);
        assert!(kz::eq(&blk.0, &spec));
    }

}
with_spec_stubs! {
    #[kani::proof]
    #[kani::stub(bcref::kuznyechik::key_schedule, kuf::key_schedule)]
    #[kani::stub(bcref::kuznyechik::l, aipuf::fwd)]
    #[kani::stub(bcref::kuznyechik::l_inv, aipuf::bwd)]
    #[kani::unwind(151)]
    fn a_api_dec_only() {
        // L^-1 calls: 0..8 the standard's D (arguments K_{10-i} ^ ..), 9..16 key inversion L^-1(K_2..K_9), 17..25 the backend;
        // call 17 + i (i = 1..8) has argument = argument i ^ argument (17 - i)  (additivity of L^-1; unused by the compact backend)
        let mut i = 1;
        while i <= 8 { aipuf::hint(17 + i, i, 17 - i); i += 1; }
        let k: [u8; 32] = kani::any();
        let b: [u8; 16] = kani::any();
        let spec = kz::decrypt(&k, &b);
        let d = KuznyechikDec::new(&Array(k));
        let mut blk = Array(b);
        cipher::BlockCipherDecrypt::decrypt_block(&d, &mut blk);
        assert!(kz::eq(&blk.0, &spec));
    }

}

// (registered for the compact backend, whose block functions are compositions of lsx / lsx_inv; for the table backends
// C01 rests on conformance + lemmas.l_ref_roundtrip, see api_tables.inc)
// C01 for every value of the ten ENCRYPTION round keys (not only reachable ones): the combined cipher built from them by
// the crate's own conversion, and the Enc / Dec halves.
with_spec_stubs! {
    #[kani::proof]
    #[kani::stub(bcref::kuznyechik::lsx, ref_uf_lsx)]
    #[kani::stub(bcref::kuznyechik::x_linv_sinv, ref_uf_x_linv_sinv)]
    #[kani::unwind(151)]
    fn r_roundtrip() {
        let e = any_e();
        let c = Kuznyechik::from(&e);
        let b: [u8; 16] = kani::any();
        let mut blk = Array(b);
        cipher::BlockCipherEncrypt::encrypt_block(&c, &mut blk);
        cipher::BlockCipherDecrypt::decrypt_block(&c, &mut blk);
        assert!(kz::eq(&blk.0, &b));
    }
}
with_spec_stubs! {
    #[kani::proof]
    #[kani::stub(bcref::kuznyechik::lsx, ref_uf_lsx)]
    #[kani::stub(bcref::kuznyechik::x_linv_sinv, ref_uf_x_linv_sinv)]
    #[kani::unwind(151)]
    fn r_roundtrip_rev() {
        let e = any_e();
        let c = Kuznyechik::from(&e);
        let b: [u8; 16] = kani::any();
        let mut blk = Array(b);
        cipher::BlockCipherDecrypt::decrypt_block(&c, &mut blk);
        cipher::BlockCipherEncrypt::encrypt_block(&c, &mut blk);
        assert!(kz::eq(&blk.0, &b));
    }
}
// (one order per harness: both orders in one harness timed out)
with_spec_stubs! {
    #[kani::proof]
    #[kani::stub(bcref::kuznyechik::lsx, ref_uf_lsx)]
    #[kani::stub(bcref::kuznyechik::x_linv_sinv, ref_uf_x_linv_sinv)]
    #[kani::unwind(151)]
    fn r_halves_ed() {
        let e = any_e();
        let d = KuznyechikDec::from(&e);
        let b: [u8; 16] = kani::any();
        let mut blk = Array(b);
        cipher::BlockCipherEncrypt::encrypt_block(&e, &mut blk);
        cipher::BlockCipherDecrypt::decrypt_block(&d, &mut blk);
        assert!(kz::eq(&blk.0, &b));
    }
}
with_spec_stubs! {
    #[kani::proof]
    #[kani::stub(bcref::kuznyechik::lsx, ref_uf_lsx)]
    #[kani::stub(bcref::kuznyechik::x_linv_sinv, ref_uf_x_linv_sinv)]
    #[kani::unwind(151)]
    fn r_halves_de() {
        let e = any_e();
        let d = KuznyechikDec::from(&e);
        let b: [u8; 16] = kani::any();
        let mut blk = Array(b);
        cipher::BlockCipherDecrypt::decrypt_block(&d, &mut blk);
        cipher::BlockCipherEncrypt::encrypt_block(&e, &mut blk);
        assert!(kz::eq(&blk.0, &b));
    }
}


// @ob name=a_api_enc cfg=compact props=C07,C20 fn=kuznyechik::Kuznyechik::new,kuznyechik::Kuznyechik::encrypt_with_backend,kuznyechik::KuznyechikEnc::new,kuznyechik::KuznyechikEnc::encrypt_with_backend uses=c_expand,c_lsx timeout=300
// @ob name=a_api_dec cfg=compact tier=thorough props=C07,C20 fn=kuznyechik::Kuznyechik::new,kuznyechik::Kuznyechik::decrypt_with_backend uses=c_expand,c_dec_block timeout=1800
// @ob name=a_api_dec_only cfg=compact tier=thorough props=C07,C20 fn=kuznyechik::KuznyechikDec::new,kuznyechik::KuznyechikDec::decrypt_with_backend uses=c_expand,c_dec_block timeout=1800
// @ob name=r_roundtrip cfg=compact props=C01 kind=lemma fn=kuznyechik::Kuznyechik::encrypt_with_backend,kuznyechik::Kuznyechik::decrypt_with_backend,kuznyechik::Kuznyechik::from uses=c_lsx,c_lsx_inv,l_ls_inverse timeout=600
// @ob name=r_roundtrip_rev cfg=compact props=C01 kind=lemma fn=kuznyechik::Kuznyechik::encrypt_with_backend,kuznyechik::Kuznyechik::decrypt_with_backend,kuznyechik::Kuznyechik::from uses=c_lsx,c_lsx_inv,l_ls_inverse timeout=600
// @ob name=r_halves_ed cfg=compact props=C01,C12 kind=lemma fn=kuznyechik::KuznyechikEnc::encrypt_with_backend,kuznyechik::KuznyechikDec::decrypt_with_backend,kuznyechik::KuznyechikDec::from uses=c_lsx,c_lsx_inv,l_ls_inverse timeout=300
// @ob name=r_halves_de cfg=compact props=C01,C12 kind=lemma fn=kuznyechik::KuznyechikEnc::encrypt_with_backend,kuznyechik::KuznyechikDec::decrypt_with_backend,kuznyechik::KuznyechikDec::from uses=c_lsx,c_lsx_inv,l_ls_inverse timeout=300
// @ob name=k_len cfg=compact props=C11 kind=bounded bound="slice length <= 300" fn=kuznyechik::Kuznyechik::new_from_slice uses=c_expand timeout=300
// @ob name=k_len_enc cfg=compact props=C11 kind=bounded bound="slice length <= 300" fn=kuznyechik::KuznyechikEnc::new_from_slice uses=c_expand timeout=300
// @ob name=k_len_dec cfg=compact props=C11 kind=bounded bound="slice length <= 300" fn=kuznyechik::KuznyechikDec::new_from_slice uses=c_expand timeout=300
// @ob name=k_same_state cfg=compact tier=thorough props=C11,C12,C13 fn=kuznyechik::Kuznyechik::new,kuznyechik::KuznyechikEnc::new,kuznyechik::KuznyechikDec::new,kuznyechik::Kuznyechik::from,kuznyechik::KuznyechikDec::from,kuznyechik::compact_soft::EncKeys::new,kuznyechik::compact_soft::EncDecKeys::from,kuznyechik::compact_soft::DecKeys::from uses=c_expand timeout=1800
// @ob name=k_clone cfg=compact props=C12 fn=kuznyechik::Kuznyechik::clone,kuznyechik::KuznyechikEnc::clone,kuznyechik::KuznyechikDec::clone timeout=300
// @ob name=k_convert_any_state cfg=compact props=C12 fn=kuznyechik::Kuznyechik::from,kuznyechik::KuznyechikDec::from timeout=300
// @ob name=n_kuznyechik cfg=compact props=C19 fn=kuznyechik::Kuznyechik::fmt,kuznyechik::Kuznyechik::write_alg_name timeout=300
// @ob name=n_kuznyechik_enc cfg=compact props=C19 fn=kuznyechik::KuznyechikEnc::fmt,kuznyechik::KuznyechikEnc::write_alg_name timeout=300
// @ob name=n_kuznyechik_dec cfg=compact props=C19 fn=kuznyechik::KuznyechikDec::fmt,kuznyechik::KuznyechikDec::write_alg_name timeout=300
// @ob name=z_kuznyechik cfg=compact_zeroize props=C16 fn=kuznyechik::Kuznyechik::drop timeout=300
// @ob name=z_kuznyechik_enc cfg=compact_zeroize props=C16 fn=kuznyechik::KuznyechikEnc::drop timeout=300
// @ob name=z_kuznyechik_dec cfg=compact_zeroize props=C16 fn=kuznyechik::KuznyechikDec::drop timeout=300
// @ob name=z_kuznyechik_clone cfg=compact_zeroize props=C16 fn=kuznyechik::Kuznyechik::drop,kuznyechik::Kuznyechik::clone timeout=300
// @ob name=z_kuznyechik_from_ref cfg=compact_zeroize props=C16 fn=kuznyechik::Kuznyechik::drop,kuznyechik::Kuznyechik::from timeout=300
// @ob name=z_kuznyechik_from_val cfg=compact_zeroize props=C16 fn=kuznyechik::Kuznyechik::drop,kuznyechik::Kuznyechik::from timeout=300
// @ob name=z_kuznyechik_dec_from_ref cfg=compact_zeroize props=C16 fn=kuznyechik::KuznyechikDec::drop,kuznyechik::KuznyechikDec::from timeout=300
// @ob name=z_kuznyechik_dec_from_val cfg=compact_zeroize props=C16 fn=kuznyechik::KuznyechikDec::drop,kuznyechik::KuznyechikDec::from timeout=300

// parallel width 1 in both directions: n = 0, 1, 3 (block functions replaced by uninterpreted stand-ins, see api_common.inc)
// @ob name=m_enc_0 cfg=compact props=C04,C15 kind=bounded bound="n = 0 block(s)" fn=kuznyechik::Kuznyechik::encrypt_with_backend uses=c_enc_block timeout=300
multi_enc!(m_enc_0, Kuznyechik, SZ, 0);
// @ob name=m_enc_1 cfg=compact props=C04,C15 kind=bounded bound="n = 1 block(s)" fn=kuznyechik::Kuznyechik::encrypt_with_backend uses=c_enc_block timeout=300
multi_enc!(m_enc_1, Kuznyechik, SZ, 1);
// @ob name=m_enc_3 cfg=compact props=C04,C15 kind=bounded bound="n = 3 block(s)" fn=kuznyechik::Kuznyechik::encrypt_with_backend uses=c_enc_block timeout=300
multi_enc!(m_enc_3, Kuznyechik, SZ, 3);
// @ob name=m_enconly_3 cfg=compact props=C04,C15 kind=bounded bound="n = 3 block(s)" fn=kuznyechik::KuznyechikEnc::encrypt_with_backend uses=c_enc_block timeout=300
multi_enc!(m_enconly_3, KuznyechikEnc, SZE, 3);
// @ob name=m_dec_0 cfg=compact props=C04,C15 kind=bounded bound="n = 0 block(s)" fn=kuznyechik::Kuznyechik::decrypt_with_backend uses=c_dec_block timeout=300
multi_dec!(m_dec_0, Kuznyechik, SZ, 0);
// @ob name=m_dec_1 cfg=compact props=C04,C15 kind=bounded bound="n = 1 block(s)" fn=kuznyechik::Kuznyechik::decrypt_with_backend uses=c_dec_block timeout=300
multi_dec!(m_dec_1, Kuznyechik, SZ, 1);
// @ob name=m_dec_3 cfg=compact props=C04,C15 kind=bounded bound="n = 3 block(s)" fn=kuznyechik::Kuznyechik::decrypt_with_backend uses=c_dec_block timeout=300
multi_dec!(m_dec_3, Kuznyechik, SZ, 3);
// @ob name=m_deconly_3 cfg=compact props=C04,C15 kind=bounded bound="n = 3 block(s)" fn=kuznyechik::KuznyechikDec::decrypt_with_backend uses=c_dec_block timeout=300
multi_dec!(m_deconly_3, KuznyechikDec, SZD, 3);
