// TEMPORARY sanity mutations (expected: every obligation here is REFUTED).  Not part of the ledger; deleted after the run.
// @module file=kuznyechik/src/sse2/backends.rs
use super::*;
use crate::sse2::backends::__vp_sse2::{any_word, bytes};
use crate::__vp_lemmas::auf;
use bcref::kuznyechik as kz;

// @ob name=mut_sub_bytes props=C07 timeout=300
#[kani::proof]
#[kani::unwind(17)]
fn mut_sub_bytes() {
    let b = any_word();
    assert!(kz::eq(&bytes(unsafe { sub_bytes(b, &P) }), &kz::s_inv(&bytes(b)))); // wrong table
}
// @ob name=mut_gft props=C07 timeout=300
#[kani::proof]
#[kani::unwind(17)]
fn mut_gft() {
    let v: u8 = kani::any();
    assert!(crate::gft::GFT_148[v as usize] == kz::gf_mul(149, v)); // wrong coefficient
}
// @ob name=mut_decomp props=C07 timeout=300
#[kani::proof]
#[kani::stub(bcref::kuznyechik::l, auf::f)]
#[kani::unwind(53)]
fn mut_decomp() {
    let mut i = 0;
    while i < 16 { auf::hint(2 + 2 * i, 2 * i, 1 + 2 * i); i += 1; }
    auf::hint(33, 32, auf::SAME);
    let a: [u8; 16] = kani::any();
    let mut p = [0u8; 16];
    let mut acc = kz::l(&p);
    let mut i = 0;
    while i < 16 {
        let u = kz::unit(i, a[i]);
        let lu = kz::l(&u);
        p = kz::xor(&p, &u);
        if i != 7 { acc = kz::xor(&acc, &lu); } // one term dropped
        let _ = kz::l(&p);
        i += 1;
    }
    assert!(kz::eq(&kz::l(&a), &acc));
}
