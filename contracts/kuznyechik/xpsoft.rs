// TEMP experiments
// @module file=kuznyechik/src/big_soft/backends.rs
// @config name=soft rustflags='--cfg kuznyechik_backend="soft"'
use super::*;
use crate::fused_tables::__vp_fused_tables::entry;

// @ob name=e1_read_nondet cfg=soft props=C07 timeout=300
#[kani::proof]
#[kani::unwind(17)]
fn e1_read_nondet() {
    let t: Table = crate::utils::Align16(kani::any());
    let i: usize = kani::any();
    kani::assume(i < 65536);
    let j: usize = kani::any();
    kani::assume(j < 65536);
    if i == j { assert!(t.0[i] == t.0[j]); }
}

// @ob name=e2_cast_nondet cfg=soft props=C07 timeout=300
#[kani::proof]
#[kani::unwind(17)]
fn e2_cast_nondet() {
    let t: Table = crate::utils::Align16(kani::any());
    let tt: &[[u128; 256]; 16] = unsafe { &*(t.0.as_ptr().cast()) };
    let v: u8 = kani::any();
    let w = tt[3][v as usize];
    assert!(w.to_le_bytes()[5] == t.0[16 * (256 * 3 + v as usize) + 5]);
}

// @ob name=e3_real_table cfg=soft props=C07 timeout=300
#[kani::proof]
#[kani::unwind(17)]
fn e3_real_table() {
    let b: u128 = kani::any();
    let r = transform(b, &ENC_TABLE);
    let r2 = transform(b, &ENC_TABLE);
    assert!(r == r2);
}
