// @module file=aes/src/soft/fixslice64.rs
// @crateattr recursion_limit = "2048"
use super::*;
use super::__vp_fixslice::*;
use bcref::aes as fips;

/// FIPS round keys of lane j decoded from fixsliced round keys (non-compact layout):
/// rk_i = ShiftRows^{f(i)}(lane_j(inv_bitslice(rkeys[8i..8i+8]))) xor (i > 0 ? 0x63.. : 0), f(i) = i mod 4 for 0 < i < Nr, f(0) = f(Nr) = 0
pub fn decode_keys<const N: usize>(rkeys: &[u64], j: usize) -> [[u8; 16]; N] {
    let mut out = [[0u8; 16]; N];
    let mut i = 0;
    while i < N {
        let b = spec_inv_bitslice(&rkeys[8 * i..8 * i + 8]);
        let f = if i == 0 || i == N - 1 { 0 } else { i % 4 };
        let mut k = fips::shift_rows_k(&b[j], f);
        if i > 0 { k = fips::xor_block(&k, &[0x63; 16]); }
        out[i] = k;
        i += 1;
    }
    out
}

// @ob name=p_enc128_anykeys props=CXX timeout=1800
#[kani::proof]
#[kani::stub(bitslice, spec_bitslice_fn)]
#[kani::stub(inv_bitslice, spec_inv_bitslice_fn)]
#[kani::stub(sub_bytes, spec_sub_bytes)]
#[kani::stub(mix_columns_0, spec_mix_columns_0)]
#[kani::stub(mix_columns_1, spec_mix_columns_1)]
#[kani::stub(mix_columns_2, spec_mix_columns_2)]
#[kani::stub(mix_columns_3, spec_mix_columns_3)]
#[kani::stub(shift_rows_2, spec_shift_rows_2)]
#[kani::unwind(20)]
fn p_enc128_anykeys() {
    let rk: [u64; 88] = kani::any();
    let b: [u8; 16] = kani::any();
    let mut blocks = BatchBlocks::default();
    blocks[0] = Array(b);
    let out = aes128_encrypt(&rk, &blocks);
    let want = fips::cipher::<11>(&decode_keys::<11>(&rk, 0), &b);
    let mut i = 0;
    while i < 16 {
        assert!(out[0].0[i] == want[i]);
        i += 1;
    }
}
