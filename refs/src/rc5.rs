//! RC5-w/r/b after R. L. Rivest, "The RC5 Encryption Algorithm" (FSE 1994, revised March 20, 1997):
//! section 3 (parameters, notation), 4.1 encryption, 4.2 decryption, 4.3 key expansion
//! (magic constants P_w = Odd((e-2) 2^w), Q_w = Odd((phi-1) 2^w); L from the key bytes; S; mixing).
//!
//! One implementation for every word size w <= 128: words are carried in `u128` and every operation
//! is reduced mod 2^w explicitly (`add`, `sub`, `rotl`, `rotr` below), so w is an ordinary parameter.
//! t = 2(r+1) words of expanded key, c = max(1, ceil(8b/w)) words of key (the paper: "c = ceil(max(b,1)/u)",
//! u = w/8), b = 0 allowed.  Array sizes are const generics supplied by the caller (T = t, C = c) and checked.
//! Blocks are two w-bit words (A, B); on bytes the paper's convention is little-endian: the first u bytes are A.

/// binary expansion of e - 2 = 0.B7E15162 8AED2A6A BF715880 9CF4F3C7 62E7160F 38B4DA56 ... (first 192 bits)
pub const E_MINUS_2: [u64; 3] = [0xb7e151628aed2a6a, 0xbf7158809cf4f3c7, 0x62e7160f38b4da56];
/// binary expansion of phi - 1 = (sqrt(5) - 1)/2 = 0.9E3779B9 7F4A7C15 F39CC060 5CEDC834 1082276B F3A27251 ...
pub const PHI_MINUS_1: [u64; 3] = [0x9e3779b97f4a7c15, 0xf39cc0605cedc834, 0x1082276bf3a27251];

/// 2^w - 1
pub const fn mask(w: u32) -> u128 {
    if w >= 128 { u128::MAX } else { (1u128 << w) - 1 }
}

/// Odd(x 2^w) for x = 0.f0 f1 f2 (binary fraction): "the odd integer nearest to" x 2^w.
/// floor(x 2^w) if that is odd, otherwise floor + 1 (x 2^w is irrational, so never an integer and never a tie:
/// an even floor n has n+1 at distance < 1 and n-1 at distance > 1; an odd floor n is at distance < 1, n+2 at > 1).
pub const fn odd_scaled(frac: &[u64; 3], w: u32) -> u128 {
    let top = ((frac[0] as u128) << 64) | frac[1] as u128; // floor(x 2^128)
    let fl = if w >= 128 { top } else { top >> (128 - w) };
    if fl & 1 == 1 { fl } else { fl + 1 }
}
pub const fn p_w(w: u32) -> u128 { odd_scaled(&E_MINUS_2, w) }
pub const fn q_w(w: u32) -> u128 { odd_scaled(&PHI_MINUS_1, w) }

/// section 3, primitive operations on w-bit words
pub const fn add(w: u32, a: u128, b: u128) -> u128 { a.wrapping_add(b) & mask(w) }
pub const fn sub(w: u32, a: u128, b: u128) -> u128 { a.wrapping_sub(b) & mask(w) }
/// rotation amount: "only the lg(w) low-order bits of y are used" (w a power of two), i.e. y mod w in general
pub const fn rot_amount(w: u32, y: u128) -> u32 {
    if w.is_power_of_two() { (y & (w as u128 - 1)) as u32 } else { (y % (w as u128)) as u32 }
}
/// x <<< y
pub const fn rotl(w: u32, x: u128, y: u128) -> u128 {
    let n = rot_amount(w, y);
    if n == 0 { x & mask(w) } else { ((x << n) | ((x & mask(w)) >> (w - n))) & mask(w) }
}
pub const fn rotr(w: u32, x: u128, y: u128) -> u128 {
    let n = rot_amount(w, y);
    if n == 0 { x & mask(w) } else { (((x & mask(w)) >> n) | (x << (w - n))) & mask(w) }
}

/// c = max(1, ceil(8b/w))
pub const fn key_words(w: u32, b: usize) -> usize {
    let u = (w / 8) as usize;
    let c = (b + u - 1) / u;
    if c == 0 { 1 } else { c }
}

/// 4.3, first step: L[0..c-1] from K[0..b-1]:  for i = b-1 downto 0: L[i/u] = (L[i/u] <<< 8) + K[i]
pub fn key_to_words<const C: usize>(w: u32, key: &[u8]) -> [u128; C] {
    assert!(w % 8 == 0 && w >= 8 && w <= 128);
    assert!(key.len() <= 255 && C == key_words(w, key.len()));
    let u = (w / 8) as usize;
    let mut l = [0u128; C];
    let mut i = key.len();
    while i > 0 {
        i -= 1;
        l[i / u] = add(w, rotl(w, l[i / u], 8), key[i] as u128);
    }
    l
}

/// 4.3, second step: S[0] = P_w; S[i] = S[i-1] + Q_w
pub fn init_s<const T: usize>(w: u32) -> [u128; T] {
    assert!(T >= 2 && T % 2 == 0);
    let mut s = [0u128; T];
    s[0] = p_w(w);
    let mut i = 1;
    while i < T {
        s[i] = add(w, s[i - 1], q_w(w));
        i += 1;
    }
    s
}

/// 4.3, third step: mix in the secret key, 3 max(t, c) times
pub fn mix<const T: usize, const C: usize>(w: u32, mut s: [u128; T], mut l: [u128; C]) -> [u128; T] {
    let (mut i, mut j) = (0usize, 0usize);
    let (mut a, mut b) = (0u128, 0u128);
    let n = 3 * if T > C { T } else { C };
    let mut k = 0;
    while k < n {
        s[i] = rotl(w, add(w, add(w, s[i], a), b), 3);
        a = s[i];
        l[j] = rotl(w, add(w, add(w, l[j], a), b), add(w, a, b));
        b = l[j];
        i = (i + 1) % T;
        j = (j + 1) % C;
        k += 1;
    }
    s
}

/// key expansion: S[0..t-1], t = T = 2(r+1), from the b = key.len() key bytes; C = key_words(w, b)
pub fn key_expansion<const T: usize, const C: usize>(w: u32, key: &[u8]) -> [u128; T] {
    mix::<T, C>(w, init_s::<T>(w), key_to_words::<C>(w, key))
}

/// 4.1: A = A + S[0]; B = B + S[1]; for i = 1 to r: A = ((A xor B) <<< B) + S[2i]; B = ((B xor A) <<< A) + S[2i+1]
pub fn encrypt_words<const T: usize>(w: u32, s: &[u128; T], a: u128, b: u128) -> (u128, u128) {
    let r = T / 2 - 1;
    let mut a = add(w, a, s[0]);
    let mut b = add(w, b, s[1]);
    let mut i = 1;
    while i <= r {
        a = add(w, rotl(w, a ^ b, b), s[2 * i]);
        b = add(w, rotl(w, b ^ a, a), s[2 * i + 1]);
        i += 1;
    }
    (a, b)
}

/// 4.2: for i = r downto 1: B = ((B - S[2i+1]) >>> A) xor A; A = ((A - S[2i]) >>> B) xor B;  B = B - S[1]; A = A - S[0]
pub fn decrypt_words<const T: usize>(w: u32, s: &[u128; T], a: u128, b: u128) -> (u128, u128) {
    let r = T / 2 - 1;
    let (mut a, mut b) = (a, b);
    let mut i = r;
    while i >= 1 {
        b = rotr(w, sub(w, b, s[2 * i + 1]), a) ^ a;
        a = rotr(w, sub(w, a, s[2 * i]), b) ^ b;
        i -= 1;
    }
    b = sub(w, b, s[1]);
    a = sub(w, a, s[0]);
    (a, b)
}

/// little-endian w-bit word from u = w/8 bytes
pub fn word_from_le(w: u32, bytes: &[u8]) -> u128 {
    let u = (w / 8) as usize;
    let mut x = 0u128;
    let mut i = u;
    while i > 0 {
        i -= 1;
        x = (x << 8) | bytes[i] as u128;
    }
    x
}
pub fn word_to_le(w: u32, x: u128, out: &mut [u8]) {
    let u = (w / 8) as usize;
    let mut i = 0;
    while i < u {
        out[i] = (x >> (8 * i)) as u8;
        i += 1;
    }
}

/// RC5-w/r/b on bytes: block of 2u bytes (A first, little-endian words), r = T/2 - 1, b = key.len()
pub fn encrypt<const T: usize, const C: usize>(w: u32, key: &[u8], block: &mut [u8]) {
    let u = (w / 8) as usize;
    let s = key_expansion::<T, C>(w, key);
    let (a, b) = encrypt_words::<T>(w, &s, word_from_le(w, &block[..u]), word_from_le(w, &block[u..2 * u]));
    word_to_le(w, a, &mut block[..u]);
    word_to_le(w, b, &mut block[u..2 * u]);
}
pub fn decrypt<const T: usize, const C: usize>(w: u32, key: &[u8], block: &mut [u8]) {
    let u = (w / 8) as usize;
    let s = key_expansion::<T, C>(w, key);
    let (a, b) = decrypt_words::<T>(w, &s, word_from_le(w, &block[..u]), word_from_le(w, &block[u..2 * u]));
    word_to_le(w, a, &mut block[..u]);
    word_to_le(w, b, &mut block[u..2 * u]);
}

/// The same algorithm (sections 4.1-4.3, same text as above) on the machine word of width w, for w = 8, 16, 32, 64, 128:
/// `+` is `wrapping_add` (addition mod 2^w), `x <<< y` is `rotate_left` by y mod w.  These instances exist because the
/// real code works on native words; against them the verifier sees the same operations and proves equality
/// structurally.  `tests::native_instances_agree` ties them to the width-parametric functions above.
macro_rules! native_rc5 {
    ($m:ident, $ty:ty, $w:expr) => {
        pub mod $m {
            pub const W: u32 = $w;
            pub const U: usize = $w / 8;
            pub const P: $ty = super::p_w($w) as $ty;
            pub const Q: $ty = super::q_w($w) as $ty;
            /// x <<< y: rotation by y mod w.  (`rotate_left(n)` of the standard library rotates by n mod w for every n: u32;
            /// the amount is reduced first only where `y as u32` would truncate, i.e. for w > 32.)
            #[inline(always)]
            pub fn rotl(x: $ty, y: $ty) -> $ty { if $w <= 32 { x.rotate_left(y as u32) } else { x.rotate_left((y % ($w as $ty)) as u32) } }
            #[inline(always)]
            pub fn rotr(x: $ty, y: $ty) -> $ty { if $w <= 32 { x.rotate_right(y as u32) } else { x.rotate_right((y % ($w as $ty)) as u32) } }
            pub fn key_to_words<const C: usize>(key: &[u8]) -> [$ty; C] {
                assert!(key.len() <= 255 && C == super::key_words($w, key.len()));
                let mut l = [0 as $ty; C];
                let mut i = key.len();
                while i > 0 {
                    i -= 1;
                    l[i / U] = rotl(l[i / U], 8).wrapping_add(key[i] as $ty);
                }
                l
            }
            pub fn init_s<const T: usize>() -> [$ty; T] {
                assert!(T >= 2 && T % 2 == 0);
                let mut s = [0 as $ty; T];
                s[0] = P;
                let mut i = 1;
                while i < T {
                    s[i] = s[i - 1].wrapping_add(Q);
                    i += 1;
                }
                s
            }
            pub fn mix<const T: usize, const C: usize>(mut s: [$ty; T], mut l: [$ty; C]) -> [$ty; T] {
                let (mut i, mut j) = (0usize, 0usize);
                let (mut a, mut b): ($ty, $ty) = (0, 0);
                let n = 3 * if T > C { T } else { C };
                let mut k = 0;
                while k < n {
                    s[i] = rotl(s[i].wrapping_add(a).wrapping_add(b), 3);
                    a = s[i];
                    l[j] = rotl(l[j].wrapping_add(a).wrapping_add(b), a.wrapping_add(b));
                    b = l[j];
                    i = (i + 1) % T;
                    j = (j + 1) % C;
                    k += 1;
                }
                s
            }
            pub fn key_expansion<const T: usize, const C: usize>(key: &[u8]) -> [$ty; T] {
                mix::<T, C>(init_s::<T>(), key_to_words::<C>(key))
            }
            pub fn encrypt_words<const T: usize>(s: &[$ty; T], a: $ty, b: $ty) -> ($ty, $ty) {
                let r = T / 2 - 1;
                let mut a = a.wrapping_add(s[0]);
                let mut b = b.wrapping_add(s[1]);
                let mut i = 1;
                while i <= r {
                    a = rotl(a ^ b, b).wrapping_add(s[2 * i]);
                    b = rotl(b ^ a, a).wrapping_add(s[2 * i + 1]);
                    i += 1;
                }
                (a, b)
            }
            pub fn decrypt_words<const T: usize>(s: &[$ty; T], a: $ty, b: $ty) -> ($ty, $ty) {
                let r = T / 2 - 1;
                let (mut a, mut b) = (a, b);
                let mut i = r;
                while i >= 1 {
                    b = rotr(b.wrapping_sub(s[2 * i + 1]), a) ^ a;
                    a = rotr(a.wrapping_sub(s[2 * i]), b) ^ b;
                    i -= 1;
                }
                b = b.wrapping_sub(s[1]);
                a = a.wrapping_sub(s[0]);
                (a, b)
            }
            /// little-endian word
            pub fn word_from_le(bytes: &[u8]) -> $ty {
                let mut x: $ty = 0;
                let mut i = U;
                while i > 0 {
                    i -= 1;
                    x = if U == 1 { bytes[i] as $ty } else { (x << 8) | bytes[i] as $ty };
                }
                x
            }
        }
    };
}
native_rc5!(w8, u8, 8);
native_rc5!(w16, u16, 16);
native_rc5!(w32, u32, 32);
native_rc5!(w64, u64, 64);
native_rc5!(w128, u128, 128);

#[cfg(test)]
mod tests {
    use super::*;

    #[test]
    fn magic_constants_as_printed_in_the_paper() {
        // section 4.3: "P16 = b7e1, Q16 = 9e37, P32 = b7e15163, Q32 = 9e3779b9, P64 = b7e151628aed2a6b, Q64 = 9e3779b97f4a7c15"
        assert_eq!(p_w(16), 0xb7e1);
        assert_eq!(q_w(16), 0x9e37);
        assert_eq!(p_w(32), 0xb7e15163);
        assert_eq!(q_w(32), 0x9e3779b9);
        assert_eq!(p_w(64), 0xb7e151628aed2a6b);
        assert_eq!(q_w(64), 0x9e3779b97f4a7c15);
        // by the same definition
        assert_eq!(p_w(8), 0xb7);
        assert_eq!(q_w(8), 0x9f);
        assert_eq!(p_w(128), 0xb7e151628aed2a6abf7158809cf4f3c7);
        assert_eq!(q_w(128), 0x9e3779b97f4a7c15f39cc0605cedc835);
    }

    /// e - 2 = sum_{k>=2} 1/k!, in 256-bit fixed point (4 limbs, most significant first): checks the typed expansion
    #[test]
    fn e_minus_2_expansion() {
        let mut term = [1u64 << 63, 0, 0, 0]; // 1/2!
        let mut sum = term;
        let mut k = 3u128;
        while k < 70 {
            // term /= k
            let mut rem = 0u128;
            for limb in term.iter_mut() {
                let cur = (rem << 64) | *limb as u128;
                *limb = (cur / k) as u64;
                rem = cur % k;
            }
            // sum += term
            let mut carry = 0u128;
            for i in (0..4).rev() {
                let t = sum[i] as u128 + term[i] as u128 + carry;
                sum[i] = t as u64;
                carry = t >> 64;
            }
            k += 1;
        }
        assert_eq!([sum[0], sum[1]], [E_MINUS_2[0], E_MINUS_2[1]]);
        // third limb up to truncation error of the series (< 70 ulp of the fourth limb)
        assert_eq!(sum[2], E_MINUS_2[2]);
    }

    /// x = phi - 1 is the positive root of x^2 + x - 1, so X = floor(x 2^128) is characterised by
    /// X^2 + X 2^128 < 2^256 <= (X+1)^2 + (X+1) 2^128: checks the first 128 bits of the typed expansion
    #[test]
    fn phi_minus_1_expansion() {
        const M: u128 = 0xffff_ffff_ffff_ffff;
        fn mul_wide(a: u128, b: u128) -> (u128, u128) {
            let (ah, al, bh, bl) = (a >> 64, a & M, b >> 64, b & M);
            let (ll, lh, hl, hh) = (al * bl, al * bh, ah * bl, ah * bh);
            let mid = (ll >> 64) + (lh & M) + (hl & M);
            ((hh + (lh >> 64) + (hl >> 64) + (mid >> 64)), (ll & M) | ((mid & M) << 64))
        }
        // x^2 + x 2^128 < 2^256  <=>  hi(x^2) + x does not overflow 128 bits
        fn below_one(x: u128) -> bool { mul_wide(x, x).0.checked_add(x).is_some() }
        let x = ((PHI_MINUS_1[0] as u128) << 64) | PHI_MINUS_1[1] as u128;
        assert!(below_one(x));
        assert!(!below_one(x + 1));
    }

    fn hex<const N: usize>(s: &str) -> [u8; N] {
        let b = s.as_bytes();
        let mut out = [0u8; N];
        let mut n = 0;
        let mut i = 0;
        while i < b.len() {
            if b[i] == b' ' { i += 1; continue; }
            let hi = (b[i] as char).to_digit(16).unwrap() as u8;
            let lo = (b[i + 1] as char).to_digit(16).unwrap() as u8;
            out[n] = hi << 4 | lo;
            n += 1;
            i += 2;
        }
        assert_eq!(n, N);
        out
    }

    /// Rivest's paper, section 5 ("Examples"): RC5-32/12/16, words printed as A B
    #[test]
    fn paper_examples_rc5_32_12_16() {
        let ex: [(&str, u32, u32, u32, u32); 5] = [
            ("00 00 00 00 00 00 00 00 00 00 00 00 00 00 00 00", 0x00000000, 0x00000000, 0xEEDBA521, 0x6D8F4B15),
            ("91 5F 46 19 BE 41 B2 51 63 55 A5 01 10 A9 CE 91", 0xEEDBA521, 0x6D8F4B15, 0xAC13C0F7, 0x52892B5B),
            ("78 33 48 E7 5A EB 0F 2F D7 B1 69 BB 8D C1 67 87", 0xAC13C0F7, 0x52892B5B, 0xB7B3422F, 0x92FC6903),
            ("DC 49 DB 13 75 A5 58 4F 64 85 B4 13 B5 F1 2B AF", 0xB7B3422F, 0x92FC6903, 0xB278C165, 0xCC97D184),
            ("52 69 F1 49 D4 1B A0 15 24 97 57 4D 7F 15 31 25", 0xB278C165, 0xCC97D184, 0x15E444EB, 0x249831DA),
        ];
        for (k, pa, pb, ca, cb) in ex {
            let key: [u8; 16] = hex(k);
            let s = key_expansion::<26, 4>(32, &key);
            assert_eq!(encrypt_words(32, &s, pa as u128, pb as u128), (ca as u128, cb as u128));
            assert_eq!(decrypt_words(32, &s, ca as u128, cb as u128), (pa as u128, pb as u128));
        }
    }

    /// draft-krovetz-rc6-rc5-vectors-00 (the vectors also used by /repo/rc5/tests): one per word size
    #[test]
    fn krovetz_vectors() {
        fn run<const T: usize, const C: usize, const KB: usize, const BB: usize>(w: u32, k: &str, p: &str, c: &str) {
            let key: [u8; KB] = hex(k);
            let pt: [u8; BB] = hex(p);
            let ct: [u8; BB] = hex(c);
            let mut blk = pt;
            encrypt::<T, C>(w, &key, &mut blk);
            assert_eq!(blk, ct);
            decrypt::<T, C>(w, &key, &mut blk);
            assert_eq!(blk, pt);
        }
        run::<26, 4, 4, 2>(8, "00010203", "0001", "212A");
        run::<34, 4, 8, 4>(16, "0001020304050607", "00010203", "23A8D72E");
        run::<26, 4, 16, 8>(32, "000102030405060708090A0B0C0D0E0F", "0001020304050607", "C8D3B3C486700CFA");
        run::<34, 4, 16, 8>(32, "000102030405060708090A0B0C0D0E0F", "0001020304050607", "3E2E95357027D896");
        run::<50, 3, 24, 16>(64, "000102030405060708090A0B0C0D0E0F1011121314151617", "000102030405060708090A0B0C0D0E0F", "A46772820EDBCE0235ABEA32AE7178DA");
        run::<58, 2, 32, 32>(128, "000102030405060708090A0B0C0D0E0F101112131415161718191A1B1C1D1E1F",
            "000102030405060708090A0B0C0D0E0F101112131415161718191A1B1C1D1E1F",
            "ECA5910921A4F4CFDD7AD7AD20A1FCBA068EC7A7CD752D68FE914B7FE180B440");
    }

    /// the native-word instances are the width-parametric functions (vectors + pseudo-random samples, all five widths)
    #[test]
    fn native_instances_agree() {
        macro_rules! agree {
            ($m:ident, $ty:ty, $w:expr, $t:expr, $c:expr, $b:expr) => {{
                let mut seed = 0x9e3779b97f4a7c15u64;
                let mut next = move || { seed ^= seed << 13; seed ^= seed >> 7; seed ^= seed << 17; seed };
                for _ in 0..50 {
                    let mut key = [0u8; $b];
                    for k in key.iter_mut() { *k = next() as u8; }
                    let g = key_expansion::<$t, $c>($w, &key);
                    let n = $m::key_expansion::<$t, $c>(&key);
                    for i in 0..$t { assert_eq!(g[i], n[i] as u128); }
                    let (a, b) = (((next() as u128) << 64 | next() as u128) & mask($w), ((next() as u128) << 64 | next() as u128) & mask($w));
                    let (ea, eb) = encrypt_words::<$t>($w, &g, a, b);
                    let (na, nb) = $m::encrypt_words::<$t>(&n, a as $ty, b as $ty);
                    assert_eq!((ea, eb), (na as u128, nb as u128));
                    let (da, db) = decrypt_words::<$t>($w, &g, a, b);
                    let (na, nb) = $m::decrypt_words::<$t>(&n, a as $ty, b as $ty);
                    assert_eq!((da, db), (na as u128, nb as u128));
                    assert_eq!($m::rotl(a as $ty, b as $ty) as u128, rotl($w, a, b));
                    assert_eq!($m::rotr(a as $ty, b as $ty) as u128, rotr($w, a, b));
                }
                assert_eq!($m::P as u128, p_w($w));
                assert_eq!($m::Q as u128, q_w($w));
            }};
        }
        agree!(w8, u8, 8, 26, 4, 4);
        agree!(w8, u8, 8, 26, 255, 255);
        agree!(w16, u16, 16, 34, 4, 8);
        agree!(w16, u16, 16, 26, 2, 3);
        agree!(w32, u32, 32, 26, 4, 16);
        agree!(w32, u32, 32, 512, 4, 16);
        agree!(w32, u32, 32, 26, 2, 7);
        agree!(w32, u32, 32, 26, 1, 0);
        agree!(w64, u64, 64, 50, 3, 24);
        agree!(w64, u64, 64, 26, 2, 9);
        agree!(w128, u128, 128, 58, 2, 32);
        agree!(w128, u128, 128, 26, 2, 17);
    }

    /// b = 0 is a legal key length (c = 1, L[0] = 0); r = 0 is legal (only the two additions); round trips
    #[test]
    fn degenerate_parameters() {
        let s = key_expansion::<26, 1>(32, &[]);
        let (a, b) = encrypt_words(32, &s, 1, 2);
        assert_eq!(decrypt_words(32, &s, a, b), (1, 2));
        let s0 = key_expansion::<2, 4>(32, &[0u8; 16]);
        assert_eq!(encrypt_words(32, &s0, 0, 0), (s0[0], s0[1]));
        // key length not a multiple of the word size: the last word is zero-padded at the top
        let l = key_to_words::<2>(32, &[1, 2, 3, 4, 5]);
        assert_eq!(l, [0x04030201, 0x05]);
        assert_eq!(key_words(8, 0), 1);
        assert_eq!(key_words(32, 255), 64);
        assert_eq!(key_words(128, 17), 2);
    }
}
