//! GOST R 34.12-2015 "Magma" (64-bit block, section 5 of the standard; same text as RFC 8891 section 4) and, by
//! parameterising the nonlinear bijection over a set of eight 4-bit substitutions, the 32-round GOST 28147-89
//! network in the big-endian word convention of GOST R 34.12-2015 (RFC 8891 appendix B: Magma is GOST 28147-89
//! with the fixed set id-tc26-gost-28147-param-Z).
//!
//! Structure follows the standard literally:
//!   5.1  (RFC 4.1)  pi'_0 .. pi'_7                      -> `Pi`, `PI_TC26`
//!   5.2  (RFC 4.2)  t, g[k], G[k], G*[k]                -> `t`, `g`, `big_g`, `big_g_star`
//!   5.3  (RFC 4.3)  K_1 .. K_32                         -> `key_words`, `round_keys`, `key_schedule`
//!   5.4  (RFC 4.4)  E = G*[K32] G[K31] .. G[K1]         -> `encrypt_rk` (and wrappers)
//!   5.5  (RFC 4.5)  D = G*[K1]  G[K2]  .. G[K32]        -> `decrypt_rk` (and wrappers)
//!
//! Conventions of the standard: a 32-bit vector a = a_7||..||a_0 is read as an integer with a_0 the LEAST significant
//! nibble, and pi_i acts on a_i; a 64-bit block a = a_1||a_0 with a_1 the most significant 32 bits; the key
//! K = k_255||..||k_0 with K_1 = k_255..k_224 (the first four key bytes, most significant first).
//!
//! The id-tc26-gost-28147-param-Z set is typed from section 5.1.1 of the standard / RFC 8891 section 4.1 (anchored by
//! the A.2 vectors for t and g below and by the full example).  The five older sets of RFC 4357 (section 11.2:
//! id-Gost28147-89-TestParamSet, id-Gost28147-89-CryptoPro-{A,B,C,D}-ParamSet) are 128 entries each and cannot be
//! computed from a definition: they are a SNAPSHOT OF THE PINNED TREE (/repo/magma/src/sboxes.rs), row i = pi_i; no
//! published known-answer vector for those five sets is included here (none was available offline), so for them the
//! contracts establish "the 32-round network over exactly the bundled table", not "the table equals RFC 4357".

/// A set of eight 4-bit substitutions pi_0 .. pi_7 (pi_i acts on nibble i, counted from the least significant).
pub type Pi = [[u8; 16]; 8];

/// GOST R 34.12-2015 section 5.1.1 / RFC 8891 section 4.1 (id-tc26-gost-28147-param-Z).
pub const PI_TC26: Pi = [
    [12, 4, 6, 2, 10, 5, 11, 9, 14, 8, 13, 7, 0, 3, 15, 1],
    [6, 8, 2, 3, 9, 10, 5, 12, 1, 14, 4, 7, 11, 13, 0, 15],
    [11, 3, 5, 8, 2, 15, 10, 13, 14, 1, 7, 4, 12, 9, 6, 0],
    [12, 8, 2, 1, 13, 4, 15, 6, 7, 0, 10, 5, 3, 14, 9, 11],
    [7, 15, 5, 10, 8, 1, 6, 13, 0, 9, 3, 14, 11, 4, 2, 12],
    [5, 13, 15, 6, 9, 2, 12, 10, 11, 7, 8, 1, 4, 3, 14, 0],
    [8, 14, 2, 5, 6, 9, 1, 12, 15, 4, 11, 0, 13, 10, 3, 7],
    [1, 7, 14, 13, 0, 5, 8, 3, 4, 15, 10, 6, 9, 12, 11, 2],
];

/// id-Gost28147-89-TestParamSet (RFC 4357 section 11.2) — snapshot of the pinned tree.
pub const PI_TEST: Pi = [
    [4, 10, 9, 2, 13, 8, 0, 14, 6, 11, 1, 12, 7, 15, 5, 3],
    [14, 11, 4, 12, 6, 13, 15, 10, 2, 3, 8, 1, 0, 7, 5, 9],
    [5, 8, 1, 13, 10, 3, 4, 2, 14, 15, 12, 7, 6, 0, 9, 11],
    [7, 13, 10, 1, 0, 8, 9, 15, 14, 4, 6, 12, 11, 2, 5, 3],
    [6, 12, 7, 1, 5, 15, 13, 8, 4, 10, 9, 14, 0, 3, 11, 2],
    [4, 11, 10, 0, 7, 2, 1, 13, 3, 6, 8, 5, 9, 12, 15, 14],
    [13, 11, 4, 1, 3, 15, 5, 9, 0, 10, 14, 7, 6, 8, 2, 12],
    [1, 15, 13, 0, 5, 7, 10, 4, 9, 2, 3, 14, 6, 11, 8, 12],
];

/// id-Gost28147-89-CryptoPro-A-ParamSet (RFC 4357 section 11.2) — snapshot of the pinned tree.
pub const PI_CRYPTOPRO_A: Pi = [
    [9, 6, 3, 2, 8, 11, 1, 7, 10, 4, 14, 15, 12, 0, 13, 5],
    [3, 7, 14, 9, 8, 10, 15, 0, 5, 2, 6, 12, 11, 4, 13, 1],
    [14, 4, 6, 2, 11, 3, 13, 8, 12, 15, 5, 10, 0, 7, 1, 9],
    [14, 7, 10, 12, 13, 1, 3, 9, 0, 2, 11, 4, 15, 8, 5, 6],
    [11, 5, 1, 9, 8, 13, 15, 0, 14, 4, 2, 3, 12, 7, 10, 6],
    [3, 10, 13, 12, 1, 2, 0, 11, 7, 5, 9, 4, 8, 15, 14, 6],
    [1, 13, 2, 9, 7, 10, 6, 0, 8, 12, 4, 5, 15, 3, 11, 14],
    [11, 10, 15, 5, 0, 12, 14, 8, 6, 2, 3, 9, 1, 7, 13, 4],
];

/// id-Gost28147-89-CryptoPro-B-ParamSet (RFC 4357 section 11.2) — snapshot of the pinned tree.
pub const PI_CRYPTOPRO_B: Pi = [
    [8, 4, 11, 1, 3, 5, 0, 9, 2, 14, 10, 12, 13, 6, 7, 15],
    [0, 1, 2, 10, 4, 13, 5, 12, 9, 7, 3, 15, 11, 8, 6, 14],
    [14, 12, 0, 10, 9, 2, 13, 11, 7, 5, 8, 15, 3, 6, 1, 4],
    [7, 5, 0, 13, 11, 6, 1, 2, 3, 10, 12, 15, 4, 14, 9, 8],
    [2, 7, 12, 15, 9, 5, 10, 11, 1, 4, 0, 13, 6, 8, 14, 3],
    [8, 3, 2, 6, 4, 13, 14, 11, 12, 1, 7, 15, 10, 0, 9, 5],
    [5, 2, 10, 11, 9, 1, 12, 3, 7, 4, 13, 0, 6, 15, 8, 14],
    [0, 4, 11, 14, 8, 3, 7, 1, 10, 2, 9, 6, 15, 13, 5, 12],
];

/// id-Gost28147-89-CryptoPro-C-ParamSet (RFC 4357 section 11.2) — snapshot of the pinned tree.
pub const PI_CRYPTOPRO_C: Pi = [
    [1, 11, 12, 2, 9, 13, 0, 15, 4, 5, 8, 14, 10, 7, 6, 3],
    [0, 1, 7, 13, 11, 4, 5, 2, 8, 14, 15, 12, 9, 10, 6, 3],
    [8, 2, 5, 0, 4, 9, 15, 10, 3, 7, 12, 13, 6, 14, 1, 11],
    [3, 6, 0, 1, 5, 13, 10, 8, 11, 2, 9, 7, 14, 15, 12, 4],
    [8, 13, 11, 0, 4, 5, 1, 2, 9, 3, 12, 14, 6, 15, 10, 7],
    [12, 9, 11, 1, 8, 14, 2, 4, 7, 3, 6, 5, 10, 0, 15, 13],
    [10, 9, 6, 8, 13, 14, 2, 0, 15, 3, 5, 11, 4, 1, 12, 7],
    [7, 4, 0, 5, 10, 2, 15, 14, 12, 6, 1, 11, 13, 9, 3, 8],
];

/// id-Gost28147-89-CryptoPro-D-ParamSet (RFC 4357 section 11.2) — snapshot of the pinned tree.
pub const PI_CRYPTOPRO_D: Pi = [
    [10, 4, 5, 6, 8, 1, 3, 7, 13, 12, 14, 0, 9, 2, 11, 15],
    [5, 15, 4, 0, 2, 13, 11, 9, 1, 7, 6, 3, 12, 14, 10, 8],
    [7, 15, 12, 14, 9, 4, 1, 0, 3, 11, 5, 2, 6, 10, 8, 13],
    [4, 10, 7, 12, 0, 15, 2, 8, 14, 1, 6, 5, 13, 11, 9, 3],
    [7, 6, 4, 11, 9, 12, 2, 10, 1, 8, 0, 14, 15, 13, 3, 5],
    [7, 6, 2, 4, 13, 9, 15, 0, 10, 1, 5, 11, 8, 14, 12, 3],
    [13, 14, 4, 1, 7, 0, 5, 10, 3, 12, 8, 15, 6, 2, 9, 11],
    [1, 3, 10, 9, 5, 11, 4, 15, 8, 6, 7, 14, 13, 0, 2, 12],
];

/// Every entry is a 4-bit value (the domain on which the expansion below and the cipher are defined).
pub const fn is_nibble_set(pi: &Pi) -> bool {
    let mut ok = true;
    let mut i = 0;
    while i < 8 {
        let mut j = 0;
        while j < 16 {
            ok &= pi[i][j] < 16;
            j += 1;
        }
        i += 1;
    }
    ok
}

/// Every pi_i is a permutation of 0..15 (true of all bundled sets; GOST 28147-89 itself only asks for substitutions).
pub const fn is_permutation_set(pi: &Pi) -> bool {
    let mut ok = true;
    let mut i = 0;
    while i < 8 {
        let mut seen: u32 = 0;
        let mut j = 0;
        while j < 16 {
            seen |= 1u32 << (pi[i][j] & 31);
            j += 1;
        }
        ok &= seen == 0xffff;
        i += 1;
    }
    ok
}

/// 5.2: t(a_7||..||a_0) = pi_7(a_7)||..||pi_0(a_0).
pub const fn t(pi: &Pi, a: u32) -> u32 {
    let mut out = 0u32;
    let mut i = 0;
    while i < 8 {
        let ai = ((a >> (4 * i)) & 0xf) as usize;
        out |= ((pi[i][ai] & 0xf) as u32) << (4 * i);
        i += 1;
    }
    out
}

/// 5.2: g[k](a) = (t(Vec32(Int32(a) [+] Int32(k)))) <<< 11, [+] addition modulo 2^32.
pub const fn g(pi: &Pi, k: u32, a: u32) -> u32 {
    t(pi, a.wrapping_add(k)).rotate_left(11)
}

/// 5.2: G[k](a_1, a_0) = (a_0, g[k](a_0) xor a_1).
pub const fn big_g(pi: &Pi, k: u32, a: (u32, u32)) -> (u32, u32) {
    (a.1, g(pi, k, a.1) ^ a.0)
}

/// 5.2: G*[k](a_1, a_0) = (g[k](a_0) xor a_1) || a_0.
pub const fn big_g_star(pi: &Pi, k: u32, a: (u32, u32)) -> u64 {
    (((g(pi, k, a.1) ^ a.0) as u64) << 32) | a.1 as u64
}

/// 5.3: K_1 .. K_8: K_i = k_{255-32(i-1)} .. k_{224-32(i-1)}, i.e. the i-th group of four key bytes, most significant first.
pub const fn key_words(key: &[u8; 32]) -> [u32; 8] {
    let mut kw = [0u32; 8];
    let mut i = 0;
    while i < 8 {
        let mut w = 0u32;
        let mut j = 0;
        while j < 4 {
            w = (w << 8) | key[4 * i + j] as u32;
            j += 1;
        }
        kw[i] = w;
        i += 1;
    }
    kw
}

/// 5.3: K_{i+8} = K_i, K_{i+16} = K_i, K_{i+24} = K_{9-i}, i = 1..8.  `rk[j]` is K_{j+1}.
pub const fn round_keys(kw: &[u32; 8]) -> [u32; 32] {
    let mut rk = [0u32; 32];
    let mut i = 1;
    while i <= 8 {
        rk[i - 1] = kw[i - 1];
        rk[i + 8 - 1] = kw[i - 1];
        rk[i + 16 - 1] = kw[i - 1];
        rk[i + 24 - 1] = kw[9 - i - 1];
        i += 1;
    }
    rk
}

pub const fn key_schedule(key: &[u8; 32]) -> [u32; 32] {
    round_keys(&key_words(key))
}

/// 5.4: E(a) = G*[K_32] G[K_31] .. G[K_2] G[K_1] (a_1, a_0), a = a_1||a_0.
pub const fn encrypt_rk(pi: &Pi, rk: &[u32; 32], a: u64) -> u64 {
    let mut v = ((a >> 32) as u32, a as u32);
    let mut i = 1;
    while i <= 31 {
        v = big_g(pi, rk[i - 1], v);
        i += 1;
    }
    big_g_star(pi, rk[31], v)
}

/// 5.5: D(a) = G*[K_1] G[K_2] .. G[K_31] G[K_32] (a_1, a_0).
pub const fn decrypt_rk(pi: &Pi, rk: &[u32; 32], a: u64) -> u64 {
    let mut v = ((a >> 32) as u32, a as u32);
    let mut i = 32;
    while i >= 2 {
        v = big_g(pi, rk[i - 1], v);
        i -= 1;
    }
    big_g_star(pi, rk[0], v)
}

/// E / D from the eight key words K_1..K_8.
pub const fn encrypt_words(pi: &Pi, kw: &[u32; 8], a: u64) -> u64 {
    encrypt_rk(pi, &round_keys(kw), a)
}
pub const fn decrypt_words(pi: &Pi, kw: &[u32; 8], a: u64) -> u64 {
    decrypt_rk(pi, &round_keys(kw), a)
}

/// E / D from the 256-bit key.
pub const fn encrypt(pi: &Pi, key: &[u8; 32], a: u64) -> u64 {
    encrypt_rk(pi, &key_schedule(key), a)
}
pub const fn decrypt(pi: &Pi, key: &[u8; 32], a: u64) -> u64 {
    decrypt_rk(pi, &key_schedule(key), a)
}

/// Byte-string forms: the block a = a_63..a_0 is the 8 bytes most significant first.
pub const fn encrypt_bytes(pi: &Pi, key: &[u8; 32], block: &[u8; 8]) -> [u8; 8] {
    encrypt(pi, key, u64::from_be_bytes(*block)).to_be_bytes()
}
pub const fn decrypt_bytes(pi: &Pi, key: &[u8; 32], block: &[u8; 8]) -> [u8; 8] {
    decrypt(pi, key, u64::from_be_bytes(*block)).to_be_bytes()
}

/// Magma proper (GOST R 34.12-2015): the network over id-tc26-gost-28147-param-Z.
pub const fn magma_encrypt(key: &[u8; 32], a: u64) -> u64 {
    encrypt(&PI_TC26, key, a)
}
pub const fn magma_decrypt(key: &[u8; 32], a: u64) -> u64 {
    decrypt(&PI_TC26, key, a)
}

/// Nibble-pair expansion (specification of the real crate's `gen_exp_sbox`; not part of the standard):
/// table i maps the byte (hi||lo) to pi_{2i+1}(hi)||pi_{2i}(lo), so that byte i of t(a) is exp[i][byte i of a].
/// Defined for sets of 4-bit entries (`is_nibble_set`).
pub const fn expand_sbox(pi: &Pi) -> [[u8; 256]; 4] {
    let mut out = [[0u8; 256]; 4];
    let mut i = 0;
    while i < 4 {
        let mut b = 0;
        while b < 256 {
            out[i][b] = expand_entry(pi, i, b as u8);
            b += 1;
        }
        i += 1;
    }
    out
}

/// One entry of the expansion: pi_{2i+1}(high nibble of b) || pi_{2i}(low nibble of b).
pub const fn expand_entry(pi: &Pi, i: usize, b: u8) -> u8 {
    ((pi[2 * i + 1][(b >> 4) as usize] & 0xf) << 4) | (pi[2 * i][(b & 0xf) as usize] & 0xf)
}

/// t computed through the expansion (byte-wise); equal to `t` (unit test + contract lemma).
pub const fn t_expanded(exp: &[[u8; 256]; 4], a: u32) -> u32 {
    let mut out = 0u32;
    let mut i = 0;
    while i < 4 {
        out |= (exp[i][((a >> (8 * i)) & 0xff) as usize] as u32) << (8 * i);
        i += 1;
    }
    out
}

#[cfg(test)]
mod tests {
    use super::*;

    // GOST R 34.12-2015 appendix A.2 / RFC 8891 appendix A
    const KEY: [u8; 32] = [
        0xff, 0xee, 0xdd, 0xcc, 0xbb, 0xaa, 0x99, 0x88, 0x77, 0x66, 0x55, 0x44, 0x33, 0x22, 0x11, 0x00, 0xf0, 0xf1, 0xf2, 0xf3,
        0xf4, 0xf5, 0xf6, 0xf7, 0xf8, 0xf9, 0xfa, 0xfb, 0xfc, 0xfd, 0xfe, 0xff,
    ];
    const PT: u64 = 0xfedcba9876543210;
    const CT: u64 = 0x4ee901e5c2d8ca3d;

    #[test]
    fn a21_transformation_t() {
        assert_eq!(t(&PI_TC26, 0xfdb97531), 0x2a196f34);
        assert_eq!(t(&PI_TC26, 0x2a196f34), 0xebd9f03a);
        assert_eq!(t(&PI_TC26, 0xebd9f03a), 0xb039bb3d);
        assert_eq!(t(&PI_TC26, 0xb039bb3d), 0x68695433);
    }

    #[test]
    fn a22_transformation_g() {
        assert_eq!(g(&PI_TC26, 0x87654321, 0xfedcba98), 0xfdcbc20c);
        assert_eq!(g(&PI_TC26, 0xfdcbc20c, 0x87654321), 0x7e791a4b);
        assert_eq!(g(&PI_TC26, 0x7e791a4b, 0xfdcbc20c), 0xc76549ec);
        assert_eq!(g(&PI_TC26, 0xc76549ec, 0x7e791a4b), 0x9791c849);
    }

    #[test]
    fn a23_key_schedule() {
        let w: [u32; 8] = [0xffeeddcc, 0xbbaa9988, 0x77665544, 0x33221100, 0xf0f1f2f3, 0xf4f5f6f7, 0xf8f9fafb, 0xfcfdfeff];
        assert_eq!(key_words(&KEY), w);
        let rk = key_schedule(&KEY);
        let expect: [u32; 32] = [
            0xffeeddcc, 0xbbaa9988, 0x77665544, 0x33221100, 0xf0f1f2f3, 0xf4f5f6f7, 0xf8f9fafb, 0xfcfdfeff, // K1..K8
            0xffeeddcc, 0xbbaa9988, 0x77665544, 0x33221100, 0xf0f1f2f3, 0xf4f5f6f7, 0xf8f9fafb, 0xfcfdfeff, // K9..K16
            0xffeeddcc, 0xbbaa9988, 0x77665544, 0x33221100, 0xf0f1f2f3, 0xf4f5f6f7, 0xf8f9fafb, 0xfcfdfeff, // K17..K24
            0xfcfdfeff, 0xf8f9fafb, 0xf4f5f6f7, 0xf0f1f2f3, 0x33221100, 0x77665544, 0xbbaa9988, 0xffeeddcc, // K25..K32
        ];
        assert_eq!(rk, expect);
    }

    // A.2.4: (a_1, a_0) after G[K_i] .. G[K_1], i = 1..31
    const TRACE: [(u32, u32); 31] = [
        (0x76543210, 0x28da3b14),
        (0x28da3b14, 0xb14337a5),
        (0xb14337a5, 0x633a7c68),
        (0x633a7c68, 0xea89c02c),
        (0xea89c02c, 0x11fe726d),
        (0x11fe726d, 0xad0310a4),
        (0xad0310a4, 0x37d97f25),
        (0x37d97f25, 0x46324615),
        (0x46324615, 0xce995f2a),
        (0xce995f2a, 0x93c1f449),
        (0x93c1f449, 0x4811c7ad),
        (0x4811c7ad, 0xc4b3edca),
        (0xc4b3edca, 0x44ca5ce1),
        (0x44ca5ce1, 0xfef51b68),
        (0xfef51b68, 0x2098cd86),
        (0x2098cd86, 0x4f15b0bb),
        (0x4f15b0bb, 0xe32805bc),
        (0xe32805bc, 0xe7116722),
        (0xe7116722, 0x89cadf21),
        (0x89cadf21, 0xbac8444d),
        (0xbac8444d, 0x11263a21),
        (0x11263a21, 0x625434c3),
        (0x625434c3, 0x8025c0a5),
        (0x8025c0a5, 0xb0d66514),
        (0xb0d66514, 0x47b1d5f4),
        (0x47b1d5f4, 0xc78e6d50),
        (0xc78e6d50, 0x80251e99),
        (0x80251e99, 0x2b96eca6),
        (0x2b96eca6, 0x05ef4401),
        (0x05ef4401, 0x239a4577),
        (0x239a4577, 0xc2d8ca3d),
    ];

    #[test]
    fn a24_encryption_trace() {
        let rk = key_schedule(&KEY);
        let mut v = ((PT >> 32) as u32, PT as u32);
        assert_eq!(v, (0xfedcba98, 0x76543210));
        for i in 0..31 {
            v = big_g(&PI_TC26, rk[i], v);
            assert_eq!(v, TRACE[i], "after G[K{}]", i + 1);
        }
        assert_eq!(big_g_star(&PI_TC26, rk[31], v), CT);
    }

    #[test]
    fn a25_decryption_trace() {
        // A.2.5: (a_1,a_0) = (4ee901e5, c2d8ca3d); G[K32] gives (c2d8ca3d, 239a4577), ... : the encryption trace
        // backwards with the halves exchanged, finally G*[K1] gives fedcba9876543210.
        let rk = key_schedule(&KEY);
        let mut v = ((CT >> 32) as u32, CT as u32);
        for j in 0..31 {
            v = big_g(&PI_TC26, rk[31 - j], v);
            let e = TRACE[30 - j];
            assert_eq!(v, (e.1, e.0), "after G[K{}]", 32 - j);
        }
        assert_eq!(big_g_star(&PI_TC26, rk[0], v), PT);
    }

    #[test]
    fn a24_a25_block() {
        assert_eq!(magma_encrypt(&KEY, PT), CT);
        assert_eq!(magma_decrypt(&KEY, CT), PT);
        assert_eq!(encrypt_words(&PI_TC26, &key_words(&KEY), PT), CT);
        assert_eq!(decrypt_words(&PI_TC26, &key_words(&KEY), CT), PT);
        assert_eq!(encrypt_bytes(&PI_TC26, &KEY, &PT.to_be_bytes()), CT.to_be_bytes());
        assert_eq!(decrypt_bytes(&PI_TC26, &KEY, &CT.to_be_bytes()), PT.to_be_bytes());
    }

    const ALL: [&Pi; 6] = [&PI_TC26, &PI_TEST, &PI_CRYPTOPRO_A, &PI_CRYPTOPRO_B, &PI_CRYPTOPRO_C, &PI_CRYPTOPRO_D];

    #[test]
    fn bundled_sets_are_permutations() {
        for pi in ALL {
            assert!(is_nibble_set(pi));
            assert!(is_permutation_set(pi));
        }
        // the six sets are pairwise different
        for i in 0..6 {
            for j in 0..i {
                assert_ne!(ALL[i], ALL[j]);
            }
        }
    }

    #[test]
    fn roundtrip_all_sets() {
        let mut x = PT;
        for pi in ALL {
            for _ in 0..50 {
                let y = encrypt(pi, &KEY, x);
                assert_eq!(decrypt(pi, &KEY, y), x);
                assert_eq!(encrypt(pi, &KEY, decrypt(pi, &KEY, x)), x);
                x = y ^ x.rotate_left(7);
            }
        }
    }

    #[test]
    fn expansion_agrees_with_t() {
        for pi in ALL {
            let e = expand_sbox(pi);
            let mut a = 0x01234567u32;
            for _ in 0..2000 {
                assert_eq!(t_expanded(&e, a), t(pi, a));
                a = a.wrapping_mul(1664525).wrapping_add(1013904223);
            }
            for i in 0..4 {
                for b in 0..256usize {
                    assert_eq!(e[i][b] & 0xf, pi[2 * i][b & 15]);
                    assert_eq!(e[i][b] >> 4, pi[2 * i + 1][b >> 4]);
                }
            }
        }
    }
}
