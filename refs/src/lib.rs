//! Reference algorithms ("spec functions") for the contracts in /verif/contracts.
//! Written from the standards' own text and structure (tables, bit numbering), never from /repo's
//! optimised code; every module carries the standard's published vectors as unit tests
//! (`cargo test` in this directory is part of MANIFEST.setup_cmd).
//! Style: plain loops with constant bounds, no allocation, no dependencies, so that Kani can
//! execute them symbolically next to the real code.
#![no_std]
#![allow(clippy::all)]
#![allow(dead_code, unused_variables, unused_mut, unused_parens)]

pub mod aes;
pub mod aria;
pub mod belt;
pub mod blowfish;
pub mod camellia;
pub mod cast5;
pub mod cast6;
pub mod des;
pub mod gift;
pub mod idea;
pub mod kuznyechik;
pub mod magma;
pub mod rc2;
pub mod rc5;
pub mod serpent;
pub mod sm4;
pub mod speck;
pub mod threefish;
pub mod twofish;
pub mod xtea;
