// TEMP experiments
// @module file=kuznyechik/src/sse2/backends.rs
use super::*;
use bcref::kuznyechik as kz;
use crate::sse2::backends::__vp_sse2::{bytes, word, any_word};

pub static mut BASE: usize = 0;
/// the table as an uninterpreted function of the byte offset of the load
pub mod luf {
    pub const MAXC: usize = 40;
    pub static mut IN: [usize; MAXC] = [0; MAXC];
    pub static mut OUT: [[u8; 16]; MAXC] = [[0; 16]; MAXC];
    pub static mut N: usize = 0;
    #[allow(static_mut_refs)]
    pub fn at(off: usize) -> [u8; 16] {
        unsafe {
            let mut y: [u8; 16] = kani::any();
            let mut found = false;
            let mut i = 0;
            while i < N {
                if !found && IN[i] == off { y = OUT[i]; found = true; }
                i += 1;
            }
            assert!(N < MAXC);
            IN[N] = off; OUT[N] = y; N += 1;
            y
        }
    }
}
#[allow(static_mut_refs)]
unsafe fn model_load(p: *const __m128i) -> __m128i {
    let off = (p as usize).wrapping_sub(BASE);
    assert!(off % 16 == 0 && off + 16 <= 65536); // inside the table, aligned
    word(&luf::at(off))
}

// @ob name=e4_sse_transform_uf props=C07 timeout=300
#[kani::proof]
#[kani::stub(core::arch::x86_64::_mm_load_si128, model_load)]
#[kani::unwind(41)]
fn e4_sse_transform_uf() {
    unsafe { BASE = ENC_TABLE.0.as_ptr() as usize; }
    let b = any_word();
    let r = unsafe { transform(b, &ENC_TABLE) };
    let bb = bytes(b);
    let mut acc = [0u8; 16];
    let mut i = 0;
    while i < 16 {
        acc = kz::xor(&acc, &luf::at(16 * (256 * i + bb[i] as usize)));
        i += 1;
    }
    assert!(kz::eq(&bytes(r), &acc));
}
