//! blowfish: Blowfish (big-endian halves) and BlowfishLE with 4..=56 byte keys against Schneier's Blowfish
//! (bcref::blowfish), C09; the bcrypt primitives against Provos-Mazieres ExpandKey (C14).
use crate::generic::*;
use crate::util::*;
use bcref::blowfish as r;
use cipher::KeyInit;

fn ref_block(k: &[u8], b: &[u8], dec: bool, le: bool) -> Vec<u8> {
    let st = r::new(k);
    let rd = |x: &[u8]| if le { u32::from_le_bytes(arr(x)) } else { u32::from_be_bytes(arr(x)) };
    let (l, rr) = (rd(&b[0..4]), rd(&b[4..8]));
    let (a, c) = if dec { r::decrypt(&st, l, rr) } else { r::encrypt(&st, l, rr) };
    let mut out = Vec::with_capacity(8);
    if le {
        out.extend(a.to_le_bytes());
        out.extend(c.to_le_bytes());
    } else {
        out.extend(a.to_be_bytes());
        out.extend(c.to_be_bytes());
    }
    out
}

desc!(DBf: blowfish::Blowfish, "blowfish", "Blowfish", 4..=56usize, "C09", [clone, debug, alg], names ["Blowfish"], alg ["blowfish", "be"],
    |k, b, dec| Some(ref_block(k, b, dec, false)));
desc!(DBfLe: blowfish::BlowfishLE, "blowfish", "BlowfishLE", 4..=56usize, "C09", [clone, debug, alg], names ["BlowfishLE", "Blowfish"], alg ["blowfish", "le"],
    |k, b, dec| Some(ref_block(k, b, dec, true)));

/// observable state comparison: the real state is private, its permutation is not
fn probe_state(real: &blowfish::Blowfish, st: &r::State, n: usize, rng: &mut Rng, what: &str) -> bool {
    for _ in 0..n {
        let lr = [rng.u32(), rng.u32()];
        input_add_str("probe", &hex_u32s(&lr));
        let got = real.bc_encrypt(lr);
        let (a, b) = r::encrypt(st, lr[0], lr[1]);
        if got != [a, b] {
            fail(what, &hex_u32s(&got), &hex_u32s(&[a, b]));
            return false;
        }
    }
    true
}

fn c14() {
    scope("blowfish", "Blowfish (bcrypt)");
    set_prop("C14");
    let mut rng = Rng::for_label("C14/blowfish");
    for case in 0..(iters() / 2).max(60) {
        let nsteps = rng.range(1, 6);
        // the script: (kind, salt, key); kind 0 = salted_expand_key, 1 = bc_expand_key, 2 = bc_encrypt probes only
        let mut script: Vec<(usize, Vec<u8>, Vec<u8>)> = Vec::new();
        for _ in 0..nsteps {
            let kind = rng.below(3);
            let len_of = |rng: &mut Rng| match rng.below(8) {
                0 => 1,
                1 => rng.range(1, 4),
                2 => 16,
                3 => 72,
                4 => rng.range(73, 80),
                _ => rng.range(1, 80),
            };
            let sl = len_of(&mut rng);
            let kl = len_of(&mut rng);
            script.push((kind, rng.bytes(sl), rng.bytes(kl)));
        }
        let descr: Vec<String> = script
            .iter()
            .map(|(k, s, key)| match k {
                0 => format!("salted_expand_key(salt={}, key={})", hex(s), hex(key)),
                1 => format!("bc_expand_key(key={})", hex(key)),
                _ => "bc_encrypt".to_string(),
            })
            .collect();
        input(&[]);
        input_add_str("steps", &descr.join("; "));
        guard("bcrypt primitives", || {
            let mut real = blowfish::Blowfish::bc_init_state();
            let mut st = r::init_state();
            if !probe_state(&real, &st, 8, &mut rng, "bc_init_state is not the initial Blowfish state (digits of pi)") {
                return;
            }
            for (i, (kind, salt, key)) in script.iter().enumerate() {
                input_add_str("failing_step", &(i + 1).to_string());
                match kind {
                    0 => {
                        real.salted_expand_key(salt, key);
                        r::expand_key(&mut st, Some(salt), key);
                    }
                    1 => {
                        real.bc_expand_key(key);
                        r::expand_key(&mut st, None, key);
                    }
                    _ => {}
                }
                if !probe_state(&real, &st, 24, &mut rng, "state after this step differs from eksblowfish (seen through bc_encrypt)") {
                    return;
                }
            }
            // every S-box entry is reached with overwhelming probability
            probe_state(&real, &st, 400, &mut rng, "final state differs from eksblowfish (seen through bc_encrypt)");
            // the state is also an ordinary Blowfish<BE>: its block function is the same permutation
            let x = rng.bytes(8);
            input_add("block", &x);
            let (a, b) = r::encrypt(&st, u32::from_be_bytes(arr(&x[..4])), u32::from_be_bytes(arr(&x[4..])));
            let mut w = a.to_be_bytes().to_vec();
            w.extend(b.to_be_bytes());
            check_eq("encrypt_block of the bcrypt state differs from the reference permutation", &enc1(&real, &x), &w);
        });
        // plain expansion == salted expansion with an all-zero salt == ordinary keying
        if case % 2 == 0 {
            let kl = rng.range(4, 56);
            let key = rng.bytes(kl);
            let zl = rng.range(1, 80);
            let zeros = vec![0u8; zl];
            input(&[("key", &key), ("zero_salt", &zeros)]);
            guard("plain vs zero salt vs ordinary keying", || {
                let mut a = blowfish::Blowfish::bc_init_state();
                a.bc_expand_key(&key);
                let mut b = blowfish::Blowfish::bc_init_state();
                b.salted_expand_key(&zeros, &key);
                let Ok(c) = blowfish::Blowfish::new_from_slice(&key) else { return };
                for _ in 0..64 {
                    let lr = [rng.u32(), rng.u32()];
                    input_add_str("probe", &hex_u32s(&lr));
                    let (ra, rb, rc) = (a.bc_encrypt(lr), b.bc_encrypt(lr), c.bc_encrypt(lr));
                    if ra != rb {
                        fail("bc_expand_key differs from salted_expand_key with an all-zero salt", &hex_u32s(&ra), &hex_u32s(&rb));
                        break;
                    }
                    if ra != rc {
                        fail("bc_init_state + bc_expand_key differs from ordinary Blowfish keying", &hex_u32s(&ra), &hex_u32s(&rc));
                        break;
                    }
                }
            });
        }
    }
}

pub fn run() {
    visit::<DBf>();
    visit::<DBfLe>();
    if want("C14") {
        c14();
    }
}
