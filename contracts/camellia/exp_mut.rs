// sanity mutations (temporary): every harness here must be REFUTED
// @module file=camellia/src/utils.rs
use super::*;
use super::__vp_utils::{eq26, flat26, join};
// @ob name=mut_fl props=C06 fn=x timeout=300
#[kani::proof]
fn mut_fl() {
    let x: u64 = kani::any();
    let k: u64 = kani::any();
    assert!(fl(x, k) == bcref::camellia::flinv(x, k));
}
// two subkeys swapped in the expected array
// @ob name=mut_subkeys props=C06 fn=x timeout=300
#[kani::proof]
#[kani::unwind(27)]
fn mut_subkeys() {
    let kl: (u64, u64) = kani::any();
    let ka: (u64, u64) = kani::any();
    let mut e = flat26(&bcref::camellia::subkeys_128(join(kl), join(ka)));
    let t = e[16];
    e[16] = e[17];
    e[17] = t;
    assert!(eq26(&gen_subkeys26(kl, ka), &e));
}
// one S-box entry mutated in the expected F
// @ob name=mut_f props=C06 fn=x timeout=300
#[kani::proof]
fn mut_f() {
    let x: u64 = kani::any();
    let k: u64 = kani::any();
    let e = bcref::camellia::f(x, k);
    let e = if (x ^ k) == 0x0123_4567_89ab_cdef { e ^ 1 } else { e };
    assert!(f(x, k) == e);
}
