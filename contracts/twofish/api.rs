// API-level contracts for the twofish crate (child of lib.rs): key lengths and constructor equivalence (C11),
// clone (C12), weak-key test (C13), multi-block plumbing and state immutability (C04, C15), zeroize on drop (C16),
// Debug / AlgorithmName (C19).
//
// @module file=twofish/src/lib.rs
// @config name=zeroize features=zeroize
use super::*;
use crate::__vp_cipher::{any_twofish, st_h_real, st_rs_real, uf_h, uf_rs, wf};
use cipher::Array;
include!("@VERIF@/contracts/_common/common.rs");
include!("@VERIF@/contracts/serpent/shared_api.inc");
uf_block_fns!(Twofish);

fn raw(t: &Twofish) -> [u8; core::mem::size_of::<Twofish>()] { unsafe { core::ptr::read(t as *const Twofish as *const _) } }

// ---------------------------------------------------------------- C11
// key_schedule itself is real (its slicing and its unreachable!() arm are what could panic); its callees h and
// rs_mult are uninterpreted functions (pure and panic-free under key_schedule's arguments by cipher.rs c_h, c_rs_mult;
// the stub for h still performs h's reads of the key slice, so an out-of-range read would be caught).
// @ob name=k_len props=C11,C20 kind=bounded bound="slice length <= 300" fn=twofish::Twofish::new_from_slice,twofish::Twofish::key_schedule uses=c_h,c_rs_mult timeout=600
#[kani::proof]
#[kani::stub(h, st_h_real)]
#[kani::stub(rs_mult, st_rs_real)]
#[kani::unwind(21)]
fn k_len() {
    let buf: [u8; 301] = kani::any();
    let n: usize = kani::any();
    kani::assume(n <= 300);
    kani::cover!(n == 0);
    kani::cover!(n == 16);
    kani::cover!(n == 24);
    kani::cover!(n == 32);
    kani::cover!(n == 20);
    kani::cover!(n == 300);
    let r = <Twofish as KeyInit>::new_from_slice(&buf[..n]);
    assert!(r.is_ok() == (n == 16 || n == 24 || n == 32));
    if let Ok(t) = r { assert!(wf(&t)); }
}

// A fixed-size (32-byte) key and the same bytes as a slice give the same cipher
// @ob name=k_slice_same props=C11 fn=twofish::Twofish::new,twofish::Twofish::new_from_slice uses=c_h,c_rs_mult timeout=600
#[kani::proof]
#[kani::stub(h, st_h_real)]
#[kani::stub(rs_mult, st_rs_real)]
#[kani::unwind(600)]
fn k_slice_same() {
    let k: [u8; 32] = kani::any();
    let a = <Twofish as KeyInit>::new(&Array(k));
    uf_h::replay_same_order();
    uf_rs::replay_same_order();
    let b = <Twofish as KeyInit>::new_from_slice(&k[..]).unwrap();
    assert!(same_bytes!(Twofish, &a, &raw(&b)));
}

// ---------------------------------------------------------------- C13
// @ob name=w_weak props=C13 fn=twofish::Twofish::weak_key_test,twofish::Twofish::new_checked uses=c_h,c_rs_mult timeout=600
#[kani::proof]
#[kani::stub(h, st_h_real)]
#[kani::stub(rs_mult, st_rs_real)]
#[kani::unwind(600)]
fn w_weak() {
    let k: [u8; 32] = kani::any();
    assert!(<Twofish as KeyInit>::weak_key_test(&Array(k)).is_ok());
    match <Twofish as KeyInit>::new_checked(&Array(k)) {
        Ok(c) => {
            uf_h::replay_same_order();
            uf_rs::replay_same_order();
            assert!(same_bytes!(Twofish, &c, &raw(&<Twofish as KeyInit>::new(&Array(k)))))
        }
        Err(_) => assert!(false),
    }
}

// ---------------------------------------------------------------- C12
// @ob name=k_clone props=C12 fn=twofish::Twofish::clone timeout=300
clone_same!(k_clone, Twofish, any_twofish());

// ---------------------------------------------------------------- C19
// @ob name=n_names props=C19 fn=twofish::Twofish::fmt,twofish::Twofish::write_alg_name timeout=300
names!(n_names, Twofish, any_twofish(), "Twofish");

// ---------------------------------------------------------------- C16
// @ob name=z_drop_own props=C16 cfg=zeroize fn=twofish::Twofish::drop timeout=300
zero_on_drop!(z_drop_own, Twofish, any_twofish());
// @ob name=z_drop_clone props=C16 cfg=zeroize fn=twofish::Twofish::drop,twofish::Twofish::clone timeout=300
zero_on_drop!(z_drop_clone, Twofish, any_twofish().clone());

// ---------------------------------------------------------------- C04 / C15
// @ob name=m_blocks_0 props=C04,C15 kind=bounded bound="n = 0 blocks" fn=twofish::Twofish::encrypt_with_backend,twofish::Twofish::decrypt_with_backend uses=c_encrypt_block,c_decrypt_block timeout=300
multi_block!(m_blocks_0, Twofish, any_twofish(), 0);
// @ob name=m_blocks_1 props=C04,C15 kind=bounded bound="n = 1 block" fn=twofish::Twofish::encrypt_with_backend,twofish::Twofish::decrypt_with_backend uses=c_encrypt_block,c_decrypt_block timeout=300
multi_block!(m_blocks_1, Twofish, any_twofish(), 1);
// @ob name=m_blocks_3 props=C04,C15 kind=bounded bound="n = 3 blocks" fn=twofish::Twofish::encrypt_with_backend,twofish::Twofish::decrypt_with_backend uses=c_encrypt_block,c_decrypt_block timeout=600
multi_block!(m_blocks_3, Twofish, any_twofish(), 3);
