// Software models of the AArch64 Advanced SIMD / Cryptographic Extension intrinsics used by aes::armv8
// (aes/src/armv8/{encdec,expand,hazmat}.rs), written from the Arm Architecture Reference Manual (DDI 0487, A64
// instruction descriptions AESE / AESD / AESMC / AESIMC, shared pseudocode functions AESShiftRows, AESSubBytes,
// AESMixColumns and inverses) and the Arm C Language Extensions (ACLE, "Advanced SIMD (Neon) intrinsics"), over
// bcref::aes' FIPS-197 byte-level transformations.
//
// TRUSTED: these models stand for the hardware in every aes.armv8 obligation.  This x86-64 host can neither compile
// `core::arch::aarch64` nor execute the instructions, so (unlike intrinsics/x86_aes.rs) there is no self-test against
// real silicon, and the manual is not available in this (offline) sandbox: the pseudocode quoted below was written
// down from the manual's known text and must be REVIEWED against DDI 0487 (sections C7.2 AESE/AESD/AESMC/AESIMC and
// shared/functions/crypto AESShiftRows etc.).  Anchors that do exist: (a) a compile-time check that the quoted byte
// permutations are exactly FIPS-197 (Inv)ShiftRows on the layout "register byte i = in[i]"; (b) the FIPS-197
// Appendix C.1-C.3 vectors pushed through the real armv8 code + these models (obligation aes.armv8.a64_kat): a model
// with a different byte order, a missing/extra MixColumns, or the key added on the wrong side of SubBytes fails them.
//
// The shadow copies of the armv8 sources import this module in place of `core::arch::aarch64::*` (see the @shadow
// directives in contracts/aes/armv8.rs), so the names and signatures below are those of core::arch::aarch64.
//
// REGISTER / MEMORY LAYOUT.  A 128-bit vector register V holds 16 byte elements; element i (`Vn.16B[i]`) is bits
// <8i+7:8i> (Arm ARM "Elem[V, i, 8]").  LD1 {Vt.16B}, [Xn] (= vld1q_u8) loads element i from address Xn + i, ST1
// (= vst1q_u8) stores it there, for either data endianness (byte elements).  The AES pseudocode functions treat the
// 128-bit operand as the FIPS-197 state with byte i of the register = in[i], i.e. state s[r][c] = byte r + 4c:
//     bits(128) AESShiftRows(bits(128) op)
//         return ( op< 95: 88>:op< 55: 48>:op< 15:  8>:op<103: 96>:      -- bytes 15..12 <- 11, 6, 1, 12
//                  op< 63: 56>:op< 23: 16>:op<111:104>:op< 71: 64>:      -- bytes 11..8  <-  7, 2, 13, 8
//                  op< 31: 24>:op<119:112>:op< 79: 72>:op< 39: 32>:      -- bytes  7..4  <-  3, 14, 9, 4
//                  op<127:120>:op< 87: 80>:op< 47: 40>:op<  7:  0> );    -- bytes  3..0  <- 15, 10, 5, 0
// which is FIPS-197 ShiftRows on that layout: out[r + 4c] = in[r + 4((c + r) mod 4)] (checked for all 16 positions by
// `shift_rows_is_arm_arm` below, a compile-time assertion).  AESSubBytes applies the FIPS-197 S-box to each of the 16
// bytes; AESMixColumns / AESInvMixColumns multiply each column (bytes 4c..4c+3) by the FIPS-197 matrices.
//
// 32-bit elements: `Vn.4S[i]` is bits <32i+31:32i>; consequently byte element 4i + j is bits <8j+7:8j> of word
// element i, i.e. the little-endian byte j of the word.  vreinterpretq_* between u8x16 and u32x4 keeps the 128-bit
// register contents (ACLE: on little-endian targets a reinterpret is a no-op on the register).  The models below follow
// this register view (to_le_bytes / from_le_bytes), and the *memory* image of the model types is the little-endian one,
// as on every aarch64-* (little-endian) Rust target; big-endian aarch64_be-* targets are outside these models.

#[allow(non_camel_case_types)]
pub mod a64_models {
    use bcref::aes as fips;

    /// 128-bit vector of 16 byte elements; element i = `.0[i]`.  16-byte aligned like the real type
    /// (armv8/expand.rs const-asserts `align_of::<uint8x16_t>() >= align_of::<u32>()` and writes words through a
    /// `*mut u32` into an array of these).
    #[derive(Clone, Copy)]
    #[repr(C, align(16))]
    pub struct uint8x16_t(pub [u8; 16]);
    /// 128-bit vector of four 32-bit elements; element i = `.0[i]`.
    #[derive(Clone, Copy)]
    #[repr(C, align(16))]
    pub struct uint32x4_t(pub [u32; 4]);

    /// compile-time check that bcref's ShiftRows is the byte permutation of the Arm ARM's AESShiftRows listing above
    /// (source byte index for result bytes 0..15, read off the listing from its last line upwards, right to left)
    const ARM_ARM_SHIFT_ROWS_SRC: [usize; 16] = [0, 5, 10, 15, 4, 9, 14, 3, 8, 13, 2, 7, 12, 1, 6, 11];
    /// the same for AESInvShiftRows:
    ///     return ( op< 31: 24>:op< 55: 48>:op< 79: 72>:op<103: 96>:      -- bytes 15..12 <-  3, 6, 9, 12
    ///              op<127:120>:op< 23: 16>:op< 47: 40>:op< 71: 64>:      -- bytes 11..8  <- 15, 2, 5, 8
    ///              op< 95: 88>:op<119:112>:op< 15:  8>:op< 39: 32>:      -- bytes  7..4  <- 11, 14, 1, 4
    ///              op< 63: 56>:op< 87: 80>:op<111:104>:op<  7:  0> );    -- bytes  3..0  <-  7, 10, 13, 0
    const ARM_ARM_INV_SHIFT_ROWS_SRC: [usize; 16] = [0, 13, 10, 7, 4, 1, 14, 11, 8, 5, 2, 15, 12, 9, 6, 3];
    const fn shift_rows_is_arm_arm() -> bool {
        // FIPS-197 ShiftRows: out[r + 4c] = in[r + 4((c + r) mod 4)];  InvShiftRows: out[r + 4((c + r) mod 4)] = in[r + 4c]
        let mut ok = true;
        let mut c = 0;
        while c < 4 {
            let mut r = 0;
            while r < 4 {
                ok &= ARM_ARM_SHIFT_ROWS_SRC[r + 4 * c] == r + 4 * ((c + r) % 4);
                ok &= ARM_ARM_INV_SHIFT_ROWS_SRC[r + 4 * ((c + r) % 4)] == r + 4 * c;
                r += 1;
            }
            c += 1;
        }
        ok
    }
    const _: () = assert!(shift_rows_is_arm_arm());

    // ---- AES instructions (FEAT_AES)

    /// AESE Vd.16B, Vn.16B   (vaeseq_u8(data = Vd, key = Vn)):
    ///     operand1 = V[d]; operand2 = V[n];
    ///     result = operand1 EOR operand2;
    ///     result = AESSubBytes(AESShiftRows(result));
    ///     V[d] = result;
    /// (no MixColumns, and the round key is added BEFORE the substitution, unlike x86 AESENC)
    pub unsafe fn vaeseq_u8(data: uint8x16_t, key: uint8x16_t) -> uint8x16_t {
        uint8x16_t(fips::sub_bytes(&fips::shift_rows(&fips::xor_block(&data.0, &key.0))))
    }
    /// AESD Vd.16B, Vn.16B   (vaesdq_u8(data, key)):
    ///     result = operand1 EOR operand2;
    ///     result = AESInvSubBytes(AESInvShiftRows(result));
    pub unsafe fn vaesdq_u8(data: uint8x16_t, key: uint8x16_t) -> uint8x16_t {
        uint8x16_t(fips::inv_sub_bytes(&fips::inv_shift_rows(&fips::xor_block(&data.0, &key.0))))
    }
    /// AESMC Vd.16B, Vn.16B   (vaesmcq_u8(data)):   result = AESMixColumns(operand);
    pub unsafe fn vaesmcq_u8(data: uint8x16_t) -> uint8x16_t {
        uint8x16_t(fips::mix_columns(&data.0))
    }
    /// AESIMC Vd.16B, Vn.16B   (vaesimcq_u8(data)):   result = AESInvMixColumns(operand);
    pub unsafe fn vaesimcq_u8(data: uint8x16_t) -> uint8x16_t {
        uint8x16_t(fips::inv_mix_columns(&data.0))
    }

    // ---- Advanced SIMD data movement / logic

    /// LD1 {Vt.16B}, [Xn]: element i = Mem[Xn + i, 1], i = 0..15 (no alignment requirement: byte elements)
    pub unsafe fn vld1q_u8(ptr: *const u8) -> uint8x16_t {
        let mut o = [0u8; 16];
        let mut i = 0;
        while i < 16 {
            o[i] = *ptr.add(i);
            i += 1;
        }
        uint8x16_t(o)
    }
    /// ST1 {Vt.16B}, [Xn]: Mem[Xn + i, 1] = element i, i = 0..15
    pub unsafe fn vst1q_u8(ptr: *mut u8, a: uint8x16_t) {
        let mut i = 0;
        while i < 16 {
            *ptr.add(i) = a.0[i];
            i += 1;
        }
    }
    /// EOR Vd.16B, Vn.16B, Vm.16B: bitwise exclusive or of the two registers
    pub unsafe fn veorq_u8(a: uint8x16_t, b: uint8x16_t) -> uint8x16_t {
        let mut o = [0u8; 16];
        let mut i = 0;
        while i < 16 {
            o[i] = a.0[i] ^ b.0[i];
            i += 1;
        }
        uint8x16_t(o)
    }
    /// DUP Vd.16B, Wn: every byte element = Wn<7:0>
    pub unsafe fn vdupq_n_u8(value: u8) -> uint8x16_t { uint8x16_t([value; 16]) }
    /// DUP Vd.4S, Wn: every 32-bit element = Wn
    pub unsafe fn vdupq_n_u32(value: u32) -> uint32x4_t { uint32x4_t([value; 4]) }
    /// vreinterpretq_u8_u32: same 128 register bits; byte element 4i + j = bits <8j+7:8j> of word element i
    pub unsafe fn vreinterpretq_u8_u32(a: uint32x4_t) -> uint8x16_t {
        let mut o = [0u8; 16];
        let mut i = 0;
        while i < 4 {
            let w = a.0[i].to_le_bytes();
            o[4 * i] = w[0];
            o[4 * i + 1] = w[1];
            o[4 * i + 2] = w[2];
            o[4 * i + 3] = w[3];
            i += 1;
        }
        uint8x16_t(o)
    }
    /// vreinterpretq_u32_u8: same 128 register bits; word element i = bytes 4i+3 : 4i+2 : 4i+1 : 4i (most significant first)
    pub unsafe fn vreinterpretq_u32_u8(a: uint8x16_t) -> uint32x4_t {
        let mut o = [0u32; 4];
        let mut i = 0;
        while i < 4 {
            o[i] = u32::from_le_bytes([a.0[4 * i], a.0[4 * i + 1], a.0[4 * i + 2], a.0[4 * i + 3]]);
            i += 1;
        }
        uint32x4_t(o)
    }
    /// UMOV Wd, Vn.S[lane] (vgetq_lane_u32(v, lane)): 32-bit element `lane`, 0 <= lane <= 3.  In core::arch the lane is
    /// a const generic that is written in argument position (`#[rustc_legacy_const_generics(1)]`, not available to
    /// ordinary code): here it is an ordinary argument, and an out-of-range lane (a compile error in core::arch) is an
    /// assertion failure.
    pub unsafe fn vgetq_lane_u32(v: uint32x4_t, lane: i32) -> u32 {
        assert!(0 <= lane && lane <= 3);
        v.0[lane as usize]
    }
}
