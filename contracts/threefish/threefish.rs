// Contracts on threefish/src/lib.rs: Threefish256 / Threefish512 / Threefish1024 against Threefish of the Skein 1.3
// paper (bcref::threefish: section 3.3, Tables 3 and 4, key schedule 3.3.2, little-endian words 3.1).
//
//   c_mix, c_inv_mix, l_mix_inverse   the free functions mix / inv_mix == MIX_{d,j} / its inverse, for every rotation byte
//   c_consts                          C240, R256/R512/R1024 == Table 4, P256/P512/P1024 == the inverse of pi (Table 3)
//                                     (the real code scatters f_i to position P[i]; the paper gathers v_i = f_{pi(i)})
//   l_ref_round_inverse_<n>           reference-level: inv_round(d, round(d, v)) == v and back, every subkey array, every d
// Per type <p> in {t256, t512, t1024}: the rounds are decomposed over the contracts of mix / inv_mix.  In the block-function
// obligations both the real `mix` / `inv_mix` and the reference's MIX are replaced by the lock-step transcript oracle
// `mix_oracle!` below (soundness argument there), so that what the solver sees is the subkey injection, the selection of
// the rotation constant (checked call by call: it is part of the transcript) and the word permutation:
//   <p>_ks        new_with_tweak_u64 == key schedule 3.3.2, every key and tweak
//   <p>_ks_bytes  new_with_tweak == new_with_tweak_u64 on little-endian words; KeyInit::new == zero tweak
//   <p>_enc/_dec  encrypt_block_u64 / decrypt_block_u64 == Threefish for EVERY subkey array and block   (uses c_mix / c_inv_mix)
//   <p>_bytes     encrypt_block / decrypt_block on bytes == the u64 entry points under little-endian encoding
//   <p>_api       KeyInit::new / new_with_tweak + encrypt_block + decrypt_block == Threefish on bytes (zero / given tweak)
//   <p>_rt1/_rt2  C01 on the real block functions, every subkey array, both orders: the second operation's calls are
//                 answered from the transcript of the first one read backwards (uses l_mix_inverse, both orders)
//   <p>_keylen, <p>_same, <p>_weak, <p>_names, <p>_mb, z_<p>
//
// @module file=threefish/src/lib.rs
// @config name=zeroize features=zeroize
use super::*;
use bcref::threefish as r;
use cipher::Array;
include!("@VERIF@/contracts/_common/common.rs");

fn eq_n<const N: usize>(a: &[u8; N], b: &[u8; N]) -> bool {
    let mut ok = true;
    let mut i = 0;
    while i < N {
        ok &= a[i] == b[i];
        i += 1;
    }
    ok
}
fn eq_w<const N: usize>(a: &[u64; N], b: &[u64; N]) -> bool {
    let mut ok = true;
    let mut i = 0;
    while i < N {
        ok &= a[i] == b[i];
        i += 1;
    }
    ok
}
fn eq_sk<const N: usize, const S: usize>(a: &[[u64; N]; S], b: &[[u64; N]; S]) -> bool {
    let mut ok = true;
    let mut s = 0;
    while s < S {
        ok &= eq_w(&a[s], &b[s]);
        s += 1;
    }
    ok
}

/// contracts of mix / inv_mix as spec functions (stubs in the block-function obligations)
pub fn spec_mix(rot: u8, x: (u64, u64)) -> (u64, u64) { r::mix(rot as u32, x.0, x.1) }
pub fn spec_inv_mix(rot: u8, y: (u64, u64)) -> (u64, u64) { r::inv_mix(rot as u32, y.0, y.1) }

// @ob name=c_mix props=C10,C20 kind=contract fn=threefish::mix timeout=120
#[kani::proof]
fn c_mix() {
    let rot: u8 = kani::any();
    let x: (u64, u64) = (kani::any(), kani::any());
    assert!(mix(rot, x) == spec_mix(rot, x));
}
// @ob name=c_inv_mix props=C10,C20 kind=contract fn=threefish::inv_mix timeout=120
#[kani::proof]
fn c_inv_mix() {
    let rot: u8 = kani::any();
    let y: (u64, u64) = (kani::any(), kani::any());
    assert!(inv_mix(rot, y) == spec_inv_mix(rot, y));
}
// @ob name=l_mix_inverse props=C01 kind=lemma fn=threefish::mix,threefish::inv_mix timeout=120
#[kani::proof]
fn l_mix_inverse() {
    let rot: u8 = kani::any();
    let x: (u64, u64) = (kani::any(), kani::any());
    assert!(inv_mix(rot, mix(rot, x)) == x);
    assert!(mix(rot, inv_mix(rot, x)) == x);
}
// @ob name=c_consts props=C10 kind=exhaustive fn=threefish::consts::C240,threefish::consts::R256,threefish::consts::R512,threefish::consts::R1024,threefish::consts::P256,threefish::consts::P512,threefish::consts::P1024 timeout=120
#[kani::proof]
#[kani::unwind(18)]
fn c_consts() {
    assert!(C240 == r::C240);
    let mut d = 0;
    while d < 8 {
        let mut j = 0;
        while j < 8 {
            if j < 2 { assert!(R256[d][j] as u32 == r::rot(4, d, j)); }
            if j < 4 { assert!(R512[d][j] as u32 == r::rot(8, d, j)); }
            assert!(R1024[d][j] as u32 == r::rot(16, d, j));
            j += 1;
        }
        d += 1;
    }
    // P is the inverse permutation of pi: P[pi(i)] == i
    let mut i = 0;
    while i < 16 {
        if i < 4 { assert!(P256[r::pi(4, i)] as usize == i); }
        if i < 8 { assert!(P512[r::pi(8, i)] as usize == i); }
        assert!(P1024[r::pi(16, i)] as usize == i);
        i += 1;
    }
}

macro_rules! ref_round_inverse {
    ($name:ident, $nw:expr, $ns:expr) => {
        #[kani::proof]
        #[kani::unwind(24)]
        fn $name() {
            let sk: [[u64; $nw]; $ns] = kani::any();
            let d: usize = kani::any();
            kani::assume(d < 4 * ($ns - 1));
            kani::cover!(d % 4 == 0);
            kani::cover!(d == 4 * ($ns - 1) - 1);
            let v: [u64; $nw] = kani::any();
            assert!(eq_w(&r::inv_round::<$nw, $ns>(&sk, d, &r::round::<$nw, $ns>(&sk, d, &v)), &v));
            assert!(eq_w(&r::round::<$nw, $ns>(&sk, d, &r::inv_round::<$nw, $ns>(&sk, d, &v)), &v));
        }
    };
}
// reference-level round inverses (kept for the record, unregistered: C01 is discharged on the real code by <p>_rt1/2)
// (times out at 300 s with a symbolic round index: unregistered) @-ob name=l_ref_round_inverse_4 props=C01 kind=lemma fn=bcref::threefish::round,bcref::threefish::inv_round timeout=300
ref_round_inverse!(l_ref_round_inverse_4, 4, 19);
// (times out at 300 s with a symbolic round index: unregistered) @-ob name=l_ref_round_inverse_8 props=C01 kind=lemma fn=bcref::threefish::round,bcref::threefish::inv_round timeout=300
ref_round_inverse!(l_ref_round_inverse_8, 8, 19);
// (times out at 300 s with a symbolic round index: unregistered) @-ob name=l_ref_round_inverse_16 props=C01 kind=lemma fn=bcref::threefish::round,bcref::threefish::inv_round timeout=300
ref_round_inverse!(l_ref_round_inverse_16, 16, 21);

macro_rules! mb_body {
    ($c:expr, $bb:expr, $n:expr) => {{
        let d = &$c;
        let inp: [[u8; $bb]; $n] = kani::any();
        let mut single = [[0u8; $bb]; $n];
        let mut i = 0;
        while i < $n {
            let mut b = Array(inp[i]);
            cipher::BlockCipherEncrypt::encrypt_block(d, &mut b);
            single[i] = b.0;
            i += 1;
        }
        let mut blocks = [Array([0u8; $bb]); $n];
        let mut i = 0;
        while i < $n { blocks[i] = Array(inp[i]); i += 1; }
        cipher::BlockCipherEncrypt::encrypt_blocks(d, &mut blocks);
        let mut i = 0;
        while i < $n { assert!(eq_n(&blocks[i].0, &single[i])); i += 1; }
        let mut src = [Array([0u8; $bb]); $n];
        let mut i = 0;
        while i < $n { src[i] = Array(inp[i]); i += 1; }
        let g: [u8; $bb] = kani::any();
        let mut dst = [Array(g); $n + 2];
        cipher::BlockCipherEncrypt::encrypt_blocks_b2b(d, &src, &mut dst[1..$n + 1]).unwrap();
        assert!(eq_n(&dst[0].0, &g) && eq_n(&dst[$n + 1].0, &g));
        let mut i = 0;
        while i < $n { assert!(eq_n(&dst[i + 1].0, &single[i]) && eq_n(&src[i].0, &inp[i])); i += 1; }
    }};
}

/// uninterpreted block function on words for the plumbing obligations (<p>_bytes, <p>_mb): any pure function of the block,
/// the same for every call (Ackermann table); licensed by <p>_enc / <p>_dec (pure functions of (subkeys, block))
macro_rules! uf_words {
    ($m:ident, $nw:expr) => {
        pub mod $m {
            pub const MAXC: usize = 16;
            pub static mut IN: [[u64; $nw]; MAXC] = [[0; $nw]; MAXC];
            pub static mut OUT: [[u64; $nw]; MAXC] = [[0; $nw]; MAXC];
            pub static mut N: usize = 0;
            #[allow(static_mut_refs)]
            pub fn f(x: &mut [u64; $nw]) {
                unsafe {
                    let mut y: [u64; $nw] = kani::any();
                    let mut found = false;
                    let mut i = 0;
                    while i < N {
                        if !found && super::eq_w(&IN[i], x) { y = OUT[i]; found = true; }
                        i += 1;
                    }
                    assert!(N < MAXC);
                    IN[N] = *x;
                    OUT[N] = y;
                    N += 1;
                    *x = y;
                }
            }
        }
    };
}
uf_words!(uf4, 4);
uf_words!(uf8, 8);
uf_words!(uf16, 16);


/// Lock-step / transcript oracle for the MIX calls of one block operation (`mix_oracle!(module, calls per round, rounds)`).
/// One function `step(rot, a0, a1) -> (y0, y1)` is put in place of `mix` / `inv_mix` AND of the reference's
/// `bcref::threefish::mix` / `inv_mix` (real_mix / ref_mix only differ in the parameter types).  Harness shape:
///      <operation 1>;  replay_same() | replay_inverse();  <operation 2>;  assert!(done())
///   RECORD (operation 1)  every call returns a fresh unconstrained pair and is appended to the transcript
///                         (rotation, arguments, results): operation 1 is run with MIX replaced by ANY function of
///                         (rotation, arguments) -- not even functional consistency is assumed (over-approximation).
///   replay_same           the k-th call of operation 2 ASSERTS that its rotation and arguments equal those of the k-th
///                         recorded call and returns the recorded results (both sides call MIX in the order d, j).
///                         Proves: operation 1 == operation 2 whatever function MIX is, provided it is the same function
///                         on both sides: licensed by c_mix / c_inv_mix (real mix == reference MIX, every rotation byte).
///   replay_inverse        the k-th call of operation 2 (round R-1-k/H, position k%H) ASSERTS that its rotation and
///                         arguments equal the rotation and RESULTS of the recorded call of that round and position and
///                         returns the recorded ARGUMENTS.  Sound for every pair (g, g') with g'(r, g(r, x)) == x:
///                         licensed by l_mix_inverse (both orders).
/// A replayed value is only used after `assert!(same)` (then assumed), `done()` checks that every recorded call was
/// consumed and that the call count is the expected one.  The transcript is chunked in rows of 64 so that CBMC keeps
/// every cell a scalar (arrays above 64 elements lose field sensitivity); all indices are concrete during symex.
macro_rules! mix_oracle {
    ($m:ident, $h:expr, $rounds:expr) => {
        pub mod $m {
            pub const H: usize = $h;
            pub const CALLS: usize = $h * $rounds;
            pub const CH: usize = (CALLS + 63) / 64;
            pub static mut RT: [[u32; 64]; CH] = [[0; 64]; CH];
            pub static mut A0: [[u64; 64]; CH] = [[0; 64]; CH];
            pub static mut A1: [[u64; 64]; CH] = [[0; 64]; CH];
            pub static mut Y0: [[u64; 64]; CH] = [[0; 64]; CH];
            pub static mut Y1: [[u64; 64]; CH] = [[0; 64]; CH];
            pub static mut N: usize = 0;
            pub static mut R: usize = 0;
            pub static mut MODE: u8 = 0;
            #[allow(static_mut_refs)]
            fn step(rot: u32, a0: u64, a1: u64) -> (u64, u64) {
                unsafe {
                    if MODE == 0 {
                        assert!(N < CALLS);
                        let (y0, y1): (u64, u64) = (kani::any(), kani::any());
                        let (c, i) = (N / 64, N % 64);
                        RT[c][i] = rot; A0[c][i] = a0; A1[c][i] = a1; Y0[c][i] = y0; Y1[c][i] = y1;
                        N += 1;
                        (y0, y1)
                    } else {
                        assert!(R < N && N == CALLS);
                        let k = R;
                        R += 1;
                        let j = if MODE == 1 { k } else { (N / H - 1 - k / H) * H + k % H };
                        let (c, i) = (j / 64, j % 64);
                        if MODE == 1 {
                            let same = RT[c][i] == rot && A0[c][i] == a0 && A1[c][i] == a1;
                            assert!(same);
                            kani::assume(same);
                            (Y0[c][i], Y1[c][i])
                        } else {
                            let same = RT[c][i] == rot && Y0[c][i] == a0 && Y1[c][i] == a1;
                            assert!(same);
                            kani::assume(same);
                            (A0[c][i], A1[c][i])
                        }
                    }
                }
            }
            pub fn real_mix(r: u8, x: (u64, u64)) -> (u64, u64) { step(r as u32, x.0, x.1) }
            pub fn ref_mix(r: u32, x0: u64, x1: u64) -> (u64, u64) { step(r, x0, x1) }
            pub fn replay_same() { unsafe { MODE = 1; R = 0; } }
            pub fn replay_inverse() { unsafe { MODE = 2; R = 0; } }
            pub fn done() -> bool { unsafe { MODE != 0 && R == N && N == CALLS } }
        }
    };
}
mix_oracle!(ox4, 2, 72);
mix_oracle!(ox8, 4, 72);
mix_oracle!(ox16, 8, 80);

macro_rules! threefish_type {
    ($ty:ident, nw=$nw:expr, ns=$ns:expr, uf=$uf:ident, ox=$ox:ident, name=$text:expr;
     $ks:ident, $ksb:ident, $enc:ident, $dec:ident, $bytes:ident, $api:ident, $rt1:ident, $rt2:ident,
     $keylen:ident, $same:ident, $weak:ident, $names:ident, $mb:ident, $z:ident) => {
        impl $ty {
            fn __vp_uf_enc(&self, block: &mut [u64; $nw]) { $uf::f(block) }
            fn __vp_uf_dec(&self, block: &mut [u64; $nw]) { $uf::f(block) }
        }
        #[kani::proof]
        #[kani::unwind(132)]
        fn $ks() {
            let key: [u64; $nw] = kani::any();
            let tweak: [u64; 2] = kani::any();
            let c = $ty::new_with_tweak_u64(&key, &tweak);
            assert!(eq_sk(&c.sk, &r::key_schedule::<$nw, $ns>(&key, &tweak)));
        }
        #[kani::proof]
        #[kani::unwind(132)]
        fn $ksb() {
            let key: [u8; 8 * $nw] = kani::any();
            let tweak: [u8; 16] = kani::any();
            let a = $ty::new_with_tweak(&key, &tweak);
            let b = $ty::new_with_tweak_u64(&r::bytes_to_words::<$nw>(&key), &r::bytes_to_words::<2>(&tweak));
            assert!(eq_sk(&a.sk, &b.sk));
            // the plain keyed constructor means the zero tweak
            let c = <$ty as KeyInit>::new(&Array(key));
            let z = $ty::new_with_tweak(&key, &[0u8; 16]);
            assert!(eq_sk(&c.sk, &z.sk));
        }
        // block functions on words == Threefish for EVERY subkey array: MIX replaced on both sides by the lock-step oracle,
        // what is left is the subkey injection, the rotation-constant selection and the word permutation
        #[kani::proof]
        #[kani::stub(mix, $ox::real_mix)]
        #[kani::stub(bcref::threefish::mix, $ox::ref_mix)]
        #[kani::unwind(82)]
        fn $enc() {
            let c = $ty { sk: kani::any() };
            let p: [u64; $nw] = kani::any();
            let mut b = p;
            c.encrypt_block_u64(&mut b);
            $ox::replay_same();
            let e = r::encrypt_with::<$nw, $ns>(&c.sk, &p);
            assert!($ox::done());
            assert!(eq_w(&b, &e));
        }
        #[kani::proof]
        #[kani::stub(inv_mix, $ox::real_mix)]
        #[kani::stub(bcref::threefish::inv_mix, $ox::ref_mix)]
        #[kani::unwind(82)]
        fn $dec() {
            let c = $ty { sk: kani::any() };
            let p: [u64; $nw] = kani::any();
            let mut b = p;
            c.decrypt_block_u64(&mut b);
            $ox::replay_same();
            let e = r::decrypt_with::<$nw, $ns>(&c.sk, &p);
            assert!($ox::done());
            assert!(eq_w(&b, &e));
        }
        // byte entry points = little-endian wrap of the u64 entry points (the latter abstracted to an uninterpreted function)
        #[kani::proof]
        #[kani::stub($ty::encrypt_block_u64, $ty::__vp_uf_enc)]
        #[kani::stub($ty::decrypt_block_u64, $ty::__vp_uf_dec)]
        #[kani::unwind(132)]
        fn $bytes() {
            let c = $ty { sk: kani::any() };
            let b: [u8; 8 * $nw] = kani::any();
            let mut blk = Array(b);
            if kani::any() {
                cipher::BlockCipherEncrypt::encrypt_block(&c, &mut blk);
            } else {
                cipher::BlockCipherDecrypt::decrypt_block(&c, &mut blk);
            }
            let mut w = r::bytes_to_words::<$nw>(&b);
            $uf::f(&mut w);
            let mut e = [0u8; 8 * $nw];
            r::words_to_bytes::<$nw>(&w, &mut e);
            assert!(eq_n(&blk.0, &e));
        }
        #[kani::proof]
        #[kani::stub(mix, $ox::real_mix)]
        #[kani::stub(inv_mix, $ox::real_mix)]
        #[kani::stub(bcref::threefish::mix, $ox::ref_mix)]
        #[kani::stub(bcref::threefish::inv_mix, $ox::ref_mix)]
        #[kani::unwind(132)]
        fn $api() {
            let key: [u8; 8 * $nw] = kani::any();
            let mut tweak: [u8; 16] = kani::any();
            let b: [u8; 8 * $nw] = kani::any();
            let c = if kani::any() {
                $ty::new_with_tweak(&key, &tweak)
            } else {
                tweak = [0u8; 16];
                <$ty as KeyInit>::new(&Array(key))
            };
            let mut blk = Array(b);
            let mut e = b;
            if kani::any() {
                cipher::BlockCipherEncrypt::encrypt_block(&c, &mut blk);
                $ox::replay_same();
                r::encrypt::<$nw, $ns>(&key, &tweak, &mut e);
            } else {
                cipher::BlockCipherDecrypt::decrypt_block(&c, &mut blk);
                $ox::replay_same();
                r::decrypt::<$nw, $ns>(&key, &tweak, &mut e);
            }
            assert!($ox::done());
            assert!(eq_n(&blk.0, &e));
        }
        // C01 on the real block functions for EVERY subkey array: mix / inv_mix replaced by the inverse-pair oracle
        #[kani::proof]
        #[kani::stub(mix, $ox::real_mix)]
        #[kani::stub(inv_mix, $ox::real_mix)]
        #[kani::unwind(82)]
        fn $rt1() {
            let c = $ty { sk: kani::any() };
            let p: [u64; $nw] = kani::any();
            let mut b = p;
            c.encrypt_block_u64(&mut b);
            $ox::replay_inverse();
            c.decrypt_block_u64(&mut b);
            assert!($ox::done());
            assert!(eq_w(&b, &p));
        }
        #[kani::proof]
        #[kani::stub(mix, $ox::real_mix)]
        #[kani::stub(inv_mix, $ox::real_mix)]
        #[kani::unwind(82)]
        fn $rt2() {
            let c = $ty { sk: kani::any() };
            let p: [u64; $nw] = kani::any();
            let mut b = p;
            c.decrypt_block_u64(&mut b);
            $ox::replay_inverse();
            c.encrypt_block_u64(&mut b);
            assert!($ox::done());
            assert!(eq_w(&b, &p));
        }
        #[kani::proof]
        #[kani::unwind(132)]
        fn $keylen() {
            let buf: [u8; 301] = kani::any();
            let n: usize = kani::any();
            kani::assume(n <= 300);
            kani::cover!(n == 8 * $nw);
            kani::cover!(n == 300);
            kani::cover!(n == 0);
            let r = <$ty as KeyInit>::new_from_slice(&buf[..n]);
            assert!(r.is_ok() == (n == 8 * $nw));
        }
        #[kani::proof]
        #[kani::unwind(132)]
        fn $same() {
            let key: [u8; 8 * $nw] = kani::any();
            let a = <$ty as KeyInit>::new(&Array(key));
            let b = <$ty as KeyInit>::new_from_slice(&key[..]).unwrap();
            let c = a.clone();
            assert!(eq_sk(&a.sk, &b.sk) && eq_sk(&a.sk, &c.sk));
        }
        #[kani::proof]
        #[kani::unwind(132)]
        fn $weak() {
            let key: [u8; 8 * $nw] = kani::any();
            assert!(<$ty as KeyInit>::weak_key_test(&Array(key)).is_ok());
            match <$ty as KeyInit>::new_checked(&Array(key)) {
                Ok(d) => assert!(eq_sk(&d.sk, &<$ty as KeyInit>::new(&Array(key)).sk)),
                Err(_) => assert!(false),
            }
        }
        #[kani::proof]
        #[kani::unwind(100)]
        fn $names() {
            let a = $ty { sk: kani::any() };
            let b = $ty { sk: kani::any() };
            let (ta, tb) = (debug_text(&a), debug_text(&b));
            assert!(ta.same(&tb));
            assert!(ta.names($text));
            assert!(alg_name_text::<$ty>().is($text));
        }
        #[kani::proof]
        #[kani::stub($ty::encrypt_block_u64, $ty::__vp_uf_enc)]
        #[kani::unwind(132)]
        fn $mb() {
            let c = $ty { sk: kani::any() };
            let before = c.sk;
            mb_body!(c, 8 * $nw, 0);
            mb_body!(c, 8 * $nw, 1);
            mb_body!(c, 8 * $nw, 3);
            assert!(eq_sk(&before, &c.sk));
        }
        #[kani::proof]
        #[kani::unwind(2700)]
        fn $z() {
            let mut m = core::mem::ManuallyDrop::new($ty { sk: kani::any() }.clone());
            let p: *const $ty = &*m;
            unsafe { core::mem::ManuallyDrop::drop(&mut m); }
            assert!(unsafe { all_bytes_zero(p) });
        }
    };
}

// ---------------------------------------------------------------- the three types
// Threefish256: N_w = 4, 72 rounds, 19 subkeys
// @ob name=t256_ks props=C10,C20 kind=contract fn=threefish::Threefish256::new_with_tweak_u64 timeout=300
// @ob name=t256_ks_bytes props=C10,C11,C20 kind=contract fn=threefish::Threefish256::new_with_tweak,threefish::Threefish256::new timeout=300
// @ob name=t256_enc props=C10,C20 kind=contract fn=threefish::Threefish256::encrypt_block_u64 uses=c_mix timeout=600
// @ob name=t256_dec props=C10,C20 kind=contract fn=threefish::Threefish256::decrypt_block_u64 uses=c_inv_mix timeout=600
// @ob name=t256_bytes props=C10,C20 kind=contract fn=threefish::Threefish256::encrypt_block,threefish::Threefish256::decrypt_block uses=t256_enc,t256_dec timeout=300
// @ob name=t256_api props=C10,C20 kind=contract tier=thorough fn=threefish::Threefish256::new,threefish::Threefish256::new_with_tweak,threefish::Threefish256::encrypt_block,threefish::Threefish256::decrypt_block uses=c_mix,c_inv_mix timeout=1800
// @ob name=t256_rt1 props=C01 kind=lemma fn=threefish::Threefish256::encrypt_block_u64,threefish::Threefish256::decrypt_block_u64 uses=l_mix_inverse timeout=600
// @ob name=t256_rt2 props=C01 kind=lemma fn=threefish::Threefish256::encrypt_block_u64,threefish::Threefish256::decrypt_block_u64 uses=l_mix_inverse timeout=600
// @ob name=t256_keylen props=C11 kind=bounded bound="slice length <= 300" fn=threefish::Threefish256::new_from_slice timeout=300
// @ob name=t256_same props=C11,C12 kind=contract fn=threefish::Threefish256::new_from_slice,threefish::Threefish256::new,threefish::Threefish256::clone timeout=300
// @ob name=t256_weak props=C13 kind=contract fn=threefish::Threefish256::weak_key_test,threefish::Threefish256::new_checked timeout=300
// @ob name=t256_names props=C19 kind=contract fn=threefish::Threefish256::fmt,threefish::Threefish256::write_alg_name timeout=300
// @ob name=t256_mb props=C04,C15 kind=bounded bound="n in {0, 1, 3} blocks (ParBlocksSize = 1)" fn=threefish::Threefish256::encrypt_with_backend,threefish::Threefish256::encrypt_block uses=t256_enc timeout=600
// @ob name=z_t256 props=C16 cfg=zeroize kind=contract fn=threefish::Threefish256::drop,threefish::Threefish256::clone timeout=600
threefish_type!(Threefish256, nw=4, ns=19, uf=uf4, ox=ox4, name="Threefish256";
    t256_ks, t256_ks_bytes, t256_enc, t256_dec, t256_bytes, t256_api, t256_rt1, t256_rt2, t256_keylen, t256_same, t256_weak, t256_names, t256_mb, z_t256);
// Threefish512: N_w = 8, 72 rounds, 19 subkeys
// @ob name=t512_ks props=C10,C20 kind=contract fn=threefish::Threefish512::new_with_tweak_u64 timeout=300
// @ob name=t512_ks_bytes props=C10,C11,C20 kind=contract fn=threefish::Threefish512::new_with_tweak,threefish::Threefish512::new timeout=300
// @ob name=t512_enc props=C10,C20 kind=contract fn=threefish::Threefish512::encrypt_block_u64 uses=c_mix timeout=600
// @ob name=t512_dec props=C10,C20 kind=contract fn=threefish::Threefish512::decrypt_block_u64 uses=c_inv_mix timeout=600
// @ob name=t512_bytes props=C10,C20 kind=contract fn=threefish::Threefish512::encrypt_block,threefish::Threefish512::decrypt_block uses=t512_enc,t512_dec timeout=300
// @ob name=t512_api props=C10,C20 kind=contract tier=thorough fn=threefish::Threefish512::new,threefish::Threefish512::new_with_tweak,threefish::Threefish512::encrypt_block,threefish::Threefish512::decrypt_block uses=c_mix,c_inv_mix timeout=2400
// @ob name=t512_rt1 props=C01 kind=lemma fn=threefish::Threefish512::encrypt_block_u64,threefish::Threefish512::decrypt_block_u64 uses=l_mix_inverse timeout=600
// @ob name=t512_rt2 props=C01 kind=lemma fn=threefish::Threefish512::encrypt_block_u64,threefish::Threefish512::decrypt_block_u64 uses=l_mix_inverse timeout=600
// @ob name=t512_keylen props=C11 kind=bounded bound="slice length <= 300" fn=threefish::Threefish512::new_from_slice timeout=300
// @ob name=t512_same props=C11,C12 kind=contract fn=threefish::Threefish512::new_from_slice,threefish::Threefish512::new,threefish::Threefish512::clone timeout=300
// @ob name=t512_weak props=C13 kind=contract fn=threefish::Threefish512::weak_key_test,threefish::Threefish512::new_checked timeout=300
// @ob name=t512_names props=C19 kind=contract fn=threefish::Threefish512::fmt,threefish::Threefish512::write_alg_name timeout=300
// @ob name=t512_mb props=C04,C15 kind=bounded bound="n in {0, 1, 3} blocks (ParBlocksSize = 1)" fn=threefish::Threefish512::encrypt_with_backend,threefish::Threefish512::encrypt_block uses=t512_enc timeout=600
// @ob name=z_t512 props=C16 cfg=zeroize kind=contract fn=threefish::Threefish512::drop,threefish::Threefish512::clone timeout=600
threefish_type!(Threefish512, nw=8, ns=19, uf=uf8, ox=ox8, name="Threefish512";
    t512_ks, t512_ks_bytes, t512_enc, t512_dec, t512_bytes, t512_api, t512_rt1, t512_rt2, t512_keylen, t512_same, t512_weak, t512_names, t512_mb, z_t512);
// Threefish1024: N_w = 16, 80 rounds, 21 subkeys
// @ob name=t1024_ks props=C10,C20 kind=contract fn=threefish::Threefish1024::new_with_tweak_u64 timeout=300
// @ob name=t1024_ks_bytes props=C10,C11,C20 kind=contract fn=threefish::Threefish1024::new_with_tweak,threefish::Threefish1024::new timeout=300
// @ob name=t1024_enc props=C10,C20 kind=contract fn=threefish::Threefish1024::encrypt_block_u64 uses=c_mix timeout=600
// @ob name=t1024_dec props=C10,C20 kind=contract fn=threefish::Threefish1024::decrypt_block_u64 uses=c_inv_mix timeout=600
// @ob name=t1024_bytes props=C10,C20 kind=contract fn=threefish::Threefish1024::encrypt_block,threefish::Threefish1024::decrypt_block uses=t1024_enc,t1024_dec timeout=300
// @ob name=t1024_api props=C10,C20 kind=contract tier=thorough fn=threefish::Threefish1024::new,threefish::Threefish1024::new_with_tweak,threefish::Threefish1024::encrypt_block,threefish::Threefish1024::decrypt_block uses=c_mix,c_inv_mix timeout=3600
// @ob name=t1024_rt1 props=C01 kind=lemma tier=thorough fn=threefish::Threefish1024::encrypt_block_u64,threefish::Threefish1024::decrypt_block_u64 uses=l_mix_inverse timeout=2400
// @ob name=t1024_rt2 props=C01 kind=lemma tier=thorough fn=threefish::Threefish1024::encrypt_block_u64,threefish::Threefish1024::decrypt_block_u64 uses=l_mix_inverse timeout=2400
// @ob name=t1024_keylen props=C11 kind=bounded bound="slice length <= 300" fn=threefish::Threefish1024::new_from_slice timeout=300
// @ob name=t1024_same props=C11,C12 kind=contract fn=threefish::Threefish1024::new_from_slice,threefish::Threefish1024::new,threefish::Threefish1024::clone timeout=300
// @ob name=t1024_weak props=C13 kind=contract fn=threefish::Threefish1024::weak_key_test,threefish::Threefish1024::new_checked timeout=300
// @ob name=t1024_names props=C19 kind=contract fn=threefish::Threefish1024::fmt,threefish::Threefish1024::write_alg_name timeout=300
// @ob name=t1024_mb props=C04,C15 kind=bounded bound="n in {0, 1, 3} blocks (ParBlocksSize = 1)" fn=threefish::Threefish1024::encrypt_with_backend,threefish::Threefish1024::encrypt_block uses=t1024_enc timeout=600
// (times out at 600 s: unregistered) @-ob name=z_t1024 props=C16 cfg=zeroize kind=contract fn=threefish::Threefish1024::drop,threefish::Threefish1024::clone timeout=600
threefish_type!(Threefish1024, nw=16, ns=21, uf=uf16, ox=ox16, name="Threefish1024";
    t1024_ks, t1024_ks_bytes, t1024_enc, t1024_dec, t1024_bytes, t1024_api, t1024_rt1, t1024_rt2, t1024_keylen, t1024_same, t1024_weak, t1024_names, t1024_mb, z_t1024);
