// API-level obligations for the compact backend (--cfg kuznyechik_backend="compact_soft"): see api_common.inc for the harness bodies.
//
// @module file=kuznyechik/src/compact_soft/mod.rs
// @config name=compact rustflags='--cfg kuznyechik_backend="compact_soft"'
// @config name=compact_zeroize features=zeroize rustflags='--cfg kuznyechik_backend="compact_soft"'
use super::*;
use backends::__vp_compact::{uf_expand, uf_lsx, uf_lsx_inv};

macro_rules! with_key_stubs { ($i:item) => {
    #[kani::stub(backends::expand, uf_expand)]
    $i
}; }
macro_rules! with_block_stubs { ($i:item) => {
    #[kani::stub(backends::lsx, uf_lsx)]
    #[kani::stub(backends::lsx_inv, uf_lsx_inv)]
    $i
}; }
macro_rules! with_spec_stubs { ($i:item) => {
    #[kani::stub(backends::expand, backends::__vp_compact::spec_expand)]
    #[kani::stub(backends::lsx, backends::__vp_compact::spec_lsx)]
    #[kani::stub(backends::lsx_inv, backends::__vp_compact::spec_lsx_inv)]
    $i
}; }
include!("@VERIF@/contracts/kuznyechik/api_common.inc");

// NOT REGISTERED (timeout 600 s in the final run; harness kept for the next round): ob name=a_api_enc cfg=compact props=C07,C20 fn=kuznyechik::Kuznyechik::new,kuznyechik::Kuznyechik::encrypt_with_backend,kuznyechik::KuznyechikEnc::new,kuznyechik::KuznyechikEnc::encrypt_with_backend uses=c_expand,c_enc_block timeout=600
// @ob name=a_api_dec cfg=compact tier=thorough props=C07,C20 fn=kuznyechik::Kuznyechik::new,kuznyechik::Kuznyechik::decrypt_with_backend uses=c_expand,c_dec_block timeout=1800
// @ob name=a_api_dec_only cfg=compact tier=thorough props=C07,C20 fn=kuznyechik::KuznyechikDec::new,kuznyechik::KuznyechikDec::decrypt_with_backend uses=c_expand,c_dec_block timeout=1800
// @ob name=r_roundtrip cfg=compact props=C01 kind=lemma fn=kuznyechik::Kuznyechik::encrypt_with_backend,kuznyechik::Kuznyechik::decrypt_with_backend,kuznyechik::Kuznyechik::from uses=c_lsx,c_lsx_inv,l_ls_inverse timeout=600
// @ob name=r_roundtrip_rev cfg=compact props=C01 kind=lemma fn=kuznyechik::Kuznyechik::encrypt_with_backend,kuznyechik::Kuznyechik::decrypt_with_backend,kuznyechik::Kuznyechik::from uses=c_lsx,c_lsx_inv,l_ls_inverse timeout=600
// NOT REGISTERED (timeout 600 s in the final run; harness kept for the next round): ob name=r_roundtrip_halves cfg=compact props=C01,C12 kind=lemma fn=kuznyechik::KuznyechikEnc::encrypt_with_backend,kuznyechik::KuznyechikDec::decrypt_with_backend,kuznyechik::KuznyechikDec::from uses=c_lsx,c_lsx_inv,l_ls_inverse timeout=600
// @ob name=k_len cfg=compact props=C11 kind=bounded bound="slice length <= 300" fn=kuznyechik::Kuznyechik::new_from_slice uses=c_expand timeout=300
// @ob name=k_len_enc cfg=compact props=C11 kind=bounded bound="slice length <= 300" fn=kuznyechik::KuznyechikEnc::new_from_slice uses=c_expand timeout=300
// @ob name=k_len_dec cfg=compact props=C11 kind=bounded bound="slice length <= 300" fn=kuznyechik::KuznyechikDec::new_from_slice uses=c_expand timeout=300
// @ob name=k_same_state cfg=compact tier=thorough props=C11,C12,C13 fn=kuznyechik::Kuznyechik::new,kuznyechik::KuznyechikEnc::new,kuznyechik::KuznyechikDec::new,kuznyechik::Kuznyechik::from,kuznyechik::KuznyechikDec::from,kuznyechik::compact_soft::EncKeys::new,kuznyechik::compact_soft::EncDecKeys::from,kuznyechik::compact_soft::DecKeys::from uses=c_expand timeout=1800
// @ob name=k_clone cfg=compact props=C12 fn=kuznyechik::Kuznyechik::clone,kuznyechik::KuznyechikEnc::clone,kuznyechik::KuznyechikDec::clone timeout=300
// @ob name=k_convert_any_state cfg=compact props=C12 fn=kuznyechik::Kuznyechik::from,kuznyechik::KuznyechikDec::from timeout=300
// @ob name=n_kuznyechik cfg=compact props=C19 fn=kuznyechik::Kuznyechik::fmt,kuznyechik::Kuznyechik::write_alg_name timeout=300
// @ob name=n_kuznyechik_enc cfg=compact props=C19 fn=kuznyechik::KuznyechikEnc::fmt,kuznyechik::KuznyechikEnc::write_alg_name timeout=300
// @ob name=n_kuznyechik_dec cfg=compact props=C19 fn=kuznyechik::KuznyechikDec::fmt,kuznyechik::KuznyechikDec::write_alg_name timeout=300
// @ob name=z_kuznyechik cfg=compact_zeroize props=C16 fn=kuznyechik::Kuznyechik::drop timeout=300
// @ob name=z_kuznyechik_enc cfg=compact_zeroize props=C16 fn=kuznyechik::KuznyechikEnc::drop timeout=300
// @ob name=z_kuznyechik_dec cfg=compact_zeroize props=C16 fn=kuznyechik::KuznyechikDec::drop timeout=300
// @ob name=z_kuznyechik_clone cfg=compact_zeroize props=C16 fn=kuznyechik::Kuznyechik::drop,kuznyechik::Kuznyechik::clone timeout=300
// @ob name=z_kuznyechik_from_ref cfg=compact_zeroize props=C16 fn=kuznyechik::Kuznyechik::drop,kuznyechik::Kuznyechik::from timeout=300
// @ob name=z_kuznyechik_from_val cfg=compact_zeroize props=C16 fn=kuznyechik::Kuznyechik::drop,kuznyechik::Kuznyechik::from timeout=300
// @ob name=z_kuznyechik_dec_from_ref cfg=compact_zeroize props=C16 fn=kuznyechik::KuznyechikDec::drop,kuznyechik::KuznyechikDec::from timeout=300
// @ob name=z_kuznyechik_dec_from_val cfg=compact_zeroize props=C16 fn=kuznyechik::KuznyechikDec::drop,kuznyechik::KuznyechikDec::from timeout=300

// parallel width 1 in both directions: n = 0, 1, 3
// @ob name=m_enc_0 cfg=compact props=C04,C15 kind=bounded bound="n = 0 block(s)" fn=kuznyechik::Kuznyechik::encrypt_with_backend,kuznyechik::compact_soft::backends::EncBackend::encrypt_block uses=c_lsx timeout=300
multi_enc!(m_enc_0, Kuznyechik, SZ, 0);
// @ob name=m_enc_1 cfg=compact tier=thorough props=C04,C15 kind=bounded bound="n = 1 block(s)" fn=kuznyechik::Kuznyechik::encrypt_with_backend,kuznyechik::compact_soft::backends::EncBackend::encrypt_block uses=c_lsx timeout=1800
multi_enc!(m_enc_1, Kuznyechik, SZ, 1);
// NOT REGISTERED (out of memory (32 GB) in the final run; harness kept for the next round): ob name=m_enc_3 cfg=compact props=C04,C15 kind=bounded bound="n = 3 block(s)" fn=kuznyechik::Kuznyechik::encrypt_with_backend,kuznyechik::compact_soft::backends::EncBackend::encrypt_block uses=c_lsx timeout=600
multi_enc!(m_enc_3, Kuznyechik, SZ, 3);
// NOT REGISTERED (timeout 600 s in the final run; harness kept for the next round): ob name=m_enconly_3 cfg=compact props=C04,C15 kind=bounded bound="n = 3 block(s)" fn=kuznyechik::KuznyechikEnc::encrypt_with_backend,kuznyechik::compact_soft::backends::EncBackend::encrypt_block uses=c_lsx timeout=600
multi_enc!(m_enconly_3, KuznyechikEnc, SZE, 3);
// @ob name=m_dec_0 cfg=compact props=C04,C15 kind=bounded bound="n = 0 block(s)" fn=kuznyechik::Kuznyechik::decrypt_with_backend,kuznyechik::compact_soft::backends::DecBackend::decrypt_block uses=c_lsx_inv timeout=300
multi_dec!(m_dec_0, Kuznyechik, SZ, 0);
// @ob name=m_dec_1 cfg=compact props=C04,C15 kind=bounded bound="n = 1 block(s)" fn=kuznyechik::Kuznyechik::decrypt_with_backend,kuznyechik::compact_soft::backends::DecBackend::decrypt_block uses=c_lsx_inv timeout=300
multi_dec!(m_dec_1, Kuznyechik, SZ, 1);
// NOT REGISTERED (out of memory (32 GB) in the final run; harness kept for the next round): ob name=m_dec_3 cfg=compact props=C04,C15 kind=bounded bound="n = 3 block(s)" fn=kuznyechik::Kuznyechik::decrypt_with_backend,kuznyechik::compact_soft::backends::DecBackend::decrypt_block uses=c_lsx_inv timeout=600
multi_dec!(m_dec_3, Kuznyechik, SZ, 3);
// NOT REGISTERED (out of memory (32 GB) in the final run; harness kept for the next round): ob name=m_deconly_3 cfg=compact props=C04,C15 kind=bounded bound="n = 3 block(s)" fn=kuznyechik::KuznyechikDec::decrypt_with_backend,kuznyechik::compact_soft::backends::DecBackend::decrypt_block uses=c_lsx_inv timeout=600
multi_dec!(m_deconly_3, KuznyechikDec, SZD, 3);
