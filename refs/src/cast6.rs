//! CAST-256, written from RFC 2612 (C. Adams, J. Gilchrist, "The CAST-256 Encryption Algorithm", June 1999):
//! section 2.1 (the three round functions f1, f2, f3), 2.2 (forward quad-round Q, reverse quad-round QBAR),
//! 2.3 (forward octave W, the key selections kr() and km()), 2.4 (key schedule with Tm / Tr), 2.5 (cipher:
//! six Q then six QBAR), 2.6 (decryption), appendix A (test vectors).  Words are big-endian (the RFC writes
//! blocks and keys as strings of 32-bit values ABCD / ABCDEFGH from left to right).
//! Keys shorter than 256 bits (2.4): "padded with zero bytes in the rightmost, or least significant, positions".
//!
//! The four 8x32 S-boxes S1..S4 of appendix A of RFC 2144 / RFC 2612 (1024 words, not computable from a
//! definition) are a snapshot of the pinned tree (/repo/cast6/src/consts.rs); an exhaustive obligation compares
//! them entry by entry with the tables the real code uses, and the RFC vectors below anchor them.
//! Tm / Tr are computed here from the RFC's recurrence.

pub static S1: [u32; 256] = [
    0x30fb40d4, 0x9fa0ff0b, 0x6beccd2f, 0x3f258c7a, 0x1e213f2f, 0x9c004dd3, 0x6003e540, 0xcf9fc949,
    0xbfd4af27, 0x88bbbdb5, 0xe2034090, 0x98d09675, 0x6e63a0e0, 0x15c361d2, 0xc2e7661d, 0x22d4ff8e,
    0x28683b6f, 0xc07fd059, 0xff2379c8, 0x775f50e2, 0x43c340d3, 0xdf2f8656, 0x887ca41a, 0xa2d2bd2d,
    0xa1c9e0d6, 0x346c4819, 0x61b76d87, 0x22540f2f, 0x2abe32e1, 0xaa54166b, 0x22568e3a, 0xa2d341d0,
    0x66db40c8, 0xa784392f, 0x004dff2f, 0x2db9d2de, 0x97943fac, 0x4a97c1d8, 0x527644b7, 0xb5f437a7,
    0xb82cbaef, 0xd751d159, 0x6ff7f0ed, 0x5a097a1f, 0x827b68d0, 0x90ecf52e, 0x22b0c054, 0xbc8e5935,
    0x4b6d2f7f, 0x50bb64a2, 0xd2664910, 0xbee5812d, 0xb7332290, 0xe93b159f, 0xb48ee411, 0x4bff345d,
    0xfd45c240, 0xad31973f, 0xc4f6d02e, 0x55fc8165, 0xd5b1caad, 0xa1ac2dae, 0xa2d4b76d, 0xc19b0c50,
    0x882240f2, 0x0c6e4f38, 0xa4e4bfd7, 0x4f5ba272, 0x564c1d2f, 0xc59c5319, 0xb949e354, 0xb04669fe,
    0xb1b6ab8a, 0xc71358dd, 0x6385c545, 0x110f935d, 0x57538ad5, 0x6a390493, 0xe63d37e0, 0x2a54f6b3,
    0x3a787d5f, 0x6276a0b5, 0x19a6fcdf, 0x7a42206a, 0x29f9d4d5, 0xf61b1891, 0xbb72275e, 0xaa508167,
    0x38901091, 0xc6b505eb, 0x84c7cb8c, 0x2ad75a0f, 0x874a1427, 0xa2d1936b, 0x2ad286af, 0xaa56d291,
    0xd7894360, 0x425c750d, 0x93b39e26, 0x187184c9, 0x6c00b32d, 0x73e2bb14, 0xa0bebc3c, 0x54623779,
    0x64459eab, 0x3f328b82, 0x7718cf82, 0x59a2cea6, 0x04ee002e, 0x89fe78e6, 0x3fab0950, 0x325ff6c2,
    0x81383f05, 0x6963c5c8, 0x76cb5ad6, 0xd49974c9, 0xca180dcf, 0x380782d5, 0xc7fa5cf6, 0x8ac31511,
    0x35e79e13, 0x47da91d0, 0xf40f9086, 0xa7e2419e, 0x31366241, 0x051ef495, 0xaa573b04, 0x4a805d8d,
    0x548300d0, 0x00322a3c, 0xbf64cddf, 0xba57a68e, 0x75c6372b, 0x50afd341, 0xa7c13275, 0x915a0bf5,
    0x6b54bfab, 0x2b0b1426, 0xab4cc9d7, 0x449ccd82, 0xf7fbf265, 0xab85c5f3, 0x1b55db94, 0xaad4e324,
    0xcfa4bd3f, 0x2deaa3e2, 0x9e204d02, 0xc8bd25ac, 0xeadf55b3, 0xd5bd9e98, 0xe31231b2, 0x2ad5ad6c,
    0x954329de, 0xadbe4528, 0xd8710f69, 0xaa51c90f, 0xaa786bf6, 0x22513f1e, 0xaa51a79b, 0x2ad344cc,
    0x7b5a41f0, 0xd37cfbad, 0x1b069505, 0x41ece491, 0xb4c332e6, 0x032268d4, 0xc9600acc, 0xce387e6d,
    0xbf6bb16c, 0x6a70fb78, 0x0d03d9c9, 0xd4df39de, 0xe01063da, 0x4736f464, 0x5ad328d8, 0xb347cc96,
    0x75bb0fc3, 0x98511bfb, 0x4ffbcc35, 0xb58bcf6a, 0xe11f0abc, 0xbfc5fe4a, 0xa70aec10, 0xac39570a,
    0x3f04442f, 0x6188b153, 0xe0397a2e, 0x5727cb79, 0x9ceb418f, 0x1cacd68d, 0x2ad37c96, 0x0175cb9d,
    0xc69dff09, 0xc75b65f0, 0xd9db40d8, 0xec0e7779, 0x4744ead4, 0xb11c3274, 0xdd24cb9e, 0x7e1c54bd,
    0xf01144f9, 0xd2240eb1, 0x9675b3fd, 0xa3ac3755, 0xd47c27af, 0x51c85f4d, 0x56907596, 0xa5bb15e6,
    0x580304f0, 0xca042cf1, 0x011a37ea, 0x8dbfaadb, 0x35ba3e4a, 0x3526ffa0, 0xc37b4d09, 0xbc306ed9,
    0x98a52666, 0x5648f725, 0xff5e569d, 0x0ced63d0, 0x7c63b2cf, 0x700b45e1, 0xd5ea50f1, 0x85a92872,
    0xaf1fbda7, 0xd4234870, 0xa7870bf3, 0x2d3b4d79, 0x42e04198, 0x0cd0ede7, 0x26470db8, 0xf881814c,
    0x474d6ad7, 0x7c0c5e5c, 0xd1231959, 0x381b7298, 0xf5d2f4db, 0xab838653, 0x6e2f1e23, 0x83719c9e,
    0xbd91e046, 0x9a56456e, 0xdc39200c, 0x20c8c571, 0x962bda1c, 0xe1e696ff, 0xb141ab08, 0x7cca89b9,
    0x1a69e783, 0x02cc4843, 0xa2f7c579, 0x429ef47d, 0x427b169c, 0x5ac9f049, 0xdd8f0f00, 0x5c8165bf,
];
pub static S2: [u32; 256] = [
    0x1f201094, 0xef0ba75b, 0x69e3cf7e, 0x393f4380, 0xfe61cf7a, 0xeec5207a, 0x55889c94, 0x72fc0651,
    0xada7ef79, 0x4e1d7235, 0xd55a63ce, 0xde0436ba, 0x99c430ef, 0x5f0c0794, 0x18dcdb7d, 0xa1d6eff3,
    0xa0b52f7b, 0x59e83605, 0xee15b094, 0xe9ffd909, 0xdc440086, 0xef944459, 0xba83ccb3, 0xe0c3cdfb,
    0xd1da4181, 0x3b092ab1, 0xf997f1c1, 0xa5e6cf7b, 0x01420ddb, 0xe4e7ef5b, 0x25a1ff41, 0xe180f806,
    0x1fc41080, 0x179bee7a, 0xd37ac6a9, 0xfe5830a4, 0x98de8b7f, 0x77e83f4e, 0x79929269, 0x24fa9f7b,
    0xe113c85b, 0xacc40083, 0xd7503525, 0xf7ea615f, 0x62143154, 0x0d554b63, 0x5d681121, 0xc866c359,
    0x3d63cf73, 0xcee234c0, 0xd4d87e87, 0x5c672b21, 0x071f6181, 0x39f7627f, 0x361e3084, 0xe4eb573b,
    0x602f64a4, 0xd63acd9c, 0x1bbc4635, 0x9e81032d, 0x2701f50c, 0x99847ab4, 0xa0e3df79, 0xba6cf38c,
    0x10843094, 0x2537a95e, 0xf46f6ffe, 0xa1ff3b1f, 0x208cfb6a, 0x8f458c74, 0xd9e0a227, 0x4ec73a34,
    0xfc884f69, 0x3e4de8df, 0xef0e0088, 0x3559648d, 0x8a45388c, 0x1d804366, 0x721d9bfd, 0xa58684bb,
    0xe8256333, 0x844e8212, 0x128d8098, 0xfed33fb4, 0xce280ae1, 0x27e19ba5, 0xd5a6c252, 0xe49754bd,
    0xc5d655dd, 0xeb667064, 0x77840b4d, 0xa1b6a801, 0x84db26a9, 0xe0b56714, 0x21f043b7, 0xe5d05860,
    0x54f03084, 0x066ff472, 0xa31aa153, 0xdadc4755, 0xb5625dbf, 0x68561be6, 0x83ca6b94, 0x2d6ed23b,
    0xeccf01db, 0xa6d3d0ba, 0xb6803d5c, 0xaf77a709, 0x33b4a34c, 0x397bc8d6, 0x5ee22b95, 0x5f0e5304,
    0x81ed6f61, 0x20e74364, 0xb45e1378, 0xde18639b, 0x881ca122, 0xb96726d1, 0x8049a7e8, 0x22b7da7b,
    0x5e552d25, 0x5272d237, 0x79d2951c, 0xc60d894c, 0x488cb402, 0x1ba4fe5b, 0xa4b09f6b, 0x1ca815cf,
    0xa20c3005, 0x8871df63, 0xb9de2fcb, 0x0cc6c9e9, 0x0beeff53, 0xe3214517, 0xb4542835, 0x9f63293c,
    0xee41e729, 0x6e1d2d7c, 0x50045286, 0x1e6685f3, 0xf33401c6, 0x30a22c95, 0x31a70850, 0x60930f13,
    0x73f98417, 0xa1269859, 0xec645c44, 0x52c877a9, 0xcdff33a6, 0xa02b1741, 0x7cbad9a2, 0x2180036f,
    0x50d99c08, 0xcb3f4861, 0xc26bd765, 0x64a3f6ab, 0x80342676, 0x25a75e7b, 0xe4e6d1fc, 0x20c710e6,
    0xcdf0b680, 0x17844d3b, 0x31eef84d, 0x7e0824e4, 0x2ccb49eb, 0x846a3bae, 0x8ff77888, 0xee5d60f6,
    0x7af75673, 0x2fdd5cdb, 0xa11631c1, 0x30f66f43, 0xb3faec54, 0x157fd7fa, 0xef8579cc, 0xd152de58,
    0xdb2ffd5e, 0x8f32ce19, 0x306af97a, 0x02f03ef8, 0x99319ad5, 0xc242fa0f, 0xa7e3ebb0, 0xc68e4906,
    0xb8da230c, 0x80823028, 0xdcdef3c8, 0xd35fb171, 0x088a1bc8, 0xbec0c560, 0x61a3c9e8, 0xbca8f54d,
    0xc72feffa, 0x22822e99, 0x82c570b4, 0xd8d94e89, 0x8b1c34bc, 0x301e16e6, 0x273be979, 0xb0ffeaa6,
    0x61d9b8c6, 0x00b24869, 0xb7ffce3f, 0x08dc283b, 0x43daf65a, 0xf7e19798, 0x7619b72f, 0x8f1c9ba4,
    0xdc8637a0, 0x16a7d3b1, 0x9fc393b7, 0xa7136eeb, 0xc6bcc63e, 0x1a513742, 0xef6828bc, 0x520365d6,
    0x2d6a77ab, 0x3527ed4b, 0x821fd216, 0x095c6e2e, 0xdb92f2fb, 0x5eea29cb, 0x145892f5, 0x91584f7f,
    0x5483697b, 0x2667a8cc, 0x85196048, 0x8c4bacea, 0x833860d4, 0x0d23e0f9, 0x6c387e8a, 0x0ae6d249,
    0xb284600c, 0xd835731d, 0xdcb1c647, 0xac4c56ea, 0x3ebd81b3, 0x230eabb0, 0x6438bc87, 0xf0b5b1fa,
    0x8f5ea2b3, 0xfc184642, 0x0a036b7a, 0x4fb089bd, 0x649da589, 0xa345415e, 0x5c038323, 0x3e5d3bb9,
    0x43d79572, 0x7e6dd07c, 0x06dfdf1e, 0x6c6cc4ef, 0x7160a539, 0x73bfbe70, 0x83877605, 0x4523ecf1,
];
pub static S3: [u32; 256] = [
    0x8defc240, 0x25fa5d9f, 0xeb903dbf, 0xe810c907, 0x47607fff, 0x369fe44b, 0x8c1fc644, 0xaececa90,
    0xbeb1f9bf, 0xeefbcaea, 0xe8cf1950, 0x51df07ae, 0x920e8806, 0xf0ad0548, 0xe13c8d83, 0x927010d5,
    0x11107d9f, 0x07647db9, 0xb2e3e4d4, 0x3d4f285e, 0xb9afa820, 0xfade82e0, 0xa067268b, 0x8272792e,
    0x553fb2c0, 0x489ae22b, 0xd4ef9794, 0x125e3fbc, 0x21fffcee, 0x825b1bfd, 0x9255c5ed, 0x1257a240,
    0x4e1a8302, 0xbae07fff, 0x528246e7, 0x8e57140e, 0x3373f7bf, 0x8c9f8188, 0xa6fc4ee8, 0xc982b5a5,
    0xa8c01db7, 0x579fc264, 0x67094f31, 0xf2bd3f5f, 0x40fff7c1, 0x1fb78dfc, 0x8e6bd2c1, 0x437be59b,
    0x99b03dbf, 0xb5dbc64b, 0x638dc0e6, 0x55819d99, 0xa197c81c, 0x4a012d6e, 0xc5884a28, 0xccc36f71,
    0xb843c213, 0x6c0743f1, 0x8309893c, 0x0feddd5f, 0x2f7fe850, 0xd7c07f7e, 0x02507fbf, 0x5afb9a04,
    0xa747d2d0, 0x1651192e, 0xaf70bf3e, 0x58c31380, 0x5f98302e, 0x727cc3c4, 0x0a0fb402, 0x0f7fef82,
    0x8c96fdad, 0x5d2c2aae, 0x8ee99a49, 0x50da88b8, 0x8427f4a0, 0x1eac5790, 0x796fb449, 0x8252dc15,
    0xefbd7d9b, 0xa672597d, 0xada840d8, 0x45f54504, 0xfa5d7403, 0xe83ec305, 0x4f91751a, 0x925669c2,
    0x23efe941, 0xa903f12e, 0x60270df2, 0x0276e4b6, 0x94fd6574, 0x927985b2, 0x8276dbcb, 0x02778176,
    0xf8af918d, 0x4e48f79e, 0x8f616ddf, 0xe29d840e, 0x842f7d83, 0x340ce5c8, 0x96bbb682, 0x93b4b148,
    0xef303cab, 0x984faf28, 0x779faf9b, 0x92dc560d, 0x224d1e20, 0x8437aa88, 0x7d29dc96, 0x2756d3dc,
    0x8b907cee, 0xb51fd240, 0xe7c07ce3, 0xe566b4a1, 0xc3e9615e, 0x3cf8209d, 0x6094d1e3, 0xcd9ca341,
    0x5c76460e, 0x00ea983b, 0xd4d67881, 0xfd47572c, 0xf76cedd9, 0xbda8229c, 0x127dadaa, 0x438a074e,
    0x1f97c090, 0x081bdb8a, 0x93a07ebe, 0xb938ca15, 0x97b03cff, 0x3dc2c0f8, 0x8d1ab2ec, 0x64380e51,
    0x68cc7bfb, 0xd90f2788, 0x12490181, 0x5de5ffd4, 0xdd7ef86a, 0x76a2e214, 0xb9a40368, 0x925d958f,
    0x4b39fffa, 0xba39aee9, 0xa4ffd30b, 0xfaf7933b, 0x6d498623, 0x193cbcfa, 0x27627545, 0x825cf47a,
    0x61bd8ba0, 0xd11e42d1, 0xcead04f4, 0x127ea392, 0x10428db7, 0x8272a972, 0x9270c4a8, 0x127de50b,
    0x285ba1c8, 0x3c62f44f, 0x35c0eaa5, 0xe805d231, 0x428929fb, 0xb4fcdf82, 0x4fb66a53, 0x0e7dc15b,
    0x1f081fab, 0x108618ae, 0xfcfd086d, 0xf9ff2889, 0x694bcc11, 0x236a5cae, 0x12deca4d, 0x2c3f8cc5,
    0xd2d02dfe, 0xf8ef5896, 0xe4cf52da, 0x95155b67, 0x494a488c, 0xb9b6a80c, 0x5c8f82bc, 0x89d36b45,
    0x3a609437, 0xec00c9a9, 0x44715253, 0x0a874b49, 0xd773bc40, 0x7c34671c, 0x02717ef6, 0x4feb5536,
    0xa2d02fff, 0xd2bf60c4, 0xd43f03c0, 0x50b4ef6d, 0x07478cd1, 0x006e1888, 0xa2e53f55, 0xb9e6d4bc,
    0xa2048016, 0x97573833, 0xd7207d67, 0xde0f8f3d, 0x72f87b33, 0xabcc4f33, 0x7688c55d, 0x7b00a6b0,
    0x947b0001, 0x570075d2, 0xf9bb88f8, 0x8942019e, 0x4264a5ff, 0x856302e0, 0x72dbd92b, 0xee971b69,
    0x6ea22fde, 0x5f08ae2b, 0xaf7a616d, 0xe5c98767, 0xcf1febd2, 0x61efc8c2, 0xf1ac2571, 0xcc8239c2,
    0x67214cb8, 0xb1e583d1, 0xb7dc3e62, 0x7f10bdce, 0xf90a5c38, 0x0ff0443d, 0x606e6dc6, 0x60543a49,
    0x5727c148, 0x2be98a1d, 0x8ab41738, 0x20e1be24, 0xaf96da0f, 0x68458425, 0x99833be5, 0x600d457d,
    0x282f9350, 0x8334b362, 0xd91d1120, 0x2b6d8da0, 0x642b1e31, 0x9c305a00, 0x52bce688, 0x1b03588a,
    0xf7baefd5, 0x4142ed9c, 0xa4315c11, 0x83323ec5, 0xdfef4636, 0xa133c501, 0xe9d3531c, 0xee353783,
];
pub static S4: [u32; 256] = [
    0x9db30420, 0x1fb6e9de, 0xa7be7bef, 0xd273a298, 0x4a4f7bdb, 0x64ad8c57, 0x85510443, 0xfa020ed1,
    0x7e287aff, 0xe60fb663, 0x095f35a1, 0x79ebf120, 0xfd059d43, 0x6497b7b1, 0xf3641f63, 0x241e4adf,
    0x28147f5f, 0x4fa2b8cd, 0xc9430040, 0x0cc32220, 0xfdd30b30, 0xc0a5374f, 0x1d2d00d9, 0x24147b15,
    0xee4d111a, 0x0fca5167, 0x71ff904c, 0x2d195ffe, 0x1a05645f, 0x0c13fefe, 0x081b08ca, 0x05170121,
    0x80530100, 0xe83e5efe, 0xac9af4f8, 0x7fe72701, 0xd2b8ee5f, 0x06df4261, 0xbb9e9b8a, 0x7293ea25,
    0xce84ffdf, 0xf5718801, 0x3dd64b04, 0xa26f263b, 0x7ed48400, 0x547eebe6, 0x446d4ca0, 0x6cf3d6f5,
    0x2649abdf, 0xaea0c7f5, 0x36338cc1, 0x503f7e93, 0xd3772061, 0x11b638e1, 0x72500e03, 0xf80eb2bb,
    0xabe0502e, 0xec8d77de, 0x57971e81, 0xe14f6746, 0xc9335400, 0x6920318f, 0x081dbb99, 0xffc304a5,
    0x4d351805, 0x7f3d5ce3, 0xa6c866c6, 0x5d5bcca9, 0xdaec6fea, 0x9f926f91, 0x9f46222f, 0x3991467d,
    0xa5bf6d8e, 0x1143c44f, 0x43958302, 0xd0214eeb, 0x022083b8, 0x3fb6180c, 0x18f8931e, 0x281658e6,
    0x26486e3e, 0x8bd78a70, 0x7477e4c1, 0xb506e07c, 0xf32d0a25, 0x79098b02, 0xe4eabb81, 0x28123b23,
    0x69dead38, 0x1574ca16, 0xdf871b62, 0x211c40b7, 0xa51a9ef9, 0x0014377b, 0x041e8ac8, 0x09114003,
    0xbd59e4d2, 0xe3d156d5, 0x4fe876d5, 0x2f91a340, 0x557be8de, 0x00eae4a7, 0x0ce5c2ec, 0x4db4bba6,
    0xe756bdff, 0xdd3369ac, 0xec17b035, 0x06572327, 0x99afc8b0, 0x56c8c391, 0x6b65811c, 0x5e146119,
    0x6e85cb75, 0xbe07c002, 0xc2325577, 0x893ff4ec, 0x5bbfc92d, 0xd0ec3b25, 0xb7801ab7, 0x8d6d3b24,
    0x20c763ef, 0xc366a5fc, 0x9c382880, 0x0ace3205, 0xaac9548a, 0xeca1d7c7, 0x041afa32, 0x1d16625a,
    0x6701902c, 0x9b757a54, 0x31d477f7, 0x9126b031, 0x36cc6fdb, 0xc70b8b46, 0xd9e66a48, 0x56e55a79,
    0x026a4ceb, 0x52437eff, 0x2f8f76b4, 0x0df980a5, 0x8674cde3, 0xedda04eb, 0x17a9be04, 0x2c18f4df,
    0xb7747f9d, 0xab2af7b4, 0xefc34d20, 0x2e096b7c, 0x1741a254, 0xe5b6a035, 0x213d42f6, 0x2c1c7c26,
    0x61c2f50f, 0x6552daf9, 0xd2c231f8, 0x25130f69, 0xd8167fa2, 0x0418f2c8, 0x001a96a6, 0x0d1526ab,
    0x63315c21, 0x5e0a72ec, 0x49bafefd, 0x187908d9, 0x8d0dbd86, 0x311170a7, 0x3e9b640c, 0xcc3e10d7,
    0xd5cad3b6, 0x0caec388, 0xf73001e1, 0x6c728aff, 0x71eae2a1, 0x1f9af36e, 0xcfcbd12f, 0xc1de8417,
    0xac07be6b, 0xcb44a1d8, 0x8b9b0f56, 0x013988c3, 0xb1c52fca, 0xb4be31cd, 0xd8782806, 0x12a3a4e2,
    0x6f7de532, 0x58fd7eb6, 0xd01ee900, 0x24adffc2, 0xf4990fc5, 0x9711aac5, 0x001d7b95, 0x82e5e7d2,
    0x109873f6, 0x00613096, 0xc32d9521, 0xada121ff, 0x29908415, 0x7fbb977f, 0xaf9eb3db, 0x29c9ed2a,
    0x5ce2a465, 0xa730f32c, 0xd0aa3fe8, 0x8a5cc091, 0xd49e2ce7, 0x0ce454a9, 0xd60acd86, 0x015f1919,
    0x77079103, 0xdea03af6, 0x78a8565e, 0xdee356df, 0x21f05cbe, 0x8b75e387, 0xb3c50651, 0xb8a5c3ef,
    0xd8eeb6d2, 0xe523be77, 0xc2154529, 0x2f69efdf, 0xafe67afb, 0xf470c4b2, 0xf3e0eb5b, 0xd6cc9876,
    0x39e4460c, 0x1fda8538, 0x1987832f, 0xca007367, 0xa99144f8, 0x296b299e, 0x492fc295, 0x9266beab,
    0xb5676e69, 0x9bd3ddda, 0xdf7e052f, 0xdb25701c, 0x1b5e51ee, 0xf65324e6, 0x6afce36c, 0x0316cc04,
    0x8644213e, 0xb7dc59d0, 0x7965291f, 0xccd6fd43, 0x41823979, 0x932bcdf6, 0xb657c34d, 0x4edfd282,
    0x7ae5290c, 0x3cb9536b, 0x851e20fe, 0x9833557e, 0x13ecf0b0, 0xd3ffb372, 0x3f85c5c1, 0x0aef7ed2,
];

/// 2.1: f1(D, Kr, Km): I = ((Km + D) <<< Kr), f = ((S1[Ia] ^ S2[Ib]) - S3[Ic]) + S4[Id].
/// Kr is a 5-bit rotation amount (only its 5 least significant bits are used).
pub fn f1(d: u32, kr: u8, km: u32) -> u32 {
    let i = km.wrapping_add(d).rotate_left((kr & 31) as u32);
    let (ia, ib, ic, id) = ((i >> 24) as usize, ((i >> 16) & 0xff) as usize, ((i >> 8) & 0xff) as usize, (i & 0xff) as usize);
    (S1[ia] ^ S2[ib]).wrapping_sub(S3[ic]).wrapping_add(S4[id])
}
/// 2.1: f2: I = ((Km ^ D) <<< Kr), f = ((S1[Ia] - S2[Ib]) + S3[Ic]) ^ S4[Id].
pub fn f2(d: u32, kr: u8, km: u32) -> u32 {
    let i = (km ^ d).rotate_left((kr & 31) as u32);
    let (ia, ib, ic, id) = ((i >> 24) as usize, ((i >> 16) & 0xff) as usize, ((i >> 8) & 0xff) as usize, (i & 0xff) as usize);
    S1[ia].wrapping_sub(S2[ib]).wrapping_add(S3[ic]) ^ S4[id]
}
/// 2.1: f3: I = ((Km - D) <<< Kr), f = ((S1[Ia] + S2[Ib]) ^ S3[Ic]) - S4[Id].
pub fn f3(d: u32, kr: u8, km: u32) -> u32 {
    let i = km.wrapping_sub(d).rotate_left((kr & 31) as u32);
    let (ia, ib, ic, id) = ((i >> 24) as usize, ((i >> 16) & 0xff) as usize, ((i >> 8) & 0xff) as usize, (i & 0xff) as usize);
    (S1[ia].wrapping_add(S2[ib]) ^ S3[ic]).wrapping_sub(S4[id])
}

/// 2.2: BETA <- Q_i(BETA) with BETA = (A, B, C, D).
pub fn q(beta: [u32; 4], kr: &[u8; 4], km: &[u32; 4]) -> [u32; 4] {
    let [mut a, mut b, mut c, mut d] = beta;
    c ^= f1(d, kr[0], km[0]);
    b ^= f2(c, kr[1], km[1]);
    a ^= f3(b, kr[2], km[2]);
    d ^= f1(a, kr[3], km[3]);
    [a, b, c, d]
}
/// 2.2: BETA <- QBAR_i(BETA).
pub fn qbar(beta: [u32; 4], kr: &[u8; 4], km: &[u32; 4]) -> [u32; 4] {
    let [mut a, mut b, mut c, mut d] = beta;
    d ^= f1(a, kr[3], km[3]);
    a ^= f3(b, kr[2], km[2]);
    b ^= f2(c, kr[1], km[1]);
    c ^= f1(d, kr[0], km[0]);
    [a, b, c, d]
}
/// 2.3: KAPPA <- W_i(KAPPA) with KAPPA = (A, .., H).
pub fn w(kappa: [u32; 8], tr: &[u8; 8], tm: &[u32; 8]) -> [u32; 8] {
    let [mut a, mut b, mut c, mut d, mut e, mut f, mut g, mut h] = kappa;
    g ^= f1(h, tr[0], tm[0]);
    f ^= f2(g, tr[1], tm[1]);
    e ^= f3(f, tr[2], tm[2]);
    d ^= f1(e, tr[3], tm[3]);
    c ^= f2(d, tr[4], tm[4]);
    b ^= f3(c, tr[5], tm[5]);
    a ^= f1(b, tr[6], tm[6]);
    h ^= f2(a, tr[7], tm[7]);
    [a, b, c, d, e, f, g, h]
}

/// 2.4: Cm = 2^30 sqrt 2, Mm = 2^30 sqrt 3, Cr = 19, Mr = 17;
/// for i in 0..24, j in 0..8: Tm_j(i) = Cm, Cm += Mm (mod 2^32), Tr_j(i) = Cr, Cr += Mr (mod 32).
pub const fn t_tables() -> ([[u32; 8]; 24], [[u8; 8]; 24]) {
    let mut tm = [[0u32; 8]; 24];
    let mut tr = [[0u8; 8]; 24];
    let mut cm: u32 = 0x5A82_7999;
    let mm: u32 = 0x6ED9_EBA1;
    let mut cr: u8 = 19;
    let mr: u8 = 17;
    let mut i = 0;
    while i < 24 {
        let mut j = 0;
        while j < 8 {
            tm[i][j] = cm;
            cm = cm.wrapping_add(mm);
            tr[i][j] = cr;
            cr = (cr + mr) % 32;
            j += 1;
        }
        i += 1;
    }
    (tm, tr)
}
pub const TM: [[u32; 8]; 24] = t_tables().0;
pub const TR: [[u8; 8]; 24] = t_tables().1;

/// The keyed value: rotation keys Kr_(i) and masking keys Km_(i) for the 12 quad-rounds.
#[derive(Clone, Copy)]
pub struct Keyed {
    pub kr: [[u8; 4]; 12],
    pub km: [[u32; 4]; 12],
}

/// 2.4: key schedule from KAPPA = ABCDEFGH = the 256 bits of (padded) key.
pub fn key_schedule(key: &[u8; 32]) -> Keyed {
    let mut kappa = [0u32; 8];
    let mut i = 0;
    while i < 8 {
        kappa[i] = u32::from_be_bytes([key[4 * i], key[4 * i + 1], key[4 * i + 2], key[4 * i + 3]]);
        i += 1;
    }
    let mut out = Keyed { kr: [[0; 4]; 12], km: [[0; 4]; 12] };
    let mut i = 0;
    while i < 12 {
        kappa = w(kappa, &TR[2 * i], &TM[2 * i]);
        kappa = w(kappa, &TR[2 * i + 1], &TM[2 * i + 1]);
        let [a, b, c, d, e, f, g, h] = kappa;
        // kr(): 5 least significant bits of A, C, E, G;   km(): H, F, D, B
        out.kr[i] = [(a & 31) as u8, (c & 31) as u8, (e & 31) as u8, (g & 31) as u8];
        out.km[i] = [h, f, d, b];
        i += 1;
    }
    out
}

/// 2.4: a key of `n` bytes (n in {16, 20, 24, 28, 32}; the first n bytes of `key`) zero-padded on the right.
pub fn pad_key(key: &[u8; 32], n: usize) -> [u8; 32] {
    let mut out = [0u8; 32];
    let mut i = 0;
    while i < 32 {
        if i < n {
            out[i] = key[i];
        }
        i += 1;
    }
    out
}

pub fn words_of(b: &[u8; 16]) -> [u32; 4] {
    let mut w = [0u32; 4];
    let mut i = 0;
    while i < 4 {
        w[i] = u32::from_be_bytes([b[4 * i], b[4 * i + 1], b[4 * i + 2], b[4 * i + 3]]);
        i += 1;
    }
    w
}
pub fn bytes_of(w: &[u32; 4]) -> [u8; 16] {
    let mut b = [0u8; 16];
    let mut i = 0;
    while i < 4 {
        let x = w[i].to_be_bytes();
        let mut j = 0;
        while j < 4 {
            b[4 * i + j] = x[j];
            j += 1;
        }
        i += 1;
    }
    b
}

/// 2.5: six forward quad-rounds then six reverse quad-rounds.
pub fn encrypt_words(kd: &Keyed, block: [u32; 4]) -> [u32; 4] {
    let mut beta = block;
    let mut i = 0;
    while i < 6 {
        beta = q(beta, &kd.kr[i], &kd.km[i]);
        i += 1;
    }
    while i < 12 {
        beta = qbar(beta, &kd.kr[i], &kd.km[i]);
        i += 1;
    }
    beta
}
/// 2.6: "identical to the encryption algorithm given above, except that the round keys are used in reverse order".
pub fn decrypt_words(kd: &Keyed, block: [u32; 4]) -> [u32; 4] {
    let mut beta = block;
    let mut i = 0;
    while i < 6 {
        beta = q(beta, &kd.kr[11 - i], &kd.km[11 - i]);
        i += 1;
    }
    while i < 12 {
        beta = qbar(beta, &kd.kr[11 - i], &kd.km[11 - i]);
        i += 1;
    }
    beta
}
pub fn encrypt_with(kd: &Keyed, block: &[u8; 16]) -> [u8; 16] { bytes_of(&encrypt_words(kd, words_of(block))) }
pub fn decrypt_with(kd: &Keyed, block: &[u8; 16]) -> [u8; 16] { bytes_of(&decrypt_words(kd, words_of(block))) }

/// CAST-256 under the user key `key[..n]`.
pub fn encrypt(key: &[u8; 32], n: usize, block: &[u8; 16]) -> [u8; 16] { encrypt_with(&key_schedule(&pad_key(key, n)), block) }
pub fn decrypt(key: &[u8; 32], n: usize, block: &[u8; 16]) -> [u8; 16] { decrypt_with(&key_schedule(&pad_key(key, n)), block) }

#[cfg(test)]
mod tests {
    use super::*;

    fn hexv(s: &str, out: &mut [u8]) {
        let b = s.as_bytes();
        assert_eq!(b.len(), 2 * out.len());
        let d = |c: u8| (c as char).to_digit(16).unwrap() as u8;
        for i in 0..out.len() {
            out[i] = d(b[2 * i]) << 4 | d(b[2 * i + 1]);
        }
    }
    fn kat(key: &str, pt: &str, ct: &str) {
        let n = key.len() / 2;
        let mut k = [0x5Au8; 32];
        hexv(key, &mut k[..n]);
        let (mut p, mut c) = ([0u8; 16], [0u8; 16]);
        hexv(pt, &mut p);
        hexv(ct, &mut c);
        assert_eq!(encrypt(&k, n, &p), c);
        assert_eq!(decrypt(&k, n, &c), p);
    }
    // RFC 2612 appendix A
    #[test]
    fn rfc2612_appendix_a() {
        kat("2342bb9efa38542c0af75647f29f615d", "00000000000000000000000000000000", "c842a08972b43d20836c91d1b7530f6b");
        kat("2342bb9efa38542cbed0ac83940ac298bac77a7717942863", "00000000000000000000000000000000", "1b386c0210dcadcbdd0e41aa08a7a7e8");
        kat(
            "2342bb9efa38542cbed0ac83940ac2988d7c47ce264908461cc1b5137ae6b604",
            "00000000000000000000000000000000",
            "4f6a2038286897b9c9870136553317fa",
        );
    }
    #[test]
    fn t_tables_shape() {
        assert_eq!(TM[0][0], 0x5A827999);
        assert_eq!(TM[0][1], 0xC95C653A);
        assert_eq!(TR[0], [19, 4, 21, 6, 23, 8, 25, 10]);
        // Tr has period 4 in the octave index
        assert_eq!(TR[4], TR[0]);
        // first and last S-box entries as printed in RFC 2144 appendix A
        assert_eq!(S1[0], 0x30fb40d4);
        assert_eq!(S1[255], 0x5c8165bf);
        assert_eq!(S4[0], 0x9db30420);
        assert_eq!(S4[255], 0x0aef7ed2);
        let x = [1u32, 2, 3, 4];
        assert_eq!(qbar(q(x, &[1, 2, 3, 4], &[5, 6, 7, 8]), &[1, 2, 3, 4], &[5, 6, 7, 8]), x);
    }
}
