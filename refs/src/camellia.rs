//! (reference for camellia: to be written)
