// Brings the UNMODIFIED aes/src/soft/fixslice32.rs (32-bit fixslicing; selected by the crate only when pointers are not
// 64 bits wide) into the cfg(kani) build on this 64-bit host, so that the contracts in fixslice32.rs / frames32.rs can be
// discharged on it.  Nothing else lives here.
//
// @module file=aes/src/soft.rs
#[path = "soft/fixslice32.rs"]
pub(crate) mod fixslice32;
