// Record / replay uninterpreted functions (shared by the aria, camellia and sm4 contract modules via
// `include!("@VERIF@/contracts/sm4/rr_uf.rs")`; no @module directive: not a contract module by itself).
//
// `rr_uf!(name, T)` makes a module `name` with one function `f: T -> T` standing for ANY pure function, to be put in
// place of a callee (and of the reference's corresponding function) with `kani::stub`.  It is the usual Ackermann
// table of an uninterpreted function, except that the harness says WHICH earlier call the present one repeats, and the
// stub asserts that claim instead of searching the table:
//
//   mode RECORD        : result is a fresh unconstrained value; (argument, result) is appended to the table.
//   mode REPLAY_FWD    : the k-th call asserts that its argument equals the argument of the k-th recorded call and
//                        returns the recorded result (lock-step simulation of a second run of the same algorithm).
//   mode REPLAY_BWD    : the k-th call asserts equality with the (N-1-k)-th recorded argument (a Feistel network
//                        run backwards presents the round function with the same arguments in reverse order).
//   mode INVERSE_BWD   : the k-th call asserts that its argument equals the (N-1-k)-th recorded RESULT and returns the
//                        recorded ARGUMENT (the function is a bijection and this call is to its inverse).
//
// Soundness.  Results of recorded calls are unconstrained, so the recorded run over-approximates the run with any
// concrete function g (every trace of g is among the traces considered; dropping functional consistency between
// recorded calls only adds behaviours).  A replayed call returns a value only after the assertion
// `argument == recorded argument` (resp. `== recorded result` for the inverse) has been checked, so the value it
// returns is g(argument) (resp. g^-1(argument)) whenever the recorded value was g(recorded argument).  Hence an
// obligation proved with these stubs holds for every pure function g (resp. every bijection g with the inverse
// stubbed by INVERSE_BWD); the obligations listed under `uses=` show that the real callee is such a function
// (equal to the reference's function, resp. that the pair is mutually inverse).  `done()` must be asserted at the end:
// every recorded call has been matched.
macro_rules! rr_uf {
    ($name:ident, $t:ty) => {
        pub mod $name {
            pub const MAXC: usize = 72;
            pub static mut IN: [$t; MAXC] = [0; MAXC];
            pub static mut OUT: [$t; MAXC] = [0; MAXC];
            pub static mut N: usize = 0;
            pub static mut R: usize = 0;
            pub static mut MODE: u8 = 0;
            #[allow(static_mut_refs)]
            pub fn f(x: $t) -> $t {
                unsafe {
                    if MODE == 0 {
                        let y: $t = kani::any();
                        assert!(N < MAXC);
                        IN[N] = x;
                        OUT[N] = y;
                        N += 1;
                        y
                    } else {
                        assert!(R < N);
                        let j = if MODE == 1 { R } else { N - 1 - R };
                        R += 1;
                        if MODE == 3 {
                            assert!(OUT[j] == x);
                            IN[j]
                        } else {
                            assert!(IN[j] == x);
                            OUT[j]
                        }
                    }
                }
            }
            pub fn replay_fwd() { unsafe { MODE = 1; R = 0; } }
            pub fn replay_bwd() { unsafe { MODE = 2; R = 0; } }
            pub fn inverse_bwd() { unsafe { MODE = 3; R = 0; } }
            pub fn done() -> bool { unsafe { R == N } }
            pub fn calls() -> usize { unsafe { N } }
        }
    };
}
