//! (reference for cast6: to be written)
