//! (reference for twofish: to be written)
