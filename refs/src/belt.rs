//! STB 34.101.31-2020 "belt": the block cipher belt-block (section 6.1) and the wide-block transformations
//! belt-wblock (section 6.2), written from the standard's numbered steps.
//!
//! Conventions of the standard (section 4): an octet string u1 || u2 || u3 || u4 is identified with the
//! 32-bit number u1 + 2^8 u2 + 2^16 u3 + 2^24 u4 (first octet least significant: little-endian words);
//! `[+]` / `[-]` are addition / subtraction modulo 2^32; RotHi^r is the cyclic shift by r bits towards the
//! high-order bits; <i>_32 (<i>_128) is the number i written as a 32-bit (128-bit) word.
//!
//! * 6.1.2  the substitution H (256 octets, table 1 of the standard) and G_r(u) = RotHi^r(H(u1)||H(u2)||H(u3)||H(u4));
//! * 6.1.3  encryption: X = a||b||c||d, key theta = theta_1||...||theta_8, round keys K_1..K_56 with
//!          K_i = theta_{((i-1) mod 8) + 1}, eight rounds of steps 1)-12), Y = b||d||a||c;
//! * 6.1.4  decryption: the rounds i = 8,...,1 with the mirrored key indices, X = c||a||d||b;
//! * 6.2.3 / 6.2.4  belt-wblock encryption / decryption of a string of at least 32 octets whose length
//!          need not be a multiple of 16.
//!
//! Anchored by the vectors of appendix A (tables A.1, A.2, A.6, A.7) below.

/// Table 1 of the standard (section 6.1.2): H(x) for x = 0x00..0xFF, row-major (row = high nibble of x).
/// Snapshot of the pinned tree: recovered as `H5[x] >> 5` from /repo/belt-block/src/consts.rs, cross-checked
/// against the first row printed in the standard (B1 94 BA C8 0A 08 F5 3B 36 6D 00 8E 58 4A 5D E4) and
/// against the appendix-A vectors, whose keys and plaintexts are rows of this table.
pub const H: [u8; 256] = [
    0xB1, 0x94, 0xBA, 0xC8, 0x0A, 0x08, 0xF5, 0x3B, 0x36, 0x6D, 0x00, 0x8E, 0x58, 0x4A, 0x5D, 0xE4,
    0x85, 0x04, 0xFA, 0x9D, 0x1B, 0xB6, 0xC7, 0xAC, 0x25, 0x2E, 0x72, 0xC2, 0x02, 0xFD, 0xCE, 0x0D,
    0x5B, 0xE3, 0xD6, 0x12, 0x17, 0xB9, 0x61, 0x81, 0xFE, 0x67, 0x86, 0xAD, 0x71, 0x6B, 0x89, 0x0B,
    0x5C, 0xB0, 0xC0, 0xFF, 0x33, 0xC3, 0x56, 0xB8, 0x35, 0xC4, 0x05, 0xAE, 0xD8, 0xE0, 0x7F, 0x99,
    0xE1, 0x2B, 0xDC, 0x1A, 0xE2, 0x82, 0x57, 0xEC, 0x70, 0x3F, 0xCC, 0xF0, 0x95, 0xEE, 0x8D, 0xF1,
    0xC1, 0xAB, 0x76, 0x38, 0x9F, 0xE6, 0x78, 0xCA, 0xF7, 0xC6, 0xF8, 0x60, 0xD5, 0xBB, 0x9C, 0x4F,
    0xF3, 0x3C, 0x65, 0x7B, 0x63, 0x7C, 0x30, 0x6A, 0xDD, 0x4E, 0xA7, 0x79, 0x9E, 0xB2, 0x3D, 0x31,
    0x3E, 0x98, 0xB5, 0x6E, 0x27, 0xD3, 0xBC, 0xCF, 0x59, 0x1E, 0x18, 0x1F, 0x4C, 0x5A, 0xB7, 0x93,
    0xE9, 0xDE, 0xE7, 0x2C, 0x8F, 0x0C, 0x0F, 0xA6, 0x2D, 0xDB, 0x49, 0xF4, 0x6F, 0x73, 0x96, 0x47,
    0x06, 0x07, 0x53, 0x16, 0xED, 0x24, 0x7A, 0x37, 0x39, 0xCB, 0xA3, 0x83, 0x03, 0xA9, 0x8B, 0xF6,
    0x92, 0xBD, 0x9B, 0x1C, 0xE5, 0xD1, 0x41, 0x01, 0x54, 0x45, 0xFB, 0xC9, 0x5E, 0x4D, 0x0E, 0xF2,
    0x68, 0x20, 0x80, 0xAA, 0x22, 0x7D, 0x64, 0x2F, 0x26, 0x87, 0xF9, 0x34, 0x90, 0x40, 0x55, 0x11,
    0xBE, 0x32, 0x97, 0x13, 0x43, 0xFC, 0x9A, 0x48, 0xA0, 0x2A, 0x88, 0x5F, 0x19, 0x4B, 0x09, 0xA1,
    0x7E, 0xCD, 0xA4, 0xD0, 0x15, 0x44, 0xAF, 0x8C, 0xA5, 0x84, 0x50, 0xBF, 0x66, 0xD2, 0xE8, 0x8A,
    0xA2, 0xD7, 0x46, 0x52, 0x42, 0xA8, 0xDF, 0xB3, 0x69, 0x74, 0xC5, 0x51, 0xEB, 0x23, 0x29, 0x21,
    0xD4, 0xEF, 0xD9, 0xB4, 0x3A, 0x62, 0x28, 0x75, 0x91, 0x14, 0x10, 0xEA, 0x77, 0x6C, 0xDA, 0x1D,
];

/// 6.1.2: H as a function on octets.
pub fn h(x: u8) -> u8 { H[x as usize] }

/// RotHi^r on 32-bit words (r taken modulo 32).
pub fn rot_hi(u: u32, r: u32) -> u32 { u.rotate_left(r % 32) }

/// 6.1.2: G_r(u) = RotHi^r(H(u1) || H(u2) || H(u3) || H(u4)) for u = u1||u2||u3||u4.
pub fn g(r: u32, u: u32) -> u32 {
    let u1 = (u & 0xff) as u8;
    let u2 = ((u >> 8) & 0xff) as u8;
    let u3 = ((u >> 16) & 0xff) as u8;
    let u4 = (u >> 24) as u8;
    let v = (h(u1) as u32) | ((h(u2) as u32) << 8) | ((h(u3) as u32) << 16) | ((h(u4) as u32) << 24);
    rot_hi(v, r)
}

/// 6.1.3 step 2-3: round key K_i, i = 1..=56: K_1 = theta_1, ..., K_8 = theta_8, K_9 = theta_1, ..., K_56 = theta_8.
/// (`theta[j]` holds theta_{j+1}.)
pub fn round_key(theta: &[u32; 8], i: usize) -> u32 {
    // i in 1..=56
    theta[(i - 1) % 8]
}

/// 6.1.3 step 5, one round i (1..=8) of encryption on the state (a, b, c, d).
pub fn enc_round(s: [u32; 4], theta: &[u32; 8], i: usize) -> [u32; 4] {
    let (mut a, mut b, mut c, mut d) = (s[0], s[1], s[2], s[3]);
    // 1) b <- b xor G5(a [+] K[7i-6])
    b ^= g(5, a.wrapping_add(round_key(theta, 7 * i - 6)));
    // 2) c <- c xor G21(d [+] K[7i-5])
    c ^= g(21, d.wrapping_add(round_key(theta, 7 * i - 5)));
    // 3) a <- a [-] G13(b [+] K[7i-4])
    a = a.wrapping_sub(g(13, b.wrapping_add(round_key(theta, 7 * i - 4))));
    // 4) e <- G21(b [+] c [+] K[7i-3]) xor <i>_32
    let e = g(21, b.wrapping_add(c).wrapping_add(round_key(theta, 7 * i - 3))) ^ (i as u32);
    // 5) b <- b [+] e
    b = b.wrapping_add(e);
    // 6) c <- c [-] e
    c = c.wrapping_sub(e);
    // 7) d <- d [+] G13(c [+] K[7i-2])
    d = d.wrapping_add(g(13, c.wrapping_add(round_key(theta, 7 * i - 2))));
    // 8) b <- b xor G21(a [+] K[7i-1])
    b ^= g(21, a.wrapping_add(round_key(theta, 7 * i - 1)));
    // 9) c <- c xor G5(d [+] K[7i])
    c ^= g(5, d.wrapping_add(round_key(theta, 7 * i)));
    // 10) a <-> b
    let t = a; a = b; b = t;
    // 11) c <-> d
    let t = c; c = d; d = t;
    // 12) b <-> c
    let t = b; b = c; c = t;
    [a, b, c, d]
}

/// 6.1.4 step 5, one round i (8 down to 1) of decryption on the state (a, b, c, d).
pub fn dec_round(s: [u32; 4], theta: &[u32; 8], i: usize) -> [u32; 4] {
    let (mut a, mut b, mut c, mut d) = (s[0], s[1], s[2], s[3]);
    // 1) b <- b xor G5(a [+] K[7i])
    b ^= g(5, a.wrapping_add(round_key(theta, 7 * i)));
    // 2) c <- c xor G21(d [+] K[7i-1])
    c ^= g(21, d.wrapping_add(round_key(theta, 7 * i - 1)));
    // 3) a <- a [-] G13(b [+] K[7i-2])
    a = a.wrapping_sub(g(13, b.wrapping_add(round_key(theta, 7 * i - 2))));
    // 4) e <- G21(b [+] c [+] K[7i-3]) xor <i>_32
    let e = g(21, b.wrapping_add(c).wrapping_add(round_key(theta, 7 * i - 3))) ^ (i as u32);
    // 5) b <- b [+] e
    b = b.wrapping_add(e);
    // 6) c <- c [-] e
    c = c.wrapping_sub(e);
    // 7) d <- d [+] G13(c [+] K[7i-4])
    d = d.wrapping_add(g(13, c.wrapping_add(round_key(theta, 7 * i - 4))));
    // 8) b <- b xor G21(a [+] K[7i-5])
    b ^= g(21, a.wrapping_add(round_key(theta, 7 * i - 5)));
    // 9) c <- c xor G5(d [+] K[7i-6])
    c ^= g(5, d.wrapping_add(round_key(theta, 7 * i - 6)));
    // 10) a <-> b
    let t = a; a = b; b = t;
    // 11) c <-> d
    let t = c; c = d; d = t;
    // 12) a <-> d
    let t = a; a = d; d = t;
    [a, b, c, d]
}

/// 6.1.3: Y = belt-block(X, theta) on words: X = a||b||c||d = x[0]||x[1]||x[2]||x[3].
pub fn encrypt_words(x: [u32; 4], theta: &[u32; 8]) -> [u32; 4] {
    // steps 1-4: split X and theta into words, round keys K_1..K_56 (see `round_key`)
    let mut s = x;
    // step 5: for i = 1, 2, ..., 8
    let mut i = 1;
    while i <= 8 {
        s = enc_round(s, theta, i);
        i += 1;
    }
    // step 6: Y <- b || d || a || c
    [s[1], s[3], s[0], s[2]]
}

/// 6.1.4: X = belt-block^{-1}(Y, theta) on words.
pub fn decrypt_words(y: [u32; 4], theta: &[u32; 8]) -> [u32; 4] {
    let mut s = y;
    // step 5: for i = 8, 7, ..., 1
    let mut i = 8;
    while i >= 1 {
        s = dec_round(s, theta, i);
        i -= 1;
    }
    // step 6: X <- c || a || d || b
    [s[2], s[0], s[3], s[1]]
}

/// Octet string of 4*N octets -> N words (first octet least significant).
pub fn words<const N: usize>(b: &[u8]) -> [u32; N] {
    let mut w = [0u32; N];
    let mut i = 0;
    while i < N {
        w[i] = (b[4 * i] as u32) | ((b[4 * i + 1] as u32) << 8) | ((b[4 * i + 2] as u32) << 16) | ((b[4 * i + 3] as u32) << 24);
        i += 1;
    }
    w
}

/// 4 words -> 16 octets (first octet least significant).
pub fn octets16(w: &[u32; 4]) -> [u8; 16] {
    let mut b = [0u8; 16];
    let mut i = 0;
    while i < 4 {
        b[4 * i] = (w[i] & 0xff) as u8;
        b[4 * i + 1] = ((w[i] >> 8) & 0xff) as u8;
        b[4 * i + 2] = ((w[i] >> 16) & 0xff) as u8;
        b[4 * i + 3] = (w[i] >> 24) as u8;
        i += 1;
    }
    b
}

/// 6.1.3 on octet strings: 32-octet key, 16-octet block.
pub fn encrypt(key: &[u8; 32], x: &[u8; 16]) -> [u8; 16] {
    octets16(&encrypt_words(words::<4>(x), &words::<8>(key)))
}

/// 6.1.4 on octet strings.
pub fn decrypt(key: &[u8; 32], y: &[u8; 16]) -> [u8; 16] {
    octets16(&decrypt_words(words::<4>(y), &words::<8>(key)))
}

// ------------------------------------------------------------------------------------------------ 6.2 belt-wblock
//
// Input: X of |X| >= 256 bits, |X| a multiple of 8 (an octet string of m >= 32 octets).  n = ceil(|X| / 128).
// The working string r (|r| = |X|) is written r = r_1 || r_2 || ... || r_n with |r_1| = ... = |r_{n-1}| = 128 and
// 0 < |r_n| <= 128; r^* denotes the LAST 128 bits of r (octets m-16..m, which straddle r_{n-1} and r_n when
// |r_n| < 128).  ShLo^128 drops the first 128 bits (16 octets) of the string and appends 128 zero bits;
// ShHi^128 prepends 128 zero bits and drops the last 128 bits.
//
// 6.2.3 encryption:                              6.2.4 decryption:
//   1. r <- X                                      1. r <- Y
//   2. for i = 1, 2, ..., 2n:                      2. for i = 2n, ..., 2, 1:
//      1) s <- r_1 xor r_2 xor ... xor r_{n-1}        1) s <- r^*
//      2) r^* <- r^* xor belt-block(s, K) xor <i>_128 2) r <- ShHi^128(r)
//      3) r <- ShLo^128(r)                            3) r^* <- r^* xor belt-block(s, K) xor <i>_128
//      4) r^* <- s                                    4) r_1 <- s xor r_2 xor ... xor r_{n-1}
//   3. Y <- r                                      3. X <- r

/// <i>_128 as 16 octets (first octet least significant).
pub fn counter128(i: usize) -> [u8; 16] {
    let mut c = [0u8; 16];
    let mut v = i as u64;
    let mut j = 0;
    while j < 8 {
        c[j] = (v & 0xff) as u8;
        v >>= 8;
        j += 1;
    }
    c
}

/// r_k xor-accumulated for k = first..=n-1 (1-based full blocks of the m-octet string r), starting from `acc`.
fn xor_blocks(r: &[u8], n: usize, first: usize, acc: [u8; 16]) -> [u8; 16] {
    let mut s = acc;
    let mut k = first;
    while k <= n - 1 {
        let mut j = 0;
        while j < 16 {
            s[j] ^= r[16 * (k - 1) + j];
            j += 1;
        }
        k += 1;
    }
    s
}

/// 6.2.3 with the block function as a parameter (`block(s)` stands for belt-block(s, K) on words).
/// Returns false (and leaves `r` untouched) if |X| < 256 bits.
pub fn wblock_enc_with<F: Fn([u32; 4]) -> [u32; 4]>(r: &mut [u8], block: F) -> bool {
    let m = r.len();
    if m < 32 {
        return false;
    }
    let n = (m + 15) / 16;
    let mut i = 1;
    while i <= 2 * n {
        // 1) s <- r_1 xor ... xor r_{n-1}
        let s = xor_blocks(r, n, 1, [0u8; 16]);
        // 2) r^* <- r^* xor belt-block(s, K) xor <i>_128
        let e = octets16(&block(words::<4>(&s)));
        let ctr = counter128(i);
        let mut j = 0;
        while j < 16 {
            r[m - 16 + j] ^= e[j] ^ ctr[j];
            j += 1;
        }
        // 3) r <- ShLo^128(r)
        let mut j = 0;
        while j < m {
            r[j] = if j + 16 < m { r[j + 16] } else { 0 };
            j += 1;
        }
        // 4) r^* <- s
        let mut j = 0;
        while j < 16 {
            r[m - 16 + j] = s[j];
            j += 1;
        }
        i += 1;
    }
    true
}

/// 6.2.4 with the block function as a parameter (belt-wblock decryption uses belt-block in the forward direction).
pub fn wblock_dec_with<F: Fn([u32; 4]) -> [u32; 4]>(r: &mut [u8], block: F) -> bool {
    let m = r.len();
    if m < 32 {
        return false;
    }
    let n = (m + 15) / 16;
    let mut i = 2 * n;
    while i >= 1 {
        // 1) s <- r^*
        let mut s = [0u8; 16];
        let mut j = 0;
        while j < 16 {
            s[j] = r[m - 16 + j];
            j += 1;
        }
        // 2) r <- ShHi^128(r)
        let mut j = m;
        while j > 0 {
            j -= 1;
            r[j] = if j >= 16 { r[j - 16] } else { 0 };
        }
        // 3) r^* <- r^* xor belt-block(s, K) xor <i>_128
        let e = octets16(&block(words::<4>(&s)));
        let ctr = counter128(i);
        let mut j = 0;
        while j < 16 {
            r[m - 16 + j] ^= e[j] ^ ctr[j];
            j += 1;
        }
        // 4) r_1 <- s xor r_2 xor ... xor r_{n-1}
        let r1 = xor_blocks(r, n, 2, s);
        let mut j = 0;
        while j < 16 {
            r[j] = r1[j];
            j += 1;
        }
        i -= 1;
    }
    true
}

/// 6.2.3: belt-wblock encryption in place under the key words theta.
pub fn wblock_enc(r: &mut [u8], theta: &[u32; 8]) -> bool {
    wblock_enc_with(r, |s| encrypt_words(s, theta))
}

/// 6.2.4: belt-wblock decryption in place.
pub fn wblock_dec(r: &mut [u8], theta: &[u32; 8]) -> bool {
    wblock_dec_with(r, |s| encrypt_words(s, theta))
}

#[cfg(test)]
mod tests {
    extern crate std;
    use super::*;
    use std::vec::Vec;

    fn hex(s: &str) -> Vec<u8> {
        let d: Vec<u8> = s.bytes().filter(|c| !c.is_ascii_whitespace()).collect();
        assert!(d.len() % 2 == 0);
        d.chunks(2).map(|p| u8::from_str_radix(core::str::from_utf8(p).unwrap(), 16).unwrap()).collect()
    }
    fn arr<const N: usize>(s: &str) -> [u8; N] { hex(s).try_into().unwrap() }

    const K1: &str = "E9DEE72C 8F0C0FA6 2DDB49F4 6F739647 06075316 ED247A37 39CBA383 03A98BF6";
    const K2: &str = "92BD9B1C E5D14101 5445FBC9 5E4D0EF2 682080AA 227D642F 2687F934 90405511";

    #[test]
    fn h_table() {
        // a permutation of the octets; first row as printed in the standard
        let mut seen = [false; 256];
        for x in 0..256 {
            seen[H[x] as usize] = true;
        }
        assert!(seen.iter().all(|&b| b));
        assert_eq!(&H[..16], &hex("B194BAC8 0A08F53B 366D008E 584A5DE4")[..]);
        // G_r places H(u1) at the low octet before rotation
        assert_eq!(g(0, 0x0000_0000), 0xB1B1_B1B1);
        assert_eq!(g(0, 0x0000_0001), 0xB1B1_B194);
        assert_eq!(g(5, 0x0000_0001), 0xB1B1_B194u32.rotate_left(5));
        assert_eq!(g(32 + 5, 7), g(5, 7));
    }

    #[test]
    fn round_keys() {
        let theta = [1u32, 2, 3, 4, 5, 6, 7, 8];
        for i in 1..=56 {
            assert_eq!(round_key(&theta, i), ((i - 1) % 8 + 1) as u32);
        }
    }

    #[test]
    fn table_a1_encryption() {
        let key: [u8; 32] = arr(K1);
        let x: [u8; 16] = arr("B194BAC8 0A08F53B 366D008E 584A5DE4");
        let y: [u8; 16] = arr("69CCA1C9 3557C9E3 D66BC3E0 FA88FA6E");
        assert_eq!(encrypt(&key, &x), y);
        assert_eq!(decrypt(&key, &y), x);
    }

    #[test]
    fn table_a2_decryption() {
        let key: [u8; 32] = arr(K2);
        let y: [u8; 16] = arr("E12BDC1A E28257EC 703FCCF0 95EE8DF1");
        let x: [u8; 16] = arr("0DC53006 00CAB840 B38448E5 E993F421");
        assert_eq!(decrypt(&key, &y), x);
        assert_eq!(encrypt(&key, &x), y);
    }

    #[test]
    fn rounds_invert() {
        // dec_round(i) undoes enc_round(i) up to the output permutations of steps 6
        let theta: [u32; 8] = words::<8>(&hex(K1));
        let mut s = [0x0123_4567u32, 0x89ab_cdef, 0xdead_beef, 0x0bad_f00d];
        for t in 0..50u32 {
            let x = s;
            let y = encrypt_words(x, &theta);
            assert_eq!(decrypt_words(y, &theta), x);
            assert_eq!(encrypt_words(decrypt_words(x, &theta), &theta), x);
            s = [y[0] ^ t, y[1], y[2].wrapping_add(t), y[3]];
        }
    }

    fn wb(key: &str, x: &str, y: &str) {
        let theta: [u32; 8] = words::<8>(&hex(key));
        let (x, y) = (hex(x), hex(y));
        let mut t = x.clone();
        assert!(wblock_enc(&mut t, &theta));
        assert_eq!(t, y);
        assert!(wblock_dec(&mut t, &theta));
        assert_eq!(t, x);
    }

    #[test]
    fn table_a6_wblock_encryption() {
        // |X| = 384 bits
        wb(
            K1,
            "B194BAC8 0A08F53B 366D008E 584A5DE4 8504FA9D 1BB6C7AC 252E72C2 02FDCE0D 5BE3D612 17B96181 FE6786AD 716B890B",
            "49A38EE1 08D6C742 E52B774F 00A6EF98 B106CBD1 3EA4FB06 80323051 BC04DF76 E487B055 C69BCF54 1176169F 1DC9F6C8",
        );
        // |X| = 376 bits (47 octets)
        wb(
            K1,
            "B194BAC8 0A08F53B 366D008E 584A5DE4 8504FA9D 1BB6C7AC 252E72C2 02FDCE0D 5BE3D612 17B96181 FE6786AD 716B89",
            "F08EF22D CAA06C81 FB127219 74221CA7 AB82C628 56FCF2F9 FCA006E0 19A28F16 E5821A51 F5735946 25DBAB8F 6A5C94",
        );
    }

    #[test]
    fn table_a7_wblock_decryption() {
        // |Y| = 384 bits
        wb(
            K2,
            "92632EE0 C21AD9E0 9A39343E 5C07DAA4 889B03F2 E6847EB1 52EC99F7 A4D9F154 B5EF68D8 E4A39E56 7153DE13 D72254EE",
            "E12BDC1A E28257EC 703FCCF0 95EE8DF1 C1AB7638 9FE678CA F7C6F860 D5BB9C4F F33C657B 637C306A DD4EA779 9EB23D31",
        );
        // |Y| = 288 bits (36 octets)
        wb(
            K2,
            "DF3F8822 30BAAFFC 92F05660 32117231 0E3CB218 2681EF43 102E6717 5E177BD7 5E93E4E8",
            "E12BDC1A E28257EC 703FCCF0 95EE8DF1 C1AB7638 9FE678CA F7C6F860 D5BB9C4F F33C657B",
        );
    }

    #[test]
    fn wblock_short_and_lengths() {
        let theta: [u32; 8] = words::<8>(&hex(K1));
        let x: Vec<u8> = (0u8..200).collect();
        for m in 0..32 {
            let mut t = x[..m].to_vec();
            assert!(!wblock_enc(&mut t, &theta));
            assert!(!wblock_dec(&mut t, &theta));
            assert_eq!(t, &x[..m]);
        }
        for m in 32..200 {
            let mut t = x[..m].to_vec();
            assert!(wblock_enc(&mut t, &theta));
            assert_ne!(t, &x[..m]);
            assert!(wblock_dec(&mut t, &theta));
            assert_eq!(t, &x[..m]);
            assert!(wblock_dec(&mut t, &theta));
            assert!(wblock_enc(&mut t, &theta));
            assert_eq!(t, &x[..m]);
        }
    }
}
