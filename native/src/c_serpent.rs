//! serpent: Serpent with 16..=32 byte keys against the AES submission (bcref::serpent), C08;
//! C11: short key == key || 0x01 || 00.. (a single 1 bit, then zeros).
use crate::generic::*;
use crate::util::*;
use bcref::serpent as r;
use cipher::KeyInit;

desc!(DSerpent: serpent::Serpent, "serpent", "Serpent", 16..=32usize, "C08", [clone, debug, alg], names ["Serpent"], alg ["serpent"],
    |k, b, dec| {
        let key: [u8; 32] = padded(k);
        Some(if dec { r::decrypt(&key, k.len(), &arr(b)) } else { r::encrypt(&key, k.len(), &arr(b)) }.to_vec())
    });

fn c11_padding() {
    set_prop("C11");
    let mut rng = Rng::for_label("C11/serpent/padding");
    for i in 0..(iters() / 2).max(64) {
        let len = 16 + i % 16; // 16..=31
        let key = rng.bytes(len);
        let mut full: [u8; 32] = padded(&key);
        full[len] = 0x01;
        input(&[("key", &key), ("padded_key", &full)]);
        guard("short key vs padded key", || {
            let (Ok(a), Ok(b)) = (serpent::Serpent::new_from_slice(&key), serpent::Serpent::new_from_slice(&full)) else { return };
            same_cipher("short key and its explicitly padded 256-bit form give different ciphers", &a, &b, &|c, x| probe_full(c, x), 16, &mut rng);
        });
    }
}

pub fn run() {
    visit::<DSerpent>();
    if want("C11") {
        c11_padding();
    }
}
