//! xtea: Xtea against 32-cycle XTEA over little-endian words (bcref::xtea), C09.  Xtea is not Clone.
use crate::generic::*;
use crate::util::*;
use bcref::xtea as r;

desc!(DXtea: xtea::Xtea, "xtea", "Xtea", [16], "C09", [debug, alg], names ["Xtea"], alg ["xtea"],
    |k, b, dec| Some(if dec { r::decrypt_le(&arr(k), &arr(b)) } else { r::encrypt_le(&arr(k), &arr(b)) }.to_vec()));

pub fn run() {
    visit::<DXtea>();
}
