// C04 for the AES-NI backend (ParBlocksSize = 9): multi-block and buffer-to-buffer calls through the real `cipher`
// API equal per-block calls, for every block count n in 0..=19 (= 2*PAR+1; enumerated, one obligation per n:
// bounded in n), with guard blocks around the output and the input buffer compared afterwards.
// The AES round instructions are replaced by cheap register-local stand-ins (any register-local function exposes a
// lane mix-up, a skipped block or a read from the wrong buffer; the instructions' semantics are ni.rs' business).
//
// NOTE: only the AES-256 types are instantiated: `encdec::encrypt_par::<KEYS, _>` indexes `keys[12]`, `keys[13]` in
// branches that are dead for KEYS = 11 / 13, and Kani 0.68 aborts (internal compiler error, place.rs: `length >=
// min_length`) when it compiles such a constant index on a shorter array.  The function body is the same generic
// source for all three key sizes; KEYS = 15 takes every branch.
//
// @module file=aes/src/ni.rs
use super::*;
use super::arch::*;
use cipher::Array;
use crate::Block;

fn tb(x: __m128i) -> [u8; 16] { unsafe { core::mem::transmute(x) } }
fn fb(x: [u8; 16]) -> __m128i { unsafe { core::mem::transmute(x) } }
// middle rounds: identity on the state (the round key is ignored); last round: a byte rotation of the state xor the
// round key.  Register-local, depends on the input block and on two of the round keys; shallow on purpose (a 14-deep
// chain of adds/rotations per block made the n >= 8 instances time out).
unsafe fn s_round(a: __m128i, _k: __m128i) -> __m128i { a }
unsafe fn s_last(a: __m128i, k: __m128i) -> __m128i {
    let (a, k) = (tb(a), tb(k));
    let mut o = [0u8; 16];
    let mut i = 0;
    while i < 16 {
        o[i] = a[(i + 3) % 16] ^ k[i] ^ 0x1d;
        i += 1;
    }
    fb(o)
}
/// distinct concrete tags per block and byte: the dispatch code never branches on block contents (it is constant-time
/// code), so routing errors show on tagged blocks; contents are fully symbolic in the n = 1 and n = 9 instances.
fn tagged<const N: usize>() -> [[u8; 16]; N] {
    let mut b = [[0u8; 16]; N];
    let mut i = 0;
    while i < N {
        let mut j = 0;
        while j < 16 {
            b[i][j] = (i as u8).wrapping_mul(16).wrapping_add(j as u8) ^ 0xc3;
            j += 1;
        }
        i += 1;
    }
    b
}
fn tagged_keys<const N: usize>() -> [__m128i; N] {
    let mut k: [__m128i; N] = unsafe { core::mem::zeroed() };
    let mut i = 0;
    while i < N {
        let mut b = [0u8; 16];
        let mut j = 0;
        while j < 16 {
            b[j] = (i as u8).wrapping_mul(29).wrapping_add(j as u8).wrapping_mul(7) ^ 0x5c;
            j += 1;
        }
        k[i] = fb(b);
        i += 1;
    }
    k
}
fn any_keys<const N: usize>() -> [__m128i; N] {
    let mut k: [__m128i; N] = unsafe { core::mem::zeroed() };
    let mut i = 0;
    while i < N {
        k[i] = fb(kani::any());
        i += 1;
    }
    k
}

macro_rules! ni_dispatch {
    ($name:ident, $enc:ident, $benc:ident, $dec:ident, $bdec:ident, $nk:expr, $n:expr, $mk:expr, $keys:expr) => {
        #[kani::proof]
        #[kani::stub(core::arch::x86_64::_mm_aesenc_si128, s_round)]
        #[kani::stub(core::arch::x86_64::_mm_aesenclast_si128, s_last)]
        #[kani::stub(core::arch::x86_64::_mm_aesdec_si128, s_round)]
        #[kani::stub(core::arch::x86_64::_mm_aesdeclast_si128, s_last)]
        #[kani::unwind(24)]
        fn $name() {
            let e = $enc { backend: $benc { keys: $keys } };
            let d = $dec { backend: $bdec { keys: $keys } };
            let inp: [[u8; 16]; $n] = $mk;
            let mut se = [[0u8; 16]; $n];
            let mut sd = [[0u8; 16]; $n];
            let mut i = 0;
            while i < $n {
                let mut b = Array(inp[i]);
                cipher::BlockCipherEncrypt::encrypt_block(&e, &mut b);
                se[i] = b.0;
                let mut b = Array(inp[i]);
                cipher::BlockCipherDecrypt::decrypt_block(&d, &mut b);
                sd[i] = b.0;
                i += 1;
            }
            // in place
            let mut blocks = [Array([0u8; 16]); $n];
            let mut i = 0;
            while i < $n { blocks[i] = Array(inp[i]); i += 1; }
            cipher::BlockCipherEncrypt::encrypt_blocks(&e, &mut blocks);
            let mut i = 0;
            while i < $n { assert!(blocks[i].0 == se[i]); i += 1; }
            let mut i = 0;
            while i < $n { blocks[i] = Array(inp[i]); i += 1; }
            cipher::BlockCipherDecrypt::decrypt_blocks(&d, &mut blocks);
            let mut i = 0;
            while i < $n { assert!(blocks[i].0 == sd[i]); i += 1; }
            // buffer to buffer, guard blocks around the output, input compared afterwards
            let mut src = [Array([0u8; 16]); $n];
            let mut i = 0;
            while i < $n { src[i] = Array(inp[i]); i += 1; }
            let g: [u8; 16] = kani::any();
            let mut dst = [Array(g); $n + 2];
            cipher::BlockCipherEncrypt::encrypt_blocks_b2b(&e, &src, &mut dst[1..$n + 1]).unwrap();
            assert!(dst[0].0 == g && dst[$n + 1].0 == g);
            let mut i = 0;
            while i < $n { assert!(dst[i + 1].0 == se[i] && src[i].0 == inp[i]); i += 1; }
            let mut dst = [Array(g); $n + 2];
            cipher::BlockCipherDecrypt::decrypt_blocks_b2b(&d, &src, &mut dst[1..$n + 1]).unwrap();
            assert!(dst[0].0 == g && dst[$n + 1].0 == g);
            let mut i = 0;
            while i < $n { assert!(dst[i + 1].0 == sd[i] && src[i].0 == inp[i]); i += 1; }
        }
    };
}
// @ob name=d_ni256_n01 props=C02,C03,C04,C15,C20 kind=bounded bound="n = 1 blocks (PAR = 9), tagged block contents, symbolic keys" fn=aes::ni::Aes256BackEnc::encrypt_par_blocks,aes::ni::Aes256BackEnc::encrypt_block,aes::ni::encdec::encrypt_par,aes::ni::encdec::decrypt_par,aes::ni::encdec::load,aes::ni::encdec::store timeout=1800
ni_dispatch!(d_ni256_n01, Aes256Enc, Aes256BackEnc, Aes256Dec, Aes256BackDec, 15, 1, tagged::<1>(), any_keys::<15>());
// @ob name=d_ni256_n02 props=C02,C03,C04,C15,C20 kind=bounded tier=thorough bound="n = 2 blocks (PAR = 9), tagged block contents, symbolic keys" fn=aes::ni::Aes256BackEnc::encrypt_par_blocks,aes::ni::Aes256BackEnc::encrypt_block,aes::ni::encdec::encrypt_par,aes::ni::encdec::decrypt_par,aes::ni::encdec::load,aes::ni::encdec::store timeout=3600
ni_dispatch!(d_ni256_n02, Aes256Enc, Aes256BackEnc, Aes256Dec, Aes256BackDec, 15, 2, tagged::<2>(), any_keys::<15>());
// @ob name=d_ni256_n03 props=C02,C03,C04,C15,C20 kind=bounded tier=thorough bound="n = 3 blocks (PAR = 9), tagged block contents, symbolic keys" fn=aes::ni::Aes256BackEnc::encrypt_par_blocks,aes::ni::Aes256BackEnc::encrypt_block,aes::ni::encdec::encrypt_par,aes::ni::encdec::decrypt_par,aes::ni::encdec::load,aes::ni::encdec::store timeout=3600
ni_dispatch!(d_ni256_n03, Aes256Enc, Aes256BackEnc, Aes256Dec, Aes256BackDec, 15, 3, tagged::<3>(), any_keys::<15>());
// @ob name=d_ni256_n04 props=C02,C03,C04,C15,C20 kind=bounded tier=thorough bound="n = 4 blocks (PAR = 9), tagged block contents, symbolic keys" fn=aes::ni::Aes256BackEnc::encrypt_par_blocks,aes::ni::Aes256BackEnc::encrypt_block,aes::ni::encdec::encrypt_par,aes::ni::encdec::decrypt_par,aes::ni::encdec::load,aes::ni::encdec::store timeout=3600
ni_dispatch!(d_ni256_n04, Aes256Enc, Aes256BackEnc, Aes256Dec, Aes256BackDec, 15, 4, tagged::<4>(), any_keys::<15>());
// @ob name=d_ni256_n05 props=C02,C03,C04,C15,C20 kind=bounded tier=thorough bound="n = 5 blocks (PAR = 9), tagged block contents, symbolic keys" fn=aes::ni::Aes256BackEnc::encrypt_par_blocks,aes::ni::Aes256BackEnc::encrypt_block,aes::ni::encdec::encrypt_par,aes::ni::encdec::decrypt_par,aes::ni::encdec::load,aes::ni::encdec::store timeout=3600
ni_dispatch!(d_ni256_n05, Aes256Enc, Aes256BackEnc, Aes256Dec, Aes256BackDec, 15, 5, tagged::<5>(), any_keys::<15>());
// @ob name=d_ni256_n06 props=C02,C03,C04,C15,C20 kind=bounded tier=thorough bound="n = 6 blocks (PAR = 9), tagged block contents, symbolic keys" fn=aes::ni::Aes256BackEnc::encrypt_par_blocks,aes::ni::Aes256BackEnc::encrypt_block,aes::ni::encdec::encrypt_par,aes::ni::encdec::decrypt_par,aes::ni::encdec::load,aes::ni::encdec::store timeout=3600
ni_dispatch!(d_ni256_n06, Aes256Enc, Aes256BackEnc, Aes256Dec, Aes256BackDec, 15, 6, tagged::<6>(), any_keys::<15>());
// @ob name=d_ni256_n07 props=C02,C03,C04,C15,C20 kind=bounded tier=thorough bound="n = 7 blocks (PAR = 9), tagged block contents, symbolic keys" fn=aes::ni::Aes256BackEnc::encrypt_par_blocks,aes::ni::Aes256BackEnc::encrypt_block,aes::ni::encdec::encrypt_par,aes::ni::encdec::decrypt_par,aes::ni::encdec::load,aes::ni::encdec::store timeout=3600
ni_dispatch!(d_ni256_n07, Aes256Enc, Aes256BackEnc, Aes256Dec, Aes256BackDec, 15, 7, tagged::<7>(), any_keys::<15>());
// @ob name=d_ni256_n08 props=C02,C03,C04,C15,C20 kind=bounded bound="n = 8 blocks (PAR = 9), tagged block contents, symbolic keys" fn=aes::ni::Aes256BackEnc::encrypt_par_blocks,aes::ni::Aes256BackEnc::encrypt_block,aes::ni::encdec::encrypt_par,aes::ni::encdec::decrypt_par,aes::ni::encdec::load,aes::ni::encdec::store timeout=1800
ni_dispatch!(d_ni256_n08, Aes256Enc, Aes256BackEnc, Aes256Dec, Aes256BackDec, 15, 8, tagged::<8>(), any_keys::<15>());
// @ob name=d_ni256_n09 props=C02,C03,C04,C15,C20 kind=bounded bound="n = 9 blocks (PAR = 9), tagged block contents, symbolic keys" fn=aes::ni::Aes256BackEnc::encrypt_par_blocks,aes::ni::Aes256BackEnc::encrypt_block,aes::ni::encdec::encrypt_par,aes::ni::encdec::decrypt_par,aes::ni::encdec::load,aes::ni::encdec::store timeout=1800
ni_dispatch!(d_ni256_n09, Aes256Enc, Aes256BackEnc, Aes256Dec, Aes256BackDec, 15, 9, tagged::<9>(), any_keys::<15>());
// @ob name=d_ni256_n10 props=C02,C03,C04,C15,C20 kind=bounded bound="n = 10 blocks (PAR = 9), tagged block contents and keys (concrete execution)" fn=aes::ni::Aes256BackEnc::encrypt_par_blocks,aes::ni::Aes256BackEnc::encrypt_block,aes::ni::encdec::encrypt_par,aes::ni::encdec::decrypt_par,aes::ni::encdec::load,aes::ni::encdec::store timeout=1800
ni_dispatch!(d_ni256_n10, Aes256Enc, Aes256BackEnc, Aes256Dec, Aes256BackDec, 15, 10, tagged::<10>(), tagged_keys::<15>());
// @ob name=d_ni256_n11 props=C02,C03,C04,C15,C20 kind=bounded tier=thorough bound="n = 11 blocks (PAR = 9), tagged block contents and keys (concrete execution)" fn=aes::ni::Aes256BackEnc::encrypt_par_blocks,aes::ni::Aes256BackEnc::encrypt_block,aes::ni::encdec::encrypt_par,aes::ni::encdec::decrypt_par,aes::ni::encdec::load,aes::ni::encdec::store timeout=3600
ni_dispatch!(d_ni256_n11, Aes256Enc, Aes256BackEnc, Aes256Dec, Aes256BackDec, 15, 11, tagged::<11>(), tagged_keys::<15>());
// @ob name=d_ni256_n12 props=C02,C03,C04,C15,C20 kind=bounded tier=thorough bound="n = 12 blocks (PAR = 9), tagged block contents and keys (concrete execution)" fn=aes::ni::Aes256BackEnc::encrypt_par_blocks,aes::ni::Aes256BackEnc::encrypt_block,aes::ni::encdec::encrypt_par,aes::ni::encdec::decrypt_par,aes::ni::encdec::load,aes::ni::encdec::store timeout=3600
ni_dispatch!(d_ni256_n12, Aes256Enc, Aes256BackEnc, Aes256Dec, Aes256BackDec, 15, 12, tagged::<12>(), tagged_keys::<15>());
// @ob name=d_ni256_n13 props=C02,C03,C04,C15,C20 kind=bounded tier=thorough bound="n = 13 blocks (PAR = 9), tagged block contents and keys (concrete execution)" fn=aes::ni::Aes256BackEnc::encrypt_par_blocks,aes::ni::Aes256BackEnc::encrypt_block,aes::ni::encdec::encrypt_par,aes::ni::encdec::decrypt_par,aes::ni::encdec::load,aes::ni::encdec::store timeout=3600
ni_dispatch!(d_ni256_n13, Aes256Enc, Aes256BackEnc, Aes256Dec, Aes256BackDec, 15, 13, tagged::<13>(), tagged_keys::<15>());
// @ob name=d_ni256_n14 props=C02,C03,C04,C15,C20 kind=bounded tier=thorough bound="n = 14 blocks (PAR = 9), tagged block contents and keys (concrete execution)" fn=aes::ni::Aes256BackEnc::encrypt_par_blocks,aes::ni::Aes256BackEnc::encrypt_block,aes::ni::encdec::encrypt_par,aes::ni::encdec::decrypt_par,aes::ni::encdec::load,aes::ni::encdec::store timeout=3600
ni_dispatch!(d_ni256_n14, Aes256Enc, Aes256BackEnc, Aes256Dec, Aes256BackDec, 15, 14, tagged::<14>(), tagged_keys::<15>());
// @ob name=d_ni256_n15 props=C02,C03,C04,C15,C20 kind=bounded tier=thorough bound="n = 15 blocks (PAR = 9), tagged block contents and keys (concrete execution)" fn=aes::ni::Aes256BackEnc::encrypt_par_blocks,aes::ni::Aes256BackEnc::encrypt_block,aes::ni::encdec::encrypt_par,aes::ni::encdec::decrypt_par,aes::ni::encdec::load,aes::ni::encdec::store timeout=3600
ni_dispatch!(d_ni256_n15, Aes256Enc, Aes256BackEnc, Aes256Dec, Aes256BackDec, 15, 15, tagged::<15>(), tagged_keys::<15>());
// @ob name=d_ni256_n16 props=C02,C03,C04,C15,C20 kind=bounded tier=thorough bound="n = 16 blocks (PAR = 9), tagged block contents and keys (concrete execution)" fn=aes::ni::Aes256BackEnc::encrypt_par_blocks,aes::ni::Aes256BackEnc::encrypt_block,aes::ni::encdec::encrypt_par,aes::ni::encdec::decrypt_par,aes::ni::encdec::load,aes::ni::encdec::store timeout=3600
ni_dispatch!(d_ni256_n16, Aes256Enc, Aes256BackEnc, Aes256Dec, Aes256BackDec, 15, 16, tagged::<16>(), tagged_keys::<15>());
// @ob name=d_ni256_n17 props=C02,C03,C04,C15,C20 kind=bounded tier=thorough bound="n = 17 blocks (PAR = 9), tagged block contents and keys (concrete execution)" fn=aes::ni::Aes256BackEnc::encrypt_par_blocks,aes::ni::Aes256BackEnc::encrypt_block,aes::ni::encdec::encrypt_par,aes::ni::encdec::decrypt_par,aes::ni::encdec::load,aes::ni::encdec::store timeout=3600
ni_dispatch!(d_ni256_n17, Aes256Enc, Aes256BackEnc, Aes256Dec, Aes256BackDec, 15, 17, tagged::<17>(), tagged_keys::<15>());
// @ob name=d_ni256_n18 props=C02,C03,C04,C15,C20 kind=bounded tier=thorough bound="n = 18 blocks (PAR = 9), tagged block contents and keys (concrete execution)" fn=aes::ni::Aes256BackEnc::encrypt_par_blocks,aes::ni::Aes256BackEnc::encrypt_block,aes::ni::encdec::encrypt_par,aes::ni::encdec::decrypt_par,aes::ni::encdec::load,aes::ni::encdec::store timeout=3600
ni_dispatch!(d_ni256_n18, Aes256Enc, Aes256BackEnc, Aes256Dec, Aes256BackDec, 15, 18, tagged::<18>(), tagged_keys::<15>());
// @ob name=d_ni256_n19 props=C02,C03,C04,C15,C20 kind=bounded tier=thorough bound="n = 19 blocks (PAR = 9), tagged block contents and keys (concrete execution)" fn=aes::ni::Aes256BackEnc::encrypt_par_blocks,aes::ni::Aes256BackEnc::encrypt_block,aes::ni::encdec::encrypt_par,aes::ni::encdec::decrypt_par,aes::ni::encdec::load,aes::ni::encdec::store timeout=3600
ni_dispatch!(d_ni256_n19, Aes256Enc, Aes256BackEnc, Aes256Dec, Aes256BackDec, 15, 19, tagged::<19>(), tagged_keys::<15>());
// @ob name=d_ni256_sym01 props=C02,C03,C04,C15,C20 kind=bounded tier=quick bound="n = 1 blocks (PAR = 9), symbolic contents and keys" fn=aes::ni::Aes256BackEnc::encrypt_par_blocks,aes::ni::encdec::encrypt_par,aes::ni::encdec::decrypt_par timeout=1800
ni_dispatch!(d_ni256_sym01, Aes256Enc, Aes256BackEnc, Aes256Dec, Aes256BackDec, 15, 1, kani::any(), any_keys::<15>());
// @ob name=d_ni256_sym09 props=C02,C03,C04,C15,C20 kind=bounded tier=thorough bound="n = 9 blocks (PAR = 9), symbolic contents and keys" fn=aes::ni::Aes256BackEnc::encrypt_par_blocks,aes::ni::encdec::encrypt_par,aes::ni::encdec::decrypt_par timeout=1800
ni_dispatch!(d_ni256_sym09, Aes256Enc, Aes256BackEnc, Aes256Dec, Aes256BackDec, 15, 9, kani::any(), any_keys::<15>());
