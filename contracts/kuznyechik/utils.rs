// Contracts on kuznyechik/src/utils.rs (all backends): `l_step`, the in-place step of the linear transformation,
// and the iteration constants KEYGEN, against GOST R 34.12-2015 4.1.2 / 4.2 / 4.3 (bcref::kuznyechik).
//
// Representation: the 16-byte array is the octet string in printed order (byte 0 = a15).  `l_step(msg, i)` does not
// shift the register; instead the register is read through a rotating window: at step i the *logical* block is
//      view(msg, i)[j] = msg[(j - i) mod 16]
// and one step of R on the logical block only rewrites the physical byte (15 - i) mod 16.
//
// @module file=kuznyechik/src/utils.rs
use super::*;
use bcref::kuznyechik as kz;
use crate::__vp_lemmas::ruf;

pub fn view(m: &[u8; 16], i: usize) -> [u8; 16] {
    let mut v = [0u8; 16];
    let mut j = 0;
    while j < 16 {
        v[j] = m[(j + 32 - i) & 15];
        j += 1;
    }
    v
}

/// contract of l_step for 0 <= i < 16: physical byte (15 - i) receives l(logical block), nothing else changes
pub fn spec_l_step(msg: [u8; 16], i: usize) -> [u8; 16] {
    let mut out = msg;
    out[(15 + 16 - i) & 15] = kz::ell(&view(&msg, i));
    out
}

// @ob name=c_get_idx props=C07,C20 fn=kuznyechik::utils::get_idx,kuznyechik::utils::get_m timeout=120
#[kani::proof]
fn c_get_idx() {
    let b: usize = kani::any();
    let i: usize = kani::any();
    kani::assume(b < 16 && i < 16);
    assert!(get_idx(b, i) == (b + 16 - i) % 16);
    let m: [u8; 16] = kani::any();
    assert!(get_m(m, b, i) == m[(b + 16 - i) % 16] as usize);
}

/// l(a15, ..., a0) computed with the crate's multiplication tables, term by term as l_step does
pub fn ell_tables(v: &[u8; 16]) -> u8 {
    v[15] ^ GFT_148[v[14] as usize] ^ GFT_32[v[13] as usize] ^ GFT_133[v[12] as usize] ^ GFT_16[v[11] as usize]
        ^ GFT_194[v[10] as usize] ^ GFT_192[v[9] as usize] ^ v[8] ^ GFT_251[v[7] as usize] ^ v[6]
        ^ GFT_192[v[5] as usize] ^ GFT_194[v[4] as usize] ^ GFT_16[v[3] as usize] ^ GFT_133[v[2] as usize]
        ^ GFT_32[v[1] as usize] ^ GFT_148[v[0] as usize]
}
pub fn spec_l_step_tables(msg: [u8; 16], i: usize) -> [u8; 16] {
    let mut out = msg;
    out[(15 + 16 - i) & 15] = ell_tables(&view(&msg, i));
    out
}

// l_step reads the window it should and rewrites the byte it should (data movement; same table look-ups on both sides),
// one obligation per step index i (all sixteen in one harness timed out)
macro_rules! l_step_at { ($name:ident, $i:expr) => {
    #[kani::proof]
    #[kani::unwind(17)]
    fn $name() {
        let msg: [u8; 16] = kani::any();
        assert!(kz::eq(&l_step(msg, $i), &spec_l_step_tables(msg, $i)));
    }
}; }
// @ob name=c_l_step_00 props=C07,C20 fn=kuznyechik::utils::l_step timeout=300
l_step_at!(c_l_step_00, 0);
// @ob name=c_l_step_01 props=C07,C20 fn=kuznyechik::utils::l_step timeout=300
l_step_at!(c_l_step_01, 1);
// @ob name=c_l_step_02 props=C07,C20 fn=kuznyechik::utils::l_step timeout=300
l_step_at!(c_l_step_02, 2);
// @ob name=c_l_step_03 props=C07,C20 fn=kuznyechik::utils::l_step timeout=300
l_step_at!(c_l_step_03, 3);
// @ob name=c_l_step_04 props=C07,C20 fn=kuznyechik::utils::l_step timeout=300
l_step_at!(c_l_step_04, 4);
// @ob name=c_l_step_05 props=C07,C20 fn=kuznyechik::utils::l_step timeout=300
l_step_at!(c_l_step_05, 5);
// @ob name=c_l_step_06 props=C07,C20 fn=kuznyechik::utils::l_step timeout=300
l_step_at!(c_l_step_06, 6);
// @ob name=c_l_step_07 props=C07,C20 fn=kuznyechik::utils::l_step timeout=300
l_step_at!(c_l_step_07, 7);
// @ob name=c_l_step_08 props=C07,C20 fn=kuznyechik::utils::l_step timeout=300
l_step_at!(c_l_step_08, 8);
// @ob name=c_l_step_09 props=C07,C20 fn=kuznyechik::utils::l_step timeout=300
l_step_at!(c_l_step_09, 9);
// @ob name=c_l_step_10 props=C07,C20 fn=kuznyechik::utils::l_step timeout=300
l_step_at!(c_l_step_10, 10);
// @ob name=c_l_step_11 props=C07,C20 fn=kuznyechik::utils::l_step timeout=300
l_step_at!(c_l_step_11, 11);
// @ob name=c_l_step_12 props=C07,C20 fn=kuznyechik::utils::l_step timeout=300
l_step_at!(c_l_step_12, 12);
// @ob name=c_l_step_13 props=C07,C20 fn=kuznyechik::utils::l_step timeout=300
l_step_at!(c_l_step_13, 13);
// @ob name=c_l_step_14 props=C07,C20 fn=kuznyechik::utils::l_step timeout=300
l_step_at!(c_l_step_14, 14);
// @ob name=c_l_step_15 props=C07,C20 fn=kuznyechik::utils::l_step timeout=300
l_step_at!(c_l_step_15, 15);

// the sixteen table look-ups and XORs are the standard's l (term by term, then the sum)
// @ob name=c_ell_tables props=C07,C20 fn=kuznyechik::utils::l_step uses=c_gft_tables timeout=600
#[kani::proof]
#[kani::unwind(17)]
fn c_ell_tables() {
    let v: [u8; 16] = kani::any();
    assert!(GFT_148[v[0] as usize] == kz::gf_mul(kz::LC[0], v[0]));
    assert!(GFT_32[v[1] as usize] == kz::gf_mul(kz::LC[1], v[1]));
    assert!(GFT_133[v[2] as usize] == kz::gf_mul(kz::LC[2], v[2]));
    assert!(GFT_16[v[3] as usize] == kz::gf_mul(kz::LC[3], v[3]));
    assert!(GFT_194[v[4] as usize] == kz::gf_mul(kz::LC[4], v[4]));
    assert!(GFT_192[v[5] as usize] == kz::gf_mul(kz::LC[5], v[5]));
    assert!(v[6] == kz::gf_mul(kz::LC[6], v[6]));
    assert!(GFT_251[v[7] as usize] == kz::gf_mul(kz::LC[7], v[7]));
    assert!(v[8] == kz::gf_mul(kz::LC[8], v[8]));
    assert!(GFT_192[v[9] as usize] == kz::gf_mul(kz::LC[9], v[9]));
    assert!(GFT_194[v[10] as usize] == kz::gf_mul(kz::LC[10], v[10]));
    assert!(GFT_16[v[11] as usize] == kz::gf_mul(kz::LC[11], v[11]));
    assert!(GFT_133[v[12] as usize] == kz::gf_mul(kz::LC[12], v[12]));
    assert!(GFT_32[v[13] as usize] == kz::gf_mul(kz::LC[13], v[13]));
    assert!(GFT_148[v[14] as usize] == kz::gf_mul(kz::LC[14], v[14]));
    assert!(v[15] == kz::gf_mul(kz::LC[15], v[15]));
    assert!(ell_tables(&v) == kz::ell(&v));
}

// one step on the window is R on the logical block (data movement only)
// @ob name=l_l_step_is_r props=C07 kind=lemma fn=kuznyechik::utils::l_step uses=c_l_step_*,c_ell_tables timeout=300
#[kani::proof]
#[kani::unwind(17)]
fn l_l_step_is_r() {
    let msg: [u8; 16] = kani::any();
    let mut i = 0;
    while i < 16 {
        assert!(kz::eq(&view(&spec_l_step(msg, i), i + 1), &kz::r(&view(&msg, i))));
        i += 1;
    }
    assert!(kz::eq(&view(&msg, 0), &msg) && kz::eq(&view(&msg, 16), &msg));
}

// steps 15, 14, ..., 0 undo it: the same step on the window is R^-1 on the logical block
// @ob name=l_l_step_is_rinv props=C07 kind=lemma fn=kuznyechik::utils::l_step uses=c_l_step_*,c_ell_tables timeout=300
#[kani::proof]
#[kani::unwind(17)]
fn l_l_step_is_rinv() {
    let msg: [u8; 16] = kani::any();
    let mut i = 0;
    while i < 16 {
        assert!(kz::eq(&view(&spec_l_step(msg, i), i), &kz::r_inv(&view(&msg, i + 1))));
        i += 1;
    }
}

/// sixteen steps in ascending order / descending order, as every backend and the table generators use them
pub fn l16(mut m: [u8; 16]) -> [u8; 16] {
    let mut i = 0;
    while i < 16 {
        m = l_step(m, i);
        i += 1;
    }
    m
}
pub fn l16_inv(mut m: [u8; 16]) -> [u8; 16] {
    let mut i = 0;
    while i < 16 {
        m = l_step(m, 15 - i);
        i += 1;
    }
    m
}

// @ob name=c_l16 props=C07,C20 fn=kuznyechik::utils::l_step uses=c_l_step_*,c_ell_tables timeout=600
#[kani::proof]
#[kani::stub(l_step, spec_l_step)]
#[kani::unwind(17)]
fn c_l16() {
    let msg: [u8; 16] = kani::any();
    assert!(kz::eq(&l16(msg), &kz::l(&msg)));
}

// @ob name=c_l16_inv props=C07,C20 fn=kuznyechik::utils::l_step uses=c_l_step_*,c_ell_tables timeout=600
#[kani::proof]
#[kani::stub(l_step, spec_l_step)]
#[kani::unwind(17)]
fn c_l16_inv() {
    let msg: [u8; 16] = kani::any();
    assert!(kz::eq(&l16_inv(msg), &kz::l_inv(&msg)));
}

/// C_1..C_32 of the standard, const-evaluated by rustc from the reference functions
pub static CREF: [[u8; 16]; 32] = {
    let mut t = [[0u8; 16]; 32];
    let mut n = 0;
    while n < 32 {
        t[n] = kz::c(n + 1);
        n += 1;
    }
    t
};

// KEYGEN[n] = C_{n+1} = L(Vec_128(n+1)), all 32 of them
// @ob name=c_keygen props=C07,C20 kind=exhaustive fn=kuznyechik::utils::KEYGEN timeout=600
#[kani::proof]
#[kani::unwind(33)]
fn c_keygen() {
    let mut n = 0;
    while n < 32 {
        assert!(kz::eq(&KEYGEN[n].0, &CREF[n]));
        n += 1;
    }
    assert!(core::mem::align_of::<Align16<[u8; 16]>>() == 16 && core::mem::size_of::<Align16<[u8; 16]>>() == 16);
}

// ... and the const-evaluated constants are what the reference computes when Kani executes it (rustc's const evaluation
// against CBMC's), all 32 in two halves
macro_rules! cref { ($name:ident, $lo:expr, $hi:expr) => {
    #[kani::proof]
    #[kani::unwind(33)]
    fn $name() {
        let mut n = $lo;
        while n < $hi {
            assert!(kz::eq(&CREF[n], &kz::c(n + 1)));
            n += 1;
        }
    }
}; }
// @ob name=c_cref_lo props=C07 kind=exhaustive fn=bcref::kuznyechik::c timeout=600
cref!(c_cref_lo, 0, 16);
// @ob name=c_cref_hi props=C07 kind=exhaustive fn=bcref::kuznyechik::c timeout=600
cref!(c_cref_hi, 16, 32);
/// C_i read from the checked table (1 <= i <= 32), stand-in for bcref::kuznyechik::c in composition obligations
pub fn cref_lookup(i: usize) -> [u8; 16] { CREF[i - 1] }
