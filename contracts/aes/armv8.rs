// Contracts for the ARMv8 Cryptography-Extensions backend of the `aes` crate (aes/src/armv8.rs, armv8/encdec.rs,
// armv8/expand.rs, armv8/hazmat.rs), relative to the software models of the AArch64 intrinsics in
// /verif/intrinsics/aarch64_aes.rs (TRUSTED, transcribed from the Arm ARM pseudocode; stated in every evidence file).
//
// The crate selects this backend only under cfg(target_arch = "aarch64"), and `core::arch::aarch64` does not exist on
// this x86-64 host.  The sources are therefore compiled as SHADOW COPIES (directive @shadow, bin/vplib.py): a copy of
// the real file under a new name in the per-run scratch tree, with the LOGGED textual substitutions listed below and
// nothing else changed; the substitutions only redirect the intrinsics import to the model module
// (`crate::__vp_armv8::a64_models`) and, for armv8.rs, re-point its three `mod` declarations to the shadow copies that
// this module declares.  `#[target_feature(enable = "aes")]` is kept ("aes" is also an x86 feature name).
// Module tree under cfg(kani):
//     crate::__vp_armv8                (this file, child of lib.rs)
//        ::a64_models                  intrinsics/aarch64_aes.rs
//        ::encdec / ::expand / ::hazmat   shadow copies of armv8/{encdec,expand,hazmat}.rs   (hazmat: feature hazmat)
//        ::armv8                       shadow copy of armv8.rs (backends + Aes128/192/256 types), `mod x;` -> `use super::x;`
//        ::encdec_k11 / ::armv8_k11    second copies for the AES-128 multi-block obligations only (see a64_pareb_128)
// Being the parent of encdec / expand, this module sees their `pub(super)` functions; armv8.rs' items that are private
// to it (struct fields) are reached by transmute / byte comparison.  The public Aes128.. types of an aarch64 build are
// autodetect.rs' (a union of these types and the fixsliced ones, selected by a cpufeatures token): NOT covered here.
// The models fix little-endian data (all aarch64-* Rust targets; aarch64_be-* is outside the models).
//
// @module file=aes/src/lib.rs
// @config name=hazmat features=hazmat
// @config name=zeroize features=zeroize
// @crateattr recursion_limit = "2048"
// @shadow src=aes/src/armv8/encdec.rs dst=a64_encdec.rs sub="use core::{arch::aarch64::*, mem};=>use core::mem; use crate::__vp_armv8::a64_models::*;"
// @shadow src=aes/src/armv8/expand.rs dst=a64_expand.rs sub="use core::{arch::aarch64::*, mem, slice};=>use core::{mem, slice}; use crate::__vp_armv8::a64_models::*;"
// @shadow src=aes/src/armv8/hazmat.rs dst=a64_hazmat.rs sub="use core::arch::aarch64::*;=>use crate::__vp_armv8::a64_models::*;"
// @shadow src=aes/src/armv8.rs dst=a64_armv8.rs sub="pub(crate) mod hazmat;=>pub(crate) use super::hazmat;" sub="mod encdec;=>use super::encdec;" sub="mod expand;=>use super::expand;" sub="mod test_expand;=>mod a64_no_test_expand {}"
// Second pair of copies, used ONLY by the AES-128 multi-block obligations a64_par??_128 / a64_blk???_128 (see there): as
// above, plus the constant indices keys[11] / keys[12] of encrypt_par / decrypt_par (dead for KEYS = 11) written
// `keys[core::hint::black_box(11)]` / `keys[core::hint::black_box(12)]`.
// @shadow src=aes/src/armv8/encdec.rs dst=a64_encdec_k11.rs sub="use core::{arch::aarch64::*, mem};=>use core::mem; use crate::__vp_armv8::a64_models::*;" sub="keys[11]=>keys[core::hint::black_box(11)]" sub="keys[12]=>keys[core::hint::black_box(12)]"
// @shadow src=aes/src/armv8.rs dst=a64_armv8_k11.rs sub="pub(crate) mod hazmat;=>pub(crate) use super::hazmat;" sub="mod encdec;=>use super::encdec_k11 as encdec;" sub="mod expand;=>use super::expand;" sub="mod test_expand;=>mod a64_no_test_expand {}"
use bcref::aes as fips;
use cipher::{Array, inout::InOut};
use crate::Block;
include!("@VERIF@/intrinsics/aarch64_aes.rs");
use a64_models::*;

#[path = "armv8/a64_encdec.rs"]
pub(crate) mod encdec;
#[path = "armv8/a64_expand.rs"]
pub(crate) mod expand;
#[cfg(feature = "hazmat")]
#[path = "armv8/a64_hazmat.rs"]
pub(crate) mod hazmat;
#[path = "a64_armv8.rs"]
pub(crate) mod armv8;
#[path = "armv8/a64_encdec_k11.rs"]
pub(crate) mod encdec_k11;
#[path = "a64_armv8_k11.rs"]
pub(crate) mod armv8_k11;

fn keys_from<const N: usize>(rk: &[[u8; 16]; N]) -> [uint8x16_t; N] {
    let mut keys = [uint8x16_t([0u8; 16]); N];
    let mut i = 0;
    while i < N {
        keys[i] = uint8x16_t(rk[i]);
        i += 1;
    }
    keys
}
fn eq16(a: &[u8; 16], b: &[u8; 16]) -> bool {
    let mut ok = true;
    let mut i = 0;
    while i < 16 {
        ok &= a[i] == b[i];
        i += 1;
    }
    ok
}

// ---------------------------------------------------------------------------------------------------------------
// single-block functions, for EVERY value of the round keys and of the block.
// armv8 `encrypt` is  [AESE(.,k[r]); AESMC] for r = 0..N-3, AESE(., k[N-2]), EOR k[N-1]  == FIPS-197 Cipher (5.1)
macro_rules! a64_enc {
    ($name:ident, $n:expr) => {
        #[kani::proof]
        #[kani::unwind(17)]
        fn $name() {
            let rk: [[u8; 16]; $n] = kani::any();
            let keys = keys_from(&rk);
            let blk: [u8; 16] = kani::any();
            let inb: Block = Array(blk);
            let mut outb = Block::default();
            unsafe { encdec::encrypt::<$n>(&keys, InOut::from((&inb, &mut outb))); }
            assert!(eq16(&outb.0, &fips::cipher::<$n>(&rk, &blk)));
            assert!(eq16(&inb.0, &blk));
        }
    };
}
// armv8 `decrypt` is  [AESD(.,k[r]); AESIMC] for r = 0..N-3, AESD(., k[N-2]), EOR k[N-1]  == FIPS-197 EqInvCipher
// (5.3.5) with the round keys stored in order of use (k[i] = dk[N-1-i], dk in FIPS-197 indexing)
macro_rules! a64_dec {
    ($name:ident, $n:expr) => {
        #[kani::proof]
        #[kani::unwind(17)]
        fn $name() {
            let dk: [[u8; 16]; $n] = kani::any();
            let mut rev = [[0u8; 16]; $n];
            let mut i = 0;
            while i < $n {
                rev[i] = dk[$n - 1 - i];
                i += 1;
            }
            let keys = keys_from(&rev);
            let blk: [u8; 16] = kani::any();
            let inb: Block = Array(blk);
            let mut outb = Block::default();
            unsafe { encdec::decrypt::<$n>(&keys, InOut::from((&inb, &mut outb))); }
            assert!(eq16(&outb.0, &fips::eq_inv_cipher::<$n>(&dk, &blk)));
            assert!(eq16(&inb.0, &blk));
        }
    };
}
// @ob name=a64_encrypt_11 props=C02,C20 fn=aes::armv8::encdec::encrypt tier=thorough timeout=3600
a64_enc!(a64_encrypt_11, 11);
// @ob name=a64_encrypt_13 props=C02,C20 fn=aes::armv8::encdec::encrypt tier=thorough timeout=3600
a64_enc!(a64_encrypt_13, 13);
// @ob name=a64_encrypt_15 props=C02,C20 fn=aes::armv8::encdec::encrypt tier=thorough timeout=3600
a64_enc!(a64_encrypt_15, 15);
// @ob name=a64_decrypt_11 props=C02,C20 fn=aes::armv8::encdec::decrypt tier=thorough timeout=3600
a64_dec!(a64_decrypt_11, 11);
// @ob name=a64_decrypt_13 props=C02,C20 fn=aes::armv8::encdec::decrypt tier=thorough timeout=3600
a64_dec!(a64_decrypt_13, 13);
// @ob name=a64_decrypt_15 props=C02,C20 fn=aes::armv8::encdec::decrypt tier=thorough timeout=3600
a64_dec!(a64_decrypt_15, 15);

// ---- inv_expanded_keys == key schedule of the Equivalent Inverse Cipher (reversed), for every round-key set
macro_rules! a64_inv_keys {
    ($name:ident, $n:expr) => {
        #[kani::proof]
        #[kani::unwind(17)]
        fn $name() {
            let rk: [[u8; 16]; $n] = kani::any();
            let keys = keys_from(&rk);
            let inv = unsafe { expand::inv_expanded_keys::<$n>(&keys) };
            let dk = fips::eq_inv_keys::<$n>(&rk);
            let mut i = 0;
            while i < $n {
                assert!(eq16(&inv[i].0, &dk[$n - 1 - i]));
                i += 1;
            }
        }
    };
}
// @ob name=a64_inv_keys_11 props=C02,C12,C20 fn=aes::armv8::expand::inv_expanded_keys timeout=600
a64_inv_keys!(a64_inv_keys_11, 11);
// @ob name=a64_inv_keys_13 props=C02,C12,C20 fn=aes::armv8::expand::inv_expanded_keys timeout=600
a64_inv_keys!(a64_inv_keys_13, 13);
// @ob name=a64_inv_keys_15 props=C02,C12,C20 fn=aes::armv8::expand::inv_expanded_keys timeout=600
a64_inv_keys!(a64_inv_keys_15, 15);

// ---- expand_key::<L, N> == FIPS-197 KeyExpansion, for every key
macro_rules! a64_expand {
    ($name:ident, $klen:expr, $n:expr) => {
        #[kani::proof]
        #[kani::unwind(62)]
        fn $name() {
            let key: [u8; $klen] = kani::any();
            let keys: [uint8x16_t; $n] = unsafe { expand::expand_key::<$klen, $n>(&key) };
            let rk = fips::key_expansion::<$klen, $n>(&key);
            let mut i = 0;
            while i < $n {
                assert!(eq16(&keys[i].0, &rk[i]));
                i += 1;
            }
        }
    };
}
// @ob name=a64_expand_128 props=C02,C20 fn=aes::armv8::expand::expand_key,aes::armv8::expand::sub_word timeout=900
a64_expand!(a64_expand_128, 16, 11);
// @ob name=a64_expand_192 props=C02,C20 fn=aes::armv8::expand::expand_key,aes::armv8::expand::sub_word timeout=900
a64_expand!(a64_expand_192, 24, 13);
// @ob name=a64_expand_256 props=C02,C20 fn=aes::armv8::expand::expand_key,aes::armv8::expand::sub_word timeout=900
a64_expand!(a64_expand_256, 32, 15);

// ---------------------------------------------------------------------------------------------------------------
// FIPS-197 Appendix C.1-C.3 example vectors through the shadowed public types of armv8.rs (KeyInit::new = expand_key +
// inv_expanded_keys, encrypt_block / decrypt_block through the backends) over the instruction models: concrete
// execution, anchors code + models against the standard's published values independently of bcref.
fn kat<C: cipher::KeyInit + cipher::BlockCipherEncrypt + cipher::BlockCipherDecrypt + cipher::BlockSizeUser<BlockSize = cipher::consts::U16>>(key: &[u8], ct: [u8; 16]) {
    let c = <C as cipher::KeyInit>::new_from_slice(key).unwrap();
    let mut pt = [0u8; 16];
    let mut i = 0;
    while i < 16 {
        pt[i] = (i as u8) * 0x11;
        i += 1;
    }
    let mut b: Block = Array(pt);
    cipher::BlockCipherEncrypt::encrypt_block(&c, &mut b);
    assert!(eq16(&b.0, &ct));
    cipher::BlockCipherDecrypt::decrypt_block(&c, &mut b);
    assert!(eq16(&b.0, &pt));
}
// @ob name=a64_kat props=C02,C20 kind=exhaustive bound="the three FIPS-197 Appendix C vectors (concrete)" fn=aes::armv8::Aes128,aes::armv8::Aes192,aes::armv8::Aes256 timeout=900
#[kani::proof]
#[kani::unwind(62)]
fn a64_kat() {
    let mut key = [0u8; 32];
    let mut i = 0;
    while i < 32 {
        key[i] = i as u8;
        i += 1;
    }
    kat::<armv8::Aes128>(&key[..16], [0x69, 0xc4, 0xe0, 0xd8, 0x6a, 0x7b, 0x04, 0x30, 0xd8, 0xcd, 0xb7, 0x80, 0x70, 0xb4, 0xc5, 0x5a]);
    kat::<armv8::Aes192>(&key[..24], [0xdd, 0xa9, 0x7c, 0xa4, 0x86, 0x4c, 0xdf, 0xe0, 0x6e, 0xaf, 0x70, 0xa0, 0xec, 0x0d, 0x71, 0x91]);
    kat::<armv8::Aes256>(&key[..32], [0x8e, 0xa2, 0xb7, 0xca, 0x51, 0x67, 0x45, 0xbf, 0xea, 0xfc, 0x49, 0x90, 0x4b, 0x49, 0x60, 0x89]);
}

// ---------------------------------------------------------------------------------------------------------------
// C04: encrypt_par / decrypt_par (ParBlocksSize = 21 / 19 / 17 for AES-128 / 192 / 256, taken from the real
// `impl_backends!` instantiations in armv8.rs) are lane-wise the single-block functions, through the real backend trait
// methods `encrypt_par_blocks` / `encrypt_block` of the shadowed armv8.rs, for EVERY value of the round keys and of all
// PAR blocks, buffer-to-buffer (guard blocks around the output, input compared afterwards) and in place.
// The four AES instructions are replaced by cheap register-local stand-ins (p_* below): any register-local function
// exposes a lane mix-up, a skipped or repeated block, a wrong key index or a read from the wrong buffer; what the
// instructions compute is the business of a64_encrypt_* / a64_decrypt_*.
//
// Full-width stand-ins s_* (used by a64_hz_lanes and a64_conv_*): AESE / AESD = byte rotation of the state xor the whole
// key xor a constant, AESMC / AESIMC = other byte rotations.
fn rot_xor(a: &[u8; 16], k: &[u8; 16], r: usize, c: u8) -> [u8; 16] {
    let mut o = [0u8; 16];
    let mut i = 0;
    while i < 16 {
        o[i] = a[(i + r) % 16] ^ k[i] ^ c;
        i += 1;
    }
    o
}
unsafe fn s_aese(a: uint8x16_t, k: uint8x16_t) -> uint8x16_t { uint8x16_t(rot_xor(&a.0, &k.0, 3, 0x1d)) }
unsafe fn s_aesd(a: uint8x16_t, k: uint8x16_t) -> uint8x16_t { uint8x16_t(rot_xor(&a.0, &k.0, 5, 0xa7)) }
unsafe fn s_aesmc(a: uint8x16_t) -> uint8x16_t { uint8x16_t(rot_xor(&a.0, &[0u8; 16], 1, 0x00)) }
unsafe fn s_aesimc(a: uint8x16_t) -> uint8x16_t { uint8x16_t(rot_xor(&a.0, &[0u8; 16], 7, 0x00)) }
// Shallow variants for the PAR-wide harnesses (two copies of a 14-deep full-width xor network per block made the solver
// crawl): AESE rotates the register by one byte and xors ONE key byte into the byte that arrives at position 15, AESD
// rotates the other way and xors into position 0, so that after the at most 14 rounds every state byte has met at most
// one key byte of one round (which one depends on the round's position in the sequence); AESMC / AESIMC flip one byte.
// Still register-local, still sensitive to which register, which key register and how many rounds in which order.
unsafe fn p_aese(a: uint8x16_t, k: uint8x16_t) -> uint8x16_t {
    let mut o = rot_xor(&a.0, &[0u8; 16], 1, 0x00);
    o[15] ^= k.0[0] ^ 0x1d;
    uint8x16_t(o)
}
unsafe fn p_aesd(a: uint8x16_t, k: uint8x16_t) -> uint8x16_t {
    let mut o = rot_xor(&a.0, &[0u8; 16], 15, 0x00);
    o[0] ^= k.0[3] ^ 0xa7;
    uint8x16_t(o)
}
unsafe fn p_aesmc(a: uint8x16_t) -> uint8x16_t { let mut o = a.0; o[7] = !o[7]; uint8x16_t(o) }
unsafe fn p_aesimc(a: uint8x16_t) -> uint8x16_t { let mut o = a.0; o[9] = !o[9]; uint8x16_t(o) }
fn any_keys<const N: usize>() -> [uint8x16_t; N] {
    let rk: [[u8; 16]; N] = kani::any();
    keys_from(&rk)
}

// One harness per direction and buffer mode (four per key size; together they were too slow):
//   $b2b: buffer to buffer, guard blocks around the output, input compared afterwards;   $inp: in place.
macro_rules! a64_par {
    ($b2b:ident, $inp:ident, $m:ident, $back:ident, $one:ident, $many:ident, $nk:expr, $par:expr) => {
        #[kani::proof]
        #[kani::stub(a64_models::vaeseq_u8, p_aese)]
        #[kani::stub(a64_models::vaesdq_u8, p_aesd)]
        #[kani::stub(a64_models::vaesmcq_u8, p_aesmc)]
        #[kani::stub(a64_models::vaesimcq_u8, p_aesimc)]
        #[kani::unwind(24)]
        fn $b2b() {
            use cipher::{BlockCipherDecBackend, BlockCipherEncBackend, ParBlocks, typenum::Unsigned};
            assert!(<<$m::$back as cipher::ParBlocksSizeUser>::ParBlocksSize as Unsigned>::USIZE == $par);
            // backend with arbitrary round keys (private field `keys`: a single-field struct over the key array)
            let k: [uint8x16_t; $nk] = any_keys();
            let c: $m::$back = unsafe { core::mem::transmute(k) };
            let inp: [[u8; 16]; $par] = kani::any();
            let mut src: ParBlocks<$m::$back> = Default::default();
            let mut i = 0;
            while i < $par { src[i] = Array(inp[i]); i += 1; }
            let g: [u8; 16] = kani::any();
            let mut buf = [Array(g); $par + 2];
            {
                let dst: &mut ParBlocks<$m::$back> = (&mut buf[1..$par + 1]).try_into().unwrap();
                c.$many(InOut::from((&src, dst)));
            }
            assert!(eq16(&buf[0].0, &g) && eq16(&buf[$par + 1].0, &g));
            let mut i = 0;
            while i < $par {
                let mut b: Block = Array(inp[i]);
                c.$one(InOut::from(&mut b));
                assert!(eq16(&buf[i + 1].0, &b.0) && eq16(&src[i].0, &inp[i]));
                i += 1;
            }
        }
        #[kani::proof]
        #[kani::stub(a64_models::vaeseq_u8, p_aese)]
        #[kani::stub(a64_models::vaesdq_u8, p_aesd)]
        #[kani::stub(a64_models::vaesmcq_u8, p_aesmc)]
        #[kani::stub(a64_models::vaesimcq_u8, p_aesimc)]
        #[kani::unwind(24)]
        fn $inp() {
            use cipher::{BlockCipherDecBackend, BlockCipherEncBackend, ParBlocks};
            let k: [uint8x16_t; $nk] = any_keys();
            let c: $m::$back = unsafe { core::mem::transmute(k) };
            let inp: [[u8; 16]; $par] = kani::any();
            let mut x: ParBlocks<$m::$back> = Default::default();
            let mut i = 0;
            while i < $par { x[i] = Array(inp[i]); i += 1; }
            c.$many(InOut::from(&mut x));
            let mut i = 0;
            while i < $par {
                let mut b: Block = Array(inp[i]);
                c.$one(InOut::from(&mut b));
                assert!(eq16(&x[i].0, &b.0));
                i += 1;
            }
        }
    };
}
// AES-128 (KEYS = 11): `encrypt_par::<11, _>` contains `keys[11]` and `keys[12]` in a branch that is dead for KEYS = 11;
// Kani 0.68 aborts with an internal compiler error (place.rs: `length >= min_length`) when it compiles a CONSTANT index
// beyond the length of the array, even in dead code (same defect as noted in par_ni.rs; rustc's GVN pass turns any
// index it can evaluate into such a constant index).  The AES-128 obligations therefore run on the copies
// a64_encdec_k11.rs / a64_armv8_k11.rs, where these two indices are written `keys[core::hint::black_box(11)]` /
// `keys[core::hint::black_box(12)]` (same value, opaque to the optimiser; logged substitutions; all four occurrences
// are inside `if KEYS == 15 { .. }`).
// @ob name=a64_pareb_128 tier=thorough props=C04,C02,C03,C20 note="on shadow copies with keys[11], keys[12] written keys[black_box(11)], keys[black_box(12)] (Kani ICE on a constant out-of-range index in dead code)" fn=aes::armv8::encdec::encrypt_par,aes::armv8::Aes128BackEnc::encrypt_par_blocks,aes::armv8::Aes128BackEnc::encrypt_block timeout=3600
// @ob name=a64_parei_128 tier=thorough props=C04,C02,C03,C20 note="on shadow copies with keys[11], keys[12] written keys[black_box(11)], keys[black_box(12)] (Kani ICE on a constant out-of-range index in dead code)" fn=aes::armv8::encdec::encrypt_par,aes::armv8::Aes128BackEnc::encrypt_par_blocks,aes::armv8::Aes128BackEnc::encrypt_block timeout=3600
a64_par!(a64_pareb_128, a64_parei_128, armv8_k11, Aes128BackEnc, encrypt_block, encrypt_par_blocks, 11, 21);
// @ob name=a64_pardb_128 tier=thorough props=C04,C02,C03,C20 note="on shadow copies with keys[11], keys[12] written keys[black_box(11)], keys[black_box(12)] (Kani ICE on a constant out-of-range index in dead code)" fn=aes::armv8::encdec::decrypt_par,aes::armv8::Aes128BackDec::decrypt_par_blocks,aes::armv8::Aes128BackDec::decrypt_block timeout=3600
// @ob name=a64_pardi_128 tier=thorough props=C04,C02,C03,C20 note="on shadow copies with keys[11], keys[12] written keys[black_box(11)], keys[black_box(12)] (Kani ICE on a constant out-of-range index in dead code)" fn=aes::armv8::encdec::decrypt_par,aes::armv8::Aes128BackDec::decrypt_par_blocks,aes::armv8::Aes128BackDec::decrypt_block timeout=3600
a64_par!(a64_pardb_128, a64_pardi_128, armv8_k11, Aes128BackDec, decrypt_block, decrypt_par_blocks, 11, 21);
// @ob name=a64_pareb_192 tier=thorough props=C04,C02,C03,C20 fn=aes::armv8::encdec::encrypt_par,aes::armv8::Aes192BackEnc::encrypt_par_blocks,aes::armv8::Aes192BackEnc::encrypt_block timeout=3600
// @ob name=a64_parei_192 tier=thorough props=C04,C02,C03,C20 fn=aes::armv8::encdec::encrypt_par,aes::armv8::Aes192BackEnc::encrypt_par_blocks,aes::armv8::Aes192BackEnc::encrypt_block timeout=3600
a64_par!(a64_pareb_192, a64_parei_192, armv8, Aes192BackEnc, encrypt_block, encrypt_par_blocks, 13, 19);
// @ob name=a64_pardb_192 tier=thorough props=C04,C02,C03,C20 fn=aes::armv8::encdec::decrypt_par,aes::armv8::Aes192BackDec::decrypt_par_blocks,aes::armv8::Aes192BackDec::decrypt_block timeout=3600
// @ob name=a64_pardi_192 tier=thorough props=C04,C02,C03,C20 fn=aes::armv8::encdec::decrypt_par,aes::armv8::Aes192BackDec::decrypt_par_blocks,aes::armv8::Aes192BackDec::decrypt_block timeout=3600
a64_par!(a64_pardb_192, a64_pardi_192, armv8, Aes192BackDec, decrypt_block, decrypt_par_blocks, 13, 19);
// @ob name=a64_pareb_256 props=C04,C02,C03,C20 fn=aes::armv8::encdec::encrypt_par,aes::armv8::Aes256BackEnc::encrypt_par_blocks,aes::armv8::Aes256BackEnc::encrypt_block timeout=1800
// @ob name=a64_parei_256 props=C04,C02,C03,C20 fn=aes::armv8::encdec::encrypt_par,aes::armv8::Aes256BackEnc::encrypt_par_blocks,aes::armv8::Aes256BackEnc::encrypt_block timeout=1800
a64_par!(a64_pareb_256, a64_parei_256, armv8, Aes256BackEnc, encrypt_block, encrypt_par_blocks, 15, 17);
// @ob name=a64_pardb_256 props=C04,C02,C03,C20 fn=aes::armv8::encdec::decrypt_par,aes::armv8::Aes256BackDec::decrypt_par_blocks,aes::armv8::Aes256BackDec::decrypt_block timeout=1800
// @ob name=a64_pardi_256 props=C04,C02,C03,C20 fn=aes::armv8::encdec::decrypt_par,aes::armv8::Aes256BackDec::decrypt_par_blocks,aes::armv8::Aes256BackDec::decrypt_block timeout=1800
a64_par!(a64_pardb_256, a64_pardi_256, armv8, Aes256BackDec, decrypt_block, decrypt_par_blocks, 15, 17);

// Through the real `cipher` multi-block API on the shadowed encrypt-only / decrypt-only types, n = PAR + 1 blocks (one
// full parallel batch through encrypt_par / decrypt_par, then one tail block through encrypt / decrypt): in place and
// buffer to buffer with guard blocks.  Block contents are distinct concrete tags (the code never branches on contents; all
// contents are covered by a64_par*), round keys symbolic, stand-ins p_* as above.
fn tagged<const N: usize>() -> [[u8; 16]; N] {
    let mut b = [[0u8; 16]; N];
    let mut i = 0;
    while i < N {
        let mut j = 0;
        while j < 16 {
            b[i][j] = (i as u8).wrapping_mul(16).wrapping_add(j as u8) ^ 0xc3;
            j += 1;
        }
        i += 1;
    }
    b
}
macro_rules! a64_blocks {
    ($name:ident, $m:ident, $ty:ident, $tr:ident, $one:ident, $many:ident, $b2b:ident, $nk:expr, $n:expr) => {
        #[kani::proof]
        #[kani::stub(a64_models::vaeseq_u8, p_aese)]
        #[kani::stub(a64_models::vaesdq_u8, p_aesd)]
        #[kani::stub(a64_models::vaesmcq_u8, p_aesmc)]
        #[kani::stub(a64_models::vaesimcq_u8, p_aesimc)]
        #[kani::unwind(26)]
        fn $name() {
            let k: [uint8x16_t; $nk] = any_keys();
            let c: $m::$ty = unsafe { core::mem::transmute(k) };
            let inp: [[u8; 16]; $n] = tagged::<$n>();
            let mut want = [[0u8; 16]; $n];
            let mut i = 0;
            while i < $n {
                let mut b: Block = Array(inp[i]);
                cipher::$tr::$one(&c, &mut b);
                want[i] = b.0;
                i += 1;
            }
            let mut blocks = [Array([0u8; 16]); $n];
            let mut i = 0;
            while i < $n { blocks[i] = Array(inp[i]); i += 1; }
            let src = blocks;
            cipher::$tr::$many(&c, &mut blocks);
            let mut i = 0;
            while i < $n { assert!(eq16(&blocks[i].0, &want[i])); i += 1; }
            let g: [u8; 16] = kani::any();
            let mut dst = [Array(g); $n + 2];
            cipher::$tr::$b2b(&c, &src, &mut dst[1..$n + 1]).unwrap();
            assert!(eq16(&dst[0].0, &g) && eq16(&dst[$n + 1].0, &g));
            let mut i = 0;
            while i < $n { assert!(eq16(&dst[i + 1].0, &want[i]) && eq16(&src[i].0, &inp[i])); i += 1; }
        }
    };
}
// @ob name=a64_blkenc_128 tier=thorough props=C04,C02,C03,C20 kind=bounded bound="n = 22 blocks (PAR + 1), tagged block contents, symbolic round keys" note="on the k11 shadow copies, see a64_pareb_128" fn=aes::armv8::Aes128Enc::encrypt_with_backend,aes::armv8::Aes128BackEnc::encrypt_par_blocks,aes::armv8::Aes128BackEnc::encrypt_block timeout=3600
a64_blocks!(a64_blkenc_128, armv8_k11, Aes128Enc, BlockCipherEncrypt, encrypt_block, encrypt_blocks, encrypt_blocks_b2b, 11, 22);
// @ob name=a64_blkdec_128 tier=thorough props=C04,C02,C03,C20 kind=bounded bound="n = 22 blocks (PAR + 1), tagged block contents, symbolic round keys" note="on the k11 shadow copies, see a64_pareb_128" fn=aes::armv8::Aes128Dec::decrypt_with_backend,aes::armv8::Aes128BackDec::decrypt_par_blocks,aes::armv8::Aes128BackDec::decrypt_block timeout=3600
a64_blocks!(a64_blkdec_128, armv8_k11, Aes128Dec, BlockCipherDecrypt, decrypt_block, decrypt_blocks, decrypt_blocks_b2b, 11, 22);
// @ob name=a64_blkenc_192 tier=thorough props=C04,C02,C03,C20 kind=bounded bound="n = 20 blocks (PAR + 1), tagged block contents, symbolic round keys" fn=aes::armv8::Aes192Enc::encrypt_with_backend,aes::armv8::Aes192BackEnc::encrypt_par_blocks,aes::armv8::Aes192BackEnc::encrypt_block timeout=3600
a64_blocks!(a64_blkenc_192, armv8, Aes192Enc, BlockCipherEncrypt, encrypt_block, encrypt_blocks, encrypt_blocks_b2b, 13, 20);
// @ob name=a64_blkdec_192 tier=thorough props=C04,C02,C03,C20 kind=bounded bound="n = 20 blocks (PAR + 1), tagged block contents, symbolic round keys" fn=aes::armv8::Aes192Dec::decrypt_with_backend,aes::armv8::Aes192BackDec::decrypt_par_blocks,aes::armv8::Aes192BackDec::decrypt_block timeout=3600
a64_blocks!(a64_blkdec_192, armv8, Aes192Dec, BlockCipherDecrypt, decrypt_block, decrypt_blocks, decrypt_blocks_b2b, 13, 20);
// @ob name=a64_blkenc_256 tier=thorough props=C04,C02,C03,C20 kind=bounded bound="n = 18 blocks (PAR + 1), tagged block contents, symbolic round keys" fn=aes::armv8::Aes256Enc::encrypt_with_backend,aes::armv8::Aes256BackEnc::encrypt_par_blocks,aes::armv8::Aes256BackEnc::encrypt_block timeout=3600
a64_blocks!(a64_blkenc_256, armv8, Aes256Enc, BlockCipherEncrypt, encrypt_block, encrypt_blocks, encrypt_blocks_b2b, 15, 18);
// @ob name=a64_blkdec_256 tier=thorough props=C04,C02,C03,C20 kind=bounded bound="n = 18 blocks (PAR + 1), tagged block contents, symbolic round keys" fn=aes::armv8::Aes256Dec::decrypt_with_backend,aes::armv8::Aes256BackDec::decrypt_par_blocks,aes::armv8::Aes256BackDec::decrypt_block timeout=3600
a64_blocks!(a64_blkdec_256, armv8, Aes256Dec, BlockCipherDecrypt, decrypt_block, decrypt_blocks, decrypt_blocks_b2b, 15, 18);

// ---------------------------------------------------------------------------------------------------------------
// C17: the hazmat round functions (aes/src/armv8/hazmat.rs, feature hazmat) == FIPS-197 round transformations
#[cfg(feature = "hazmat")]
mod hz {
    use super::{a64_models, eq16, fips, hazmat::*, s_aesd, s_aese, s_aesimc, s_aesmc};
    use crate::hazmat::Block8;
    use cipher::Array;

    // @ob name=a64_hz_single props=C17,C20 cfg=hazmat fn=aes::armv8::hazmat::cipher_round,aes::armv8::hazmat::equiv_inv_cipher_round,aes::armv8::hazmat::mix_columns,aes::armv8::hazmat::inv_mix_columns timeout=900
    #[kani::proof]
    #[kani::unwind(20)]
    fn a64_hz_single() {
        let b: [u8; 16] = kani::any();
        let k: [u8; 16] = kani::any();
        let key = Array(k);
        let mut x = Array(b);
        unsafe { cipher_round(&mut x, &key); }
        assert!(eq16(&x.0, &fips::cipher_round(&b, &k)));
        let mut x = Array(b);
        unsafe { equiv_inv_cipher_round(&mut x, &key); }
        assert!(eq16(&x.0, &fips::equiv_inv_cipher_round(&b, &k)));
        let mut x = Array(b);
        unsafe { mix_columns(&mut x); }
        assert!(eq16(&x.0, &fips::mix_columns(&b)));
        let mut x = Array(b);
        unsafe { inv_mix_columns(&mut x); }
        assert!(eq16(&x.0, &fips::inv_mix_columns(&b)));
        assert!(eq16(&key.0, &k));
    }

    fn block8(b: &[[u8; 16]; 8]) -> Block8 {
        let mut o = Block8::default();
        let mut i = 0;
        while i < 8 {
            o[i] = Array(b[i]);
            i += 1;
        }
        o
    }
    // 8-block forms == eight single FIPS-197 rounds, full instruction models
    // @ob name=a64_hz_par8_enc props=C17,C04,C20 cfg=hazmat fn=aes::armv8::hazmat::cipher_round_par timeout=1800
    #[kani::proof]
    #[kani::unwind(20)]
    fn a64_hz_par8_enc() {
        let b: [[u8; 16]; 8] = kani::any();
        let k: [[u8; 16]; 8] = kani::any();
        let keys = block8(&k);
        let mut enc = block8(&b);
        unsafe { cipher_round_par(&mut enc, &keys); }
        let mut j = 0;
        while j < 8 {
            assert!(eq16(&enc[j].0, &fips::cipher_round(&b[j], &k[j])));
            assert!(eq16(&keys[j].0, &k[j]));
            j += 1;
        }
    }
    // @ob name=a64_hz_par8_dec props=C17,C04,C20 cfg=hazmat tier=thorough fn=aes::armv8::hazmat::equiv_inv_cipher_round_par timeout=1800
    #[kani::proof]
    #[kani::unwind(20)]
    fn a64_hz_par8_dec() {
        let b: [[u8; 16]; 8] = kani::any();
        let k: [[u8; 16]; 8] = kani::any();
        let keys = block8(&k);
        let mut dec = block8(&b);
        unsafe { equiv_inv_cipher_round_par(&mut dec, &keys); }
        let mut j = 0;
        while j < 8 {
            assert!(eq16(&dec[j].0, &fips::equiv_inv_cipher_round(&b[j], &k[j])));
            assert!(eq16(&keys[j].0, &k[j]));
            j += 1;
        }
    }

    // Plumbing form: the 8-block functions == eight calls of the single-block functions, with the AES instructions
    // replaced by the register-local stand-ins s_* above (lane j must combine blocks[j] with round_keys[j]).
    // @ob name=a64_hz_lanes props=C17,C04,C20 cfg=hazmat fn=aes::armv8::hazmat::cipher_round_par,aes::armv8::hazmat::equiv_inv_cipher_round_par uses=a64_hz_single timeout=600
    #[kani::proof]
    #[kani::stub(a64_models::vaeseq_u8, s_aese)]
    #[kani::stub(a64_models::vaesdq_u8, s_aesd)]
    #[kani::stub(a64_models::vaesmcq_u8, s_aesmc)]
    #[kani::stub(a64_models::vaesimcq_u8, s_aesimc)]
    #[kani::unwind(20)]
    fn a64_hz_lanes() {
        let b: [[u8; 16]; 8] = kani::any();
        let k: [[u8; 16]; 8] = kani::any();
        let keys = block8(&k);
        let mut enc = block8(&b);
        unsafe { cipher_round_par(&mut enc, &keys); }
        let mut dec = block8(&b);
        unsafe { equiv_inv_cipher_round_par(&mut dec, &keys); }
        let mut j = 0;
        while j < 8 {
            let key = Array(k[j]);
            let mut x = Array(b[j]);
            unsafe { cipher_round(&mut x, &key); }
            assert!(eq16(&enc[j].0, &x.0));
            let mut x = Array(b[j]);
            unsafe { equiv_inv_cipher_round(&mut x, &key); }
            assert!(eq16(&dec[j].0, &x.0));
            assert!(eq16(&keys[j].0, &k[j]));
            j += 1;
        }
    }
}

// ---------------------------------------------------------------------------------------------------------------
// The nine types generated by `define_aes_impl!` in armv8.rs (on aarch64 they are the `intrinsics` arm of
// autodetect.rs' public types): C12 constructors / conversions / clones, C19 Debug / AlgorithmName, C16 zeroize.
// Their fields are private to the shadowed module, so instances are compared by their bytes (same type: same layout) and
// by what they compute; arbitrary states are built by transmuting symbolic round keys.
mod ty {
    use super::{a64_models, a64_models::uint8x16_t, armv8, encdec, eq16, expand, s_aesd, s_aese, s_aesimc, s_aesmc, Block};
    use cipher::{Array, KeyInit, inout::InOut};
    include!("@VERIF@/contracts/_common/common.rs");

    /// injective stand-in for expand_key in the plumbing obligations (its semantics: a64_expand_*): the key bytes, in
    /// order, repeated to the length of the schedule, xor a position tag
    unsafe fn st_expand<const L: usize, const N: usize>(key: &[u8; L]) -> [uint8x16_t; N] {
        let mut r = [uint8x16_t([0u8; 16]); N];
        let mut i = 0;
        while i < N {
            let mut j = 0;
            while j < 16 {
                r[i].0[j] = key[(16 * i + j) % L] ^ ((16 * i + j) / L) as u8;
                j += 1;
            }
            i += 1;
        }
        r
    }
    unsafe fn bytes_eq<T>(a: *const T, b: *const T) -> bool {
        let n = core::mem::size_of::<T>();
        let (p, q) = (a as *const u8, b as *const u8);
        let mut ok = true;
        let mut i = 0;
        while i < n {
            ok &= unsafe { *p.add(i) == *q.add(i) };
            i += 1;
        }
        ok
    }
    fn enc_of<C: cipher::BlockCipherEncrypt + cipher::BlockSizeUser<BlockSize = cipher::consts::U16>>(c: &C, b: &[u8; 16]) -> [u8; 16] {
        let mut x: Block = Array(*b);
        cipher::BlockCipherEncrypt::encrypt_block(c, &mut x);
        x.0
    }
    fn dec_of<C: cipher::BlockCipherDecrypt + cipher::BlockSizeUser<BlockSize = cipher::consts::U16>>(c: &C, b: &[u8; 16]) -> [u8; 16] {
        let mut x: Block = Array(*b);
        cipher::BlockCipherDecrypt::decrypt_block(c, &mut x);
        x.0
    }

    macro_rules! a64_types {
        ($conv:ident, $names:ident, $zero:ident, $name:ident, $enc:ident, $dec:ident, $kl:expr, $n:expr, $sn:expr, $sne:expr, $snd:expr) => {
            // C12 (+ C02 composition): every way of building a cipher value holds expand_key(key) /
            // inv_expanded_keys(expand_key(key)) and computes encdec::encrypt / decrypt with them.  expand_key and the
            // four AES instructions are stand-ins (their semantics: a64_expand_*, a64_inv_keys_*, a64_encrypt_*, ...).
            #[kani::proof]
            #[kani::stub(expand::expand_key, st_expand)]
            #[kani::stub(a64_models::vaeseq_u8, s_aese)]
            #[kani::stub(a64_models::vaesdq_u8, s_aesd)]
            #[kani::stub(a64_models::vaesmcq_u8, s_aesmc)]
            #[kani::stub(a64_models::vaesimcq_u8, s_aesimc)]
            #[kani::unwind(500)]
            fn $conv() {
                let k: [u8; $kl] = kani::any();
                let key = Array(k);
                let blk: [u8; 16] = kani::any();
                // the backend functions on the key material the constructors are supposed to hold
                let ek: [uint8x16_t; $n] = unsafe { st_expand::<$kl, $n>(&k) };
                let dk: [uint8x16_t; $n] = unsafe { expand::inv_expanded_keys::<$n>(&ek) };
                let mut want_e: Block = Array(blk);
                unsafe { encdec::encrypt::<$n>(&ek, InOut::from(&mut want_e)); }
                let mut want_d: Block = Array(blk);
                unsafe { encdec::decrypt::<$n>(&dk, InOut::from(&mut want_d)); }

                let full = armv8::$name::new(&key);
                let enc = armv8::$enc::new(&key);
                let dec = armv8::$dec::new(&key);
                assert!(eq16(&enc_of(&full, &blk), &want_e.0) && eq16(&dec_of(&full, &blk), &want_d.0));
                assert!(eq16(&enc_of(&enc, &blk), &want_e.0) && eq16(&dec_of(&dec, &blk), &want_d.0));
                // encrypt-only / decrypt-only values are exactly one key array
                assert!(core::mem::size_of::<armv8::$enc>() == 16 * $n && core::mem::size_of::<armv8::$dec>() == 16 * $n);
                assert!(core::mem::size_of::<armv8::$name>() == 32 * $n);
                unsafe {
                    assert!(bytes_eq(&enc as *const armv8::$enc as *const [uint8x16_t; $n], &ek));
                    assert!(bytes_eq(&dec as *const armv8::$dec as *const [uint8x16_t; $n], &dk));
                    // conversions by reference and by value, clones: same bytes as the freshly keyed values
                    assert!(bytes_eq(&armv8::$name::from(&enc), &full));
                    assert!(bytes_eq(&armv8::$dec::from(&enc), &dec));
                    assert!(bytes_eq(&armv8::$name::from(armv8::$enc::new(&key)), &full));
                    assert!(bytes_eq(&armv8::$dec::from(armv8::$enc::new(&key)), &dec));
                    assert!(bytes_eq(&full.clone(), &full) && bytes_eq(&enc.clone(), &enc) && bytes_eq(&dec.clone(), &dec));
                    assert!(bytes_eq(&armv8::$dec::from(&enc.clone()).clone(), &dec));
                }
            }
            // C19
            #[kani::proof]
            #[kani::unwind(130)]
            fn $names() {
                let a: armv8::$name = unsafe { core::mem::transmute::<[[u8; 16]; 2 * $n], _>(kani::any()) };
                let b: armv8::$name = unsafe { core::mem::transmute::<[[u8; 16]; 2 * $n], _>(kani::any()) };
                assert!(debug_text(&a).same(&debug_text(&b)) && debug_text(&a).names($sn) && alg_name_text::<armv8::$name>().names($sn));
                let a: armv8::$enc = unsafe { core::mem::transmute::<[[u8; 16]; $n], _>(kani::any()) };
                let b: armv8::$enc = unsafe { core::mem::transmute::<[[u8; 16]; $n], _>(kani::any()) };
                assert!(debug_text(&a).same(&debug_text(&b)) && debug_text(&a).names($sne) && alg_name_text::<armv8::$enc>().names($sne));
                let a: armv8::$dec = unsafe { core::mem::transmute::<[[u8; 16]; $n], _>(kani::any()) };
                let b: armv8::$dec = unsafe { core::mem::transmute::<[[u8; 16]; $n], _>(kani::any()) };
                assert!(debug_text(&a).same(&debug_text(&b)) && debug_text(&a).names($snd) && alg_name_text::<armv8::$dec>().names($snd));
            }
            // C16 (feature zeroize): every byte of the value is zero after drop
            #[cfg(feature = "zeroize")]
            #[kani::proof]
            #[kani::stub(a64_models::vaesimcq_u8, s_aesimc)]
            #[kani::unwind(1000)]
            fn $zero() {
                let v: armv8::$name = unsafe { core::mem::transmute::<[[u8; 16]; 2 * $n], _>(kani::any()) };
                let mut m = core::mem::ManuallyDrop::new(v);
                let p: *const armv8::$name = &*m;
                unsafe { core::mem::ManuallyDrop::drop(&mut m); }
                assert!(unsafe { all_bytes_zero(p) });
                let v: armv8::$enc = unsafe { core::mem::transmute::<[[u8; 16]; $n], _>(kani::any()) };
                let mut m = core::mem::ManuallyDrop::new(v);
                let p: *const armv8::$enc = &*m;
                unsafe { core::mem::ManuallyDrop::drop(&mut m); }
                assert!(unsafe { all_bytes_zero(p) });
                // a decrypt-only value obtained by conversion + clone
                let v: armv8::$enc = unsafe { core::mem::transmute::<[[u8; 16]; $n], _>(kani::any()) };
                let mut m = core::mem::ManuallyDrop::new(armv8::$dec::from(&v).clone());
                let p: *const armv8::$dec = &*m;
                unsafe { core::mem::ManuallyDrop::drop(&mut m); }
                assert!(unsafe { all_bytes_zero(p) });
            }
        };
    }
    // @ob name=a64_conv_128 props=C12,C02,C15 fn=aes::armv8::Aes128::new,aes::armv8::Aes128Enc::new,aes::armv8::Aes128Dec::new,aes::armv8::Aes128::from,aes::armv8::Aes128Dec::from,aes::armv8::Aes128::clone,aes::armv8::Aes128BackEnc::new,aes::armv8::Aes128BackDec::from uses=a64_expand_128,a64_inv_keys_11,a64_encrypt_11,a64_decrypt_11 timeout=1800
    // @ob name=a64_names_128 props=C19 fn=aes::armv8::Aes128::fmt,aes::armv8::Aes128Enc::fmt,aes::armv8::Aes128Dec::fmt timeout=900
    // @ob name=a64_zero_128 props=C16 cfg=zeroize fn=aes::armv8::Aes128::drop,aes::armv8::Aes128Enc::drop,aes::armv8::Aes128Dec::drop timeout=1800
    a64_types!(a64_conv_128, a64_names_128, a64_zero_128, Aes128, Aes128Enc, Aes128Dec, 16, 11, "Aes128", "Aes128Enc", "Aes128Dec");
    // @ob name=a64_conv_192 props=C12,C02,C15 fn=aes::armv8::Aes192::new,aes::armv8::Aes192Enc::new,aes::armv8::Aes192Dec::new,aes::armv8::Aes192::from,aes::armv8::Aes192Dec::from,aes::armv8::Aes192::clone,aes::armv8::Aes192BackEnc::new,aes::armv8::Aes192BackDec::from uses=a64_expand_192,a64_inv_keys_13,a64_encrypt_13,a64_decrypt_13 timeout=1800
    // @ob name=a64_names_192 props=C19 fn=aes::armv8::Aes192::fmt,aes::armv8::Aes192Enc::fmt,aes::armv8::Aes192Dec::fmt timeout=900
    // @ob name=a64_zero_192 props=C16 cfg=zeroize fn=aes::armv8::Aes192::drop,aes::armv8::Aes192Enc::drop,aes::armv8::Aes192Dec::drop timeout=1800
    a64_types!(a64_conv_192, a64_names_192, a64_zero_192, Aes192, Aes192Enc, Aes192Dec, 24, 13, "Aes192", "Aes192Enc", "Aes192Dec");
    // @ob name=a64_conv_256 props=C12,C02,C15 fn=aes::armv8::Aes256::new,aes::armv8::Aes256Enc::new,aes::armv8::Aes256Dec::new,aes::armv8::Aes256::from,aes::armv8::Aes256Dec::from,aes::armv8::Aes256::clone,aes::armv8::Aes256BackEnc::new,aes::armv8::Aes256BackDec::from uses=a64_expand_256,a64_inv_keys_15,a64_encrypt_15,a64_decrypt_15 timeout=1800
    // @ob name=a64_names_256 props=C19 fn=aes::armv8::Aes256::fmt,aes::armv8::Aes256Enc::fmt,aes::armv8::Aes256Dec::fmt timeout=900
    // @ob name=a64_zero_256 props=C16 cfg=zeroize fn=aes::armv8::Aes256::drop,aes::armv8::Aes256Enc::drop,aes::armv8::Aes256Dec::drop timeout=1800
    a64_types!(a64_conv_256, a64_names_256, a64_zero_256, Aes256, Aes256Enc, Aes256Dec, 32, 15, "Aes256", "Aes256Enc", "Aes256Dec");
}
