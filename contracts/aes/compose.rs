// Composition obligations for the fixsliced AES backend: key schedule + block function against FIPS-197,
// with every bitsliced leaf replaced by its contract (the lifted byte-level spec proved in fixslice.rs).
// (generated text: one explicit harness per function; a macro_rules wrapper hits rustc's recursion limit
// while expanding 16 stub attributes)
//
// @module file=aes/src/soft/fixslice64.rs
// @crateattr recursion_limit = "2048"
use super::*;
use super::__vp_fixslice::*;
use bcref::aes as fips;

// @ob name=e_aes128_enc props=C02 tier=thorough fn=aes::soft::fixslice::aes128_key_schedule,aes::soft::fixslice::aes128_encrypt uses=c_bitslice,c_inv_bitslice,c_sub_bytes,c_sub_bytes_nots,c_inv_sub_bytes,c_mix_columns_0,c_mix_columns_1,c_mix_columns_2,c_mix_columns_3,c_inv_mix_columns_0,c_inv_mix_columns_1,c_inv_mix_columns_2,c_inv_mix_columns_3,c_shift_rows_2,c_inv_shift_rows_1,c_inv_shift_rows_3 timeout=3600
#[kani::proof]
#[kani::stub(bitslice, spec_bitslice_fn)]
#[kani::stub(inv_bitslice, spec_inv_bitslice_fn)]
#[kani::stub(sub_bytes, spec_sub_bytes)]
#[kani::stub(sub_bytes_nots, spec_sub_bytes_nots)]
#[kani::stub(inv_sub_bytes, spec_inv_sub_bytes)]
#[kani::stub(mix_columns_0, spec_mix_columns_0)]
#[kani::stub(mix_columns_1, spec_mix_columns_1)]
#[kani::stub(mix_columns_2, spec_mix_columns_2)]
#[kani::stub(mix_columns_3, spec_mix_columns_3)]
#[kani::stub(inv_mix_columns_0, spec_inv_mix_columns_0)]
#[kani::stub(inv_mix_columns_1, spec_inv_mix_columns_1)]
#[kani::stub(inv_mix_columns_2, spec_inv_mix_columns_2)]
#[kani::stub(inv_mix_columns_3, spec_inv_mix_columns_3)]
#[kani::stub(shift_rows_1, spec_shift_rows_1)]
#[kani::stub(shift_rows_2, spec_shift_rows_2)]
#[kani::stub(shift_rows_3, spec_shift_rows_3)]
#[kani::unwind(62)]
fn e_aes128_enc() {
    let key: [u8; 16] = kani::any();
    let b: [u8; 16] = kani::any();
    let rk = aes128_key_schedule(&key);
    let mut blocks = BatchBlocks::default();
    blocks[0] = Array(b);
    let out = aes128_encrypt(&rk, &blocks);
    let want = fips::aes128_encrypt(&key, &b);
    let mut i = 0;
    while i < 16 {
        assert!(out[0].0[i] == want[i]);
        i += 1;
    }
}

// @ob name=e_aes128_dec props=C02 tier=thorough fn=aes::soft::fixslice::aes128_key_schedule,aes::soft::fixslice::aes128_decrypt uses=c_bitslice,c_inv_bitslice,c_sub_bytes,c_sub_bytes_nots,c_inv_sub_bytes,c_mix_columns_0,c_mix_columns_1,c_mix_columns_2,c_mix_columns_3,c_inv_mix_columns_0,c_inv_mix_columns_1,c_inv_mix_columns_2,c_inv_mix_columns_3,c_shift_rows_2,c_inv_shift_rows_1,c_inv_shift_rows_3 timeout=3600
#[kani::proof]
#[kani::stub(bitslice, spec_bitslice_fn)]
#[kani::stub(inv_bitslice, spec_inv_bitslice_fn)]
#[kani::stub(sub_bytes, spec_sub_bytes)]
#[kani::stub(sub_bytes_nots, spec_sub_bytes_nots)]
#[kani::stub(inv_sub_bytes, spec_inv_sub_bytes)]
#[kani::stub(mix_columns_0, spec_mix_columns_0)]
#[kani::stub(mix_columns_1, spec_mix_columns_1)]
#[kani::stub(mix_columns_2, spec_mix_columns_2)]
#[kani::stub(mix_columns_3, spec_mix_columns_3)]
#[kani::stub(inv_mix_columns_0, spec_inv_mix_columns_0)]
#[kani::stub(inv_mix_columns_1, spec_inv_mix_columns_1)]
#[kani::stub(inv_mix_columns_2, spec_inv_mix_columns_2)]
#[kani::stub(inv_mix_columns_3, spec_inv_mix_columns_3)]
#[kani::stub(shift_rows_1, spec_shift_rows_1)]
#[kani::stub(shift_rows_2, spec_shift_rows_2)]
#[kani::stub(shift_rows_3, spec_shift_rows_3)]
#[kani::unwind(62)]
fn e_aes128_dec() {
    let key: [u8; 16] = kani::any();
    let b: [u8; 16] = kani::any();
    let rk = aes128_key_schedule(&key);
    let mut blocks = BatchBlocks::default();
    blocks[0] = Array(b);
    let out = aes128_decrypt(&rk, &blocks);
    let want = fips::aes128_decrypt(&key, &b);
    let mut i = 0;
    while i < 16 {
        assert!(out[0].0[i] == want[i]);
        i += 1;
    }
}

// @ob name=e_aes192_enc props=C02 tier=thorough fn=aes::soft::fixslice::aes192_key_schedule,aes::soft::fixslice::aes192_encrypt uses=c_bitslice,c_inv_bitslice,c_sub_bytes,c_sub_bytes_nots,c_inv_sub_bytes,c_mix_columns_0,c_mix_columns_1,c_mix_columns_2,c_mix_columns_3,c_inv_mix_columns_0,c_inv_mix_columns_1,c_inv_mix_columns_2,c_inv_mix_columns_3,c_shift_rows_2,c_inv_shift_rows_1,c_inv_shift_rows_3 timeout=3600
#[kani::proof]
#[kani::stub(bitslice, spec_bitslice_fn)]
#[kani::stub(inv_bitslice, spec_inv_bitslice_fn)]
#[kani::stub(sub_bytes, spec_sub_bytes)]
#[kani::stub(sub_bytes_nots, spec_sub_bytes_nots)]
#[kani::stub(inv_sub_bytes, spec_inv_sub_bytes)]
#[kani::stub(mix_columns_0, spec_mix_columns_0)]
#[kani::stub(mix_columns_1, spec_mix_columns_1)]
#[kani::stub(mix_columns_2, spec_mix_columns_2)]
#[kani::stub(mix_columns_3, spec_mix_columns_3)]
#[kani::stub(inv_mix_columns_0, spec_inv_mix_columns_0)]
#[kani::stub(inv_mix_columns_1, spec_inv_mix_columns_1)]
#[kani::stub(inv_mix_columns_2, spec_inv_mix_columns_2)]
#[kani::stub(inv_mix_columns_3, spec_inv_mix_columns_3)]
#[kani::stub(shift_rows_1, spec_shift_rows_1)]
#[kani::stub(shift_rows_2, spec_shift_rows_2)]
#[kani::stub(shift_rows_3, spec_shift_rows_3)]
#[kani::unwind(62)]
fn e_aes192_enc() {
    let key: [u8; 24] = kani::any();
    let b: [u8; 16] = kani::any();
    let rk = aes192_key_schedule(&key);
    let mut blocks = BatchBlocks::default();
    blocks[0] = Array(b);
    let out = aes192_encrypt(&rk, &blocks);
    let want = fips::aes192_encrypt(&key, &b);
    let mut i = 0;
    while i < 16 {
        assert!(out[0].0[i] == want[i]);
        i += 1;
    }
}

// @ob name=e_aes192_dec props=C02 tier=thorough fn=aes::soft::fixslice::aes192_key_schedule,aes::soft::fixslice::aes192_decrypt uses=c_bitslice,c_inv_bitslice,c_sub_bytes,c_sub_bytes_nots,c_inv_sub_bytes,c_mix_columns_0,c_mix_columns_1,c_mix_columns_2,c_mix_columns_3,c_inv_mix_columns_0,c_inv_mix_columns_1,c_inv_mix_columns_2,c_inv_mix_columns_3,c_shift_rows_2,c_inv_shift_rows_1,c_inv_shift_rows_3 timeout=3600
#[kani::proof]
#[kani::stub(bitslice, spec_bitslice_fn)]
#[kani::stub(inv_bitslice, spec_inv_bitslice_fn)]
#[kani::stub(sub_bytes, spec_sub_bytes)]
#[kani::stub(sub_bytes_nots, spec_sub_bytes_nots)]
#[kani::stub(inv_sub_bytes, spec_inv_sub_bytes)]
#[kani::stub(mix_columns_0, spec_mix_columns_0)]
#[kani::stub(mix_columns_1, spec_mix_columns_1)]
#[kani::stub(mix_columns_2, spec_mix_columns_2)]
#[kani::stub(mix_columns_3, spec_mix_columns_3)]
#[kani::stub(inv_mix_columns_0, spec_inv_mix_columns_0)]
#[kani::stub(inv_mix_columns_1, spec_inv_mix_columns_1)]
#[kani::stub(inv_mix_columns_2, spec_inv_mix_columns_2)]
#[kani::stub(inv_mix_columns_3, spec_inv_mix_columns_3)]
#[kani::stub(shift_rows_1, spec_shift_rows_1)]
#[kani::stub(shift_rows_2, spec_shift_rows_2)]
#[kani::stub(shift_rows_3, spec_shift_rows_3)]
#[kani::unwind(62)]
fn e_aes192_dec() {
    let key: [u8; 24] = kani::any();
    let b: [u8; 16] = kani::any();
    let rk = aes192_key_schedule(&key);
    let mut blocks = BatchBlocks::default();
    blocks[0] = Array(b);
    let out = aes192_decrypt(&rk, &blocks);
    let want = fips::aes192_decrypt(&key, &b);
    let mut i = 0;
    while i < 16 {
        assert!(out[0].0[i] == want[i]);
        i += 1;
    }
}

// @ob name=e_aes256_enc props=C02 tier=thorough fn=aes::soft::fixslice::aes256_key_schedule,aes::soft::fixslice::aes256_encrypt uses=c_bitslice,c_inv_bitslice,c_sub_bytes,c_sub_bytes_nots,c_inv_sub_bytes,c_mix_columns_0,c_mix_columns_1,c_mix_columns_2,c_mix_columns_3,c_inv_mix_columns_0,c_inv_mix_columns_1,c_inv_mix_columns_2,c_inv_mix_columns_3,c_shift_rows_2,c_inv_shift_rows_1,c_inv_shift_rows_3 timeout=3600
#[kani::proof]
#[kani::stub(bitslice, spec_bitslice_fn)]
#[kani::stub(inv_bitslice, spec_inv_bitslice_fn)]
#[kani::stub(sub_bytes, spec_sub_bytes)]
#[kani::stub(sub_bytes_nots, spec_sub_bytes_nots)]
#[kani::stub(inv_sub_bytes, spec_inv_sub_bytes)]
#[kani::stub(mix_columns_0, spec_mix_columns_0)]
#[kani::stub(mix_columns_1, spec_mix_columns_1)]
#[kani::stub(mix_columns_2, spec_mix_columns_2)]
#[kani::stub(mix_columns_3, spec_mix_columns_3)]
#[kani::stub(inv_mix_columns_0, spec_inv_mix_columns_0)]
#[kani::stub(inv_mix_columns_1, spec_inv_mix_columns_1)]
#[kani::stub(inv_mix_columns_2, spec_inv_mix_columns_2)]
#[kani::stub(inv_mix_columns_3, spec_inv_mix_columns_3)]
#[kani::stub(shift_rows_1, spec_shift_rows_1)]
#[kani::stub(shift_rows_2, spec_shift_rows_2)]
#[kani::stub(shift_rows_3, spec_shift_rows_3)]
#[kani::unwind(62)]
fn e_aes256_enc() {
    let key: [u8; 32] = kani::any();
    let b: [u8; 16] = kani::any();
    let rk = aes256_key_schedule(&key);
    let mut blocks = BatchBlocks::default();
    blocks[0] = Array(b);
    let out = aes256_encrypt(&rk, &blocks);
    let want = fips::aes256_encrypt(&key, &b);
    let mut i = 0;
    while i < 16 {
        assert!(out[0].0[i] == want[i]);
        i += 1;
    }
}

// @ob name=e_aes256_dec props=C02 tier=thorough fn=aes::soft::fixslice::aes256_key_schedule,aes::soft::fixslice::aes256_decrypt uses=c_bitslice,c_inv_bitslice,c_sub_bytes,c_sub_bytes_nots,c_inv_sub_bytes,c_mix_columns_0,c_mix_columns_1,c_mix_columns_2,c_mix_columns_3,c_inv_mix_columns_0,c_inv_mix_columns_1,c_inv_mix_columns_2,c_inv_mix_columns_3,c_shift_rows_2,c_inv_shift_rows_1,c_inv_shift_rows_3 timeout=3600
#[kani::proof]
#[kani::stub(bitslice, spec_bitslice_fn)]
#[kani::stub(inv_bitslice, spec_inv_bitslice_fn)]
#[kani::stub(sub_bytes, spec_sub_bytes)]
#[kani::stub(sub_bytes_nots, spec_sub_bytes_nots)]
#[kani::stub(inv_sub_bytes, spec_inv_sub_bytes)]
#[kani::stub(mix_columns_0, spec_mix_columns_0)]
#[kani::stub(mix_columns_1, spec_mix_columns_1)]
#[kani::stub(mix_columns_2, spec_mix_columns_2)]
#[kani::stub(mix_columns_3, spec_mix_columns_3)]
#[kani::stub(inv_mix_columns_0, spec_inv_mix_columns_0)]
#[kani::stub(inv_mix_columns_1, spec_inv_mix_columns_1)]
#[kani::stub(inv_mix_columns_2, spec_inv_mix_columns_2)]
#[kani::stub(inv_mix_columns_3, spec_inv_mix_columns_3)]
#[kani::stub(shift_rows_1, spec_shift_rows_1)]
#[kani::stub(shift_rows_2, spec_shift_rows_2)]
#[kani::stub(shift_rows_3, spec_shift_rows_3)]
#[kani::unwind(62)]
fn e_aes256_dec() {
    let key: [u8; 32] = kani::any();
    let b: [u8; 16] = kani::any();
    let rk = aes256_key_schedule(&key);
    let mut blocks = BatchBlocks::default();
    blocks[0] = Array(b);
    let out = aes256_decrypt(&rk, &blocks);
    let want = fips::aes256_decrypt(&key, &b);
    let mut i = 0;
    while i < 16 {
        assert!(out[0].0[i] == want[i]);
        i += 1;
    }
}
