use vstd::prelude::*;
verus! {
pub type State = [u64; 8];
pub type Blk = Seq<u8>;   // 64 bytes = 4 lanes x 16

// D_k(s): decoded state in frame k (SR^k applied lane-wise to inv_bitslice)
pub uninterp spec fn D(k: int, s: Seq<u64>) -> Blk;
pub uninterp spec fn SB(b: Blk) -> Blk;      // SubBytes (with the omitted NOTs, see KN)
pub uninterp spec fn SRMC(b: Blk) -> Blk;    // MixColumns(ShiftRows(.))
pub uninterp spec fn SR(b: Blk) -> Blk;
pub uninterp spec fn XR(a: Blk, b: Blk) -> Blk;
pub uninterp spec fn PACK(b0: Seq<u8>, b1: Seq<u8>, b2: Seq<u8>, b3: Seq<u8>) -> Blk;

#[verifier::external_body]
fn bitslice(output: &mut [u64], input0: &[u8], input1: &[u8], input2: &[u8], input3: &[u8])
    requires old(output).len() == 8, input0.len() == 16, input1.len() == 16, input2.len() == 16, input3.len() == 16
    ensures final(output).len() == 8, D(0, final(output)@) == PACK(input0@, input1@, input2@, input3@)
{ unimplemented!() }

#[verifier::external_body]
fn sub_bytes(state: &mut [u64])
    requires old(state).len() == 8
    ensures final(state).len() == 8, forall|k: int| 0 <= k < 4 ==> #[trigger] D(k, final(state)@) == SB(D(k, old(state)@))
{ unimplemented!() }

#[verifier::external_body]
fn add_round_key(state: &mut State, rkey: &[u64])
    requires rkey.len() == 8
    ensures forall|k: int| 0 <= k < 4 ==> #[trigger] D(k, final(state)@) == XR(D(k, old(state)@), D(k, rkey@))
{ unimplemented!() }

#[verifier::external_body] fn mix_columns_1(state: &mut State) ensures D(1, final(state)@) == SRMC(D(0, old(state)@)) { unimplemented!() }
#[verifier::external_body] fn mix_columns_2(state: &mut State) ensures D(2, final(state)@) == SRMC(D(1, old(state)@)) { unimplemented!() }
#[verifier::external_body] fn mix_columns_3(state: &mut State) ensures D(3, final(state)@) == SRMC(D(2, old(state)@)) { unimplemented!() }
#[verifier::external_body] fn mix_columns_0(state: &mut State) ensures D(0, final(state)@) == SRMC(D(3, old(state)@)) { unimplemented!() }
#[verifier::external_body] fn shift_rows_2(state: &mut [u64]) requires old(state).len() == 8 ensures final(state).len() == 8, D(0, final(state)@) == SR(D(1, old(state)@)) { unimplemented!() }

// FIPS-style spec in the decoded domain; rk(i) = decoded round key i in its frame
pub open spec fn rk(rkeys: Seq<u64>, i: int) -> Blk { D(i % 4, rkeys.subrange(8 * i, 8 * i + 8)) }
pub open spec fn round(x: Blk, k: Blk) -> Blk { XR(SRMC(SB(x)), k) }
pub open spec fn rounds(rkeys: Seq<u64>, x0: Blk, n: nat) -> Blk
    decreases n
{
    if n == 0 { XR(x0, rk(rkeys, 0)) } else { round(rounds(rkeys, x0, (n - 1) as nat), rk(rkeys, n as int)) }
}

fn aes128_encrypt_core(rkeys: &[u64; 88], b0: &[u8; 16], b1: &[u8; 16], b2: &[u8; 16], b3: &[u8; 16]) -> (state: State)
    ensures D(1, state@) == rounds(rkeys@, PACK(b0@, b1@, b2@, b3@), 9)
{
    let mut state: State = [0u64; 8];

    bitslice(&mut state, b0, b1, b2, b3);

    add_round_key(&mut state, &rkeys[..8]);

    let mut rk_off: usize = 8;
    loop
        invariant_except_break
            rk_off == 8 || rk_off == 40 || rk_off == 72,
            D(0, state@) == rounds(rkeys@, PACK(b0@, b1@, b2@, b3@), ((rk_off - 8) / 8) as nat),
        ensures
            rk_off == 80,
            D(1, state@) == rounds(rkeys@, PACK(b0@, b1@, b2@, b3@), 9),
        decreases 100 - rk_off
    {
        let ghost x0 = PACK(b0@, b1@, b2@, b3@);
        let ghost n0: nat = ((rk_off - 8) / 8) as nat;
        sub_bytes(&mut state);
        mix_columns_1(&mut state);
        add_round_key(&mut state, &rkeys[rk_off..(rk_off + 8)]);
        rk_off += 8;
        assert(D(1, state@) == rounds(rkeys@, x0, n0 + 1));

        if rk_off == 80 {
            break;
        }

        sub_bytes(&mut state);
        mix_columns_2(&mut state);
        add_round_key(&mut state, &rkeys[rk_off..(rk_off + 8)]);
        rk_off += 8;
        assert(D(2, state@) == rounds(rkeys@, x0, n0 + 2));

        sub_bytes(&mut state);
        mix_columns_3(&mut state);
        add_round_key(&mut state, &rkeys[rk_off..(rk_off + 8)]);
        rk_off += 8;
        assert(D(3, state@) == rounds(rkeys@, x0, n0 + 3));

        sub_bytes(&mut state);
        mix_columns_0(&mut state);
        add_round_key(&mut state, &rkeys[rk_off..(rk_off + 8)]);
        rk_off += 8;
        assert(D(0, state@) == rounds(rkeys@, x0, n0 + 4));
    }
    state
}
}
fn main() {}
