//! aria: Aria128/192/256 against RFC 5794 (bcref::aria), C06.
use crate::generic::*;
use crate::util::*;
use bcref::aria as r;

desc!(D128: aria::Aria128, "aria", "Aria128", [16], "C06", [clone, debug, alg], names ["Aria128", "Aria"], alg ["aria", "128"],
    |k, b, dec| Some(if dec { r::decrypt(k, &arr(b)) } else { r::encrypt(k, &arr(b)) }.to_vec()));
desc!(D192: aria::Aria192, "aria", "Aria192", [24], "C06", [clone, debug, alg], names ["Aria192", "Aria"], alg ["aria", "192"],
    |k, b, dec| Some(if dec { r::decrypt(k, &arr(b)) } else { r::encrypt(k, &arr(b)) }.to_vec()));
desc!(D256: aria::Aria256, "aria", "Aria256", [32], "C06", [clone, debug, alg], names ["Aria256", "Aria"], alg ["aria", "256"],
    |k, b, dec| Some(if dec { r::decrypt(k, &arr(b)) } else { r::encrypt(k, &arr(b)) }.to_vec()));

pub fn run() {
    visit::<D128>();
    visit::<D192>();
    visit::<D256>();
}
