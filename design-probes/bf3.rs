use vstd::prelude::*;
verus! {

pub struct Blowfish {
    pub s: [[u32; 256]; 4],
    pub p: [u32; 18],
}

// ---------- spec state ----------
pub struct St { pub p: Seq<u32>, pub s: Seq<Seq<u32>> }

pub open spec fn sview(s: [[u32; 256]; 4]) -> Seq<Seq<u32>> { Seq::new(4, |i: int| s[i]@) }
impl Blowfish {
    pub open spec fn view(&self) -> St { St { p: self.p@, s: sview(self.s) } }
}

pub open spec fn wf(st: St) -> bool {
    st.p.len() == 18 && st.s.len() == 4 && forall|i: int| 0 <= i < 4 ==> (#[trigger] st.s[i]).len() == 256
}

pub open spec fn spec_f(s: Seq<Seq<u32>>, x: u32) -> u32 {
    (s[0][(x >> 24) as int].wrapping_add(s[1][((x >> 16) & 0xff) as int]) ^ s[2][((x >> 8) & 0xff) as int]).wrapping_add(s[3][(x & 0xff) as int])
}
pub open spec fn spec_rounds(st: St, l: u32, r: u32, i: nat) -> (u32, u32)
    decreases i
{
    if i == 0 { (l, r) } else {
        let (l0, r0) = spec_rounds(st, l, r, (i - 1) as nat);
        let l1 = l0 ^ st.p[2 * (i - 1)];
        let r1 = r0 ^ spec_f(st.s, l1);
        let r2 = r1 ^ st.p[2 * (i - 1) + 1];
        let l2 = l1 ^ spec_f(st.s, r2);
        (l2, r2)
    }
}
pub open spec fn spec_encrypt(st: St, lr: (u32, u32)) -> (u32, u32) {
    let (l8, r8) = spec_rounds(st, lr.0, lr.1, 8);
    (r8 ^ st.p[17], l8 ^ st.p[16])
}

// ---------- cyclic key reader (offset-based spec: no modular arithmetic needed) ----------
pub open spec fn norm(o: int, n: int) -> int { if o >= n { 0 } else { o } }
pub open spec fn adv(o: int, n: int) -> int { norm(o, n) + 1 }          // offset after reading one byte
pub open spec fn adv_k(o: int, n: int, k: nat) -> int decreases k { if k == 0 { o } else { adv(adv_k(o, n, (k - 1) as nat), n) } }
pub open spec fn rd(buf: Seq<u8>, o: int, k: nat) -> u8 { buf[norm(adv_k(o, buf.len() as int, k), buf.len() as int)] }
pub open spec fn word_at(buf: Seq<u8>, o: int) -> u32 {
    ((((((0u32 << 8) | rd(buf, o, 0) as u32) << 8) | rd(buf, o, 1) as u32) << 8 | rd(buf, o, 2) as u32) << 8) | rd(buf, o, 3) as u32
}

fn next_u32_wrap(buf: &[u8], offset: &mut usize) -> (v: u32)
    requires buf.len() > 0, *old(offset) <= buf.len(),
    ensures *final(offset) <= buf.len(), *final(offset) as int == adv_k(*old(offset) as int, buf.len() as int, 4),
            v == word_at(buf@, *old(offset) as int),
{
    let mut v: u32 = 0;
    let ghost n = buf.len() as int;
    let ghost o0 = *offset as int;
    reveal_with_fuel(adv_k, 5);
    for c in 0..4
        invariant
            buf.len() > 0, n == buf.len(), *offset <= buf.len(),
            *offset as int == adv_k(o0, n, c as nat),
            c == 0 ==> v == 0,
            c == 1 ==> v == ((0u32 << 8) | rd(buf@, o0, 0) as u32),
            c == 2 ==> v == ((((0u32 << 8) | rd(buf@, o0, 0) as u32) << 8) | rd(buf@, o0, 1) as u32),
            c == 3 ==> v == ((((((0u32 << 8) | rd(buf@, o0, 0) as u32) << 8) | rd(buf@, o0, 1) as u32) << 8) | rd(buf@, o0, 2) as u32),
            c == 4 ==> v == word_at(buf@, o0),
    {
        if *offset >= buf.len() {
            *offset = 0;
        }
        v = (v << 8) | buf[*offset] as u32;
        *offset += 1;
    }
    v
}


// ---------- key schedule spec ----------
pub open spec fn xor_key(p: Seq<u32>, key: Seq<u8>, i: nat) -> Seq<u32>   // first i words XORed
    decreases i
{
    if i == 0 { p } else {
        let q = xor_key(p, key, (i - 1) as nat);
        q.update(i - 1, q[i - 1] ^ word_at(key, adv_k(0, key.len() as int, (4 * (i - 1)) as nat)))
    }
}
pub open spec fn write(st: St, t: int, lr: (u32, u32)) -> St {
    if t < 9 { St { p: st.p.update(2 * t, lr.0).update(2 * t + 1, lr.1), s: st.s } }
    else {
        let u = t - 9; let i = u / 128; let j = u % 128;
        St { p: st.p, s: st.s.update(i, st.s[i].update(2 * j, lr.0).update(2 * j + 1, lr.1)) }
    }
}
pub open spec fn chain(st: St, t: nat) -> (St, (u32, u32))
    decreases t
{
    if t == 0 { (st, (0u32, 0u32)) } else {
        let (s1, lr1) = chain(st, (t - 1) as nat);
        let lr2 = spec_encrypt(s1, lr1);
        (write(s1, t - 1, lr2), lr2)
    }
}

impl Blowfish {
    fn round_function(&self, x: u32) -> (r: u32)
        ensures r == spec_f(self@.s, x)
    {
        assert((x >> 24) < 256) by(bit_vector);
        assert(((x >> 16) & 0xff) < 256) by(bit_vector);
        assert(((x >> 8) & 0xff) < 256) by(bit_vector);
        assert((x & 0xff) < 256) by(bit_vector);
        let a = self.s[0][(x >> 24) as usize];
        let b = self.s[1][((x >> 16) & 0xff) as usize];
        let c = self.s[2][((x >> 8) & 0xff) as usize];
        let d = self.s[3][(x & 0xff) as usize];
        (a.wrapping_add(b) ^ c).wrapping_add(d)
    }

    fn encrypt(&self, lr0: [u32; 2]) -> (out: [u32; 2])
        ensures (out[0], out[1]) == spec_encrypt(self@, (lr0[0], lr0[1]))
    {
        let mut l = lr0[0]; let mut r = lr0[1];
        for i in 0..8
            invariant (l, r) == spec_rounds(self@, lr0[0], lr0[1], i as nat)
        {
            l ^= self.p[2 * i];
            r ^= self.round_function(l);
            r ^= self.p[2 * i + 1];
            l ^= self.round_function(r);
        }
        l ^= self.p[16];
        r ^= self.p[17];
        [r, l]
    }

    fn expand_key(&mut self, key: &[u8])
        requires key.len() > 0
        ensures ({
            let st0 = St { p: xor_key(old(self)@.p, key@, 18), s: old(self)@.s };
            final(self)@ == chain(st0, 521).0
        })
    {
        let mut key_pos = 0;
        let ghost p0 = self@.p;
        let ghost s0 = self@.s;
        for i in 0..18
            invariant
                key.len() > 0, key_pos <= key.len(),
                key_pos as int == adv_k(0, key.len() as int, (4 * i) as nat),
                self@.p == xor_key(p0, key@, i as nat), self@.s == s0,
        {
            let ghost kp = key_pos as int;
            self.p[i] ^= next_u32_wrap(key, &mut key_pos);
            proof {
                lemma_adv_add(0, key.len() as int, (4 * i) as nat, 4);
            }
            assert(self@.p =~= xor_key(p0, key@, (i + 1) as nat));
            assert(self@.s =~= s0);
        }
        let ghost st0 = self@;
        let mut lr = [0u32; 2];
        for i in 0..9
            invariant (self@, (lr[0], lr[1])) == chain(st0, i as nat), wf(self@)
        {
            lr = self.encrypt(lr);
            self.p[2 * i] = lr[0];
            self.p[2 * i + 1] = lr[1];
            assert(self@.p =~= write(chain(st0, i as nat).0, i as int, (lr[0], lr[1])).p);
            assert(self@.s =~= chain(st0, i as nat).0.s);
        }
        for i in 0..4usize
            invariant (self@, (lr[0], lr[1])) == chain(st0, (9 + 128 * i) as nat), wf(self@)
        {
            for j in 0..128usize
                invariant (self@, (lr[0], lr[1])) == chain(st0, (9 + 128 * i + j) as nat), wf(self@), 0 <= i < 4
            {
                let ghost t: int = 9 + 128 * i + j;
                lr = self.encrypt(lr);
                self.s[i][2 * j] = lr[0];
                self.s[i][2 * j + 1] = lr[1];
                assert((t - 9) / 128 == i && (t - 9) % 128 == j) by(nonlinear_arith) requires t == 9 + 128 * i + j, 0 <= j < 128, 0 <= i;
                assert(self@.s =~= write(chain(st0, t as nat).0, t as int, (lr[0], lr[1])).s);
                assert(self@.p =~= chain(st0, t as nat).0.p);
            }
        }
    }
}

proof fn lemma_adv_add(o: int, n: int, a: nat, b: nat)
    ensures adv_k(adv_k(o, n, a), n, b) == adv_k(o, n, a + b)
    decreases b
{
    if b > 0 { lemma_adv_add(o, n, a, (b - 1) as nat); }
}
} // verus!
fn main() {}
