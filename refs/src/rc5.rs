//! (reference for rc5: to be written)
