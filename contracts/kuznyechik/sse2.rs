// Contracts on kuznyechik/src/sse2/backends.rs (default build on x86-64): the SSE2 table-driven backend on __m128i.
// A block is the __m128i holding the 16 octets in printed order (byte lane k = octet k).  The SSE2 intrinsics are
// executed by Kani from their definitions in core::arch (portable-SIMD platform intrinsics), not modelled.
// Decomposition: c_transform (`transform` = XOR of the sixteen table entries selected by the block's bytes, for every
// table content), fused_tables.* (contents of the two real tables), lemmas.* (linearity of L, L^-1) give the contract
//   transform(b, &ENC_TABLE) = L(S(b)),  transform(b, &DEC_TABLE) = L^-1(S^-1(b))     (`spec_transform`)
// against which every caller is proved.
//
// Composition obligations (c_expand_enc_keys, c_enc_block, c_dec_block, p_enc_par, p_dec_par) replace `transform` and
// `sub_bytes` by the tagged transcript oracle lemmas.rs `tro` on the real side and the corresponding reference functions
// by the same oracle on the reference side (linear in the number of calls; the earlier Ackermann-table versions of these
// harnesses timed out at 900 s).
// @module file=kuznyechik/src/sse2/backends.rs
use super::*;
use crate::__vp_lemmas::{spec_dec_dk, spec_inv_keys};
use bcref::kuznyechik as kz;
use crate::__vp_lemmas::ruf;
use crate::__vp_lemmas::tro;

pub fn bytes(x: __m128i) -> [u8; 16] { unsafe { core::mem::transmute(x) } }
pub fn word(b: &[u8; 16]) -> __m128i { unsafe { core::mem::transmute(*b) } }
pub fn any_word() -> __m128i { word(&kani::any()) }
pub fn any_round_keys() -> RoundKeys {
    let raw: [[u8; 16]; 10] = kani::any();
    unsafe { core::mem::transmute(raw) }
}
pub fn raw_keys(k: &RoundKeys) -> [[u8; 16]; 10] { unsafe { core::mem::transmute(*k) } }

/// contract of `transform` on the two real tables
pub unsafe fn spec_transform(block: __m128i, table: &Table) -> __m128i {
    if core::ptr::eq(table, &ENC_TABLE) {
        word(&kz::l(&kz::s(&bytes(block))))
    } else {
        assert!(core::ptr::eq(table, &DEC_TABLE)); // no other table exists in the crate
        word(&kz::l_inv(&kz::s_inv(&bytes(block))))
    }
}

// `transform` for EVERY table content: the sixteen aligned 16-byte loads are replaced by an uninterpreted function of the
// byte offset of the load inside the table (`luf::at`; equal offsets give equal data, otherwise unconstrained), so the
// table is never read; the model also asserts that each load is 16-byte aligned and inside the table.  (A symbolic or
// the real 64 KiB table read at symbolic offsets exhausts 32 GB.)  What is proved: the result is the XOR of the entries
// (i, b_i), i = 0..15, entry (i, v) being the 16 bytes at offset 16 * (256 * i + v).
pub static mut BASE: usize = 0;
pub mod luf {
    pub const MAXC: usize = 40;
    pub static mut IN: [usize; MAXC] = [0; MAXC];
    pub static mut OUT: [[u8; 16]; MAXC] = [[0; 16]; MAXC];
    pub static mut N: usize = 0;
    #[allow(static_mut_refs)]
    pub fn at(off: usize) -> [u8; 16] {
        unsafe {
            let mut y: [u8; 16] = kani::any();
            let mut found = false;
            let mut i = 0;
            while i < N {
                if !found && IN[i] == off { y = OUT[i]; found = true; }
                i += 1;
            }
            assert!(N < MAXC);
            IN[N] = off; OUT[N] = y; N += 1;
            y
        }
    }
}
#[allow(static_mut_refs)]
unsafe fn model_load(p: *const __m128i) -> __m128i {
    let off = (p as usize).wrapping_sub(BASE);
    assert!(off % 16 == 0 && off <= 65536 - 16); // inside the table, aligned
    word(&luf::at(off))
}

// @ob name=c_transform props=C07,C20 fn=kuznyechik::sse2::backends::transform timeout=300
#[kani::proof]
#[kani::stub(core::arch::x86_64::_mm_load_si128, model_load)]
#[kani::unwind(41)]
fn c_transform() {
    let which: bool = kani::any();
    let t: &Table = if which { &ENC_TABLE } else { &DEC_TABLE };
    unsafe { BASE = t.0.as_ptr() as usize; }
    let b = any_word();
    let r = unsafe { transform(b, t) };
    let bb = bytes(b);
    let mut acc = [0u8; 16];
    let mut i = 0;
    while i < 16 {
        acc = kz::xor(&acc, &luf::at(16 * (256 * i + bb[i] as usize)));
        i += 1;
    }
    assert!(kz::eq(&bytes(r), &acc));
}

// @ob name=c_sub_bytes props=C07,C20 fn=kuznyechik::sse2::backends::sub_bytes timeout=300
#[kani::proof]
#[kani::unwind(17)]
fn c_sub_bytes() {
    let b = any_word();
    assert!(kz::eq(&bytes(unsafe { sub_bytes(b, &P) }), &kz::s(&bytes(b))));
    assert!(kz::eq(&bytes(unsafe { sub_bytes(b, &P_INV) }), &kz::s_inv(&bytes(b))));
}

// ---- uninterpreted stand-ins with the real signatures, for the plumbing obligations (C11, C12, C13, C16) in api_sse2.rs
// (uf_transform is no longer used: the C04 obligations now replace the block functions, see api_common.inc)
include!("@VERIF@/contracts/kuznyechik/uf_common.inc");
pub fn uf_expand_enc_keys(key: &Key) -> RoundKeys { unsafe { core::mem::transmute(ufs::k2rk(&key.0)) } }
pub fn uf_inv_enc_keys(enc: &RoundKeys) -> RoundKeys {
    unsafe { core::mem::transmute(ufs::rk2rk(&core::mem::transmute::<RoundKeys, [u8; 160]>(*enc))) }
}
pub unsafe fn uf_transform(block: __m128i, table: &Table) -> __m128i {
    word(&ufs::blk(&bytes(block), &[0u8; 16], table as *const Table as usize))
}

// ---- transcript-oracle stand-ins with the real signatures (see lemmas.rs `tro`): `transform` on the two real tables is
// LS = L o S resp. LISI = L^-1 o S^-1 of its argument (contract `spec_transform`: c_transform, fused_tables.*, l_l_decomp,
// l_linv_decomp), `sub_bytes` on the two real S-boxes is S resp. S^-1 (c_sub_bytes)
pub fn w128(x: __m128i) -> u128 { unsafe { core::mem::transmute(x) } }
pub fn m128(x: u128) -> __m128i { unsafe { core::mem::transmute(x) } }
pub unsafe fn tr_transform(block: __m128i, table: &Table) -> __m128i {
    if core::ptr::eq(table, &ENC_TABLE) {
        m128(tro::ask(tro::LS, w128(block)))
    } else {
        assert!(core::ptr::eq(table, &DEC_TABLE)); // no other table exists in the crate
        m128(tro::ask(tro::LISI, w128(block)))
    }
}
pub unsafe fn tr_sub_bytes(block: __m128i, sbox: &[u8; 256]) -> __m128i {
    if core::ptr::eq(sbox, &P) {
        m128(tro::ask(tro::S, w128(block)))
    } else {
        assert!(core::ptr::eq(sbox, &P_INV)); // no other S-box exists in the crate
        m128(tro::ask(tro::SI, w128(block)))
    }
}

// ---- callers of transform, proved against its contract on the two real tables
// the 32 constants are read from KEYGEN by the real code and from the checked table CREF by the reference; 32 oracle calls
// @ob name=c_expand_enc_keys props=C07,C20 fn=kuznyechik::sse2::backends::expand_enc_keys uses=c_transform,c_enc_table_lo,c_enc_table_hi,c_ls_table,l_l_decomp,c_keygen,c_cref_lo,c_cref_hi timeout=600
#[kani::proof]
#[kani::stub(transform, tr_transform)]
#[kani::stub(bcref::kuznyechik::lsx, tro::lsx)]
#[kani::stub(bcref::kuznyechik::c, crate::utils::__vp_utils::cref_lookup)]
#[kani::unwind(33)]
fn c_expand_enc_keys() {
    let key: [u8; 32] = kani::any();
    let rk = raw_keys(&expand_enc_keys(&cipher::Array(key)));
    assert!(tro::recorded() == 32);
    tro::start_replay();
    let spec = kz::key_schedule(&key);
    assert!(tro::all_replayed());
    let mut i = 0;
    while i < 10 {
        assert!(kz::eq(&rk[i], &spec[i]));
        i += 1;
    }
}

// for every value of the ten encryption keys: uses S^-1(S(x)) = x
// @ob name=c_inv_enc_keys props=C07,C20 fn=kuznyechik::sse2::backends::inv_enc_keys uses=c_transform,c_dec_table_lo,c_dec_table_hi,c_slinv_table,l_linv_decomp,c_sub_bytes timeout=900
#[kani::proof]
#[kani::stub(transform, spec_transform)]
#[kani::stub(bcref::kuznyechik::l, ruf::l)]
#[kani::stub(bcref::kuznyechik::l_inv, ruf::l_inv)]
#[kani::stub(bcref::kuznyechik::c, crate::utils::__vp_utils::cref_lookup)]
#[kani::unwind(151)]
fn c_inv_enc_keys() {
    let enc = any_round_keys();
    let dec = raw_keys(&inv_enc_keys(&enc));
    let spec = spec_inv_keys(&raw_keys(&enc));
    let mut i = 0;
    while i < 10 {
        assert!(kz::eq(&dec[i], &spec[i]));
        i += 1;
    }
}

pub fn enc_block(rk: &RoundKeys, b: [u8; 16]) -> [u8; 16] {
    let inp = cipher::Array(b);
    let mut out = cipher::Array([0u8; 16]);
    cipher::BlockCipherEncBackend::encrypt_block(&EncBackend(rk), InOut::from((&inp, &mut out)));
    out.0
}
pub fn dec_block(rk: &RoundKeys, b: [u8; 16]) -> [u8; 16] {
    let inp = cipher::Array(b);
    let mut out = cipher::Array([0u8; 16]);
    cipher::BlockCipherDecBackend::decrypt_block(&DecBackend(rk), InOut::from((&inp, &mut out)));
    out.0
}

// for every value of the ten round keys and every block
// @ob name=c_enc_block props=C07,C20 fn=kuznyechik::sse2::backends::EncBackend::encrypt_block uses=c_transform,c_enc_table_lo,c_enc_table_hi,c_ls_table,l_l_decomp timeout=600
#[kani::proof]
#[kani::stub(transform, tr_transform)]
#[kani::stub(bcref::kuznyechik::lsx, tro::lsx)]
#[kani::unwind(17)]
fn c_enc_block() {
    let rk = any_round_keys();
    let b: [u8; 16] = kani::any();
    let real = enc_block(&rk, b);
    assert!(tro::recorded() == 9);
    tro::start_replay();
    let spec = kz::encrypt_with(&raw_keys(&rk), &b);
    assert!(tro::all_replayed());
    assert!(kz::eq(&real, &spec));
}

// for every value of the ten decryption words (with dk = spec_inv_keys(K) this is the standard's D under K:
// lemmas.l_dec_dk_is_standard).  The first stage uses S^-1(S(x)) = x (lemmas.l_s_inverse), see `tro::sd_first`.
// @ob name=c_dec_block props=C07,C20 fn=kuznyechik::sse2::backends::DecBackend::decrypt_block uses=c_transform,c_dec_table_lo,c_dec_table_hi,c_slinv_table,l_linv_decomp,c_sub_bytes,l_s_inverse timeout=600
#[kani::proof]
#[kani::stub(transform, tr_transform)]
#[kani::stub(sub_bytes, tr_sub_bytes)]
#[kani::stub(crate::__vp_lemmas::sd_first, tro::sd_first)]
#[kani::stub(crate::__vp_lemmas::sd_round, tro::sd_round)]
#[kani::stub(crate::__vp_lemmas::sd_last, tro::sd_last)]
#[kani::unwind(17)]
fn c_dec_block() {
    let dk = any_round_keys();
    let b: [u8; 16] = kani::any();
    let real = dec_block(&dk, b);
    assert!(tro::recorded() == 11);
    tro::start_replay();
    let spec = spec_dec_dk(&raw_keys(&dk), &b);
    assert!(tro::all_replayed());
    assert!(kz::eq(&real, &spec));
}

// ---- encrypt_par_blocks / decrypt_par_blocks (C04): for every value of the ten round keys and every four blocks, output
// lane j is what the single-block function returns on input lane j - buffer to buffer (input unchanged, guard blocks
// around the output untouched) and in place - for EVERY transform / sub_bytes (transcript oracle: the four single-block
// calls are recorded, the parallel function, which interleaves the lanes, must ask exactly the same questions; SCHED
// names which).  The keys are not written.
pub type Par = ParBlocks<EncBackend<'static>>;
pub fn par4(b: &[[u8; 16]; 4]) -> Par { cipher::Array([cipher::Array(b[0]), cipher::Array(b[1]), cipher::Array(b[2]), cipher::Array(b[3])]) }
macro_rules! par_blocks { ($name:ident, $single:ident, $backend:ident, $tr:ident, $par:ident, $calls:expr, $sched:expr) => {
    #[kani::proof]
    #[kani::stub(transform, tr_transform)]
    #[kani::stub(sub_bytes, tr_sub_bytes)]
    #[kani::unwind(65)]
    fn $name() {
        let rk = any_round_keys();
        let rk0 = raw_keys(&rk);
        let (b0, b1, b2, b3): ([u8; 16], [u8; 16], [u8; 16], [u8; 16]) = (kani::any(), kani::any(), kani::any(), kani::any());
        let inp = [b0, b1, b2, b3];
        // recorded: lane j alone, calls $calls * j .. $calls * (j + 1)
        let mut single = [[0u8; 16]; 4];
        let mut j = 0;
        while j < 4 {
            single[j] = $single(&rk, inp[j]);
            j += 1;
        }
        assert!(tro::recorded() == 4 * $calls);
        let mut p = 0;
        while p < 4 * $calls {
            let (lane, step): (usize, usize) = $sched(p);
            tro::sched(p, $calls * lane + step);
            p += 1;
        }
        // buffer to buffer
        tro::start_replay();
        let src = par4(&inp);
        let g: [u8; 16] = kani::any();
        let mut dst = [cipher::Array(g); 6];
        {
            let out: &mut Par = (&mut dst[1..5]).try_into().unwrap();
            cipher::$tr::$par(&$backend(&rk), InOut::from((&src, out)));
        }
        assert!(tro::all_replayed());
        assert!(kz::eq(&dst[0].0, &g) && kz::eq(&dst[5].0, &g));
        let mut j = 0;
        while j < 4 {
            assert!(kz::eq(&dst[1 + j].0, &single[j]));
            assert!(kz::eq(&src.0[j].0, &inp[j]));
            j += 1;
        }
        // in place
        tro::start_replay();
        let mut buf = [cipher::Array(g), cipher::Array(b0), cipher::Array(b1), cipher::Array(b2), cipher::Array(b3), cipher::Array(g)];
        {
            let io: &mut Par = (&mut buf[1..5]).try_into().unwrap();
            cipher::$tr::$par(&$backend(&rk), InOut::from(io));
        }
        assert!(tro::all_replayed());
        assert!(kz::eq(&buf[0].0, &g) && kz::eq(&buf[5].0, &g));
        let mut j = 0;
        while j < 4 {
            assert!(kz::eq(&buf[1 + j].0, &single[j]));
            j += 1;
        }
        // keys not written
        let rk1 = raw_keys(&rk);
        let mut i = 0;
        while i < 10 {
            assert!(kz::eq(&rk0[i], &rk1[i]));
            i += 1;
        }
    }
}; }
// encryption: single = 9 x LS; parallel call p = 4 * round + lane
fn sched_enc(p: usize) -> (usize, usize) { (p % 4, p / 4) }
// decryption: single = S, LISI, 8 x LISI, SI (11 calls); parallel: (S, LISI) per lane, then 8 rounds x 4 lanes, then SI per lane
fn sched_dec(p: usize) -> (usize, usize) {
    if p < 8 { (p / 2, p % 2) } else if p < 40 { ((p - 8) % 4, 2 + (p - 8) / 4) } else { (p - 40, 10) }
}
// @ob name=p_enc_par props=C04,C20 fn=kuznyechik::sse2::backends::EncBackend::encrypt_par_blocks,kuznyechik::sse2::backends::EncBackend::encrypt_block uses=c_transform timeout=600
par_blocks!(p_enc_par, enc_block, EncBackend, BlockCipherEncBackend, encrypt_par_blocks, 9, sched_enc);
// @ob name=p_dec_par props=C04,C20 fn=kuznyechik::sse2::backends::DecBackend::decrypt_par_blocks,kuznyechik::sse2::backends::DecBackend::decrypt_block uses=c_transform,c_sub_bytes timeout=600
par_blocks!(p_dec_par, dec_block, DecBackend, BlockCipherDecBackend, decrypt_par_blocks, 11, sched_dec);

// ---- contracts of key expansion / inversion as spec functions with the real signatures (stubs for api_*.rs)
pub fn spec_expand_enc_keys(key: &Key) -> RoundKeys { unsafe { core::mem::transmute(kz::key_schedule(&key.0)) } }
pub fn spec_inv_enc_keys(enc: &RoundKeys) -> RoundKeys { unsafe { core::mem::transmute(spec_inv_keys(&raw_keys(enc))) } }
