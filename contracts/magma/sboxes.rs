// Contracts on every function of magma/src/sboxes.rs against GOST R 34.12-2015 section 5.2 (bcref::magma):
//   gen_exp_sbox          == nibble-pair expansion, for EVERY set of eight 4-bit tables (symbolic table)
//   S::SBOX / S::EXP_SBOX == the reference's table / its expansion, for the six bundled sets and a user-supplied one
//   S::apply_sbox         == t over S's table, S::g == g[k] over S's table, for every argument
// plus the spec-level lemma that the byte-wise lookup through the expansion is t (for every table), and the
// "any table" form of g (apply_sbox replaced by t over a SYMBOLIC table).
//
// Stubbing note (Kani 0.68): a provided trait method is stubbed for ALL implementors at once by naming the trait
// item and giving another provided trait method as the stub: `#[kani::stub(SboxExt::g, SpecExt::sp_g)]`
// (a free generic fn is rejected: "mismatch in the number of generic parameters"); `<Tc26 as SboxExt>::g` works too.
//
// @module file=magma/src/sboxes.rs
use super::*;
use bcref::magma as r;

/// A user-supplied set: what a downstream crate can write against the public `magma::Sbox` trait.
/// Not one of the bundled sets; rows 0..6 are bijections x -> (2i+3)x + 5i + 1 mod 16, row 7 (x -> x^2 + 7 mod 16) is
/// deliberately NOT a bijection (GOST 28147-89 asks for substitution tables, not permutations).
pub enum UserS {}
pub const fn user_table() -> [[u8; 16]; 8] {
    let mut t = [[0u8; 16]; 8];
    let mut i = 0;
    while i < 8 {
        let mut x = 0;
        while x < 16 {
            t[i][x] = if i < 7 { (((2 * i + 3) * x + 5 * i + 1) & 15) as u8 } else { ((x * x + 7) & 15) as u8 };
            x += 1;
        }
        i += 1;
    }
    t
}
impl Sbox for UserS {
    const NAME: &'static str = "UserS";
    const SBOX: [[u8; 16]; 8] = user_table();
}

/// Contracts of `SboxExt::{apply_sbox, g}` as spec functions, usable as stubs for every implementor at once.
pub trait SpecExt: Sbox {
    fn sp_apply(a: u32) -> u32 { r::t(&Self::SBOX, a) }
    fn sp_g(a: u32, k: u32) -> u32 { r::g(&Self::SBOX, k, a) }
}
impl<T: Sbox> SpecExt for T {}

/// The same over a SYMBOLIC table (set up by `any_table()` in the harness): the "any user-supplied set" form.
pub static mut SYM_PI: r::Pi = [[0; 16]; 8];
#[allow(static_mut_refs)]
pub fn sym_pi() -> r::Pi { unsafe { SYM_PI } }
#[allow(static_mut_refs)]
pub fn any_table() -> r::Pi {
    let pi: r::Pi = kani::any();
    kani::assume(r::is_nibble_set(&pi));
    unsafe { SYM_PI = pi; }
    pi
}
pub trait SymExt: Sbox {
    #[allow(static_mut_refs)]
    fn sym_apply(a: u32) -> u32 { r::t(unsafe { &SYM_PI }, a) }
    #[allow(static_mut_refs)]
    fn sym_g(a: u32, k: u32) -> u32 { r::g(unsafe { &SYM_PI }, k, a) }
}
impl<T: Sbox> SymExt for T {}

pub fn eq_pi(a: &[[u8; 16]; 8], b: &[[u8; 16]; 8]) -> bool {
    let mut ok = true;
    let mut i = 0;
    while i < 8 {
        let mut j = 0;
        while j < 16 {
            ok &= a[i][j] == b[i][j];
            j += 1;
        }
        i += 1;
    }
    ok
}

// ---------------------------------------------------------------- gen_exp_sbox, for every set of 4-bit tables
// Also C20 for the generator: no overflow / out-of-bounds for any set of 4-bit entries (it is evaluated at compile
// time for each implementor, where an overflow would be a build error rather than a run-time panic).
// @ob name=c_gen_exp_sbox props=C07,C20 fn=magma::sboxes::gen_exp_sbox timeout=600
#[kani::proof]
#[kani::unwind(257)]
fn c_gen_exp_sbox() {
    let pi: SmallSbox = kani::any();
    kani::assume(r::is_nibble_set(&pi));
    kani::cover!(pi[7][15] == 15 && pi[0][0] == 15 && pi[3][4] == pi[3][5]);
    let e = gen_exp_sbox(&pi);
    let mut i = 0;
    while i < 4 {
        let mut b = 0;
        while b < 256 {
            assert!(e[i][b] == r::expand_entry(&pi, i, b as u8));
            b += 1;
        }
        i += 1;
    }
}

// Spec-level lemma, for every table of 4-bit entries and every word: looking the four bytes of `a` up in the
// expansion and placing the results at the same byte positions is t(a).  (c_gen_exp_sbox + this lemma + the body of
// apply_sbox, which reads the table only through EXP_SBOX, give apply_sbox == t for any implementor.)
// @ob name=l_expansion_is_t props=C07 kind=lemma fn=magma::sboxes::gen_exp_sbox,magma::sboxes::SboxExt::apply_sbox timeout=600
#[kani::proof]
#[kani::unwind(17)]
fn l_expansion_is_t() {
    let pi: r::Pi = kani::any();
    kani::assume(r::is_nibble_set(&pi));
    let a: u32 = kani::any();
    let mut v = 0u32;
    let mut i = 0;
    while i < 4 {
        let b = ((a >> (8 * i)) & 0xff) as u8;
        v |= (r::expand_entry(&pi, i, b) as u32) << (8 * i);
        i += 1;
    }
    assert!(v == r::t(&pi, a));
}

// ---------------------------------------------------------------- the bundled sets and the user-supplied one
macro_rules! sbox_type {
    ($table:ident, $apply:ident, $g:ident, $ty:ident, $pi:expr, $name:expr) => {
        // table, its compile-time expansion and the name
        #[kani::proof]
        #[kani::unwind(257)]
        fn $table() {
            let pi: r::Pi = $pi;
            assert!(eq_pi(&<$ty as Sbox>::SBOX, &pi));
            assert!(r::is_nibble_set(&<$ty as Sbox>::SBOX));
            let e = <$ty as SboxExt>::EXP_SBOX;
            let mut i = 0;
            while i < 4 {
                let mut b = 0;
                while b < 256 {
                    assert!(e[i][b] == r::expand_entry(&pi, i, b as u8));
                    b += 1;
                }
                i += 1;
            }
            let n = <$ty as Sbox>::NAME.as_bytes();
            let m = $name.as_bytes();
            assert!(n.len() == m.len());
            let mut i = 0;
            while i < m.len() {
                assert!(n[i] == m[i]);
                i += 1;
            }
        }
        // t of GOST R 34.12-2015 5.2 over this set, every argument
        #[kani::proof]
        #[kani::unwind(17)]
        fn $apply() {
            let a: u32 = kani::any();
            let pi: r::Pi = $pi;
            assert!(<$ty as SboxExt>::apply_sbox(a) == r::t(&pi, a));
            assert!(<$ty as SboxExt>::apply_sbox(a) == <$ty as SpecExt>::sp_apply(a));
        }
        // g[k] of 5.2 over this set, every argument and key word (no stubs)
        #[kani::proof]
        #[kani::unwind(17)]
        fn $g() {
            let a: u32 = kani::any();
            let k: u32 = kani::any();
            let pi: r::Pi = $pi;
            assert!(<$ty as SboxExt>::g(a, k) == r::g(&pi, k, a));
            assert!(<$ty as SboxExt>::g(a, k) == <$ty as SpecExt>::sp_g(a, k));
        }
    };
}
// @ob name=c_tc26_table props=C07 kind=exhaustive fn=magma::sboxes::Tc26::SBOX,magma::sboxes::Tc26::EXP_SBOX,magma::sboxes::gen_exp_sbox timeout=300
// @ob name=c_tc26_apply props=C07,C20 fn=magma::sboxes::SboxExt::apply_sbox timeout=300
// @ob name=c_tc26_gfun props=C07,C20 fn=magma::sboxes::SboxExt::g,magma::sboxes::SboxExt::apply_sbox timeout=300
sbox_type!(c_tc26_table, c_tc26_apply, c_tc26_gfun, Tc26, r::PI_TC26, "Tc26");
// @ob name=c_test_table props=C07 kind=exhaustive fn=magma::sboxes::TestSbox::SBOX,magma::sboxes::TestSbox::EXP_SBOX,magma::sboxes::gen_exp_sbox timeout=300
// @ob name=c_test_apply props=C07,C20 fn=magma::sboxes::SboxExt::apply_sbox timeout=300
// @ob name=c_test_gfun props=C07,C20 fn=magma::sboxes::SboxExt::g,magma::sboxes::SboxExt::apply_sbox timeout=300
sbox_type!(c_test_table, c_test_apply, c_test_gfun, TestSbox, r::PI_TEST, "TestSbox");
// @ob name=c_cpa_table props=C07 kind=exhaustive fn=magma::sboxes::CryptoProA::SBOX,magma::sboxes::CryptoProA::EXP_SBOX,magma::sboxes::gen_exp_sbox timeout=300
// @ob name=c_cpa_apply props=C07,C20 fn=magma::sboxes::SboxExt::apply_sbox timeout=300
// @ob name=c_cpa_gfun props=C07,C20 fn=magma::sboxes::SboxExt::g,magma::sboxes::SboxExt::apply_sbox timeout=300
sbox_type!(c_cpa_table, c_cpa_apply, c_cpa_gfun, CryptoProA, r::PI_CRYPTOPRO_A, "CryptoProA");
// @ob name=c_cpb_table props=C07 kind=exhaustive fn=magma::sboxes::CryptoProB::SBOX,magma::sboxes::CryptoProB::EXP_SBOX,magma::sboxes::gen_exp_sbox timeout=300
// @ob name=c_cpb_apply props=C07,C20 fn=magma::sboxes::SboxExt::apply_sbox timeout=300
// @ob name=c_cpb_gfun props=C07,C20 fn=magma::sboxes::SboxExt::g,magma::sboxes::SboxExt::apply_sbox timeout=300
sbox_type!(c_cpb_table, c_cpb_apply, c_cpb_gfun, CryptoProB, r::PI_CRYPTOPRO_B, "CryptoProB");
// @ob name=c_cpc_table props=C07 kind=exhaustive fn=magma::sboxes::CryptoProC::SBOX,magma::sboxes::CryptoProC::EXP_SBOX,magma::sboxes::gen_exp_sbox timeout=300
// @ob name=c_cpc_apply props=C07,C20 fn=magma::sboxes::SboxExt::apply_sbox timeout=300
// @ob name=c_cpc_gfun props=C07,C20 fn=magma::sboxes::SboxExt::g,magma::sboxes::SboxExt::apply_sbox timeout=300
sbox_type!(c_cpc_table, c_cpc_apply, c_cpc_gfun, CryptoProC, r::PI_CRYPTOPRO_C, "CryptoProC");
// @ob name=c_cpd_table props=C07 kind=exhaustive fn=magma::sboxes::CryptoProD::SBOX,magma::sboxes::CryptoProD::EXP_SBOX,magma::sboxes::gen_exp_sbox timeout=300
// @ob name=c_cpd_apply props=C07,C20 fn=magma::sboxes::SboxExt::apply_sbox timeout=300
// @ob name=c_cpd_gfun props=C07,C20 fn=magma::sboxes::SboxExt::g,magma::sboxes::SboxExt::apply_sbox timeout=300
sbox_type!(c_cpd_table, c_cpd_apply, c_cpd_gfun, CryptoProD, r::PI_CRYPTOPRO_D, "CryptoProD");
// the user-supplied set (one concrete non-bundled, non-bijective table; genericity over the table: c_gen_exp_sbox, l_expansion_is_t)
// @ob name=c_user_table props=C07 kind=bounded bound="user-supplied set sampled by one concrete non-bundled table; genericity over the table rests on gen_exp_sbox being proved for every table" fn=magma::sboxes::gen_exp_sbox timeout=300
// @ob name=c_user_apply props=C07,C20 kind=bounded bound="user-supplied set sampled by one concrete non-bundled table; genericity over the table rests on gen_exp_sbox being proved for every table (c_gen_exp_sbox) and l_expansion_is_t" fn=magma::sboxes::SboxExt::apply_sbox uses=c_gen_exp_sbox timeout=300
// @ob name=c_user_gfun props=C07,C20 kind=bounded bound="user-supplied set sampled by one concrete non-bundled table; see c_any_table_gfun for every table" fn=magma::sboxes::SboxExt::g,magma::sboxes::SboxExt::apply_sbox timeout=300
sbox_type!(c_user_table, c_user_apply, c_user_gfun, UserS, user_table(), "UserS");

// g over ANY table of 4-bit entries: apply_sbox replaced by its contract over a symbolic table (the body of g does
// not look at the table at all): g(a,k) = t(a [+] k) <<< 11.
// @ob name=c_any_table_gfun props=C07,C20 fn=magma::sboxes::SboxExt::g uses=c_gen_exp_sbox,l_expansion_is_t,c_user_apply timeout=300
#[kani::proof]
#[kani::stub(SboxExt::apply_sbox, SymExt::sym_apply)]
#[kani::unwind(17)]
fn c_any_table_gfun() {
    let pi = any_table();
    kani::cover!(pi[7][15] == 15 && pi[0][0] == 7);
    let a: u32 = kani::any();
    let k: u32 = kani::any();
    assert!(<UserS as SboxExt>::g(a, k) == r::g(&pi, k, a));
    assert!(<Tc26 as SboxExt>::g(a, k) == r::g(&pi, k, a));
}

// The user table really is none of the bundled ones, and row 7 is not a bijection.
// @ob name=l_user_table_is_new props=C07 kind=lemma fn=magma::sboxes::Sbox timeout=120
#[kani::proof]
#[kani::unwind(17)]
fn l_user_table_is_new() {
    let u = user_table();
    assert!(r::is_nibble_set(&u) && !r::is_permutation_set(&u));
    assert!(!eq_pi(&u, &r::PI_TC26) && !eq_pi(&u, &r::PI_TEST) && !eq_pi(&u, &r::PI_CRYPTOPRO_A));
    assert!(!eq_pi(&u, &r::PI_CRYPTOPRO_B) && !eq_pi(&u, &r::PI_CRYPTOPRO_C) && !eq_pi(&u, &r::PI_CRYPTOPRO_D));
}
