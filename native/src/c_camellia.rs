//! camellia: Camellia128/192/256 against RFC 3713 (bcref::camellia), C06.
use crate::generic::*;
use crate::util::*;
use bcref::camellia as r;

desc!(D128: camellia::Camellia128, "camellia", "Camellia128", [16], "C06", [clone, debug, alg], names ["Camellia128", "Camellia"], alg ["camellia", "128"],
    |k, b, dec| Some(if dec { r::decrypt_128(&arr(k), &arr(b)) } else { r::encrypt_128(&arr(k), &arr(b)) }.to_vec()));
desc!(D192: camellia::Camellia192, "camellia", "Camellia192", [24], "C06", [clone, debug, alg], names ["Camellia192", "Camellia"], alg ["camellia", "192"],
    |k, b, dec| Some(if dec { r::decrypt_192(&arr(k), &arr(b)) } else { r::encrypt_192(&arr(k), &arr(b)) }.to_vec()));
desc!(D256: camellia::Camellia256, "camellia", "Camellia256", [32], "C06", [clone, debug, alg], names ["Camellia256", "Camellia"], alg ["camellia", "256"],
    |k, b, dec| Some(if dec { r::decrypt_256(&arr(k), &arr(b)) } else { r::encrypt_256(&arr(k), &arr(b)) }.to_vec()));

pub fn run() {
    visit::<D128>();
    visit::<D192>();
    visit::<D256>();
}
