// Contracts on idea/src/lib.rs (the whole crate: one type, `Idea`) against bcref::idea
// (Lai / Massey / Murphy, EUROCRYPT '91 and Lai's thesis 1992: three group operations, 8 rounds + output
// transformation, 25-bit rotating key schedule, decryption subkeys = table 3.2).
//
// Structure of the proof:
//   leaf contracts    mul == multiplication modulo 2^16+1 (0 stands for 2^16)      all 2^32 pairs, symbolic
//                     add, add_inv                                                  symbolic
//                     mul_inv == a^(2^16-1) and mul(a, mul_inv(a)) == 1             all 2^16 inputs, exhaustive, 16 chunks
//   key schedule      expand_key == enc_subkeys, invert_sub_keys == dec_subkeys     (mul_inv replaced by an uninterpreted function)
//   block function    crypt == reference computation for EVERY list of 52 subkeys   (mul replaced by an uninterpreted function)
//   well-formedness   wf(c): c.dec_keys == dec_subkeys(c.enc_keys); `new` establishes it
//   round trip        over the group axioms of mul / mul_inv (uninterpreted inverse action), both orders, every enc_keys
//
// mul_inv is NEVER inlined into a symbolic harness (unbounded Euclid loop): it is either executed on concrete
// inputs or replaced by an uninterpreted function.
//
// @module file=idea/src/lib.rs
// @config name=zeroize features=zeroize
use super::*;
use cipher::{Array, KeyInit};
include!("@VERIF@/contracts/_common/common.rs");
include!("@VERIF@/contracts/cast5/group_macros.rs");

pub fn any_idea() -> Idea { Idea { enc_keys: kani::any(), dec_keys: kani::any() } }
fn snap(c: &Idea) -> [[u16; 52]; 2] { [c.enc_keys, c.dec_keys] }
pub fn eq52(a: &[u16; 52], b: &[u16; 52]) -> bool {
    let mut ok = true;
    let mut i = 0;
    while i < 52 {
        ok &= a[i] == b[i];
        i += 1;
    }
    ok
}
fn eqsnap(a: &[[u16; 52]; 2], b: &[[u16; 52]; 2]) -> bool { eq52(&a[0], &b[0]) && eq52(&a[1], &b[1]) }
fn same(a: &Idea, b: &Idea) -> bool { eq52(&a.enc_keys, &b.enc_keys) && eq52(&a.dec_keys, &b.dec_keys) }

// ---------------------------------------------------------------- leaf contracts (C09, C20)
// @ob name=c_idea_mul props=C09,C20 fn=idea::Idea::mul timeout=600
#[kani::proof]
fn c_idea_mul() {
    let c = any_idea();
    let (a, b): (u16, u16) = (kani::any(), kani::any());
    assert!(c.mul(a, b) == bcref::idea::mul(a, b));
}

// @ob name=c_idea_add props=C09,C20 fn=idea::Idea::add,idea::Idea::add_inv timeout=300
#[kani::proof]
fn c_idea_add() {
    let c = any_idea();
    let (a, b): (u16, u16) = (kani::any(), kani::any());
    assert!(c.add(a, b) == bcref::idea::add(a, b));
    assert!(c.add_inv(a) == bcref::idea::add_inv(a));
    assert!(c.add(a, c.add_inv(a)) == 0);
}

// mul_inv on all 2^16 inputs, executed concretely (16 chunks of 4096; CBMC's symbolic execution needs ~0.15 s
// per input, hence the thorough tier): equals the Fermat inverse of the reference, is a two-sided inverse for the
// real mul, returns without overflow or division by zero.
macro_rules! mul_inv_chunk {
    ($name:ident, $c:expr) => {
        #[kani::proof]
        #[kani::unwind(4098)]
        fn $name() {
            let c = Idea { enc_keys: [0; 52], dec_keys: [0; 52] };
            let mut a: u32 = $c * 4096;
            while a < ($c + 1) * 4096 {
                let i = c.mul_inv(a as u16);
                assert!(i == bcref::idea::mul_inv(a as u16));
                assert!(c.mul(a as u16, i) == 1 && c.mul(i, a as u16) == 1);
                a += 1;
            }
        }
    };
}
// @ob name=x_idea_mul_inv_c00 props=C09,C01,C20 kind=exhaustive tier=thorough fn=idea::Idea::mul_inv timeout=2400 note="inputs 0x0000..=0x0fff"
mul_inv_chunk!(x_idea_mul_inv_c00, 0);
// @ob name=x_idea_mul_inv_c01 props=C09,C01,C20 kind=exhaustive tier=thorough fn=idea::Idea::mul_inv timeout=2400 note="inputs 0x1000..=0x1fff"
mul_inv_chunk!(x_idea_mul_inv_c01, 1);
// @ob name=x_idea_mul_inv_c02 props=C09,C01,C20 kind=exhaustive tier=thorough fn=idea::Idea::mul_inv timeout=2400 note="inputs 0x2000..=0x2fff"
mul_inv_chunk!(x_idea_mul_inv_c02, 2);
// @ob name=x_idea_mul_inv_c03 props=C09,C01,C20 kind=exhaustive tier=thorough fn=idea::Idea::mul_inv timeout=2400 note="inputs 0x3000..=0x3fff"
mul_inv_chunk!(x_idea_mul_inv_c03, 3);
// @ob name=x_idea_mul_inv_c04 props=C09,C01,C20 kind=exhaustive tier=thorough fn=idea::Idea::mul_inv timeout=2400 note="inputs 0x4000..=0x4fff"
mul_inv_chunk!(x_idea_mul_inv_c04, 4);
// @ob name=x_idea_mul_inv_c05 props=C09,C01,C20 kind=exhaustive tier=thorough fn=idea::Idea::mul_inv timeout=2400 note="inputs 0x5000..=0x5fff"
mul_inv_chunk!(x_idea_mul_inv_c05, 5);
// @ob name=x_idea_mul_inv_c06 props=C09,C01,C20 kind=exhaustive tier=thorough fn=idea::Idea::mul_inv timeout=2400 note="inputs 0x6000..=0x6fff"
mul_inv_chunk!(x_idea_mul_inv_c06, 6);
// @ob name=x_idea_mul_inv_c07 props=C09,C01,C20 kind=exhaustive tier=thorough fn=idea::Idea::mul_inv timeout=2400 note="inputs 0x7000..=0x7fff"
mul_inv_chunk!(x_idea_mul_inv_c07, 7);
// @ob name=x_idea_mul_inv_c08 props=C09,C01,C20 kind=exhaustive tier=thorough fn=idea::Idea::mul_inv timeout=2400 note="inputs 0x8000..=0x8fff"
mul_inv_chunk!(x_idea_mul_inv_c08, 8);
// @ob name=x_idea_mul_inv_c09 props=C09,C01,C20 kind=exhaustive tier=thorough fn=idea::Idea::mul_inv timeout=2400 note="inputs 0x9000..=0x9fff"
mul_inv_chunk!(x_idea_mul_inv_c09, 9);
// @ob name=x_idea_mul_inv_c10 props=C09,C01,C20 kind=exhaustive tier=thorough fn=idea::Idea::mul_inv timeout=2400 note="inputs 0xa000..=0xafff"
mul_inv_chunk!(x_idea_mul_inv_c10, 10);
// @ob name=x_idea_mul_inv_c11 props=C09,C01,C20 kind=exhaustive tier=thorough fn=idea::Idea::mul_inv timeout=2400 note="inputs 0xb000..=0xbfff"
mul_inv_chunk!(x_idea_mul_inv_c11, 11);
// @ob name=x_idea_mul_inv_c12 props=C09,C01,C20 kind=exhaustive tier=thorough fn=idea::Idea::mul_inv timeout=2400 note="inputs 0xc000..=0xcfff"
mul_inv_chunk!(x_idea_mul_inv_c12, 12);
// @ob name=x_idea_mul_inv_c13 props=C09,C01,C20 kind=exhaustive tier=thorough fn=idea::Idea::mul_inv timeout=2400 note="inputs 0xd000..=0xdfff"
mul_inv_chunk!(x_idea_mul_inv_c13, 13);
// @ob name=x_idea_mul_inv_c14 props=C09,C01,C20 kind=exhaustive tier=thorough fn=idea::Idea::mul_inv timeout=2400 note="inputs 0xe000..=0xefff"
mul_inv_chunk!(x_idea_mul_inv_c14, 14);
// @ob name=x_idea_mul_inv_c15 props=C09,C01,C20 kind=exhaustive tier=thorough fn=idea::Idea::mul_inv timeout=2400 note="inputs 0xf000..=0xffff"
mul_inv_chunk!(x_idea_mul_inv_c15, 15);

// quick-tier stand-in for the sixteen chunks: the 384 inputs around the corners of the domain
// @ob name=x_idea_mul_inv_sample props=C09,C01,C20 kind=bounded bound="inputs 0x0000..=0x007f, 0x7fc0..=0x803f, 0xff80..=0xffff (the complete domain is covered by x_idea_mul_inv_c00..c15 in the thorough tier)" fn=idea::Idea::mul_inv timeout=600
#[kani::proof]
#[kani::unwind(130)]
fn x_idea_mul_inv_sample() {
    let c = Idea { enc_keys: [0; 52], dec_keys: [0; 52] };
    let starts: [u32; 3] = [0x0000, 0x7fc0, 0xff80];
    let mut s = 0;
    while s < 3 {
        let mut a = starts[s];
        while a < starts[s] + 128 {
            let i = c.mul_inv(a as u16);
            assert!(i == bcref::idea::mul_inv(a as u16));
            assert!(c.mul(a as u16, i) == 1);
            a += 1;
        }
        s += 1;
    }
}

// ---------------------------------------------------------------- uninterpreted stand-ins
/// `inv`: uninterpreted function u16 -> u16 standing for BOTH Idea::mul_inv and bcref::idea::mul_inv
/// (licensed by x_idea_mul_inv_c00..c15: they are the same function).
/// `mul`: uninterpreted function (u16, u16) -> u16 standing for BOTH Idea::mul and bcref::idea::mul
/// (licensed by c_idea_mul).  `gmul`: the same with the group axiom  mul(mul(x, k), k') == x  whenever
/// k' = inv(k) or k = inv(k')  (licensed by c_idea_mul, l_idea_mul_unit, x_idea_mul_inv_*, and associativity of
/// multiplication modulo the prime 65537, l_idea_mul_assoc).
///
/// The consistency tables are organised in slots by the (concrete) call number: call c only looks at earlier calls
/// in its own slot.  An uninterpreted function that is consulted for FEWER equalities than hold is still a sound
/// abstraction (more behaviours, never fewer); the slot map only has to be good enough for the proof to go
/// through.  MODE 0: slot = c mod 34 / c mod 18 (real run and reference run make the same calls in the same order).
/// MODE 1 (round trip): the second `crypt` run's call 4r+q is paired with the first run's call that it undoes:
/// the key-mixing multiplications (q < 2) of round r with those of round 8 - r, the MA multiplications (q >= 2)
/// with those of round 7 - r.
pub mod ufi {
    use super::Idea;
    pub static mut MODE: usize = 0;
    pub const ISLOTS: usize = 18;
    pub const IPER: usize = 4;
    pub static mut IA: [[u16; IPER]; ISLOTS] = [[0; IPER]; ISLOTS];
    pub static mut IR: [[u16; IPER]; ISLOTS] = [[0; IPER]; ISLOTS];
    pub static mut ICNT: [usize; ISLOTS] = [0; ISLOTS];
    pub static mut ICALLS: usize = 0;
    #[allow(static_mut_refs)]
    pub fn inv(a: u16) -> u16 {
        unsafe {
            let s = ICALLS % ISLOTS;
            ICALLS += 1;
            let mut r: u16 = kani::any();
            let mut found = false;
            let mut i = 0;
            while i < ICNT[s] {
                if !found && IA[s][i] == a { r = IR[s][i]; found = true; }
                i += 1;
            }
            assert!(ICNT[s] < IPER);
            IA[s][ICNT[s]] = a; IR[s][ICNT[s]] = r; ICNT[s] += 1;
            r
        }
    }
    pub fn real_inv(_c: &Idea, a: u16) -> u16 { inv(a) }
    /// k and k2 are known to be mutually inverse (a recorded inv call relates them, in either direction)
    #[allow(static_mut_refs)]
    pub fn related(k: u16, k2: u16) -> bool {
        unsafe {
            let mut rel = false;
            let mut s = 0;
            while s < ISLOTS {
                let mut i = 0;
                while i < ICNT[s] {
                    rel |= (IA[s][i] == k && IR[s][i] == k2) || (IA[s][i] == k2 && IR[s][i] == k);
                    i += 1;
                }
                s += 1;
            }
            rel
        }
    }

    pub const MSLOTS: usize = 34;
    pub const MPER: usize = 4;
    pub static mut MA: [[u16; MPER]; MSLOTS] = [[0; MPER]; MSLOTS];
    pub static mut MB: [[u16; MPER]; MSLOTS] = [[0; MPER]; MSLOTS];
    pub static mut MR: [[u16; MPER]; MSLOTS] = [[0; MPER]; MSLOTS];
    pub static mut MCNT: [usize; MSLOTS] = [0; MSLOTS];
    pub static mut MCALLS: usize = 0;
    #[allow(static_mut_refs)]
    fn slot_of(c: usize) -> usize {
        unsafe {
            if MODE == 0 || c < MSLOTS {
                c % MSLOTS
            } else {
                let c2 = (c - MSLOTS) % MSLOTS;
                let (r, q) = (c2 / 4, c2 % 4);
                if q < 2 { 4 * (8 - r) + q } else { 4 * (7 - r) + q }
            }
        }
    }
    #[allow(static_mut_refs)]
    fn mul_impl(a: u16, b: u16, group: bool) -> u16 {
        unsafe {
            let s = slot_of(MCALLS);
            MCALLS += 1;
            let mut r: u16 = kani::any();
            let mut found = false;
            let mut i = 0;
            while i < MCNT[s] {
                if !found && MA[s][i] == a && MB[s][i] == b { r = MR[s][i]; found = true; }
                i += 1;
            }
            if group {
                // a = mul(x0, k0) recorded, and b is the inverse of k0: the result is x0
                let mut i = 0;
                while i < MCNT[s] {
                    if !found && MR[s][i] == a && related(MB[s][i], b) { r = MA[s][i]; found = true; }
                    i += 1;
                }
            }
            assert!(MCNT[s] < MPER);
            MA[s][MCNT[s]] = a; MB[s][MCNT[s]] = b; MR[s][MCNT[s]] = r; MCNT[s] += 1;
            r
        }
    }
    pub fn mul(a: u16, b: u16) -> u16 { mul_impl(a, b, false) }
    pub fn real_mul(_c: &Idea, a: u16, b: u16) -> u16 { mul_impl(a, b, false) }
    pub fn real_gmul(_c: &Idea, a: u16, b: u16) -> u16 { mul_impl(a, b, true) }
}

// ---------------------------------------------------------------- key schedule
// @ob name=c_idea_expand_key props=C09,C20 fn=idea::Idea::expand_key timeout=300
#[kani::proof]
#[kani::unwind(53)]
fn c_idea_expand_key() {
    let k: [u8; 16] = kani::any();
    let mut c = any_idea();
    let dec_before = c.dec_keys;
    c.expand_key(&Array(k));
    assert!(eq52(&c.enc_keys, &bcref::idea::enc_subkeys(&k)));
    assert!(eq52(&c.dec_keys, &dec_before)); // frame
}

// invert_sub_keys == table 3.2, for every list of encryption subkeys
// @ob name=c_idea_invert props=C09,C20 fn=idea::Idea::invert_sub_keys uses=x_idea_mul_inv_c00 timeout=300
#[kani::proof]
#[kani::stub(Idea::mul_inv, ufi::real_inv)]
#[kani::stub(bcref::idea::mul_inv, ufi::inv)]
#[kani::unwind(53)]
fn c_idea_invert() {
    let mut c = any_idea();
    let enc_before = c.enc_keys;
    c.invert_sub_keys();
    assert!(eq52(&c.dec_keys, &bcref::idea::dec_subkeys(&enc_before)));
    assert!(eq52(&c.enc_keys, &enc_before)); // frame
}

/// Well-formedness of a keyed instance: the decryption subkeys are the inverted encryption subkeys.
pub fn wf(c: &Idea) -> bool { eq52(&c.dec_keys, &bcref::idea::dec_subkeys(&c.enc_keys)) }

// the constructors establish: enc_keys == enc_subkeys(key) and wf
// @ob name=c_idea_new props=C09,C11,C20 fn=idea::Idea::new,idea::Idea::new_from_slice uses=x_idea_mul_inv_c00 timeout=300
#[kani::proof]
#[kani::stub(Idea::mul_inv, ufi::real_inv)]
#[kani::stub(bcref::idea::mul_inv, ufi::inv)]
#[kani::unwind(53)]
fn c_idea_new() {
    let k: [u8; 16] = kani::any();
    let c = Idea::new(&Array(k));
    assert!(eq52(&c.enc_keys, &bcref::idea::enc_subkeys(&k)));
    assert!(wf(&c));
    let d = Idea::new_from_slice(&k[..]).unwrap();
    assert!(same(&c, &d));
    let e = c.clone();
    assert!(same(&c, &e));
}

// ---------------------------------------------------------------- block function
/// contract of Idea::crypt as a spec function
pub fn spec_crypt(_c: &Idea, mut block: InOut<'_, '_, Block<Idea>>, sub_keys: &[u16; 52]) {
    let b = block.get_in().0;
    *block.get_out() = Array(bcref::idea::crypt(&b, sub_keys));
}

// crypt == the reference computation, for every block and EVERY list of 52 subkeys (both directions use it)
// @ob name=c_idea_crypt props=C09,C20 fn=idea::Idea::crypt uses=c_idea_mul timeout=600
#[kani::proof]
#[kani::stub(Idea::mul, ufi::real_mul)]
#[kani::stub(bcref::idea::mul, ufi::mul)]
#[kani::unwind(53)]
fn c_idea_crypt() {
    let c = any_idea();
    let sk: [u16; 52] = kani::any();
    let b: [u8; 8] = kani::any();
    let mut blk = Array(b);
    c.crypt((&mut blk).into(), &sk);
    let r = bcref::idea::crypt(&b, &sk);
    assert!(u64::from_be_bytes(blk.0) == u64::from_be_bytes(r));
}

// encrypt_block / decrypt_block hand the right subkey list to crypt
// @ob name=c_idea_block_fns props=C09,C20 fn=idea::Idea::encrypt_block,idea::Idea::decrypt_block uses=c_idea_crypt timeout=300
#[kani::proof]
#[kani::stub(Idea::crypt, spec_crypt)]
#[kani::stub(bcref::idea::mul, ufi::mul)]
#[kani::unwind(53)]
fn c_idea_block_fns() {
    let c = any_idea();
    let b: [u8; 8] = kani::any();
    let mut blk = Array(b);
    cipher::BlockCipherEncrypt::encrypt_block(&c, &mut blk);
    assert!(blk.0 == bcref::idea::crypt(&b, &c.enc_keys));
    let mut blk = Array(b);
    cipher::BlockCipherDecrypt::decrypt_block(&c, &mut blk);
    assert!(blk.0 == bcref::idea::crypt(&b, &c.dec_keys));
}

// Public API on bytes: new + encrypt_block / decrypt_block == IDEA, for every key and block
// @ob name=c_idea_bytes_api props=C09,C20 fn=idea::Idea::new,idea::Idea::encrypt_block,idea::Idea::decrypt_block
//     uses=c_idea_crypt,c_idea_mul,x_idea_mul_inv_c00 timeout=600
#[kani::proof]
#[kani::stub(Idea::crypt, spec_crypt)]
#[kani::stub(Idea::mul_inv, ufi::real_inv)]
#[kani::stub(bcref::idea::mul_inv, ufi::inv)]
#[kani::stub(bcref::idea::mul, ufi::mul)]
#[kani::unwind(53)]
fn c_idea_bytes_api() {
    let k: [u8; 16] = kani::any();
    let b: [u8; 8] = kani::any();
    let c = Idea::new(&Array(k));
    let mut blk = Array(b);
    cipher::BlockCipherEncrypt::encrypt_block(&c, &mut blk);
    assert!(blk.0 == bcref::idea::encrypt(&k, &b));
    let mut blk = Array(b);
    cipher::BlockCipherDecrypt::decrypt_block(&c, &mut blk);
    assert!(blk.0 == bcref::idea::decrypt(&k, &b));
}

// ---------------------------------------------------------------- C01 round trip
// 1 is the unit of mul; with associativity (l_idea_mul_assoc) and x_idea_mul_inv_* (mul(k, inv k) == mul(inv k, k) == 1)
// this gives the axiom of `ufi::real_gmul`:  mul(mul(x, k), k') = mul(x, mul(k, k')) = mul(x, 1) = x  whenever k, k' are
// an inverse pair in either order.
// @ob name=l_idea_mul_unit props=C01 kind=lemma fn=idea::Idea::mul timeout=600
#[kani::proof]
fn l_idea_mul_unit() {
    let c = any_idea();
    let a: u16 = kani::any();
    assert!(c.mul(a, 1) == a);
    assert!(c.mul(1, a) == a);
}

// associativity of the real mul on all 2^48 triples
// (not run to completion in the contributing session: not registered; the axiom was instead checked natively on all
// 2^32 (x, k) pairs: bcref::idea::tests::group_axiom_exhaustive, and on a copy of the real mul / mul_inv)
// @candidate name=l_idea_mul_assoc props=C01 kind=lemma tier=thorough fn=idea::Idea::mul timeout=3600
#[kani::proof]
fn l_idea_mul_assoc() {
    let c = any_idea();
    let (x, k, j): (u16, u16, u16) = (kani::any(), kani::any(), kani::any());
    assert!(c.mul(c.mul(x, k), j) == c.mul(x, c.mul(k, j)));
}

// decrypt(encrypt(b)) == b for every list of encryption subkeys, the decryption subkeys being produced by the
// real invert_sub_keys; mul / mul_inv are the uninterpreted group action.
// @ob name=l_idea_roundtrip_ed props=C01 kind=lemma fn=idea::Idea::crypt,idea::Idea::invert_sub_keys,idea::Idea::encrypt_block,idea::Idea::decrypt_block
//     uses=c_idea_mul,l_idea_mul_unit,l_idea_mul_assoc,x_idea_mul_inv_c00 timeout=900
#[kani::proof]
#[kani::stub(Idea::mul, ufi::real_gmul)]
#[kani::stub(Idea::mul_inv, ufi::real_inv)]
#[kani::unwind(53)]
fn l_idea_roundtrip_ed() {
    unsafe { ufi::MODE = 1; }
    let mut c = Idea { enc_keys: kani::any(), dec_keys: [0; 52] };
    c.invert_sub_keys();
    let b: [u8; 8] = kani::any();
    let mut blk = Array(b);
    cipher::BlockCipherEncrypt::encrypt_block(&c, &mut blk);
    cipher::BlockCipherDecrypt::decrypt_block(&c, &mut blk);
    assert!(u64::from_be_bytes(blk.0) == u64::from_be_bytes(b));
}
// @ob name=l_idea_roundtrip_de props=C01 kind=lemma fn=idea::Idea::crypt,idea::Idea::invert_sub_keys,idea::Idea::encrypt_block,idea::Idea::decrypt_block
//     uses=c_idea_mul,l_idea_mul_unit,l_idea_mul_assoc,x_idea_mul_inv_c00 timeout=900
#[kani::proof]
#[kani::stub(Idea::mul, ufi::real_gmul)]
#[kani::stub(Idea::mul_inv, ufi::real_inv)]
#[kani::unwind(53)]
fn l_idea_roundtrip_de() {
    unsafe { ufi::MODE = 1; }
    let mut c = Idea { enc_keys: kani::any(), dec_keys: [0; 52] };
    c.invert_sub_keys();
    let b: [u8; 8] = kani::any();
    let mut blk = Array(b);
    cipher::BlockCipherDecrypt::decrypt_block(&c, &mut blk);
    cipher::BlockCipherEncrypt::encrypt_block(&c, &mut blk);
    assert!(u64::from_be_bytes(blk.0) == u64::from_be_bytes(b));
}

// ---------------------------------------------------------------- C11 / C13 / C19 / C16
fn cheap_inv(_c: &Idea, a: u16) -> u16 { a }
// @ob name=k_idea_len props=C11 kind=bounded bound="slice length <= 300" fn=idea::Idea::new_from_slice timeout=300
keylen!(#[kani::stub(Idea::mul_inv, cheap_inv)] #[kani::unwind(53)] k_idea_len, Idea, |n| n == 16, 16, 16);

// @ob name=w_idea_never_weak props=C13 fn=idea::Idea::weak_key_test,idea::Idea::new_checked uses=x_idea_mul_inv_c00 timeout=300
never_weak!(#[kani::stub(Idea::mul_inv, ufi::real_inv)] #[kani::unwind(53)] w_idea_never_weak, Idea, 16, same);

// @ob name=n_idea_names props=C19 fn=idea::Idea::fmt,idea::Idea::write_alg_name timeout=300
names!(n_idea_names, Idea, any_idea(), "Idea");

// @ob name=z_idea_any props=C16 cfg=zeroize fn=idea::Idea::drop timeout=300
zero_on_drop!(z_idea_any, Idea, any_idea());
// @ob name=z_idea_clone props=C16,C12 cfg=zeroize fn=idea::Idea::drop,idea::Idea::clone timeout=300
zero_on_drop!(z_idea_clone, Idea, any_idea().clone());

// ---------------------------------------------------------------- C12 clone
// @ob name=k_idea_clone props=C12 fn=idea::Idea::clone timeout=300
#[kani::proof]
#[kani::unwind(53)]
fn k_idea_clone() {
    let c = any_idea();
    let d = c.clone();
    assert!(same(&c, &d));
}

// ---------------------------------------------------------------- C04 / C15 multi-block plumbing
// crypt is abstracted to an uninterpreted function of the block (licensed by c_idea_crypt: a pure function of
// (subkey list, block); each harness uses one direction only, so one subkey list).
fn uf_crypt(_c: &Idea, mut block: InOut<'_, '_, Block<Idea>>, _sk: &[u16; 52]) {
    let b = block.get_in().0;
    *block.get_out() = Array(uf::uf64(u64::from_be_bytes(b)).to_be_bytes());
}
// @ob name=m_idea_enc_blocks_0 props=C04,C15 kind=bounded bound="n = 0 blocks" fn=idea::Idea::encrypt_with_backend,idea::Idea::encrypt_block uses=c_idea_crypt timeout=300
multi_block!(#[kani::stub(Idea::crypt, uf_crypt)] #[kani::unwind(53)]
    m_idea_enc_blocks_0, 0, any_idea(), snap, eqsnap, BlockCipherEncrypt, encrypt_block, encrypt_blocks, encrypt_blocks_b2b);
// @ob name=m_idea_enc_blocks_1 props=C04,C15 kind=bounded bound="n = 1 block" fn=idea::Idea::encrypt_with_backend,idea::Idea::encrypt_block uses=c_idea_crypt timeout=300
multi_block!(#[kani::stub(Idea::crypt, uf_crypt)] #[kani::unwind(53)]
    m_idea_enc_blocks_1, 1, any_idea(), snap, eqsnap, BlockCipherEncrypt, encrypt_block, encrypt_blocks, encrypt_blocks_b2b);
// @ob name=m_idea_enc_blocks_3 props=C04,C15 kind=bounded bound="n = 3 blocks" fn=idea::Idea::encrypt_with_backend,idea::Idea::encrypt_block uses=c_idea_crypt timeout=300
multi_block!(#[kani::stub(Idea::crypt, uf_crypt)] #[kani::unwind(53)]
    m_idea_enc_blocks_3, 3, any_idea(), snap, eqsnap, BlockCipherEncrypt, encrypt_block, encrypt_blocks, encrypt_blocks_b2b);
// @ob name=m_idea_dec_blocks_0 props=C04,C15 kind=bounded bound="n = 0 blocks" fn=idea::Idea::decrypt_with_backend,idea::Idea::decrypt_block uses=c_idea_crypt timeout=300
multi_block!(#[kani::stub(Idea::crypt, uf_crypt)] #[kani::unwind(53)]
    m_idea_dec_blocks_0, 0, any_idea(), snap, eqsnap, BlockCipherDecrypt, decrypt_block, decrypt_blocks, decrypt_blocks_b2b);
// @ob name=m_idea_dec_blocks_1 props=C04,C15 kind=bounded bound="n = 1 block" fn=idea::Idea::decrypt_with_backend,idea::Idea::decrypt_block uses=c_idea_crypt timeout=300
multi_block!(#[kani::stub(Idea::crypt, uf_crypt)] #[kani::unwind(53)]
    m_idea_dec_blocks_1, 1, any_idea(), snap, eqsnap, BlockCipherDecrypt, decrypt_block, decrypt_blocks, decrypt_blocks_b2b);
// @ob name=m_idea_dec_blocks_3 props=C04,C15 kind=bounded bound="n = 3 blocks" fn=idea::Idea::decrypt_with_backend,idea::Idea::decrypt_block uses=c_idea_crypt timeout=300
multi_block!(#[kani::stub(Idea::crypt, uf_crypt)] #[kani::unwind(53)]
    m_idea_dec_blocks_3, 3, any_idea(), snap, eqsnap, BlockCipherDecrypt, decrypt_block, decrypt_blocks, decrypt_blocks_b2b);


