// C17: the software hazmat round functions (aes/src/soft/fixslice64.rs `mod hazmat`, feature hazmat) equal the
// FIPS-197 round transformations, for every block and round key; the 8-block forms equal eight independent calls.
// Bitsliced leaves are replaced by their contracts (lifted specs of fixslice.rs).
//
// @module file=aes/src/soft/fixslice64.rs modcfg='feature="hazmat"'
// @config name=hazmat features=hazmat
// @crateattr recursion_limit = "2048"
use super::*;
use super::__vp_fixslice::*;
use bcref::aes as fips;
use crate::hazmat::{Block, Block8};

fn eq(a: &[u8; 16], b: &[u8; 16]) -> bool {
    let mut ok = true;
    let mut i = 0;
    while i < 16 {
        ok &= a[i] == b[i];
        i += 1;
    }
    ok
}

// @ob name=h_soft_single props=C17,C20 cfg=hazmat fn=aes::soft::fixslice::hazmat::cipher_round,aes::soft::fixslice::hazmat::equiv_inv_cipher_round,aes::soft::fixslice::hazmat::mix_columns,aes::soft::fixslice::hazmat::inv_mix_columns uses=c_bitslice,c_inv_bitslice,c_sub_bytes,c_sub_bytes_nots,c_inv_sub_bytes,c_inv_shift_rows_3,c_inv_shift_rows_1,c_mix_columns_0,c_inv_mix_columns_0 timeout=900
#[kani::proof]
#[kani::stub(bitslice, spec_bitslice_fn)]
#[kani::stub(inv_bitslice, spec_inv_bitslice_fn)]
#[kani::stub(sub_bytes, spec_sub_bytes)]
#[kani::stub(sub_bytes_nots, spec_sub_bytes_nots)]
#[kani::stub(inv_sub_bytes, spec_inv_sub_bytes)]
#[kani::stub(shift_rows_1, spec_shift_rows_1)]
#[kani::stub(shift_rows_3, spec_shift_rows_3)]
#[kani::stub(mix_columns_0, spec_mix_columns_0)]
#[kani::stub(inv_mix_columns_0, spec_inv_mix_columns_0)]
#[kani::unwind(20)]
fn h_soft_single() {
    let b: [u8; 16] = kani::any();
    let k: [u8; 16] = kani::any();
    let key = Array(k);
    let mut x = Array(b);
    hazmat::cipher_round(&mut x, &key);
    assert!(eq(&x.0, &fips::cipher_round(&b, &k)));
    let mut x = Array(b);
    hazmat::equiv_inv_cipher_round(&mut x, &key);
    assert!(eq(&x.0, &fips::equiv_inv_cipher_round(&b, &k)));
    let mut x = Array(b);
    hazmat::mix_columns(&mut x);
    assert!(eq(&x.0, &fips::mix_columns(&b)));
    let mut x = Array(b);
    hazmat::inv_mix_columns(&mut x);
    assert!(eq(&x.0, &fips::inv_mix_columns(&b)));
    assert!(eq(&key.0, &k));
}

// @ob name=h_soft_par props=C17,C04,C20 cfg=hazmat tier=thorough fn=aes::soft::fixslice::hazmat::cipher_round_par,aes::soft::fixslice::hazmat::equiv_inv_cipher_round_par uses=c_bitslice,c_inv_bitslice,c_sub_bytes,c_sub_bytes_nots,c_inv_sub_bytes,c_inv_shift_rows_3,c_inv_shift_rows_1,c_mix_columns_0,c_inv_mix_columns_0 timeout=3600
#[kani::proof]
#[kani::stub(bitslice, spec_bitslice_fn)]
#[kani::stub(inv_bitslice, spec_inv_bitslice_fn)]
#[kani::stub(sub_bytes, spec_sub_bytes)]
#[kani::stub(sub_bytes_nots, spec_sub_bytes_nots)]
#[kani::stub(inv_sub_bytes, spec_inv_sub_bytes)]
#[kani::stub(shift_rows_1, spec_shift_rows_1)]
#[kani::stub(shift_rows_3, spec_shift_rows_3)]
#[kani::stub(mix_columns_0, spec_mix_columns_0)]
#[kani::stub(inv_mix_columns_0, spec_inv_mix_columns_0)]
#[kani::unwind(20)]
fn h_soft_par() {
    let b: [[u8; 16]; 8] = kani::any();
    let k: [[u8; 16]; 8] = kani::any();
    let mut blocks = Block8::default();
    let mut keys = Block8::default();
    let mut i = 0;
    while i < 8 {
        blocks[i] = Array(b[i]);
        keys[i] = Array(k[i]);
        i += 1;
    }
    let mut enc = blocks.clone();
    hazmat::cipher_round_par(&mut enc, &keys);
    let mut dec = blocks.clone();
    hazmat::equiv_inv_cipher_round_par(&mut dec, &keys);
    let mut j = 0;
    while j < 8 {
        assert!(eq(&enc[j].0, &fips::cipher_round(&b[j], &k[j])));
        assert!(eq(&dec[j].0, &fips::equiv_inv_cipher_round(&b[j], &k[j])));
        assert!(eq(&keys[j].0, &k[j]));
        j += 1;
    }
}

// Quick plumbing form of h_soft_par: which round key meets which block.  The S-box / MixColumns leaves are replaced by
// the identity (their semantics: h_soft_single, fixslice.rs), bitslice / inv_bitslice by their bit-permutation specs, so
// cipher_round_par(blocks, keys)[j] must be blocks[j] xor keys[j] for each of the eight lanes.
fn idm(_s: &mut [u64]) {}
fn ids(_s: &mut State) {}
// @ob name=h_soft_par_lanes props=C17,C04,C20 cfg=hazmat fn=aes::soft::fixslice::hazmat::cipher_round_par,aes::soft::fixslice::hazmat::equiv_inv_cipher_round_par uses=c_bitslice,c_inv_bitslice,h_soft_single timeout=600
#[kani::proof]
#[kani::stub(bitslice, spec_bitslice_fn)]
#[kani::stub(inv_bitslice, spec_inv_bitslice_fn)]
#[kani::stub(sub_bytes, idm)]
#[kani::stub(sub_bytes_nots, idm)]
#[kani::stub(inv_sub_bytes, idm)]
#[kani::stub(shift_rows_1, idm)]
#[kani::stub(shift_rows_3, idm)]
#[kani::stub(mix_columns_0, ids)]
#[kani::stub(inv_mix_columns_0, ids)]
#[kani::unwind(20)]
fn h_soft_par_lanes() {
    let b: [[u8; 16]; 8] = kani::any();
    let k: [[u8; 16]; 8] = kani::any();
    let mut blocks = Block8::default();
    let mut keys = Block8::default();
    let mut i = 0;
    while i < 8 {
        blocks[i] = Array(b[i]);
        keys[i] = Array(k[i]);
        i += 1;
    }
    let mut enc = blocks.clone();
    hazmat::cipher_round_par(&mut enc, &keys);
    let mut dec = blocks.clone();
    hazmat::equiv_inv_cipher_round_par(&mut dec, &keys);
    let mut j = 0;
    while j < 8 {
        assert!(eq(&enc[j].0, &fips::xor_block(&b[j], &k[j])));
        assert!(eq(&dec[j].0, &fips::xor_block(&b[j], &k[j])));
        assert!(eq(&keys[j].0, &k[j]));
        j += 1;
    }
}
