// Key-schedule contracts for the fixsliced AES backend: the FIPS-197 round keys decoded from the fixsliced array
// (exactly the decoding `kf` used by the block-function contracts in verus/aes_soft.vrs: key i of lane j is
// ShiftRows^{f(i)}(block j of inv_bitslice(rkeys[8i..8i+8])) xor (i > 0 ? 0x63.. : 0), f(i) = i mod 4 (i mod 2 under --cfg aes_compact) for 0 < i < Nr,
// f(0) = f(Nr) = 0) equal KeyExpansion(key) in every lane, for every key.  Bitsliced leaves are replaced by their
// contracts (lifted specs, fixslice.rs); memshift32 / xor_columns / add_round_constant_bit / ror are inlined.
//
// (GENERATED from keysched.rs by substitution for the 32-bit fixslicing file.)
// @module file=aes/src/soft/fixslice32.rs
// @crateattr recursion_limit = "2048"
use super::*;
use super::__vp_fixslice32::*;
use bcref::aes as fips;

/// `kf` of verus/aes_soft.vrs, computed
pub fn decode_key32(rkeys: &[u32], nr: usize, i: usize, j: usize) -> [u8; 16] {
    let b = spec_inv_bitslice(&rkeys[8 * i..8 * i + 8]);
    let f = if i == 0 || i == nr { 0 } else if cfg!(aes_compact) { i % 2 } else { i % 4 };
    let k = fips::shift_rows_k(&b[j], f);
    if i > 0 { fips::xor_block(&k, &[0x63; 16]) } else { k }
}

// @ob name=ks32_aes128 props=C02,C03,C20 tier=thorough fn=aes::soft::fixslice32::aes128_key_schedule,aes::soft::fixslice32::memshift32,aes::soft::fixslice32::xor_columns,aes::soft::fixslice32::add_round_constant_bit uses=c32_bitslice,c32_sub_bytes,c32_sub_bytes_nots,c32_shift_rows_2,c32_inv_shift_rows_1,c32_inv_shift_rows_3 timeout=3600
#[cfg(not(aes_compact))]
#[kani::proof]
#[kani::stub(bitslice, spec_bitslice_fn)]
#[kani::stub(sub_bytes, spec_sub_bytes)]
#[kani::stub(sub_bytes_nots, spec_sub_bytes_nots)]
#[kani::stub(shift_rows_1, spec_shift_rows_1)]
#[kani::stub(shift_rows_2, spec_shift_rows_2)]
#[kani::stub(shift_rows_3, spec_shift_rows_3)]
#[kani::unwind(62)]
fn ks32_aes128() {
    let key: [u8; 16] = kani::any();
    let rk = aes128_key_schedule(&key);
    let want = fips::key_expansion::<16, 11>(&key);
    let j: usize = kani::any();
    kani::assume(j < 2);
    let mut i = 0;
    while i <= 10 {
        let got = decode_key32(&rk, 10, i, j);
        let mut b = 0;
        while b < 16 {
            assert!(got[b] == want[i][b]);
            b += 1;
        }
        i += 1;
    }
}

// @ob name=ks32_aes192 props=C02,C03,C20 tier=thorough fn=aes::soft::fixslice32::aes192_key_schedule,aes::soft::fixslice32::memshift32,aes::soft::fixslice32::xor_columns,aes::soft::fixslice32::add_round_constant_bit uses=c32_bitslice,c32_sub_bytes,c32_sub_bytes_nots,c32_shift_rows_2,c32_inv_shift_rows_1,c32_inv_shift_rows_3 timeout=3600
#[cfg(not(aes_compact))]
#[kani::proof]
#[kani::stub(bitslice, spec_bitslice_fn)]
#[kani::stub(sub_bytes, spec_sub_bytes)]
#[kani::stub(sub_bytes_nots, spec_sub_bytes_nots)]
#[kani::stub(shift_rows_1, spec_shift_rows_1)]
#[kani::stub(shift_rows_2, spec_shift_rows_2)]
#[kani::stub(shift_rows_3, spec_shift_rows_3)]
#[kani::unwind(62)]
fn ks32_aes192() {
    let key: [u8; 24] = kani::any();
    let rk = aes192_key_schedule(&key);
    let want = fips::key_expansion::<24, 13>(&key);
    let j: usize = kani::any();
    kani::assume(j < 2);
    let mut i = 0;
    while i <= 12 {
        let got = decode_key32(&rk, 12, i, j);
        let mut b = 0;
        while b < 16 {
            assert!(got[b] == want[i][b]);
            b += 1;
        }
        i += 1;
    }
}

// @ob name=ks32_aes256 props=C02,C03,C20 tier=thorough fn=aes::soft::fixslice32::aes256_key_schedule,aes::soft::fixslice32::memshift32,aes::soft::fixslice32::xor_columns,aes::soft::fixslice32::add_round_constant_bit uses=c32_bitslice,c32_sub_bytes,c32_sub_bytes_nots,c32_shift_rows_2,c32_inv_shift_rows_1,c32_inv_shift_rows_3 timeout=3600
#[cfg(not(aes_compact))]
#[kani::proof]
#[kani::stub(bitslice, spec_bitslice_fn)]
#[kani::stub(sub_bytes, spec_sub_bytes)]
#[kani::stub(sub_bytes_nots, spec_sub_bytes_nots)]
#[kani::stub(shift_rows_1, spec_shift_rows_1)]
#[kani::stub(shift_rows_2, spec_shift_rows_2)]
#[kani::stub(shift_rows_3, spec_shift_rows_3)]
#[kani::unwind(62)]
fn ks32_aes256() {
    let key: [u8; 32] = kani::any();
    let rk = aes256_key_schedule(&key);
    let want = fips::key_expansion::<32, 15>(&key);
    let j: usize = kani::any();
    kani::assume(j < 2);
    let mut i = 0;
    while i <= 14 {
        let got = decode_key32(&rk, 14, i, j);
        let mut b = 0;
        while b < 16 {
            assert!(got[b] == want[i][b]);
            b += 1;
        }
        i += 1;
    }
}

// @ob name=ks32c_aes128 props=C02,C03,C20 tier=thorough cfg=compact fn=aes::soft::fixslice32::aes128_key_schedule uses=c32_bitslice,c32_sub_bytes,c32_sub_bytes_nots,c32_shift_rows_2,c32_inv_shift_rows_1 timeout=3600
#[cfg(aes_compact)]
#[kani::proof]
#[kani::stub(bitslice, spec_bitslice_fn)]
#[kani::stub(sub_bytes, spec_sub_bytes)]
#[kani::stub(sub_bytes_nots, spec_sub_bytes_nots)]
#[kani::stub(shift_rows_2, spec_shift_rows_2)]
#[kani::stub(shift_rows_3, spec_shift_rows_3)]
#[kani::unwind(62)]
fn ks32c_aes128() {
    assert!(cfg!(aes_compact));
    let key: [u8; 16] = kani::any();
    let rk = aes128_key_schedule(&key);
    let want = fips::key_expansion::<16, 11>(&key);
    let j: usize = kani::any();
    kani::assume(j < 2);
    let mut i = 0;
    while i <= 10 {
        let got = decode_key32(&rk, 10, i, j);
        let mut b = 0;
        while b < 16 {
            assert!(got[b] == want[i][b]);
            b += 1;
        }
        i += 1;
    }
}

// @ob name=ks32c_aes192 props=C02,C03,C20 tier=thorough cfg=compact fn=aes::soft::fixslice32::aes192_key_schedule uses=c32_bitslice,c32_sub_bytes,c32_sub_bytes_nots,c32_shift_rows_2,c32_inv_shift_rows_1 timeout=3600
#[cfg(aes_compact)]
#[kani::proof]
#[kani::stub(bitslice, spec_bitslice_fn)]
#[kani::stub(sub_bytes, spec_sub_bytes)]
#[kani::stub(sub_bytes_nots, spec_sub_bytes_nots)]
#[kani::stub(shift_rows_2, spec_shift_rows_2)]
#[kani::stub(shift_rows_3, spec_shift_rows_3)]
#[kani::unwind(62)]
fn ks32c_aes192() {
    assert!(cfg!(aes_compact));
    let key: [u8; 24] = kani::any();
    let rk = aes192_key_schedule(&key);
    let want = fips::key_expansion::<24, 13>(&key);
    let j: usize = kani::any();
    kani::assume(j < 2);
    let mut i = 0;
    while i <= 12 {
        let got = decode_key32(&rk, 12, i, j);
        let mut b = 0;
        while b < 16 {
            assert!(got[b] == want[i][b]);
            b += 1;
        }
        i += 1;
    }
}

// @ob name=ks32c_aes256 props=C02,C03,C20 tier=thorough cfg=compact fn=aes::soft::fixslice32::aes256_key_schedule uses=c32_bitslice,c32_sub_bytes,c32_sub_bytes_nots,c32_shift_rows_2,c32_inv_shift_rows_1 timeout=3600
#[cfg(aes_compact)]
#[kani::proof]
#[kani::stub(bitslice, spec_bitslice_fn)]
#[kani::stub(sub_bytes, spec_sub_bytes)]
#[kani::stub(sub_bytes_nots, spec_sub_bytes_nots)]
#[kani::stub(shift_rows_2, spec_shift_rows_2)]
#[kani::stub(shift_rows_3, spec_shift_rows_3)]
#[kani::unwind(62)]
fn ks32c_aes256() {
    assert!(cfg!(aes_compact));
    let key: [u8; 32] = kani::any();
    let rk = aes256_key_schedule(&key);
    let want = fips::key_expansion::<32, 15>(&key);
    let j: usize = kani::any();
    kani::assume(j < 2);
    let mut i = 0;
    while i <= 14 {
        let got = decode_key32(&rk, 14, i, j);
        let mut b = 0;
        while b < 16 {
            assert!(got[b] == want[i][b]);
            b += 1;
        }
        i += 1;
    }
}
