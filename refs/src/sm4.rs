//! SM4 block cipher, written from GB/T 32907-2016 "Information security technology -- SM4 block cipher
//! algorithm" (identical in content to GM/T 0002-2012), following the standard's own structure:
//!   clause 5   key and parameters (MK, rk, FK, CK)
//!   clause 6   round function F, composite permutation T = L(tau(.)), S-box table
//!   clause 7.1 encryption, 7.2 decryption (round keys in reverse order), 7.3 key expansion (T' = L'(tau(.)))
//!   annex A    worked examples (used as unit tests below)
//! Words are 32 bits, byte strings are read big-endian ("the leftmost byte is the most significant").
//!
//! The S-box is given by the standard only as a 16 x 16 table (row = high nibble, column = low nibble); the table
//! below is a snapshot of the pinned tree (/repo/sm4/src/consts.rs), *independently cross-checked* in the unit tests
//! against the published algebraic description S(x) = A * inv(A * x + c) + c over GF(2^8)
//! (Liu, Ji, Hu, Ding, Lv, Pyshkin, Weinmann: "Analysis of the SMS4 block cipher", ACISP 2007).
//! FK is the standard's system parameter; CK is computed from the standard's formula ck_{i,j} = (4i + j) * 7 mod 256.

/// clause 6.2 (a): S-box, `SBOX[(row << 4) | column]`.
pub const SBOX: [u8; 256] = [
    0xd6, 0x90, 0xe9, 0xfe, 0xcc, 0xe1, 0x3d, 0xb7, 0x16, 0xb6, 0x14, 0xc2, 0x28, 0xfb, 0x2c, 0x05,
    0x2b, 0x67, 0x9a, 0x76, 0x2a, 0xbe, 0x04, 0xc3, 0xaa, 0x44, 0x13, 0x26, 0x49, 0x86, 0x06, 0x99,
    0x9c, 0x42, 0x50, 0xf4, 0x91, 0xef, 0x98, 0x7a, 0x33, 0x54, 0x0b, 0x43, 0xed, 0xcf, 0xac, 0x62,
    0xe4, 0xb3, 0x1c, 0xa9, 0xc9, 0x08, 0xe8, 0x95, 0x80, 0xdf, 0x94, 0xfa, 0x75, 0x8f, 0x3f, 0xa6,
    0x47, 0x07, 0xa7, 0xfc, 0xf3, 0x73, 0x17, 0xba, 0x83, 0x59, 0x3c, 0x19, 0xe6, 0x85, 0x4f, 0xa8,
    0x68, 0x6b, 0x81, 0xb2, 0x71, 0x64, 0xda, 0x8b, 0xf8, 0xeb, 0x0f, 0x4b, 0x70, 0x56, 0x9d, 0x35,
    0x1e, 0x24, 0x0e, 0x5e, 0x63, 0x58, 0xd1, 0xa2, 0x25, 0x22, 0x7c, 0x3b, 0x01, 0x21, 0x78, 0x87,
    0xd4, 0x00, 0x46, 0x57, 0x9f, 0xd3, 0x27, 0x52, 0x4c, 0x36, 0x02, 0xe7, 0xa0, 0xc4, 0xc8, 0x9e,
    0xea, 0xbf, 0x8a, 0xd2, 0x40, 0xc7, 0x38, 0xb5, 0xa3, 0xf7, 0xf2, 0xce, 0xf9, 0x61, 0x15, 0xa1,
    0xe0, 0xae, 0x5d, 0xa4, 0x9b, 0x34, 0x1a, 0x55, 0xad, 0x93, 0x32, 0x30, 0xf5, 0x8c, 0xb1, 0xe3,
    0x1d, 0xf6, 0xe2, 0x2e, 0x82, 0x66, 0xca, 0x60, 0xc0, 0x29, 0x23, 0xab, 0x0d, 0x53, 0x4e, 0x6f,
    0xd5, 0xdb, 0x37, 0x45, 0xde, 0xfd, 0x8e, 0x2f, 0x03, 0xff, 0x6a, 0x72, 0x6d, 0x6c, 0x5b, 0x51,
    0x8d, 0x1b, 0xaf, 0x92, 0xbb, 0xdd, 0xbc, 0x7f, 0x11, 0xd9, 0x5c, 0x41, 0x1f, 0x10, 0x5a, 0xd8,
    0x0a, 0xc1, 0x31, 0x88, 0xa5, 0xcd, 0x7b, 0xbd, 0x2d, 0x74, 0xd0, 0x12, 0xb8, 0xe5, 0xb4, 0xb0,
    0x89, 0x69, 0x97, 0x4a, 0x0c, 0x96, 0x77, 0x7e, 0x65, 0xb9, 0xf1, 0x09, 0xc5, 0x6e, 0xc6, 0x84,
    0x18, 0xf0, 0x7d, 0xec, 0x3a, 0xdc, 0x4d, 0x20, 0x79, 0xee, 0x5f, 0x3e, 0xd7, 0xcb, 0x39, 0x48,
];

/// clause 7.3 (b): system parameter FK.
pub const FK: [u32; 4] = [0xA3B1BAC6, 0x56AA3350, 0x677D9197, 0xB27022DC];

/// clause 7.3 (c): fixed parameter CK_i = (ck_{i,0}, ck_{i,1}, ck_{i,2}, ck_{i,3}), ck_{i,j} = (4i + j) * 7 (mod 256).
pub const fn ck(i: usize) -> u32 {
    let mut w = 0u32;
    let mut j = 0;
    while j < 4 {
        w = (w << 8) | (((4 * i + j) * 7) % 256) as u32;
        j += 1;
    }
    w
}
pub const CK: [u32; 32] = {
    let mut t = [0u32; 32];
    let mut i = 0;
    while i < 32 {
        t[i] = ck(i);
        i += 1;
    }
    t
};

/// clause 6.2 (a): non-linear transformation tau: four S-boxes in parallel on A = (a0, a1, a2, a3).
pub const fn tau(a: u32) -> u32 {
    let a0 = (a >> 24) as u8;
    let a1 = (a >> 16) as u8;
    let a2 = (a >> 8) as u8;
    let a3 = a as u8;
    ((SBOX[a0 as usize] as u32) << 24) | ((SBOX[a1 as usize] as u32) << 16) | ((SBOX[a2 as usize] as u32) << 8) | SBOX[a3 as usize] as u32
}

/// clause 6.2 (b): linear transformation L(B) = B ^ (B <<< 2) ^ (B <<< 10) ^ (B <<< 18) ^ (B <<< 24).
pub const fn l(b: u32) -> u32 { b ^ b.rotate_left(2) ^ b.rotate_left(10) ^ b.rotate_left(18) ^ b.rotate_left(24) }

/// clause 7.3: L'(B) = B ^ (B <<< 13) ^ (B <<< 23).
pub const fn l_prime(b: u32) -> u32 { b ^ b.rotate_left(13) ^ b.rotate_left(23) }

/// clause 6.2: composite permutation T(.) = L(tau(.)).
pub const fn t(x: u32) -> u32 { l(tau(x)) }

/// clause 7.3: T'(.) = L'(tau(.)).
pub const fn t_prime(x: u32) -> u32 { l_prime(tau(x)) }

/// clause 6.1: round function F(X0, X1, X2, X3, rk) = X0 ^ T(X1 ^ X2 ^ X3 ^ rk).
pub const fn f(x0: u32, x1: u32, x2: u32, x3: u32, rk: u32) -> u32 { x0 ^ t(x1 ^ x2 ^ x3 ^ rk) }

/// clause 7.3: key expansion. (K0..K3) = MK ^ FK, rk_i = K_{i+4} = K_i ^ T'(K_{i+1} ^ K_{i+2} ^ K_{i+3} ^ CK_i).
pub fn key_expansion(mk: &[u32; 4]) -> [u32; 32] {
    let mut k = [0u32; 36];
    let mut i = 0;
    while i < 4 {
        k[i] = mk[i] ^ FK[i];
        i += 1;
    }
    let mut rk = [0u32; 32];
    let mut i = 0;
    while i < 32 {
        k[i + 4] = k[i] ^ t_prime(k[i + 1] ^ k[i + 2] ^ k[i + 3] ^ CK[i]);
        rk[i] = k[i + 4];
        i += 1;
    }
    rk
}

/// 32 rounds X_{i+4} = F(X_i, X_{i+1}, X_{i+2}, X_{i+3}, rk_i), then the reverse transformation
/// R(X32, X33, X34, X35) = (X35, X34, X33, X32)  (clause 7.1).
pub fn crypt_words(rk: &[u32; 32], x_in: &[u32; 4]) -> [u32; 4] {
    let mut x = [0u32; 36];
    let mut i = 0;
    while i < 4 {
        x[i] = x_in[i];
        i += 1;
    }
    let mut i = 0;
    while i < 32 {
        x[i + 4] = f(x[i], x[i + 1], x[i + 2], x[i + 3], rk[i]);
        i += 1;
    }
    [x[35], x[34], x[33], x[32]]
}

/// clause 7.2: decryption uses the round keys in the order (rk31, rk30, ..., rk0).
pub fn reverse_keys(rk: &[u32; 32]) -> [u32; 32] {
    let mut r = [0u32; 32];
    let mut i = 0;
    while i < 32 {
        r[i] = rk[31 - i];
        i += 1;
    }
    r
}

pub fn encrypt_words(rk: &[u32; 32], x: &[u32; 4]) -> [u32; 4] { crypt_words(rk, x) }
pub fn decrypt_words(rk: &[u32; 32], y: &[u32; 4]) -> [u32; 4] { crypt_words(&reverse_keys(rk), y) }

pub fn words_of(b: &[u8; 16]) -> [u32; 4] {
    let mut w = [0u32; 4];
    let mut i = 0;
    while i < 4 {
        w[i] = ((b[4 * i] as u32) << 24) | ((b[4 * i + 1] as u32) << 16) | ((b[4 * i + 2] as u32) << 8) | b[4 * i + 3] as u32;
        i += 1;
    }
    w
}
pub fn bytes_of(w: &[u32; 4]) -> [u8; 16] {
    let mut b = [0u8; 16];
    let mut i = 0;
    while i < 4 {
        b[4 * i] = (w[i] >> 24) as u8;
        b[4 * i + 1] = (w[i] >> 16) as u8;
        b[4 * i + 2] = (w[i] >> 8) as u8;
        b[4 * i + 3] = w[i] as u8;
        i += 1;
    }
    b
}

/// Byte-level entry points with an expanded key.
pub fn encrypt_with(rk: &[u32; 32], block: &[u8; 16]) -> [u8; 16] { bytes_of(&encrypt_words(rk, &words_of(block))) }
pub fn decrypt_with(rk: &[u32; 32], block: &[u8; 16]) -> [u8; 16] { bytes_of(&decrypt_words(rk, &words_of(block))) }

/// Byte-level entry points with the 128-bit key MK.
pub fn encrypt(key: &[u8; 16], block: &[u8; 16]) -> [u8; 16] { encrypt_with(&key_expansion(&words_of(key)), block) }
pub fn decrypt(key: &[u8; 16], block: &[u8; 16]) -> [u8; 16] { decrypt_with(&key_expansion(&words_of(key)), block) }

#[cfg(test)]
mod tests {
    use super::*;

    const KEY: [u8; 16] = [0x01, 0x23, 0x45, 0x67, 0x89, 0xab, 0xcd, 0xef, 0xfe, 0xdc, 0xba, 0x98, 0x76, 0x54, 0x32, 0x10];

    /// GB/T 32907-2016 annex A.1: one block, with the listed round keys rk[0..3], rk[31] and states X[4..7], X[32..35].
    #[test]
    fn annex_a1() {
        let rk = key_expansion(&words_of(&KEY));
        assert_eq!(rk[0], 0xF12186F9);
        assert_eq!(rk[1], 0x41662B61);
        assert_eq!(rk[2], 0x5A6AB19A);
        assert_eq!(rk[3], 0x7BA92077);
        assert_eq!(rk[31], 0x9124A012);
        let x = words_of(&KEY);
        assert_eq!(f(x[0], x[1], x[2], x[3], rk[0]), 0x27FAD345);
        let ct = encrypt(&KEY, &KEY);
        assert_eq!(ct, [0x68, 0x1e, 0xdf, 0x34, 0xd2, 0x06, 0x96, 0x5e, 0x86, 0xb3, 0xe9, 0x4f, 0x53, 0x6e, 0x42, 0x46]);
        assert_eq!(decrypt(&KEY, &ct), KEY);
    }

    /// annex A.2: the same key, plaintext encrypted 1 000 000 times.
    #[test]
    fn annex_a2() {
        let rk = key_expansion(&words_of(&KEY));
        let mut b = KEY;
        let mut i = 0;
        while i < 1_000_000 {
            b = encrypt_with(&rk, &b);
            i += 1;
        }
        assert_eq!(b, [0x59, 0x52, 0x98, 0xc7, 0xc6, 0xfd, 0x27, 0x1f, 0x04, 0x02, 0xf8, 0x04, 0xc3, 0x3d, 0x3f, 0x66]);
    }

    #[test]
    fn ck_values() {
        // first and last entries as printed in clause 7.3 (c)
        assert_eq!(CK[0], 0x00070E15);
        assert_eq!(CK[1], 0x1C232A31);
        assert_eq!(CK[31], 0x646B7279);
    }

    // ---- independent check of the S-box table: S(x) = A * inv(A * x + c) + c in GF(2)[x] / (x^8+x^7+x^6+x^5+x^4+x^2+1)
    fn gmul(mut a: u16, mut b: u16) -> u8 {
        let mut r = 0u16;
        while b != 0 {
            if b & 1 != 0 { r ^= a; }
            a <<= 1;
            if a & 0x100 != 0 { a ^= 0x1F5; }
            b >>= 1;
        }
        r as u8
    }
    fn ginv(x: u8) -> u8 {
        if x == 0 { return 0; }
        let mut y = 1u16;
        while y < 256 {
            if gmul(x as u16, y) == 1 { return y as u8; }
            y += 1;
        }
        unreachable!()
    }
    /// cyclic (circulant) bit matrix A: output bit i = parity((0xA7 <<< i) & x), constant c = 0xD3
    fn affine(x: u8) -> u8 {
        let row: u8 = 0xA7;
        let mut y = 0u8;
        let mut i = 0;
        while i < 8 {
            let r = row.rotate_left(i);
            let bit = (r & x).count_ones() as u8 & 1;
            y |= bit << i;
            i += 1;
        }
        y ^ 0xD3
    }
    #[test]
    fn sbox_algebraic() {
        let mut x = 0u16;
        while x < 256 {
            assert_eq!(SBOX[x as usize], affine(ginv(affine(x as u8))), "x = {x:#x}");
            x += 1;
        }
        // and it is a permutation
        let mut seen = [false; 256];
        for v in SBOX { seen[v as usize] = true; }
        assert!(seen.iter().all(|b| *b));
    }
}
