// API-level contracts for the cast6 crate (child of lib.rs): key lengths and constructor equivalences (C11),
// clone (C12), weak-key test (C13), multi-block plumbing and state immutability (C04, C15), zeroize on drop (C16),
// Debug / AlgorithmName (C19).
//
// @module file=cast6/src/lib.rs
// @config name=zeroize features=zeroize
use super::*;
use crate::__vp_cipher::{any_cast6, st_w_real, uf_w};
use cipher::Array;
include!("@VERIF@/contracts/_common/common.rs");
include!("@VERIF@/contracts/serpent/shared_api.inc");
uf_block_fns!(Cast6);

fn raw(t: &Cast6) -> [u8; core::mem::size_of::<Cast6>()] { unsafe { core::ptr::read(t as *const Cast6 as *const _) } }

// ---------------------------------------------------------------- C11
// new_from_slice and key_schedule are real; forward_octave is an uninterpreted function (pure and panic-free for
// 8-element slices by cipher.rs c_forward_octave; the stub still performs its reads of the Tm / Tr slices)
// @ob name=k_len props=C11,C20 kind=bounded bound="slice length <= 300" fn=cast6::Cast6::new_from_slice uses=c_forward_octave timeout=900
#[kani::proof]
#[kani::stub(forward_octave, st_w_real)]
#[kani::unwind(34)]
fn k_len() {
    let buf: [u8; 301] = kani::any();
    let n: usize = kani::any();
    kani::assume(n <= 300);
    kani::cover!(n == 0);
    kani::cover!(n == 16);
    kani::cover!(n == 20);
    kani::cover!(n == 24);
    kani::cover!(n == 28);
    kani::cover!(n == 32);
    kani::cover!(n == 17);
    kani::cover!(n == 300);
    let r = <Cast6 as KeyInit>::new_from_slice(&buf[..n]);
    assert!(r.is_ok() == (n == 16 || n == 20 || n == 24 || n == 28 || n == 32));
}

// A fixed-size (32-byte) key and the same bytes as a slice give the same cipher
// @ob name=k_slice_same props=C11 fn=cast6::Cast6::new,cast6::Cast6::new_from_slice uses=c_forward_octave timeout=900
#[kani::proof]
#[kani::stub(forward_octave, st_w_real)]
#[kani::unwind(600)]
fn k_slice_same() {
    let k: [u8; 32] = kani::any();
    let a = <Cast6 as KeyInit>::new(&Array(k));
    uf_w::replay_same_order();
    let b = <Cast6 as KeyInit>::new_from_slice(&k[..]).unwrap();
    assert!(same_bytes!(Cast6, &a, &raw(&b)));
}

// A short key (SYMBOLIC length in {16,20,24,28}) and its explicitly zero-padded 32-byte form give the same cipher
// @ob name=k_padded_same props=C11 fn=cast6::Cast6::new_from_slice uses=c_forward_octave timeout=900
#[kani::proof]
#[kani::stub(forward_octave, st_w_real)]
#[kani::unwind(600)]
fn k_padded_same() {
    let buf: [u8; 32] = kani::any();
    let n: usize = kani::any();
    kani::assume(n == 16 || n == 20 || n == 24 || n == 28);
    kani::cover!(n == 16);
    kani::cover!(n == 28);
    let mut full = [0u8; 32];
    let mut i = 0;
    while i < 32 {
        if i < n { full[i] = buf[i]; }
        i += 1;
    }
    let a = <Cast6 as KeyInit>::new_from_slice(&buf[..n]).unwrap();
    uf_w::replay_same_order();
    let b = <Cast6 as KeyInit>::new(&Array(full));
    assert!(same_bytes!(Cast6, &a, &raw(&b)));
}

// ---------------------------------------------------------------- C13
// @ob name=w_weak props=C13 fn=cast6::Cast6::weak_key_test,cast6::Cast6::new_checked uses=c_forward_octave timeout=900
#[kani::proof]
#[kani::stub(forward_octave, st_w_real)]
#[kani::unwind(600)]
fn w_weak() {
    let k: [u8; 32] = kani::any();
    assert!(<Cast6 as KeyInit>::weak_key_test(&Array(k)).is_ok());
    match <Cast6 as KeyInit>::new_checked(&Array(k)) {
        Ok(c) => {
            uf_w::replay_same_order();
            assert!(same_bytes!(Cast6, &c, &raw(&<Cast6 as KeyInit>::new(&Array(k)))))
        }
        Err(_) => assert!(false),
    }
}

// ---------------------------------------------------------------- C12
// @ob name=k_clone props=C12 fn=cast6::Cast6::clone timeout=300
clone_same!(k_clone, Cast6, any_cast6());

// ---------------------------------------------------------------- C19
// @ob name=n_names props=C19 fn=cast6::Cast6::fmt,cast6::Cast6::write_alg_name timeout=300
names!(n_names, Cast6, any_cast6(), "Cast6");

// ---------------------------------------------------------------- C16
// @ob name=z_drop_own props=C16 cfg=zeroize fn=cast6::Cast6::drop timeout=300
zero_on_drop!(z_drop_own, Cast6, any_cast6());
// @ob name=z_drop_clone props=C16 cfg=zeroize fn=cast6::Cast6::drop,cast6::Cast6::clone timeout=300
zero_on_drop!(z_drop_clone, Cast6, any_cast6().clone());

// ---------------------------------------------------------------- C04 / C15
// @ob name=m_blocks_0 props=C04,C15 kind=bounded bound="n = 0 blocks" fn=cast6::Cast6::encrypt_with_backend,cast6::Cast6::decrypt_with_backend uses=c_encrypt_block,c_decrypt_block timeout=300
multi_block!(m_blocks_0, Cast6, any_cast6(), 0);
// @ob name=m_blocks_1 props=C04,C15 kind=bounded bound="n = 1 block" fn=cast6::Cast6::encrypt_with_backend,cast6::Cast6::decrypt_with_backend uses=c_encrypt_block,c_decrypt_block timeout=300
multi_block!(m_blocks_1, Cast6, any_cast6(), 1);
// @ob name=m_blocks_3 props=C04,C15 kind=bounded bound="n = 3 blocks" fn=cast6::Cast6::encrypt_with_backend,cast6::Cast6::decrypt_with_backend uses=c_encrypt_block,c_decrypt_block timeout=600
multi_block!(m_blocks_3, Cast6, any_cast6(), 3);
