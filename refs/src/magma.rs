//! (reference for magma: to be written)
