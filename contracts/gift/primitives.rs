// Contracts on gift/src/primitives.rs (the fixsliced GIFT-128 building blocks) against the bitwise definition of the
// GIFT paper (bcref::gift).
//
// Representation (measured on the real code, then PROVED by the obligations below for every input):
//   * a state [s0, s1, s2, s3] is the plain bitslicing of the 128-bit state: bit p of s_j is state bit b_{4p+j}
//     (`nib`: bitsliced -> b_127..b_0, `sl`: its inverse);  packing / unpacking convert from / to big-endian bytes;
//   * inside quintuple_round the slices are kept permuted ("fixslicing"); round k (0..4) of a quintuple takes its two
//     round-key words and its constant word in a permuted bit order FS_k: bit e of the word acts on nibble FS_k(e)
//     (`fsperm(k, word)`); rkey[2k] goes to bit 1 of the nibbles (V), rkey[2k+1] to bit 2 (U), rconst[k] to bit 3.
// With that, quintuple_round is five rounds SubCells, PermBits, xor of (U, V, constant) masks of the paper.
//
// @module file=gift/src/primitives.rs
use super::*;
use bcref::gift as g;

/// bitsliced state -> b_127 .. b_0
pub fn nib(s: &[u32; 4]) -> u128 { g::spread(s[0], 0) | g::spread(s[1], 1) | g::spread(s[2], 2) | g::spread(s[3], 3) }
/// b_127 .. b_0 -> bitsliced state (inverse of `nib`)
pub fn sl(x: u128) -> [u32; 4] {
    let mut s = [0u32; 4];
    let mut p = 0;
    while p < 32 {
        let mut j = 0;
        while j < 4 {
            s[j] |= (((x >> (4 * p + j)) & 1) as u32) << p;
            j += 1;
        }
        p += 1;
    }
    s
}
/// FS_k(e): the nibble on which bit e of a round-key / constant word of round k (mod 5) acts
pub const fn fs(k: usize, e: usize) -> usize {
    match k {
        0 => 8 * (3 - e % 4) + e / 4,
        1 => if e < 16 { 30 - 2 * e } else { 63 - 2 * e },
        2 => if e % 2 == 0 { 15 - e / 2 } else { 31 - e / 2 },
        3 => 4 * (e % 8) + 3 - e / 8,
        _ => e,
    }
}
/// word in fixsliced order of round k -> word in nibble order
pub fn fsperm(k: usize, x: u32) -> u32 {
    let mut out = 0u32;
    let mut e = 0;
    while e < 32 {
        out |= ((x >> e) & 1) << fs(k, e);
        e += 1;
    }
    out
}
/// inverse of fsperm(k, .)
pub fn fsperm_inv(k: usize, x: u32) -> u32 {
    let mut out = 0u32;
    let mut e = 0;
    while e < 32 {
        out |= ((x >> fs(k, e)) & 1) << e;
        e += 1;
    }
    out
}

/// contract of quintuple_round on the bitwise state: rounds 5q .. 5q+4 with masks taken from rkey[0..10], rconst[0..5]
pub fn spec_quintuple_bits(x: u128, rkey: &[u32], rconst: &[u32]) -> u128 {
    let mut x = x;
    let mut k = 0;
    while k < 5 {
        x = g::round_masks(x, fsperm(k, rkey[2 * k + 1]), fsperm(k, rkey[2 * k]), fsperm(k, rconst[k]));
        k += 1;
    }
    x
}
pub fn spec_inv_quintuple_bits(x: u128, rkey: &[u32], rconst: &[u32]) -> u128 {
    let mut x = x;
    let mut k = 5;
    while k > 0 {
        k -= 1;
        x = g::inv_round_masks(x, fsperm(k, rkey[2 * k + 1]), fsperm(k, rkey[2 * k]), fsperm(k, rconst[k]));
    }
    x
}
/// the same as stubs (signatures of the real functions)
pub fn spec_quintuple_round(state: &mut [u32; 4], rkey: &[u32], rconst: &[u32]) { *state = sl(spec_quintuple_bits(nib(state), rkey, rconst)); }
pub fn spec_inv_quintuple_round(state: &mut [u32; 4], rkey: &[u32], rconst: &[u32]) { *state = sl(spec_inv_quintuple_bits(nib(state), rkey, rconst)); }
pub fn spec_packing(state: &mut [u32], input: &[u8; 16]) {
    let s = sl(u128::from_be_bytes(*input));
    state[0] = s[0];
    state[1] = s[1];
    state[2] = s[2];
    state[3] = s[3];
}
pub fn spec_unpacking(state: &[u32], output: &mut [u8; 16]) { *output = nib(&[state[0], state[1], state[2], state[3]]).to_be_bytes(); }

// @ob name=l_repr props=C10 kind=lemma fn=gift_cipher::primitives::packing timeout=300 note="nib/sl are mutually inverse, fsperm(k,.) are bit permutations"
#[kani::proof]
#[kani::unwind(34)]
fn l_repr() {
    let x: u128 = kani::any();
    assert!(nib(&sl(x)) == x);
    let s: [u32; 4] = kani::any();
    let t = sl(nib(&s));
    assert!(t[0] == s[0] && t[1] == s[1] && t[2] == s[2] && t[3] == s[3]);
    let w: u32 = kani::any();
    let mut k = 0;
    while k < 5 {
        assert!(fsperm_inv(k, fsperm(k, w)) == w && fsperm(k, fsperm_inv(k, w)) == w);
        k += 1;
    }
}

// @ob name=c_packing props=C10,C20 kind=contract fn=gift_cipher::primitives::packing,gift_cipher::primitives::unpacking,gift_cipher::primitives::swapmove,gift_cipher::primitives::swapmovesingle timeout=300
#[kani::proof]
#[kani::unwind(34)]
fn c_packing() {
    let b: [u8; 16] = kani::any();
    let mut s = [0u32; 4];
    packing(&mut s, &b);
    let e = sl(u128::from_be_bytes(b));
    assert!(s[0] == e[0] && s[1] == e[1] && s[2] == e[2] && s[3] == e[3]);
    let st: [u32; 4] = kani::any();
    let mut o = [0u8; 16];
    unpacking(&st, &mut o);
    assert!(u128::from_be_bytes(o) == nib(&st));
}

// SubCells in bitsliced form: sbox(s0, s1, s2, s3) leaves bit 0 of the new nibbles in s3 and bit 3 in s0 (the callers
// alternate the argument order instead of swapping); inv_sbox follows the same convention.
// @ob name=c_sbox props=C10,C01,C20 kind=contract fn=gift_cipher::primitives::sbox,gift_cipher::primitives::inv_sbox timeout=300
#[kani::proof]
#[kani::unwind(34)]
fn c_sbox() {
    let s: [u32; 4] = kani::any();
    let (mut a, mut b, mut c, mut d) = (s[0], s[1], s[2], s[3]);
    sbox(&mut a, &mut b, &mut c, &mut d);
    assert!(nib(&[d, b, c, a]) == g::sub_cells(nib(&s)));
    // inverse S-box: same convention (bit 0 of the result in the last argument, bit 3 in the first)
    let (mut a2, mut b2, mut c2, mut d2) = (s[0], s[1], s[2], s[3]);
    inv_sbox(&mut a2, &mut b2, &mut c2, &mut d2);
    assert!(nib(&[d2, b2, c2, a2]) == g::inv_sub_cells(nib(&s)));
    // inverse pair
    inv_sbox(&mut d, &mut b, &mut c, &mut a);
    assert!(a == s[0] && b == s[1] && c == s[2] && d == s[3]);
}

fn rotr_fields(x: u32, width: u32, n: u32) -> u32 {
    // every aligned `width`-bit field of x rotated right by n
    let mut out = 0u32;
    let mut i = 0;
    while i < 32 {
        let field = i / width;
        let pos = i % width;
        out |= ((x >> i) & 1) << (field * width + (pos + width - n) % width);
        i += 1;
    }
    out
}
// @ob name=c_rotations props=C10,C20 kind=contract fn=gift_cipher::primitives::ror,gift_cipher::primitives::byte_ror_2,gift_cipher::primitives::byte_ror_4,gift_cipher::primitives::byte_ror_6,gift_cipher::primitives::half_ror_4,gift_cipher::primitives::half_ror_8,gift_cipher::primitives::half_ror_12,gift_cipher::primitives::nibble_ror_1,gift_cipher::primitives::nibble_ror_2,gift_cipher::primitives::nibble_ror_3,gift_cipher::primitives::u32big timeout=300
#[kani::proof]
#[kani::unwind(34)]
fn c_rotations() {
    let x: u32 = kani::any();
    let y: u32 = kani::any();
    kani::assume(y >= 1 && y <= 31); // every call site passes a constant in 8..24 (y = 0 would shift by 32)
    kani::cover!(y == 24);
    assert!(ror(&x, &y) == x.rotate_right(y));
    assert!(byte_ror_2(&x) == rotr_fields(x, 8, 2) && byte_ror_4(&x) == rotr_fields(x, 8, 4) && byte_ror_6(&x) == rotr_fields(x, 8, 6));
    assert!(half_ror_4(&x) == rotr_fields(x, 16, 4) && half_ror_8(&x) == rotr_fields(x, 16, 8) && half_ror_12(&x) == rotr_fields(x, 16, 12));
    assert!(nibble_ror_1(&x) == rotr_fields(x, 4, 1) && nibble_ror_2(&x) == rotr_fields(x, 4, 2) && nibble_ror_3(&x) == rotr_fields(x, 4, 3));
    // inverse pairs used by inv_quintuple_round (C01 ingredients)
    assert!(byte_ror_6(&byte_ror_2(&x)) == x && byte_ror_4(&byte_ror_4(&x)) == x);
    assert!(half_ror_12(&half_ror_4(&x)) == x && half_ror_8(&half_ror_8(&x)) == x);
    assert!(nibble_ror_3(&nibble_ror_1(&x)) == x && nibble_ror_2(&nibble_ror_2(&x)) == x);
    let b: [u8; 4] = kani::any();
    assert!(u32big(&b) == u32::from_be_bytes(b));
}

// swapmove(a, b, mask, n): the bits of b selected by mask are exchanged with the bits of a at those positions + n
// @ob name=c_swapmove props=C10,C01,C20 kind=contract fn=gift_cipher::primitives::swapmove,gift_cipher::primitives::swapmovesingle timeout=300
#[kani::proof]
#[kani::unwind(34)]
fn c_swapmove() {
    let (a0, b0, mask): (u32, u32, u32) = (kani::any(), kani::any(), kani::any());
    let n: u8 = kani::any();
    kani::assume(n < 32 && ((mask as u64) << n) <= u32::MAX as u64);
    kani::cover!(n == 12 && mask == 0x000f000f);
    let (mut a, mut b) = (a0, b0);
    swapmove(&mut a, &mut b, mask, n);
    let hi = mask << n;
    assert!(b == (b0 & !mask) | ((a0 >> n) & mask));
    assert!(a == (a0 & !hi) | ((b0 << n) & hi));
    // an involution
    swapmove(&mut a, &mut b, mask, n);
    assert!(a == a0 && b == b0);
    // the single-word form is swapmove with a = b, for disjoint mask and mask << n
    kani::assume(mask & hi == 0);
    let mut c = a0;
    swapmovesingle(&mut c, mask, n);
    assert!(c == (a0 & !(mask | hi)) | ((a0 >> n) & mask) | ((a0 << n) & hi));
    swapmovesingle(&mut c, mask, n);
    assert!(c == a0);
}

// @ob name=c_quintuple_round props=C10,C20 kind=contract fn=gift_cipher::primitives::quintuple_round timeout=600
#[kani::proof]
#[kani::unwind(130)]
fn c_quintuple_round() {
    let s: [u32; 4] = kani::any();
    let rk: [u32; 10] = kani::any();
    let rc: [u32; 5] = kani::any();
    let mut t = s;
    quintuple_round(&mut t, &rk, &rc);
    assert!(nib(&t) == spec_quintuple_bits(nib(&s), &rk, &rc));
}
// @ob name=c_inv_quintuple_round props=C10,C20 kind=contract fn=gift_cipher::primitives::inv_quintuple_round timeout=600
#[kani::proof]
#[kani::unwind(130)]
fn c_inv_quintuple_round() {
    let s: [u32; 4] = kani::any();
    let rk: [u32; 10] = kani::any();
    let rc: [u32; 5] = kani::any();
    let mut t = s;
    inv_quintuple_round(&mut t, &rk, &rc);
    assert!(nib(&t) == spec_inv_quintuple_bits(nib(&s), &rk, &rc));
}
// @ob name=l_quintuple_inverse props=C01 kind=lemma fn=gift_cipher::primitives::quintuple_round,gift_cipher::primitives::inv_quintuple_round timeout=600
#[kani::proof]
#[kani::unwind(34)]
fn l_quintuple_inverse() {
    let s: [u32; 4] = kani::any();
    let rk: [u32; 10] = kani::any();
    let rc: [u32; 5] = kani::any();
    let mut t = s;
    quintuple_round(&mut t, &rk, &rc);
    inv_quintuple_round(&mut t, &rk, &rc);
    assert!(t[0] == s[0] && t[1] == s[1] && t[2] == s[2] && t[3] == s[3]);
    inv_quintuple_round(&mut t, &rk, &rc);
    quintuple_round(&mut t, &rk, &rc);
    assert!(t[0] == s[0] && t[1] == s[1] && t[2] == s[2] && t[3] == s[3]);
}
