// Contracts on kuznyechik/src/utils.rs (all backends): `l_step`, the in-place step of the linear transformation,
// and the iteration constants KEYGEN, against GOST R 34.12-2015 4.1.2 / 4.2 / 4.3 (bcref::kuznyechik).
//
// Representation: the 16-byte array is the octet string in printed order (byte 0 = a15).  `l_step(msg, i)` does not
// shift the register; instead the register is read through a rotating window: at step i the *logical* block is
//      view(msg, i)[j] = msg[(j - i) mod 16]
// and one step of R on the logical block only rewrites the physical byte (15 - i) mod 16.
//
// @module file=kuznyechik/src/utils.rs
use super::*;
use bcref::kuznyechik as kz;

pub fn view(m: &[u8; 16], i: usize) -> [u8; 16] {
    let mut v = [0u8; 16];
    let mut j = 0;
    while j < 16 {
        v[j] = m[(j + 32 - i) & 15];
        j += 1;
    }
    v
}

/// contract of l_step for 0 <= i < 16: physical byte (15 - i) receives l(logical block), nothing else changes
pub fn spec_l_step(msg: [u8; 16], i: usize) -> [u8; 16] {
    let mut out = msg;
    out[(15 + 16 - i) & 15] = kz::ell(&view(&msg, i));
    out
}

// @ob name=c_get_idx props=C07,C20 fn=kuznyechik::utils::get_idx,kuznyechik::utils::get_m timeout=120
#[kani::proof]
fn c_get_idx() {
    let b: usize = kani::any();
    let i: usize = kani::any();
    kani::assume(b < 16 && i < 16);
    assert!(get_idx(b, i) == (b + 16 - i) % 16);
    let m: [u8; 16] = kani::any();
    assert!(get_m(m, b, i) == m[(b + 16 - i) % 16] as usize);
}

// @ob name=c_l_step props=C07,C20 fn=kuznyechik::utils::l_step timeout=600
#[kani::proof]
#[kani::unwind(17)]
fn c_l_step() {
    let msg: [u8; 16] = kani::any();
    let mut i = 0;
    while i < 16 {
        assert!(kz::eq(&l_step(msg, i), &spec_l_step(msg, i)));
        i += 1;
    }
}

// one step on the window is R on the logical block (data movement only)
// @ob name=l_l_step_is_r props=C07 kind=lemma fn=kuznyechik::utils::l_step uses=c_l_step timeout=300
#[kani::proof]
#[kani::unwind(17)]
fn l_l_step_is_r() {
    let msg: [u8; 16] = kani::any();
    let mut i = 0;
    while i < 16 {
        assert!(kz::eq(&view(&spec_l_step(msg, i), i + 1), &kz::r(&view(&msg, i))));
        i += 1;
    }
    assert!(kz::eq(&view(&msg, 0), &msg) && kz::eq(&view(&msg, 16), &msg));
}

// steps 15, 14, ..., 0 undo it: the same step on the window is R^-1 on the logical block
// @ob name=l_l_step_is_rinv props=C07 kind=lemma fn=kuznyechik::utils::l_step uses=c_l_step timeout=300
#[kani::proof]
#[kani::unwind(17)]
fn l_l_step_is_rinv() {
    let msg: [u8; 16] = kani::any();
    let mut i = 0;
    while i < 16 {
        assert!(kz::eq(&view(&spec_l_step(msg, i), i), &kz::r_inv(&view(&msg, i + 1))));
        i += 1;
    }
}

/// sixteen steps in ascending order / descending order, as every backend and the table generators use them
pub fn l16(mut m: [u8; 16]) -> [u8; 16] {
    let mut i = 0;
    while i < 16 {
        m = l_step(m, i);
        i += 1;
    }
    m
}
pub fn l16_inv(mut m: [u8; 16]) -> [u8; 16] {
    let mut i = 0;
    while i < 16 {
        m = l_step(m, 15 - i);
        i += 1;
    }
    m
}

// @ob name=c_l16 props=C07,C20 fn=kuznyechik::utils::l_step uses=c_l_step timeout=600
#[kani::proof]
#[kani::stub(l_step, spec_l_step)]
#[kani::unwind(17)]
fn c_l16() {
    let msg: [u8; 16] = kani::any();
    assert!(kz::eq(&l16(msg), &kz::l(&msg)));
}

// @ob name=c_l16_inv props=C07,C20 fn=kuznyechik::utils::l_step uses=c_l_step timeout=600
#[kani::proof]
#[kani::stub(l_step, spec_l_step)]
#[kani::unwind(17)]
fn c_l16_inv() {
    let msg: [u8; 16] = kani::any();
    assert!(kz::eq(&l16_inv(msg), &kz::l_inv(&msg)));
}

// KEYGEN[n] = C_{n+1} = L(Vec_128(n+1)), all 32 of them (concrete evaluation)
// @ob name=c_keygen props=C07,C20 kind=exhaustive fn=kuznyechik::utils::KEYGEN timeout=600
#[kani::proof]
#[kani::unwind(33)]
fn c_keygen() {
    let mut n = 0;
    while n < 32 {
        assert!(kz::eq(&KEYGEN[n].0, &kz::c(n + 1)));
        n += 1;
    }
    assert!(core::mem::align_of::<Align16<[u8; 16]>>() == 16 && core::mem::size_of::<Align16<[u8; 16]>>() == 16);
}
