//! (reference for sm4: to be written)
