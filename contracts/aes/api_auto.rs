// The nine public AES types on x86-64 (aes/src/autodetect.rs): a union of the AES-NI and the fixsliced
// implementation selected by a CPUID token.  CPUID / XGETBV are replaced by NON-DETERMINISTIC models, so every
// obligation covers "AES-NI present" and "absent"; key expansions are replaced by injective stand-ins (their own
// contracts: ni.rs c_ni_expand_*, keysched.rs), AESIMC by its model.  Proved: constructors, conversions and clones
// select the arm that matches the token and hold the key material the backend's own constructor produces (C12);
// dropping erases the live arm (C16); Debug / AlgorithmName (C19); weak-key test (C13).
//
// @module file=aes/src/autodetect.rs
// @config name=zeroize features=zeroize
// @crateattr recursion_limit = "2048"
use super::*;
use cipher::{Array, KeyInit};
use core::arch::x86_64::__m128i;
include!("@VERIF@/contracts/_common/common.rs");
include!("@VERIF@/intrinsics/x86_aes.rs");
use crate::soft::__vp_api_soft::{ks128, ks192, ks256};

unsafe fn nk128(key: &[u8; 16]) -> [__m128i; 11] { let mut r = [x86_models::from_b([0; 16]); 11]; r[0] = x86_models::from_b(*key); let mut i = 1; while i < 11 { let mut b = *key; b[0] ^= i as u8; r[i] = x86_models::from_b(b); i += 1; } r }
unsafe fn nk192(key: &[u8; 24]) -> [__m128i; 13] { let mut r = [x86_models::from_b([0; 16]); 13]; let mut a = [0u8; 16]; a.copy_from_slice(&key[..16]); let mut b = [0u8; 16]; b[..8].copy_from_slice(&key[16..]); r[0] = x86_models::from_b(a); r[1] = x86_models::from_b(b); let mut i = 2; while i < 13 { let mut c = a; c[0] ^= i as u8; r[i] = x86_models::from_b(c); i += 1; } r }
unsafe fn nk256(key: &[u8; 32]) -> [__m128i; 15] { let mut r = [x86_models::from_b([0; 16]); 15]; let mut a = [0u8; 16]; a.copy_from_slice(&key[..16]); let mut b = [0u8; 16]; b.copy_from_slice(&key[16..]); r[0] = x86_models::from_b(a); r[1] = x86_models::from_b(b); let mut i = 2; while i < 15 { let mut c = a; c[0] ^= i as u8; r[i] = x86_models::from_b(c); i += 1; } r }

/// injective stand-in for AESIMC in the plumbing obligations (its semantics: ni.rs c_ni_inv_keys_*)
unsafe fn imc_standin(a: __m128i) -> __m128i { let mut b = x86_models::to_b(a); let mut i = 0; while i < 16 { b[i] = b[i].rotate_left(3) ^ 0xa5; i += 1; } x86_models::from_b(b) }

unsafe fn bytes_eq<T>(a: *const T, b: *const T) -> bool {
    // word-wise (all the compared types have sizes that are multiples of 8): 8x fewer loop iterations than byte-wise
    let n = core::mem::size_of::<T>();
    let (p, q) = (a as *const u64, b as *const u64);
    let mut ok = n % 8 == 0;
    let mut i = 0;
    while i < n / 8 {
        ok &= unsafe { core::ptr::read_unaligned(p.add(i)) == core::ptr::read_unaligned(q.add(i)) };
        i += 1;
    }
    ok
}
unsafe fn first_bytes_zero(p: *const u8, n: usize) -> bool {
    let q = p as *const u64;
    let mut ok = n % 8 == 0;
    let mut i = 0;
    while i < n / 8 {
        ok &= unsafe { core::ptr::read_unaligned(q.add(i)) } == 0;
        i += 1;
    }
    ok
}

macro_rules! auto_family {
    ($conv:ident, $convf:ident, $convc:ident, $zero:ident, $names:ident, $weak:ident, $name:ident, $enc:ident, $dec:ident, $kl:expr, $sn:expr, $sne:expr, $snd:expr) => {
        #[kani::proof]
        #[kani::stub(core::arch::x86_64::__cpuid, x86_models::cpuid)]
        #[kani::stub(core::arch::x86_64::__cpuid_count, x86_models::cpuid_count)]
        #[kani::stub(core::arch::x86_64::_xgetbv, x86_models::xgetbv)]
        #[kani::stub(core::arch::x86_64::_mm_aesimc_si128, imc_standin)]
        #[kani::stub(crate::soft::fixslice::aes128_key_schedule, ks128)]
        #[kani::stub(crate::soft::fixslice::aes192_key_schedule, ks192)]
        #[kani::stub(crate::soft::fixslice::aes256_key_schedule, ks256)]
        #[kani::stub(crate::ni::expand::aes128_expand_key, nk128)]
        #[kani::stub(crate::ni::expand::aes192_expand_key, nk192)]
        #[kani::stub(crate::ni::expand::aes256_expand_key, nk256)]
        #[kani::unwind(130)]
        fn $conv() {
            let k: [u8; $kl] = kani::any();
            let key = Array(k);
            let enc = $enc::new(&key);
            let hw = enc.token.get();
            kani::cover!(hw);
            kani::cover!(!hw);
            let full = $name::new(&key);
            let dec = $dec::new(&key);
            // the detection result is stable: every instance carries the same answer
            assert!(full.token.get() == hw && dec.token.get() == hw);
            unsafe {
                if hw {
                    assert!(bytes_eq(&*full.inner.intrinsics, &intrinsics::$name::new(&key)));
                    assert!(bytes_eq(&*enc.inner.intrinsics, &intrinsics::$enc::new(&key)));
                    assert!(bytes_eq(&*dec.inner.intrinsics, &intrinsics::$dec::new(&key)));
                } else {
                    assert!(bytes_eq(&*full.inner.soft, &soft::$name::new(&key)));
                    assert!(bytes_eq(&*enc.inner.soft, &soft::$enc::new(&key)));
                    assert!(bytes_eq(&*dec.inner.soft, &soft::$dec::new(&key)));
                }
            }
        }
        #[kani::proof]
        #[kani::stub(core::arch::x86_64::__cpuid, x86_models::cpuid)]
        #[kani::stub(core::arch::x86_64::__cpuid_count, x86_models::cpuid_count)]
        #[kani::stub(core::arch::x86_64::_xgetbv, x86_models::xgetbv)]
        #[kani::stub(core::arch::x86_64::_mm_aesimc_si128, imc_standin)]
        #[kani::stub(crate::soft::fixslice::aes128_key_schedule, ks128)]
        #[kani::stub(crate::soft::fixslice::aes192_key_schedule, ks192)]
        #[kani::stub(crate::soft::fixslice::aes256_key_schedule, ks256)]
        #[kani::stub(crate::ni::expand::aes128_expand_key, nk128)]
        #[kani::stub(crate::ni::expand::aes192_expand_key, nk192)]
        #[kani::stub(crate::ni::expand::aes256_expand_key, nk256)]
        #[kani::unwind(130)]
        fn $convf() {
            let k: [u8; $kl] = kani::any();
            let key = Array(k);
            let enc = $enc::new(&key);
            let hw = enc.token.get();
            kani::cover!(hw);
            kani::cover!(!hw);
            let f2 = $name::from(&enc);
            let d2 = $dec::from(&enc);
            assert!(f2.token.get() == hw && d2.token.get() == hw);
            unsafe {
                if hw {
                    assert!(bytes_eq(&*f2.inner.intrinsics, &intrinsics::$name::new(&key)));
                    assert!(bytes_eq(&*d2.inner.intrinsics, &intrinsics::$dec::new(&key)));
                } else {
                    assert!(bytes_eq(&*f2.inner.soft, &soft::$name::new(&key)));
                    assert!(bytes_eq(&*d2.inner.soft, &soft::$dec::new(&key)));
                }
            }
            // by value
            let f3 = $name::from($enc::new(&key));
            let d3 = $dec::from($enc::new(&key));
            unsafe {
                if hw {
                    assert!(bytes_eq(&*f3.inner.intrinsics, &*f2.inner.intrinsics) && bytes_eq(&*d3.inner.intrinsics, &*d2.inner.intrinsics));
                } else {
                    assert!(bytes_eq(&*f3.inner.soft, &*f2.inner.soft) && bytes_eq(&*d3.inner.soft, &*d2.inner.soft));
                }
            }
        }
        #[kani::proof]
        #[kani::stub(core::arch::x86_64::__cpuid, x86_models::cpuid)]
        #[kani::stub(core::arch::x86_64::__cpuid_count, x86_models::cpuid_count)]
        #[kani::stub(core::arch::x86_64::_xgetbv, x86_models::xgetbv)]
        #[kani::stub(core::arch::x86_64::_mm_aesimc_si128, imc_standin)]
        #[kani::stub(crate::soft::fixslice::aes128_key_schedule, ks128)]
        #[kani::stub(crate::soft::fixslice::aes192_key_schedule, ks192)]
        #[kani::stub(crate::soft::fixslice::aes256_key_schedule, ks256)]
        #[kani::stub(crate::ni::expand::aes128_expand_key, nk128)]
        #[kani::stub(crate::ni::expand::aes192_expand_key, nk192)]
        #[kani::stub(crate::ni::expand::aes256_expand_key, nk256)]
        #[kani::unwind(130)]
        fn $convc() {
            let k: [u8; $kl] = kani::any();
            let key = Array(k);
            let enc = $enc::new(&key);
            let hw = enc.token.get();
            kani::cover!(hw);
            kani::cover!(!hw);
            let full = $name::new(&key);
            let dec = $dec::from(&enc);
            let (fc, ec, dc) = (full.clone(), enc.clone(), dec.clone());
            assert!(fc.token.get() == hw && ec.token.get() == hw && dc.token.get() == hw);
            unsafe {
                if hw {
                    assert!(bytes_eq(&*fc.inner.intrinsics, &*full.inner.intrinsics) && bytes_eq(&*ec.inner.intrinsics, &*enc.inner.intrinsics) && bytes_eq(&*dc.inner.intrinsics, &*dec.inner.intrinsics));
                } else {
                    assert!(bytes_eq(&*fc.inner.soft, &*full.inner.soft) && bytes_eq(&*ec.inner.soft, &*enc.inner.soft) && bytes_eq(&*dc.inner.soft, &*dec.inner.soft));
                }
            }
        }
        #[kani::proof]
        #[kani::stub(core::arch::x86_64::__cpuid, x86_models::cpuid)]
        #[kani::stub(core::arch::x86_64::__cpuid_count, x86_models::cpuid_count)]
        #[kani::stub(core::arch::x86_64::_xgetbv, x86_models::xgetbv)]
        #[kani::stub(core::arch::x86_64::_mm_aesimc_si128, imc_standin)]
        #[kani::stub(crate::soft::fixslice::aes128_key_schedule, ks128)]
        #[kani::stub(crate::soft::fixslice::aes192_key_schedule, ks192)]
        #[kani::stub(crate::soft::fixslice::aes256_key_schedule, ks256)]
        #[kani::stub(crate::ni::expand::aes128_expand_key, nk128)]
        #[kani::stub(crate::ni::expand::aes192_expand_key, nk192)]
        #[kani::stub(crate::ni::expand::aes256_expand_key, nk256)]
        #[kani::unwind(500)]
        fn $zero() {
            let k: [u8; $kl] = kani::any();
            let key = Array(k);
            let enc = $enc::new(&key);
            let hw = enc.token.get();
            kani::cover!(hw);
            kani::cover!(!hw);
            // live bytes of the instance = the live union arm (the rest of the union's storage is never written)
            let mut m = core::mem::ManuallyDrop::new($name::from(&enc));
            let p = &*m as *const $name as *const u8;
            unsafe { core::mem::ManuallyDrop::drop(&mut m); }
            let n = if hw { core::mem::size_of::<intrinsics::$name>() } else { core::mem::size_of::<soft::$name>() };
            assert!(unsafe { first_bytes_zero(p, n) });
            let mut m = core::mem::ManuallyDrop::new($dec::from(&enc).clone());
            let p = &*m as *const $dec as *const u8;
            unsafe { core::mem::ManuallyDrop::drop(&mut m); }
            let n = if hw { core::mem::size_of::<intrinsics::$dec>() } else { core::mem::size_of::<soft::$dec>() };
            assert!(unsafe { first_bytes_zero(p, n) });
            let mut m = core::mem::ManuallyDrop::new(enc);
            let p = &*m as *const $enc as *const u8;
            unsafe { core::mem::ManuallyDrop::drop(&mut m); }
            let n = if hw { core::mem::size_of::<intrinsics::$enc>() } else { core::mem::size_of::<soft::$enc>() };
            assert!(unsafe { first_bytes_zero(p, n) });
        }
        #[kani::proof]
        #[kani::stub(core::arch::x86_64::__cpuid, x86_models::cpuid)]
        #[kani::stub(core::arch::x86_64::__cpuid_count, x86_models::cpuid_count)]
        #[kani::stub(core::arch::x86_64::_xgetbv, x86_models::xgetbv)]
        #[kani::stub(core::arch::x86_64::_mm_aesimc_si128, imc_standin)]
        #[kani::stub(crate::soft::fixslice::aes128_key_schedule, ks128)]
        #[kani::stub(crate::soft::fixslice::aes192_key_schedule, ks192)]
        #[kani::stub(crate::soft::fixslice::aes256_key_schedule, ks256)]
        #[kani::stub(crate::ni::expand::aes128_expand_key, nk128)]
        #[kani::stub(crate::ni::expand::aes192_expand_key, nk192)]
        #[kani::stub(crate::ni::expand::aes256_expand_key, nk256)]
        #[kani::unwind(130)]
        fn $names() {
            let k1: [u8; $kl] = kani::any();
            let k2: [u8; $kl] = kani::any();
            let (a, b) = ($name::new(&Array(k1)), $name::new(&Array(k2)));
            assert!(debug_text(&a).same(&debug_text(&b)) && debug_text(&a).names($sn) && alg_name_text::<$name>().names($sn));
            let (a, b) = ($enc::new(&Array(k1)), $enc::new(&Array(k2)));
            assert!(debug_text(&a).same(&debug_text(&b)) && debug_text(&a).names($sne) && alg_name_text::<$enc>().names($sne));
            let (a, b) = ($dec::new(&Array(k1)), $dec::new(&Array(k2)));
            assert!(debug_text(&a).same(&debug_text(&b)) && debug_text(&a).names($snd) && alg_name_text::<$dec>().names($snd));
        }
        #[kani::proof]
        #[kani::unwind(130)]
        fn $weak() {
            let k: [u8; $kl] = kani::any();
            let mut upper_zero = true;
            let mut i = 0;
            while i < $kl / 2 {
                upper_zero &= k[i] == 0;
                i += 1;
            }
            kani::cover!(upper_zero);
            let key = Array(k);
            assert!($name::weak_key_test(&key).is_err() == upper_zero);
            assert!($enc::weak_key_test(&key).is_err() == upper_zero);
            assert!($dec::weak_key_test(&key).is_err() == upper_zero);
        }
    };
}
// @ob name=a128_conv props=C12,C15 fn=aes::Aes128::new,aes::Aes128Enc::new,aes::Aes128Dec::new,aes::Aes128::from,aes::Aes128Dec::from,aes::Aes128::clone,aes::Aes128Enc::clone,aes::Aes128Dec::clone uses=c_ni_expand_128,ks_aes128,c_ni_inv_keys_11 timeout=1800
// @ob name=a128_convf props=C12,C15 fn=aes::Aes128::new,aes::Aes128Enc::new,aes::Aes128Dec::new,aes::Aes128::from,aes::Aes128Dec::from,aes::Aes128::clone,aes::Aes128Enc::clone,aes::Aes128Dec::clone uses=c_ni_expand_128,ks_aes128,c_ni_inv_keys_11 timeout=1800
// @ob name=a128_convc props=C12,C15 fn=aes::Aes128::new,aes::Aes128Enc::new,aes::Aes128Dec::new,aes::Aes128::from,aes::Aes128Dec::from,aes::Aes128::clone,aes::Aes128Enc::clone,aes::Aes128Dec::clone uses=c_ni_expand_128,ks_aes128,c_ni_inv_keys_11 timeout=1800
// @ob name=a128_zero props=C16 cfg=zeroize fn=aes::Aes128::drop,aes::Aes128Enc::drop,aes::Aes128Dec::drop uses=c_ni_expand_128,ks_aes128 timeout=1800
// @ob name=a128_names props=C19 fn=aes::Aes128::fmt,aes::Aes128Enc::fmt,aes::Aes128Dec::fmt uses=c_ni_expand_128,ks_aes128 timeout=900
// @ob name=a128_weak props=C13 fn=aes::Aes128::weak_key_test,aes::Aes128Enc::weak_key_test,aes::Aes128Dec::weak_key_test timeout=300
auto_family!(a128_conv, a128_convf, a128_convc, a128_zero, a128_names, a128_weak, Aes128, Aes128Enc, Aes128Dec, 16, "Aes128", "Aes128Enc", "Aes128Dec");
// @ob name=a192_conv props=C12,C15 fn=aes::Aes192::new,aes::Aes192Enc::new,aes::Aes192Dec::new,aes::Aes192::from,aes::Aes192Dec::from,aes::Aes192::clone uses=c_ni_expand_192,ks_aes192,c_ni_inv_keys_13 timeout=1800
// @ob name=a192_convf props=C12,C15 fn=aes::Aes192::new,aes::Aes192Enc::new,aes::Aes192Dec::new,aes::Aes192::from,aes::Aes192Dec::from,aes::Aes192::clone uses=c_ni_expand_192,ks_aes192,c_ni_inv_keys_13 timeout=1800
// @ob name=a192_convc props=C12,C15 fn=aes::Aes192::new,aes::Aes192Enc::new,aes::Aes192Dec::new,aes::Aes192::from,aes::Aes192Dec::from,aes::Aes192::clone uses=c_ni_expand_192,ks_aes192,c_ni_inv_keys_13 timeout=1800
// @ob name=a192_zero props=C16 cfg=zeroize fn=aes::Aes192::drop,aes::Aes192Enc::drop,aes::Aes192Dec::drop uses=c_ni_expand_192,ks_aes192 timeout=1800
// @ob name=a192_names props=C19 fn=aes::Aes192::fmt,aes::Aes192Enc::fmt,aes::Aes192Dec::fmt uses=c_ni_expand_192,ks_aes192 timeout=900
// @ob name=a192_weak props=C13 fn=aes::Aes192::weak_key_test,aes::Aes192Enc::weak_key_test,aes::Aes192Dec::weak_key_test timeout=300
auto_family!(a192_conv, a192_convf, a192_convc, a192_zero, a192_names, a192_weak, Aes192, Aes192Enc, Aes192Dec, 24, "Aes192", "Aes192Enc", "Aes192Dec");
// @ob name=a256_conv props=C12,C15 fn=aes::Aes256::new,aes::Aes256Enc::new,aes::Aes256Dec::new,aes::Aes256::from,aes::Aes256Dec::from,aes::Aes256::clone uses=c_ni_expand_256,ks_aes256,c_ni_inv_keys_15 timeout=1800
// @ob name=a256_convf props=C12,C15 fn=aes::Aes256::new,aes::Aes256Enc::new,aes::Aes256Dec::new,aes::Aes256::from,aes::Aes256Dec::from,aes::Aes256::clone uses=c_ni_expand_256,ks_aes256,c_ni_inv_keys_15 timeout=1800
// @ob name=a256_convc props=C12,C15 fn=aes::Aes256::new,aes::Aes256Enc::new,aes::Aes256Dec::new,aes::Aes256::from,aes::Aes256Dec::from,aes::Aes256::clone uses=c_ni_expand_256,ks_aes256,c_ni_inv_keys_15 timeout=1800
// @ob name=a256_zero props=C16 cfg=zeroize fn=aes::Aes256::drop,aes::Aes256Enc::drop,aes::Aes256Dec::drop uses=c_ni_expand_256,ks_aes256 timeout=1800
// @ob name=a256_names props=C19 fn=aes::Aes256::fmt,aes::Aes256Enc::fmt,aes::Aes256Dec::fmt uses=c_ni_expand_256,ks_aes256 timeout=900
// @ob name=a256_weak props=C13 fn=aes::Aes256::weak_key_test,aes::Aes256Enc::weak_key_test,aes::Aes256Dec::weak_key_test timeout=300
auto_family!(a256_conv, a256_convf, a256_convc, a256_zero, a256_names, a256_weak, Aes256, Aes256Enc, Aes256Dec, 32, "Aes256", "Aes256Enc", "Aes256Dec");
