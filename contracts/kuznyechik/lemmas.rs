// Reference-only lemmas about the linear transformation L of GOST R 34.12-2015 (bcref::kuznyechik), needed to
// justify the fused-table ("LS table") technique of the sse2 / soft backends:
//      L(S(x)) = XOR_i L(unit_i(pi(x_i)))          L^-1(S^-1(x)) = XOR_i L^-1(unit_i(pi^-1(x_i)))  (after S^-1: see below)
// A monolithic statement "L(a ^ b) == L(a) ^ L(b)" is an equivalence of two large XOR networks and times out on
// every SAT solver (> 10 min), so GF(2)-linearity is proved the way one proves it on paper:
//   1. R is additive (one step, byte-local: 6 s);
//   2. L = R^16 is additive: composition of 16 additive maps.  Proved for EVERY additive R: bcref's `r` is replaced by
//      the additive uninterpreted function `auf::f` (only instances of (1) are assumed; licensed by uses=), so the
//      solver sees pure equality reasoning instead of XOR networks (the same statement with the real r inlined and
//      the instances of (1) assumed step by step took 685 s);
//   3. L(x) = XOR_i L(unit_i(x_i)): 15 uses of (2), again for every additive L.
// Same for R^-1 / L^-1.
//
// @module file=kuznyechik/src/lib.rs
use bcref::kuznyechik as kz;

fn any_block() -> [u8; 16] { kani::any() }

// @ob name=l_r_additive props=C07 kind=lemma fn=bcref::kuznyechik::r timeout=300
#[kani::proof]
#[kani::unwind(17)]
fn l_r_additive() {
    let a = any_block();
    let b = any_block();
    assert!(kz::eq(&kz::r(&kz::xor(&a, &b)), &kz::xor(&kz::r(&a), &kz::r(&b))));
}

// @ob name=l_rinv_additive props=C07 kind=lemma fn=bcref::kuznyechik::r_inv timeout=300
#[kani::proof]
#[kani::unwind(17)]
fn l_rinv_additive() {
    let a = any_block();
    let b = any_block();
    assert!(kz::eq(&kz::r_inv(&kz::xor(&a, &b)), &kz::xor(&kz::r_inv(&a), &kz::r_inv(&b))));
}

/// Additive uninterpreted function [u8;16] -> [u8;16] (call log with a concrete call counter): f(0) = 0, and at the calls
/// named by the harness (HINT) - where the argument is the XOR of two earlier arguments, or equal to an earlier one - the
/// result is the XOR of their results (resp. the same result).  Everything else is unconstrained (a search over all
/// pairs instead of hints works too but makes CBMC run out of memory).  It stands for "any GF(2)-linear map";
/// a harness that replaces a function g by it is licensed by the obligation proving g(a ^ b) == g(a) ^ g(b) for all a, b
/// (every constraint imposed here is an instance of that statement, so no behaviour of the real g is excluded).
pub mod auf {
    pub const MAXC: usize = 52;
    pub const NOH: usize = usize::MAX;
    pub const SAME: usize = usize::MAX - 1;
    pub static mut IN: [u128; MAXC] = [0; MAXC];
    pub static mut OUT: [u128; MAXC] = [0; MAXC];
    pub static mut N: usize = 0;
    /// HINT[n] = [i, j]: the n-th call's argument is expected to be IN[i] ^ IN[j] (or IN[i] itself when j = SAME);
    /// only then is the corresponding instance of additivity (functionality) imposed.  A wrong hint imposes nothing.
    pub static mut HINT: [[usize; 2]; MAXC] = [[NOH; 2]; MAXC];
    pub fn hint(n: usize, i: usize, j: usize) { unsafe { HINT[n] = [i, j]; } }
    #[allow(static_mut_refs)]
    pub fn f(xb: &[u8; 16]) -> [u8; 16] {
        unsafe {
            let x = u128::from_le_bytes(*xb);
            let mut y: u128 = kani::any();
            assert!(N < MAXC);
            let [i, j] = HINT[N];
            let mut done = false;
            if i != NOH {
                assert!(i < N);
                if j == SAME {
                    if IN[i] == x { y = OUT[i]; done = true; }
                } else {
                    assert!(j < N);
                    if IN[i] ^ IN[j] == x {
                        if IN[i] == IN[j] { kani::assume(OUT[i] == OUT[j]); } // equal arguments, equal results
                        y = OUT[i] ^ OUT[j];
                        done = true;
                    }
                }
            }
            if !done && x == 0 { y = 0; } // f(0) = f(a ^ a) = 0
            IN[N] = x;
            OUT[N] = y;
            N += 1;
            y.to_le_bytes()
        }
    }
}

// L = R^16 is additive, for every additive R (in particular the real one: l_r_additive)
// @ob name=l_l_additive props=C07 kind=lemma fn=bcref::kuznyechik::l uses=l_r_additive timeout=600
#[kani::proof]
#[kani::stub(bcref::kuznyechik::r, auf::f)]
#[kani::unwind(53)]
fn l_l_additive() {
    // calls 0..15: R^k(a), 16..31: R^k(b), 32..47: R^k(a ^ b) = argument k ^ argument 16 + k
    let mut k = 0;
    while k < 16 { auf::hint(32 + k, k, 16 + k); k += 1; }
    let a = any_block();
    let b = any_block();
    let la = kz::l(&a);
    let lb = kz::l(&b);
    let lab = kz::l(&kz::xor(&a, &b));
    kani::cover!(a[0] == 1 && b[15] == 2 && la[3] == 7);
    assert!(kz::eq(&lab, &kz::xor(&la, &lb)));
}

// @ob name=l_linv_additive props=C07 kind=lemma fn=bcref::kuznyechik::l_inv uses=l_rinv_additive timeout=600
#[kani::proof]
#[kani::stub(bcref::kuznyechik::r_inv, auf::f)]
#[kani::unwind(53)]
fn l_linv_additive() {
    let mut k = 0;
    while k < 16 { auf::hint(32 + k, k, 16 + k); k += 1; }
    let a = any_block();
    let b = any_block();
    let la = kz::l_inv(&a);
    let lb = kz::l_inv(&b);
    let lab = kz::l_inv(&kz::xor(&a, &b));
    kani::cover!(a[0] == 1 && b[15] == 2 && la[3] == 7);
    assert!(kz::eq(&lab, &kz::xor(&la, &lb)));
}

// L(a) = XOR_i L(unit_i(a_i)), for every additive L (in particular the real one: l_l_additive)
// @ob name=l_l_decomp props=C07 kind=lemma fn=bcref::kuznyechik::l uses=l_l_additive timeout=600
#[kani::proof]
#[kani::stub(bcref::kuznyechik::l, auf::f)]
#[kani::unwind(53)]
fn l_l_decomp() {
    // call 0: L(0); call 1 + 2i: L(u_i); call 2 + 2i: L(p_i ^ u_i) = arguments 2i ^ (1 + 2i); call 33: L(a), a = argument 32
    let mut i = 0;
    while i < 16 { auf::hint(2 + 2 * i, 2 * i, 1 + 2 * i); i += 1; }
    auf::hint(33, 32, auf::SAME);
    let a = any_block();
    let mut p = [0u8; 16]; // bytes 0..i of a, rest zero
    let mut acc = kz::l(&p); // XOR_{j<i} L(unit_j(a_j))
    let mut i = 0;
    while i < 16 {
        let u = kz::unit(i, a[i]);
        let lu = kz::l(&u);
        p = kz::xor(&p, &u);
        acc = kz::xor(&acc, &lu);
        assert!(kz::eq(&kz::l(&p), &acc));
        i += 1;
    }
    kani::cover!(a[0] == 1 && a[15] == 2 && acc[3] == 7);
    assert!(kz::eq(&p, &a));
    assert!(kz::eq(&kz::l(&a), &acc));
}

// @ob name=l_linv_decomp props=C07 kind=lemma fn=bcref::kuznyechik::l_inv uses=l_linv_additive timeout=600
#[kani::proof]
#[kani::stub(bcref::kuznyechik::l_inv, auf::f)]
#[kani::unwind(53)]
fn l_linv_decomp() {
    // call 0: L(0); call 1 + 2i: L(u_i); call 2 + 2i: L(p_i ^ u_i) = arguments 2i ^ (1 + 2i); call 33: L(a), a = argument 32
    let mut i = 0;
    while i < 16 { auf::hint(2 + 2 * i, 2 * i, 1 + 2 * i); i += 1; }
    auf::hint(33, 32, auf::SAME);
    let a = any_block();
    let mut p = [0u8; 16];
    let mut acc = kz::l_inv(&p);
    let mut i = 0;
    while i < 16 {
        let u = kz::unit(i, a[i]);
        let lu = kz::l_inv(&u);
        p = kz::xor(&p, &u);
        acc = kz::xor(&acc, &lu);
        assert!(kz::eq(&kz::l_inv(&p), &acc));
        i += 1;
    }
    kani::cover!(a[0] == 1 && a[15] == 2 && acc[3] == 7);
    assert!(kz::eq(&p, &a));
    assert!(kz::eq(&kz::l_inv(&a), &acc));
}

/// XOR_i L(unit_i(a_i))
pub fn spec_l_by_bytes(a: &[u8; 16]) -> [u8; 16] {
    let mut acc = [0u8; 16];
    let mut i = 0;
    while i < 16 {
        acc = kz::xor(&acc, &kz::l(&kz::unit(i, a[i])));
        i += 1;
    }
    acc
}
/// XOR_i L^-1(unit_i(a_i))
pub fn spec_linv_by_bytes(a: &[u8; 16]) -> [u8; 16] {
    let mut acc = [0u8; 16];
    let mut i = 0;
    while i < 16 {
        acc = kz::xor(&acc, &kz::l_inv(&kz::unit(i, a[i])));
        i += 1;
    }
    acc
}

// ------------------------------------------------------------------------------------------------------------------
// Decryption with pre-transformed keys (sse2 / neon / soft backends keep K_10, L^-1(K_9), ..., L^-1(K_2), K_1).

/// decryption keys as the table backends keep them
pub fn spec_inv_keys(enc: &[[u8; 16]; 10]) -> [[u8; 16]; 10] {
    let mut out = [[0u8; 16]; 10];
    out[0] = enc[9];
    let mut i = 1;
    while i < 9 {
        out[9 - i] = kz::l_inv(&enc[i]);
        i += 1;
    }
    out[9] = enc[0];
    out
}

/// What the table backends' decrypt_block computes from the ten words dk it is given, in terms of the standard's S, L:
///   t = L^-1(b ^ dk_0);  t = L^-1(S^-1(t)) ^ dk_i (i = 1..8);  S^-1(t) ^ dk_9
pub fn spec_dec_dk(dk: &[[u8; 16]; 10], b: &[u8; 16]) -> [u8; 16] {
    let mut t = sd_first(&kz::x(&dk[0], b));
    let mut i = 1;
    while i < 9 {
        t = kz::x(&dk[i], &sd_round(&t));
        i += 1;
    }
    kz::x(&dk[9], &sd_last(&t))
}
/// the three stages of spec_dec_dk as named functions (so that composition obligations can replace them: see `tro`)
pub fn sd_first(y: &[u8; 16]) -> [u8; 16] { kz::l_inv(y) }
pub fn sd_round(t: &[u8; 16]) -> [u8; 16] { kz::l_inv(&kz::s_inv(t)) }
pub fn sd_last(t: &[u8; 16]) -> [u8; 16] { kz::s_inv(t) }

// With dk = spec_inv_keys(K) this is the standard's D (4.4.2) under K, for every K and block: additivity of L^-1, 8 times.
// @ob name=l_dec_dk_is_standard props=C07 kind=lemma fn=bcref::kuznyechik::decrypt_with uses=l_linv_additive timeout=900
#[kani::proof]
#[kani::stub(bcref::kuznyechik::l_inv, auf::f)]
#[kani::unwind(53)]
fn l_dec_dk_is_standard() {
    // calls 0..7: L^-1(K_2..K_9) (rk[1..8]); 8: L^-1(K_10 ^ b); 8 + i: L^-1(S^-1(t_{i-1})), i = 1..8;
    // then the standard's D: call 17: same argument as call 8; call 17 + (9 - j), j = 8..1: rk[j] ^ S^-1(..) = argument (j - 1) ^ argument (8 + 9 - j)
    auf::hint(17, 8, auf::SAME);
    let mut j = 1;
    while j <= 8 { auf::hint(17 + (9 - j), j - 1, 8 + (9 - j)); j += 1; }
    let k: [[u8; 16]; 10] = kani::any();
    let b = any_block();
    let dk = spec_inv_keys(&k);
    let via_dk = spec_dec_dk(&dk, &b);
    let std = kz::decrypt_with(&k, &b);
    kani::cover!(b[0] == 1 && via_dk[15] == 2);
    assert!(kz::eq(&via_dk, &std));
}

// ------------------------------------------------------------------------------------------------------------------
// Inverses (for C01).

// @ob name=l_r_inverse props=C01 kind=lemma fn=bcref::kuznyechik::r,bcref::kuznyechik::r_inv timeout=300
#[kani::proof]
#[kani::unwind(17)]
fn l_r_inverse() {
    let a = any_block();
    assert!(kz::eq(&kz::r_inv(&kz::r(&a)), &a));
    assert!(kz::eq(&kz::r(&kz::r_inv(&a)), &a));
}

/// Uninterpreted inverse pair on blocks: fwd and bwd are mutually inverse bijections, otherwise unconstrained
/// (relation table with a concrete call counter; cf. des/tdes.rs `ufp`).
pub mod ipuf {
    pub const MAXC: usize = 40;
    pub static mut X: [u128; MAXC] = [0; MAXC];
    pub static mut Y: [u128; MAXC] = [0; MAXC];
    pub static mut N: usize = 0;
    #[allow(static_mut_refs)]
    pub fn fwd(xb: &[u8; 16]) -> [u8; 16] {
        unsafe {
            let x = u128::from_le_bytes(*xb);
            let mut y: u128 = kani::any();
            let mut found = false;
            let mut i = 0;
            while i < N {
                if !found && X[i] == x { y = Y[i]; found = true; }
                i += 1;
            }
            if !found {
                let mut i = 0;
                while i < N {
                    kani::assume(Y[i] != y); // injective
                    i += 1;
                }
            }
            assert!(N < MAXC);
            X[N] = x; Y[N] = y; N += 1;
            y.to_le_bytes()
        }
    }
    #[allow(static_mut_refs)]
    pub fn bwd(yb: &[u8; 16]) -> [u8; 16] {
        unsafe {
            let y = u128::from_le_bytes(*yb);
            let mut x: u128 = kani::any();
            let mut found = false;
            let mut i = 0;
            while i < N {
                if !found && Y[i] == y { x = X[i]; found = true; }
                i += 1;
            }
            if !found {
                let mut i = 0;
                while i < N {
                    kani::assume(X[i] != x);
                    i += 1;
                }
            }
            assert!(N < MAXC);
            X[N] = x; Y[N] = y; N += 1;
            x.to_le_bytes()
        }
    }
}

// L^-1 L = L L^-1 = id (direct: the sixteen nested cancellations are found by the solver in about a minute)
// @ob name=l_l_inverse props=C01 kind=lemma fn=bcref::kuznyechik::l,bcref::kuznyechik::l_inv timeout=600
#[kani::proof]
#[kani::unwind(17)]
fn l_l_inverse() {
    let a = any_block();
    assert!(kz::eq(&kz::l_inv(&kz::l(&a)), &a));
}
// @ob name=l_l_inverse_rev props=C01 kind=lemma fn=bcref::kuznyechik::l,bcref::kuznyechik::l_inv timeout=600
#[kani::proof]
#[kani::unwind(17)]
fn l_l_inverse_rev() {
    let a = any_block();
    assert!(kz::eq(&kz::l(&kz::l_inv(&a)), &a));
}

// pi^-1 pi = pi pi^-1 = id
// @ob name=l_s_inverse props=C01 kind=lemma fn=bcref::kuznyechik::s,bcref::kuznyechik::s_inv timeout=300
#[kani::proof]
#[kani::unwind(17)]
fn l_s_inverse() {
    let v: u8 = kani::any();
    assert!(kz::PI_INV[kz::PI[v as usize] as usize] == v);
    assert!(kz::PI[kz::PI_INV[v as usize] as usize] == v);
    let a = any_block();
    assert!(kz::eq(&kz::s_inv(&kz::s(&a)), &a));
    assert!(kz::eq(&kz::s(&kz::s_inv(&a)), &a));
}

// LS = L o S and its inverse S^-1 o L^-1, for every inverse pair (L, L^-1) (one use of each)
// @ob name=l_ls_inverse props=C01 kind=lemma fn=bcref::kuznyechik::lsx,bcref::kuznyechik::x_linv_sinv uses=l_l_inverse,l_l_inverse_rev,l_s_inverse timeout=300
#[kani::proof]
#[kani::stub(bcref::kuznyechik::l, ipuf::fwd)]
#[kani::stub(bcref::kuznyechik::l_inv, ipuf::bwd)]
#[kani::unwind(41)]
fn l_ls_inverse() {
    let a = any_block();
    let k = any_block();
    // x_linv_sinv(k, .) undoes lsx(k', .) up to the key additions: S^-1 L^-1 (L S (a ^ k')) = a ^ k'
    let z = [0u8; 16];
    assert!(kz::eq(&kz::x_linv_sinv(&z, &kz::lsx(&k, &a)), &kz::x(&k, &a)));
    assert!(kz::eq(&kz::lsx(&z, &kz::x_linv_sinv(&k, &a)), &kz::x(&k, &a)));
}

/// (LS, (LS)^-1) as an uninterpreted inverse pair behind the reference signatures lsx(k, a) = LS(a ^ k),
/// x_linv_sinv(k, a) = (LS)^-1(a ^ k); licensed by l_ls_inverse
pub fn uf_lsx(k: &[u8; 16], a: &[u8; 16]) -> [u8; 16] { ipuf::fwd(&kz::x(k, a)) }
pub fn uf_x_linv_sinv(k: &[u8; 16], a: &[u8; 16]) -> [u8; 16] { ipuf::bwd(&kz::x(k, a)) }

// D_K(E_K(a)) = a and E_K(D_K(a)) = a for every ten round keys, for every inverse pair (LS, (LS)^-1).
// Together with the conformance obligations of a backend (encrypt_block = E, decrypt_block = D on well-formed key
// material) this is C01 for that backend.
// @ob name=l_ref_roundtrip props=C01 kind=lemma fn=bcref::kuznyechik::encrypt_with,bcref::kuznyechik::decrypt_with uses=l_ls_inverse timeout=900
#[kani::proof]
#[kani::stub(bcref::kuznyechik::lsx, uf_lsx)]
#[kani::stub(bcref::kuznyechik::x_linv_sinv, uf_x_linv_sinv)]
#[kani::unwind(41)]
fn l_ref_roundtrip() {
    let k: [[u8; 16]; 10] = kani::any();
    let a = any_block();
    assert!(kz::eq(&kz::decrypt_with(&k, &kz::encrypt_with(&k, &a)), &a));
}
// @ob name=l_ref_roundtrip_rev props=C01 kind=lemma fn=bcref::kuznyechik::encrypt_with,bcref::kuznyechik::decrypt_with uses=l_ls_inverse timeout=900
#[kani::proof]
#[kani::stub(bcref::kuznyechik::lsx, uf_lsx)]
#[kani::stub(bcref::kuznyechik::x_linv_sinv, uf_x_linv_sinv)]
#[kani::unwind(41)]
fn l_ref_roundtrip_rev() {
    let k: [[u8; 16]; 10] = kani::any();
    let a = any_block();
    assert!(kz::eq(&kz::encrypt_with(&k, &kz::decrypt_with(&k, &a)), &a));
}

// ------------------------------------------------------------------------------------------------------------------
// Uninterpreted stand-ins for REFERENCE functions, used in composition obligations of the backends.
// A composition obligation has the shape  real_caller[callee := callee's contract] == reference_caller,  where the callee's
// contract and the reference caller both call the same reference function g (L, LSX, l, ...).  The two copies of g's XOR
// network on equal inputs are trivially equal on paper but expensive for a SAT solver (no structural sharing), so g is
// replaced on BOTH sides by one uninterpreted function: the obligation then holds for every g, in particular bcref's.
pub mod ruf {
    // One call log per function, each of at most 64 entries: CBMC keeps arrays of up to 64 elements field-sensitive
    // (larger logs are an order of magnitude slower).
    macro_rules! uf2 { ($name:ident) => {
        pub mod $name {
            pub const MAXC: usize = 64;
            pub static mut A: [u128; MAXC] = [0; MAXC];
            pub static mut B: [u128; MAXC] = [0; MAXC];
            pub static mut OUT: [u128; MAXC] = [0; MAXC];
            pub static mut N: usize = 0;
            #[allow(static_mut_refs)]
            pub fn call(a: u128, b: u128) -> [u8; 16] {
                unsafe {
                    let mut y: u128 = kani::any();
                    let mut found = false;
                    let mut i = 0;
                    while i < N {
                        if !found && A[i] == a && B[i] == b { y = OUT[i]; found = true; }
                        i += 1;
                    }
                    assert!(N < MAXC);
                    A[N] = a; B[N] = b; OUT[N] = y; N += 1;
                    y.to_le_bytes()
                }
            }
        }
    }; }
    uf2!(t_l);
    uf2!(t_l_inv);
    uf2!(t_lsx);
    uf2!(t_x_linv_sinv);
    uf2!(t_c);
    uf2!(t_ell);
    fn w(a: &[u8; 16]) -> u128 { u128::from_le_bytes(*a) }
    pub fn l(a: &[u8; 16]) -> [u8; 16] { t_l::call(w(a), 0) }
    pub fn l_inv(a: &[u8; 16]) -> [u8; 16] { t_l_inv::call(w(a), 0) }
    pub fn lsx(k: &[u8; 16], a: &[u8; 16]) -> [u8; 16] { t_lsx::call(w(k), w(a)) }
    pub fn x_linv_sinv(k: &[u8; 16], a: &[u8; 16]) -> [u8; 16] { t_x_linv_sinv::call(w(k), w(a)) }
    pub fn c(i: usize) -> [u8; 16] { t_c::call(i as u128, 0) }
    pub fn ell(a: &[u8; 16]) -> u8 { t_ell::call(w(a), 0)[0] }
}

/// Uninterpreted ADDITIVE INVERSE PAIR on blocks: fwd and bwd are mutually inverse bijections, both GF(2)-additive
/// (f(0) = 0, f(u ^ v) = f(u) ^ f(v) whenever u, v were seen before), otherwise unconstrained.  Stands for (L, L^-1) in
/// round-trip and decryption-key obligations; licensed by l_l_additive, l_linv_additive, l_l_inverse, l_l_inverse_rev
/// (every constraint is an instance of one of these statements about the real L, L^-1).
pub mod aipuf {
    pub const MAXC: usize = 48;
    pub const NOH: usize = usize::MAX;
    pub static mut X: [u128; MAXC] = [0; MAXC];
    pub static mut Y: [u128; MAXC] = [0; MAXC];
    pub static mut N: usize = 0;
    /// HINT[n] = [i, j]: the n-th call's argument is expected to be the XOR of the arguments of calls i and j (same
    /// direction as recorded: X for fwd, Y for bwd); only then is that instance of additivity imposed.
    pub static mut HINT: [[usize; 2]; MAXC] = [[NOH; 2]; MAXC];
    pub fn hint(n: usize, i: usize, j: usize) { unsafe { HINT[n] = [i, j]; } }
    #[allow(static_mut_refs)]
    pub fn fwd(xb: &[u8; 16]) -> [u8; 16] {
        unsafe {
            let x = u128::from_le_bytes(*xb);
            let mut y: u128 = kani::any();
            let mut found = false;
            let mut i = 0;
            while i < N {
                if !found && X[i] == x { y = Y[i]; found = true; }
                i += 1;
            }
            if !found && x == 0 { y = 0; found = true; }
            assert!(N < MAXC);
            if !found {
                let mut i = 0;
                while i < N {
                    kani::assume(Y[i] != y); // injective
                    i += 1;
                }
                let [i, j] = HINT[N];
                if i != NOH {
                    assert!(i < N && j < N);
                    if X[i] ^ X[j] == x { kani::assume(y == Y[i] ^ Y[j]); } // additive
                }
            }
            X[N] = x; Y[N] = y; N += 1;
            y.to_le_bytes()
        }
    }
    #[allow(static_mut_refs)]
    pub fn bwd(yb: &[u8; 16]) -> [u8; 16] {
        unsafe {
            let y = u128::from_le_bytes(*yb);
            let mut x: u128 = kani::any();
            let mut found = false;
            let mut i = 0;
            while i < N {
                if !found && Y[i] == y { x = X[i]; found = true; }
                i += 1;
            }
            if !found && y == 0 { x = 0; found = true; }
            assert!(N < MAXC);
            if !found {
                let mut i = 0;
                while i < N {
                    kani::assume(X[i] != x);
                    i += 1;
                }
                let [i, j] = HINT[N];
                if i != NOH {
                    assert!(i < N && j < N);
                    if Y[i] ^ Y[j] == y { kani::assume(x == X[i] ^ X[j]); }
                }
            }
            X[N] = x; Y[N] = y; N += 1;
            x.to_le_bytes()
        }
    }
}

/// key -> ten round keys, uninterpreted (stand-in for bcref::kuznyechik::key_schedule on both sides of API obligations)
pub mod kuf {
    pub const MAXC: usize = 8;
    pub static mut IN: [[u8; 32]; MAXC] = [[0; 32]; MAXC];
    pub static mut OUT: [[[u8; 16]; 10]; MAXC] = [[[0; 16]; 10]; MAXC];
    pub static mut N: usize = 0;
    #[allow(static_mut_refs)]
    pub fn key_schedule(key: &[u8; 32]) -> [[u8; 16]; 10] {
        unsafe {
            let mut y: [[u8; 16]; 10] = kani::any();
            let mut found = false;
            let mut i = 0;
            while i < N {
                let mut same = true;
                let mut j = 0;
                while j < 32 {
                    same &= IN[i][j] == key[j];
                    j += 1;
                }
                if !found && same { y = OUT[i]; found = true; }
                i += 1;
            }
            assert!(N < MAXC);
            IN[N] = *key; OUT[N] = y; N += 1;
            y
        }
    }
}

/// Transcript oracle for LSX (cf. belt-block/lib.rs `tr`): while RECORD, every call gets a fresh unconstrained answer and
/// (question, answer) is logged; while REPLAY, the k-th call must ask the k-th logged question (asserted) and receives
/// the logged answer.  Sound for "same calls in the same order" compositions: equal questions get equal answers, nothing
/// else is assumed (the recorded answers are not even required to be functional).  Linear in the number of calls.
pub mod tuf {
    pub const MAXC: usize = 64;
    pub static mut K: [u128; MAXC] = [0; MAXC];
    pub static mut A: [u128; MAXC] = [0; MAXC];
    pub static mut OUT: [u128; MAXC] = [0; MAXC];
    pub static mut N: usize = 0;
    pub static mut POS: usize = 0;
    pub static mut REPLAY: usize = 0;
    pub fn start_replay() { unsafe { REPLAY = 1; POS = 0; } }
    #[allow(static_mut_refs)]
    pub fn lsx(kb: &[u8; 16], ab: &[u8; 16]) -> [u8; 16] {
        unsafe {
            let (k, a) = (u128::from_le_bytes(*kb), u128::from_le_bytes(*ab));
            if REPLAY == 0 {
                let y: u128 = kani::any();
                assert!(N < MAXC);
                K[N] = k; A[N] = a; OUT[N] = y; N += 1;
                y.to_le_bytes()
            } else {
                assert!(POS < N);
                assert!(K[POS] == k && A[POS] == a); // same question as the recorded run
                let y = OUT[POS];
                POS += 1;
                y.to_le_bytes()
            }
        }
    }
    pub fn all_replayed() -> bool { unsafe { POS == N } }
}

/// Tagged transcript oracle on blocks (generalises `tuf`; cf. belt-block/lib.rs `tr`, sm4/rr_uf.rs).  While RECORDing, every
/// call gets a fresh unconstrained answer and (tag, question, answer) is logged.  While REPLAYing, the p-th call must ask
/// the logged question number SCHED[p] (identity unless the harness names another, concrete, schedule) with the same tag
/// - this is ASSERTED - and receives the logged answer.  Sound for compositions that make the same calls (in the same or
/// in a harness-named permuted order): equal questions get equal answers and nothing else is assumed, so what is proved
/// holds for EVERY family of functions (one per tag), in particular for
///      LS   = L o S          = `transform(., &ENC_TABLE)` of the table backends (their contract) = bcref lsx(k, a) at a ^ k
///      LISI = L^-1 o S^-1    = `transform(., &DEC_TABLE)`
///      S, SI = S, S^-1       = `sub_bytes(., &P)`, `sub_bytes(., &P_INV)`
/// Linear in the number of calls (the Ackermann tables of `ruf` are quadratic and made the 10-round compositions time out).
pub mod tro {
    pub const MAXC: usize = 64;
    pub const LS: usize = 1;
    pub const LISI: usize = 2;
    pub const S: usize = 3;
    pub const SI: usize = 4;
    pub static mut TAG: [usize; MAXC] = [0; MAXC];
    pub static mut Q: [u128; MAXC] = [0; MAXC];
    pub static mut OUT: [u128; MAXC] = [0; MAXC];
    pub static mut SCHED: [usize; MAXC] = {
        let mut s = [0; MAXC];
        let mut i = 0;
        while i < MAXC { s[i] = i; i += 1; }
        s
    };
    pub static mut N: usize = 0;
    pub static mut POS: usize = 0;
    pub static mut REPLAY: usize = 0;
    pub fn start_replay() { unsafe { REPLAY = 1; POS = 0; } }
    /// the p-th replayed call repeats the recorded call number `rec`
    pub fn sched(p: usize, rec: usize) { unsafe { SCHED[p] = rec; } }
    pub fn recorded() -> usize { unsafe { N } }
    pub fn all_replayed() -> bool { unsafe { POS == N } }
    #[allow(static_mut_refs)]
    pub fn ask(tag: usize, q: u128) -> u128 {
        unsafe {
            if REPLAY == 0 {
                let y: u128 = kani::any();
                assert!(N < MAXC);
                TAG[N] = tag; Q[N] = q; OUT[N] = y; N += 1;
                y
            } else {
                assert!(POS < N);
                let r = SCHED[POS];
                assert!(r < N);
                assert!(TAG[r] == tag && Q[r] == q); // same question as the recorded call
                POS += 1;
                OUT[r]
            }
        }
    }
    fn w(a: &[u8; 16]) -> u128 { u128::from_le_bytes(*a) }
    // ---- stand-ins for REFERENCE functions (bcref / the spec functions above), each with its justification
    /// bcref lsx(k, a) = L(S(k ^ a)) by definition
    pub fn lsx(k: &[u8; 16], a: &[u8; 16]) -> [u8; 16] { ask(LS, w(&bcref::kuznyechik::x(k, a))).to_le_bytes() }
    pub fn s(a: &[u8; 16]) -> [u8; 16] { ask(S, w(a)).to_le_bytes() }
    pub fn s_inv(a: &[u8; 16]) -> [u8; 16] { ask(SI, w(a)).to_le_bytes() }
    /// sd_first(y) = L^-1(y) = (L^-1 o S^-1)(S(y))   (l_s_inverse: S^-1(S(y)) = y)
    pub fn sd_first(y: &[u8; 16]) -> [u8; 16] { let t = ask(S, w(y)); ask(LISI, t).to_le_bytes() }
    /// sd_round(t) = L^-1(S^-1(t)) by definition
    pub fn sd_round(t: &[u8; 16]) -> [u8; 16] { ask(LISI, w(t)).to_le_bytes() }
    /// sd_last(t) = S^-1(t) by definition
    pub fn sd_last(t: &[u8; 16]) -> [u8; 16] { ask(SI, w(t)).to_le_bytes() }
}
