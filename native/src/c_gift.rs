//! gift (package gift-cipher): Gift128 against the GIFT paper (bcref::gift), C10.
use crate::generic::*;
use crate::util::*;
use bcref::gift as r;

desc!(DGift: gift_cipher::Gift128, "gift", "Gift128", [16], "C10", [clone, debug, alg], names ["Gift128"], alg ["gift", "128"],
    |k, b, dec| Some(if dec { r::decrypt_bytes(&arr(k), &arr(b)) } else { r::encrypt_bytes(&arr(k), &arr(b)) }.to_vec()));

pub fn run() {
    visit::<DGift>();
}
