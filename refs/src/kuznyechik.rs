//! (reference for kuznyechik: to be written)
