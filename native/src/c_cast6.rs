//! cast6: Cast6 with 128/160/192/224/256-bit keys against RFC 2612 (bcref::cast6), C08; C11: short key == zero-padded key.
use crate::generic::*;
use crate::util::*;
use bcref::cast6 as r;
use cipher::KeyInit;

desc!(DCast6: cast6::Cast6, "cast6", "Cast6", [16, 20, 24, 28, 32], "C08", [clone, debug, alg], names ["Cast6"], alg ["cast6"],
    |k, b, dec| {
        let key: [u8; 32] = padded(k);
        Some(if dec { r::decrypt(&key, k.len(), &arr(b)) } else { r::encrypt(&key, k.len(), &arr(b)) }.to_vec())
    });

fn c11_padding() {
    set_prop("C11");
    let mut rng = Rng::for_label("C11/cast6/padding");
    for i in 0..(iters() / 4).max(20) {
        let len = [16usize, 20, 24, 28][i % 4];
        let key = rng.bytes(len);
        let full: [u8; 32] = padded(&key);
        input(&[("key", &key), ("padded_key", &full)]);
        guard("short key vs padded key", || {
            let (Ok(a), Ok(b)) = (cast6::Cast6::new_from_slice(&key), cast6::Cast6::new_from_slice(&full)) else { return };
            same_cipher("short key and its zero-padded 256-bit form give different ciphers", &a, &b, &|c, x| probe_full(c, x), 16, &mut rng);
        });
    }
}

pub fn run() {
    visit::<DCast6>();
    if want("C11") {
        c11_padding();
    }
}
