// Contracts on gift/src/key_schedule.rs: precompute_rkeys against the key schedule of the GIFT paper, section 2.2
// (bcref::gift::key_schedule), in the fixsliced word order proved for quintuple_round (primitives.rs):
// for round r = 5q + k the real table holds  rkey[2r] = FS_k^-1(V_r)  and  rkey[2r + 1] = FS_k^-1(U_r).
// The private helpers (rearrange_rkey_0..3, key_update, key_double_update_1..4, key_triple_update_0..4) are covered
// jointly by this statement (every word of the table depends on them); key_update has its own contract.
//
// @module file=gift/src/key_schedule.rs
use super::*;
use crate::primitives::__vp_primitives::{fsperm, fsperm_inv};
use bcref::gift as g;

/// contract of precompute_rkeys as a spec function (stub for the API obligations)
pub fn spec_precompute_rkeys(key: &[u8; 16]) -> [u32; 80] {
    let ks = g::key_schedule(u128::from_be_bytes(*key));
    let mut out = [0u32; 80];
    let mut r = 0;
    while r < 40 {
        out[2 * r] = fsperm_inv(r % 5, ks[r].1);
        out[2 * r + 1] = fsperm_inv(r % 5, ks[r].0);
        r += 1;
    }
    out
}

// @ob name=c_precompute_rkeys props=C10,C20 kind=contract timeout=600
//     fn=gift_cipher::key_schedule::precompute_rkeys,gift_cipher::key_schedule::rearrange_rkey_0,gift_cipher::key_schedule::rearrange_rkey_1,gift_cipher::key_schedule::rearrange_rkey_2,gift_cipher::key_schedule::rearrange_rkey_3,gift_cipher::key_schedule::key_update,gift_cipher::key_schedule::key_triple_update_0,gift_cipher::key_schedule::key_double_update_1,gift_cipher::key_schedule::key_triple_update_1,gift_cipher::key_schedule::key_double_update_2,gift_cipher::key_schedule::key_triple_update_2,gift_cipher::key_schedule::key_double_update_3,gift_cipher::key_schedule::key_triple_update_3,gift_cipher::key_schedule::key_double_update_4,gift_cipher::key_schedule::key_triple_update_4
#[kani::proof]
#[kani::unwind(42)]
fn c_precompute_rkeys() {
    let key: [u8; 16] = kani::any();
    let rk = precompute_rkeys(&key);
    let ks = g::key_schedule(u128::from_be_bytes(key));
    let mut r = 0;
    while r < 40 {
        assert!(fsperm(r % 5, rk[2 * r]) == ks[r].1);
        assert!(fsperm(r % 5, rk[2 * r + 1]) == ks[r].0);
        r += 1;
    }
}

// key_update on a word k1 || k0 is the paper's update of the two words that re-enter the key state: k1 >>> 2 || k0 >>> 12
// @ob name=c_key_update props=C10,C20 kind=contract fn=gift_cipher::key_schedule::key_update timeout=120
#[kani::proof]
fn c_key_update() {
    let x: u32 = kani::any();
    let k1 = (x >> 16) as u16;
    let k0 = x as u16;
    assert!(key_update(&x) == ((k1.rotate_right(2) as u32) << 16) | k0.rotate_right(12) as u32);
    // and it is what bcref::gift::key_update puts into k7 || k6
    let rest: u128 = kani::any();
    let st = (rest << 32) | x as u128;
    assert!((g::key_update(st) >> 96) as u32 == key_update(&x));
}
