// API-level contracts for the serpent crate (child of lib.rs): key lengths and constructor equivalences (C11),
// clone (C12), weak-key test (C13), multi-block plumbing and state immutability (C04, C15), zeroize on drop (C16),
// Debug / AlgorithmName (C19).
//
// @module file=serpent/src/lib.rs
// @config name=zeroize features=zeroize
use super::*;
use crate::__vp_cipher::{any_serpent, eq_rk};
use cipher::Array;
include!("@VERIF@/contracts/_common/common.rs");
include!("@VERIF@/contracts/serpent/shared_api.inc");
uf_block_fns!(Serpent);

// ---------------------------------------------------------------- C11 key lengths (the real key schedule, nothing stubbed)
// @ob name=k_len props=C11,C20 kind=bounded bound="slice length <= 300" fn=serpent::Serpent::new_from_slice timeout=600
#[kani::proof]
#[kani::unwind(141)]
fn k_len() {
    let buf: [u8; 301] = kani::any();
    let n: usize = kani::any();
    kani::assume(n <= 300);
    kani::cover!(n == 0);
    kani::cover!(n == 15);
    kani::cover!(n == 16);
    kani::cover!(n == 32);
    kani::cover!(n == 33);
    kani::cover!(n == 300);
    let r = <Serpent as KeyInit>::new_from_slice(&buf[..n]);
    assert!(r.is_ok() == (16 <= n && n <= 32));
}

// A fixed-size (16-byte) key and the same bytes as a slice give the same cipher
// @ob name=k_slice_same props=C11 fn=serpent::Serpent::new,serpent::Serpent::new_from_slice timeout=600
#[kani::proof]
#[kani::unwind(141)]
fn k_slice_same() {
    let k: [u8; 16] = kani::any();
    let a = <Serpent as KeyInit>::new(&Array(k));
    let b = <Serpent as KeyInit>::new_from_slice(&k[..]).unwrap();
    assert!(eq_rk(&a.round_keys, &b.round_keys));
}

// A short key (SYMBOLIC length 16..=31) and its explicitly padded 32-byte form (0x01, then zeros) give the same cipher
// @ob name=k_padded_same props=C11 fn=serpent::Serpent::new_from_slice,serpent::expand_key timeout=900
#[kani::proof]
#[kani::unwind(141)]
fn k_padded_same() {
    let buf: [u8; 32] = kani::any();
    let n: usize = kani::any();
    kani::assume(16 <= n && n < 32);
    kani::cover!(n == 16);
    kani::cover!(n == 31);
    let mut full = [0u8; 32];
    let mut i = 0;
    while i < 32 {
        if i < n { full[i] = buf[i]; }
        i += 1;
    }
    full[n] = 0x01;
    let a = <Serpent as KeyInit>::new_from_slice(&buf[..n]).unwrap();
    let b = <Serpent as KeyInit>::new_from_slice(&full[..]).unwrap();
    assert!(eq_rk(&a.round_keys, &b.round_keys));
}

// ---------------------------------------------------------------- C13: no weak keys; new_checked == new
// @ob name=w_weak props=C13 fn=serpent::Serpent::weak_key_test,serpent::Serpent::new_checked timeout=600
#[kani::proof]
#[kani::unwind(141)]
fn w_weak() {
    let k: [u8; 16] = kani::any();
    assert!(<Serpent as KeyInit>::weak_key_test(&Array(k)).is_ok());
    match <Serpent as KeyInit>::new_checked(&Array(k)) {
        Ok(c) => assert!(eq_rk(&c.round_keys, &<Serpent as KeyInit>::new(&Array(k)).round_keys)),
        Err(_) => assert!(false),
    }
}

// ---------------------------------------------------------------- C12
// @ob name=k_clone props=C12 fn=serpent::Serpent::clone timeout=300
clone_same!(k_clone, Serpent, any_serpent());

// ---------------------------------------------------------------- C19
// @ob name=n_names props=C19 fn=serpent::Serpent::fmt,serpent::Serpent::write_alg_name timeout=300
names!(n_names, Serpent, any_serpent(), "Serpent");

// ---------------------------------------------------------------- C16
// @ob name=z_drop_own props=C16 cfg=zeroize fn=serpent::Serpent::drop timeout=300
zero_on_drop!(z_drop_own, Serpent, any_serpent());
// @ob name=z_drop_clone props=C16 cfg=zeroize fn=serpent::Serpent::drop,serpent::Serpent::clone timeout=300
zero_on_drop!(z_drop_clone, Serpent, any_serpent().clone());

// ---------------------------------------------------------------- C04 / C15
// @ob name=m_blocks_0 props=C04,C15 kind=bounded bound="n = 0 blocks" fn=serpent::Serpent::encrypt_with_backend,serpent::Serpent::decrypt_with_backend uses=c_encrypt_block_un,c_decrypt_block_un timeout=300
multi_block!(m_blocks_0, Serpent, any_serpent(), 0);
// @ob name=m_blocks_1 props=C04,C15 kind=bounded bound="n = 1 block" fn=serpent::Serpent::encrypt_with_backend,serpent::Serpent::decrypt_with_backend uses=c_encrypt_block_un,c_decrypt_block_un timeout=300
multi_block!(m_blocks_1, Serpent, any_serpent(), 1);
// @ob name=m_blocks_3 props=C04,C15 kind=bounded bound="n = 3 blocks" fn=serpent::Serpent::encrypt_with_backend,serpent::Serpent::decrypt_with_backend uses=c_encrypt_block_un,c_decrypt_block_un timeout=600
multi_block!(m_blocks_3, Serpent, any_serpent(), 3);
