// C17 through the public API aes::hazmat::* (aes/src/hazmat.rs): runtime dispatch on CPUID (non-deterministic model:
// both outcomes) to the AES-NI functions (instruction models) or the fixsliced functions (leaf contracts); either
// way the result is the FIPS-197 round transformation.
//
// @module file=aes/src/hazmat.rs modcfg='feature="hazmat"'
// @config name=hazmat features=hazmat
// @crateattr recursion_limit = "2048"
use super::*;
use bcref::aes as fips;
use cipher::Array;
include!("@VERIF@/intrinsics/x86_aes.rs");

fn eq(a: &[u8; 16], b: &[u8; 16]) -> bool {
    let mut ok = true;
    let mut i = 0;
    while i < 16 {
        ok &= a[i] == b[i];
        i += 1;
    }
    ok
}
// @ob name=h_api_single props=C17,C03,C20 cfg=hazmat fn=aes::hazmat::cipher_round,aes::hazmat::equiv_inv_cipher_round,aes::hazmat::inv_mix_columns uses=h_soft_single,h_ni_single timeout=1800
#[kani::proof]
#[kani::stub(crate::soft::fixslice::bitslice, crate::soft::fixslice::__vp_fixslice::spec_bitslice_fn)]
#[kani::stub(crate::soft::fixslice::inv_bitslice, crate::soft::fixslice::__vp_fixslice::spec_inv_bitslice_fn)]
#[kani::stub(crate::soft::fixslice::sub_bytes, crate::soft::fixslice::__vp_fixslice::spec_sub_bytes)]
#[kani::stub(crate::soft::fixslice::sub_bytes_nots, crate::soft::fixslice::__vp_fixslice::spec_sub_bytes_nots)]
#[kani::stub(crate::soft::fixslice::inv_sub_bytes, crate::soft::fixslice::__vp_fixslice::spec_inv_sub_bytes)]
#[kani::stub(crate::soft::fixslice::shift_rows_1, crate::soft::fixslice::__vp_fixslice::spec_shift_rows_1)]
#[kani::stub(crate::soft::fixslice::shift_rows_3, crate::soft::fixslice::__vp_fixslice::spec_shift_rows_3)]
#[kani::stub(crate::soft::fixslice::mix_columns_0, crate::soft::fixslice::__vp_fixslice::spec_mix_columns_0)]
#[kani::stub(crate::soft::fixslice::inv_mix_columns_0, crate::soft::fixslice::__vp_fixslice::spec_inv_mix_columns_0)]
#[kani::stub(core::arch::x86_64::__cpuid, x86_models::cpuid)]
#[kani::stub(core::arch::x86_64::__cpuid_count, x86_models::cpuid_count)]
#[kani::stub(core::arch::x86_64::_xgetbv, x86_models::xgetbv)]
#[kani::stub(core::arch::x86_64::_mm_aesenc_si128, x86_models::aesenc)]
#[kani::stub(core::arch::x86_64::_mm_aesdec_si128, x86_models::aesdec)]
#[kani::stub(core::arch::x86_64::_mm_aesimc_si128, x86_models::aesimc)]
#[kani::unwind(20)]
fn h_api_single() {
    let b: [u8; 16] = kani::any();
    let k: [u8; 16] = kani::any();
    let key = Array(k);
    let mut x = Array(b);
    cipher_round(&mut x, &key);
    assert!(eq(&x.0, &fips::cipher_round(&b, &k)));
    let mut x = Array(b);
    equiv_inv_cipher_round(&mut x, &key);
    assert!(eq(&x.0, &fips::equiv_inv_cipher_round(&b, &k)));
    let mut x = Array(b);
    inv_mix_columns(&mut x);
    assert!(eq(&x.0, &fips::inv_mix_columns(&b)));
}
